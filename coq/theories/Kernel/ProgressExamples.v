(* C04 progress (extension M): non-vacuity.  A greedy scheduler (first enabled event in a fixed order) runs concrete
   programs of the composed system to quiescence; the hypotheses of the theorems are satisfied by non-trivial reachable
   states, and the end-of-run predicate holds at the quiescent states reached. *)
From Coq Require Import List Bool Arith NArith ZArith Lia.
From QV Require Import Kernel.GenSpawnTable Kernel.Placement Kernel.Model Kernel.ProofsKernel Kernel.ProofsPin
     Kernel.Progress Kernel.ProgressInv Kernel.ProgressProofs Kernel.ProgressMeasure Kernel.ProgressEnabled
     Kernel.ProgressCinv Kernel.ProgressCompletion Kernel.ProgressFinal.
From QV Require TQueue.Model TQueue.Proofs.
Import ListNotations.

Definition cands (k : state) : list cev :=
  flat_map (fun s => flat_map (fun w => [EMaster s w; EBody s w; EDispatch s w; EPop s w] ++
                                        map (fun v => ESteal s w v) (seq 0 k.(nsh))) (seq 0 k.(nwk))) (seq 0 k.(nsh))
  ++ flat_map (fun t => [EWake t 0 1; ELaunch t 0; EIoDone t]) (seq 0 k.(next)).
Fixpoint first_step (c : cstate) (es : list cev) : option (cev * cstate) :=
  match es with
  | [] => None
  | e :: r => match cstep c e with Some c' => Some (e, c') | None => first_step c r end
  end.
Fixpoint greedy (fuel : nat) (c : cstate) (log : list cev) : cstate * list cev :=
  match fuel with
  | 0 => (c, rev log)
  | S f => match first_step c (cands c.(ck)) with Some (e, c') => greedy f c' (e :: log) | None => (c, rev log) end
  end.

Definition r_fork := mkRow true false false false false 0 0 false.
Definition r_fork_to := mkRow true false true false false 0 0 false.
Definition r_copy := mkRow true true false false false 0 0 false.
Definition r_precond := mkRow true false false true false 0 0 false.
Definition r_simple_ := mkRow true true false false true 1 0 false.

(* main spawns five tasks (one pinned to shepherd 1 that blocks, one with copied arguments that migrates and makes a
   system call, one nascent on an unsatisfied precondition, one QTHREAD_SIMPLE that spawns a grandchild), one spawn fails *)
Definition prog1 : list bop :=
  [ BStore 5 [1; 2; 3]%N;
    BSpawn r_fork None 0 7 false [BYield; BSpawn r_fork_to (Some 1) 0 8 false [BBlock; BYield]];
    BSpawn r_copy None 3 5 false [BMigrate (Some 1); BSyscall; BNoBlock];
    BSpawnFail r_fork None 0 9;
    BSpawn r_precond None 0 11 true [BMigrate None];
    BSpawn r_simple_ None 8 5 false [BSpawn r_fork None 0 12 false []];
    BYield ].

Definition end1 := greedy 400 (cinit 2 2 1024 0 prog1) [].

(* a reachable quiescent state (63 events): no event of the list is enabled, 6 tasks were created and everything is done *)
Example run1_quiescent :
  first_step (fst end1) (cands (fst end1).(ck)) = None /\ (fst end1).(ck).(next) = 7 /\
  cquiescent_ok (fst end1) = true /\ crun (cinit 2 2 1024 0 prog1) (snd end1) = Some (fst end1) /\
  wf_prog prog1 = true.
Proof. vm_compute. repeat split; reflexivity. Qed.

(* the measure bounds the length of this execution *)
Example run1_length : length (snd end1) <= measure (cinit 2 2 1024 0 prog1).
Proof. vm_compute. repeat constructor. Qed.

(* hypotheses of enabled_if_work_steal are satisfiable: after main (2x1, never leaving worker 0.0) has spawned two
   stealable tasks, the idle worker 1.0 can steal from shepherd 0 *)
Definition st2 := crun (cinit 2 1 1024 0 [BSpawn r_fork None 0 7 false []; BSpawn r_fork None 0 8 false [BYield]; BYield])
                       [EBody 0 0; EBody 0 0].
Example steal_hyps :
  match st2 with
  | Some c => idle c.(ck) 1 0 = true /\ TQueue.Model.items (TQueue.Model.getq c.(cs) 1) = [] /\
              TQueue.Model.count_stl (TQueue.Model.items (TQueue.Model.getq c.(cs) 0)) = 2 /\
              (exists c', cstep c (ESteal 1 0 0) = Some c') /\ (exists c', cstep c (EPop 0 0) = None /\ c' = c)
  | None => False
  end.
Proof. vm_compute. repeat split; eauto. Qed.

(* a failed spawn: the model outcome for a non-zero return code of the return-location preparation *)
Example spawn_fail_example :
  spawn_call (init 2 2 1024) (Some (0, 0)) r_fork None 0 7 false (Some 12) = SpawnFailed 12 (init 2 2 1024).
Proof. reflexivity. Qed.

(* the hypotheses of the completion theorem are satisfied by that execution: its last state is reachable, no event of the
   runtime is enabled (checked over the finitely many candidate events, lifted by stuck_of_check) and nobody is left waiting
   except main in its final wait; hence the theorem's conclusion holds for it (6 tasks, all TERMINATED / started once / freed) *)
Example completion_hyps :
  exists c, crun (cinit 2 2 1024 0 prog1) (snd end1) = Some c /\ stuck c /\ released c /\ c.(ck).(next) = 7.
Proof.
  exists (fst end1).
  assert (R : crun (cinit 2 2 1024 0 prog1) (snd end1) = Some (fst end1)) by (vm_compute; reflexivity).
  assert (I : cinv (fst end1)).
  { eapply (reachable_cinv 2 2 1024 0%Z prog1 (snd end1)); [lia|lia|lia|vm_compute; reflexivity|exact R]. }
  split; [exact R|]. split; [apply stuck_of_check; [exact I|vm_compute; reflexivity]|].
  split; [|vm_compute; reflexivity].
  apply released_of_check; [destruct I as ((ND & _) & _); exact (proj1 ND)|vm_compute; reflexivity].
Qed.

(* a schedule that prefers stealing: 2 shepherds x 1 worker, the idle worker 1.0 steals before main yields *)
Definition sched3 : list cev := [EBody 0 0; EBody 0 0; ESteal 1 0 0; EDispatch 1 0; EBody 1 0; EMaster 1 0].
Example steal_then_run :
  match crun (cinit 2 1 1024 0 [BSpawn r_fork None 0 7 false []; BSpawn r_fork None 0 8 false [BYield]; BYield]) sched3 with
  | Some c => place_of 1 c.(ck).(places) = Some Freed /\ idle c.(ck) 1 0 = true
  | None => False
  end.
Proof. vm_compute. split; reflexivity. Qed.
