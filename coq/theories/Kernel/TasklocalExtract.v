From Coq Require Import List NArith.
From QV Require Import Kernel.Ident Kernel.Tasklocal.
Require Extraction.
Require Import ExtrOcamlBasic.
Extraction Language OCaml.
Extraction "../ocaml/gen/c09_model.ml" id_alloc qthread_id alloc_seq init thread_new get_tasklocal size_tasklocal tl_view tl_region arg_view arg_region tl_write thread_free tl_off.
