(* C04 progress (extension M), proofs part 3: the progress measure.  possum = sum over all task references of their distance
   to the next body step (Progress.pos), progsum = number of body operations still to be executed (children included);
   every kernel label changes possum by a bounded amount (label_delta), every step of the composed system strictly
   decreases 8 * progsum + possum. *)
From Coq Require Import List Bool Arith NArith ZArith Lia.
From QV Require Import Kernel.GenSpawnTable Kernel.Placement Kernel.ProofsPlacement Kernel.Model Kernel.ProofsKernel
     Kernel.ProofsC07 Kernel.ProofsPin Kernel.Progress Kernel.ProgressInv.
Import ListNotations.

Lemma possum_upd_other t f ps ts : ~ In t (map fst ps) -> possum ps (upd_task t f ts) = possum ps ts.
Proof.
  induction ps as [|[k l] r IH]; cbn; intros N; [reflexivity|].
  rewrite get_upd. destruct (t =? k) eqn:E; [apply Nat.eqb_eq in E; subst; tauto|]. rewrite IH; tauto.
Qed.

Lemma drop_tid_notin t ps : ~ In t (map fst (drop_tid t ps)).
Proof. intros X. apply in_fst_drop_tid in X. tauto. Qed.

Lemma drop_tid_id t ps : ~ In t (map fst ps) -> drop_tid t ps = ps.
Proof.
  unfold drop_tid. induction ps as [|[k l] r IH]; cbn; intros N; [reflexivity|].
  destruct (k =? t) eqn:E; [apply Nat.eqb_eq in E; subst; tauto|]. cbn. rewrite IH; tauto.
Qed.

Lemma possum_drop t l x ps ts :
  NoDup (map fst ps) -> place_of t ps = Some l -> get_task t ts = Some x ->
  possum ps ts = pos l x + possum (drop_tid t ps) ts.
Proof.
  induction ps as [|[k v] r IH]; intros ND P G; [discriminate P|].
  cbn [map fst] in ND. inversion ND as [|? ? Hn ND']; subst. cbn [place_of] in P.
  destruct (k =? t) eqn:E.
  - apply Nat.eqb_eq in E; subst k. inversion P; subst.
    replace (drop_tid t ((t, l) :: r)) with (drop_tid t r) by (unfold drop_tid; cbn; rewrite Nat.eqb_refl; reflexivity).
    rewrite drop_tid_id; auto. cbn [possum]. rewrite G. reflexivity.
  - replace (drop_tid t ((k, v) :: r)) with ((k, v) :: drop_tid t r) by (unfold drop_tid; cbn; rewrite E; reflexivity).
    cbn [possum]. rewrite (IH ND' P G). lia.
Qed.

Lemma possum_move_upd t from to x f ps ts :
  NoDup (map fst ps) -> place_of t ps = Some from -> get_task t ts = Some x ->
  possum ((t, to) :: drop_tid t ps) (upd_task t f ts) + pos from x = possum ps ts + pos to (f x).
Proof.
  intros ND P G. cbn. rewrite get_upd, Nat.eqb_refl, G. cbn.
  rewrite possum_upd_other by apply drop_tid_notin. rewrite (possum_drop _ _ _ _ _ ND P G). lia.
Qed.

Lemma possum_move t from to x ps ts :
  NoDup (map fst ps) -> place_of t ps = Some from -> get_task t ts = Some x ->
  possum ((t, to) :: drop_tid t ps) ts + pos from x = possum ps ts + pos to x.
Proof.
  intros ND P G. cbn. rewrite G. rewrite (possum_drop _ _ _ _ _ ND P G). lia.
Qed.

Lemma possum_upd t l x f ps ts :
  NoDup (map fst ps) -> place_of t ps = Some l -> get_task t ts = Some x ->
  possum ps (upd_task t f ts) + pos l x = possum ps ts + pos l (f x).
Proof.
  intros ND P G.
  assert (G' : get_task t (upd_task t f ts) = Some (f x)) by (rewrite get_upd, Nat.eqb_refl, G; reflexivity).
  rewrite (possum_drop _ _ _ _ _ ND P G), (possum_drop _ _ _ _ _ ND P G').
  rewrite possum_upd_other by apply drop_tid_notin. lia.
Qed.

Lemma possum_new n l x ps ts :
  ~ In n (map fst ps) -> possum ((n, l) :: ps) ((n, x) :: ts) = pos l x + possum ps ts.
Proof.
  intros N. cbn. rewrite Nat.eqb_refl. f_equal.
  induction ps as [|[k v] r IH]; cbn; [reflexivity|]. cbn in N.
  destruct (n =? k) eqn:E; [apply Nat.eqb_eq in E; subst; tauto|]. rewrite IH; tauto.
Qed.

Definition ldec (l : label) : nat :=
  match l with
  | LTake _ _ _ _ | LSendHome _ _ _ _ | LExec _ _ _ _ | LPostYield _ _ _ | LPostMigrate _ _ _ | LBlocked _ _ _
  | LPostSyscall _ _ _ | LFree _ _ _ | LWake _ _ _ _ | LLaunch _ _ _ | LIoDone _ _ | LEnd _ => 1
  | _ => 0
  end.
Definition lcost (l : label) : nat :=
  match l with
  | LSpawn _ _ _ _ _ _ => 7
  | LYield _ | LMigrate _ _ | LSyscallPre _ | LMayBlock _ => 6
  | _ => 0
  end.

Lemma pos_le l x : pos l x <= 8.
Proof. unfold pos. destruct l; repeat match goal with |- context [match ?c with _ => _ end] => destruct c end; lia. Qed.

Lemma label_delta st l st' :
  pin_inv st -> my_label l = true -> step st l = Some st' ->
  possum st'.(places) st'.(tasks) + ldec l <= possum st.(places) st.(tasks) + lcost l.
Proof.
  intros ([ND Dom] & J1 & J2) ML H.
  destruct l; try discriminate ML; cbn [step] in H; inv_step H; use_running; use_moves;
    try (inversion H; subst; clear H); norm_state; cbn [ldec lcost]; same_task.
  all: try lia.
  all: try (match goal with
            | P : place_of ?t ?ps = Some ?from, G : get_task ?t ?ts = Some ?x
              |- possum ((?t, ?to) :: drop_tid ?t ?ps) (upd_task ?t ?f ?ts) + _ <= _ =>
              pose proof (possum_move_upd t from to x f ps ts ND P G) as PM
            | P : place_of ?t ?ps = Some ?from, G : get_task ?t ?ts = Some ?x
              |- possum ((?t, ?to) :: drop_tid ?t ?ps) ?ts + _ <= _ =>
              pose proof (possum_move t from to x ps ts ND P G) as PM
            | P : place_of ?t ?ps = Some ?from, G : get_task ?t ?ts = Some ?x
              |- possum ?ps (upd_task ?t ?f ?ts) + _ <= _ =>
              pose proof (possum_upd t from x f ps ts ND P G) as PM
            end).
  all: try (bool_facts; unfold pos in PM; cbn -[possum drop_tid] in PM;
            repeat match goal with E : t_state ?x = _ |- _ => rewrite E in PM end;
            repeat match type of PM with context [match ?c with _ => _ end] => destruct c eqn:? end;
            cbn -[possum drop_tid] in PM; try discriminate; bool_facts; split_bools; subst; try lia; fail).
  (* LSpawn *)
  1: { rewrite possum_new by (intros X; apply Dom in X; lia).
       match goal with |- pos ?l ?x + _ + 0 <= _ => assert (pos l x <= 7) end; [|lia].
       unfold pos. destruct (r_precond row && pre_blocked); [lia|]. cbn.
       repeat match goal with |- context [match ?c with _ => _ end] => destruct c end; lia. }
  (* LTake (both forms of the Held reference) *)
  1,2: (pose proof (place_of_in _ _ _ Heqo) as I; destruct (J1 _ _ _ I) as (x' & G' & B); rewrite Heqo0 in G'; inversion G'; subst x'; clear G';
        pose proof (J2 _ _ Heqo0) as PR; unfold pinrel in PR;
        unfold pos in PM; cbn -[possum drop_tid] in PM; apply negb_false_iff in Heqb0; apply Nat.eqb_eq in Heqb0; subst s0;
        destruct (t_target t0) eqn:T;
        [ rewrite PR in B; subst stealable; cbn [negb] in Heqb1; rewrite andb_true_r in Heqb1;
          apply negb_false_iff in Heqb1; apply Nat.eqb_eq in Heqb1; subst from; repeat match type of PM with context [if ?c then _ else _] => destruct c end; lia
        | lia ]).
  (* LSendHome *)
  unfold dispatch in Heqd. destruct (t_target t0) as [h'|] eqn:T.
  - destruct (negb (h' =? s) && true) eqn:C; [|cbn in Heqd; discriminate].
    inversion Heqd; subst h0. rewrite andb_true_r in C. apply negb_true_iff in C.
    bool_facts. subst h'.
    unfold pos in PM; cbn -[possum drop_tid] in PM. rewrite T in PM. rewrite Nat.eqb_refl, C in PM. lia.
  - cbn in Heqd. discriminate.
Qed.

Fixpoint sum_dec (ls : list label) : nat := match ls with [] => 0 | l :: r => ldec l + sum_dec r end.
Fixpoint sum_cost (ls : list label) : nat := match ls with [] => 0 | l :: r => lcost l + sum_cost r end.

Lemma run_delta ls : forall st st',
  pin_inv st -> forallb my_label ls = true -> run st ls = Some st' ->
  possum st'.(places) st'.(tasks) + sum_dec ls <= possum st.(places) st.(tasks) + sum_cost ls.
Proof.
  induction ls as [|l r IH]; cbn; intros st st' I M H; [inversion H; subst; lia|].
  apply andb_true_iff in M. destruct M as [M1 M2].
  destruct (step st l) as [s1|] eqn:E; [|discriminate].
  pose proof (label_delta _ _ _ I M1 E). pose proof (IH _ _ (pin_inv_step _ _ _ I E) M2 H). lia.
Qed.

Lemma del_prog_cons t k q r : del_prog t ((k, q) :: r) = if k =? t then del_prog t r else (k, q) :: del_prog t r.
Proof. unfold del_prog. cbn. destruct (k =? t); reflexivity. Qed.

Lemma progsum_del_le t ps : progsum (del_prog t ps) <= progsum ps.
Proof.
  induction ps as [|[k q] r IH]; [cbn; lia|]. rewrite del_prog_cons. destruct (k =? t); cbn [progsum]; lia.
Qed.

Lemma progsum_del t p ps : get_prog t ps = Some p -> S (psize p) + progsum (del_prog t ps) <= progsum ps.
Proof.
  induction ps as [|[k q] r IH]; cbn [get_prog]; [discriminate|]. rewrite del_prog_cons.
  destruct (k =? t) eqn:E; cbn [progsum].
  - intros H; inversion H; subst. pose proof (progsum_del_le t r). lia.
  - intros H. specialize (IH H). lia.
Qed.

Lemma osize_pos o : 1 <= osize o.
Proof. destruct o; cbn; lia. Qed.

Lemma osize_spawn row sp asize src pre child : osize (BSpawn row sp asize src pre child) = 2 + psize child.
Proof. reflexivity. Qed.

Ltac use_with_k H :=
  unfold with_k in H;
  match type of H with
  | match run ?k ?ls with _ => _ end = Some _ =>
    let R := fresh "R" in destruct (run k ls) eqn:R; [|discriminate H]; inversion H; subst; clear H
  end.

(* MEASURE: every step of the composed system - scheduler, dispatch, body, master and the environment's releases -
   strictly decreases the measure; hence every execution is finite (at most [measure] of its first state steps) *)
Theorem measure_decreases_l c e c' : pin_inv c.(ck) -> cstep c e = Some c' -> measure c' < measure c.
Proof.
  intros I H. unfold cstep in H.
  repeat match type of H with
         | match ?x with _ => _ end = Some _ => destruct x eqn:?; try discriminate H
         | (if ?x then _ else _) = Some _ => destruct x eqn:?; try discriminate H
         end;
    try use_with_k H; try (inversion H; subst; clear H);
    try match goal with
        | R : run _ ?ls = Some _ |- _ => pose proof (run_delta ls _ _ I eq_refl R) as D; cbn [sum_dec sum_cost ldec lcost] in D
        end.
  all: unfold measure, set_prog; cbn [ck cs cprog progsum].
  all: repeat match goal with
              | G : get_prog ?t ?ps = Some _ |- _ => pose proof (progsum_del _ _ _ G); clear G
              end.
  all: try match goal with |- context [del_prog ?t ?ps] => pose proof (progsum_del_le t ps) end.
  all: cbn [psize] in *; try rewrite osize_spawn in *; cbn [osize] in *.
  all: try lia.
  all: match goal with |- ?G => idtac "GOAL" G end.
Qed.

Lemma pin_inv_cstep c e c' : pin_inv c.(ck) -> cstep c e = Some c' -> pin_inv c'.(ck).
Proof.
  intros I H. unfold cstep in H.
  repeat match type of H with
         | match ?x with _ => _ end = Some _ => destruct x eqn:?; try discriminate H
         | (if ?x then _ else _) = Some _ => destruct x eqn:?; try discriminate H
         end;
    try use_with_k H; try (inversion H; subst; clear H); cbn [ck]; auto;
    match goal with R : run _ _ = Some _ |- _ => eapply pin_inv_run; [exact I|exact R] end.
Qed.

(* every execution of the composed system is finite: its length is bounded by the measure of its first state *)
Theorem executions_finite_l es : forall c c', pin_inv c.(ck) -> crun c es = Some c' -> length es + measure c' <= measure c.
Proof.
  induction es as [|e r IH]; cbn [crun length]; intros c c' I H; [inversion H; subst; lia|].
  destruct (cstep c e) as [c1|] eqn:E; [|discriminate].
  pose proof (measure_decreases_l _ _ _ I E). pose proof (IH _ _ (pin_inv_cstep _ _ _ I E) H). lia.
Qed.

Theorem executions_finite_init_l ns nw ac chunk prog es c :
  crun (cinit ns nw ac chunk prog) es = Some c -> length es <= 8 * S (psize prog) + 2.
Proof.
  intros H. pose proof (executions_finite_l es (cinit ns nw ac chunk prog) c (pin_inv_init ns nw ac) H) as L.
  unfold measure in L at 2. cbn in L. lia.
Qed.
