(* C05 extension T: what the invariant of the team-finish machine says about a single (reachable) state.
   The statements over every schedule are in TeamFinishFinal.v. *)
From Coq Require Import List ZArith Bool Arith Lia ZifyBool ZifyNat.
From QV Require Import Kernel.TeamFinish Kernel.TeamFinishInv Kernel.TeamFinishLive.
Import ListNotations.
Local Open Scope Z_scope.

Lemma mcon_nonneg : forall t m, 0 <= mcon t m.
Proof. intros t m. unfold mcon. destruct (mteam m) as [t'|]; [destruct (Nat.eqb t' t && mlive m)|]; lia. Qed.
Lemma ccon_nonneg : forall t c, 0 <= ccon t c.
Proof. intros t c. unfold ccon. destruct (tk c) as [| |p]; try lia. destruct (Nat.eqb p t && Nat.leb (lrank (lpc c)) 13); lia. Qed.

(* no member of t is still registered: every task ever spawned into t has submitted, in particular returned from its function *)
Lemma msum0_members : forall s t, msum s t = 0 -> forall k, (k < nm s)%nat -> mteam (mem s k) = Some t -> mlive (mem s k) = false.
Proof.
  intros s t H k Hk Ht. unfold msum in H.
  pose proof (live_sumn_nonneg_zero (nm s) (fun k => mcon t (mem s k)) (fun i _ => mcon_nonneg t (mem s i)) H k Hk) as E.
  cbn beta in E. unfold mcon in E. rewrite Ht, Nat.eqb_refl in E. cbn [andb] in E. destruct (mlive (mem s k)); [discriminate|reflexivity].
Qed.
Lemma csum0_children : forall s t, csum s t = 0 -> forall c, (c < nt s)%nat -> tk (ctl s c) = KSub t -> (14 <= lrank (lpc (ctl s c)))%nat.
Proof.
  intros s t H c Hc Hk. unfold csum in H.
  pose proof (live_sumn_nonneg_zero (nt s) (fun c => ccon t (ctl s c)) (fun i _ => ccon_nonneg t (ctl s i)) H c Hc) as E.
  cbn beta in E. unfold ccon in E. rewrite Hk, Nat.eqb_refl in E. cbn [andb] in E.
  destruct (Nat.leb (lrank (lpc (ctl s c))) 13) eqn:L; [discriminate|]. apply Nat.leb_gt in L. lia.
Qed.
Lemma mlive_false_fin : forall m, mlive m = false -> memb_fin m = true /\ (mpc m = MSub \/ mpc m = MDone).
Proof. intros m. unfold mlive, memb_fin. destruct (mpc m); intros H; try discriminate; auto. Qed.

(* d is team a itself or a subteam below it, transitively *)
Inductive desc (s : state) (a : nat) : nat -> Prop :=
| desc_refl : desc s a a
| desc_step : forall p c, desc s a p -> (c < nt s)%nat -> tk (ctl s c) = KSub p -> desc s a c.

(* team d is finished: every member ever spawned into it has returned from its function and passed qt_internal_teamfinish;
   its leader's function has returned and the leader has passed both waits; its watcher (if any) is gone *)
Definition team_quiet (s : state) (d : nat) : Prop :=
  (forall k, (k < nm s)%nat -> mteam (mem s k) = Some d -> memb_fin (mem s k) = true /\ (mpc (mem s k) = MSub \/ mpc (mem s k) = MDone)) /\
  (14 <= lrank (lpc (ctl s d)))%nat /\
  (wpc (ctl s d) = WNone \/ wpc (ctl s d) = WDone).

Lemma quiet_of_rank : forall s d, inv s -> (d < nt s)%nat -> (14 <= lrank (lpc (ctl s d)))%nat -> team_quiet s d.
Proof.
  intros s d I Hd Hr. pose proof (i_team s I d Hd) as T. split; [|split; [assumption|]].
  - intros k Hk Hm. apply mlive_false_fin. eapply msum0_members; [apply (ti_nomemb s d T); lia|assumption|assumption].
  - pose proof (ti_watch s d T) as W. destruct (tk (ctl s d)) as [| |p].
    + left. tauto.
    + left. tauto.
    + right. destruct W as (_ & R & _). unfold wrel in R. destruct (lpc (ctl s d)); cbn [lrank] in Hr; try lia; assumption.
Qed.

Lemma filled_is_done : forall s t, inv s -> (t < nt s)%nat -> (0 < fills (obj s t))%nat -> lpc (ctl s t) = LDone.
Proof.
  intros s t I Ht Hf. pose proof (ti_fills s t (i_team s I t Ht)) as F.
  destruct (lpc (ctl s t)); cbn [lrank Nat.eqb] in F; try (rewrite F in Hf; lia). reflexivity.
Qed.

(* the founder's return location is filled only after every member of its team and of all its subteams, transitively, has
   finished -- statement on one state satisfying the invariant *)
Lemma ret_after_all_inv : forall s a, inv s -> (a < nt s)%nat -> (0 < fills (obj s a))%nat ->
  forall d, desc s a d -> (d < nt s)%nat /\ team_quiet s d.
Proof.
  intros s a I Ha Hf d Hd. induction Hd as [|p c Hp IH Hc Hk].
  - split; [assumption|]. apply quiet_of_rank; try assumption. rewrite (filled_is_done s a I Ha Hf). cbn. lia.
  - destruct IH as [Hpn (_ & Hr & _)]. split; [assumption|]. apply quiet_of_rank; try assumption.
    apply (csum0_children s p); try assumption. apply (ti_nosub s p (i_team s I p Hpn)). lia.
Qed.

Lemma filled_once_inv : forall s t, inv s -> (t < nt s)%nat ->
  (fills (obj s t) <= 1)%nat /\ (fills (obj s t) = 1%nat <-> lpc (ctl s t) = LDone).
Proof.
  intros s t I Ht. pose proof (ti_fills s t (i_team s I t Ht)) as F. rewrite F.
  destruct (lpc (ctl s t)); cbn [lrank Nat.eqb]; split; try lia; split; intros H; try discriminate; try reflexivity.
Qed.

(* no task is inside the function / registered on a team whose structure is freed or whose sincs are destroyed *)
Lemma live_member_team_alive : forall s k t, inv s -> (k < nm s)%nat -> mteam (mem s k) = Some t -> mlive (mem s k) = true ->
  freed (obj s t) = false /\ sincok (obj s t) = true /\ subsok (obj s t) = true.
Proof.
  intros s k t I Hk Hm Hl. pose proof (i_memb s I k t Hk Hm) as Ht. pose proof (i_team s I t Ht) as T.
  assert (R : (lrank (lpc (ctl s t)) <= 7)%nat).
  { destruct (Nat.le_gt_cases (lrank (lpc (ctl s t))) 7) as [L|G]; [assumption|exfalso].
    pose proof (msum0_members s t (ti_nomemb s t T ltac:(lia)) k Hk Hm) as E. congruence. }
  rewrite (ti_freed s t T), (ti_sincok s t T), (ti_subsok s t T).
  repeat split; [apply negb_false_iff|..]; apply Nat.leb_le; lia.
Qed.
