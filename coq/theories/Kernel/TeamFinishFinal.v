(* C05 extension T: the theorems over EVERY schedule of the team-finish machine (sw = false: the code as it is) and every
   forest shape that the schedule builds (members, precondition members, subteams, new teams founded at any time by any
   task whose function runs). *)
From Coq Require Import List ZArith Bool Arith Lia.
From QV Require Import Kernel.TeamFinish Kernel.TeamFinishInv Kernel.TeamFinishProofs Kernel.TeamFinishLive Kernel.TeamFinishTheorems
  Kernel.TeamFinishSwapped.
Import ListNotations.

(* the founder's return location is filled only after every member of its team and of all its subteams, transitively, has
   returned from its function and passed qt_internal_teamfinish, every subteam leader has passed both of its waits and
   every watcher is gone *)
Theorem tf_ret_after_all : forall tr a, let s := run false init tr in
  (a < nt s)%nat -> (0 < fills (obj s a))%nat -> forall d, desc s a d -> (d < nt s)%nat /\ team_quiet s d.
Proof. intros tr a s Ha Hf d Hd. exact (ret_after_all_inv s a (reach_inv tr) Ha Hf d Hd). Qed.

Theorem tf_filled_once : forall tr t, let s := run false init tr in (t < nt s)%nat ->
  (fills (obj s t) <= 1)%nat /\ (fills (obj s t) = 1%nat <-> lpc (ctl s t) = LDone).
Proof. intros tr t s Ht. exact (filled_once_inv s t (reach_inv tr) Ht). Qed.

(* no operation of any task ever touches a destroyed sinc or a freed team structure; and a task that is still registered on a
   team (spawned, not yet through teamfinish) finds the structure and both sincs alive *)
Theorem tf_no_use_after_free : forall tr, let s := run false init tr in
  uaf s = false /\
  forall k t, (k < nm s)%nat -> mteam (mem s k) = Some t -> mlive (mem s k) = true ->
    freed (obj s t) = false /\ sincok (obj s t) = true /\ subsok (obj s t) = true.
Proof.
  intros tr s. pose proof (reach_inv tr) as I. split; [exact (i_uaf _ I)|].
  intros k t Hk Hm Hl. exact (live_member_team_alive s k t I Hk Hm Hl).
Qed.

(* the waits are satisfiable: in every reachable state that is not final some task can step *)
Theorem tf_no_deadlock : forall tr, let s := run false init tr in
  all_done s = true \/ exists l s', step false s l = Some s'.
Proof. intros tr s. exact (inv_progress s (reach_inv tr)). Qed.

(* non-vacuity: a run in which a late subteam exists, everything finishes and both founders' locations are filled *)
Example tf_example : exists tr, let s := run false init tr in
  (0 < fills (obj s 0))%nat /\ desc s 0 1 /\ (1 < nt s)%nat /\ all_done s = true.
Proof.
  exists (late_subteam_schedule ++ subteam_runs ++
          [(Lead 1, AStep); (Lead 1, AStep); (Lead 1, AStep); (Lead 1, AStep); (Watch 1, AStep); (Watch 1, AStep);
           (Lead 1, AStep); (Lead 1, AStep); (Lead 1, AStep); (Lead 1, AStep); (Lead 1, AStep); (Lead 1, AStep);
           (Lead 0, AStep); (Lead 0, AStep); (Lead 0, AStep); (Lead 0, AStep); (Lead 0, AStep);
           (Memb 0, AStep); (Memb 0, AStep); (Memb 0, AStep)]).
  cbv zeta. split; [vm_compute; lia|]. split; [eapply desc_step; [apply desc_refl|vm_compute; lia|vm_compute; reflexivity]|].
  split; [vm_compute; lia|vm_compute; reflexivity].
Qed.
