From Coq Require Import List Bool Arith NArith ZArith Lia.
From QV Require Import Kernel.GenSpawnTable Kernel.Placement Kernel.ProofsPlacement Kernel.Model Kernel.ProofsKernel
     Kernel.ProofsC07 Kernel.ProofsPin Kernel.Progress Kernel.ProgressInv Kernel.ProgressProofs.
Import ListNotations.

(* a descriptor becomes TERMINATED only by its own body's return *)
Lemma term_back st l st' t x' :
  step st l = Some st' -> get_task t st'.(tasks) = Some x' -> x'.(t_state) = TERMINATED ->
  (exists x, get_task t st.(tasks) = Some x /\ x.(t_state) = TERMINATED) \/ l = LEnd t.
Proof.
  intros H G T.
  destruct l; cbn [step] in H; inv_step H; use_running; use_moves;
    try (inversion H; subst; clear H); cbn [tasks modify set_tasks set_mem set_active set_places] in G; norm_tasks;
      try (cbn [tasks modify set_tasks] in G); try (left; eexists; split; [eassumption|exact T]);
        try (rewrite get_upd in G;
             match type of G with
             | (if ?c then _ else _) = _ => destruct c eqn:EQ; [apply Nat.eqb_eq in EQ; subst|left; eexists; split; [eassumption|exact T]]
             end;
             match goal with
             | G0 : get_task ?tt ?ts = Some ?y, G1 : option_map _ (get_task ?tt ?ts) = Some _ |- _ =>
               rewrite G0 in G1; cbn in G1; inversion G1; subst; clear G1
             end; cbn in T; first [discriminate T | left; eexists; split; [eassumption|exact T] | right; reflexivity]).
  cbn in G. destruct (next st =? t) eqn:EQ.
  - inversion G; subst. cbn in T. destruct (r_precond row && pre_blocked); discriminate T.
  - left. eexists; split; [eassumption|exact T].
Qed.

Definition MainNT (k : state) : Prop := forall x, get_task 0 k.(tasks) = Some x -> x.(t_state) <> TERMINATED.

Lemma MainNT_step st l st' : kinv st -> MainNT st -> step st l = Some st' -> MainNT st'.
Proof.
  intros (R & _ & _ & Hn & K) M H x' G T.
  destruct (term_back _ _ _ _ _ H G T) as [(x & G0 & T0)| ->]; [exact (M _ G0 T0)|].
  cbn [step] in H. destruct (running_on st 0) as [[[s w] x]|] eqn:RO; [|discriminate H].
  apply running_on_spec in RO. destruct RO as (P & G0 & _).
  destruct (K _ _ (place_of_in _ _ _ P)) as (y & Gy & C). rewrite G0 in Gy. inversion Gy; subst y.
  unfold cons_ok in C. destruct C as (_ & Mc & _). cbn in Mc. rewrite Mc in H. discriminate H.
Qed.

Lemma MainNT_run ls : forall st st', kinv st -> forallb my_label ls = true -> MainNT st -> run st ls = Some st' -> MainNT st'.
Proof.
  induction ls as [|l r IH]; cbn; intros st st' K ML M H; [inversion H; subst; exact M|].
  apply andb_true_iff in ML. destruct ML as [M1 M2]. destruct (step st l) as [s1|] eqn:E; [|discriminate].
  eapply (IH s1); eauto. eapply kinv_step; eauto. eapply MainNT_step; eauto.
Qed.

Lemma MainNT_reachable ns nw ac chunk prog es c :
  0 < ns -> 0 < nw -> crun (cinit ns nw ac chunk prog) es = Some c -> MainNT c.(ck).
Proof.
  intros Hs Hw H. destruct (crun_run _ _ _ H) as (tr & ML & R).
  eapply MainNT_run; [apply (kinv_init ns nw ac Hs Hw)|exact ML| |exact R].
  intros x G. cbn in G. inversion G; subst. cbn. discriminate.
Qed.
