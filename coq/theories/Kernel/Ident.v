(* C09, task identity: executable model of the lazy id allocation of src/qthread.c
   (qthread_id(), the same two re-draw branches as in qthread_thread_new under
   QTHREAD_NONLAZY_THREADIDS).  qlib->max_thread_id is a 64-bit aligned_t advanced by
   qthread_incr (fetch-and-add, returns the old value); t->thread_id is a 32-bit unsigned.
   Definitions only (proofs: IdentProofs.v). *)
From Coq Require Import List NArith Bool.
Import ListNotations.
Local Open Scope N_scope.

Definition M32 : N := 4294967296.
Definition M64 : N := 18446744073709551616.
Definition wrap32 (x : N) : N := x mod M32.
Definition wrap64 (x : N) : N := x mod M64.

Definition NULL_TASK_ID : N := 4294967295.   (* QTHREAD_NULL_TASK_ID = UINT_MAX *)
Definition NON_TASK_ID  : N := 0.            (* QTHREAD_NON_TASK_ID *)

(* qthread_internal_incr(&ctr, lock, k) = qthread_incr: returns the old value *)
Definition fetch_add (c k : N) : N * N := (c, wrap64 (c + k)).

(* the allocation performed by qthread_id() when t->thread_id == QTHREAD_NON_TASK_ID;
   result: (id stored in t->thread_id, counter afterwards) *)
Definition id_alloc (c : N) : N * N :=
  let '(r1, c1) := fetch_add c 1 in
  let id1 := wrap32 r1 in
  if id1 =? NULL_TASK_ID then
    (* t->thread_id = qthread_internal_incr(.., 2) + 1 *)
    let '(r2, c2) := fetch_add c1 2 in (wrap32 (r2 + 1), c2)
  else if id1 =? NON_TASK_ID then
    let '(r2, c2) := fetch_add c1 1 in (wrap32 r2, c2)
  else (id1, c1).

(* qthread_id() of a task whose descriptor field is [fld]: (returned id, field', counter') *)
Definition qthread_id (fld c : N) : N * N * N :=
  if fld =? NON_TASK_ID then let '(i, c') := id_alloc c in (i, i, c')
  else (fld, fld, c).

(* [n] consecutive allocations *)
Fixpoint alloc_seq (n : nat) (c : N) : list N * N :=
  match n with
  | O => ([], c)
  | S n' => let '(i, c1) := id_alloc c in
            let '(l, c2) := alloc_seq n' c1 in (i :: l, c2)
  end.

(* ---- a small system: descriptors with an id field, ops in any order ---- *)
Inductive iop := ISpawn (t : N) | IId (t : N) | IFree (t : N).

Record isys := mkisys { i_ctr : N; i_tasks : list (N * N) (* task -> thread_id field *) }.

Fixpoint iget (l : list (N * N)) (t : N) : option N :=
  match l with
  | [] => None
  | (k, v) :: r => if k =? t then Some v else iget r t
  end.
Fixpoint iset (l : list (N * N)) (t v : N) : list (N * N) :=
  match l with
  | [] => [(t, v)]
  | (k, w) :: r => if k =? t then (k, v) :: r else (k, w) :: iset r t v
  end.
Fixpoint idel (l : list (N * N)) (t : N) : list (N * N) :=
  match l with
  | [] => []
  | (k, w) :: r => if k =? t then idel r t else (k, w) :: idel r t
  end.

(* one op; the observable is the id returned by IId (None otherwise / for a dead task) *)
Definition istep (s : isys) (o : iop) : isys * option N :=
  match o with
  | ISpawn t => (mkisys (i_ctr s) (iset (i_tasks s) t NON_TASK_ID), None)  (* thread_new: thread_id = NON *)
  | IId t => match iget (i_tasks s) t with
             | None => (s, None)
             | Some fld => let '(r, fld', c') := qthread_id fld (i_ctr s) in
                           (mkisys c' (iset (i_tasks s) t fld'), Some r)
             end
  | IFree t => (mkisys (i_ctr s) (idel (i_tasks s) t), None)
  end.

Fixpoint irun (s : isys) (ops : list iop) : isys * list (option N) :=
  match ops with
  | [] => (s, [])
  | o :: r => let '(s1, x) := istep s o in
              let '(s2, xs) := irun s1 r in (s2, x :: xs)
  end.

(* ---- micro-step layer: the two fetch-and-adds of one allocation are separate atomic
   accesses; other tasks' draws may come in between.  A thread is (phase). ---- *)
Inductive aphase :=
| PStart                  (* about to do the first fetch-and-add *)
| PRedrawNull             (* drew UINT_MAX: about to fetch-and-add 2 *)
| PRedrawNon              (* drew 0: about to fetch-and-add 1 *)
| PDone (id : N).

Definition astep (c : N) (p : aphase) : N * aphase :=
  match p with
  | PStart => let '(r1, c1) := fetch_add c 1 in
              let id1 := wrap32 r1 in
              (c1, if id1 =? NULL_TASK_ID then PRedrawNull
                   else if id1 =? NON_TASK_ID then PRedrawNon else PDone id1)
  | PRedrawNull => let '(r2, c2) := fetch_add c 2 in (c2, PDone (wrap32 (r2 + 1)))
  | PRedrawNon => let '(r2, c2) := fetch_add c 1 in (c2, PDone (wrap32 r2))
  | PDone i => (c, PDone i)
  end.

(* threads = list of phases, schedule = list of thread indices *)
Fixpoint nth_upd {A} (l : list A) (k : nat) (f : A -> A) : list A :=
  match l, k with
  | [], _ => []
  | x :: r, O => f x :: r
  | x :: r, S k' => x :: nth_upd r k' f
  end.

Definition msched_step (st : N * list aphase) (k : nat) : N * list aphase :=
  let '(c, ths) := st in
  match nth_error ths k with
  | None => st
  | Some p => let '(c', p') := astep c p in (c', nth_upd ths k (fun _ => p'))
  end.

Definition msched (st : N * list aphase) (sch : list nat) : N * list aphase :=
  fold_left msched_step sch st.
