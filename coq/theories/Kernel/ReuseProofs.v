(* C09 extension G: proofs about Kernel/Reuse.v (descriptor life cycle over Kernel/Tasklocal.v + Kernel/Ident.v) *)
From Coq Require Import List NArith ZArith Bool Arith Lia ZifyBool ZifyNat ZifyN.
From QV Require Import Kernel.Ident Kernel.IdentProofs Kernel.Tasklocal Kernel.TasklocalProofs Kernel.Reuse.
Import ListNotations.

(* ---------- 1. the task-local invariant survives descriptor reuse: every theorem of TasklocalProofs that is stated for
   states satisfying [inv] (tl_private, tl_persist, tl_grow_preserves, ...) holds in every state reachable with recycling ---------- *)
Lemma rstep_tl_inv : forall c junk s o, inv c (r_tl s) -> inv c (r_tl (fst (rstep c junk s o))).
Proof.
  intros c junk s o I. destruct o as [tid arg|tid|tid size|tid seed|tid]; cbn [rstep fst].
  - unfold rspawn. destruct (aget (s_tasks (r_tl s)) tid) eqn:E; [exact I|].
    destruct (if is_big c arg then r_free_b s else r_free_s s) as [|d rest]; cbn [r_tl]; apply inv_thread_new; assumption.
  - unfold rid. destruct (aget (r_desc s) tid); [|exact I].
    destruct (qthread_id (fld_of s n) (r_ctr s)) as [[r f] c']. exact I.
  - unfold rget. destruct (get_tasklocal c junk (r_tl s) tid size) as [[r tl']|] eqn:E; [|exact I].
    cbn [r_tl]. eapply inv_get; eassumption.
  - unfold rwrite. destruct (tl_view c (r_tl s) tid); [|exact I].
    destruct (tl_write c (r_tl s) tid 0 (pattern_bytes seed (length l))) eqn:E; [|exact I].
    cbn [r_tl]. eapply inv_write; eassumption.
  - unfold rfree. destruct (aget (s_tasks (r_tl s)) tid); [|exact I].
    destruct (aget (r_desc s) tid); [|exact I]. cbn [r_tl]. apply inv_free. exact I.
Qed.

Lemma rrun_tl_inv : forall c junk ops s, inv c (r_tl s) -> inv c (r_tl (rrun c junk s ops)).
Proof.
  intros c junk ops. induction ops as [|o ops IH]; intros s I; cbn; [exact I|].
  apply IH. apply rstep_tl_inv. exact I.
Qed.

Theorem reuse_tl_inv_thm : forall c junk c0 ops, inv c (r_tl (rrun c junk (rinit c0) ops)).
Proof. intros. apply rrun_tl_inv. apply inv_init. Qed.

(* ---------- 2. a (recycled or fresh) descriptor starts unassigned: the first qthread_id() of its new owner draws ---------- *)
Theorem id_fresh_after_reuse_thm : forall c junk s tid arg,
  aget (s_tasks (r_tl s)) tid = None ->
  let s' := rspawn c junk s tid arg in
  exists d, desc_of s' tid = Some d /\ fld_of s' d = NON_TASK_ID /\ r_ctr s' = r_ctr s /\
    forall s'' r, rid s' tid = (s'', Some r) ->
      r = fst (id_alloc (r_ctr s)) /\ r <> NON_TASK_ID /\ r <> NULL_TASK_ID /\ live_fld s'' tid = Some r.
Proof.
  intros c junk s tid arg H. unfold rspawn. rewrite H.
  destruct (if is_big c arg then r_free_b s else r_free_s s) as [|d rest]; cbn iota beta zeta.
  all: match goal with |- exists d0, desc_of (mkr _ _ (aset _ _ ?d) _ _ _ _ _ _) _ = _ /\ _ => exists d end.
  all: unfold desc_of, live_fld, rid; cbn [r_desc r_fld r_ctr r_tl r_stale r_free_s r_free_b r_ndesc r_freed];
    rewrite ?aget_aset_same; unfold fld_of; cbn [r_fld]; rewrite ?aget_aset_same;
    split; [reflexivity|split; [reflexivity|split; [reflexivity|]]];
    intros s'' r; unfold qthread_id; rewrite N.eqb_refl;
    destruct (id_alloc (r_ctr s)) as [i c'] eqn:E; intros Q; inversion Q; subst; clear Q;
    cbn [r_desc r_fld]; rewrite ?aget_aset_same; unfold fld_of; cbn [r_fld]; rewrite ?aget_aset_same;
    pose proof (id_alloc_reserved (r_ctr s)) as R; rewrite E in R; cbn [fst] in *; tauto.
Qed.

(* ---------- 3. task-local storage of a (recycled or fresh) descriptor starts at the default size, in place, without a blob ---------- *)
Theorem tl_fresh_after_reuse_thm : forall c junk s tid arg,
  aget (s_tasks (r_tl s)) tid = None ->
  let s' := rspawn c junk s tid arg in
  exists t, aget (s_tasks (r_tl s')) tid = Some t /\ t_tlsz t = 0 /\ t_slot t = None /\
    size_tasklocal c (r_tl s') tid = Some (TL c) /\
    tl_region c (r_tl s') tid = Some (RDesc tid (tl_off c t) (TL c)) /\
    slot_of (r_tl s') tid = None /\ r_freed s' = r_freed s.
Proof.
  intros c junk s tid arg H. unfold rspawn. rewrite H.
  destruct (if is_big c arg then r_free_b s else r_free_s s) as [|d rest]; cbn iota beta zeta; cbn [r_tl r_freed];
    unfold thread_new, size_tasklocal, tl_region, slot_of;
    destruct ((0 <? length arg) && (length arg <=? AC c)); [| destruct (0 <? length arg) | | destruct (0 <? length arg)];
    cbn [s_tasks]; rewrite !aget_aset_same; eexists; (split; [reflexivity|]); cbn; auto 10.
Qed.

(* what the new owner of a recycled small descriptor reads in its default area: the bytes the descriptor was released with *)
Lemma map_nth_seq : forall (bs : list byte) (junk : nat -> byte),
  map (fun k => nth k bs (junk k)) (seq 0 (length bs)) = bs.
Proof.
  intros bs junk.
  assert (G : forall pre, map (fun k => nth k (pre ++ bs) (junk k)) (seq (length pre) (length bs)) = bs).
  { induction bs as [|b bs IH]; intros pre; cbn [length seq map]; [reflexivity|].
    f_equal.
    - rewrite app_nth2 by lia. rewrite Nat.sub_diag. reflexivity.
    - specialize (IH (pre ++ [b])). rewrite <- app_assoc in IH. cbn in IH. rewrite app_length in IH. cbn in IH.
      rewrite Nat.add_1_r in IH. exact IH. }
  exact (G []).
Qed.

Theorem reuse_sees_previous_bytes_thm : forall c junk s tid d rest bs,
  aget (s_tasks (r_tl s)) tid = None -> r_free_s s = d :: rest -> aget (r_stale s) d = Some bs ->
  length bs = PTR + TL c ->
  let s' := rspawn c junk s tid [] in
  desc_of s' tid = Some d /\ tl_view c (r_tl s') tid = Some (firstn (TL c) bs).
Proof.
  intros c junk s tid d rest bs H F S L. unfold rspawn. rewrite H. unfold is_big. cbn [length Nat.ltb Nat.leb andb].
  rewrite F, S. cbn iota beta zeta. unfold desc_of; cbn [r_desc r_tl]. rewrite aget_aset_same. split; [reflexivity|].
  unfold thread_new, tl_view. cbn [length Nat.ltb Nat.leb andb s_tasks]. rewrite aget_aset_same.
  cbn [t_tlsz Nat.eqb t_data tl_off t_big]. unfold slice, junkbytes. cbn [skipn]. rewrite <- L. rewrite map_nth_seq. reflexivity.
Qed.

(* ---------- 4. every heap block (task-local blob, realloc'ed blob, heap argument copy) is released at most once, and a released
   block is not referenced by any live task (it is not in the heap the live tasks' blocks live in) ---------- *)
Definition Jinv (c : cfg) (s : rst) : Prop :=
  inv c (r_tl s) /\ NoDup (r_freed s) /\
  forall b, In b (r_freed s) -> aget (s_heap (r_tl s)) b = None /\ (b < s_next (r_tl s))%N.

Lemma aget_adel_none : forall (A : Type) (l : list (N * A)) k k', aget l k = None -> aget (adel l k') k = None.
Proof.
  intros A l k k' H. destruct (N.eq_dec k' k) as [->|Ne]; [apply aget_adel_same|].
  rewrite aget_adel_other by exact Ne. exact H.
Qed.

Lemma NoDup_app_intro : forall (A : Type) (l1 l2 : list A),
  NoDup l1 -> NoDup l2 -> (forall x, In x l1 -> ~ In x l2) -> NoDup (l1 ++ l2).
Proof.
  intros A l1 l2 H1 H2 D. induction H1 as [|x l1 Hx H1 IH]; cbn; [exact H2|].
  constructor.
  - intros Hin. apply in_app_or in Hin. destruct Hin as [Hin|Hin]; [contradiction|]. apply (D x); [now left|exact Hin].
  - apply IH. intros y Hy. apply D. now right.
Qed.

Lemma NoDup_app_elim : forall (A : Type) (l1 l2 : list A),
  NoDup (l1 ++ l2) -> NoDup l1 /\ NoDup l2 /\ forall x, In x l1 -> ~ In x l2.
Proof.
  intros A l1 l2. induction l1 as [|y l1 IH]; cbn; intros H.
  - split; [constructor|split; [exact H|intros x []]].
  - inversion H as [|? ? Hn H']; subst. destruct (IH H') as (N1 & N2 & D). split; [|split; [exact N2|]].
    + constructor; [|exact N1]. intros Hin. apply Hn. apply in_or_app. now left.
    + intros x [<-|Hx]; [intros Hin; apply Hn; apply in_or_app; now right|now apply D].
Qed.

Lemma rel_same : forall x : option N,
  match x, x with Some b, Some b' => if N.eqb b b' then [] else [b] | _, _ => @nil N end = [].
Proof. intros [b|]; [rewrite N.eqb_refl|]; reflexivity. Qed.

Lemma J_spawn : forall c junk s tid arg, Jinv c s -> Jinv c (rspawn c junk s tid arg).
Proof.
  intros c junk s tid arg (I & ND & F). unfold rspawn. destruct (aget (s_tasks (r_tl s)) tid) eqn:E; [exact (conj I (conj ND F))|].
  assert (G : forall j, Jinv c (mkr (thread_new c j (r_tl s) tid arg) (r_ctr s) (r_desc s) (r_fld s) (r_stale s) (r_free_s s) (r_free_b s) (r_ndesc s) (r_freed s))).
  { intros j. split; [cbn [r_tl]; apply inv_thread_new; assumption|]. split; [exact ND|]. cbn [r_tl r_freed].
    intros b Hb. destruct (F b Hb) as [F1 F2]. unfold thread_new.
    destruct ((0 <? length arg) && (length arg <=? AC c)); [|destruct (0 <? length arg)]; cbn [s_heap s_next]; try (split; assumption).
    split; [|lia]. rewrite aget_cons_other; [exact F1|lia]. }
  destruct (if is_big c arg then r_free_b s else r_free_s s) as [|d rest]; cbn iota beta zeta;
    match goal with |- Jinv c (mkr (thread_new c ?j _ _ _) _ _ _ _ _ _ _ _) => destruct (G j) as (G1 & G2 & G3) end;
    (split; [exact G1|split; [exact G2|exact G3]]).
Qed.

Lemma J_get : forall c junk s tid size, Jinv c s -> Jinv c (rget c junk s tid size).
Proof.
  intros c junk s tid size (I & ND & F). unfold rget.
  destruct (get_tasklocal c junk (r_tl s) tid size) as [[r tl']|] eqn:E; [|exact (conj I (conj ND F))].
  pose proof (inv_get _ _ _ _ _ _ _ I E) as I'.
  unfold get_tasklocal in E. destruct (aget (s_tasks (r_tl s)) tid) as [t|] eqn:Ht; [|discriminate].
  destruct ((t_tlsz t =? 0) && (size <=? TL c)) eqn:E1.
  { inversion E; subst. destruct (slot_of (r_tl s) tid) as [b0|]; rewrite ?N.eqb_refl; exact (conj I (conj ND F)). }
  destruct (t_tlsz t =? 0) eqn:E2.
  - (* first blob *) inversion E; subst; clear E. unfold slot_of at 1. rewrite Ht, E2. cbn [app r_tl r_freed].
    split; [exact I'|split; [exact ND|]]. cbn [r_tl r_freed s_heap s_next]. intros b Hb. destruct (F b Hb) as [F1 F2].
    split; [|lia]. rewrite aget_cons_other; [exact F1|lia].
  - destruct (size <=? t_tlsz t) eqn:E3.
    + destruct (t_slot t); inversion E; subst. destruct (slot_of (r_tl s) tid) as [b0|]; rewrite ?N.eqb_refl; exact (conj I (conj ND F)).
    + (* realloc *)
      destruct (t_slot t) as [b|] eqn:Hs; [|discriminate].
      destruct (aget (s_heap (r_tl s)) b) as [old|] eqn:Hb; [|discriminate].
      inversion E; subst; clear E.
      pose proof (inv_fresh _ _ I _ _ Hb) as Lb.
      apply Nat.leb_gt in E3. apply Nat.eqb_neq in E2.
      assert (R : slot_of (r_tl s) tid = Some b) by (unfold slot_of; rewrite Ht; destruct (t_tlsz t =? 0) eqn:Z; [apply Nat.eqb_eq in Z; lia|exact Hs]).
      rewrite R. unfold slot_of. cbn [s_tasks]. rewrite aget_aset_same. cbn [t_tlsz t_slot].
      destruct (size =? 0) eqn:Z; [apply Nat.eqb_eq in Z; lia|].
      destruct (N.eqb b (s_next (r_tl s))) eqn:Q; [apply N.eqb_eq in Q; lia|].
      cbn [app r_tl r_freed]. split; [exact I'|]. split.
      * cbn [r_tl r_freed s_heap s_next]. constructor; [|exact ND]. intros Hin. destruct (F b Hin) as [F1 _]. congruence.
      * cbn [r_tl r_freed s_heap s_next]. intros x [<-|Hx].
        -- split; [|lia]. rewrite aget_cons_other by lia. apply aget_adel_same.
        -- destruct (F x Hx) as [F1 F2]. split; [|lia]. rewrite aget_cons_other by lia. apply aget_adel_none. exact F1.
Qed.

Lemma J_write : forall c s tid seed, Jinv c s -> Jinv c (rwrite c s tid seed).
Proof.
  intros c s tid seed (I & ND & F). unfold rwrite.
  destruct (tl_view c (r_tl s) tid) as [old|]; [|exact (conj I (conj ND F))].
  destruct (tl_write c (r_tl s) tid 0 (pattern_bytes seed (length old))) as [tl'|] eqn:E; [|exact (conj I (conj ND F))].
  pose proof (inv_write _ _ _ _ _ _ I E) as I'. split; [exact I'|split; [exact ND|]]. cbn [r_tl r_freed].
  unfold tl_write in E. destruct (aget (s_tasks (r_tl s)) tid) as [t|]; [|discriminate].
  destruct (t_tlsz t =? 0).
  - destruct (0 + length (pattern_bytes seed (length old)) <=? TL c); inversion E; subst; cbn [r_tl r_freed s_heap s_next]. exact F.
  - destruct (t_slot t) as [b|]; [|discriminate]. destruct (aget (s_heap (r_tl s)) b) as [o|] eqn:Hb; [|discriminate].
    destruct (0 + length (pattern_bytes seed (length old)) <=? length o); inversion E; subst; cbn [r_tl r_freed s_heap s_next].
    intros x Hx. destruct (F x Hx) as [F1 F2]. split; [|exact F2].
    rewrite aget_aset_other; [exact F1|]. intros ->. congruence.
Qed.

Lemma J_free : forall c s tid, Jinv c s -> Jinv c (rfree c s tid).
Proof.
  intros c s tid (I & ND & F). unfold rfree.
  destruct (aget (s_tasks (r_tl s)) tid) as [t|] eqn:Ht; [|exact (conj I (conj ND F))].
  destruct (aget (r_desc s) tid) as [d|]; [|exact (conj I (conj ND F))].
  pose proof (inv_wf _ _ I _ _ Ht) as W. pose proof W as (_ & _ & _ & _ & W5).
  split; [cbn [r_tl]; apply inv_free; exact I|]. cbn [r_tl r_freed].
  change (if t_tlsz t =? 0 then [] else match t_slot t with Some b => [b] | None => [] end) with (blob_of t).
  change (match t_arg t with ArgHeap b _ => [b] | _ => [] end) with (argblk_of t).
  assert (InH : forall x, In x (blocks_of t) -> exists v, aget (s_heap (r_tl s)) x = Some v) by (intros x Hx; eapply blocks_in_heap; eassumption).
  assert (NF : forall x, In x (blocks_of t) -> ~ In x (r_freed s)).
  { intros x Hx Hf. destruct (InH x Hx) as [v Hv]. destruct (F x Hf) as [F1 _]. congruence. }
  unfold blocks_of in *.
  destruct (NoDup_app_elim _ _ _ W5) as (Nb & Na & Dba).
  split.
  - apply NoDup_app_intro; [exact Na| |].
    + apply NoDup_app_intro; [exact Nb|exact ND|]. intros x Hx. apply NF. apply in_or_app. now left.
    + intros x Hx Hin. apply in_app_or in Hin. destruct Hin as [Hin|Hin].
      * exact (Dba x Hin Hx).
      * apply (NF x); [apply in_or_app; now right|exact Hin].
  - intros x Hx. unfold thread_free. rewrite Ht. cbn [r_tl r_freed s_heap s_next].
    assert (Lx : (x < s_next (r_tl s))%N).
    { apply in_app_or in Hx. destruct Hx as [Hx|Hx]; [|apply in_app_or in Hx; destruct Hx as [Hx|Hx]].
      - destruct (InH x (in_or_app _ _ _ (or_intror Hx))) as [v Hv]. eapply (inv_fresh _ _ I); eassumption.
      - destruct (InH x (in_or_app _ _ _ (or_introl Hx))) as [v Hv]. eapply (inv_fresh _ _ I); eassumption.
      - apply F. exact Hx. }
    split; [|exact Lx].
    set (h1 := if t_tlsz t =? 0 then s_heap (r_tl s) else match t_slot t with Some b => adel (s_heap (r_tl s)) b | None => s_heap (r_tl s) end).
    assert (H1 : In x (blob_of t) \/ In x (r_freed s) -> aget h1 x = None).
    { intros [Hb|Hf].
      - unfold blob_of in Hb. unfold h1. destruct (t_tlsz t =? 0); [contradiction|]. destruct (t_slot t) as [b|]; [|contradiction].
        destruct Hb as [<-|[]]. apply aget_adel_same.
      - destruct (F x Hf) as [F1 _]. unfold h1. destruct (t_tlsz t =? 0); [exact F1|]. destruct (t_slot t); [apply aget_adel_none|]; exact F1. }
    apply in_app_or in Hx. destruct Hx as [Hx|Hx].
    + unfold argblk_of in Hx. destruct (t_arg t) as [|n|b n]; try contradiction. destruct Hx as [<-|[]]. apply aget_adel_same.
    + apply in_app_or in Hx. destruct (t_arg t) as [|n|b n]; try (apply H1; tauto). apply aget_adel_none. apply H1. tauto.
Qed.

Lemma J_step : forall c junk s o, Jinv c s -> Jinv c (fst (rstep c junk s o)).
Proof.
  intros c junk s o J. destruct o as [tid arg|tid|tid size|tid seed|tid]; cbn [rstep fst].
  - apply J_spawn; exact J.
  - unfold rid. destruct (aget (r_desc s) tid); [|exact J]. destruct (qthread_id (fld_of s n) (r_ctr s)) as [[r f] c']. exact J.
  - apply J_get; exact J.
  - apply J_write; exact J.
  - apply J_free; exact J.
Qed.

Theorem blob_freed_once_thm : forall c junk c0 ops,
  let s := rrun c junk (rinit c0) ops in
  NoDup (r_freed s) /\ forall b, In b (r_freed s) -> aget (s_heap (r_tl s)) b = None.
Proof.
  intros c junk c0 ops.
  assert (J : Jinv c (rrun c junk (rinit c0) ops)).
  { unfold rrun. generalize (rinit c0), (conj (inv_init c) (conj (NoDup_nil N) (fun b (H : In b []) => match H with end)) : Jinv c (rinit c0)).
    induction ops as [|o ops IH]; intros s J; cbn [fold_left]; [exact J|]. apply IH. apply J_step. exact J. }
  destruct J as (_ & ND & F). split; [exact ND|]. intros b Hb. apply F. exact Hb.
Qed.

(* a finished task's blob and heap argument copy ARE released (each appears in the log), and its descriptor goes back to its pool *)
Theorem free_releases_thm : forall c s tid t d,
  aget (s_tasks (r_tl s)) tid = Some t -> aget (r_desc s) tid = Some d ->
  let s' := rfree c s tid in
  (forall b, In b (blocks_of t) -> In b (r_freed s')) /\
  aget (s_tasks (r_tl s')) tid = None /\ desc_of s' tid = None /\
  (if t_big t then hd_error (r_free_b s') else hd_error (r_free_s s')) = Some d /\
  (t_tlsz t <> 0 -> tl_off c t + PTR <= length (t_data t) ->
   exists bs, aget (r_stale s') d = Some bs /\ slice bs (tl_off c t) PTR = repeat 0%N PTR).
Proof.
  intros c s tid t d Ht Hd. unfold rfree. rewrite Ht, Hd. cbn zeta.
  change (if t_tlsz t =? 0 then [] else match t_slot t with Some b => [b] | None => [] end) with (blob_of t).
  change (match t_arg t with ArgHeap b _ => [b] | _ => [] end) with (argblk_of t).
  split; [|split; [|split; [|split]]].
  - cbn [r_freed]. intros b Hb. unfold blocks_of in Hb. apply in_app_or in Hb. apply in_or_app.
    destruct Hb as [Hb|Hb]; [right; apply in_or_app; now left|now left].
  - cbn [r_tl]. unfold thread_free. rewrite Ht. cbn [s_tasks]. apply aget_adel_same.
  - unfold desc_of. cbn [r_desc]. apply aget_adel_same.
  - cbn [r_free_s r_free_b]. destruct (t_big t); reflexivity.
  - intros NZ L. cbn [r_stale]. rewrite aget_aset_same. eexists. split; [reflexivity|].
    destruct (t_tlsz t =? 0) eqn:Z; [apply Nat.eqb_eq in Z; contradiction|].
    change PTR with (length (repeat 0%N PTR)) at 2. apply slice_upd_same. rewrite repeat_length. exact L.
Qed.

(* ---------- 5. the pools: a descriptor is never owned by two live tasks, and never both owned and free ---------- *)
Definition frees (s : rst) : list N := r_free_s s ++ r_free_b s.

Record PoolInv (s : rst) : Prop := mkPool {
  p_dom  : forall tid, aget (r_desc s) tid = None <-> aget (s_tasks (r_tl s)) tid = None;
  p_live : forall tid d, aget (r_desc s) tid = Some d -> (d < r_ndesc s)%N /\ ~ In d (frees s);
  p_free : NoDup (frees s) /\ forall d, In d (frees s) -> (d < r_ndesc s)%N;
  p_inj  : forall t1 t2 d, aget (r_desc s) t1 = Some d -> aget (r_desc s) t2 = Some d -> t1 = t2
}.

Lemma in_mid : forall (A : Type) (l l' : list A) a x, In x (l ++ a :: l') <-> x = a \/ In x (l ++ l').
Proof.
  intros A l l' a x. rewrite !in_app_iff. cbn. split; intros H; intuition (subst; auto).
Qed.
Lemma NoDup_insert : forall (A : Type) (l l' : list A) a, NoDup (l ++ l') -> ~ In a (l ++ l') -> NoDup (l ++ a :: l').
Proof.
  intros A l l' a. induction l as [|y l IH]; cbn; intros H N.
  - constructor; assumption.
  - inversion H as [|? ? Hn H']; subst. constructor.
    + rewrite in_mid. intros [->|Hin]; [apply N; now left|contradiction].
    + apply IH; [exact H'|]. intros Hin. apply N. now right.
Qed.

Lemma thread_new_tasks : forall c j tl tid arg, exists t, s_tasks (thread_new c j tl tid arg) = aset (s_tasks tl) tid t.
Proof.
  intros c j tl tid arg. unfold thread_new.
  destruct ((0 <? length arg) && (length arg <=? AC c)); [|destruct (0 <? length arg)]; cbn [s_tasks]; eexists; reflexivity.
Qed.

(* normal form of a spawn: the descriptor is fresh, or taken out of the free lists *)
Lemma rspawn_cases : forall c junk s tid arg, aget (s_tasks (r_tl s)) tid = None ->
  exists d j fs fb nd,
    rspawn c junk s tid arg =
      mkr (thread_new c j (r_tl s) tid arg) (r_ctr s) (aset (r_desc s) tid d) (aset (r_fld s) d NON_TASK_ID)
          (adel (r_stale s) d) fs fb nd (r_freed s) /\
    ((d = r_ndesc s /\ nd = N.succ (r_ndesc s) /\ fs ++ fb = frees s) \/
     (nd = r_ndesc s /\ exists l1 l2, frees s = l1 ++ d :: l2 /\ fs ++ fb = l1 ++ l2)).
Proof.
  intros c junk s tid arg H. unfold rspawn, frees. rewrite H.
  destruct (is_big c arg); [destruct (r_free_b s) as [|d rest] eqn:F|destruct (r_free_s s) as [|d rest] eqn:F]; cbn iota beta zeta;
    do 5 eexists; (split; [reflexivity|]).
  - left. repeat split; reflexivity.
  - right. split; [reflexivity|]. exists (r_free_s s), rest. split; reflexivity.
  - left. repeat split; reflexivity.
  - right. split; [reflexivity|]. exists [], (rest ++ r_free_b s). split; reflexivity.
Qed.

Lemma P_spawn : forall c junk s tid arg, PoolInv s -> PoolInv (rspawn c junk s tid arg).
Proof.
  intros c junk s tid arg P. destruct (aget (s_tasks (r_tl s)) tid) eqn:E.
  { unfold rspawn. rewrite E. exact P. }
  destruct (rspawn_cases c junk s tid arg E) as (d & j & fs & fb & nd & -> & Cs).
  destruct (thread_new_tasks c j (r_tl s) tid arg) as [t Ht].
  pose proof (proj2 (p_dom s P tid) E) as Dn.
  assert (Dfresh : (d < nd)%N /\ ~ In d (fs ++ fb) /\ (forall t2, aget (r_desc s) t2 <> Some d) /\
                   NoDup (fs ++ fb) /\ (forall x, In x (fs ++ fb) -> In x (frees s)) /\ (r_ndesc s <= nd)%N).
  { destruct (p_free s P) as [ND Lt].
    destruct Cs as [(-> & -> & Q)|(-> & l1 & l2 & Q1 & Q2)].
    - rewrite Q. repeat split; try lia; auto.
      + intros Hin. apply Lt in Hin. lia.
      + intros t2 H2. apply (p_live s P) in H2. lia.
    - rewrite Q2. rewrite Q1 in ND. pose proof (NoDup_remove _ _ _ ND) as [N1 N2]. repeat split; try lia; auto.
      + apply Lt. rewrite Q1. apply in_mid. now left.
      + intros t2 H2. apply (p_live s P) in H2. destruct H2 as [_ H2]. apply H2. rewrite Q1. apply in_mid. now left.
      + intros x Hx. rewrite Q1. apply in_mid. now right. }
  destruct Dfresh as (D1 & D2 & D3 & D4 & D5 & D6).
  constructor; unfold frees; cbn [r_desc r_tl r_free_s r_free_b r_ndesc].
  - intros x. rewrite Ht. destruct (N.eq_dec tid x) as [<-|Ne].
    + rewrite !aget_aset_same. split; discriminate.
    + rewrite !aget_aset_other by exact Ne. apply (p_dom s P).
  - intros x dx. destruct (N.eq_dec tid x) as [<-|Ne].
    + rewrite aget_aset_same. intros Q; inversion Q; subst. split; assumption.
    + rewrite aget_aset_other by exact Ne. intros Q. destruct (p_live s P _ _ Q) as [L1 L2]. split; [lia|].
      intros Hin. apply L2. apply D5. exact Hin.
  - split; [exact D4|]. intros x Hx. apply D5 in Hx. apply (p_free s P) in Hx. lia.
  - intros t1 t2 dd. destruct (N.eq_dec tid t1) as [<-|N1]; destruct (N.eq_dec tid t2) as [<-|N2]; try reflexivity.
    + rewrite aget_aset_same, aget_aset_other by exact N2. intros Q1 Q2. inversion Q1; subst. exfalso. exact (D3 _ Q2).
    + rewrite aget_aset_same, aget_aset_other by exact N1. intros Q1 Q2. inversion Q2; subst. exfalso. exact (D3 _ Q1).
    + rewrite !aget_aset_other by assumption. apply (p_inj s P).
Qed.

Lemma dom_keep : forall (tasks tasks' : list (N * task)),
  (tasks' = tasks \/ exists tid t t', aget tasks tid = Some t /\ tasks' = aset tasks tid t') ->
  forall x, aget tasks' x = None <-> aget tasks x = None.
Proof.
  intros tasks tasks' [->|(tid & t & t' & Ht & ->)] x; [reflexivity|].
  destruct (N.eq_dec tid x) as [<-|Ne].
  - rewrite aget_aset_same, Ht. split; discriminate.
  - rewrite aget_aset_other by exact Ne. reflexivity.
Qed.

Lemma get_tasks_shape : forall c junk tl tid size r tl', get_tasklocal c junk tl tid size = Some (r, tl') ->
  s_tasks tl' = s_tasks tl \/ exists tid0 t t', aget (s_tasks tl) tid0 = Some t /\ s_tasks tl' = aset (s_tasks tl) tid0 t'.
Proof.
  intros c junk tl tid size r tl' E. unfold get_tasklocal in E.
  destruct (aget (s_tasks tl) tid) as [t|] eqn:Ht; [|discriminate].
  destruct ((t_tlsz t =? 0) && (size <=? TL c)); [inversion E; subst; now left|].
  destruct (t_tlsz t =? 0).
  - inversion E; subst. right. cbn [s_tasks]. eauto.
  - destruct (size <=? t_tlsz t).
    + destruct (t_slot t); inversion E; subst; now left.
    + destruct (t_slot t) as [b|]; [|discriminate]. destruct (aget (s_heap tl) b); [|discriminate].
      inversion E; subst. right. cbn [s_tasks]. eauto.
Qed.

Lemma write_tasks_shape : forall c tl tid pos bs tl', tl_write c tl tid pos bs = Some tl' ->
  s_tasks tl' = s_tasks tl \/ exists tid0 t t', aget (s_tasks tl) tid0 = Some t /\ s_tasks tl' = aset (s_tasks tl) tid0 t'.
Proof.
  intros c tl tid pos bs tl' E. unfold tl_write in E.
  destruct (aget (s_tasks tl) tid) as [t|] eqn:Ht; [|discriminate].
  destruct (t_tlsz t =? 0).
  - destruct (pos + length bs <=? TL c); inversion E; subst. right. cbn [s_tasks]. eauto.
  - destruct (t_slot t) as [b|]; [|discriminate]. destruct (aget (s_heap tl) b) as [o|]; [|discriminate].
    destruct (pos + length bs <=? length o); inversion E; subst. now left.
Qed.

Lemma P_same_pools : forall s s',
  PoolInv s -> r_desc s' = r_desc s -> r_free_s s' = r_free_s s -> r_free_b s' = r_free_b s -> r_ndesc s' = r_ndesc s ->
  (forall x, aget (s_tasks (r_tl s')) x = None <-> aget (s_tasks (r_tl s)) x = None) -> PoolInv s'.
Proof.
  intros s s' P E1 E2 E3 E4 D. constructor; unfold frees; rewrite ?E1, ?E2, ?E3, ?E4.
  - intros x. rewrite D. apply (p_dom s P).
  - apply (p_live s P).
  - apply (p_free s P).
  - apply (p_inj s P).
Qed.

Lemma P_free : forall c s tid, PoolInv s -> PoolInv (rfree c s tid).
Proof.
  intros c s tid P. unfold rfree.
  destruct (aget (s_tasks (r_tl s)) tid) as [t|] eqn:Ht; [|exact P].
  destruct (aget (r_desc s) tid) as [d|] eqn:Hd; [|exact P].
  destruct (p_live s P _ _ Hd) as [L1 L2]. destruct (p_free s P) as [ND Lt].
  set (fs' := if t_big t then r_free_s s else d :: r_free_s s).
  set (fb' := if t_big t then d :: r_free_b s else r_free_b s).
  assert (Q : exists l1 l2, fs' ++ fb' = l1 ++ d :: l2 /\ frees s = l1 ++ l2).
  { unfold fs', fb', frees. destruct (t_big t); [exists (r_free_s s), (r_free_b s)|exists [], (r_free_s s ++ r_free_b s)]; split; reflexivity. }
  destruct Q as (l1 & l2 & Q1 & Q2).
  constructor; unfold frees; cbn [r_desc r_tl r_free_s r_free_b r_ndesc]; fold fs' fb'; rewrite ?Q1.
  - intros x. unfold thread_free. rewrite Ht. cbn [s_tasks]. destruct (N.eq_dec tid x) as [<-|Ne].
    + rewrite !aget_adel_same. tauto.
    + rewrite !aget_adel_other by exact Ne. apply (p_dom s P).
  - intros x dx Hx. destruct (N.eq_dec tid x) as [<-|Ne]; [rewrite aget_adel_same in Hx; discriminate|].
    rewrite aget_adel_other in Hx by exact Ne. destruct (p_live s P _ _ Hx) as [M1 M2]. split; [exact M1|].
    rewrite in_mid. intros [->|Hin].
    + apply Ne. apply (p_inj s P _ _ _ Hd Hx).
    + apply M2. rewrite Q2. exact Hin.
  - split.
    + apply NoDup_insert; rewrite <- Q2; assumption.
    + intros x Hx. apply in_mid in Hx. destruct Hx as [->|Hx]; [exact L1|]. apply Lt. rewrite Q2. exact Hx.
  - intros t1 t2 dd H1 H2.
    destruct (N.eq_dec tid t1) as [<-|N1]; [rewrite aget_adel_same in H1; discriminate|].
    destruct (N.eq_dec tid t2) as [<-|N2]; [rewrite aget_adel_same in H2; discriminate|].
    rewrite aget_adel_other in H1, H2 by assumption. apply (p_inj s P _ _ _ H1 H2).
Qed.

Lemma P_step : forall c junk s o, PoolInv s -> PoolInv (fst (rstep c junk s o)).
Proof.
  intros c junk s o P. destruct o as [tid arg|tid|tid size|tid seed|tid]; cbn [rstep fst].
  - apply P_spawn; exact P.
  - unfold rid. destruct (aget (r_desc s) tid); [|exact P]. destruct (qthread_id (fld_of s n) (r_ctr s)) as [[r f] c'].
    cbn [fst]. apply (P_same_pools s _ P); try reflexivity.
  - unfold rget. destruct (get_tasklocal c junk (r_tl s) tid size) as [[r tl']|] eqn:E; [|exact P].
    apply (P_same_pools s _ P); try reflexivity. cbn [r_tl]. apply dom_keep. eapply get_tasks_shape; eassumption.
  - unfold rwrite. destruct (tl_view c (r_tl s) tid); [|exact P].
    destruct (tl_write c (r_tl s) tid 0 (pattern_bytes seed (length l))) eqn:E; [|exact P].
    apply (P_same_pools s _ P); try reflexivity. cbn [r_tl]. apply dom_keep. eapply write_tasks_shape; eassumption.
  - apply P_free; exact P.
Qed.

Lemma P_init : forall c0, PoolInv (rinit c0).
Proof.
  intros c0. constructor; unfold frees; cbn.
  - intros; tauto.
  - intros; discriminate.
  - split; [constructor|intros d []].
  - intros; discriminate.
Qed.

Theorem descriptor_single_owner_thm : forall c junk c0 ops,
  let s := rrun c junk (rinit c0) ops in
  (forall t1 t2 d, desc_of s t1 = Some d -> desc_of s t2 = Some d -> t1 = t2) /\
  (forall t d, desc_of s t = Some d -> ~ In d (r_free_s s) /\ ~ In d (r_free_b s)) /\
  NoDup (r_free_s s ++ r_free_b s).
Proof.
  intros c junk c0 ops.
  assert (P : PoolInv (rrun c junk (rinit c0) ops)).
  { unfold rrun. generalize (rinit c0), (P_init c0). induction ops as [|o ops IH]; intros s P; cbn [fold_left]; [exact P|].
    apply IH. apply P_step. exact P. }
  cbn zeta. split; [exact (p_inj _ P)|split; [|exact (proj1 (p_free _ P))]].
  intros t d H. destruct (p_live _ P _ _ H) as [_ L]. unfold frees in L. rewrite in_app_iff in L. tauto.
Qed.

(* ---------- 6. identity with recycling: live tasks hold pairwise different ids, whatever descriptors they were given ---------- *)
Ltac Zify.zify_post_hook ::= Z.div_mod_to_equations.

Lemma id_alloc_ghost : forall c0 adv i c',
  id_alloc (wrap64 (c0 + adv)) = (i, c') ->
  exists k adv', (adv <= k < adv')%N /\ (adv' <= adv + 3)%N /\ c' = wrap64 (c0 + adv') /\ i = wrap32 (c0 + k) /\
                 i <> NON_TASK_ID /\ i <> NULL_TASK_ID.
Proof.
  intros c0 adv i c' H. unfold id_alloc, fetch_add in H.
  destruct (wrap32 (wrap64 (c0 + adv)) =? NULL_TASK_ID)%N eqn:E1.
  - apply N.eqb_eq in E1. inversion H; subst; clear H. exists (adv + 2)%N, (adv + 3)%N.
    cbv [wrap32 wrap64 M32 M64 NULL_TASK_ID NON_TASK_ID] in *. repeat split; lia.
  - destruct (wrap32 (wrap64 (c0 + adv)) =? NON_TASK_ID)%N eqn:E2.
    + apply N.eqb_eq in E2. inversion H; subst; clear H. exists (adv + 1)%N, (adv + 2)%N.
      cbv [wrap32 wrap64 M32 M64 NULL_TASK_ID NON_TASK_ID] in *. repeat split; lia.
    + apply N.eqb_neq in E1. apply N.eqb_neq in E2. inversion H; subst; clear H. exists adv, (adv + 1)%N.
      cbv [wrap32 wrap64 M32 M64 NULL_TASK_ID NON_TASK_ID] in *. repeat split; lia.
Qed.

Lemma wrap32_inj_window : forall c0 k k', k <> k' -> (k < M32)%N -> (k' < M32)%N -> wrap32 (c0 + k) <> wrap32 (c0 + k').
Proof. intros c0 k k' H1 H2 H3. cbv [wrap32 M32] in *. lia. Qed.

Definition IdInv (c0 : N) (n : nat) (s : rst) : Prop :=
  exists (adv : N) (g : N -> option N),
    (adv <= 3 * N.of_nat n)%N /\ r_ctr s = wrap64 (c0 + adv) /\
    (forall tid d, aget (r_desc s) tid = Some d ->
       fld_of s d = NON_TASK_ID \/
       exists k, g d = Some k /\ (k < adv)%N /\ fld_of s d = wrap32 (c0 + k) /\ fld_of s d <> NULL_TASK_ID) /\
    (forall t1 t2 d1 d2 k, aget (r_desc s) t1 = Some d1 -> aget (r_desc s) t2 = Some d2 -> d1 <> d2 ->
       fld_of s d1 <> NON_TASK_ID -> fld_of s d2 <> NON_TASK_ID -> g d1 = Some k -> g d2 = Some k -> False).

Lemma fld_of_aset_same : forall s' s d v, r_fld s' = aset (r_fld s) d v -> fld_of s' d = v.
Proof. intros s' s d v H. unfold fld_of. rewrite H, aget_aset_same. reflexivity. Qed.
Lemma fld_of_aset_other : forall s' s d v x, r_fld s' = aset (r_fld s) d v -> d <> x -> fld_of s' x = fld_of s x.
Proof. intros s' s d v x H Ne. unfold fld_of. rewrite H, aget_aset_other by exact Ne. reflexivity. Qed.
Lemma fld_of_same : forall s' s x, r_fld s' = r_fld s -> fld_of s' x = fld_of s x.
Proof. intros s' s x H. unfold fld_of. rewrite H. reflexivity. Qed.

Lemma spawn_desc_unowned : forall c junk s tid arg d,
  PoolInv s -> aget (s_tasks (r_tl s)) tid = None -> desc_of (rspawn c junk s tid arg) tid = Some d ->
  forall t2, aget (r_desc s) t2 <> Some d.
Proof.
  intros c junk s tid arg d P E Hd. destruct (rspawn_cases c junk s tid arg E) as (d' & j & fs & fb & nd & Q & Cs).
  rewrite Q in Hd. unfold desc_of in Hd. cbn [r_desc] in Hd. rewrite aget_aset_same in Hd. inversion Hd; subst d'.
  intros t2 H2. destruct (p_live s P _ _ H2) as [L1 L2].
  destruct Cs as [(-> & _)|(_ & l1 & l2 & Q1 & _)]; [lia|]. apply L2. rewrite Q1. apply in_mid. now left.
Qed.

Definition is_rid (o : rop) : nat := match o with RId _ => 1 | _ => 0 end.
Definition count_rid (ops : list rop) : nat := fold_right (fun o a => is_rid o + a) 0 ops.

(* a step that changes neither the descriptor table, nor the id fields, nor the counter *)
Lemma I_same : forall c0 n s s', IdInv c0 n s -> r_desc s' = r_desc s -> r_fld s' = r_fld s -> r_ctr s' = r_ctr s -> IdInv c0 n s'.
Proof.
  intros c0 n s s' (adv & g & A & C & L & D) E1 E2 E3. exists adv, g. split; [exact A|]. split; [congruence|]. split.
  - intros tid d. rewrite E1, (fld_of_same s' s d E2). apply L.
  - intros t1 t2 d1 d2 k. rewrite E1, (fld_of_same s' s d1 E2), (fld_of_same s' s d2 E2). apply D.
Qed.
Lemma I_weaken : forall c0 n m s, IdInv c0 n s -> (n <= m)%nat -> IdInv c0 m s.
Proof. intros c0 n m s (adv & g & A & R) H. exists adv, g. split; [lia|exact R]. Qed.

Lemma I_step : forall c junk c0 n s o, PoolInv s -> IdInv c0 n s -> IdInv c0 (n + is_rid o) (fst (rstep c junk s o)).
Proof.
  intros c junk c0 n s o P I.
  destruct o as [tid arg|tid|tid size|tid seed|tid]; cbn [rstep fst is_rid]; rewrite ?Nat.add_0_r.
  - (* spawn *)
    destruct (aget (s_tasks (r_tl s)) tid) eqn:E.
    { unfold rspawn. rewrite E. exact I. }
    pose proof (spawn_desc_unowned c junk s tid arg) as U.
    destruct (rspawn_cases c junk s tid arg E) as (d & j & fs & fb & nd & Q & _).
    specialize (U d P E). rewrite Q in U. unfold desc_of in U. cbn [r_desc] in U. rewrite aget_aset_same in U. specialize (U eq_refl).
    rewrite Q. destruct I as (adv & g & A & C & L & D). exists adv, g. split; [exact A|]. split; [exact C|].
    set (s' := mkr (thread_new c j (r_tl s) tid arg) (r_ctr s) (aset (r_desc s) tid d) (aset (r_fld s) d NON_TASK_ID) (adel (r_stale s) d) fs fb nd (r_freed s)).
    assert (Fd : fld_of s' d = NON_TASK_ID) by (apply (fld_of_aset_same s' s); reflexivity).
    assert (Fo : forall x, d <> x -> fld_of s' x = fld_of s x) by (intros x Nx; apply (fld_of_aset_other s' s d NON_TASK_ID); [reflexivity|exact Nx]).
    assert (Old : forall x dx, tid <> x -> aget (r_desc s') x = Some dx -> aget (r_desc s) x = Some dx /\ d <> dx).
    { intros x dx Ne Hx. cbn [s' r_desc] in Hx. rewrite aget_aset_other in Hx by exact Ne. split; [exact Hx|]. intros ->. exact (U _ Hx). }
    assert (New : forall dx, aget (r_desc s') tid = Some dx -> dx = d).
    { intros dx Hx. cbn [s' r_desc] in Hx. rewrite aget_aset_same in Hx. congruence. }
    split.
    + intros x dx Hx. destruct (N.eq_dec tid x) as [<-|Ne].
      * rewrite (New _ Hx). left. exact Fd.
      * destruct (Old _ _ Ne Hx) as [O1 O2]. rewrite (Fo _ O2). apply (L _ _ O1).
    + intros t1 t2 d1 d2 k H1 H2 Nd F1 F2 G1 G2.
      destruct (N.eq_dec tid t1) as [<-|N1]; [rewrite (New _ H1) in F1; contradiction|].
      destruct (N.eq_dec tid t2) as [<-|N2]; [rewrite (New _ H2) in F2; contradiction|].
      destruct (Old _ _ N1 H1) as [O1 O1']. destruct (Old _ _ N2 H2) as [O2 O2'].
      rewrite (Fo _ O1') in F1. rewrite (Fo _ O2') in F2. exact (D _ _ _ _ _ O1 O2 Nd F1 F2 G1 G2).
  - (* id *)
    unfold rid. destruct (aget (r_desc s) tid) as [d|] eqn:Hd.
    2:{ cbn [fst]. apply (I_weaken c0 n); [exact I|lia]. }
    unfold qthread_id. destruct (fld_of s d =? NON_TASK_ID)%N eqn:Z.
    + destruct I as (adv & g & A & C & L & D).
      destruct (id_alloc (r_ctr s)) as [i c'] eqn:Ea. cbn [fst].
      rewrite C in Ea. destruct (id_alloc_ghost _ _ _ _ Ea) as (k & adv' & K1 & K2 & K3 & K4 & K5 & K6).
      set (s' := mkr (r_tl s) c' (r_desc s) (aset (r_fld s) d i) (r_stale s) (r_free_s s) (r_free_b s) (r_ndesc s) (r_freed s)).
      assert (Fd : fld_of s' d = i) by (apply (fld_of_aset_same s' s); reflexivity).
      assert (Fo : forall x, d <> x -> fld_of s' x = fld_of s x) by (intros x Nx; apply (fld_of_aset_other s' s d i); [reflexivity|exact Nx]).
      exists adv', (fun x => if N.eqb x d then Some k else g x).
      split; [lia|]. split; [exact K3|]. split.
      * intros x dx Hx. cbn [s' r_desc] in Hx. destruct (N.eq_dec d dx) as [<-|Nd].
        -- right. exists k. rewrite N.eqb_refl, Fd. repeat split; try assumption; lia.
        -- rewrite (Fo _ Nd). destruct (L _ _ Hx) as [F|(k0 & G0 & G1 & G2 & G3)]; [left; exact F|right].
           exists k0. destruct (N.eqb dx d) eqn:Q; [apply N.eqb_eq in Q; congruence|]. repeat split; try assumption; lia.
      * intros t1 t2 d1 d2 k0 H1 H2 Nd F1 F2 G1 G2. cbn [s' r_desc] in H1, H2.
        assert (Low : forall t dx, aget (r_desc s) t = Some dx -> d <> dx -> fld_of s' dx <> NON_TASK_ID -> forall kk, g dx = Some kk -> (kk < adv)%N).
        { intros t dx Ht Ne Fx kk Gk. rewrite (Fo _ Ne) in Fx. destruct (L _ _ Ht) as [F|(k1 & Q1 & Q2 & _)]; [contradiction|]. congruence. }
        destruct (N.eq_dec d d1) as [<-|E1]; destruct (N.eq_dec d d2) as [<-|E2]; try contradiction.
        -- rewrite N.eqb_refl in G1. destruct (N.eqb d2 d) eqn:Q; [apply N.eqb_eq in Q; congruence|].
           pose proof (Low _ _ H2 E2 F2 _ G2). inversion G1; subst. lia.
        -- rewrite N.eqb_refl in G2. destruct (N.eqb d1 d) eqn:Q; [apply N.eqb_eq in Q; congruence|].
           pose proof (Low _ _ H1 E1 F1 _ G1). inversion G2; subst. lia.
        -- destruct (N.eqb d1 d) eqn:Q1; [apply N.eqb_eq in Q1; congruence|].
           destruct (N.eqb d2 d) eqn:Q2; [apply N.eqb_eq in Q2; congruence|].
           rewrite (Fo _ E1) in F1. rewrite (Fo _ E2) in F2. exact (D _ _ _ _ _ H1 H2 Nd F1 F2 G1 G2).
    + cbn [fst]. apply (I_weaken c0 n); [|lia].
      destruct I as (adv & g & A & C & L & D).
      set (s' := mkr (r_tl s) (r_ctr s) (r_desc s) (aset (r_fld s) d (fld_of s d)) (r_stale s) (r_free_s s) (r_free_b s) (r_ndesc s) (r_freed s)).
      assert (Fa : forall x, fld_of s' x = fld_of s x).
      { intros x. destruct (N.eq_dec d x) as [<-|Nx]; [apply (fld_of_aset_same s' s); reflexivity|apply (fld_of_aset_other s' s d (fld_of s d)); [reflexivity|exact Nx]]. }
      exists adv, g. split; [exact A|]. split; [exact C|]. split.
      * intros x dx Hx. rewrite Fa. apply (L _ _ Hx).
      * intros t1 t2 d1 d2 k. rewrite !Fa. apply D.
  - unfold rget. destruct (get_tasklocal c junk (r_tl s) tid size) as [[r tl']|]; [|exact I]. apply (I_same c0 n s); [exact I|reflexivity..].
  - unfold rwrite. destruct (tl_view c (r_tl s) tid); [|exact I].
    destruct (tl_write c (r_tl s) tid 0 (pattern_bytes seed (length l))); [|exact I]. apply (I_same c0 n s); [exact I|reflexivity..].
  - unfold rfree. destruct (aget (s_tasks (r_tl s)) tid); [|exact I].
    destruct (aget (r_desc s) tid) eqn:Hd; [|exact I].
    destruct I as (adv & g & A & C & L & D). exists adv, g. split; [exact A|]. split; [exact C|].
    assert (Sub : forall x dx, aget (adel (r_desc s) tid) x = Some dx -> aget (r_desc s) x = Some dx).
    { intros x dx Hx. destruct (N.eq_dec tid x) as [<-|Ne]; [rewrite aget_adel_same in Hx; discriminate|].
      rewrite aget_adel_other in Hx by exact Ne. exact Hx. }
    split.
    + intros x dx Hx. apply Sub in Hx. apply (L _ _ Hx).
    + intros t1 t2 d1 d2 k H1 H2. apply Sub in H1. apply Sub in H2. apply (D _ _ _ _ _ H1 H2).
Qed.

Lemma PI_run : forall c junk c0 ops n s, PoolInv s -> IdInv c0 n s ->
  PoolInv (rrun c junk s ops) /\ IdInv c0 (n + count_rid ops) (rrun c junk s ops).
Proof.
  intros c junk c0 ops. induction ops as [|o ops IH]; intros n s P I; cbn [rrun fold_left count_rid fold_right].
  - rewrite Nat.add_0_r. split; assumption.
  - destruct (IH (n + is_rid o)%nat (fst (rstep c junk s o)) (P_step c junk s o P) (I_step c junk c0 n s o P I)) as [P' I'].
    split; [exact P'|]. unfold rrun in I'. fold (count_rid ops). rewrite Nat.add_assoc. exact I'.
Qed.

Lemma I_init : forall c0, (c0 < M64)%N -> IdInv c0 0 (rinit c0).
Proof.
  intros c0 H. exists 0%N, (fun _ => None). split; [cbn; lia|]. split; [|split].
  - cbn [rinit r_ctr]. cbv [wrap64 M64] in *. lia.
  - intros tid d Hd. discriminate.
  - intros t1 t2 d1 d2 k H1. discriminate.
Qed.

(* for every sequence of spawn / id / get_tasklocal / write / finish operations (descriptors recycled through the pools), as long
   as 3 x (number of qthread_id calls) < 2^32: two tasks that are alive in the final state and have an id have different ids,
   neither reserved *)
Theorem reuse_live_ids_distinct_thm : forall c junk c0 ops,
  (c0 < M64)%N -> (3 * N.of_nat (count_rid ops) < M32)%N ->
  let s := rrun c junk (rinit c0) ops in
  forall t1 t2 i1 i2, t1 <> t2 -> live_fld s t1 = Some i1 -> live_fld s t2 = Some i2 ->
    i1 <> NON_TASK_ID -> i2 <> NON_TASK_ID -> i1 <> i2 /\ i1 <> NULL_TASK_ID.
Proof.
  intros c junk c0 ops H0 B. cbn zeta.
  destruct (PI_run c junk c0 ops 0 (rinit c0) (P_init c0) (I_init c0 H0)) as [P (adv & g & A & C & L & D)].
  cbn [Nat.add] in A. intros t1 t2 i1 i2 Nt H1 H2 F1 F2. unfold live_fld in H1, H2.
  destruct (aget (r_desc (rrun c junk (rinit c0) ops)) t1) as [d1|] eqn:E1; [|discriminate].
  destruct (aget (r_desc (rrun c junk (rinit c0) ops)) t2) as [d2|] eqn:E2; [|discriminate].
  inversion H1; subst i1. inversion H2; subst i2. clear H1 H2.
  assert (Nd : d1 <> d2) by (intros ->; apply Nt; apply (p_inj _ P _ _ _ E1 E2)).
  destruct (L _ _ E1) as [Z|(k1 & G1 & K1 & W1 & R1)]; [contradiction|].
  destruct (L _ _ E2) as [Z|(k2 & G2 & K2 & W2 & R2)]; [contradiction|].
  split; [|exact R1]. rewrite W1, W2. apply wrap32_inj_window; try lia.
  intros ->. exact (D _ _ _ _ _ E1 E2 Nd F1 F2 G1 G2).
Qed.

(* ---------- non-vacuity: a descriptor is handed out three times; the second owner finds the first owner's bytes and draws a new
   id although the descriptor still held id 5; the third owner finds the blob slot zeroed; the blob was released once ---------- *)
Definition cfg0 := mkcfg 16 8.
Definition j0 (i : nat) : byte := 170%N.
Definition ops_ex : list rop :=
  [RSpawn 0 []; RId 0; RGet 0 0; RWrite 0 3; RFree 0; RSpawn 1 []; RGet 1 0; RId 1; RGet 1 100; RFree 1; RSpawn 2 []; RId 2]%N.
Example reuse_ex_after_first_free :
  let s := rrun cfg0 j0 (rinit 5) (firstn 5 ops_ex) in
  r_free_s s = [0%N] /\ aget (r_fld s) 0%N = Some 5%N /\ (exists bs, aget (r_stale s) 0%N = Some bs /\ length bs = PTR + TL cfg0).
Proof. vm_compute. repeat split. eexists. split; reflexivity. Qed.
Example reuse_ex_second_owner :
  let s := rrun cfg0 j0 (rinit 5) (firstn 8 ops_ex) in
  desc_of s 1%N = Some 0%N /\ live_fld s 1%N = Some 6%N /\ tl_view cfg0 (r_tl s) 1%N = Some (pattern_bytes 3 8).
Proof. vm_compute. repeat split. Qed.
Example reuse_ex_third_owner :
  let s := rrun cfg0 j0 (rinit 5) ops_ex in
  desc_of s 2%N = Some 0%N /\ live_fld s 2%N = Some 7%N /\ tl_view cfg0 (r_tl s) 2%N = Some (repeat 0%N 8) /\
  r_freed s = [1%N] /\ r_ndesc s = 1%N /\ count_rid ops_ex = 3.
Proof. vm_compute. repeat split. Qed.
