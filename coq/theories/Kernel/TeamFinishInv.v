(* C05 extension T: the invariant of the team-finish machine (Kernel/TeamFinish.v), definitions only.
   Proofs: TeamFinishProofs.v (preservation), TeamFinishLive.v (progress), TeamFinishTheorems.v (the property theorems). *)
From Coq Require Import List ZArith Bool Arith Lia.
From QV Require Import Kernel.TeamFinish.
Import ListNotations.
Local Open Scope Z_scope.

Fixpoint sumn (n : nat) (g : nat -> Z) : Z := match n with O => 0 | S k => g k + sumn k g end.

(* position of the leader in its program *)
Definition lrank (p : lpcT) : nat :=
  match p with
  | LNasc => 0 | LReady => 1 | LWx => 2 | LWw => 3 | LRun => 4 | LA => 5 | LA2 => 6 | LB => 7 | LC => 8 | LD => 9
  | LE => 10 | LF => 11 | LG => 12 | LH => 13 | LI => 14 | LJ => 15 | LK => 16 | LL => 17 | LDone => 18
  end.

(* a member is registered on its team's sinc from the spawner's expect until its own submit *)
Definition mlive (m : memb) : bool := match mpc m with MNasc | MReady | MRun | MRet => true | _ => false end.
Definition mcon (t : nat) (m : memb) : Z :=
  match mteam m with Some t' => if Nat.eqb t' t && mlive m then 1 else 0 | None => 0 end.
Definition msum (s : state) (t : nat) : Z := sumn (nm s) (fun k => mcon t (mem s k)).

(* the leader's own outstanding submits on team->sinc (1.2.2: the second submit is on the watcher's behalf, undone by the reset) *)
Definition lcon (k : tkind) (p : lpcT) : Z :=
  match p with
  | LNasc | LReady | LWx | LWw | LRun | LA => 1
  | LA2 => 0
  | LB | LC | LD | LE => if is_ksub k then -1 else 0
  | _ => 0
  end.
Definition wcon (w : wpcT) : Z := match w with WNasc | WReady | WStarted | WGot => 1 | _ => 0 end.
(* the leader's own outstanding submit on team->subteams_sinc *)
Definition lscon (p : lpcT) : Z := if Nat.leb (lrank p) 8 then 1 else 0.
(* a subteam is registered on its parent's subteams_sinc until its leader's submit (LH) *)
Definition ccon (t : nat) (c : tctl) : Z :=
  match tk c with KSub p => if Nat.eqb p t && Nat.leb (lrank (lpc c)) 13 then 1 else 0 | _ => 0 end.
Definition csum (s : state) (t : nat) : Z := sumn (nt s) (fun c => ccon t (ctl s c)).

Definition ksubonly (p : lpcT) : bool := match p with LWx | LWw | LA2 | LE | LF | LG | LH => true | _ => false end.

(* leader pc / watcher pc of a 1.2.2 subteam *)
Definition wrel (p : lpcT) (w : wpcT) : Prop :=
  match p with
  | LNasc | LReady | LWx => w = WNone
  | LWw => w = WNasc \/ w = WReady \/ w = WStarted
  | LRun | LA | LA2 | LB | LC | LD | LE | LF => w = WStarted
  | LG => w = WStarted \/ w = WGot \/ w = WDone
  | LH | LI | LJ | LK | LL | LDone => w = WDone
  end.

Record tinv (s : state) (t : nat) : Prop := mktinv {
  ti_sincok : sincok (obj s t) = Nat.leb (lrank (lpc (ctl s t))) 14;
  ti_subsok : subsok (obj s t) = Nat.leb (lrank (lpc (ctl s t))) 15;
  ti_freed  : freed (obj s t) = negb (Nat.leb (lrank (lpc (ctl s t))) 16);
  ti_sinc   : (lrank (lpc (ctl s t)) <= 14)%nat ->
              sinc (obj s t) = lcon (tk (ctl s t)) (lpc (ctl s t)) + wcon (wpc (ctl s t)) + msum s t;
  ti_nomemb : (8 <= lrank (lpc (ctl s t)))%nat -> msum s t = 0;
  ti_subs   : (lrank (lpc (ctl s t)) <= 15)%nat -> subs (obj s t) = lscon (lpc (ctl s t)) + csum s t;
  ti_nosub  : (10 <= lrank (lpc (ctl s t)))%nat -> csum s t = 0;
  ti_watch  : match tk (ctl s t) with
              | KSub p => (p < t)%nat /\ wrel (lpc (ctl s t)) (wpc (ctl s t)) /\
                          (eu (obj s p) = Some t <-> (lpc (ctl s t) = LG /\ wpc (ctl s t) = WStarted))
              | _ => wpc (ctl s t) = WNone /\ ksubonly (lpc (ctl s t)) = false
              end;
  ti_eu     : forall c, eu (obj s t) = Some c -> (c < nt s)%nat /\ tk (ctl s c) = KSub t;
  ti_fills  : fills (obj s t) = if Nat.eqb (lrank (lpc (ctl s t))) 18 then 1%nat else 0%nat
}.

Record inv (s : state) : Prop := mkinv {
  i_team : forall t, (t < nt s)%nat -> tinv s t;
  i_memb : forall k t, (k < nm s)%nat -> mteam (mem s k) = Some t -> (t < nt s)%nat;
  i_uaf  : uaf s = false
}.
