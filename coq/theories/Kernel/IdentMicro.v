(* C09 extension G, task identity at micro-step granularity: every task is a program counter over the
   accesses that qthread_id() of src/qthread.c performs (lazy ids, code as it is after ce3963d):

       if (t->thread_id != QTHREAD_NON_TASK_ID) return t->thread_id;            PTest / PLoadRet / PRet
       t->thread_id = qthread_internal_incr(&qlib->max_thread_id, .., 1);       PDraw1 (one atomic access) / PStore1
       if (t->thread_id == QTHREAD_NULL_TASK_ID)                                PChk
           t->thread_id = qthread_internal_incr(.., 2) + 1;                     PDrawNull / PStoreNull
       else if (t->thread_id == QTHREAD_NON_TASK_ID)
           t->thread_id = qthread_internal_incr(.., 1);                         PDrawNon / PStoreNon
       return t->thread_id;                                                     PLoadRet / PRet

   qlib->max_thread_id is a 64-bit aligned_t (wrap explicit), t->thread_id a 32-bit unsigned.  There is no loop:
   one first draw and at most one re-draw.  Any number of tasks (a task is a natural number; a task that is never
   scheduled stays idle), any number of calls per task (a task at PIdle that is scheduled starts its next call),
   any schedule ([list nat]).  [atomic = false] is the variant in which the first increment is a load followed by
   a store (used only for the refutation).

   Ghost fields (not in the code, never read by [step] for a decision): [s_adv] = number of counter units handed
   out so far, [t_g] = the offset (in units handed out since the start) of the unit whose low 32 bits are / will
   be the task's id, [t_draws] = number of fetch-and-adds the task has performed.
   Definitions only (proofs: IdentMicroProofs.v). *)
From Coq Require Import List NArith Bool Arith.
From QV Require Import Kernel.Ident.
Import ListNotations.
Local Open Scope N_scope.

Inductive pc :=
| PIdle                  (* not inside qthread_id() *)
| PTest (r : N)          (* loaded t->thread_id = r, about to compare it with QTHREAD_NON_TASK_ID *)
| PDraw1                 (* about to fetch-and-add 1 *)
| PDraw1b (v : N)        (* non-atomic variant only: loaded the counter (= v), about to store v + 1 *)
| PStore1 (v : N)        (* drew v, about to store (unsigned)v into t->thread_id *)
| PChk                   (* about to load t->thread_id and compare with NULL / NON *)
| PDrawNull              (* about to fetch-and-add 2 *)
| PStoreNull (v : N)     (* drew v, about to store (unsigned)(v + 1) *)
| PDrawNon               (* about to fetch-and-add 1 (re-draw) *)
| PStoreNon (v : N)      (* drew v, about to store (unsigned)v *)
| PLoadRet               (* about to load t->thread_id for the return statement *)
| PRet (r : N).          (* about to return r *)

Record task := mkT {
  t_fld   : N;           (* t->thread_id *)
  t_pc    : pc;
  t_rets  : list N;      (* values returned by the task's calls so far, newest first *)
  t_g     : option N;    (* ghost *)
  t_draws : nat          (* ghost *)
}.

Record state := mkS {
  s_ctr   : N;             (* qlib->max_thread_id *)
  s_adv   : N;             (* ghost *)
  s_tasks : nat -> task
}.

Definition task0 : task := mkT NON_TASK_ID PIdle [] None 0.   (* qthread_thread_new: thread_id = QTHREAD_NON_TASK_ID *)
Definition init (c0 : N) : state := mkS (wrap64 c0) 0 (fun _ => task0).

Definition upd (f : nat -> task) (i : nat) (t : task) : nat -> task :=
  fun j => if Nat.eqb j i then t else f j.

Definition with_pc (t : task) (p : pc) : task := mkT (t_fld t) p (t_rets t) (t_g t) (t_draws t).
Definition with_fld (t : task) (f : N) (p : pc) : task := mkT f p (t_rets t) (t_g t) (t_draws t).
Definition with_draw (t : task) (p : pc) (g : N) : task := mkT (t_fld t) p (t_rets t) (Some g) (S (t_draws t)).

(* one access of task [i] *)
Definition step (atomic : bool) (s : state) (i : nat) : state :=
  let t := s_tasks s i in
  let set t' := mkS (s_ctr s) (s_adv s) (upd (s_tasks s) i t') in
  let draw k t' := mkS (wrap64 (s_ctr s + k)) (s_adv s + k) (upd (s_tasks s) i t') in
  match t_pc t with
  | PIdle => set (with_pc t (PTest (t_fld t)))
  | PTest r => set (with_pc t (if r =? NON_TASK_ID then PDraw1 else PLoadRet))
  | PDraw1 => if atomic then draw 1 (with_draw t (PStore1 (s_ctr s)) (s_adv s))
              else set (with_pc t (PDraw1b (s_ctr s)))
  | PDraw1b v => mkS (wrap64 (v + 1)) (s_adv s + 1) (upd (s_tasks s) i (with_draw t (PStore1 v) (s_adv s)))
  | PStore1 v => set (with_fld t (wrap32 v) PChk)
  | PChk => set (with_pc t (if t_fld t =? NULL_TASK_ID then PDrawNull
                            else if t_fld t =? NON_TASK_ID then PDrawNon else PLoadRet))
  | PDrawNull => draw 2 (with_draw t (PStoreNull (s_ctr s)) (s_adv s + 1))
  | PStoreNull v => set (with_fld t (wrap32 (v + 1)) PLoadRet)
  | PDrawNon => draw 1 (with_draw t (PStoreNon (s_ctr s)) (s_adv s))
  | PStoreNon v => set (with_fld t (wrap32 v) PLoadRet)
  | PLoadRet => set (with_pc t (PRet (t_fld t)))
  | PRet r => set (mkT (t_fld t) PIdle (r :: t_rets t) (t_g t) (t_draws t))
  end.

Definition run (atomic : bool) (s : state) (sch : list nat) : state := fold_left (step atomic) sch s.

(* ---- derived step used by the replay on the real code: the schedule points of the harness are the call
   boundary (PIdle) and the three fetch-and-adds; a grant runs a task from one schedule point to the next ---- *)
Definition is_sp (p : pc) : bool :=
  match p with PIdle | PDraw1 | PDrawNull | PDrawNon => true | _ => false end.

Fixpoint run_until_sp (fuel : nat) (s : state) (i : nat) : state :=
  match fuel with
  | O => s
  | S f => if is_sp (t_pc (s_tasks s i)) then s else run_until_sp f (step true s i) i
  end.

Definition run_to_sp (s : state) (i : nat) : state := run_until_sp 12 (step true s i) i.

(* position inside a call (strictly increasing along every path of one call) *)
Definition pos (p : pc) : nat :=
  match p with
  | PIdle => 0 | PTest _ => 1 | PDraw1 => 2 | PDraw1b _ => 3 | PStore1 _ => 4 | PChk => 5
  | PDrawNull => 6 | PDrawNon => 6 | PStoreNull _ => 7 | PStoreNon _ => 7 | PLoadRet => 8 | PRet _ => 9
  end%nat.
Definition CALL_STEPS : nat := 10.
Definition phi (t : task) : nat := (CALL_STEPS * length (t_rets t) + pos (t_pc t))%nat.
