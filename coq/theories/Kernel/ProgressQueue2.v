From Coq Require Import List Bool Arith NArith ZArith Lia.
From QV Require Import Kernel.GenSpawnTable Kernel.Placement Kernel.ProofsPlacement Kernel.Model Kernel.ProofsKernel
     Kernel.ProofsC07 Kernel.ProofsPin Kernel.Progress Kernel.ProgressInv Kernel.ProgressEnabled Kernel.ProgressQueue.
Import ListNotations.

Definition nonq (l : loc) : Prop := forall q b, l <> InQueue q b.

Lemma frame_move t from to ps :
  place_of t ps = Some from -> nonq from -> nonq to ->
  (forall u, inq ((t, to) :: drop_tid t ps) u = inq ps u) /\
  (forall u, inq ps u = 1 -> place_of u ((t, to) :: drop_tid t ps) = place_of u ps).
Proof.
  intros P Nf Nt. split; intros u.
  - rewrite inq_move. destruct (t =? u) eqn:E; [|reflexivity]. apply Nat.eqb_eq in E; subst u.
    unfold inq. rewrite P. destruct to; try (exfalso; eapply Nt; reflexivity); destruct from; try reflexivity; exfalso; eapply Nf; reflexivity.
  - intros I. rewrite place_of_move. destruct (t =? u) eqn:E; [|reflexivity]. apply Nat.eqb_eq in E; subst u.
    unfold inq in I. rewrite P in I. destruct from; try discriminate. exfalso; eapply Nf; reflexivity.
Qed.

(* labels that neither put a task into a ready queue nor take one out *)
Definition noq (l : label) : bool :=
  match l with
  | LStore _ _ | LExec _ _ _ _ | LYield _ | LMayBlock _ | LNoBlock _ | LSyscallPre _ | LMigrate _ _ | LEnd _
  | LBlocked _ _ _ | LPostSyscall _ _ _ | LFree _ _ _ => true
  | _ => false
  end.

Definition qframe (st st' : state) : Prop :=
  st'.(nsh) = st.(nsh) /\ (forall u, inq st'.(places) u = inq st.(places) u) /\
  (forall u, inq st.(places) u = 1 -> place_of u st'.(places) = place_of u st.(places)).

Lemma qframe_refl st : qframe st st.
Proof. repeat split; auto. Qed.

Lemma qframe_trans a b c : qframe a b -> qframe b c -> qframe a c.
Proof.
  intros (N1 & I1 & P1) (N2 & I2 & P2). repeat split; [congruence| |].
  - intros u. rewrite I2, I1. reflexivity.
  - intros u H. rewrite P2 by (rewrite I1; exact H). apply P1. exact H.
Qed.

Ltac nonq_tac := let q := fresh in let b := fresh in let X := fresh in intros q b X; discriminate X.

Lemma step_noq st l st' : noq l = true -> step st l = Some st' -> qframe st st'.
Proof.
  intros NQ H.
  destruct l; try discriminate NQ; cbn [step] in H; inv_step H; use_running; use_moves;
    try (inversion H; subst; clear H); unfold qframe; norm_state.
  all: try (repeat split; auto; fail).
  all: try (match goal with
            | P : place_of ?t ?ps = Some ?from |- _ /\ (forall u, inq ((?t, ?to) :: drop_tid ?t ?ps) u = _) /\ _ =>
              split; [congruence|]; apply (frame_move t from to ps P); nonq_tac
            end).
Qed.

(* labels that put exactly one task at one ready queue: which task, which queue, which stealable bit *)
Definition enq_of (st : state) (l : label) : option (nat * nat * bool) :=
  match l with
  | LSendHome _ _ t h => option_map (fun x => (t, h, qnode x)) (get_task t st.(tasks))
  | LPostYield s _ t => option_map (fun x => (t, s, qnode x)) (get_task t st.(tasks))
  | LPostMigrate _ _ t =>
    match get_task t st.(tasks) with
    | Some x => match x.(t_target) with Some h => Some (t, h, qnode x) | None => None end
    | None => None
    end
  | LWake _ t q _ | LLaunch _ t q | LIoDone t q => option_map (fun x => (t, q, qnode x)) (get_task t st.(tasks))
  | _ => None
  end.

Lemma step_enq st l st' t q b :
  enq_of st l = Some (t, q, b) -> step st l = Some st' ->
  st'.(places) = (t, InQueue q b) :: drop_tid t st.(places) /\ inq st.(places) t = 0 /\ st'.(nsh) = st.(nsh).
Proof.
  intros EQ H.
  destruct l; try discriminate EQ; cbn [step] in H; cbn [enq_of] in EQ; inv_step H; use_moves;
    try (inversion H; subst; clear H); norm_state;
    repeat match goal with G : get_task ?t ?ts = Some _ |- _ => rewrite G in EQ end; cbn in EQ;
    repeat match goal with T : t_target ?x = Some _ |- _ => rewrite T in EQ end;
    inversion EQ; subst; (split; [reflexivity|]); (split; [|congruence]); unfold inq;
    match goal with P : place_of ?t ?ps = Some _ |- _ => rewrite P; reflexivity end.
Qed.

Lemma step_take st s w from t st' :
  step st (LTake s w from t) = Some st' ->
  exists near, st'.(places) = (t, Held s w near) :: drop_tid t st.(places) /\ st'.(nsh) = st.(nsh).
Proof.
  intros H. cbn [step] in H; inv_step H; use_moves; eexists; split; eauto.
Qed.

Lemma step_spawn st caller row sp asize src pre st' :
  refs_ok st -> step st (LSpawn caller row sp asize src pre) = Some st' ->
  st'.(nsh) = st.(nsh) /\ st'.(next) = S st.(next) /\
  exists l x, st'.(places) = (st.(next), l) :: drop_tid st.(next) st.(places) /\ inq st.(places) st.(next) = 0 /\
              st'.(tasks) = (st.(next), x) :: st.(tasks) /\ x.(t_simple) = row.(r_simple) /\
              ((exists q b, l = InQueue q b) \/ l = Nascent).
Proof.
  intros [ND Dom] H. cbn [step] in H. inv_step H. inversion H; subst; clear H. cbn.
  assert (NI : ~ In (next st) (map fst (places st))) by (intros X; apply Dom in X; lia).
  split; [reflexivity|]. split; [reflexivity|]. eexists. eexists. split; [|split; [|split; [reflexivity|split; [reflexivity|]]]].
  - unfold drop_tid. rewrite (proj2 (filter_ext_in_iff _ (fun _ => true) _)); [|].
    + replace (filter (fun _ : nat * loc => true) (places st)) with (places st); [reflexivity|].
      clear. induction (places st) as [|a r IH]; cbn; congruence.
    + intros [k v] Hin. cbn. apply negb_true_iff, Nat.eqb_neq. intros ->. apply NI. apply (in_map fst) in Hin. exact Hin.
  - unfold inq. destruct (place_of (next st) (places st)) eqn:P; [|reflexivity].
    exfalso. apply NI. apply place_of_in in P. apply (in_map fst) in P. exact P.
  - destruct (r_precond row && pre); [right; reflexivity|left; eauto].
Qed.

From QV Require TQueue.Model TQueue.Proofs TQueue.Proofs2.
Local Notation getq := TQueue.Model.getq.
Local Notation setq := TQueue.Model.setq.
Local Notation items := TQueue.Model.items.
Local Notation queues := TQueue.Model.queues.
Local Notation nsheps := TQueue.Model.nsheps.
Local Notation stl := TQueue.Model.stl.
Local Notation tid := TQueue.Model.tid.
Local Notation cnt := TQueue.Proofs.cnt.
Local Notation cntq := TQueue.Proofs.cntq.

Lemma run1 st l st' : run st [l] = Some st' -> step st l = Some st'.
Proof. cbn. destruct (step st l); [intros H; exact H|discriminate]. Qed.

Lemma dequeue_worker_sub q w o q' : TQueue.Model.dequeue_worker q w = (o, q') -> forall m, In m (items q') -> In m (items q).
Proof.
  intros H m.
  destruct (TQueue.Proofs.dequeue_worker_cases q w) as [E|[(l & n & Ei & _ & E)|(l & m0 & n & Ei & _ & _ & E)]];
    rewrite E in H; inversion H; subst; cbn [items]; auto; rewrite Ei, !in_app_iff; cbn; intuition.
Qed.

Lemma cnt_single u n : cnt u [n] = if N.eqb (N.of_nat (ntid n)) u then 1 else 0.
Proof. cbn. rewrite tid_ntid. destruct (N.eqb _ _); reflexivity. Qed.

Lemma Qrel_pop k k' ss s w n q' :
  Qrel k ss -> s < k.(nsh) -> TQueue.Model.dequeue_worker (getq ss s) w = (Some n, q') ->
  forall to, k'.(places) = (ntid n, to) :: drop_tid (ntid n) k.(places) -> nonq to -> k'.(nsh) = k.(nsh) ->
  Qrel k' (setq ss s q').
Proof.
  intros Q Ls D to P NQ Hn. pose proof Q as (N & E & C & A & Cq).
  assert (Ls' : s < nsheps ss) by lia.
  eapply (Qrel_deq k k' ss (setq ss s q') (ntid n) to Q Hn).
  - apply TQueue.Proofs.nsheps_setq.
  - apply TQueue.Proofs.sys_exact_setq; auto. eapply TQueue.Proofs.exact_dequeue_worker; [|exact D]. apply TQueue.Proofs.exact_getq. exact E.
  - reflexivity.
  - intros u. pose proof (TQueue.Proofs.cntq_setq u ss s q' Ls') as X.
    pose proof (TQueue.Proofs.dequeue_worker_cnt _ _ _ _ D u) as Y. cbv beta iota in Y. rewrite cnt_single in Y. lia.
  - intros i m Hin. destruct (Nat.eq_dec s i) as [->|Ne].
    + rewrite getq_setq_eq in Hin by exact Ls'. exists i. split; auto. eapply dequeue_worker_sub; eauto.
    + rewrite getq_setq_ne in Hin by exact Ne. exists i. auto.
  - exact P.
  - exact NQ.
Qed.

Lemma items_enqueue_multiple q l m : In m (items (TQueue.Model.enqueue_multiple q l)) -> In m (items q) \/ In m l.
Proof. unfold TQueue.Model.enqueue_multiple. destruct l; cbn; [auto|]. rewrite in_app_iff. cbn. tauto. Qed.

Lemma Qrel_steal k k' ss s v n surplus vq' to :
  Qrel k ss -> s < k.(nsh) -> v < k.(nsh) -> v <> s ->
  TQueue.Model.dequeue_steal (TQueue.Model.chunk ss) false (getq ss v) = (n :: surplus, vq') ->
  k'.(places) = (ntid n, to) :: drop_tid (ntid n) k.(places) -> nonq to -> k'.(nsh) = k.(nsh) ->
  Qrel k' (let s1 := setq ss v vq' in setq s1 s (TQueue.Model.enqueue_multiple (getq s1 s) surplus)).
Proof.
  intros Q Ls Lv Ne D P NQ Hn. pose proof Q as (N & E & C & A & Cq).
  assert (Ls' : s < nsheps ss) by lia. assert (Lv' : v < nsheps ss) by lia.
  pose proof (TQueue.Proofs.conserv_steal_move ss _ false v s (n :: surplus) vq' [n] surplus Lv' Ls' E D eq_refl) as (CN & CE & CC).
  pose proof (TQueue.Proofs.exact_getq ss v E) as Exv.
  destruct (TQueue.Proofs2.dequeue_steal_sub _ _ _ _ Exv D) as (Sub1 & Sub2 & _).
  eapply (Qrel_deq k k' ss _ (ntid n) to Q Hn).
  - exact CN.
  - apply CE. exact E.
  - reflexivity.
  - intros u. specialize (CC u). rewrite cnt_single in CC. exact CC.
  - intros i m Hin. cbv zeta in Hin. destruct (Nat.eq_dec s i) as [->|Nsi].
    + rewrite getq_setq_eq in Hin by (rewrite TQueue.Proofs.nsheps_setq; exact Ls').
      apply items_enqueue_multiple in Hin. rewrite getq_setq_ne in Hin by exact Ne. destruct Hin as [Hin|Hin].
      * exists i. auto.
      * exists v. destruct (Sub1 m (or_intror Hin)). auto.
    + rewrite getq_setq_ne in Hin by exact Nsi. destruct (Nat.eq_dec v i) as [->|Nvi].
      * rewrite getq_setq_eq in Hin by exact Lv'. exists i. auto.
      * rewrite getq_setq_ne in Hin by exact Nvi. exists i. auto.
  - exact P.
  - exact NQ.
Qed.

Lemma run_noq ls : forall st st', forallb noq ls = true -> run st ls = Some st' -> qframe st st'.
Proof.
  induction ls as [|l r IH]; cbn; intros st st' M H; [inversion H; subst; apply qframe_refl|].
  apply andb_true_iff in M. destruct M as [M1 M2]. destruct (step st l) as [s1|] eqn:E; [|discriminate].
  eapply qframe_trans; [eapply step_noq; eauto|eapply IH; eauto].
Qed.

Lemma Qrel_with_noq k k' ss ls : Qrel k ss -> forallb noq ls = true -> run k ls = Some k' -> Qrel k' ss.
Proof. intros Q M R. destruct (run_noq _ _ _ M R) as (N & I & P). eapply Qrel_frame; eauto. Qed.

Lemma kinv_queue_bound k t q b : kinv k -> In (t, InQueue q b) k.(places) -> q < k.(nsh).
Proof.
  intros (_ & _ & _ & _ & K) I. destruct (K _ _ I) as (x & _ & C). unfold cons_ok in C. tauto.
Qed.

Lemma Qrel_with_enq k k' ss l t q b :
  kinv k' -> Qrel k ss -> enq_of k l = Some (t, q, b) -> run k [l] = Some k' ->
  Qrel k' (enq ss q (nd t b)) /\ Qrel k' (enq_head ss q (nd t b)).
Proof.
  intros KI Q EQ R. apply run1 in R. destruct (step_enq _ _ _ _ _ _ EQ R) as (P & I0 & Hn).
  assert (Lq : q < nsh k).
  { rewrite <- Hn. eapply kinv_queue_bound; [exact KI|]. rewrite P. left. reflexivity. }
  split; [eapply Qrel_enq|eapply Qrel_enq_head]; eauto.
Qed.

Lemma Qrel_with_spawn k k' ss caller row sp asize src pre :
  kinv k -> kinv k' -> Qrel k ss -> run k [LSpawn caller row sp asize src pre] = Some k' ->
  Qrel k' (match place_of k.(next) k'.(places) with Some (InQueue q b) => enq ss q (nd k.(next) b) | _ => ss end).
Proof.
  intros KI KI' Q R. apply run1 in R. destruct KI as (RO & _).
  destruct (step_spawn _ _ _ _ _ _ _ _ RO R) as (Hn & _ & l & x & P & I0 & _ & _ & L).
  assert (PO : place_of (next k) (places k') = Some l) by (rewrite P; cbn; rewrite Nat.eqb_refl; reflexivity).
  rewrite PO. destruct L as [(q & b & ->)| ->].
  - eapply Qrel_enq; eauto. rewrite <- Hn. eapply kinv_queue_bound; [exact KI'|]. rewrite P. left. reflexivity.
  - eapply Qrel_frame; eauto.
    + intros u. rewrite P, inq_move. destruct (next k =? u) eqn:E; [apply Nat.eqb_eq in E; subst u; auto|reflexivity].
    + intros u I1. rewrite P, place_of_move. destruct (next k =? u) eqn:E; [apply Nat.eqb_eq in E; subst u; lia|reflexivity].
Qed.
