(* C05 extension T: the micro-step machine (Kernel/TeamFinish.v) refines, team by team, the team automaton tstep of
   Kernel/Ret.v: under the invariant every micro step is, for every existing team, a stutter or one tstep event;
   a team created by a step starts in team_init. *)
From Coq Require Import List ZArith Bool Arith Lia ZifyBool ZifyNat.
From QV Require Import Kernel.Ret.
From QV Require Import Kernel.TeamFinish Kernel.TeamFinishInv Kernel.TeamFinishLive.
Import ListNotations.
Local Open Scope Z_scope.

(* ---------- the abstraction ---------- *)
Definition abs_lph (k : tkind) (p : lpcT) : lphase :=
  match p with
  | LNasc | LReady | LWx | LWw | TeamFinish.LRun | LA | LA2 => Ret.LRun
  | LB => LSubmitted
  | LC => LWait1
  | LD => LSubSubmitted
  | LE | LF | LG | LH => LWait2
  | LI => if is_ksub k then Ret.LDone else LWait2
  | LJ | LK | LL | TeamFinish.LDone => Ret.LDone
  end.

Definition abs_team (s : state) (t : nat) : tstate :=
  let c := ctl s t in let ph := abs_lph (tk c) (lpc c) in
  mktst ((match ph with Ret.LRun => if is_ksub (tk c) then 2 else 1 | _ => 0 end) + msum s t)
        (lscon (lpc c) + csum s t) (msum s t) (csum s t) (is_ksub (tk c)) ph.

(* the same, as a function of the four quantities it depends on *)
Definition absq (k : tkind) (p : lpcT) (m c : Z) : tstate :=
  let ph := abs_lph k p in
  mktst ((match ph with Ret.LRun => if is_ksub k then 2 else 1 | _ => 0 end) + m) (lscon p + c) m c (is_ksub k) ph.

Lemma abs_team_q s t : abs_team s t = absq (tk (ctl s t)) (lpc (ctl s t)) (msum s t) (csum s t).
Proof. reflexivity. Qed.

Definition cconq (t : nat) (k : tkind) (p : lpcT) : Z :=
  match k with KSub q => if Nat.eqb q t && Nat.leb (lrank p) 13 then 1 else 0 | _ => 0 end.
Lemma ccon_q t c : ccon t c = cconq t (tk c) (lpc c).
Proof. reflexivity. Qed.

(* ---------- sums ---------- *)
Lemma live_sumn_ext n g g' : (forall i, (i < n)%nat -> g' i = g i) -> sumn n g' = sumn n g.
Proof.
  induction n as [|n IH]; intros H; cbn [sumn]; [reflexivity|].
  rewrite (H n) by lia. rewrite IH; [reflexivity|]. intros i Hi; apply H; lia.
Qed.

Lemma live_sumn_upd n g g' u :
  (u < n)%nat -> (forall i, (i < n)%nat -> i <> u -> g' i = g i) -> sumn n g' = sumn n g + (g' u - g u).
Proof.
  induction n as [|n IH]; intros Hu H; [lia|]. cbn [sumn].
  destruct (Nat.eq_dec u n) as [->|Hne].
  - rewrite (live_sumn_ext n g g'); [lia|]. intros i Hi; apply H; lia.
  - rewrite (H n) by lia. rewrite IH; [lia|lia|]. intros i Hi Hiu; apply H; lia.
Qed.

Lemma live_sumn_ge n g u : (u < n)%nat -> (forall i, (i < n)%nat -> 0 <= g i) -> g u <= sumn n g.
Proof.
  induction n as [|n IH]; intros Hu H; [lia|]. cbn [sumn].
  destruct (Nat.eq_dec u n) as [->|Hne].
  - assert (0 <= sumn n g) by (apply live_sumn_nonneg; intros i Hi; apply H; lia). lia.
  - assert (0 <= g n) by (apply H; lia).
    assert (g u <= sumn n g) by (apply IH; [lia|]; intros i Hi; apply H; lia). lia.
Qed.

Lemma live_mcon_nonneg t m : 0 <= mcon t m.
Proof. unfold mcon. destruct (mteam m); [destruct (_ && _)|]; lia. Qed.

Lemma live_cconq_nonneg t k p : 0 <= cconq t k p.
Proof. unfold cconq. destruct k; try lia. destruct (_ && _); lia. Qed.

(* ---------- what a step leaves alone ---------- *)
Definition same_mem (s s' : state) : Prop := nm s' = nm s /\ forall k, mem s' k = mem s k.
Definition same_ctl (s s' : state) : Prop :=
  nt s' = nt s /\ (forall x, tk (ctl s' x) = tk (ctl s x)) /\ (forall x, lpc (ctl s' x) = lpc (ctl s x)).
(* the leader of u advanced by one operation; nothing else the abstraction sees changed *)
Definition lead_adv (s : state) (u : nat) (s' : state) : Prop :=
  same_mem s s' /\ nt s' = nt s /\ (forall x, tk (ctl s' x) = tk (ctl s x)) /\
  (forall x, lpc (ctl s' x) = if Nat.eqb x u then lnext false (tk (ctl s u)) (lpc (ctl s u)) else lpc (ctl s x)).

Lemma msum_same s s' t : same_mem s s' -> msum s' t = msum s t.
Proof.
  intros [H1 H2]. unfold msum. rewrite H1. apply live_sumn_ext. intros i _. rewrite H2. reflexivity.
Qed.

Lemma csum_same s s' t : same_ctl s s' -> csum s' t = csum s t.
Proof.
  intros (H1 & H2 & H3). unfold csum. rewrite H1. apply live_sumn_ext. intros i _.
  rewrite !ccon_q, H2, H3. reflexivity.
Qed.

Lemma abs_same s s' t : same_ctl s s' -> same_mem s s' -> abs_team s' t = abs_team s t.
Proof.
  intros C M. rewrite !abs_team_q, (msum_same s s' t M), (csum_same s s' t C).
  destruct C as (_ & H2 & H3). rewrite H2, H3. reflexivity.
Qed.

(* ---------- the automaton on absq ---------- *)
Lemma tst_eq a b c d w p a' b' c' d' :
  a = a' -> b = b' -> c = c' -> d = d' -> mktst a b c d w p = mktst a' b' c' d' w p.
Proof. intros; subst; reflexivity. Qed.

Ltac tnorm :=
  cbv [absq abs_lph lnext is_ksub is_knew lscon lrank Nat.leb andb tstep can_spawn
       t_lph t_cnt t_sub t_live t_sublive t_watch].
Ltac tfin := first [reflexivity | apply f_equal, tst_eq; lia].

Lemma absq_spawnM k p m c :
  can_spawn (absq k p m c) = true -> tstep (absq k p m c) TMemberSpawn = Some (absq k p (1 + m) c).
Proof. intros H. unfold tstep. rewrite H. unfold absq; cbv zeta; cbn [t_cnt t_sub t_live t_sublive t_watch t_lph]. tfin. Qed.

Lemma absq_spawnS k p m c :
  can_spawn (absq k p m c) = true -> tstep (absq k p m c) TSubteamNew = Some (absq k p m (1 + c)).
Proof. intros H. unfold tstep. rewrite H. unfold absq; cbv zeta; cbn [t_cnt t_sub t_live t_sublive t_watch t_lph]. tfin. Qed.

Lemma absq_mfinish k p m c : 1 <= m -> tstep (absq k p m c) TMemberFinish = Some (absq k p (m - 1) c).
Proof.
  intros H. unfold tstep. replace (0 <? t_live (absq k p m c)) with true by (cbn [absq t_live]; lia).
  unfold absq; cbv zeta; cbn [t_cnt t_sub t_live t_sublive t_watch t_lph]. tfin.
Qed.

Lemma absq_subdone k p m c : 1 <= c -> tstep (absq k p m c) TSubteamDone = Some (absq k p m (c - 1)).
Proof.
  intros H. unfold tstep. replace (0 <? t_sublive (absq k p m c)) with true by (cbn [absq t_sublive]; lia).
  unfold absq; cbv zeta; cbn [t_cnt t_sub t_live t_sublive t_watch t_lph]. tfin.
Qed.

(* the leader's own step *)
Lemma absq_lead k p m c :
  (p = LB -> m = 0) -> (p = LD -> c = 0) ->
  absq k (lnext false k p) m c = absq k p m c \/
  exists e, tstep (absq k p m c) e = Some (absq k (lnext false k p) m c).
Proof.
  intros HB HD. destruct p.
  - left; destruct k; reflexivity.
  - left; destruct k; reflexivity.
  - left; destruct k; reflexivity.
  - left; destruct k; reflexivity.
  - left; destruct k; reflexivity.
  - (* LA *) destruct k; [right; exists TLeaderSubmit; tnorm; tfin | right; exists TLeaderSubmit; tnorm; tfin | left; reflexivity].
  - (* LA2 *) right; exists TLeaderSubmit; destruct k; tnorm; tfin.
  - (* LB *) rewrite (HB eq_refl). right; exists TLeaderWait1; destruct k; tnorm; tfin.
  - (* LC *) right; exists TLeaderSubSubmit; destruct k; tnorm; tfin.
  - (* LD *) rewrite (HD eq_refl). right; exists TLeaderWait2; destruct k; tnorm; tfin.
  - left; destruct k; reflexivity.
  - left; destruct k; reflexivity.
  - left; destruct k; reflexivity.
  - (* LH *) destruct k; [left; reflexivity | left; reflexivity | right; exists TLeaderExit; tnorm; tfin].
  - (* LI *) destruct k; [right; exists TLeaderExit; tnorm; tfin | right; exists TLeaderExit; tnorm; tfin | left; reflexivity].
  - left; destruct k; reflexivity.
  - left; destruct k; reflexivity.
  - left; destruct k; reflexivity.
  - left; destruct k; reflexivity.
Qed.

(* a child's step, seen from the parent *)
Lemma cconq_lnext t k p :
  cconq t k (lnext false k p) = cconq t k p \/ (cconq t k p = 1 /\ cconq t k (lnext false k p) = 0).
Proof.
  destruct k as [| |q]; [left; reflexivity | left; reflexivity |].
  unfold cconq. destruct (Nat.eqb q t); [|left; reflexivity].
  destruct p; cbn; auto.
Qed.

(* ---------- consequences of the invariant ---------- *)
Lemma inv_cconq_self s t : tinv s t -> forall p, cconq t (tk (ctl s t)) p = 0.
Proof.
  intros T p. pose proof (ti_watch _ _ T) as W. unfold cconq.
  destruct (tk (ctl s t)) as [| |q]; try reflexivity.
  destruct W as (W & _). replace (Nat.eqb q t) with false by lia. reflexivity.
Qed.

Lemma inv_LB_msum s t : tinv s t -> lpc (ctl s t) = LB -> sinc (obj s t) = 0 -> msum s t = 0.
Proof.
  intros T E Z0. pose proof (ti_sinc _ _ T) as S0. pose proof (ti_watch _ _ T) as W.
  rewrite E in S0, W. specialize (S0 ltac:(cbn; lia)). rewrite Z0 in S0.
  destruct (tk (ctl s t)) as [| |p].
  - destruct W as [W _]. rewrite W in S0. cbn [lcon is_ksub wcon] in S0. lia.
  - destruct W as [W _]. rewrite W in S0. cbn [lcon is_ksub wcon] in S0. lia.
  - destruct W as (_ & W & _). cbn [wrel] in W. rewrite W in S0. cbn [lcon is_ksub wcon] in S0. lia.
Qed.

Lemma inv_LD_csum s t : tinv s t -> lpc (ctl s t) = LD -> subs (obj s t) = 0 -> csum s t = 0.
Proof.
  intros T E Z0. pose proof (ti_subs _ _ T) as S0. rewrite E in S0.
  specialize (S0 ltac:(cbn; lia)). rewrite Z0 in S0. cbn [lscon lrank Nat.leb] in S0. lia.
Qed.

Lemma member_live_msum s k t :
  (k < nm s)%nat -> mteam (mem s k) = Some t -> mlive (mem s k) = true -> 1 <= msum s t.
Proof.
  intros Hk Ht Hl.
  assert (mcon t (mem s k) = 1) as <- by (unfold mcon; rewrite Ht, Hl, Nat.eqb_refl; reflexivity).
  unfold msum. apply (live_sumn_ge (nm s) (fun j => mcon t (mem s j)) k Hk).
  intros i _. apply live_mcon_nonneg.
Qed.

(* ---------- the leader advances ---------- *)
Lemma lead_adv_refines s u s' t :
  inv s -> (u < nt s)%nat -> (t < nt s)%nat -> lead_adv s u s' ->
  (lpc (ctl s u) = LB -> sinc (obj s u) = 0) ->
  (lpc (ctl s u) = LD -> subs (obj s u) = 0) ->
  abs_team s' t = abs_team s t \/ exists e, tstep (abs_team s t) e = Some (abs_team s' t).
Proof.
  intros I Hu Ht (M & N & K & L) HB HD.
  assert (Hc : csum s' t = csum s t +
               (cconq t (tk (ctl s u)) (lnext false (tk (ctl s u)) (lpc (ctl s u))) - cconq t (tk (ctl s u)) (lpc (ctl s u)))).
  { unfold csum. rewrite N.
    rewrite (live_sumn_upd (nt s) (fun c => ccon t (ctl s c)) (fun c => ccon t (ctl s' c)) u Hu).
    - rewrite !ccon_q, K, L, Nat.eqb_refl. reflexivity.
    - intros i _ Hi. rewrite !ccon_q, K, L. replace (Nat.eqb i u) with false by lia. reflexivity. }
  rewrite !abs_team_q, (msum_same s s' t M), K, L.
  destruct (Nat.eqb t u) eqn:Etu.
  - apply Nat.eqb_eq in Etu. subst u.
    rewrite !(inv_cconq_self s t (i_team _ I t Ht)) in Hc. rewrite Hc, Z.add_0_r.
    apply absq_lead.
    + intros E. exact (inv_LB_msum s t (i_team _ I t Ht) E (HB E)).
    + intros E. exact (inv_LD_csum s t (i_team _ I t Ht) E (HD E)).
  - destruct (cconq_lnext t (tk (ctl s u)) (lpc (ctl s u))) as [Q | [Q1 Q2]].
    + left. rewrite Hc, Q. f_equal. lia.
    + right. exists TSubteamDone. rewrite Hc, Q1, Q2.
      replace (csum s t + (0 - 1)) with (csum s t - 1) by lia.
      apply absq_subdone. rewrite <- Q1, <- ccon_q. unfold csum.
      apply (live_sumn_ge (nt s) (fun c => ccon t (ctl s c)) u Hu).
      intros i _. rewrite ccon_q. apply live_cconq_nonneg.
Qed.

Ltac ctl_tac u :=
  let x := fresh "x" in let Ex := fresh "Ex" in
  intros x; cbn; unfold fupd; rewrite ?Nat.eqb_refl; cbn;
  destruct (Nat.eqb x u) eqn:Ex; cbn; rewrite ?Nat.eqb_refl; cbn; try reflexivity;
  apply Nat.eqb_eq in Ex; subst x; reflexivity.

Lemma set_lpc_adv s0 s u p :
  nm s0 = nm s -> mem s0 = mem s -> nt s0 = nt s ->
  (forall x, tk (ctl s0 x) = tk (ctl s x)) -> (forall x, lpc (ctl s0 x) = lpc (ctl s x)) ->
  p = lnext false (tk (ctl s u)) (lpc (ctl s u)) ->
  lead_adv s u (set_lpc s0 u p).
Proof.
  intros H1 H2 H3 H4 H5 ->. unfold lead_adv, same_mem. cbn. rewrite H2.
  repeat split; try assumption.
  - intros x. unfold fupd. destruct (Nat.eqb x u) eqn:Ex; cbn; [|apply H4].
    apply Nat.eqb_eq in Ex. subst x. apply H4.
  - intros x. unfold fupd. destruct (Nat.eqb x u) eqn:Ex; cbn; [reflexivity|apply H5].
Qed.

Lemma lead_step_shape s u s' : lead_step false s u = Some s' -> lead_adv s u s'.
Proof.
  unfold lead_step; cbv beta zeta. intros H.
  assert (G : forall s0, Some (set_lpc s0 u (lnext false (tk (ctl s u)) (lpc (ctl s u)))) = Some s' ->
              nm s0 = nm s -> mem s0 = mem s -> nt s0 = nt s ->
              (forall x, tk (ctl s0 x) = tk (ctl s x)) -> (forall x, lpc (ctl s0 x) = lpc (ctl s x)) ->
              lead_adv s u s').
  { intros s0 [= <-] H1 H2 H3 H4 H5. apply set_lpc_adv; auto. }
  destruct (lpc (ctl s u)) eqn:E; try discriminate;
    try (apply (G _ H); try reflexivity; ctl_tac u).
  - destruct (wpc (ctl s u)); try discriminate; apply (G _ H); try reflexivity; ctl_tac u.
  - destruct (sinc (obj s u) =? 0); try discriminate; apply (G _ H); try reflexivity; ctl_tac u.
  - destruct (subs (obj s u) =? 0); try discriminate; apply (G _ H); try reflexivity; ctl_tac u.
  - destruct (tk (ctl s u)) eqn:K; try discriminate. destruct (eu (obj s p)); try discriminate.
    apply (G _ H); try reflexivity; ctl_tac u.
  - destruct (sinc (obj s u) =? 0); try discriminate; apply (G _ H); try reflexivity; ctl_tac u.
  - destruct (tk (ctl s u)) eqn:K; try discriminate.
    apply (G _ H); try reflexivity; ctl_tac u.
Qed.

Lemma lead_step_LB s u s' : lead_step false s u = Some s' -> lpc (ctl s u) = LB -> sinc (obj s u) = 0.
Proof.
  unfold lead_step; cbv beta zeta. intros H E. rewrite E in H.
  destruct (Z.eqb_spec (sinc (obj s u)) 0); [assumption|discriminate].
Qed.

Lemma lead_step_LD s u s' : lead_step false s u = Some s' -> lpc (ctl s u) = LD -> subs (obj s u) = 0.
Proof.
  unfold lead_step; cbv beta zeta. intros H E. rewrite E in H.
  destruct (Z.eqb_spec (subs (obj s u)) 0); [assumption|discriminate].
Qed.

(* ---------- watcher steps ---------- *)
Lemma watch_step_shape s u s' : watch_step s u = Some s' -> same_ctl s s' /\ same_mem s s'.
Proof.
  unfold watch_step; cbv beta zeta. intros H. unfold same_ctl, same_mem.
  destruct (wpc (ctl s u)); try discriminate.
  - injection H as <-. repeat split; ctl_tac u.
  - destruct (tk (ctl s u)) eqn:K; try discriminate. destruct (eu (obj s p)) as [c'|]; try discriminate.
    destruct (Nat.eqb c' u); try discriminate. injection H as <-. repeat split; ctl_tac u.
  - injection H as <-. repeat split; ctl_tac u.
Qed.

Lemma set_wpc_shape s u w : same_ctl s (set_wpc s u w) /\ same_mem s (set_wpc s u w).
Proof. unfold same_ctl, same_mem. repeat split; ctl_tac u. Qed.

(* ---------- member steps ---------- *)
Lemma msum_set_mpc s k p t :
  (k < nm s)%nat ->
  msum (set_mpc s k p) t = msum s t + (mcon t (mkmemb (mteam (mem s k)) p) - mcon t (mem s k)).
Proof.
  intros Hk. unfold msum. cbn [nm set_mpc set_mem mem].
  rewrite (live_sumn_upd (nm s) (fun j => mcon t (mem s j))
             (fun j => mcon t (fupd (mem s) k (mkmemb (mteam (mem s k)) p) j)) k Hk).
  - unfold fupd. rewrite Nat.eqb_refl. reflexivity.
  - intros i _ Hi. unfold fupd. replace (Nat.eqb i k) with false by lia. reflexivity.
Qed.

Lemma mcon_delta s k p t :
  (k < nm s)%nat ->
  (mlive (mkmemb (mteam (mem s k)) p) = mlive (mem s k) \/ (mlive (mem s k) = true /\ p = MSub)) ->
  mcon t (mkmemb (mteam (mem s k)) p) - mcon t (mem s k) = 0 \/
  (mcon t (mkmemb (mteam (mem s k)) p) - mcon t (mem s k) = -1 /\ 1 <= msum s t).
Proof.
  intros Hk [H | [H ->]].
  - left. unfold mcon. cbn [mteam]. rewrite H. lia.
  - destruct (mteam (mem s k)) as [t0|] eqn:Mt.
    + destruct (Nat.eqb t0 t) eqn:Et.
      * right. apply Nat.eqb_eq in Et. subst t0. split; [|exact (member_live_msum s k t Hk Mt H)].
        unfold mcon. cbn [mteam]. rewrite Mt, H, Nat.eqb_refl. reflexivity.
      * left. unfold mcon. cbn [mteam]. rewrite Mt, Et. reflexivity.
    + left. unfold mcon. cbn [mteam]. rewrite Mt. reflexivity.
Qed.

Lemma set_mpc_refines s k p t :
  (k < nm s)%nat ->
  (mlive (mkmemb (mteam (mem s k)) p) = mlive (mem s k) \/ (mlive (mem s k) = true /\ p = MSub)) ->
  abs_team (set_mpc s k p) t = abs_team s t \/ exists e, tstep (abs_team s t) e = Some (abs_team (set_mpc s k p) t).
Proof.
  intros Hk H.
  assert (A : abs_team (set_mpc s k p) t =
              absq (tk (ctl s t)) (lpc (ctl s t)) (msum (set_mpc s k p) t) (csum s t)) by reflexivity.
  rewrite A, (msum_set_mpc s k p t Hk), abs_team_q. clear A.
  destruct (mcon_delta s k p t Hk H) as [-> | [-> G]].
  - left. rewrite Z.add_0_r. reflexivity.
  - right. exists TMemberFinish. replace (msum s t + -1) with (msum s t - 1) by lia.
    apply absq_mfinish. exact G.
Qed.

Lemma memb_step_refines s k s' t :
  (k < nm s)%nat -> memb_step s k = Some s' ->
  abs_team s' t = abs_team s t \/ exists e, tstep (abs_team s t) e = Some (abs_team s' t).
Proof.
  intros Hk. unfold memb_step; cbv beta zeta. intros H.
  destruct (mpc (mem s k)) eqn:E; try discriminate.
  - injection H as <-. apply set_mpc_refines; [exact Hk|]. left. unfold mlive. rewrite E. reflexivity.
  - injection H as <-. apply set_mpc_refines; [exact Hk|]. left. unfold mlive. rewrite E. reflexivity.
  - destruct (mteam (mem s k)) as [t0|] eqn:Mt; injection H as <-.
    + refine (set_mpc_refines (set_obj s t0 _ _) k MSub t Hk _).
      right. split; [|reflexivity]. unfold mlive. cbn [mem set_obj]. rewrite E. reflexivity.
    + apply set_mpc_refines; [exact Hk|]. right. split; [|reflexivity]. unfold mlive. rewrite E. reflexivity.
  - injection H as <-. apply set_mpc_refines; [exact Hk|]. left. unfold mlive. rewrite E. reflexivity.
Qed.

Lemma memb_step_nt s k s' : memb_step s k = Some s' -> nt s' = nt s.
Proof.
  unfold memb_step; cbv beta zeta. intros H.
  destruct (mpc (mem s k)); try discriminate; try (injection H as <-; reflexivity).
  destruct (mteam (mem s k)); injection H as <-; reflexivity.
Qed.

(* ---------- spawns ---------- *)
Lemma msum_new_memb s mt t : msum (new_memb s mt) t = mcon t (mkmemb mt MNasc) + msum s t.
Proof.
  unfold msum. cbn [nm new_memb mem sumn]. unfold fupd at 1. rewrite Nat.eqb_refl. f_equal.
  apply live_sumn_ext. intros i Hi. unfold fupd. replace (Nat.eqb i (nm s)) with false by lia. reflexivity.
Qed.

Lemma csum_new_team s k t : csum (new_team s k) t = ccon t (mkctl k LNasc WNone) + csum s t.
Proof.
  unfold csum. cbn [nt new_team ctl sumn]. unfold fupd at 1. rewrite Nat.eqb_refl. f_equal.
  apply live_sumn_ext. intros i Hi. unfold fupd. replace (Nat.eqb i (nt s)) with false by lia. reflexivity.
Qed.

Lemma ctl_new_team s k t : (t < nt s)%nat -> ctl (new_team s k) t = ctl s t.
Proof. intros H. cbn [ctl new_team]. unfold fupd. replace (Nat.eqb t (nt s)) with false by lia. reflexivity. Qed.

Lemma abs_new_memb s mt t :
  abs_team (new_memb s mt) t = absq (tk (ctl s t)) (lpc (ctl s t)) (mcon t (mkmemb mt MNasc) + msum s t) (csum s t).
Proof. rewrite abs_team_q, msum_new_memb. reflexivity. Qed.

Lemma abs_new_team s k t :
  (t < nt s)%nat ->
  abs_team (new_team s k) t =
  absq (tk (ctl s t)) (lpc (ctl s t)) (msum s t) (ccon t (mkctl k LNasc WNone) + csum s t).
Proof. intros H. rewrite abs_team_q, csum_new_team, (ctl_new_team s k t H). reflexivity. Qed.

Lemma spawn_refines s cur a s' t :
  do_spawn s cur a = Some s' -> (t < nt s)%nat ->
  (cur = Some t -> can_spawn (abs_team s t) = true) ->
  abs_team s' t = abs_team s t \/ exists e, tstep (abs_team s t) e = Some (abs_team s' t).
Proof.
  intros H Ht Hc.
  destruct a; try discriminate; destruct cur as [u|]; cbn [do_spawn] in H; injection H as <-.
  - (* member into team u *)
    match goal with |- context [new_memb ?S _] => change (abs_team s t) with (abs_team S t) end.
    rewrite abs_new_memb, abs_team_q. unfold mcon. cbn [mteam mlive mpc]. rewrite andb_true_r.
    destruct (Nat.eqb u t) eqn:Eu.
    + apply Nat.eqb_eq in Eu. subst u. right. exists TMemberSpawn. apply absq_spawnM. apply Hc. reflexivity.
    + left. reflexivity.
  - left. rewrite abs_new_memb, abs_team_q. reflexivity.
  - (* subteam of team u *)
    match goal with |- context [new_team ?S _] => set (S0 := S) end.
    assert (Ht' : (t < nt S0)%nat) by exact Ht.
    change (abs_team s t) with (abs_team S0 t).
    rewrite (abs_new_team S0 _ t Ht'), abs_team_q. unfold ccon. cbn [tk lpc lrank Nat.leb]. rewrite andb_true_r.
    destruct (Nat.eqb u t) eqn:Eu.
    + apply Nat.eqb_eq in Eu. subst u. right. exists TSubteamNew. apply absq_spawnS. exact (Hc eq_refl).
    + left. reflexivity.
  - left. rewrite (abs_new_team _ _ t Ht), abs_team_q. reflexivity.
  - left. rewrite (abs_new_team _ _ t Ht), abs_team_q. reflexivity.
  - left. rewrite (abs_new_team _ _ t Ht), abs_team_q. reflexivity.
Qed.

Lemma can_spawn_lead s t : lpc (ctl s t) = TeamFinish.LRun -> can_spawn (abs_team s t) = true.
Proof.
  intros E. unfold can_spawn, abs_team. cbv zeta. cbn [t_lph]. rewrite E. cbn [abs_lph]. apply orb_true_r.
Qed.

Lemma can_spawn_memb s k t :
  (k < nm s)%nat -> mpc (mem s k) = MRun -> mteam (mem s k) = Some t -> can_spawn (abs_team s t) = true.
Proof.
  intros Hk E Mt. unfold can_spawn, abs_team. cbv zeta. cbn [t_live t_lph].
  assert (1 <= msum s t) by (apply (member_live_msum s k t Hk Mt); unfold mlive; rewrite E; reflexivity).
  replace (0 <? msum s t) with true by lia. reflexivity.
Qed.

(* ---------- the refinement, team by team ---------- *)
Theorem step_refines_local : forall s l s' t, inv s -> step false s l = Some s' -> (t < nt s)%nat ->
  abs_team s' t = abs_team s t \/ exists e, tstep (abs_team s t) e = Some (abs_team s' t).
Proof.
  intros s l s' t I H Ht. destruct l as [[u|u|k] a]; unfold step in H.
  - destruct (Nat.ltb u (nt s)) eqn:Hu; [apply Nat.ltb_lt in Hu|discriminate].
    destruct a.
    + apply (lead_adv_refines s u s' t I Hu Ht (lead_step_shape s u s' H)).
      * exact (lead_step_LB s u s' H).
      * exact (lead_step_LD s u s' H).
    + destruct (lpc (ctl s u)) eqn:E; try discriminate. injection H as <-.
      apply (lead_adv_refines s u _ t I Hu Ht).
      * apply set_lpc_adv; auto. rewrite E. reflexivity.
      * intros E'; congruence.
      * intros E'; congruence.
    + destruct (lpc (ctl s u)) eqn:E; try discriminate.
      apply (spawn_refines s (Some u) ASpawnM s' t H Ht). intros [= ->]. exact (can_spawn_lead s t E).
    + destruct (lpc (ctl s u)) eqn:E; try discriminate.
      apply (spawn_refines s (Some u) ASpawnS s' t H Ht). intros [= ->]. exact (can_spawn_lead s t E).
    + destruct (lpc (ctl s u)) eqn:E; try discriminate.
      apply (spawn_refines s (Some u) ASpawnT s' t H Ht). intros [= ->]. exact (can_spawn_lead s t E).
  - destruct (Nat.ltb u (nt s)) eqn:Hu; [apply Nat.ltb_lt in Hu|discriminate].
    destruct a; try discriminate.
    + left. destruct (watch_step_shape s u s' H) as [C M]. exact (abs_same s s' t C M).
    + destruct (wpc (ctl s u)); try discriminate. injection H as <-.
      left. destruct (set_wpc_shape s u WReady) as [C M]. exact (abs_same _ _ t C M).
  - destruct (Nat.ltb k (nm s)) eqn:Hk; [apply Nat.ltb_lt in Hk|discriminate].
    destruct a.
    + exact (memb_step_refines s k s' t Hk H).
    + destruct (mpc (mem s k)) eqn:E; try discriminate. injection H as <-.
      apply set_mpc_refines; [exact Hk|]. left. unfold mlive. rewrite E. reflexivity.
    + destruct (mpc (mem s k)) eqn:E; try discriminate.
      apply (spawn_refines s _ ASpawnM s' t H Ht). exact (can_spawn_memb s k t Hk E).
    + destruct (mpc (mem s k)) eqn:E; try discriminate.
      apply (spawn_refines s _ ASpawnS s' t H Ht). exact (can_spawn_memb s k t Hk E).
    + destruct (mpc (mem s k)) eqn:E; try discriminate.
      apply (spawn_refines s _ ASpawnT s' t H Ht). exact (can_spawn_memb s k t Hk E).
Qed.

(* ---------- a new team starts in team_init ---------- *)
Lemma msum_fresh s : inv s -> msum s (nt s) = 0.
Proof.
  intros I. unfold msum. apply live_sumn_zero. intros k Hk. unfold mcon.
  destruct (mteam (mem s k)) as [t0|] eqn:Mt; [|reflexivity].
  pose proof (i_memb _ I k t0 Hk Mt). replace (Nat.eqb t0 (nt s)) with false by lia. reflexivity.
Qed.

Lemma csum_fresh s : inv s -> csum s (nt s) = 0.
Proof.
  intros I. unfold csum. apply live_sumn_zero. intros c Hc. unfold ccon.
  pose proof (ti_watch _ _ (i_team _ I c Hc)) as W.
  destruct (tk (ctl s c)) as [| |q]; try reflexivity.
  destruct W as (W & _). replace (Nat.eqb q (nt s)) with false by lia. reflexivity.
Qed.

Lemma abs_fresh_team s k :
  inv s -> (forall u, k = KSub u -> (u < nt s)%nat) ->
  abs_team (new_team s k) (nt s) = team_init (is_ksub (tk (ctl (new_team s k) (nt s)))).
Proof.
  intros I Hk. rewrite abs_team_q, csum_new_team, (csum_fresh s I).
  change (msum (new_team s k) (nt s)) with (msum s (nt s)). rewrite (msum_fresh s I).
  cbn [ctl new_team]. unfold fupd. rewrite Nat.eqb_refl. cbn [tk lpc].
  unfold ccon. cbn [tk lpc].
  destruct k as [| |u]; try reflexivity.
  replace (Nat.eqb u (nt s)) with false by (specialize (Hk u eq_refl); lia). reflexivity.
Qed.

Lemma spawn_init s cur a s' :
  inv s -> (forall u, cur = Some u -> (u < nt s)%nat) ->
  do_spawn s cur a = Some s' -> nt s' = S (nt s) ->
  abs_team s' (nt s) = team_init (is_ksub (tk (ctl s' (nt s)))).
Proof.
  intros I Hu H N.
  destruct a; try discriminate; destruct cur as [u|]; cbn [do_spawn] in H; injection H as <-.
  - cbn in N. lia.
  - cbn in N. lia.
  - refine (abs_fresh_team s (KSub u) I _). intros u' [= <-]. apply Hu. reflexivity.
  - refine (abs_fresh_team s KSubDef I _). intros u' [=].
  - refine (abs_fresh_team s KNew I _). intros u' [=].
  - refine (abs_fresh_team s KNew I _). intros u' [=].
Qed.

Theorem new_team_is_init : forall s l s', inv s -> step false s l = Some s' -> nt s' = S (nt s) ->
  abs_team s' (nt s) = team_init (is_ksub (tk (ctl s' (nt s)))).
Proof.
  intros s l s' I H N. destruct l as [[u|u|k] a]; unfold step in H.
  - destruct (Nat.ltb u (nt s)) eqn:Hu; [apply Nat.ltb_lt in Hu|discriminate].
    destruct a.
    + destruct (lead_step_shape s u s' H) as (_ & N' & _). lia.
    + destruct (lpc (ctl s u)); try discriminate. injection H as <-. cbn in N. lia.
    + destruct (lpc (ctl s u)); try discriminate.
      apply (spawn_init s (Some u) ASpawnM s' I); auto. intros u' [= <-]. exact Hu.
    + destruct (lpc (ctl s u)); try discriminate.
      apply (spawn_init s (Some u) ASpawnS s' I); auto. intros u' [= <-]. exact Hu.
    + destruct (lpc (ctl s u)); try discriminate.
      apply (spawn_init s (Some u) ASpawnT s' I); auto. intros u' [= <-]. exact Hu.
  - destruct (Nat.ltb u (nt s)) eqn:Hu; [apply Nat.ltb_lt in Hu|discriminate].
    destruct a; try discriminate.
    + destruct (watch_step_shape s u s' H) as [(N' & _) _]. lia.
    + destruct (wpc (ctl s u)); try discriminate. injection H as <-. cbn in N. lia.
  - destruct (Nat.ltb k (nm s)) eqn:Hk; [apply Nat.ltb_lt in Hk|discriminate].
    destruct a.
    + pose proof (memb_step_nt s k s' H). lia.
    + destruct (mpc (mem s k)); try discriminate. injection H as <-. cbn in N. lia.
    + destruct (mpc (mem s k)); try discriminate.
      apply (spawn_init s _ ASpawnM s' I (fun u => i_memb _ I k u Hk) H N).
    + destruct (mpc (mem s k)); try discriminate.
      apply (spawn_init s _ ASpawnS s' I (fun u => i_memb _ I k u Hk) H N).
    + destruct (mpc (mem s k)); try discriminate.
      apply (spawn_init s _ ASpawnT s' I (fun u => i_memb _ I k u Hk) H N).
Qed.
