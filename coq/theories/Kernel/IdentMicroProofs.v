(* C09 extension G: proofs about Kernel/IdentMicro.v -- an invariant over EVERY schedule of the micro-step machine. *)
From Coq Require Import List NArith ZArith Bool Arith Lia ZifyBool ZifyNat ZifyN.
From QV Require Import Kernel.Ident Kernel.IdentMicro.
Import ListNotations.
Local Open Scope N_scope.
Ltac Zify.zify_post_hook ::= Z.div_mod_to_equations.

Ltac unfw := cbv [wrap32 wrap64 M32 M64 NULL_TASK_ID NON_TASK_ID] in *.

(* ---------- arithmetic of the 64-bit counter and the 32-bit id ---------- *)
Lemma w32_w64 : forall x, wrap32 (wrap64 x) = wrap32 x.
Proof. intros x. unfw. lia. Qed.
Lemma w32_w64_add : forall x k, wrap32 (wrap64 x + k) = wrap32 (x + k).
Proof. intros x k. unfw. lia. Qed.
Lemma w64_add : forall x k, wrap64 (wrap64 x + k) = wrap64 (x + k).
Proof. intros x k. unfw. lia. Qed.

Definition good (x : N) : Prop := x <> NON_TASK_ID /\ x <> NULL_TASK_ID.

(* the task drew UINT_MAX at offset g1; its re-draw takes the unit at offset a+1 (a = units handed out when it re-draws) *)
Lemma redraw_null_good : forall c0 g1 a,
  wrap32 (c0 + g1) = NULL_TASK_ID -> g1 < a -> a + 2 < M32 -> good (wrap32 (c0 + (a + 1))).
Proof. intros c0 g1 a H1 H2 H3. unfold good. unfw. split; lia. Qed.
Lemma redraw_non_good : forall c0 g1 a,
  wrap32 (c0 + g1) = NON_TASK_ID -> g1 < a -> a + 1 < M32 -> good (wrap32 (c0 + a)).
Proof. intros c0 g1 a H1 H2 H3. unfold good. unfw. split; lia. Qed.
Lemma w32_inj : forall c0 g g', g <> g' -> g < M32 -> g' < M32 -> wrap32 (c0 + g) <> wrap32 (c0 + g').
Proof. intros c0 g g' H1 H2 H3. unfw. lia. Qed.
(* the bound is sharp: units 2^32 apart carry the same id *)
Lemma w32_period : forall c0 g, wrap32 (c0 + (g + M32)) = wrap32 (c0 + g).
Proof. intros c0 g. unfw. lia. Qed.

(* ---------- the invariant ---------- *)
Definition fresh (t : task) : Prop :=
  t_fld t = NON_TASK_ID /\ t_g t = None /\ t_rets t = [] /\ t_draws t = 0%nat.
Definition settled (c0 : N) (t : task) : Prop :=
  exists g, t_g t = Some g /\ t_fld t = wrap32 (c0 + g) /\ good (t_fld t) /\
            Forall (eq (t_fld t)) (t_rets t) /\ (1 <= t_draws t <= 2)%nat.
Definition mid (t : task) (d : nat) : Prop := t_rets t = [] /\ t_draws t = d.

Definition tinv (c0 : N) (t : task) : Prop :=
  match t_pc t with
  | PIdle => fresh t \/ settled c0 t
  | PTest r => r = t_fld t /\ (fresh t \/ settled c0 t)
  | PDraw1 => fresh t
  | PDraw1b _ => False
  | PStore1 v => t_fld t = NON_TASK_ID /\ mid t 1 /\ exists g, t_g t = Some g /\ wrap32 v = wrap32 (c0 + g)
  | PChk => mid t 1 /\ exists g, t_g t = Some g /\ t_fld t = wrap32 (c0 + g)
  | PDrawNull => mid t 1 /\ exists g, t_g t = Some g /\ wrap32 (c0 + g) = NULL_TASK_ID
  | PDrawNon => mid t 1 /\ exists g, t_g t = Some g /\ wrap32 (c0 + g) = NON_TASK_ID
  | PStoreNull v => mid t 2 /\ exists g, t_g t = Some g /\ wrap32 (v + 1) = wrap32 (c0 + g) /\ good (wrap32 (c0 + g))
  | PStoreNon v => mid t 2 /\ exists g, t_g t = Some g /\ wrap32 v = wrap32 (c0 + g) /\ good (wrap32 (c0 + g))
  | PLoadRet => settled c0 t
  | PRet r => r = t_fld t /\ settled c0 t
  end.

Record Inv (c0 : N) (s : state) : Prop := mkInv {
  inv_ctr  : s_ctr s = wrap64 (c0 + s_adv s);
  inv_task : forall i, tinv c0 (s_tasks s i);
  inv_lt   : forall i g, t_g (s_tasks s i) = Some g -> g < s_adv s;
  inv_dist : forall i j g, i <> j -> t_g (s_tasks s i) = Some g -> t_g (s_tasks s j) = Some g -> False
}.

Lemma upd_same : forall f i t, upd f i t i = t.
Proof. intros. unfold upd. rewrite Nat.eqb_refl. reflexivity. Qed.
Lemma upd_other : forall f i t j, j <> i -> upd f i t j = f j.
Proof. intros f i t j H. unfold upd. destruct (Nat.eqb j i) eqn:E; [apply Nat.eqb_eq in E; contradiction|reflexivity]. Qed.

Lemma inv_init : forall c0, Inv c0 (init c0).
Proof.
  intros c0. constructor; cbn.
  - f_equal. lia.
  - intros i. left. repeat split.
  - intros i g H. discriminate.
  - intros i j g _ H. discriminate.
Qed.

(* replacing task i by t': the global parts of the invariant follow from local conditions *)
Lemma inv_upd : forall c0 s i t' c' a',
  Inv c0 s -> s_adv s <= a' -> c' = wrap64 (c0 + a') -> tinv c0 t' ->
  (forall g, t_g t' = Some g -> g < a' /\ (t_g (s_tasks s i) = Some g \/ s_adv s <= g)) ->
  Inv c0 (mkS c' a' (upd (s_tasks s) i t')).
Proof.
  intros c0 s i t' c' a' I Ha Hc Ht Hg.
  constructor; cbn [s_ctr s_adv s_tasks].
  - exact Hc.
  - intros j. destruct (Nat.eq_dec j i) as [->|N].
    + rewrite upd_same. exact Ht.
    + rewrite upd_other by exact N. apply (inv_task _ _ I).
  - intros j g. destruct (Nat.eq_dec j i) as [->|N].
    + rewrite upd_same. intros H. apply Hg in H. tauto.
    + rewrite upd_other by exact N. intros H. apply (inv_lt _ _ I) in H. lia.
  - intros j k g Njk. destruct (Nat.eq_dec j i) as [->|Nj]; destruct (Nat.eq_dec k i) as [->|Nk].
    + contradiction.
    + rewrite upd_same, upd_other by exact Nk. intros H1 H2.
      destruct (Hg _ H1) as [_ [H|H]].
      * exact (inv_dist _ _ I i k g Njk H H2).
      * apply (inv_lt _ _ I) in H2. lia.
    + rewrite upd_same, upd_other by exact Nj. intros H1 H2.
      destruct (Hg _ H2) as [_ [H|H]].
      * exact (inv_dist _ _ I j i g Njk H1 H).
      * apply (inv_lt _ _ I) in H1. lia.
    + rewrite !upd_other by assumption. apply (inv_dist _ _ I j k g Njk).
Qed.

(* a step that does not touch the counter and keeps the ghost offset *)
Lemma inv_set : forall c0 s i t',
  Inv c0 s -> tinv c0 t' -> t_g t' = t_g (s_tasks s i) ->
  Inv c0 (mkS (s_ctr s) (s_adv s) (upd (s_tasks s) i t')).
Proof.
  intros c0 s i t' I Ht Hg. apply inv_upd; try assumption.
  - lia.
  - apply (inv_ctr _ _ I).
  - intros g H. rewrite Hg in H. split; [apply (inv_lt _ _ I i g H)|left; exact H].
Qed.

Lemma step_inv : forall c0 s i, Inv c0 s -> s_adv (step true s i) < M32 -> Inv c0 (step true s i).
Proof.
  intros c0 s i I. pose proof (inv_task _ _ I i) as T. pose proof (inv_ctr _ _ I) as C.
  unfold step. unfold tinv in T. destruct (t_pc (s_tasks s i)) eqn:E; cbn [s_adv]; intros B.
  - (* PIdle *) apply inv_set; auto. unfold tinv; cbn. split; [reflexivity|exact T].
  - (* PTest *) destruct T as [-> T]. apply inv_set; auto. unfold tinv.
    destruct (t_fld (s_tasks s i) =? NON_TASK_ID) eqn:Z; cbn.
    + apply N.eqb_eq in Z. destruct T as [F|[g [_ [_ [[G _] _]]]]]; [exact F|contradiction].
    + apply N.eqb_neq in Z. destruct T as [[F _]|S]; [contradiction|exact S].
  - (* PDraw1 *) destruct T as [F [G [R D]]].
    apply inv_upd; auto; try lia.
    + rewrite C. rewrite w64_add. f_equal. lia.
    + unfold tinv; cbn. split; [exact F|]. split; [split; cbn; [exact R|rewrite D; reflexivity]|].
      exists (s_adv s). split; [reflexivity|]. rewrite C. apply w32_w64.
    + cbn. intros g H. injection H as <-. split; [lia|right; lia].
  - (* PDraw1b *) contradiction.
  - (* PStore1 *) destruct T as [F [[R D] [g [G W]]]].
    apply inv_set; auto. unfold tinv; cbn. split; [split; cbn; assumption|].
    exists g. split; [exact G|exact W].
  - (* PChk *) destruct T as [[R D] [g [G W]]].
    apply inv_set; auto. unfold tinv.
    destruct (t_fld (s_tasks s i) =? NULL_TASK_ID) eqn:Z1; cbn.
    + apply N.eqb_eq in Z1. split; [split; cbn; assumption|]. exists g. split; [exact G|congruence].
    + destruct (t_fld (s_tasks s i) =? NON_TASK_ID) eqn:Z2; cbn.
      * apply N.eqb_eq in Z2. split; [split; cbn; assumption|]. exists g. split; [exact G|congruence].
      * apply N.eqb_neq in Z1. apply N.eqb_neq in Z2. exists g. cbn.
        split; [exact G|]. split; [exact W|]. split; [split; assumption|]. split; [rewrite R; constructor|lia].
  - (* PDrawNull *) destruct T as [[R D] [g [G W]]].
    pose proof (inv_lt _ _ I i g G) as L.
    apply inv_upd; auto; try lia.
    + rewrite C. rewrite w64_add. f_equal. lia.
    + unfold tinv; cbn. split; [split; cbn; [exact R|rewrite D; reflexivity]|].
      exists (s_adv s + 1). split; [reflexivity|]. split.
      * rewrite C. rewrite w32_w64_add. f_equal. lia.
      * apply (redraw_null_good c0 g (s_adv s)); auto.
    + cbn. intros g' H. injection H as <-. split; [lia|right; lia].
  - (* PStoreNull *) destruct T as [[R D] [g [G [W Gd]]]].
    apply inv_set; auto. unfold tinv; cbn. exists g. cbn.
    split; [exact G|]. split; [exact W|]. split; [rewrite W; exact Gd|]. split; [rewrite R; constructor|lia].
  - (* PDrawNon *) destruct T as [[R D] [g [G W]]].
    pose proof (inv_lt _ _ I i g G) as L.
    apply inv_upd; auto; try lia.
    + rewrite C. rewrite w64_add. f_equal. lia.
    + unfold tinv; cbn. split; [split; cbn; [exact R|rewrite D; reflexivity]|].
      exists (s_adv s). split; [reflexivity|]. split.
      * rewrite C. apply w32_w64.
      * apply (redraw_non_good c0 g (s_adv s)); auto.
    + cbn. intros g' H. injection H as <-. split; [lia|right; lia].
  - (* PStoreNon *) destruct T as [[R D] [g [G [W Gd]]]].
    apply inv_set; auto. unfold tinv; cbn. exists g. cbn.
    split; [exact G|]. split; [exact W|]. split; [rewrite W; exact Gd|]. split; [rewrite R; constructor|lia].
  - (* PLoadRet *) apply inv_set; auto. unfold tinv; cbn. split; [reflexivity|exact T].
  - (* PRet *) destruct T as [-> [g [G [W [Gd [Fa Dr]]]]]].
    apply inv_set; auto. unfold tinv; cbn. right. exists g. cbn.
    split; [exact G|]. split; [exact W|]. split; [exact Gd|]. split; [constructor; [reflexivity|exact Fa]|exact Dr].
Qed.

Lemma run_snoc : forall a s sch i, run a s (sch ++ [i]) = step a (run a s sch) i.
Proof. intros. unfold run. rewrite fold_left_app. reflexivity. Qed.
Lemma run_app : forall a s s1 s2, run a s (s1 ++ s2) = run a (run a s s1) s2.
Proof. intros. unfold run. apply fold_left_app. Qed.

Lemma adv_mono_step : forall a s i, s_adv s <= s_adv (step a s i).
Proof.
  intros a s i. unfold step. destruct (t_pc (s_tasks s i)); try destruct a; cbn; lia.
Qed.
Lemma adv_mono_run : forall a sch s, s_adv s <= s_adv (run a s sch).
Proof.
  intros a sch. induction sch as [|i sch IH]; intros s; cbn; [lia|].
  pose proof (adv_mono_step a s i). specialize (IH (step a s i)). unfold run in IH. lia.
Qed.

Lemma inv_run : forall c0 sch, s_adv (run true (init c0) sch) < M32 -> Inv c0 (run true (init c0) sch).
Proof.
  intros c0 sch. induction sch as [|i sch IH] using rev_ind; intros B.
  - apply inv_init.
  - rewrite run_snoc in *. apply step_inv; [|exact B].
    apply IH. pose proof (adv_mono_step true (run true (init c0) sch) i). lia.
Qed.

(* what the invariant says about returned values *)
Lemma rets_settled : forall c0 t r, tinv c0 t -> In r (t_rets t) -> settled c0 t.
Proof.
  intros c0 t r T H. unfold tinv in T.
  assert (NE : t_rets t <> []) by (intro Z; rewrite Z in H; exact H).
  destruct (t_pc t); unfold fresh, mid in T; tauto.
Qed.

Lemma settled_ret : forall c0 t r, settled c0 t -> In r (t_rets t) -> r = t_fld t.
Proof.
  intros c0 t r [g [_ [_ [_ [F _]]]]] H. rewrite Forall_forall in F. symmetry. apply F. exact H.
Qed.

(* ---------- theorems over every schedule ---------- *)
Definition final (c0 : N) (sch : list nat) : state := run true (init c0) sch.
Definition rets_of (s : state) (i : nat) : list N := t_rets (s_tasks s i).

Theorem idm_nonzero_nonreserved_thm : forall c0 sch i r,
  s_adv (final c0 sch) < M32 -> In r (rets_of (final c0 sch) i) -> r <> NON_TASK_ID /\ r <> NULL_TASK_ID.
Proof.
  intros c0 sch i r B H. pose proof (inv_run c0 sch B) as I.
  pose proof (rets_settled c0 _ r (inv_task _ _ I i) H) as S.
  rewrite (settled_ret _ _ _ S H). destruct S as [g [_ [_ [G _]]]]. exact G.
Qed.

Theorem idm_distinct_thm : forall c0 sch i j ri rj,
  s_adv (final c0 sch) < M32 -> i <> j ->
  In ri (rets_of (final c0 sch) i) -> In rj (rets_of (final c0 sch) j) -> ri <> rj.
Proof.
  intros c0 sch i j ri rj B N Hi Hj. pose proof (inv_run c0 sch B) as I.
  pose proof (rets_settled c0 _ ri (inv_task _ _ I i) Hi) as Si.
  pose proof (rets_settled c0 _ rj (inv_task _ _ I j) Hj) as Sj.
  rewrite (settled_ret _ _ _ Si Hi), (settled_ret _ _ _ Sj Hj).
  destruct Si as [gi [Gi [Wi _]]]. destruct Sj as [gj [Gj [Wj _]]].
  rewrite Wi, Wj. apply w32_inj.
  - intros ->. exact (inv_dist _ _ I i j gj N Gi Gj).
  - pose proof (inv_lt _ _ I i gi Gi). unfold final in *. lia.
  - pose proof (inv_lt _ _ I j gj Gj). unfold final in *. lia.
Qed.

(* the finer statement: ids of two tasks differ whenever fewer than 2^32 counter units were handed out between
   the two units that carry them (t_g), however many were handed out in total before *)
Lemma rets_mono_step : forall a s i j, exists l, rets_of (step a s i) j = l ++ rets_of s j.
Proof.
  intros a s i j. unfold rets_of. destruct (Nat.eq_dec j i) as [->|N].
  - unfold step. destruct (t_pc (s_tasks s i)) eqn:E; try destruct a; cbn [s_tasks]; rewrite upd_same; cbn;
      solve [exists []; reflexivity | eexists [_]; reflexivity].
  - exists []. unfold step.
    destruct (t_pc (s_tasks s i)); try destruct a; cbn [s_tasks]; rewrite upd_other by exact N; reflexivity.
Qed.
Lemma rets_mono_run : forall a sch s j, exists l, rets_of (run a s sch) j = l ++ rets_of s j.
Proof.
  intros a sch. induction sch as [|i sch IH]; intros s j; cbn.
  - exists []. reflexivity.
  - destruct (IH (step a s i) j) as [l1 H1]. destruct (rets_mono_step a s i j) as [l2 H2].
    exists (l1 ++ l2). unfold run in H1. rewrite H1, H2. apply app_assoc.
Qed.

Theorem idm_stable_thm : forall c0 sch1 sch2 i r r',
  s_adv (final c0 (sch1 ++ sch2)) < M32 ->
  In r (rets_of (final c0 sch1) i) -> In r' (rets_of (final c0 (sch1 ++ sch2)) i) ->
  r' = r /\ t_fld (s_tasks (final c0 (sch1 ++ sch2)) i) = r.
Proof.
  intros c0 sch1 sch2 i r r' B H H'. pose proof (inv_run c0 _ B) as I.
  assert (H2 : In r (rets_of (final c0 (sch1 ++ sch2)) i)).
  { unfold final. rewrite run_app. destruct (rets_mono_run true sch2 (run true (init c0) sch1) i) as [l E].
    rewrite E. apply in_or_app. right. exact H. }
  pose proof (rets_settled c0 _ r (inv_task _ _ I i) H2) as S.
  rewrite (settled_ret _ _ _ S H2), (settled_ret _ _ _ S H'). split; reflexivity.
Qed.

Theorem idm_draws_bounded_thm : forall c0 sch i,
  s_adv (final c0 sch) < M32 -> (t_draws (s_tasks (final c0 sch) i) <= 2)%nat.
Proof.
  intros c0 sch i B. pose proof (inv_task _ _ (inv_run c0 sch B) i) as T. unfold tinv in T. unfold final in *.
  destruct (t_pc (s_tasks (run true (init c0) sch) i)); unfold fresh, settled, mid in T;
    repeat match goal with
           | H : _ /\ _ |- _ => destruct H
           | H : _ \/ _ |- _ => destruct H
           | H : exists _, _ |- _ => destruct H
           end; try contradiction; lia.
Qed.

(* ---------- wait freedom: a measure that every own step increases, whatever the others do ---------- *)
Lemma phi_own_step : forall a s i, (phi (s_tasks s i) + 1 <= phi (s_tasks (step a s i) i))%nat.
Proof.
  intros a s i. unfold step.
  destruct (t_pc (s_tasks s i)) eqn:E; try destruct a; cbn [s_tasks]; rewrite upd_same; unfold phi; rewrite ?E; cbn;
    repeat match goal with |- context [if ?b then _ else _] => destruct b end; cbn; lia.
Qed.
Lemma phi_other_step : forall a s i j, j <> i -> phi (s_tasks (step a s i) j) = phi (s_tasks s j).
Proof.
  intros a s i j N. unfold step.
  destruct (t_pc (s_tasks s i)); try destruct a; cbn [s_tasks]; rewrite upd_other by exact N; reflexivity.
Qed.
Lemma phi_run : forall a sch s i,
  (phi (s_tasks s i) + count_occ Nat.eq_dec sch i <= phi (s_tasks (run a s sch) i))%nat.
Proof.
  intros a sch. induction sch as [|k sch IH]; intros s i; cbn [count_occ run fold_left]; [lia|].
  specialize (IH (step a s k) i). unfold run in IH.
  destruct (Nat.eq_dec k i) as [->|N].
  - pose proof (phi_own_step a s i). lia.
  - rewrite (phi_other_step a s k i) in IH by (intro Z; apply N; symmetry; exact Z). lia.
Qed.

Theorem idm_wait_free_thm : forall a s sch i,
  (CALL_STEPS <= count_occ Nat.eq_dec sch i)%nat ->
  (length (rets_of s i) < length (rets_of (run a s sch) i))%nat.
Proof.
  intros a s sch i H. pose proof (phi_run a sch s i) as P. unfold phi, rets_of, CALL_STEPS in *.
  assert (pos (t_pc (s_tasks (run a s sch) i)) <= 9)%nat by (destruct (t_pc (s_tasks (run a s sch) i)); cbn; lia).
  lia.
Qed.

(* ---------- the non-atomic increment is refuted: the schedule is the witness ---------- *)
Definition racy_schedule : list nat := [0;0;0; 1;1;1; 0;0;0;0;0;0; 1;1;1;1;1;1]%nat.
Theorem idm_nonatomic_increment_refuted_thm :
  exists c0 sch r, In r (rets_of (run false (init c0) sch) 0) /\ In r (rets_of (run false (init c0) sch) 1) /\
                   s_adv (run false (init c0) sch) < M32.
Proof. exists 5, racy_schedule, 5. vm_compute. repeat split; auto. Qed.
(* the same schedule on the code as it is (atomic fetch-and-add): two different ids *)
Example racy_schedule_atomic :
  rets_of (final 5 racy_schedule) 0 = [5] /\ rets_of (final 5 racy_schedule) 1 = [6].
Proof. vm_compute. split; reflexivity. Qed.

(* ---------- no hypothesis on ghost state: n tasks hand out at most 3 n counter units ---------- *)
Definition U (t : task) : N := match t_draws t with 0%nat => 0 | 1%nat => 1 | _ => 3 end.
Fixpoint sumU (f : nat -> task) (n : nat) : N :=
  match n with O => 0 | S k => sumU f k + U (f k) end.

Lemma sumU_upd_ge : forall f i t n, (n <= i)%nat -> sumU (upd f i t) n = sumU f n.
Proof.
  intros f i t n. induction n as [|n IH]; intros H; cbn; [reflexivity|].
  rewrite IH by lia. rewrite upd_other by lia. reflexivity.
Qed.
Lemma sumU_upd : forall f i t n, (i < n)%nat -> sumU (upd f i t) n + U (f i) = sumU f n + U t.
Proof.
  intros f i t n. induction n as [|n IH]; intros H; [lia|]. cbn.
  destruct (Nat.eq_dec i n) as [->|N].
  - rewrite sumU_upd_ge by lia. rewrite upd_same. lia.
  - rewrite upd_other by (intro Z; apply N; symmetry; exact Z). specialize (IH ltac:(lia)). lia.
Qed.
Lemma sumU_le : forall f n, sumU f n <= 3 * N.of_nat n.
Proof.
  intros f n. induction n as [|n IH]; cbn [sumU]; [lia|].
  assert (U (f n) <= 3) by (unfold U; destruct (t_draws (f n)) as [|[|?]]; lia). lia.
Qed.

Lemma step_sumU : forall c0 s i n, Inv c0 s -> (i < n)%nat ->
  s_adv s <= sumU (s_tasks s) n -> s_adv (step true s i) <= sumU (s_tasks (step true s i)) n.
Proof.
  intros c0 s i n I L H. pose proof (inv_task _ _ I i) as T. unfold tinv in T. unfold step.
  destruct (t_pc (s_tasks s i)) eqn:E; cbn [s_adv s_tasks];
    match goal with |- context [upd (s_tasks s) i ?t'] => pose proof (sumU_upd (s_tasks s) i t' n L) as Q end;
    unfold U in Q; cbn [t_draws with_pc with_fld with_draw] in Q; unfold fresh, mid in T.
  all: try contradiction.
  all: destruct (t_draws (s_tasks s i)) as [|[|?]]; lia.
Qed.

Lemma inv_run_n : forall c0 n sch,
  Forall (fun i => (i < n)%nat) sch -> 3 * N.of_nat n < M32 ->
  Inv c0 (final c0 sch) /\ s_adv (final c0 sch) <= sumU (s_tasks (final c0 sch)) n.
Proof.
  intros c0 n sch. induction sch as [|i sch IH] using rev_ind; intros F B.
  - split; [apply inv_init|]. cbn. lia.
  - apply Forall_app in F. destruct F as [F1 F2]. inversion F2 as [|? ? Li _]; subst.
    destruct (IH F1 B) as [I A]. unfold final in *. rewrite run_snoc.
    pose proof (step_sumU c0 _ i n I Li A) as A'.
    pose proof (sumU_le (s_tasks (step true (run true (init c0) sch) i)) n) as Le.
    split; [|exact A']. apply step_inv; [exact I|lia].
Qed.

Theorem idm_adv_bound_thm : forall c0 n sch,
  Forall (fun i => (i < n)%nat) sch -> 3 * N.of_nat n < M32 -> s_adv (final c0 sch) < M32.
Proof.
  intros c0 n sch F B. destruct (inv_run_n c0 n sch F B) as [_ A].
  pose proof (sumU_le (s_tasks (final c0 sch)) n). lia.
Qed.

(* everything at once, for n tasks, every schedule, every starting counter, no ghost state in the statement *)
Theorem idm_n_tasks_thm : forall c0 n sch,
  Forall (fun i => (i < n)%nat) sch -> 3 * N.of_nat n < M32 ->
  (forall i r, In r (rets_of (final c0 sch) i) ->
               r <> NON_TASK_ID /\ r <> NULL_TASK_ID /\ r = t_fld (s_tasks (final c0 sch) i)) /\
  (forall i j ri rj, i <> j -> In ri (rets_of (final c0 sch) i) -> In rj (rets_of (final c0 sch) j) -> ri <> rj) /\
  (forall i, (t_draws (s_tasks (final c0 sch) i) <= 2)%nat).
Proof.
  intros c0 n sch F B. pose proof (idm_adv_bound_thm c0 n sch F B) as A. split; [|split].
  - intros i r H. destruct (idm_nonzero_nonreserved_thm c0 sch i r A H) as [H1 H2]. split; [exact H1|split; [exact H2|]].
    pose proof (idm_stable_thm c0 sch [] i r r) as S. rewrite app_nil_r in S. destruct (S A H H) as [_ S2]. symmetry. exact S2.
  - intros i j ri rj. apply idm_distinct_thm. exact A.
  - intros i. apply idm_draws_bounded_thm. exact A.
Qed.

(* non-vacuity: three tasks starting two units below the 32-bit wrap; task 0 draws 2^32-2, task 1 draws UINT_MAX,
   task 2 draws 0; task 1 re-draws by 2 (id 2) while task 2 is between its draw and its re-draw; task 2 re-draws (id 3) *)
Definition wrap_schedule : list nat :=
  [0;0;0;0; 1;1;1;1; 2;2;2;2; 1;1; 2;2;2; 1; 1;1;1; 1;1;1;1; 2;2;2; 0;0;0;0; 0;0;0;0]%nat.
Example wrap_schedule_run :
  let s := final (M32 - 2) wrap_schedule in
  rets_of s 0 = [4294967294; 4294967294] /\ rets_of s 1 = [2; 2] /\ rets_of s 2 = [3] /\
  s_ctr s = M32 + 4 /\ s_adv s = 6 /\ Forall (fun i => (i < 3)%nat) wrap_schedule.
Proof. vm_compute. repeat split; auto; repeat constructor. Qed.

(* ---------- a call that is not interleaved with anything is Ident.qthread_id (the op-atomic model, itself tied to the source by
   the regeneration tie Gen/Ident.v) ---------- *)
Definition local_step (c a : N) (t : task) : N * N * task :=
  match t_pc t with
  | PIdle => (c, a, with_pc t (PTest (t_fld t)))
  | PTest r => (c, a, with_pc t (if r =? NON_TASK_ID then PDraw1 else PLoadRet))
  | PDraw1 => (wrap64 (c + 1), a + 1, with_draw t (PStore1 c) a)
  | PDraw1b v => (wrap64 (v + 1), a + 1, with_draw t (PStore1 v) a)
  | PStore1 v => (c, a, with_fld t (wrap32 v) PChk)
  | PChk => (c, a, with_pc t (if t_fld t =? NULL_TASK_ID then PDrawNull
                              else if t_fld t =? NON_TASK_ID then PDrawNon else PLoadRet))
  | PDrawNull => (wrap64 (c + 2), a + 2, with_draw t (PStoreNull c) (a + 1))
  | PStoreNull v => (c, a, with_fld t (wrap32 (v + 1)) PLoadRet)
  | PDrawNon => (wrap64 (c + 1), a + 1, with_draw t (PStoreNon c) a)
  | PStoreNon v => (c, a, with_fld t (wrap32 v) PLoadRet)
  | PLoadRet => (c, a, with_pc t (PRet (t_fld t)))
  | PRet r => (c, a, mkT (t_fld t) PIdle (r :: t_rets t) (t_g t) (t_draws t))
  end.

Fixpoint iter_local (k : nat) (x : N * N * task) : N * N * task :=
  match k with O => x | S k' => let '(c, a, t) := x in iter_local k' (local_step c a t) end.

Lemma step_local : forall s i,
  let '(c, a, t') := local_step (s_ctr s) (s_adv s) (s_tasks s i) in
  s_ctr (step true s i) = c /\ s_adv (step true s i) = a /\ s_tasks (step true s i) i = t' /\
  forall j, j <> i -> s_tasks (step true s i) j = s_tasks s j.
Proof.
  intros s i. unfold local_step, step.
  destruct (t_pc (s_tasks s i)); cbn [s_ctr s_adv s_tasks]; rewrite upd_same;
    (repeat split; try reflexivity; intros j Nj; apply upd_other; exact Nj).
Qed.

Lemma run_repeat_local : forall k s i,
  let '(c, a, t) := iter_local k (s_ctr s, s_adv s, s_tasks s i) in
  s_ctr (run true s (repeat i k)) = c /\ s_adv (run true s (repeat i k)) = a /\
  s_tasks (run true s (repeat i k)) i = t /\ forall j, j <> i -> s_tasks (run true s (repeat i k)) j = s_tasks s j.
Proof.
  induction k as [|k IH]; intros s i; cbn [iter_local repeat run fold_left].
  - repeat split; reflexivity.
  - pose proof (step_local s i) as L. destruct (local_step (s_ctr s) (s_adv s) (s_tasks s i)) as [[c a] t'].
    destruct L as (L1 & L2 & L3 & L4). specialize (IH (step true s i) i). rewrite L1, L2, L3 in IH.
    destruct (iter_local k (c, a, t')) as [[c2 a2] t2]. destruct IH as (I1 & I2 & I3 & I4).
    unfold run in *. repeat split; try assumption. intros j Nj. rewrite I4 by exact Nj. apply L4. exact Nj.
Qed.

Theorem idm_solo_call_thm : forall s i, t_pc (s_tasks s i) = PIdle ->
  exists k, (k <= CALL_STEPS)%nat /\
    let s' := run true s (repeat i k) in
    let '(r, f', c') := qthread_id (t_fld (s_tasks s i)) (s_ctr s) in
    t_pc (s_tasks s' i) = PIdle /\ t_rets (s_tasks s' i) = r :: t_rets (s_tasks s i) /\
    t_fld (s_tasks s' i) = f' /\ s_ctr s' = c' /\ forall j, j <> i -> s_tasks s' j = s_tasks s j.
Proof.
  intros s i H. destruct (s_tasks s i) as [fld p rets g dr] eqn:T. cbn [t_pc t_fld t_rets] in *. subst p.
  unfold qthread_id, id_alloc, fetch_add.
  destruct (fld =? NON_TASK_ID) eqn:E0.
  - destruct (wrap32 (s_ctr s) =? NULL_TASK_ID) eqn:E1; [|destruct (wrap32 (s_ctr s) =? NON_TASK_ID) eqn:E2].
    + exists 9%nat. split; [unfold CALL_STEPS; lia|]. cbn zeta.
      pose proof (run_repeat_local 9 s i) as R. rewrite T in R.
      cbn [iter_local local_step t_pc t_fld t_rets t_g t_draws with_pc with_fld with_draw] in R.
      rewrite ?E0 in R. cbn [iter_local local_step t_pc t_fld t_rets t_g t_draws with_pc with_fld with_draw] in R.
      rewrite ?E1 in R. cbn [iter_local local_step t_pc t_fld t_rets t_g t_draws with_pc with_fld with_draw] in R.
      destruct R as (R1 & R2 & R3 & R4). rewrite R3, R1. cbn [t_pc t_rets t_fld]. repeat split; try reflexivity. exact R4.
    + exists 9%nat. split; [unfold CALL_STEPS; lia|]. cbn zeta.
      pose proof (run_repeat_local 9 s i) as R. rewrite T in R.
      cbn [iter_local local_step t_pc t_fld t_rets t_g t_draws with_pc with_fld with_draw] in R.
      rewrite ?E0 in R. cbn [iter_local local_step t_pc t_fld t_rets t_g t_draws with_pc with_fld with_draw] in R.
      rewrite ?E1, ?E2 in R. cbn [iter_local local_step t_pc t_fld t_rets t_g t_draws with_pc with_fld with_draw] in R.
      destruct R as (R1 & R2 & R3 & R4). rewrite R3, R1. cbn [t_pc t_rets t_fld]. repeat split; try reflexivity. exact R4.
    + exists 7%nat. split; [unfold CALL_STEPS; lia|]. cbn zeta.
      pose proof (run_repeat_local 7 s i) as R. rewrite T in R.
      cbn [iter_local local_step t_pc t_fld t_rets t_g t_draws with_pc with_fld with_draw] in R.
      rewrite ?E0 in R. cbn [iter_local local_step t_pc t_fld t_rets t_g t_draws with_pc with_fld with_draw] in R.
      rewrite ?E1, ?E2 in R. cbn [iter_local local_step t_pc t_fld t_rets t_g t_draws with_pc with_fld with_draw] in R.
      destruct R as (R1 & R2 & R3 & R4). rewrite R3, R1. cbn [t_pc t_rets t_fld]. repeat split; try reflexivity. exact R4.
  - exists 4%nat. split; [unfold CALL_STEPS; lia|]. cbn zeta.
    pose proof (run_repeat_local 4 s i) as R. rewrite T in R.
    cbn [iter_local local_step t_pc t_fld t_rets t_g t_draws with_pc with_fld with_draw] in R.
    rewrite ?E0 in R. cbn [iter_local local_step t_pc t_fld t_rets t_g t_draws with_pc with_fld with_draw] in R.
    destruct R as (R1 & R2 & R3 & R4). rewrite R3, R1. cbn [t_pc t_rets t_fld]. repeat split; try reflexivity. exact R4.
Qed.
