From Coq Require Import List Bool Arith NArith ZArith Lia.
From QV Require Import Kernel.GenSpawnTable Kernel.Placement Kernel.ProofsPlacement Kernel.Model Kernel.ProofsKernel
     Kernel.ProofsC07 Kernel.ProofsPin Kernel.Progress Kernel.ProgressInv Kernel.ProgressProofs Kernel.ProgressMeasure
     Kernel.ProgressEnabled Kernel.ProgressQueue Kernel.ProgressQueue2 Kernel.ProgressStep Kernel.ProgressInv2 Kernel.ProgressCinv.
From QV Require TQueue.Model TQueue.Proofs TQueue.Proofs2.
Import ListNotations.

Lemma bytes_eqb_refl l : bytes_eqb l l = true.
Proof. induction l; cbn; auto. rewrite N.eqb_refl. exact IHl. Qed.
Lemma argv_eqb_refl a : argv_eqb a a = true.
Proof. destruct a; cbn; [apply N.eqb_refl|]. rewrite bytes_eqb_refl, eqb_reflx. reflexivity. Qed.

Lemma dispatch_ft s tg : dispatch s tg false true = DExec.
Proof. unfold dispatch. destruct tg; [rewrite andb_false_r|]; reflexivity. Qed.

Lemma running_on_ok st t s w x :
  place_of t st.(places) = Some (OnWorker s w) -> get_task t st.(tasks) = Some x -> x.(t_state) = RUNNING ->
  running_on st t = Some (s, w, x).
Proof. intros P G S. unfold running_on. rewrite P, G, S. reflexivity. Qed.

Lemma get_task_modify st t f x : get_task t st.(tasks) = Some x -> get_task t (modify st t f).(tasks) = Some (f x).
Proof. intros G. cbn. rewrite get_upd, Nat.eqb_refl, G. reflexivity. Qed.

(* the facts about the task a worker holds *)
Lemma held_facts c s w t l :
  cinv c -> worker_ref s w c.(ck).(places) = Some (t, l) ->
  exists x, place_of t c.(ck).(places) = Some l /\ get_task t c.(ck).(tasks) = Some x /\
            cons_ok c.(ck).(nsh) c.(ck).(nwk) t l x /\ (l = OnWorker s w \/ exists n, l = Held s w n).
Proof.
  intros ((R & _ & _ & _ & K) & _) W. destruct (worker_ref_in _ _ _ _ _ W) as [I L].
  destruct (K _ _ I) as (x & G & C). exists x. destruct R as [ND _].
  split; [apply in_place_of; auto|]. split; [exact G|]. split; [exact C|exact L].
Qed.

Lemma can_dispatch c s w t n :
  cinv c -> worker_ref s w c.(ck).(places) = Some (t, Held s w n) -> exists c', cstep c (EDispatch s w) = Some c'.
Proof.
  intros I W. destruct (held_facts _ _ _ _ _ I W) as (x & P & G & C & _).
  destruct I as (KI & A & _). unfold cons_ok in C. destruct C as (Tg & _ & _ & _ & Nn & Ls & Lw & Rn & _). subst n.
  unfold cstep. rewrite W, G. rewrite (A s Ls).
  destruct (t_target x) as [h|] eqn:T.
  - rewrite (A h (Tg h eq_refl)). unfold dispatch. destruct (h =? s) eqn:E; cbn [negb andb].
    + (* at home: execute *)
      unfold with_k. cbn [run step]. rewrite G, T, dispatch_ft.
      destruct Rn as [S|[S Sm]]; rewrite S.
      * rewrite argv_eqb_refl. destruct (move_ok (ck c) t (Held s w false) (OnWorker s w) P) as (k' & M). rewrite M. cbn. eauto.
      * rewrite Sm. destruct (move_ok (ck c) t (Held s w false) (OnWorker s w) P) as (k' & M). rewrite M. cbn. eauto.
    + (* send home *)
      unfold with_k. cbn [run step]. rewrite G, T. unfold dispatch. rewrite E. cbn [negb andb]. rewrite Nat.eqb_refl.
      pose proof (Tg h eq_refl) as Lh. apply Nat.ltb_lt in Lh. rewrite Lh. cbn [andb].
      destruct (move_ok (ck c) t (Held s w false) (InQueue h (qnode x)) P) as (k' & M). rewrite M. cbn. eauto.
  - unfold dispatch. cbn [negb]. unfold with_k. cbn [run step]. rewrite G, T, dispatch_ft.
    destruct Rn as [S|[S Sm]]; rewrite S.
    * rewrite argv_eqb_refl. destruct (move_ok (ck c) t (Held s w false) (OnWorker s w) P) as (k' & M). rewrite M. cbn. eauto.
    * rewrite Sm. destruct (move_ok (ck c) t (Held s w false) (OnWorker s w) P) as (k' & M). rewrite M. cbn. eauto.
Qed.

Lemma can_master c s w t x :
  cinv c -> worker_ref s w c.(ck).(places) = Some (t, OnWorker s w) -> get_task t c.(ck).(tasks) = Some x ->
  (x.(t_state) = RUNNING -> x.(t_mayblock) = true) ->
  exists c', cstep c (EMaster s w) = Some c'.
Proof.
  intros I W G NB. destruct (held_facts _ _ _ _ _ I W) as (x' & P & G' & C & _).
  rewrite G in G'. inversion G'; subst x'. clear G'.
  unfold cons_ok in C. destruct C as (Tg & _ & _ & _ & Ls & Lw & _ & St & _).
  unfold cstep. rewrite W, G.
  destruct St as [S|[S|(Sm & [S|[S|[S T]]])]]; rewrite S.
  - rewrite (NB S). unfold with_k. cbn [run step]. rewrite G, (NB S), S. cbn.
    destruct (move_ok (ck c) t (OnWorker s w) Blocked P) as (k' & M). rewrite M. cbn. eauto.
  - unfold with_k. cbn [run step]. rewrite G, S. cbn.
    destruct (move_ok (ck c) t (OnWorker s w) Freed P) as (k' & M). rewrite M. eauto.
  - unfold with_k. cbn [run step]. rewrite G, S. cbn.
    destruct (move_ok (ck c) t (OnWorker s w) (InQueue s (qnode x)) P) as (k' & M). rewrite M. cbn. eauto.
  - unfold with_k. cbn [run step]. rewrite G, S. cbn.
    destruct (move_ok (ck c) t (OnWorker s w) InSyscall P) as (k' & M). rewrite M. cbn. eauto.
  - destruct (t_target x) as [h|] eqn:Th; [|contradiction]. unfold with_k. cbn [run step]. rewrite G, S, Th.
    destruct (move_ok (ck c) t (OnWorker s w) (InQueue h (qnode x)) P) as (k' & M). rewrite M. cbn. eauto.
Qed.

Lemma can_body c s w t x :
  cinv c -> worker_ref s w c.(ck).(places) = Some (t, OnWorker s w) -> get_task t c.(ck).(tasks) = Some x ->
  x.(t_state) = RUNNING -> x.(t_mayblock) = false ->
  exists c', cstep c (EBody s w) = Some c'.
Proof.
  intros I W G S NB. destruct (held_facts _ _ _ _ _ I W) as (x' & P & G' & C & _).
  rewrite G in G'. inversion G'; subst x'. clear G'.
  destruct I as (KI & A & Q & Pv & Mw & Ms).
  unfold cons_ok in C. destruct C as (Tg & Mc & _ & _ & Ls & Lw & _ & _ & _).
  pose proof (running_on_ok _ _ _ _ _ P G S) as RO.
  unfold cstep. rewrite W, G, S, NB. cbn [tstate_eqb negb andb].
  destruct (get_prog t (cprog c)) as [[|op rest]|] eqn:GP.
  - (* the body returns *)
    destruct (t =? 0) eqn:Z.
    + apply Nat.eqb_eq in Z. subst t. pose proof (Ms _ G) as Sm.
      unfold with_k. cbn [run step]. rewrite RO; cbv beta iota; rewrite Sm.
      cbn [step]. rewrite (get_task_modify _ _ _ _ G). cbn [t_mayblock with_mayblock t_state andb tstate_eqb]. rewrite S. cbn.
      assert (P' : place_of 0 (places (modify (ck c) 0 (fun x0 => with_mayblock x0 true))) = Some (OnWorker s w)) by exact P.
      destruct (move_ok _ 0 (OnWorker s w) Blocked P') as (k' & M). rewrite M. cbn. eauto.
    + unfold with_k. cbn [run step]. rewrite RO; cbv beta iota; rewrite Mc. eauto.
  - destruct (Pv _ _ _ G GP) as (Wf & Si). apply wf_tail in Wf. destruct Wf as [Wo _].
    assert (NS : simple_op op = false -> t_simple x = false).
    { intros F. destruct (t_simple x) eqn:E; [|reflexivity]. destruct (simple_tail _ _ (Si eq_refl)) as [X _]. congruence. }
    destruct op.
    + (* spawn *)
      cbn [run step]. rewrite W. destruct KI as (_ & Hs & _). destruct (nsh (ck c) =? 0) eqn:Z; [apply Nat.eqb_eq in Z; lia|]. eauto.
    + eauto.
    + unfold with_k. cbn [run step]. eauto.
    + unfold with_k. cbn [run step]. rewrite RO; cbv beta iota; rewrite (NS eq_refl).
      cbn [step]. erewrite running_on_ok; [eauto|exact P|apply get_task_modify; exact G|exact S].
    + unfold with_k. cbn [run step]. rewrite RO; cbv beta iota; rewrite (NS eq_refl). eauto.
    + unfold with_k. cbn [run step]. rewrite RO; cbv beta iota. destruct (migrate_case_of (t_mccoy x) s h (nsh (ck c))); eauto.
      rewrite (NS eq_refl). eauto.
    + unfold with_k. cbn [run step]. rewrite RO; cbv beta iota; rewrite (NS eq_refl). eauto.
    + unfold with_k. cbn [run step]. rewrite RO; cbv beta iota; rewrite (NS eq_refl). eauto.
  - destruct (t =? 0) eqn:Z.
    + exfalso. apply Nat.eqb_eq in Z. subst t. unfold Mainwait, has_prog in Mw. rewrite GP in Mw. rewrite (Mw eq_refl) in P. discriminate.
    + unfold with_k. cbn [run step]. rewrite RO; cbv beta iota; rewrite Mc. eauto.
Qed.

(* BUSY WORKER CAN STEP: a worker that holds a task always has an enabled event of its own (dispatch, body operation
   or post-switch) *)
Theorem busy_worker_can_step c s w t l :
  cinv c -> worker_ref s w c.(ck).(places) = Some (t, l) ->
  exists e c', internal e = true /\ cstep c e = Some c'.
Proof.
  intros I W. destruct (held_facts _ _ _ _ _ I W) as (x & P & G & C & [->|(n & ->)]).
  - destruct (t_state x) eqn:S; try (destruct (can_master c s w t x I W G ltac:(congruence)) as (c' & E); exists (EMaster s w), c'; split; [reflexivity|exact E]).
    destruct (t_mayblock x) eqn:B.
    + destruct (can_master c s w t x I W G ltac:(auto)) as (c' & E). exists (EMaster s w), c'. split; [reflexivity|exact E].
    + destruct (can_body c s w t x I W G S B) as (c' & E). exists (EBody s w), c'. split; [reflexivity|exact E].
  - destruct (can_dispatch c s w t n I W) as (c' & E). exists (EDispatch s w), c'. split; [reflexivity|exact E].
Qed.

Lemma ref_makes_busy s w ps t l :
  In (t, l) ps -> (l = OnWorker s w \/ exists n, l = Held s w n) -> worker_ref s w ps <> None.
Proof.
  induction ps as [|[k v] r IH]; cbn; [tauto|]. intros [X|X] L.
  - inversion X; subst. destruct L as [->|(n & ->)]; rewrite !Nat.eqb_refl; cbn; discriminate.
  - destruct v; auto; destruct ((s =? s0) && (w =? w0)); auto; discriminate.
Qed.

(* the environment's release events are enabled for every task that waits (other than main in its final wait) *)
Lemma env_enabled c t l :
  cinv c -> place_of t c.(ck).(places) = Some l -> (l = Blocked \/ l = Nascent \/ l = InSyscall) ->
  (t = 0 -> has_prog 0 c.(cprog) = true) ->
  exists e c', internal e = false /\ cstep c e = Some c'.
Proof.
  intros ((R & Hs & Hw & Hn & K) & _) P L M0.
  destruct (K _ _ (place_of_in _ _ _ P)) as (x & G & C). unfold cons_ok in C. destruct C as (Tg & _ & Lsh & _ & C).
  destruct L as [->|[->| ->]].
  - destruct C as [S _]. exists (EWake t 0 1).
    assert (Gd : negb (t =? 0) || has_prog 0 (cprog c) = true).
    { destruct (t =? 0) eqn:Z; [apply Nat.eqb_eq in Z; rewrite (M0 Z); reflexivity|reflexivity]. }
    unfold cstep. rewrite P, G, Gd. unfold with_k. cbn [run step]. rewrite G, Nat.eqb_refl, S. cbn [tstate_eqb andb].
    assert (Lq : wake_dest 1 (t_unsteal x) (t_shep x) 0 < nsh (ck c)).
    { unfold wake_dest. cbn. destruct (t_unsteal x && negb (t_shep x =? 0)); lia. }
    apply Nat.ltb_lt in Lq. apply Nat.ltb_lt in Hs. rewrite Lq, Hs. cbn [andb].
    destruct (move_ok (ck c) t Blocked (InQueue (wake_dest 1 (t_unsteal x) (t_shep x) 0) (qnode x)) P) as (k' & Mv). rewrite Mv. cbn. eauto.
  - destruct C as [S _]. exists (ELaunch t 0).
    unfold cstep. rewrite P, G. unfold with_k. cbn [run step]. rewrite G, Nat.eqb_refl, S. cbn [tstate_eqb andb].
    assert (Lq : launch_dest (t_target x) 0 < nsh (ck c)).
    { unfold launch_dest. destruct (t_target x) eqn:T; [apply Tg; reflexivity|lia]. }
    apply Nat.ltb_lt in Lq. apply Nat.ltb_lt in Hs. rewrite Lq, Hs. cbn [andb].
    destruct (move_ok (ck c) t Nascent (InQueue (launch_dest (t_target x) 0) (qnode x)) P) as (k' & Mv). rewrite Mv. cbn. eauto.
  - exists (EIoDone t). unfold cstep. rewrite P, G. unfold with_k. cbn [run step]. rewrite G, Nat.eqb_refl.
    destruct (move_ok (ck c) t InSyscall (InQueue (t_shep x) (qnode x)) P) as (k' & Mv). rewrite Mv. eauto.
Qed.
