(* C04 progress (extension M), proofs part 10: quiescence is decidable on reachable states (finitely many candidate events),
   used for the non-vacuity examples of the completion theorem *)
From Coq Require Import List Bool Arith NArith ZArith Lia.
From QV Require Import Kernel.GenSpawnTable Kernel.Placement Kernel.ProofsPlacement Kernel.Model Kernel.ProofsKernel
     Kernel.ProofsC07 Kernel.ProofsPin Kernel.Progress Kernel.ProgressInv Kernel.ProgressProofs Kernel.ProgressMeasure
     Kernel.ProgressEnabled Kernel.ProgressQueue Kernel.ProgressQueue2 Kernel.ProgressStep Kernel.ProgressInv2 Kernel.ProgressCinv
     Kernel.ProgressBusy Kernel.ProgressMainNT Kernel.ProgressCompletion.
Import ListNotations.

Definition icands (k : state) : list cev :=
  flat_map (fun s => flat_map (fun w => [EMaster s w; EBody s w; EDispatch s w; EPop s w] ++
                                        map (fun v => ESteal s w v) (seq 0 k.(nsh))) (seq 0 k.(nwk))) (seq 0 k.(nsh)).

Definition none_enabled (c : cstate) (es : list cev) : bool :=
  forallb (fun e => match cstep c e with None => true | Some _ => false end) es.

Definition released_b (c : cstate) : bool :=
  forallb (fun p => match snd p with
                    | Blocked | Nascent | InSyscall => (fst p =? 0) && negb (has_prog 0 c.(cprog))
                    | _ => true
                    end) c.(ck).(places).

Lemma in_icands k s w e :
  s < k.(nsh) -> w < k.(nwk) ->
  (e = EMaster s w \/ e = EBody s w \/ e = EDispatch s w \/ e = EPop s w \/ exists v, v < k.(nsh) /\ e = ESteal s w v) ->
  In e (icands k).
Proof.
  intros Ls Lw H. unfold icands. apply in_flat_map. exists s. split; [apply in_seq; lia|].
  apply in_flat_map. exists w. split; [apply in_seq; lia|].
  destruct H as [->|[->|[->|[->|(v & Lv & ->)]]]]; cbn; auto.
  do 4 right. apply in_map_iff. exists v. split; [reflexivity|apply in_seq; lia].
Qed.

Lemma worker_bounds c s w t l :
  cinv c -> worker_ref s w c.(ck).(places) = Some (t, l) -> s < c.(ck).(nsh) /\ w < c.(ck).(nwk).
Proof.
  intros I W. destruct (held_facts _ _ _ _ _ I W) as (x & _ & _ & C & [->|(n & ->)]); unfold cons_ok in C; tauto.
Qed.

Lemma stuck_of_check c : cinv c -> none_enabled c (icands c.(ck)) = true -> stuck c.
Proof.
  intros I F e Ie. destruct (cstep c e) as [c'|] eqn:E; [exfalso|reflexivity].
  assert (Hin : In e (icands (ck c))).
  { destruct e; try discriminate Ie; unfold cstep in E.
    - destruct (idle (ck c) s w && (s <? nsh (ck c)) && (w <? nwk (ck c))) eqn:G; [|discriminate E].
      bool_facts. apply (in_icands _ s w); auto.
    - destruct (idle (ck c) s w && (s <? nsh (ck c)) && (w <? nwk (ck c)) && (v <? nsh (ck c)) && negb (v =? s) && nthb (active (ck c)) s) eqn:G; [|discriminate E].
      bool_facts. apply (in_icands _ s w); auto. do 4 right. eauto.
    - destruct (worker_ref s w (places (ck c))) as [[t l]|] eqn:W; [|discriminate E].
      destruct (worker_bounds _ _ _ _ _ I W). apply (in_icands _ s w); auto.
    - destruct (worker_ref s w (places (ck c))) as [[t l]|] eqn:W; [|discriminate E].
      destruct (worker_bounds _ _ _ _ _ I W). apply (in_icands _ s w); auto.
    - destruct (worker_ref s w (places (ck c))) as [[t l]|] eqn:W; [|discriminate E].
      destruct (worker_bounds _ _ _ _ _ I W). apply (in_icands _ s w); auto. }
  unfold none_enabled in F. rewrite forallb_forall in F. specialize (F e Hin). rewrite E in F. discriminate.
Qed.

Lemma released_of_check c : NoDup (map fst c.(ck).(places)) -> released_b c = true -> released c.
Proof.
  intros ND F t l P L. unfold released_b in F. rewrite forallb_forall in F.
  specialize (F (t, l) (place_of_in _ _ _ P)). cbn in F.
  destruct L as [->|[->| ->]]; apply andb_true_iff in F; destruct F as [F1 F2];
    apply Nat.eqb_eq in F1; apply negb_true_iff in F2; auto.
Qed.

(* ---------------------------------------------------------------- statements over reachable states *)
Definition reach (ns nw : nat) (ac : N) (chunk : Z) (prog : list bop) (c : cstate) : Prop :=
  0 < ns /\ 0 < nw /\ (0 <= chunk)%Z /\ wf_prog prog = true /\ exists es, crun (cinit ns nw ac chunk prog) es = Some c.

Lemma reach_cinv ns nw ac chunk prog c : reach ns nw ac chunk prog c -> cinv c.
Proof. intros (Hs & Hw & Hc & W & es & H). exact (reachable_cinv ns nw ac chunk prog es c Hs Hw Hc W H). Qed.

Theorem enabled_if_work_own_r ns nw ac chunk prog c s w :
  reach ns nw ac chunk prog c ->
  idle c.(ck) s w = true -> s < c.(ck).(nsh) -> w < c.(ck).(nwk) ->
  TQueue.Model.items (TQueue.Model.getq c.(cs) s) <> [] ->
  (forall n, TQueue.Model.items (TQueue.Model.getq c.(cs) s) = [n] -> TQueue.Model.mccoy n = true -> w = 0) ->
  exists c', cstep c (EPop s w) = Some c'.
Proof. intros R. apply enabled_if_work_own_u. eapply reach_cinv; eauto. Qed.

Theorem enabled_if_work_pop_r ns nw ac chunk prog c s w n q' :
  reach ns nw ac chunk prog c ->
  idle c.(ck) s w = true -> s < c.(ck).(nsh) -> w < c.(ck).(nwk) ->
  TQueue.Model.dequeue_worker (TQueue.Model.getq c.(cs) s) (packed c.(ck) s w) = (Some n, q') ->
  exists c', cstep c (EPop s w) = Some c' /\ place_of (ntid n) c'.(ck).(places) = Some (Held s w false) /\
             c'.(cs) = TQueue.Model.setq c.(cs) s q' /\ c'.(cprog) = c.(cprog).
Proof. intros R. apply enabled_if_work_pop_u. eapply reach_cinv; eauto. Qed.

Theorem enabled_if_work_steal_r ns nw ac chunk prog c s w v :
  reach ns nw ac chunk prog c ->
  idle c.(ck) s w = true -> s < c.(ck).(nsh) -> w < c.(ck).(nwk) -> v < c.(ck).(nsh) -> v <> s ->
  TQueue.Model.items (TQueue.Model.getq c.(cs) s) = [] ->
  0 < TQueue.Model.count_stl (TQueue.Model.items (TQueue.Model.getq c.(cs) v)) ->
  exists c' n, cstep c (ESteal s w v) = Some c' /\ TQueue.Model.stl n = true /\
               In n (TQueue.Model.items (TQueue.Model.getq c.(cs) v)) /\
               place_of (ntid n) c'.(ck).(places) = Some (Held s w false).
Proof. intros R. apply enabled_if_work_steal_u. eapply reach_cinv; eauto. Qed.

(* the simulation relation itself, for every reachable state: every node of every queue stands for a kernel reference with
   the same stealable bit (unstealable: on that very shepherd), and every kernel InQueue reference has exactly one node *)
Theorem queue_simulation_r ns nw ac chunk prog c :
  reach ns nw ac chunk prog c ->
  (forall i n, In n (TQueue.Model.items (TQueue.Model.getq c.(cs) i)) -> node_agrees c.(ck) i n) /\
  (forall t, TQueue.Proofs.cntq (N.of_nat t) (TQueue.Model.queues c.(cs)) =
             match place_of t c.(ck).(places) with Some (InQueue _ _) => 1 | _ => 0 end) /\
  TQueue.Proofs.sys_exact c.(cs).
Proof. intros R. destruct (reach_cinv _ _ _ _ _ _ R) as (_ & _ & (_ & E & _ & A & Q) & _). auto. Qed.

Theorem busy_worker_can_step_r ns nw ac chunk prog c s w t l :
  reach ns nw ac chunk prog c -> worker_ref s w c.(ck).(places) = Some (t, l) ->
  exists e c', internal e = true /\ cstep c e = Some c'.
Proof. intros R. apply busy_worker_can_step. eapply reach_cinv; eauto. Qed.
