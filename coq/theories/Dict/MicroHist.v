(* get_sound in full: a get that returns NULL was invoked when its key was absent from the list
   (in the insert-only class absence at any moment of the call implies absence at the invocation, and conversely
   the invocation is a moment of the call).  Proved with a predicate over the list [l1] of the invocation state,
   carried along every schedule. *)
From Coq Require Import List NArith Bool Arith Lia Sorted.
From QV Require Import Dict.Micro Dict.MicroProofs Dict.MicroTheorems.
Import ListNotations.

Lemma pre_insert_mono l1 q l2 n c x :
  NoDup (l1 ++ q :: l2) -> ~ In n (l1 ++ q :: l2) -> In c (l1 ++ q :: l2) ->
  In x (pre (l1 ++ q :: l2) c) -> In x (pre (l1 ++ q :: n :: l2) c).
Proof.
  intros Hnd Hni Hc Hx.
  destruct (pre_insert l1 q l2 n c Hnd Hni Hc) as [[_ E]|[Hc2 _]]; [rewrite E; exact Hx|].
  assert (Hnd' : NoDup (l1 ++ q :: n :: l2)).
  { replace (l1 ++ q :: n :: l2) with ((l1 ++ [q]) ++ n :: l2) by (rewrite <- app_assoc; reflexivity).
    apply nodup_insert; rewrite <- app_assoc; cbn; auto. }
  apply in_split in Hc2. destruct Hc2 as (a & b & ->).
  replace (l1 ++ q :: n :: a ++ c :: b) with ((l1 ++ q :: n :: a) ++ c :: b) in * by (rewrite <- app_assoc; reflexivity).
  replace (l1 ++ q :: a ++ c :: b) with ((l1 ++ q :: a) ++ c :: b) in * by (rewrite <- app_assoc; reflexivity).
  rewrite (pre_app (l1 ++ q :: n :: a) c b) by exact (proj1 (nodup_mid _ c b Hnd')).
  rewrite (pre_app (l1 ++ q :: a) c b) in Hx by exact (proj1 (nodup_mid _ c b Hnd)).
  apply in_app_iff in Hx. cbn in Hx. apply in_app_iff. cbn. tauto.
Qed.

Section Hist.
  Variable sof : N -> N.
  Variable keq : N -> N -> bool.
  Hypothesis keq_spec : forall a b, keq a b = true <-> a = b.
  Notation mstep := (mstep sof keq).
  Notation InvL := (InvL sof).

  Lemma last_pre h l c : G sof h l -> In c l -> next_of h c = None -> forall x, In x l -> In x (pre l c) \/ x = c.
  Proof.
    intros (G1 & G2 & _) Hc Hnx x Hx. apply in_split in Hc. destruct Hc as (l1 & l2 & ->).
    rewrite (islist_split _ _ _ _ _ G1) in Hnx. destruct l2; [|discriminate].
    rewrite (pre_app l1 c []) by exact (proj1 (nodup_mid l1 c _ G2)).
    apply in_app_iff in Hx. cbn in Hx. intuition.
  Qed.

  (* another task steps: this task's registers do not change *)
  Lemma thr_other s u s' t : mstep s u = Some s' -> u <> t -> nth_error (m_thr s') t = nth_error (m_thr s) t.
  Proof.
    intros H Hne. unfold Micro.mstep in H. destruct (nth_error (m_thr s) u) as [th|]; [|discriminate].
    unfold not_found, goto in H.
    repeat match type of H with
           | Some _ = Some _ => inversion H; subst; cbn; apply nth_upd_other; exact Hne
           | None = Some _ => discriminate
           | context [match ?x with _ => _ end] => destruct x
           | context [if ?b then _ else _] => destruct b
           end.
  Qed.

  (* keys and values of allocated nodes never change; the heap only grows *)
  Lemma heap_step s u s' : mstep s u = Some s' ->
    length (m_heap s) <= length (m_heap s') /\
    forall x, x < length (m_heap s) -> key_of (m_heap s') x = key_of (m_heap s) x /\ val_of (m_heap s') x = val_of (m_heap s) x.
  Proof.
    intros H. unfold Micro.mstep in H. destruct (nth_error (m_thr s) u) as [th|]; [|discriminate].
    unfold not_found, goto in H.
    repeat match type of H with
           | Some _ = Some _ =>
             inversion H; subst; cbn; rewrite ?length_setnext, ?app_length; cbn; split; [lia|];
             intros x Hx; rewrite ?key_setnext, ?val_setnext; unfold key_of, val_of; rewrite ?getn_app_old by exact Hx; auto
           | None = Some _ => discriminate
           | context [match ?x with _ => _ end] => destruct x
           | context [if ?b then _ else _] => destruct b
           end.
  Qed.

  Lemma heap_run sched : forall s,
    length (m_heap s) <= length (m_heap (run sof keq s sched)) /\
    forall x, x < length (m_heap s) -> key_of (m_heap (run sof keq s sched)) x = key_of (m_heap s) x /\
                                        val_of (m_heap (run sof keq s sched)) x = val_of (m_heap s) x.
  Proof.
    induction sched as [|u r IH]; intros s; cbn; [auto|].
    destruct (mstep s u) as [s3|] eqn:E; auto.
    destruct (heap_step s u s3 E) as [L1 K1]. destruct (IH s3) as [L2 K2]. split; [lia|].
    intros x Hx. destruct (K1 x Hx) as [A B]. destruct (K2 x ltac:(lia)) as [C D]. split; congruence.
  Qed.

  (* what the task has seen of the invocation-time list l1: when its last read of a next pointer returned NULL,
     every node of l1 is at or before the node it read it from *)
  Definition Jfacts (l1 l : list nat) (p : pc) : Prop :=
    match p with
    | PFindLoop _ prev None => exists q, prev = Some q /\ forall x, In x l1 -> In x (pre l q) \/ x = q
    | PFindCheck _ _ c None | PAtEquals _ _ c None => forall x, In x l1 -> In x (pre l c) \/ x = c
    | _ => True
    end.

  Definition pcIn (l : list nat) (p : pc) : Prop :=
    match p with
    | PFindLoop _ (Some q) None => In q l
    | PFindCheck _ _ c None | PAtEquals _ _ c None => In c l
    | _ => True
    end.

  Lemma Jfacts_mono l1 l l' p :
    (l' = l \/ exists a q n b, l = a ++ q :: b /\ l' = a ++ q :: n :: b /\ ~ In n l) ->
    NoDup l -> pcIn l p -> Jfacts l1 l p -> Jfacts l1 l' p.
  Proof.
    intros [->|(a & q & n & b & -> & -> & Hni)] Hnd Hin HJ; auto.
    destruct p; cbn in *; auto.
    - destruct cur; auto. destruct HJ as (q0 & -> & HJ). exists q0. split; auto.
      intros x Hx. destruct (HJ x Hx) as [H|H]; auto. left. apply pre_insert_mono; auto.
    - destruct next; auto. intros x Hx. destruct (HJ x Hx) as [H|H]; auto. left. apply pre_insert_mono; auto.
    - destruct next; auto. intros x Hx. destruct (HJ x Hx) as [H|H]; auto. left. apply pre_insert_mono; auto.
  Qed.

  Lemma Loc_pcIn h l th : Loc sof h l th -> pcIn l (t_pc th).
  Proof.
    intros [_ HL]. destruct (t_pc th); cbn; auto; destruct (t_prog th) as [|o r]; try contradiction; cbn [LocOp] in HL.
    - destruct prev as [q|]; auto. destruct cur; auto. destruct HL as (_ & HP & _). cbn in HP. tauto.
    - destruct next; auto. tauto.
    - destruct next; auto. tauto.
  Qed.

  Definition Jt (l1 : list nat) (res0 : list N) (s : mstate) (t : nat) : Prop :=
    exists l th, InvL s l /\ incl l1 l /\ nth_error (m_thr s) t = Some th /\
                 length res0 <= length (t_res th) /\ (t_res th = res0 -> Jfacts l1 l (t_pc th)).

  Lemma J_step l1 res0 s t u s' : Jt l1 res0 s t -> mstep s u = Some s' -> Jt l1 res0 s' t.
  Proof.
    intros (l & th & HI & Hincl & Hn & Hlen & HJ) Hstep.
    destruct (inv_step_l sof keq keq_spec s u s' l HI Hstep) as (l' & HI' & Hll' & Hdisj).
    pose proof HI as (HG & HL & HO). pose proof HG as (_ & G2 & _).
    assert (Hshape : l' = l \/ exists a q n b, l = a ++ q :: b /\ l' = a ++ q :: n :: b /\ ~ In n l).
    { destruct Hdisj as [[E _]|(a & q & n & b & Ea & Eb & (thu & curu & U1 & U2 & U3))]; [left; exact E | right].
      exists a, q, n, b. split; [exact Ea | split; [exact Eb|]].
      destruct (HL u thu U1) as [_ HLu]. rewrite U2 in HLu. destruct (t_prog thu) as [|o r]; [contradiction|].
      cbn [LocOp] in HLu. destruct HLu as (Hnode & _). destruct o; cbn in Hnode; tauto. }
    assert (Hincl' : incl l1 l') by (eapply incl_tran; eauto).
    destruct (Nat.eq_dec u t) as [->|Hne].
    - (* the task itself steps *)
      assert (Hlift : forall p, pcIn l p -> Jfacts l1 l p -> Jfacts l1 l' p) by (intros p; apply Jfacts_mono; auto).
      pose proof (Loc_pcIn _ _ _ (HL t th Hn)) as HpcIn. pose proof (HL t th Hn) as [_ HLt].
      unfold Micro.mstep in Hstep. rewrite Hn in Hstep.
      destruct th as [p prog res]. cbn [t_pc t_prog t_res] in *.
      (* every branch: the new thread record is explicit *)
      assert (Hfin : forall th' r, nth_error (m_thr s') t = Some th' -> t_res th' = r :: res ->
                                   Jt l1 res0 s' t).
      { intros th' r Hn' Hr. exists l', th'. split; [exact HI' | split; [exact Hincl' | split; [exact Hn' | split]]].
        - rewrite Hr. cbn. lia.
        - intro E. exfalso. rewrite Hr in E. rewrite <- E in Hlen. cbn in Hlen. lia. }
      assert (Hsame : forall p', nth_error (m_thr s') t = Some (mkT p' prog res) -> pcIn l p' -> (res = res0 -> Jfacts l1 l p') ->
                                 Jt l1 res0 s' t).
      { intros p' Hn' Hin HJ'. exists l', (mkT p' prog res). split; [exact HI' | split; [exact Hincl' | split; [exact Hn' | split; [exact Hlen|]]]].
        cbn. intro E. apply Hlift; auto. }
      destruct p; destruct prog as [|o rest]; try discriminate; cbn [LocOp] in HLt; try contradiction.
      + inversion Hstep; subst s'. apply (Hsame PDone); cbn; auto. apply (nth_upd_same _ _ _ _ Hn).
      + destruct o; inversion Hstep; subst s'; (eapply Hsame; [cbn; apply (nth_upd_same _ _ _ _ Hn) | cbn; auto | cbn; auto]).
      + inversion Hstep; subst s'. eapply Hsame; [cbn; apply (nth_upd_same _ _ _ _ Hn) | cbn; auto | cbn; auto].
      + inversion Hstep; subst s'. eapply Hsame; [cbn; apply (nth_upd_same _ _ _ _ Hn) | cbn; auto | cbn; auto].
      + (* PFindLoop *)
        destruct HLt as (_ & _ & _ & Hcur).
        destruct cur as [c|].
        * inversion Hstep; subst s'. eapply Hsame; [cbn; apply (nth_upd_same _ _ _ _ Hn) | |].
          -- cbn. destruct (next_of (m_heap s) c); auto.
          -- intros _. cbn. destruct (next_of (m_heap s) c) eqn:En; auto.
             intros x Hx. apply (last_pre (m_heap s) l c HG Hcur En). apply Hincl. exact Hx.
        * unfold not_found in Hstep. destruct node.
          -- inversion Hstep; subst s'. eapply Hsame; [cbn; apply (nth_upd_same _ _ _ _ Hn) | cbn; auto | cbn; auto].
          -- inversion Hstep; subst s'. eapply (Hfin _ 0%N); [cbn; apply (nth_upd_same _ _ _ _ Hn) | reflexivity].
      + (* PFindCheck *)
        destruct HLt as (_ & _ & Hc & _).
        destruct (opt_eqb (deref (m_heap s) (op_start o) prev) (Some cur)).
        * destruct (sof (op_key o) <=? so_of (m_heap s) cur)%N.
          -- destruct (so_of (m_heap s) cur =? sof (op_key o))%N.
             ++ destruct (negb (key_of (m_heap s) cur =? 0)%N); inversion Hstep; subst s';
                  (eapply Hsame; [cbn; apply (nth_upd_same _ _ _ _ Hn) | cbn; destruct next; auto | ]).
                ** cbn in *. destruct next; auto.
                ** cbn in *. destruct next; auto. intros E. exists cur. auto.
             ++ unfold not_found in Hstep. destruct node.
                ** inversion Hstep; subst s'. eapply Hsame; [cbn; apply (nth_upd_same _ _ _ _ Hn) | cbn; auto | cbn; auto].
                ** inversion Hstep; subst s'. eapply (Hfin _ 0%N); [cbn; apply (nth_upd_same _ _ _ _ Hn) | reflexivity].
          -- inversion Hstep; subst s'. eapply Hsame; [cbn; apply (nth_upd_same _ _ _ _ Hn) | cbn; destruct next; auto | ].
             cbn in *. destruct next; auto. intros E. exists cur. auto.
        * inversion Hstep; subst s'. eapply Hsame; [cbn; apply (nth_upd_same _ _ _ _ Hn) | cbn; auto | cbn; auto].
      + (* PAtEquals *)
        destruct HLt as (_ & Hc & _).
        destruct (keq (key_of (m_heap s) cur) (op_key o)).
        * inversion Hstep; subst s'. eapply Hfin; [cbn; apply (nth_upd_same _ _ _ _ Hn) | reflexivity].
        * inversion Hstep; subst s'. eapply Hsame; [cbn; apply (nth_upd_same _ _ _ _ Hn) | cbn; destruct next; auto | ].
          cbn in *. destruct next; auto. intros E. exists cur. auto.
      + (* PAtCas *)
        destruct prev as [q|]; [|discriminate].
        destruct (opt_eqb (next_of (m_heap s) q) cur).
        * inversion Hstep; subst s'. eapply Hfin; [cbn; apply (nth_upd_same _ _ _ _ Hn) | reflexivity].
        * inversion Hstep; subst s'. eapply Hsame; [cbn; apply (nth_upd_same _ _ _ _ Hn) | cbn; auto | cbn; auto].
    - (* another task steps *)
      exists l', th. split; [exact HI' | split; [exact Hincl' | split; [| split; [exact Hlen|]]]].
      + rewrite (thr_other s u s' t Hstep Hne). exact Hn.
      + intro E. apply (Jfacts_mono l1 l l'); auto. apply (Loc_pcIn (m_heap s)). apply (HL t th Hn).
  Qed.

  Lemma J_run l1 res0 t sched : forall s, Jt l1 res0 s t -> Jt l1 res0 (run sof keq s sched) t.
  Proof.
    induction sched as [|u r IH]; intros s H; cbn; auto.
    destruct (mstep s u) eqn:E; auto. apply IH. eapply J_step; eauto.
  Qed.

  (* get_sound: task t invokes get(k) in state s1 (list l1 = mlist s1), any schedule follows, the get completes with NULL
     (without having completed anything in between: same result list) -> no node of l1 carried key k.
     Values are assumed non-NULL for nodes of that key (a NULL value is indistinguishable from absence, see C16 sequential part). *)
  Theorem get_sound_l s1 s1' sched t s' k st rest th1 th2 :
    Inv sof s1 ->
    nth_error (m_thr s1) t = Some th1 -> t_pc th1 = PIdle -> t_prog th1 = MGet k st :: rest ->
    mstep s1 t = Some s1' ->
    let s2 := run sof keq s1' sched in
    nth_error (m_thr s2) t = Some th2 -> t_res th2 = t_res th1 -> t_prog th2 = MGet k st :: rest ->
    mstep s2 t = Some s' -> completes s2 t s' 0%N ->
    (forall c, In c (mlist s2) -> key_of (m_heap s2) c = k -> val_of (m_heap s2) c <> 0%N) ->
    forall x, In x (mlist s1) -> key_of (m_heap s1) x <> k.
  Proof.
    intros (l1 & HI1) Hn1 Hpc1 Hprog1 Hinv. cbv zeta. intros Hn2 Hres Hprog2 Hstep Hc Hval.
    (* the invocation step does not touch the heap *)
    assert (Hs1' : s1' = goto s1 t th1 (PAtHash None)).
    { unfold Micro.mstep in Hinv. rewrite Hn1, Hpc1, Hprog1 in Hinv. inversion Hinv. reflexivity. }
    destruct (inv_step_l sof keq keq_spec s1 t s1' l1 HI1 Hinv) as (l1' & HI1' & _ & [[E _]|(a & q & n & b & _ & _ & (thx & curx & X1 & X2 & _))]).
    2:{ rewrite Hn1 in X1. inversion X1; subst thx. rewrite Hpc1 in X2. discriminate. }
    subst l1'.
    assert (HJ0 : Jt l1 (t_res th1) s1' t).
    { exists l1, (mkT (PAtHash None) (t_prog th1) (t_res th1)).
      split; [exact HI1' | split; [apply incl_refl | split; [| split; [cbn; lia | cbn; auto]]]].
      rewrite Hs1'. cbn. apply (nth_upd_same _ _ _ _ Hn1). }
    pose proof (J_run l1 (t_res th1) t sched s1' HJ0) as (l2 & th2' & HI2 & Hincl & Hn2' & _ & HJ2).
    rewrite Hn2 in Hn2'. inversion Hn2'; subst th2'. specialize (HJ2 Hres).
    rewrite (mlist_inv sof s1 l1 HI1). rewrite (mlist_inv sof _ l2 HI2) in Hval.
    assert (Hh : m_heap s1' = m_heap s1) by (rewrite Hs1'; reflexivity).
    assert (Hkeys : forall x, In x l1 -> key_of (m_heap (run sof keq s1' sched)) x = key_of (m_heap s1) x).
    { intros x Hx. destruct (heap_run sched s1') as [_ K]. rewrite <- Hh. apply K. rewrite Hh.
      destruct HI1 as ((_ & _ & G3 & _) & _). apply G3. exact Hx. }
    destruct (op_result sof keq keq_spec _ l2 t s' 0%N HI2 Hstep Hc) as (thx & o & rest2 & Hnx & Hpx & Hcases).
    rewrite Hn2 in Hnx. inversion Hnx; subst thx. rewrite Hprog2 in Hpx. inversion Hpx; subst o rest2. cbn [op_key] in Hcases.
    intros x Hx. rewrite <- (Hkeys x Hx).
    destruct Hcases as [(k' & v' & st' & n & a & p & b & Eo & _)|[(_ & c & Hc1 & Hc2 & Hc3)|[(_ & _ & _ & Habs)|(_ & _ & _ & p & Hpc & Hpl & Hf & Hkp)]]].
    - discriminate.
    - exfalso. apply (Hval c Hc1 Hc2). symmetry. exact Hc3.
    - apply Habs. apply Hincl. exact Hx.
    - rewrite Hpc in HJ2. cbn in HJ2. destruct HJ2 as (q & Eq & HJ2). inversion Eq; subst q.
      destruct (HJ2 x Hx) as [H | ->]; [|exact Hkp]. rewrite Forall_forall in Hf. apply Hf. exact H.
  Qed.
End Hist.
