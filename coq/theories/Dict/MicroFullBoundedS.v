(* one part of the bounded-exhaustive families of MicroFullBounded.v (split for compile time) *)
From Coq Require Import List NArith Bool Arith.
From QV Require Import Dict.Micro Dict.MicroFull Dict.MicroFullHist Dict.MicroFullProofs Dict.MicroFullWitness Dict.MicroFullBounded.
Import ListNotations.
Lemma fam_steps_ok : forallb (cfg_ok_steps pol_patch) patch_family_steps = true.
Proof. vm_compute. reflexivity. Qed.
