(* The bounded-exhaustive results that are part of Properties_C16_micro.v: SMALL families (coqchk re-evaluates the vm_compute
   proofs about 20 times slower than coqc; the larger families are in MicroFullBoundedAll.v, checked by coqc only), and the
   lemmas lifting a computed family result to a statement about EVERY schedule. *)
From Coq Require Import List NArith Bool Arith.
From QV Require Import Dict.Micro Dict.MicroFull Dict.MicroFullHist Dict.MicroFullProofs Dict.MicroFullWitness Dict.MicroFullBounded.
Import ListNotations.
Local Open Scope N_scope.
(* conversion: unfold cfg_ok_sp / cfg_ok_steps before the explorers (whose fuel is a numeral) *)
Local Strategy 1000 [explore_sp explore].

Lemma family_sp_lift pol fam :
  forallb (cfg_ok_sp pol) fam = true ->
  forall c, In c fam -> forall g,
    let s := frun_grants pol wit_sof N.eqb (cfg_init c) g in
    fdone s = true -> lin (amap_of (fst c)) (hist_of s).
Proof.
  intros H c Hc g. cbv zeta. intros Hd. rewrite forallb_forall in H. specialize (H c Hc). unfold cfg_ok_sp in H.
  pose proof (explore_sp_sound pol wit_sof N.eqb (chk_lin (fst c)) g 200 (cfg_init c) H Hd) as X.
  unfold chk_lin in X. apply linb_iff. exact X.
Qed.
Lemma family_steps_lift pol fam :
  forallb (cfg_ok_steps pol) fam = true ->
  forall c, In c fam -> forall sched,
    let s := frun pol wit_sof N.eqb (cfg_init c) sched in
    fdone s = true -> lin (amap_of (fst c)) (hist_of s).
Proof.
  intros H c Hc sched. cbv zeta. intros Hd. rewrite forallb_forall in H. specialize (H c Hc). unfold cfg_ok_steps in H.
  pose proof (explore_sound pol wit_sof N.eqb (chk_lin (fst c)) sched 400 (cfg_init c) H Hd) as X.
  unfold chk_lin in X. apply linb_iff. exact X.
Qed.


(* {delete, put_if_absent, get} under the policy of the proposed patch: the configurations of the two delete witnesses, a delete
   racing with an insert and a get of the same key, and delete-then-insert racing with an insert behind the deleted node *)
Definition patch_core_sp : list cfg :=
  [(wit_nodes0, wit_del_progs); (wit_nodes2, wit_rec_progs);
   (wit_nodes1, [[FDel 1 1]; [FPia 1 101 1]; [FGet 1 1]]);
   (wit_nodes1, [[FDel 1 1; FPia 1 106 1]; [FPia 2 115 1; FGet 2 1]])].
Definition patch_core_steps : list cfg := firstn 4 patch_family_steps.
(* the code as it is: put_if_absent / get and a put on a key that is absent and that nobody else puts *)
Definition code_core_sp : list cfg := [(wit_nodes1, [[FPia 2 102 1]; [FPut 4 104 1]; [FGet 2 1]])].

Lemma patch_core_sp_ok : forallb (cfg_ok_sp pol_patch) patch_core_sp = true.
Proof. vm_compute. reflexivity. Qed.
Lemma patch_core_steps_ok : forallb (cfg_ok_steps pol_patch) patch_core_steps = true.
Proof. vm_compute. reflexivity. Qed.
Lemma code_core_sp_ok : forallb (cfg_ok_sp pol_code) code_core_sp = true.
Proof. vm_compute. reflexivity. Qed.

Lemma patch_core_sp_all : forall c, In c patch_core_sp -> forall g,
  let s := frun_grants pol_patch wit_sof N.eqb (cfg_init c) g in fdone s = true -> lin (amap_of (fst c)) (hist_of s).
Proof. exact (family_sp_lift pol_patch patch_core_sp patch_core_sp_ok). Qed.
Lemma patch_core_steps_all : forall c, In c patch_core_steps -> forall sched,
  let s := frun pol_patch wit_sof N.eqb (cfg_init c) sched in fdone s = true -> lin (amap_of (fst c)) (hist_of s).
Proof. exact (family_steps_lift pol_patch patch_core_steps patch_core_steps_ok). Qed.
Lemma code_core_sp_all : forall c, In c code_core_sp -> forall g,
  let s := frun_grants pol_code wit_sof N.eqb (cfg_init c) g in fdone s = true -> lin (amap_of (fst c)) (hist_of s).
Proof. exact (family_sp_lift pol_code code_core_sp code_core_sp_ok). Qed.

(* non-vacuity: complete runs exist in these configurations (every grant schedule long enough completes; here: round robin),
   and the same explorer REJECTS the witness configurations under the other policies *)
Example core_run_completes :
  fdone (frun_grants pol_patch wit_sof N.eqb (cfg_init (wit_nodes2, wit_rec_progs)) (flat_map (fun _ => [0; 1]%nat) (seq 0 12))) = true.
Proof. vm_compute. reflexivity. Qed.
Example explorer_rejects_other_policies :
  cfg_ok_sp pol_code (wit_nodes0, wit_del_progs) = false /\ cfg_ok_sp pol_nonatomic_norecycle (wit_nodes0, wit_del_progs) = false /\
  cfg_ok_sp pol_code (wit_nodes3, wit_put_other_progs) = false.
Proof. vm_compute. repeat split; reflexivity. Qed.
