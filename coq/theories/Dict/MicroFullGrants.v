(* A schedule of grants IS a schedule of machine steps: the grant-level results are statements about a subset of the
   step-level schedules (the ones the harness can produce: tasks switch only at the callbacks and at the CASes). *)
From Coq Require Import List NArith Bool Arith Lia.
From QV Require Import Dict.Micro Dict.MicroFull Dict.MicroFullHist Dict.MicroFullProofs.
Import ListNotations.

Section Grants.
  Variable pol : policy.
  Variable sof : N -> N.
  Variable keq : N -> N -> bool.
  Notation frun := (frun pol sof keq).

  Lemma frun_app a : forall s b, frun s (a ++ b) = frun (frun s a) b.
  Proof.
    induction a as [|t r IH]; intros s b; cbn; auto.
    destruct (fstep pol sof keq s t); apply IH.
  Qed.

  Lemma frun_to_sp_frun : forall fuel s t n,
    let x := frun_to_sp pol sof keq fuel s t n in
    n <= snd x /\ fst (fst x) = frun s (repeat t (snd x - n)).
  Proof.
    induction fuel as [|f IH]; intros s t n; cbn [frun_to_sp].
    - cbn [fst snd]. rewrite Nat.sub_diag. auto.
    - destruct (fstep pol sof keq s t) as [s'|] eqn:E.
      + destruct (fsp_kind (fpc_of s' t)).
        * cbn [fst snd]. split; [lia|]. replace (S n - n) with 1 by lia. cbn [repeat MicroFull.frun]. rewrite E. reflexivity.
        * specialize (IH s' t (S n)). cbv zeta in IH. destruct IH as [Hle Heq]. split; [lia|].
          rewrite Heq. replace (snd (frun_to_sp pol sof keq f s' t (S n)) - n) with (S (snd (frun_to_sp pol sof keq f s' t (S n)) - S n)) by lia.
          cbn [repeat MicroFull.frun]. rewrite E. reflexivity.
      + cbn [fst snd]. rewrite Nat.sub_diag. auto.
  Qed.

  Theorem frun_grants_is_frun : forall g s, exists sched, frun_grants pol sof keq s g = frun s sched.
  Proof.
    induction g as [|t r IH]; intros s; cbn.
    - exists []. reflexivity.
    - destruct (IH (grant pol sof keq s t)) as (sch & Hs).
      assert (Hg : exists pre, grant pol sof keq s t = frun s pre).
      { unfold grant. destruct (fpc_of s t); try (exists []; reflexivity);
          (destruct (frun_to_sp_frun sp_fuel s t 0) as [_ H]; eexists; exact H). }
      destruct Hg as (pre & Hp). exists (pre ++ sch). rewrite frun_app, <- Hp. exact Hs.
  Qed.
End Grants.
