(* Bit-level facts about the split-order keys: REVERSE_BYTE is 8-bit reversal (256-case sweep),
   REVERSE is 64-bit reversal, so_dummykey(bucket) < so_regularkey(hash) for the bucket of the hash
   at every power-of-two table size, GET_PARENT clears the top bit. *)
From Coq Require Import List NArith Bool Lia ZifyBool ZifyNat ZifyN.
From QV Require Import Dict.Model.
Import ListNotations.
Local Open Scope N_scope.

(* ---------- REVERSE_BYTE ---------- *)
Definition rb_ok (b : N) : bool :=
  (reverse_byte b <? 256) &&
  forallb (fun i => Bool.eqb (N.testbit (reverse_byte b) i) (N.testbit b (7 - i))) [0; 1; 2; 3; 4; 5; 6; 7].

Lemma rb_sweep : forallb rb_ok (map N.of_nat (seq 0 256)) = true.
Proof. vm_compute. reflexivity. Qed.

Lemma reverse_byte_spec b :
  b < 256 -> reverse_byte b < 256 /\ forall i, i < 8 -> N.testbit (reverse_byte b) i = N.testbit b (7 - i).
Proof.
  intros Hb.
  assert (Hin : In b (map N.of_nat (seq 0 256))).
  { apply in_map_iff. exists (N.to_nat b). split; [lia|]. apply in_seq. lia. }
  pose proof (proj1 (forallb_forall _ _) rb_sweep b Hin) as H.
  unfold rb_ok in H. apply andb_true_iff in H. destruct H as [H1 H2]. split; [lia|].
  intros i Hi. rewrite forallb_forall in H2.
  assert (Hi' : In i [0; 1; 2; 3; 4; 5; 6; 7]).
  { assert (i = 0 \/ i = 1 \/ i = 2 \/ i = 3 \/ i = 4 \/ i = 5 \/ i = 6 \/ i = 7) as Hc by lia.
    simpl. intuition. }
  apply H2 in Hi'. apply eqb_prop in Hi'. exact Hi'.
Qed.

Lemma small_bit_false a n m : a < 2 ^ n -> n <= m -> N.testbit a m = false.
Proof.
  intros Ha Hnm. destruct (N.eq_dec a 0) as [->|Hz]; [apply N.bits_0|].
  apply N.bits_above_log2. apply N.lt_le_trans with n; [|exact Hnm].
  apply N.log2_lt_pow2; lia.
Qed.

Lemma byte_of_lt x j : byte_of x j < 256.
Proof.
  unfold byte_of. change 255 with (N.ones 8). rewrite N.land_ones.
  change 256 with (2 ^ 8). apply N.mod_lt. discriminate.
Qed.

Lemma byte_of_bit x j m : m < 8 -> N.testbit (byte_of x j) m = N.testbit x (m + 8 * j).
Proof.
  intros Hm. unfold byte_of. change 255 with (N.ones 8).
  rewrite N.land_spec, N.ones_spec_low by exact Hm. rewrite andb_true_r. apply N.shiftr_spec'.
Qed.

(* one term of the REVERSE macro *)
Lemma term_bit x j s i :
  N.testbit (N.shiftl (reverse_byte (byte_of x j)) s) i =
  if (s <=? i) && (i <? s + 8) then N.testbit x ((7 - (i - s)) + 8 * j) else false.
Proof.
  destruct (N.leb_spec s i) as [Hsi|Hsi]; cbn [andb].
  - rewrite N.shiftl_spec_high' by exact Hsi.
    destruct (reverse_byte_spec (byte_of x j) (byte_of_lt x j)) as [Hlt Hbits].
    destruct (N.ltb_spec i (s + 8)) as [Hi|Hi].
    + rewrite Hbits by lia. apply byte_of_bit. lia.
    + apply (small_bit_false _ 8); [exact Hlt | lia].
  - apply N.shiftl_spec_low. exact Hsi.
Qed.

Lemma rev64_bit x i : N.testbit (rev64 x) i = if i <? 64 then N.testbit x (63 - i) else false.
Proof.
  unfold rev64. rewrite !N.lor_spec, !term_bit.
  destruct (N.ltb_spec i 64) as [Hi|Hi].
  - assert (Hn : exists n, i = N.of_nat n /\ (n < 64)%nat) by (exists (N.to_nat i); lia).
    destruct Hn as [n [-> Hn]].
    do 64 (destruct n as [|n]; [ cbn -[N.testbit]; rewrite ?orb_false_r; reflexivity | ]).
    lia.
  - repeat match goal with
           | |- context [(?a <=? i) && (i <? ?b)] =>
             replace ((a <=? i) && (i <? b)) with false by (symmetry; apply andb_false_iff; right; apply N.ltb_ge; lia)
           end.
    reflexivity.
Qed.

Lemma subset_le a b : (forall i, N.testbit a i = true -> N.testbit b i = true) -> a <= b.
Proof.
  intros H. apply N.ldiff_le. apply N.bits_inj. intros i.
  rewrite N.ldiff_spec, N.bits_0.
  destruct (N.testbit a i) eqn:Ha; [rewrite (H i Ha)|]; reflexivity.
Qed.

Lemma rev64_mono a b : (forall i, N.testbit a i = true -> N.testbit b i = true) -> rev64 a <= rev64 b.
Proof.
  intros H. apply subset_le. intros i. rewrite !rev64_bit.
  destruct (i <? 64); [apply H | discriminate].
Qed.

Lemma rev64_inj a b : a < 2 ^ 64 -> b < 2 ^ 64 -> rev64 a = rev64 b -> a = b.
Proof.
  intros Ha Hb H. apply N.bits_inj. intros i.
  destruct (N.ltb_spec i 64) as [Hi|Hi].
  - assert (E : N.testbit (rev64 a) (63 - i) = N.testbit (rev64 b) (63 - i)) by (rewrite H; reflexivity).
    rewrite !rev64_bit in E.
    replace (63 - i <? 64) with true in E by (symmetry; apply N.ltb_lt; lia).
    replace (63 - (63 - i)) with i in E by lia. exact E.
  - rewrite (small_bit_false a 64 i), (small_bit_false b 64 i); auto.
Qed.

Lemma rev64_lt_strict a b :
  a < 2 ^ 64 -> b < 2 ^ 64 -> a <> b ->
  (forall i, N.testbit a i = true -> N.testbit b i = true) -> rev64 a < rev64 b.
Proof.
  intros Ha Hb Hne H. pose proof (rev64_mono a b H) as Hle.
  assert (rev64 a <> rev64 b) by (intro E; apply Hne; apply rev64_inj; assumption).
  lia.
Qed.

(* ---------- keys ---------- *)
Lemma MSB_eq : MSB = 2 ^ 63. Proof. reflexivity. Qed.

Lemma lor_MSB_lt lk : lk < 2 ^ 63 -> N.lor lk MSB < 2 ^ 64.
Proof.
  intros H. destruct (N.eq_dec (N.lor lk MSB) 0) as [E|E]; [rewrite E; reflexivity|].
  apply N.log2_lt_pow2; [lia|].
  rewrite N.log2_lor. rewrite MSB_eq, N.log2_pow2 by lia.
  destruct (N.eq_dec lk 0) as [->|Hz]; [cbn; lia|].
  assert (N.log2 lk < 63) by (apply N.log2_lt_pow2; lia). lia.
Qed.

Lemma mod_pow2_bits lk k i : N.testbit (lk mod 2 ^ k) i = true -> N.testbit lk i = true.
Proof.
  destruct (N.ltb_spec i k) as [Hi|Hi].
  - rewrite N.mod_pow2_bits_low by exact Hi. auto.
  - rewrite N.mod_pow2_bits_high by exact Hi. discriminate.
Qed.

(* bucket_before_keys: the dummy of the bucket a hash falls into sorts strictly before the key, at every table size *)
Lemma so_dummy_lt_regular lk k : lk < 2 ^ 63 -> so_dummykey (lk mod 2 ^ k) < so_regularkey lk.
Proof.
  intros Hlk. unfold so_dummykey, so_regularkey.
  assert (Hb : lk mod 2 ^ k <= lk) by (apply N.mod_le; apply N.pow_nonzero; discriminate).
  apply rev64_lt_strict.
  - apply N.le_lt_trans with lk; [exact Hb|]. apply N.lt_trans with (2 ^ 63); [exact Hlk | reflexivity].
  - apply lor_MSB_lt; exact Hlk.
  - intro E. assert (Hbit : N.testbit (lk mod 2 ^ k) 63 = true).
    { rewrite E, N.lor_spec, MSB_eq, N.pow2_bits_true. apply orb_true_r. }
    rewrite (small_bit_false _ 63 63) in Hbit; [discriminate | lia | lia].
  - intros i Hi. rewrite N.lor_spec. apply mod_pow2_bits in Hi. rewrite Hi. reflexivity.
Qed.

(* ---------- GET_PARENT ---------- *)
Definition nohigh (L t : N) : Prop := forall i, L < i -> N.testbit t i = false.

Lemma nohigh_step L t k : nohigh L t -> nohigh L (N.lor t (N.shiftr t k)).
Proof.
  intros H i Hi. rewrite N.lor_spec, N.shiftr_spec', (H i Hi), (H (i + k)); [reflexivity | lia].
Qed.

Lemma smear_nohigh b : b <> 0 -> nohigh (N.log2 b) (smear b).
Proof.
  intros Hb. unfold smear. cbv zeta. repeat apply nohigh_step.
  intros i Hi. apply N.bits_above_log2. exact Hi.
Qed.

Lemma get_parent_subset b i : N.testbit (get_parent b) i = true -> N.testbit b i = true.
Proof. unfold get_parent. rewrite N.land_spec. intros H. apply andb_true_iff in H. tauto. Qed.

Lemma get_parent_le b : get_parent b <= b.
Proof. apply subset_le. apply get_parent_subset. Qed.

Lemma get_parent_lt_pow b : b <> 0 -> get_parent b < 2 ^ N.log2 b.
Proof.
  intros Hb.
  destruct (N.eq_dec (get_parent b) 0) as [E|E]; [rewrite E; apply N.neq_0_lt_0, N.pow_nonzero; discriminate|].
  apply N.log2_lt_pow2; [lia|].
  destruct (N.lt_ge_cases (N.log2 (get_parent b)) (N.log2 b)) as [H|H]; [exact H|exfalso].
  pose proof (N.bit_log2 _ E) as Hbit.
  remember (N.log2 (get_parent b)) as L' eqn:EL.
  unfold get_parent in Hbit. rewrite N.land_spec, N.shiftr_spec' in Hbit.
  apply andb_true_iff in Hbit. destruct Hbit as [_ Hbit].
  rewrite (smear_nohigh b Hb) in Hbit; [discriminate | lia].
Qed.

Lemma get_parent_lt b : b <> 0 -> get_parent b < b.
Proof.
  intros Hb. pose proof (get_parent_lt_pow b Hb). pose proof (N.log2_spec b ltac:(lia)). lia.
Qed.

Lemma get_parent_fuel b f : b < 2 ^ N.of_nat (S f) -> get_parent b < 2 ^ N.of_nat f.
Proof.
  intros H. destruct (N.eq_dec b 0) as [->|Hb].
  - cbn. apply N.neq_0_lt_0, N.pow_nonzero; discriminate.
  - apply N.lt_le_trans with (2 ^ N.log2 b); [apply get_parent_lt_pow; exact Hb|].
    apply N.pow_le_mono_r; [discriminate|].
    assert (N.log2 b < N.of_nat (S f)) by (apply N.log2_lt_pow2; lia). lia.
Qed.

Lemma so_dummy_parent_lt b : b <> 0 -> b < 2 ^ 64 -> so_dummykey (get_parent b) < so_dummykey b.
Proof.
  intros Hb Hlt. unfold so_dummykey. pose proof (get_parent_lt b Hb).
  apply rev64_lt_strict; [lia | exact Hlt | lia | apply get_parent_subset].
Qed.
