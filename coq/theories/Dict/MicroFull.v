(* Micro-step machine for the FULL operation set of dictionary_shavit.c on one split-ordered list whose buckets are
   already initialised: put_if_absent / get (as Dict/Micro.v) + put (qt_lf_force_list_insert: replaces WITHOUT marking) +
   delete (qt_dictionary_delete = qt_hash_get, then qt_hash_remove -> qt_lf_list_delete: mark CAS, unlink CAS, qpool_free)
   + the helping branch of qt_lf_list_find (unlink of a marked node, qpool_free) + the node pool (qpool = qt_mpool: a LIFO
   free list per worker; qt_mpool_free overwrites the first two words of the node = value, key).

   Shared state: a heap of nodes (so_key, key, value, next = pointer + mark bit), the pool's free list, an event log
   (invocations / responses, the history).  Thread-local: the registers of qt_lf_list_find (prev, cur, next and the
   snapshot ckey / okey / cval it takes of *cur), the caller's context, a program counter.
     QIdle        : next operation; put / put_if_absent: qpool_alloc (pop the free list, else a fresh node)
     QAtHash      : (user hash callback) then qt_hash_put writes the four fields of its node
     QFindStart   : prev = head; cur = *prev           (the bucket slot; constant here)
     QFindLoop    : cur == NULL ? return : next = cur->next; ckey; cval; okey   (one step: see GRANULARITY)
     QFindCheck   : *prev != (0,cur) ? start over : marked(next) ? go help : compare so_keys, decide
     QAtEquals    : (user equals callback) found / keep looking
     QAtHelpCas   : CAS(prev, (0,cur), (0,next)); success: qpool_free(cur), go on with next; failure: start over
     QAtInsCas    : the CAS of qt_lf_list_insert / qt_lf_force_list_insert; failure: search again
     QAtMarkCas   : CAS(&cur->next, (0,next), (1,next)); failure: search again
     QAtUnlinkCas : CAS(prev, (0,cur), (0,next)); success: qpool_free(cur); failure: one more find (helping), then return
   [prev = None] is the bucket slot B[bucket] (content: the dummy node [start]); [prev = Some p] is &p->next.
   The schedule points of the real harness are the pcs QAtHash, QAtEquals, the four CAS pcs and QDone: [frun_to_sp].

   POLICY.  [pol_atomic = false, pol_recycle = true] is the code as it is.  [pol_atomic = true]: qt_dictionary_delete is one
   qt_hash_remove that returns the value of the node whose mark CAS it won, put_if_absent returns the value its search saw
   (docs/proposed_fixes/C16-delete-atomic-no-recycle.diff).  [pol_recycle = false]: the two qpool_free calls for UNLINKED
   nodes are dropped (same patch); the private node of a put_if_absent that found its key is still returned to the pool.

   GRANULARITY.  The four consecutive reads of *cur in QFindLoop are one step.  count / size are not modelled (hard cap 2
   in the runs compared with: the table never grows).  The free list is the worker's cache of qt_mpool with fewer than
   items_per_alloc entries (no spill to the global pool). *)
From Coq Require Import List NArith Bool Arith.
From QV Require Import Dict.Micro.
Import ListNotations.

Record fnode := mkF { fn_so : N; fn_key : N; fn_val : N; fn_next : option nat; fn_mark : bool }.

Inductive fop := FPia (k v : N) (start : nat) | FGet (k : N) (start : nat) | FPut (k v : N) (start : nat) | FDel (k : N) (start : nat).
Definition fop_key (o : fop) : N := match o with FPia k _ _ | FGet k _ | FPut k _ _ | FDel k _ => k end.
Definition fop_val (o : fop) : N := match o with FPia _ v _ | FPut _ v _ => v | _ => 0%N end.
Definition fop_start (o : fop) : nat := match o with FPia _ _ s | FGet _ s | FPut _ _ s | FDel _ s => s end.

(* who called qt_lf_list_find *)
Inductive fctx :=
| CGet                      (* qt_hash_get from qt_dictionary_get *)
| CDelGet                   (* qt_hash_get from qt_dictionary_delete *)
| CPia (node : nat)         (* qt_lf_list_insert *)
| CPut (node : nat)         (* qt_lf_force_list_insert *)
| CDel (val : N)            (* qt_lf_list_delete; val = what the preceding get returned *)
| CDelHelp (val : N).       (* the find after a lost unlink CAS; its result is ignored *)

Inductive fpc :=
| QIdle
| QAtHash (c : fctx)
| QFindStart (c : fctx)
| QFindLoop (c : fctx) (prev cur : option nat)
| QFindCheck (c : fctx) (prev : option nat) (cur : nat) (next : option nat) (mk : bool) (cso okey cval : N)
| QAtEquals (c : fctx) (prev : option nat) (cur : nat) (next : option nat) (okey cval : N)
| QAtHelpCas (c : fctx) (prev : option nat) (cur : nat) (next : option nat)
| QAtInsCas (c : fctx) (prev cur : option nat)
| QAtMarkCas (val : N) (prev : option nat) (cur : nat) (next : option nat)
| QAtUnlinkCas (val : N) (prev : option nat) (cur : nat) (next : option nat)
| QDone.

Inductive fevent := EInv (t : nat) (o : fop) | ERes (t : nat) (r : N).

Record fthread := mkFT { ft_pc : fpc; ft_prog : list fop; ft_res : list N (* most recent first *) }.
(* fs_free: the head word of the worker's free list (tc->cache): 0 = empty, ptr_code i = node i; the list itself lives in the
   freed nodes' own memory (first word = value = the next free node), exactly as in qt_mpool: a node freed twice makes it cyclic *)
Record fstate := mkFS { fs_heap : list fnode; fs_free : N; fs_thr : list fthread; fs_log : list fevent (* most recent first *) }.
Record policy := mkPol { pol_atomic : bool; pol_recycle : bool }.
Definition pol_code : policy := mkPol false true.      (* the code as it is *)
Definition pol_patch : policy := mkPol true false.     (* the proposed patch *)

Definition fget (h : list fnode) (i : nat) : fnode := nth i h (mkF 0 0 0 None false).
Definition fso (h : list fnode) (i : nat) : N := fn_so (fget h i).
Definition fkey (h : list fnode) (i : nat) : N := fn_key (fget h i).
Definition fval (h : list fnode) (i : nat) : N := fn_val (fget h i).
Definition fnext (h : list fnode) (i : nat) : option nat := fn_next (fget h i).
Definition fmark (h : list fnode) (i : nat) : bool := fn_mark (fget h i).

Fixpoint updn (h : list fnode) (i : nat) (f : fnode -> fnode) : list fnode :=
  match h with
  | [] => []
  | n :: t => match i with O => f n :: t | S j => n :: updn t j f end
  end.
Definition set_next (h : list fnode) (i : nat) (x : option nat) (m : bool) : list fnode :=
  updn h i (fun n => mkF (fn_so n) (fn_key n) (fn_val n) x m).
Definition set_kv (h : list fnode) (i : nat) (k v : N) : list fnode :=
  updn h i (fun n => mkF (fn_so n) k v (fn_next n) (fn_mark n)).
Definition set_init (h : list fnode) (i : nat) (so k v : N) : list fnode :=
  updn h i (fun _ => mkF so k v None false).

Fixpoint upd_fthr (l : list fthread) (t : nat) (th : fthread) : list fthread :=
  match l with
  | [] => []
  | x :: r => match t with O => th :: r | S j => x :: upd_fthr r j th end
  end.

(* how a pointer to node i reads when it is looked at as a key / value (canonical form of an address) *)
Definition ptr_base : N := 1152921504606846976%N.
Definition ptr_code (i : nat) : N := (ptr_base + N.of_nat i)%N.
Definition ptr_node (w : N) : nat := N.to_nat (w - ptr_base).

(* qt_mpool_free: n->next = cache (first word = value), n->block_tail = cache ? cache->block_tail : n (second word = key);
   cache = n *)
Definition do_free (h : list fnode) (fr : N) (n : nat) : list fnode * N :=
  let k := if (fr =? 0)%N then ptr_code n else if (ptr_base <=? fr)%N then fkey h (ptr_node fr) else 0%N in
  (set_kv h n k fr, ptr_code n).

(* qt_mpool_alloc: cache ? (pop: cache = cache->next, read from the node's first word) : the next item of the block (a node
   nobody has seen).  A cache word that is not a node (the first word of a node that was on the list twice and has been
   re-initialised in between) is dereferenced by the real code: the machine stops. *)
Definition do_alloc (h : list fnode) (fr : N) : option (nat * list fnode * N) :=
  if (fr =? 0)%N then Some (length h, h ++ [mkF 0 0 0 None false], 0%N)
  else if (ptr_base <=? fr)%N then Some (ptr_node fr, h, fval h (ptr_node fr))
  else None.

Definition word_eqb (a b : option nat * bool) : bool := opt_eqb (fst a) (fst b) && Bool.eqb (snd a) (snd b).

Section Machine.
  Variable pol : policy.
  Variable sof : N -> N.           (* so_regularkey(hash(key) & ~MSB) *)
  Variable keq : N -> N -> bool.   (* op_equals *)

  (* *prev, as a marked pointer *)
  Definition fderef (h : list fnode) (start : nat) (prev : option nat) : option nat * bool :=
    match prev with None => (Some start, false) | Some p => (fnext h p, fmark h p) end.

  Definition upd_t (s : fstate) (t : nat) (th : fthread) (h : list fnode) (fr : N) (log : list fevent) : fstate :=
    mkFS h fr (upd_fthr (fs_thr s) t th) log.
  Definition fgoto (s : fstate) (t : nat) (th : fthread) (p : fpc) : fstate :=
    upd_t s t (mkFT p (ft_prog th) (ft_res th)) (fs_heap s) (fs_free s) (fs_log s).
  Definition fgoto_h (s : fstate) (t : nat) (th : fthread) (p : fpc) (h : list fnode) (fr : N) : fstate :=
    upd_t s t (mkFT p (ft_prog th) (ft_res th)) h fr (fs_log s).
  (* the operation returns r *)
  Definition ffinish (s : fstate) (t : nat) (th : fthread) (r : N) (h : list fnode) (fr : N) : fstate :=
    upd_t s t (mkFT QIdle (tl (ft_prog th)) (r :: ft_res th)) h fr (ERes t r :: fs_log s).

  (* qt_lf_list_find returned the pointer value fv (0 = NULL) with outputs (prev, cur, next) *)
  Definition find_ret (s : fstate) (t : nat) (th : fthread) (c : fctx) (prev cur next : option nat) (fv : N) : option fstate :=
    let h := fs_heap s in
    let fr := fs_free s in
    match c with
    | CGet => Some (ffinish s t th fv h fr)
    | CDelGet => Some (fgoto s t th (QAtHash (CDel fv)))
    | CPia n =>
      if negb (fv =? 0)%N then
        (* qt_lf_list_insert returns 0: qpool_free(node); return ret->value -- re-read from the found node *)
        let hf := do_free h fr n in
        let r := if pol_atomic pol then fv else match cur with Some c0 => fval (fst hf) c0 | None => 0%N end in
        Some (ffinish s t th r (fst hf) (snd hf))
      else Some (fgoto_h s t th (QAtInsCas c prev cur) (set_next h n cur false) fr)
    | CPut n =>
      let nx := if negb (fv =? 0)%N then next else cur in
      Some (fgoto_h s t th (QAtInsCas c prev cur) (set_next h n nx false) fr)
    | CDel v =>
      if negb (fv =? 0)%N then
        match cur with
        | Some c0 => Some (fgoto s t th (QAtMarkCas (if pol_atomic pol then fv else v) prev c0 next))
        | None => None
        end
      else Some (ffinish s t th 0%N h fr)
    | CDelHelp v => Some (ffinish s t th v h fr)
    end.

  Definition fstep (s : fstate) (t : nat) : option fstate :=
    match nth_error (fs_thr s) t with
    | None => None
    | Some th =>
      let h := fs_heap s in
      let fr := fs_free s in
      match ft_pc th, ft_prog th with
      | QDone, _ => None
      | QIdle, [] => Some (fgoto s t th QDone)
      | QIdle, o :: _ =>
        let log := EInv t o :: fs_log s in
        match o with
        | FPia _ _ _ =>
          match do_alloc h fr with
          | Some a => Some (upd_t s t (mkFT (QAtHash (CPia (fst (fst a)))) (ft_prog th) (ft_res th)) (snd (fst a)) (snd a) log)
          | None => None
          end
        | FPut _ _ _ =>
          match do_alloc h fr with
          | Some a => Some (upd_t s t (mkFT (QAtHash (CPut (fst (fst a)))) (ft_prog th) (ft_res th)) (snd (fst a)) (snd a) log)
          | None => None
          end
        | FGet _ _ => Some (upd_t s t (mkFT (QAtHash CGet) (ft_prog th) (ft_res th)) h fr log)
        | FDel _ _ => Some (upd_t s t (mkFT (QAtHash (if pol_atomic pol then CDel 0%N else CDelGet)) (ft_prog th) (ft_res th)) h fr log)
        end
      | _, [] => None
      | QAtHash c, o :: _ =>
        match c with
        | CPia n | CPut n => Some (fgoto_h s t th (QFindStart c) (set_init h n (sof (fop_key o)) (fop_key o) (fop_val o)) fr)
        | _ => Some (fgoto s t th (QFindStart c))
        end
      | QFindStart c, o :: _ => Some (fgoto s t th (QFindLoop c None (Some (fop_start o))))
      | QFindLoop c prev cur, o :: _ =>
        match cur with
        | None => find_ret s t th c prev None None 0%N
        | Some x => Some (fgoto s t th (QFindCheck c prev x (fnext h x) (fmark h x) (fso h x) (fkey h x) (fval h x)))
        end
      | QFindCheck c prev x next mk cso okey cval, o :: _ =>
        let hk := sof (fop_key o) in
        if word_eqb (fderef h (fop_start o) prev) (Some x, false) then
          if negb mk then
            if (hk <=? cso)%N then
              if (cso =? hk)%N then
                if negb (okey =? 0)%N
                then Some (fgoto s t th (QAtEquals c prev x next okey cval))
                else Some (fgoto s t th (QFindLoop c (Some x) next))
              else find_ret s t th c prev (Some x) next 0%N
            else Some (fgoto s t th (QFindLoop c (Some x) next))
          else Some (fgoto s t th (QAtHelpCas c prev x next))
        else Some (fgoto s t th (QFindStart c))
      | QAtEquals c prev x next okey cval, o :: _ =>
        if keq okey (fop_key o)
        then find_ret s t th c prev (Some x) next cval
        else Some (fgoto s t th (QFindLoop c (Some x) next))
      | QAtHelpCas c prev x next, o :: _ =>
        match prev with
        | None => None                                   (* a CAS on the bucket slot: never reached *)
        | Some p =>
          if word_eqb (fnext h p, fmark h p) (Some x, false) then
            let h1 := set_next h p next false in
            let hf := if pol_recycle pol then do_free h1 fr x else (h1, fr) in
            Some (fgoto_h s t th (QFindLoop c prev next) (fst hf) (snd hf))
          else Some (fgoto s t th (QFindStart c))
        end
      | QAtInsCas c prev cur, o :: _ =>
        match prev, c with
        | Some p, CPia n | Some p, CPut n =>
          (* qt_lf_list_insert passes node->next (re-read) as the expected value, qt_lf_force_list_insert passes (0,cur);
             both compare the value returned by the CAS with (0,cur) *)
          let expected := match c with CPia _ => (fnext h n, fmark h n) | _ => (cur, false) end in
          let old := (fnext h p, fmark h p) in
          let h1 := if word_eqb old expected then set_next h p (Some n) false else h in
          if word_eqb old (cur, false)
          then Some (ffinish s t th (fval h1 n) h1 fr)
          else Some (fgoto_h s t th (QFindStart c) h1 fr)
        | _, _ => None
        end
      | QAtMarkCas v prev x next, o :: _ =>
        if word_eqb (fnext h x, fmark h x) (next, false)
        then Some (fgoto_h s t th (QAtUnlinkCas v prev x next) (set_next h x next true) fr)
        else Some (fgoto s t th (QFindStart (CDel v)))
      | QAtUnlinkCas v prev x next, o :: _ =>
        match prev with
        | None => None
        | Some p =>
          if word_eqb (fnext h p, fmark h p) (Some x, false) then
            let h1 := set_next h p next false in
            let hf := if pol_recycle pol then do_free h1 fr x else (h1, fr) in
            Some (ffinish s t th v (fst hf) (snd hf))
          else Some (fgoto s t th (QFindStart (CDelHelp v)))
        end
      end
    end.

  Fixpoint frun (s : fstate) (sched : list nat) : fstate :=
    match sched with
    | [] => s
    | t :: r => match fstep s t with Some s' => frun s' r | None => frun s r end
    end.

  (* schedule points of the real harness: 3 hash, 4 equals, 2 mark CAS (qthread_cas_ptr), 9 end of task;
     the qthread_cas sites by function: 11 qt_lf_list_insert, 12 qt_lf_force_list_insert, 13 qt_lf_list_find, 14 qt_lf_list_delete *)
  Definition fsp_kind (p : fpc) : option nat :=
    match p with
    | QAtHash _ => Some 3 | QAtEquals _ _ _ _ _ _ => Some 4 | QAtMarkCas _ _ _ _ => Some 2 | QDone => Some 9
    | QAtInsCas (CPut _) _ _ => Some 12 | QAtInsCas _ _ _ => Some 11
    | QAtHelpCas _ _ _ _ => Some 13 | QAtUnlinkCas _ _ _ _ => Some 14
    | _ => None
    end.

  Definition fpc_of (s : fstate) (t : nat) : fpc :=
    match nth_error (fs_thr s) t with Some th => ft_pc th | None => QDone end.

  (* thread t runs (alone) up to its next schedule point; also the number of steps taken *)
  Fixpoint frun_to_sp (fuel : nat) (s : fstate) (t : nat) (n : nat) : fstate * nat * nat :=
    match fuel with
    | O => (s, 0, n)
    | S f =>
      match fstep s t with
      | None => (s, 0, n)
      | Some s' => match fsp_kind (fpc_of s' t) with
                   | Some k => (s', k, S n)
                   | None => frun_to_sp f s' t (S n)
                   end
      end
    end.

  (* a schedule of grants (each: run to the next schedule point) as the schedule of steps it stands for *)
  Fixpoint expand (fuel : nat) (s : fstate) (grants : list nat) : list nat :=
    match grants with
    | [] => []
    | t :: r => let x := frun_to_sp fuel s t 0 in repeat t (snd x) ++ expand fuel (fst (fst x)) r
    end.
End Machine.

(* the list reachable from node 0 (the node B[0] points at); at most [fuel] nodes (a corrupted list may be cyclic) *)
Fixpoint fwalk (fuel : nat) (h : list fnode) (cur : option nat) : list nat :=
  match fuel, cur with
  | S f, Some c => c :: fwalk f h (fnext h c)
  | _, _ => []
  end.
Definition flist (s : fstate) : list nat := fwalk 64 (fs_heap s) (Some 0).

Definition fdone (s : fstate) : bool :=
  forallb (fun th => match ft_pc th with QDone => true | _ => false end) (fs_thr s).

(* an initial state: the list nodes in list order (node i points at node i+1), then the nodes of the pool's free list *)
Fixpoint fchain (i : nat) (l : list (N * N * N)) : list fnode :=
  match l with
  | [] => []
  | (so, k, v) :: t => mkF so k v (match t with [] => None | _ => Some (S i) end) false :: fchain (S i) t
  end.
(* the free list as a list: follow the first words from the head; None = a word that is not a node *)
Fixpoint ffree_walk (fuel : nat) (h : list fnode) (w : N) : list (option nat) :=
  match fuel with
  | O => []
  | S f => if (w =? 0)%N then [] else if (ptr_base <=? w)%N then Some (ptr_node w) :: ffree_walk f h (fval h (ptr_node w)) else [None]
  end.
Definition ffree (s : fstate) : list (option nat) := ffree_walk 64 (fs_heap s) (fs_free s).

(* freenodes: the nodes of the pool's free list, head first, with their words as they are in memory (value = next free node) *)
Definition finit (l : list (N * N * N)) (freenodes : list fnode) (progs : list (list fop)) : fstate :=
  mkFS (fchain 0 l ++ freenodes) (match freenodes with [] => 0%N | _ => ptr_code (length l) end) (map (fun p => mkFT QIdle p []) progs) [].
