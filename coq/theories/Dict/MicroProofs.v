(* Invariants of the insert-only micro-step machine (Dict/Micro.v), for every schedule and any number of tasks. *)
From Coq Require Import List NArith Bool Arith Lia Sorted.
From QV Require Import Dict.Micro.
Import ListNotations.

(* ---------- heap and thread-table lemmas ---------- *)
Lemma length_setnext h i x : length (setnext h i x) = length h.
Proof. revert i. induction h as [|n t IH]; intros [|j]; cbn; auto. Qed.

Lemma getn_setnext_other h i j x : i <> j -> getn (setnext h i x) j = getn h j.
Proof.
  unfold getn. revert i j. induction h as [|n t IH]; intros [|i] [|j] H; cbn; auto; try congruence;
    try (apply IH; congruence).
Qed.

Lemma so_setnext h i j x : so_of (setnext h i x) j = so_of h j.
Proof. unfold so_of, getn. revert i j. induction h as [|n t IH]; intros [|i] [|j]; cbn; auto. Qed.
Lemma key_setnext h i j x : key_of (setnext h i x) j = key_of h j.
Proof. unfold key_of, getn. revert i j. induction h as [|n t IH]; intros [|i] [|j]; cbn; auto. Qed.
Lemma val_setnext h i j x : val_of (setnext h i x) j = val_of h j.
Proof. unfold val_of, getn. revert i j. induction h as [|n t IH]; intros [|i] [|j]; cbn; auto. Qed.

Lemma next_setnext_same h i x : i < length h -> next_of (setnext h i x) i = x.
Proof. unfold next_of, getn. revert i. induction h as [|n t IH]; intros [|i] H; cbn in *; try lia; auto. apply IH. lia. Qed.

Lemma next_setnext_other h i j x : i <> j -> next_of (setnext h i x) j = next_of h j.
Proof. intros H. unfold next_of. rewrite getn_setnext_other; auto. Qed.

Lemma getn_app_old h n j : j < length h -> getn (h ++ [n]) j = getn h j.
Proof. intros H. unfold getn. apply app_nth1. exact H. Qed.

Lemma getn_app_new h n : getn (h ++ [n]) (length h) = n.
Proof. unfold getn. rewrite app_nth2 by lia. rewrite Nat.sub_diag. reflexivity. Qed.

Lemma nth_upd_same l t th0 th : nth_error l t = Some th0 -> nth_error (upd_thr l t th) t = Some th.
Proof. revert t. induction l as [|x r IH]; intros [|t] H; cbn in *; try discriminate; auto. Qed.

Lemma nth_upd_other l t t' th : t <> t' -> nth_error (upd_thr l t th) t' = nth_error l t'.
Proof. revert t t'. induction l as [|x r IH]; intros [|t] [|t'] H; cbn; auto; try congruence. Qed.

Lemma opt_eqb_eq a b : opt_eqb a b = true <-> a = b.
Proof.
  destruct a, b; cbn; split; intros H; try discriminate; try reflexivity.
  - apply Nat.eqb_eq in H. congruence.
  - inversion H. apply Nat.eqb_refl.
Qed.

(* ---------- the reachable list ---------- *)
Definition hdo (l : list nat) : option nat := match l with [] => None | x :: _ => Some x end.

Fixpoint islist (h : list mnode) (first : option nat) (l : list nat) : Prop :=
  match l with
  | [] => first = None
  | x :: r => first = Some x /\ islist h (next_of h x) r
  end.

Lemma islist_hd h f l : islist h f l -> f = hdo l.
Proof. destruct l; cbn; tauto. Qed.

Lemma islist_ext h h' f l : (forall x, In x l -> next_of h' x = next_of h x) -> islist h f l -> islist h' f l.
Proof.
  revert f. induction l as [|x r IH]; cbn; intros f He H; auto.
  destruct H as [-> H]. split; auto. rewrite He by auto. apply IH; auto.
Qed.

Lemma islist_split h f l1 x l2 : islist h f (l1 ++ x :: l2) -> next_of h x = hdo l2.
Proof.
  revert f. induction l1 as [|y r IH]; cbn; intros f H.
  - destruct H as [_ H]. apply islist_hd in H. exact H.
  - destruct H as [_ H]. eapply IH; eauto.
Qed.

Lemma islist_insert h f l1 p l2 n :
  NoDup (l1 ++ p :: l2) -> ~ In n (l1 ++ p :: l2) -> p < length h -> islist h f (l1 ++ p :: l2) ->
  next_of h n = hdo l2 -> islist (setnext h p (Some n)) f (l1 ++ p :: n :: l2).
Proof.
  revert f. induction l1 as [|y r IH]; cbn; intros f Hnd Hni Hp H Hn.
  - destruct H as [-> H]. split; auto. rewrite next_setnext_same by exact Hp. cbn. split; auto.
    inversion Hnd as [|? ? Hpn Hnd2]; subst.
    rewrite next_setnext_other by (intro E; apply Hni; left; auto).
    rewrite Hn. apply islist_hd in H as Hh. rewrite Hh in H.
    apply (islist_ext h); auto. intros x Hx. apply next_setnext_other. intro E. subst. contradiction.
  - destruct H as [-> H]. inversion Hnd as [|? ? Hy Hnd2]; subst. split; auto.
    rewrite next_setnext_other by (intro E; subst; apply Hy; apply in_app_iff; cbn; auto).
    apply IH; auto; intro E; apply Hni; right; exact E.
Qed.

Lemma walk_islist h l : forall f fuel, islist h f l -> length l <= fuel -> walk fuel h f = l.
Proof.
  induction l as [|x r IH]; cbn; intros f fuel H Hl.
  - subst. destruct fuel; reflexivity.
  - destruct H as [-> H]. destruct fuel as [|fuel]; [lia|]. cbn. f_equal. apply IH; auto. lia.
Qed.

(* elements strictly before c *)
Fixpoint pre (l : list nat) (c : nat) : list nat :=
  match l with
  | [] => []
  | x :: r => if Nat.eqb x c then [] else x :: pre r c
  end.

Lemma pre_app l1 x l2 : ~ In x l1 -> pre (l1 ++ x :: l2) x = l1.
Proof.
  induction l1 as [|y r IH]; cbn; intros H.
  - rewrite Nat.eqb_refl. reflexivity.
  - destruct (Nat.eqb_spec y x) as [E|E]; [exfalso; apply H; auto|]. f_equal. apply IH. intro. apply H. auto.
Qed.

Lemma nodup_mid {A} (l1 : list A) x l2 : NoDup (l1 ++ x :: l2) -> ~ In x l1 /\ ~ In x l2.
Proof. intros H. apply NoDup_remove_2 in H. rewrite in_app_iff in H. tauto. Qed.

Lemma nodup_insert {A} (a : A) l1 l2 : NoDup (l1 ++ l2) -> ~ In a (l1 ++ l2) -> NoDup (l1 ++ a :: l2).
Proof.
  induction l1 as [|x l1 IH]; cbn; intros Hnd Hni.
  - constructor; assumption.
  - inversion Hnd as [|? ? Hx Hnd']; subst. constructor.
    + rewrite in_app_iff in *. cbn. intros [H|[H|H]]; [apply Hx; auto | subst; apply Hni; auto | apply Hx; auto].
    + apply IH; [exact Hnd' | intro H; apply Hni; auto].
Qed.

(* inserting n right after q: what is strictly before p afterwards *)
Lemma pre_insert l1 q l2 n p :
  NoDup (l1 ++ q :: l2) -> ~ In n (l1 ++ q :: l2) -> In p (l1 ++ q :: l2) ->
  (In p (l1 ++ [q]) /\ pre (l1 ++ q :: n :: l2) p = pre (l1 ++ q :: l2) p) \/
  (In p l2 /\ forall x, In x (pre (l1 ++ q :: n :: l2) p) -> In x (pre (l1 ++ q :: l2) p) \/ x = n).
Proof.
  intros Hnd Hni Hp.
  assert (Hnd' : NoDup (l1 ++ q :: n :: l2)).
  { replace (l1 ++ q :: n :: l2) with ((l1 ++ [q]) ++ n :: l2) by (rewrite <- app_assoc; reflexivity).
    apply nodup_insert; rewrite <- app_assoc; cbn; auto. }
  apply in_app_iff in Hp. destruct Hp as [Hp|[->|Hp]].
  - left. split; [apply in_app_iff; auto|].
    apply in_split in Hp. destruct Hp as (a & b & ->).
    rewrite <- !app_assoc in *. cbn in *.
    rewrite (pre_app a p (b ++ q :: n :: l2)) by exact (proj1 (nodup_mid a p _ Hnd')).
    rewrite (pre_app a p (b ++ q :: l2)) by exact (proj1 (nodup_mid a p _ Hnd)). reflexivity.
  - left. split; [apply in_app_iff; cbn; auto|].
    rewrite (pre_app l1 p (n :: l2)) by exact (proj1 (nodup_mid l1 p _ Hnd')).
    rewrite (pre_app l1 p l2) by exact (proj1 (nodup_mid l1 p _ Hnd)). reflexivity.
  - right. split; auto. apply in_split in Hp. destruct Hp as (a & b & ->).
    replace (l1 ++ q :: n :: a ++ p :: b) with ((l1 ++ q :: n :: a) ++ p :: b) in * by (rewrite <- app_assoc; reflexivity).
    replace (l1 ++ q :: a ++ p :: b) with ((l1 ++ q :: a) ++ p :: b) in * by (rewrite <- app_assoc; reflexivity).
    rewrite (pre_app (l1 ++ q :: n :: a) p b) by exact (proj1 (nodup_mid _ p b Hnd')).
    rewrite (pre_app (l1 ++ q :: a) p b) by exact (proj1 (nodup_mid _ p b Hnd)).
    intros x Hx. apply in_app_iff in Hx. cbn in Hx. rewrite in_app_iff. cbn. intuition (subst; auto).
Qed.

Lemma pre_split l c : In c l -> exists suf, l = pre l c ++ c :: suf.
Proof.
  induction l as [|x r IH]; intros H; [destruct H|]. cbn.
  destruct (Nat.eqb_spec x c) as [->|E].
  - exists r. reflexivity.
  - destruct H as [H|H]; [contradiction|]. destruct (IH H) as (suf & Hs). exists suf. cbn. congruence.
Qed.

Lemma ssorted_app {A} (R : A -> A -> Prop) l1 l2 :
  StronglySorted R (l1 ++ l2) <->
  StronglySorted R l1 /\ StronglySorted R l2 /\ (forall a b, In a l1 -> In b l2 -> R a b).
Proof.
  induction l1 as [|x l1 IH]; cbn.
  - split; [intros H; repeat split; [constructor | exact H | intros ? ? []] | tauto].
  - split.
    + intros H. inversion H as [|? ? Hs Hf]; subst. apply IH in Hs. destruct Hs as (H1 & H2 & H3).
      rewrite Forall_app in Hf. destruct Hf as [Hf1 Hf2]. rewrite Forall_forall in Hf2.
      repeat split; [constructor; assumption | assumption |].
      intros a b [<-|Ha] Hb; auto.
    + intros (H1 & H2 & H3). inversion H1 as [|? ? Hs Hf]; subst. constructor.
      * apply IH. repeat split; auto.
      * rewrite Forall_app. split; [exact Hf|]. rewrite Forall_forall. intros b Hb. apply H3; auto.
Qed.

Lemma pre_incl l c x : In x (pre l c) -> In x l.
Proof.
  induction l as [|y r IH]; cbn; [tauto|]. destruct (Nat.eqb y c); cbn; [tauto|]. intros [H|H]; auto.
Qed.

Section Inv.
  Variable sof : N -> N.
  Variable keq : N -> N -> bool.
  Hypothesis keq_spec : forall a b, keq a b = true <-> a = b.

  Definition G (h : list mnode) (l : list nat) : Prop :=
    islist h (Some 0) l /\ NoDup l /\ (forall x, In x l -> x < length h) /\
    StronglySorted (fun a b => (so_of h a <= so_of h b)%N) l /\
    (forall x, In x l -> key_of h x <> 0%N -> so_of h x = sof (key_of h x)) /\
    (forall x y, In x l -> In y l -> key_of h x = key_of h y -> key_of h x <> 0%N -> x = y).

  Definition wf_op (h : list mnode) (l : list nat) (o : mop) : Prop :=
    In (op_start o) l /\ (so_of h (op_start o) < sof (op_key o))%N /\ op_key o <> 0%N.

  Definition nokey (h : list mnode) (k : N) (x : nat) : Prop := key_of h x <> k.

  Definition passed (h : list mnode) (l : list nat) (k : N) (prev : option nat) : Prop :=
    match prev with
    | None => True
    | Some p => In p l /\ (so_of h p <= sof k)%N /\ Forall (nokey h k) (pre l p) /\ key_of h p <> k
    end.

  Definition node_ok (h : list mnode) (l : list nat) (o : mop) (node : option nat) : Prop :=
    match node, o with
    | None, MGet _ _ => True
    | Some n, MPia k v _ => n < length h /\ ~ In n l /\ so_of h n = sof k /\ key_of h n = k /\ val_of h n = v
    | _, _ => False
    end.

  Definition inl (l : list nat) (x : option nat) : Prop := match x with None => True | Some y => In y l end.

  Definition LocOp (h : list mnode) (l : list nat) (o : mop) (p : pc) : Prop :=
    let k := op_key o in
    match p with
    | PIdle | PDone => True
    | PAtHash node | PFindStart node => node_ok h l o node
    | PFindLoop node prev cur =>
      node_ok h l o node /\ passed h l k prev /\ (prev = None -> cur = Some (op_start o)) /\ inl l cur
    | PFindCheck node prev c next =>
      node_ok h l o node /\ passed h l k prev /\ In c l /\ (prev = None -> c = op_start o) /\ inl l next
    | PAtEquals node prev c next =>
      node_ok h l o node /\ In c l /\ so_of h c = sof k /\ key_of h c <> 0%N /\ Forall (nokey h k) (pre l c) /\ inl l next
    | PAtCas n prev cur =>
      node_ok h l o (Some n) /\ (exists p, prev = Some p) /\ passed h l k prev /\ next_of h n = cur /\
      match cur with None => True | Some c => In c l /\ (sof k < so_of h c)%N end
    end.

  Definition Loc (h : list mnode) (l : list nat) (th : thread) : Prop :=
    Forall (wf_op h l) (t_prog th) /\
    match t_pc th with
    | PIdle | PDone => True
    | p => match t_prog th with [] => False | o :: _ => LocOp h l o p end
    end.

  Definition own (p : pc) : option nat :=
    match p with
    | PAtHash node | PFindStart node | PFindLoop node _ _ | PFindCheck node _ _ _ | PAtEquals node _ _ _ => node
    | PAtCas n _ _ => Some n
    | PIdle | PDone => None
    end.

  Definition Owners (s : mstate) : Prop :=
    forall t t' th th' n, t <> t' -> nth_error (m_thr s) t = Some th -> nth_error (m_thr s) t' = Some th' ->
                          own (t_pc th) = Some n -> own (t_pc th') <> Some n.

  Definition InvL (s : mstate) (l : list nat) : Prop :=
    G (m_heap s) l /\ (forall t th, nth_error (m_thr s) t = Some th -> Loc (m_heap s) l th) /\ Owners s.
  Definition Inv (s : mstate) : Prop := exists l, InvL s l.

  (* ---------- generic update ---------- *)
  Lemma inv_update s t th th' h' l' :
    nth_error (m_thr s) t = Some th -> Owners s ->
    G h' l' -> Loc h' l' th' ->
    (forall t2 th2, t2 <> t -> nth_error (m_thr s) t2 = Some th2 -> Loc h' l' th2) ->
    (forall t2 th2 n, t2 <> t -> nth_error (m_thr s) t2 = Some th2 -> own (t_pc th') = Some n -> own (t_pc th2) <> Some n) ->
    InvL (mkM h' (upd_thr (m_thr s) t th')) l'.
  Proof.
    intros Hn Hown HG HL Hoth Hnew. split; [exact HG | split]; cbn.
    - intros t2 th2 H2. destruct (Nat.eq_dec t t2) as [<-|Hne].
      + rewrite (nth_upd_same _ _ _ _ Hn) in H2. inversion H2; subst. exact HL.
      + rewrite nth_upd_other in H2 by exact Hne. apply (Hoth t2 th2); auto.
    - intros a b tha thb n Hab Ha Hb Hoa. cbn in *.
      destruct (Nat.eq_dec t a) as [<-|Hta]; destruct (Nat.eq_dec t b) as [<-|Htb]; try congruence.
      + rewrite (nth_upd_same _ _ _ _ Hn) in Ha. inversion Ha; subst.
        rewrite nth_upd_other in Hb by exact Htb. apply (Hnew b thb n); auto.
      + rewrite (nth_upd_same _ _ _ _ Hn) in Hb. inversion Hb; subst.
        rewrite nth_upd_other in Ha by exact Hta. intro E. apply (Hnew a tha n); auto.
      + rewrite nth_upd_other in Ha by exact Hta. rewrite nth_upd_other in Hb by exact Htb.
        apply (Hown a b tha thb n); auto.
  Qed.

  (* heap and list unchanged, the stepping thread keeps or drops its node *)
  Lemma inv_same s t th th' l :
    InvL s l -> nth_error (m_thr s) t = Some th -> Loc (m_heap s) l th' ->
    (own (t_pc th') = own (t_pc th) \/ own (t_pc th') = None) ->
    InvL (mkM (m_heap s) (upd_thr (m_thr s) t th')) l.
  Proof.
    intros (HG & HL & HO) Hn HL' Hown. apply (inv_update s t th th'); auto.
    - intros t2 th2 _ H2. apply (HL t2 th2 H2).
    - intros t2 th2 n Hne H2 Ho. destruct Hown as [E|E]; [|congruence].
      rewrite E in Ho. intro E2. apply (HO t t2 th th2 n); auto.
  Qed.

  (* ---------- frames ---------- *)
  Lemma Loc_insert h l1 q l2 n0 th :
    let l := l1 ++ q :: l2 in
    let l' := l1 ++ q :: n0 :: l2 in
    let h' := setnext h q (Some n0) in
    NoDup l -> ~ In n0 l ->
    (forall y, In y l2 -> (so_of h n0 < so_of h y)%N) ->
    (key_of h n0 <> 0%N -> so_of h n0 = sof (key_of h n0)) ->
    own (t_pc th) <> Some n0 ->
    Loc h l th -> Loc h' l' th.
  Proof.
    cbv zeta. intros Hnd Hni Hlt Hreg Hown [Hwf HL].
    assert (Hin : forall x, In x (l1 ++ q :: l2) -> In x (l1 ++ q :: n0 :: l2)).
    { intros x Hx. rewrite in_app_iff in *. cbn in *. tauto. }
    assert (Hinl : forall x, inl (l1 ++ q :: l2) x -> inl (l1 ++ q :: n0 :: l2) x) by (intros [y|]; cbn; auto).
    assert (Hq : In q (l1 ++ q :: l2)) by (apply in_app_iff; cbn; auto).
    (* what is before p after the insertion: old elements, or the new node, which cannot carry key k *)
    assert (Hpre : forall k p, In p (l1 ++ q :: l2) -> (so_of h p <= sof k)%N -> k <> 0%N ->
                               Forall (nokey h k) (pre (l1 ++ q :: l2) p) ->
                               Forall (nokey (setnext h q (Some n0)) k) (pre (l1 ++ q :: n0 :: l2) p)).
    { intros k p Hp Hso Hk Hf. rewrite Forall_forall in *. intros x Hx. unfold nokey. rewrite key_setnext.
      destruct (pre_insert l1 q l2 n0 p Hnd Hni Hp) as [[_ E]|[Hp2 Hsub]].
      - rewrite E in Hx. apply Hf. exact Hx.
      - destruct (Hsub x Hx) as [Hx2 | ->]; [apply Hf; exact Hx2|].
        intro Ek. specialize (Hlt p Hp2). rewrite Hreg in Hlt by congruence. rewrite Ek in Hlt. lia. }
    assert (Hpassed : forall k prev, k <> 0%N -> passed h (l1 ++ q :: l2) k prev ->
                                     passed (setnext h q (Some n0)) (l1 ++ q :: n0 :: l2) k prev).
    { intros k [p|] Hk; cbn; auto. intros (Hp & Hso & Hf & Hkp). rewrite so_setnext, key_setnext. repeat split; auto. }
    assert (Hnode : forall o node, own (t_pc th) = node -> node_ok h (l1 ++ q :: l2) o node ->
                                   node_ok (setnext h q (Some n0)) (l1 ++ q :: n0 :: l2) o node).
    { intros o [n|] Ho; destruct o; cbn; auto. intros (Hlen & Hnl & Hs & Hk & Hv).
      rewrite length_setnext, so_setnext, key_setnext, val_setnext. repeat split; auto.
      intro Hx. rewrite in_app_iff in Hx. cbn in Hx. rewrite in_app_iff in Hnl. cbn in Hnl.
      destruct Hx as [Hx|[Hx|[Hx|Hx]]]; try tauto. subst. congruence. }
    split.
    - rewrite Forall_forall in *. intros o Ho. destruct (Hwf o Ho) as (H1 & H2 & H3).
      unfold wf_op. rewrite so_setnext. auto.
    - destruct (t_pc th) eqn:Epc; auto; destruct (t_prog th) as [|o rest]; auto;
        (assert (Hk : op_key o <> 0%N) by (inversion Hwf as [|? ? Ho _]; subst; apply Ho));
        cbn [LocOp] in *; cbn [own] in Hown, Hnode.
      + apply Hnode; auto.
      + apply Hnode; auto.
      + destruct HL as (A & B & C & D). repeat split; auto.
      + destruct HL as (A & B & C & D & E). repeat split; auto.
      + destruct HL as (A & B & C & D & E & F). rewrite so_setnext, key_setnext. repeat split; auto.
        apply Hpre; auto. lia.
      + destruct HL as (A & B & C & D & E). repeat split; auto.
        * rewrite next_setnext_other; auto. intro Eq. subst q. destruct o; cbn in A; [|contradiction].
          destruct A as (_ & Hnl & _). apply Hnl. exact Hq.
        * destruct cur as [c|]; auto. destruct E as [E1 E2]. rewrite so_setnext. split; auto.
  Qed.

  Lemma ssorted_ext {A} (R R' : A -> A -> Prop) l :
    (forall a b, In a l -> In b l -> R a b -> R' a b) -> StronglySorted R l -> StronglySorted R' l.
  Proof.
    induction l as [|x r IH]; intros He H; [constructor|]. inversion H as [|? ? Hs Hf]; subst. constructor.
    - apply IH; auto. intros a b Ha Hb. apply He; cbn; auto.
    - rewrite Forall_forall in *. intros y Hy. apply He; cbn; auto.
  Qed.

  (* the heap changes outside the list (allocation, or a write to a private node) *)
  Lemma G_frame h h' l :
    length h <= length h' ->
    (forall i, i < length h -> so_of h' i = so_of h i /\ key_of h' i = key_of h i /\ val_of h' i = val_of h i) ->
    (forall x, In x l -> next_of h' x = next_of h x) ->
    G h l -> G h' l.
  Proof.
    intros Hlen Hat Hnx (G1 & G2 & G3 & G4 & G5 & G6).
    assert (Hso : forall x, In x l -> so_of h' x = so_of h x) by (intros x Hx; apply Hat; auto).
    assert (Hkey : forall x, In x l -> key_of h' x = key_of h x) by (intros x Hx; apply Hat; auto).
    repeat split; auto.
    - apply (islist_ext h); auto.
    - intros x Hx. specialize (G3 x Hx). lia.
    - apply (ssorted_ext (fun a b => (so_of h a <= so_of h b)%N)); auto. intros a b Ha Hb. rewrite !Hso; auto.
    - intros x Hx. rewrite Hso, Hkey; auto.
    - intros x y Hx Hy. rewrite !Hkey; auto.
  Qed.

  Lemma Loc_frame h h' l th :
    (forall x, In x l -> x < length h) ->
    length h <= length h' ->
    (forall i, i < length h -> so_of h' i = so_of h i /\ key_of h' i = key_of h i /\ val_of h' i = val_of h i) ->
    (forall n prev cur, t_pc th = PAtCas n prev cur -> next_of h' n = next_of h n) ->
    Loc h l th -> Loc h' l th.
  Proof.
    intros Hl Hlen Hat Hnx [Hwf HL].
    assert (Hso : forall x, In x l -> so_of h' x = so_of h x) by (intros x Hx; apply Hat; auto).
    assert (Hkey : forall x, In x l -> key_of h' x = key_of h x) by (intros x Hx; apply Hat; auto).
    assert (Hpassed : forall k prev, passed h l k prev -> passed h' l k prev).
    { intros k [p|]; cbn; auto. intros (Hp & Hs & Hf & Hk). rewrite Hso, Hkey by auto. repeat split; auto.
      rewrite Forall_forall in *. intros x Hx. unfold nokey. rewrite Hkey by (eapply pre_incl; eauto). apply Hf; auto. }
    assert (Hnode : forall o node, node_ok h l o node -> node_ok h' l o node).
    { intros o [n|]; destruct o; cbn; auto. intros (Hn & Hnl & Hs & Hk & Hv).
      destruct (Hat n Hn) as (E1 & E2 & E3). rewrite E1, E2, E3. repeat split; auto. lia. }
    split.
    - rewrite Forall_forall in *. intros o Ho. destruct (Hwf o Ho) as (H1 & H2 & H3). unfold wf_op. rewrite Hso by auto. auto.
    - destruct (t_pc th) eqn:Epc; auto; destruct (t_prog th) as [|o rest]; auto; cbn [LocOp own] in *.
      + auto.
      + auto.
      + destruct HL as (A & B & C & D). repeat split; auto.
      + destruct HL as (A & B & C & D & E). repeat split; auto.
      + destruct HL as (A & B & C & D & E & F). rewrite Hso, Hkey by auto. repeat split; auto.
        rewrite Forall_forall in *. intros x Hx. unfold nokey. rewrite Hkey by (eapply pre_incl; eauto). apply E; auto.
      + destruct HL as (A & B & C & D & E). repeat split; auto.
        * rewrite (Hnx _ _ _ eq_refl); auto.
        * destruct cur as [c|]; auto. destruct E as [E1 E2]. rewrite Hso by auto. auto.
  Qed.

  Lemma G_insert h l1 q l2 n0 :
    G h (l1 ++ q :: l2) -> n0 < length h -> ~ In n0 (l1 ++ q :: l2) -> next_of h n0 = hdo l2 ->
    (so_of h q <= so_of h n0)%N -> (forall y, In y l2 -> (so_of h n0 < so_of h y)%N) ->
    key_of h n0 <> 0%N -> so_of h n0 = sof (key_of h n0) ->
    (forall x, In x (l1 ++ q :: l2) -> key_of h x <> key_of h n0) ->
    G (setnext h q (Some n0)) (l1 ++ q :: n0 :: l2).
  Proof.
    intros (G1 & G2 & G3 & G4 & G5 & G6) Hn Hni Hnx Hq Hlt Hk0 Hreg Hfresh.
    assert (Hqin : In q (l1 ++ q :: l2)) by (apply in_app_iff; cbn; auto).
    assert (Hin' : forall x, In x (l1 ++ q :: n0 :: l2) -> x = n0 \/ In x (l1 ++ q :: l2)).
    { intros x Hx. rewrite in_app_iff in *. cbn in *. intuition (subst; auto). }
    split; [|split; [|split; [|split; [|split]]]].
    - apply islist_insert; auto.
    - replace (l1 ++ q :: n0 :: l2) with ((l1 ++ [q]) ++ n0 :: l2) by (rewrite <- app_assoc; reflexivity).
      apply nodup_insert; rewrite <- app_assoc; cbn; auto.
    - intros x Hx. rewrite length_setnext. destruct (Hin' x Hx) as [->|H]; auto.
    - apply (ssorted_ext (fun a b => (so_of h a <= so_of h b)%N)); [intros a b _ _; rewrite !so_setnext; auto|].
      apply ssorted_app in G4. destruct G4 as (S1 & S2 & S12). apply ssorted_app. split; [exact S1 | split].
      + inversion S2 as [|? ? Sq Fq]; subst. constructor; [constructor; auto|].
        * rewrite Forall_forall. intros y Hy. specialize (Hlt y Hy). lia.
        * constructor; auto.
      + intros a b Ha [<-|[<-|Hb]].
        * apply S12; cbn; auto.
        * specialize (S12 a q Ha (or_introl eq_refl)). lia.
        * apply S12; cbn; auto.
    - intros x Hx. rewrite so_setnext, key_setnext. destruct (Hin' x Hx) as [->|H]; auto.
    - intros x y Hx Hy. rewrite !key_setnext. intros E Hz.
      destruct (Hin' x Hx) as [->|H1]; destruct (Hin' y Hy) as [->|H2]; auto.
      + exfalso. apply (Hfresh y H2). congruence.
      + exfalso. apply (Hfresh x H1). congruence.
  Qed.

  Lemma G_next_in h l c : G h l -> In c l -> inl l (next_of h c).
  Proof.
    intros (G1 & _) Hc. apply in_split in Hc. destruct Hc as (l1 & l2 & ->).
    rewrite (islist_split _ _ _ _ _ G1). destruct l2; cbn; auto. apply in_app_iff. cbn. auto.
  Qed.

  Lemma pre_le h l c x : G h l -> In c l -> In x (pre l c) -> (so_of h x <= so_of h c)%N.
  Proof.
    intros (_ & _ & _ & G4 & _) Hc Hx. destruct (pre_split l c Hc) as (suf & E). rewrite E in G4.
    apply ssorted_app in G4. destruct G4 as (_ & _ & H). apply H; cbn; auto.
  Qed.

  (* p -> c adjacent: what is before c is what is before p, and p *)
  Lemma adjacent_pre h l p c : G h l -> In p l -> next_of h p = Some c -> pre l c = pre l p ++ [p] /\ In c l.
  Proof.
    intros (G1 & G2 & _) Hp Hnx. apply in_split in Hp. destruct Hp as (l1 & l2 & ->).
    rewrite (islist_split _ _ _ _ _ G1) in Hnx. destruct l2 as [|c' l2]; cbn in Hnx; [discriminate|]. inversion Hnx; subst c'.
    rewrite (pre_app l1 p (c :: l2)) by exact (proj1 (nodup_mid l1 p _ G2)).
    replace (l1 ++ p :: c :: l2) with ((l1 ++ [p]) ++ c :: l2) in * by (rewrite <- app_assoc; reflexivity).
    rewrite (pre_app (l1 ++ [p]) c l2) by exact (proj1 (nodup_mid _ c _ G2)).
    split; auto. apply in_app_iff. cbn. auto.
  Qed.

  Lemma own_lt h l th n : Loc h l th -> own (t_pc th) = Some n -> n < length h /\ ~ In n l.
  Proof.
    intros [_ HL] Ho. destruct (t_pc th); cbn in Ho; try discriminate; destruct (t_prog th) as [|o r]; try contradiction;
      cbn [LocOp] in HL; inversion Ho; subst; destruct o; cbn in HL; tauto.
  Qed.

  Lemma wf_tail h l (prog : list mop) : Forall (wf_op h l) prog -> Forall (wf_op h l) (tl prog).
  Proof. intros H. destruct prog; cbn; auto. inversion H; auto. Qed.

  (* everything before c (when prev -> c is adjacent and prev is passed) misses the key *)
  Lemma passed_adj h l o prev c :
    G h l -> wf_op h l o -> passed h l (op_key o) prev -> (prev = None -> c = op_start o) ->
    deref h (op_start o) prev = Some c -> Forall (nokey h (op_key o)) (pre l c) /\ In c l.
  Proof.
    intros HG (Hst & Hlt & Hk) Hp Hnone Hd. destruct prev as [p|]; cbn in *.
    - destruct Hp as (Hp & Hso & Hf & Hkp). destruct (adjacent_pre h l p c HG Hp Hd) as [E Hc]. split; auto.
      rewrite E. apply Forall_app. split; auto.
    - inversion Hd; subst c. split; auto. rewrite Forall_forall. intros x Hx Ek. unfold nokey in *.
      pose proof (pre_le h l _ x HG Hst Hx) as Hle. destruct HG as (_ & _ & _ & _ & G5 & _).
      rewrite (G5 x) in Hle; [rewrite Ek in Hle; lia | eapply pre_incl; eauto | congruence].
  Qed.

  Lemma setnext_attrs h n x : forall i, i < length h ->
    so_of (setnext h n x) i = so_of h i /\ key_of (setnext h n x) i = key_of h i /\ val_of (setnext h n x) i = val_of h i.
  Proof. intros; rewrite so_setnext, key_setnext, val_setnext; auto. Qed.

  (* qt_lf_list_find returned NULL to put_if_absent: node->next = cur, go to the CAS *)
  Lemma inv_not_found s t l p0 o rest res n prev cur :
    InvL s l -> nth_error (m_thr s) t = Some (mkT p0 (o :: rest) res) ->
    own p0 = Some n -> (forall a b c, p0 <> PAtCas a b c) ->
    node_ok (m_heap s) l o (Some n) -> passed (m_heap s) l (op_key o) prev -> prev <> None ->
    match cur with None => True | Some c => In c l /\ (sof (op_key o) < so_of (m_heap s) c)%N end ->
    InvL (mkM (setnext (m_heap s) n cur) (upd_thr (m_thr s) t (mkT (PAtCas n prev cur) (o :: rest) res))) l.
  Proof.
    intros HI Hn Hown Hnotcas Hnode Hpassed Hprev Hcur. pose proof HI as (HG & HL & HO).
    set (h := m_heap s) in *. pose proof HG as (_ & _ & G3 & _).
    assert (Hn_lt : n < length h /\ ~ In n l) by (destruct o; cbn in Hnode; tauto).
    assert (Hlen : length h <= length (setnext h n cur)) by (rewrite length_setnext; auto).
    assert (Hfr : forall t2 th2, nth_error (m_thr s) t2 = Some th2 ->
                                 (forall a b c, t_pc th2 = PAtCas a b c -> a <> n) -> Loc (setnext h n cur) l th2).
    { intros t2 th2 H2 Hne. apply (Loc_frame h).
      - exact G3.
      - exact Hlen.
      - apply setnext_attrs.
      - intros a b c E. apply next_setnext_other. intro E2. apply (Hne a b c E). auto.
      - apply (HL t2 th2 H2). }
    apply (inv_update s t _ _ (setnext h n cur) l Hn HO).
    - apply (G_frame h); auto using setnext_attrs. intros x Hx. apply next_setnext_other. intro E; subst. tauto.
    - assert (HLo : Loc (setnext h n cur) l (mkT p0 (o :: rest) res)).
      { apply (Hfr t _ Hn). intros a b c E. cbn in E. exfalso. apply (Hnotcas a b c E). }
      destruct HLo as [Hwf' _]. split; [exact Hwf'|]. cbn [t_pc t_prog LocOp].
      assert (Hfake : Loc (setnext h n cur) l (mkT (PFindLoop (Some n) prev (Some (op_start o))) (o :: rest) res)).
      { destruct (HL t _ Hn) as [Hw _]. cbn [t_prog] in Hw. apply (Loc_frame h).
        - exact G3.
        - exact Hlen.
        - apply setnext_attrs.
        - cbn; intros; discriminate.
        - split; [exact Hw|]. cbn [t_pc t_prog LocOp].
          split; [exact Hnode | split; [exact Hpassed | split; [intros E; congruence |]]].
          cbn. inversion Hw as [|? ? Ho _]; subst. apply Ho. }
      destruct Hfake as [_ (A & B & _ & _)]. split; [exact A | split; [|split; [exact B | split]]].
      + destruct prev; [eauto | congruence].
      + apply next_setnext_same. tauto.
      + destruct cur; auto. rewrite so_setnext. exact Hcur.
    - intros t2 th2 Hne H2. apply (Hfr t2 th2 H2). intros a b c E E2. subst a.
      apply (HO t t2 (mkT p0 (o :: rest) res) th2 n); auto. rewrite E. reflexivity.
    - intros t2 th2 n' Hne H2 Ho. cbn in Ho. inversion Ho; subst n'. intro E.
      apply (HO t t2 (mkT p0 (o :: rest) res) th2 n); auto.
  Qed.

  (* one step preserves the invariant, and the reachable list only grows *)
  Definition cas_ok (s : mstate) (t n p : nat) : Prop :=
    exists th cur, nth_error (m_thr s) t = Some th /\ t_pc th = PAtCas n (Some p) cur /\ next_of (m_heap s) p = cur.

  Ltac notcas Hn :=
    let n := fresh in let p := fresh in let th := fresh in let cur := fresh in let H := fresh in let Hpc := fresh in
    intros n p (th & cur & H & Hpc & ?); rewrite Hn in H; inversion H; subst; cbn in Hpc; discriminate.

  Theorem inv_step_l s t s' l : InvL s l -> mstep sof keq s t = Some s' ->
    exists l', InvL s' l' /\ incl l l' /\
      ((l' = l /\ forall n p, ~ cas_ok s t n p) \/
       (exists l1 p n l2, l = l1 ++ p :: l2 /\ l' = l1 ++ p :: n :: l2 /\ cas_ok s t n p)).
  Proof.
    intros HI Hstep. pose proof HI as (HG & HL & HO). unfold mstep in Hstep.
    destruct (nth_error (m_thr s) t) as [th|] eqn:Hn; [|discriminate].
    pose proof (HL t th Hn) as HLt. destruct HLt as [Hwf HLt].
    destruct th as [p prog res]. cbn [t_pc t_prog t_res] in *.
    destruct p; destruct prog as [|o rest]; try discriminate; cbn [LocOp] in HLt; try contradiction.
    - (* PIdle, program finished *)
      inversion Hstep; subst s'. exists l. split; [|split; [apply incl_refl | left; split; [reflexivity | try (notcas Hn)]]]. apply (inv_same s t _ _ l HI Hn); [split; cbn; auto | cbn; auto].
    - (* PIdle: invocation *)
      destruct o as [k v st|k st].
      + (* put_if_absent: allocate the node *)
        inversion Hstep; subst s'. exists l. split; [|split; [apply incl_refl | left; split; [reflexivity | try (notcas Hn)]]].
        set (nd := mkN (sof k) k v None).
        assert (Hat : forall i, i < length (m_heap s) -> so_of ((m_heap s) ++ [nd]) i = so_of (m_heap s) i /\ key_of ((m_heap s) ++ [nd]) i = key_of (m_heap s) i /\ val_of ((m_heap s) ++ [nd]) i = val_of (m_heap s) i).
        { intros i Hi. unfold so_of, key_of, val_of. rewrite getn_app_old by exact Hi. auto. }
        assert (Hnx : forall i, i < length (m_heap s) -> next_of ((m_heap s) ++ [nd]) i = next_of (m_heap s) i).
        { intros i Hi. unfold next_of. rewrite getn_app_old by exact Hi. auto. }
        assert (Hlen : length (m_heap s) <= length ((m_heap s) ++ [nd])) by (rewrite app_length; cbn; lia).
        pose proof HG as (_ & _ & G3 & _).
        assert (Hfr : forall t2 th2, nth_error (m_thr s) t2 = Some th2 -> Loc ((m_heap s) ++ [nd]) l th2).
        { intros t2 th2 H2. apply (Loc_frame (m_heap s)).
          - exact G3.
          - exact Hlen.
          - exact Hat.
          - intros n prev cur E. apply Hnx.
            destruct (own_lt (m_heap s) l th2 n (HL t2 th2 H2)) as [A _]; [rewrite E; reflexivity | exact A].
          - apply (HL t2 th2 H2). }
        apply (inv_update s t _ _ ((m_heap s) ++ [nd]) l Hn HO).
        * apply (G_frame (m_heap s)); auto.
        * destruct (Hfr t _ Hn) as [Hwf' _]. split; [exact Hwf'|]. cbn.
          unfold so_of, key_of, val_of. rewrite getn_app_new, app_length. cbn. repeat split; auto; try lia.
          intro Hx. specialize (G3 _ Hx). lia.
        * intros t2 th2 _ H2. apply (Hfr t2 th2 H2).
        * intros t2 th2 n _ H2 Ho. cbn in Ho. inversion Ho; subst n. intro E.
          destruct (own_lt (m_heap s) l th2 _ (HL t2 th2 H2) E). lia.
      + inversion Hstep; subst s'. exists l. split; [|split; [apply incl_refl | left; split; [reflexivity | try (notcas Hn)]]]. apply (inv_same s t _ _ l HI Hn); [split; cbn; auto | cbn; auto].
    - (* PAtHash *)
      inversion Hstep; subst s'. exists l. split; [|split; [apply incl_refl | left; split; [reflexivity | try (notcas Hn)]]]. apply (inv_same s t _ _ l HI Hn); [split; cbn; auto | cbn; auto].
    - (* PFindStart *)
      inversion Hstep; subst s'. exists l. split; [|split; [apply incl_refl | left; split; [reflexivity | try (notcas Hn)]]]. apply (inv_same s t _ _ l HI Hn); [split; cbn; auto | cbn; auto].
      repeat split; auto. inversion Hwf as [|? ? Ho _]; subst. apply Ho.
    - (* PFindLoop *)
      destruct HLt as (Hnode & Hpassed & Hnone & Hcur).
      destruct cur as [c|].
      + inversion Hstep; subst s'. exists l. split; [|split; [apply incl_refl | left; split; [reflexivity | try (notcas Hn)]]]. apply (inv_same s t _ _ l HI Hn); [split; cbn; auto | cbn; auto].
        cbn in Hcur. repeat split; auto.
        * intros E. specialize (Hnone E). congruence.
        * apply G_next_in; auto.
      + (* end of the list: not found *)
        inversion Hstep; subst s'. unfold not_found. destruct node as [n|].
        * exists l. split; [|split; [apply incl_refl | left; split; [reflexivity | try (notcas Hn)]]]. apply (inv_not_found s t l _ o rest res n prev None HI Hn); auto; try (intros; discriminate).
          intro E. specialize (Hnone E). discriminate.
        * exists l. split; [|split; [apply incl_refl | left; split; [reflexivity | try (notcas Hn)]]]. apply (inv_same s t _ _ l HI Hn); [split; cbn; eauto using Forall_inv_tail | cbn; auto].
    - (* PFindCheck *)
      destruct HLt as (Hnode & Hpassed & Hc & Hnone & Hnext).
      assert (Hwfo : wf_op (m_heap s) l o) by (inversion Hwf; auto). pose proof Hwfo as (Hst & Hstlt & Hk).
      destruct (opt_eqb (deref (m_heap s) (op_start o) prev) (Some cur)) eqn:Ed.
      + apply opt_eqb_eq in Ed.
        destruct (passed_adj (m_heap s) l o prev cur HG Hwfo Hpassed Hnone Ed) as [Hadj _].
        destruct (N.leb_spec (sof (op_key o)) (so_of (m_heap s) cur)) as [Hle|Hlt].
        * destruct (N.eqb_spec (so_of (m_heap s) cur) (sof (op_key o))) as [Heq|Hne].
          -- destruct (N.eqb_spec (key_of (m_heap s) cur) 0) as [Hz|Hnz]; cbn [negb] in Hstep; inversion Hstep; subst s'; exists l; (split; [|split; [apply incl_refl | left; split; [reflexivity | try (notcas Hn)]]]);
               (apply (inv_same s t _ _ l HI Hn); [split; cbn; auto | cbn; auto]).
             ++ refine (conj Hnode (conj (conj Hc (conj _ (conj Hadj _))) (conj _ Hnext))); [lia | congruence | intros E; discriminate].
             ++ repeat split; auto.
          -- inversion Hstep; subst s'. unfold not_found. destruct node as [n|].
             ++ exists l. split; [|split; [apply incl_refl | left; split; [reflexivity | try (notcas Hn)]]]. apply (inv_not_found s t l _ o rest res n prev (Some cur) HI Hn); auto; try (intros; discriminate).
                ** intro E. specialize (Hnone E). subst. lia.
                ** split; auto. lia.
             ++ exists l. split; [|split; [apply incl_refl | left; split; [reflexivity | try (notcas Hn)]]]. apply (inv_same s t _ _ l HI Hn); [split; cbn; eauto using Forall_inv_tail | cbn; auto].
        * inversion Hstep; subst s'. exists l. split; [|split; [apply incl_refl | left; split; [reflexivity | try (notcas Hn)]]]. apply (inv_same s t _ _ l HI Hn); [split; cbn; auto | cbn; auto].
          repeat split; auto; try congruence; try lia.
          intro Ek. destruct HG as (_ & _ & _ & _ & G5 & _). rewrite (G5 cur Hc) in Hlt by congruence. rewrite Ek in Hlt. lia.
      + inversion Hstep; subst s'. exists l. split; [|split; [apply incl_refl | left; split; [reflexivity | try (notcas Hn)]]]. apply (inv_same s t _ _ l HI Hn); [split; cbn; auto | cbn; auto].
    - (* PAtEquals *)
      destruct HLt as (Hnode & Hc & Hso & Hkz & Hpre & Hnext).
      destruct (keq (key_of (m_heap s) cur) (op_key o)) eqn:Ek; inversion Hstep; subst s'; exists l; (split; [|split; [apply incl_refl | left; split; [reflexivity | try (notcas Hn)]]]);
        (apply (inv_same s t _ _ l HI Hn); [split; cbn; eauto using Forall_inv_tail | cbn; auto]).
      repeat split; auto; try congruence; try lia.
      intro E. apply keq_spec in E. congruence.
    - (* PAtCas *)
      destruct HLt as (Hnode & (p & ->) & Hpassed & Hnx & Hcur).
      destruct o as [k v st|]; cbn in Hnode; [|contradiction]. destruct Hnode as (Hlt & Hnl & Hs & Hkn & Hv).
      cbn [op_key] in *. destruct Hpassed as (Hp & Hpso & Hpf & Hpk).
      assert (Hk : k <> 0%N) by (inversion Hwf as [|? ? Ho _]; subst; apply Ho).
      destruct (opt_eqb (next_of (m_heap s) p) cur) eqn:Ec.
      + (* the CAS succeeds: the node is linked right after p *)
        apply opt_eqb_eq in Ec. inversion Hstep; subst s'. clear Hstep.
        pose proof HG as (G1 & G2 & G3 & G4 & G5 & G6).
        apply in_split in Hp. destruct Hp as (l1 & l2 & ->).
        assert (Hhd : hdo l2 = cur) by (rewrite <- Ec; symmetry; apply (islist_split _ _ _ _ _ G1)).
        assert (Hl2 : forall y, In y l2 -> (so_of (m_heap s) node < so_of (m_heap s) y)%N).
        { intros y Hy. rewrite Hs. destruct l2 as [|c l2']; [destruct Hy|]. cbn in Hhd. rewrite <- Hhd in Hcur. cbn in Hcur. destruct Hcur as [_ Hc].
          destruct Hy as [<-|Hy]; auto. apply ssorted_app in G4. destruct G4 as (_ & S2 & _).
          inversion S2 as [|? ? S3 _]; subst. inversion S3 as [|? ? _ F]; subst. rewrite Forall_forall in F. specialize (F y Hy). lia. }
        assert (Hpre1 : pre (l1 ++ p :: l2) p = l1) by (apply pre_app; exact (proj1 (nodup_mid l1 p _ G2))).
        rewrite Hpre1 in Hpf.
        assert (Hfresh : forall x, In x (l1 ++ p :: l2) -> key_of (m_heap s) x <> k).
        { intros x Hx. apply in_app_iff in Hx. destruct Hx as [Hx|[<-|Hx]]; auto.
          - rewrite Forall_forall in Hpf. apply Hpf. exact Hx.
          - intro E. specialize (Hl2 x Hx). rewrite Hs in Hl2. rewrite (G5 x) in Hl2; [rewrite E in Hl2; lia | apply in_app_iff; cbn; auto | congruence]. }
        exists (l1 ++ p :: node :: l2). split; [|split; [intros x Hx; rewrite in_app_iff in *; cbn in *; tauto | right; exists l1, p, node, l2; split; [reflexivity | split; [reflexivity | exists (mkT (PAtCas node (Some p) cur) (MPia k v st :: rest) res), cur; auto]]]].
        apply (inv_update s t _ _ _ _ Hn HO).
        * apply G_insert.
          -- exact HG.
          -- exact Hlt.
          -- exact Hnl.
          -- rewrite Hnx, Hhd. reflexivity.
          -- rewrite Hs. exact Hpso.
          -- exact Hl2.
          -- rewrite Hkn. exact Hk.
          -- rewrite Hkn. exact Hs.
          -- rewrite Hkn. exact Hfresh.
        * unfold finish. split; [|cbn; auto]. cbn [t_prog tl]. apply Forall_inv_tail in Hwf.
          rewrite Forall_forall in *. intros o Ho. destruct (Hwf o Ho) as (A & B & C).
          unfold wf_op. rewrite so_setnext. repeat split; auto. rewrite in_app_iff in *. cbn in *. tauto.
        * intros t2 th2 Hne H2. apply Loc_insert.
          -- exact G2.
          -- exact Hnl.
          -- exact Hl2.
          -- intros _. rewrite Hkn. exact Hs.
          -- apply (HO t t2 _ th2 node (fun E => Hne (eq_sym E)) Hn H2). reflexivity.
          -- apply (HL t2 th2 H2).
        * intros t2 th2 n _ _ Ho. cbn in Ho. discriminate.
      + inversion Hstep; subst s'. exists l. split; [|split; [apply incl_refl | left; split; [reflexivity | try (notcas Hn)]]]. apply (inv_same s t _ _ l HI Hn); [split; cbn; auto | cbn; auto].
    intros n' p' (th' & cur' & H' & Hpc & Hnx'). rewrite Hn in H'. inversion H'; subst th'. cbn in Hpc.
        inversion Hpc; subst. assert (Et : opt_eqb (next_of (m_heap s) p') (next_of (m_heap s) p') = true) by (apply opt_eqb_eq; reflexivity).
        congruence.
  Qed.

  Theorem inv_step s t s' : Inv s -> mstep sof keq s t = Some s' -> Inv s'.
  Proof. intros (l & HI) H. destruct (inv_step_l s t s' l HI H) as (l' & HI' & _). exists l'. exact HI'. Qed.

  Lemma mlist_inv s l : InvL s l -> mlist s = l.
  Proof.
    intros ((G1 & G2 & G3 & _) & _). unfold mlist. apply walk_islist; auto.
    rewrite <- (seq_length (length (m_heap s)) 0). apply NoDup_incl_length; auto.
    intros x Hx. apply in_seq. specialize (G3 x Hx). lia.
  Qed.

  (* every schedule *)
  Theorem inv_run sched : forall s, Inv s -> Inv (run sof keq s sched).
  Proof.
    induction sched as [|t r IH]; intros s H; cbn; auto.
    destruct (mstep sof keq s t) eqn:E; auto. apply IH. eapply inv_step; eauto.
  Qed.

  (* nothing is lost: a node that is in the list stays in the list, along every schedule *)
  Theorem reach_mono sched : forall s, Inv s -> incl (mlist s) (mlist (run sof keq s sched)).
  Proof.
    induction sched as [|t r IH]; intros s H; cbn; [apply incl_refl|].
    destruct (mstep sof keq s t) as [s'|] eqn:E; auto.
    destruct H as (l & HI). destruct (inv_step_l s t s' l HI E) as (l' & HI' & Hincl & _).
    rewrite (mlist_inv s l HI). eapply incl_tran; [exact Hincl|]. rewrite <- (mlist_inv s' l' HI'). apply IH. exists l'. exact HI'.
  Qed.

  (* ---------- what an operation returns ---------- *)
  Definition completes (s : mstate) (t : nat) (s' : mstate) (r : N) : Prop :=
    exists th th', nth_error (m_thr s) t = Some th /\ nth_error (m_thr s') t = Some th' /\ t_res th' = r :: t_res th.

  Lemma cons_neq {A} (x : A) l : x :: l <> l.
  Proof. intro E. assert (H : length (x :: l) = length l) by (rewrite E; reflexivity). cbn in H. lia. Qed.

  Ltac nores Hstep Hn H2 Hr :=
    inversion Hstep; subst; cbn in H2; rewrite (nth_upd_same _ _ _ _ Hn) in H2; inversion H2; subst; cbn in Hr;
    exfalso; exact (cons_neq _ _ (eq_sym Hr)).

  Theorem op_result s l t s' r : InvL s l -> mstep sof keq s t = Some s' -> completes s t s' r ->
    exists th o rest, nth_error (m_thr s) t = Some th /\ t_prog th = o :: rest /\
      ((* its CAS linked its node *)
       (exists k v st n l1 p l2, o = MPia k v st /\ r = v /\ l = l1 ++ p :: l2 /\ mlist s' = l1 ++ p :: n :: l2 /\
                                 ~ In n l /\ key_of (m_heap s') n = k /\ val_of (m_heap s') n = v) \/
       (* it found a node of the key, which is in the list *)
       (mlist s' = l /\ exists c, In c l /\ key_of (m_heap s) c = op_key o /\ r = val_of (m_heap s) c) \/
       (* get: the key is absent from the list at this very step *)
       (mlist s' = l /\ (exists k st, o = MGet k st) /\ r = 0%N /\ forall x, In x l -> key_of (m_heap s) x <> op_key o) \/
       (* get: the search ran off the end of the list (its last read of a next pointer was NULL) *)
       (mlist s' = l /\ (exists k st, o = MGet k st) /\ r = 0%N /\
        exists p, t_pc th = PFindLoop None (Some p) None /\ In p l /\
                  Forall (nokey (m_heap s) (op_key o)) (pre l p) /\ key_of (m_heap s) p <> op_key o)).
  Proof.
    intros HI Hstep (th0 & th' & H1 & H2 & Hr). pose proof HI as (HG & HL & HO).
    pose proof (mlist_inv s l HI) as Hml.
    pose proof Hstep as Hstep0. unfold mstep in Hstep.
    destruct (nth_error (m_thr s) t) as [th|] eqn:Hn; [|discriminate]. inversion H1; subst th0. clear H1.
    pose proof (HL t th Hn) as [Hwf HLt].
    destruct th as [p prog res]. cbn [t_pc t_prog t_res] in *.
    destruct p; destruct prog as [|o rest]; try discriminate; cbn [LocOp] in HLt; try contradiction.
    - nores Hstep Hn H2 Hr.
    - destruct o; nores Hstep Hn H2 Hr.
    - nores Hstep Hn H2 Hr.
    - nores Hstep Hn H2 Hr.
    - (* PFindLoop *)
      destruct HLt as (Hnode & Hpassed & Hnone & Hcur). destruct cur as [c|]; [nores Hstep Hn H2 Hr|].
      unfold not_found in Hstep. destruct node as [n|]; [nores Hstep Hn H2 Hr|].
      inversion Hstep; subst s'. cbn in H2. rewrite (nth_upd_same _ _ _ _ Hn) in H2. inversion H2; subst th'. cbn in Hr.
      inversion Hr; subst r. eexists _, o, rest. split; [reflexivity | split; [reflexivity|]]. right; right; right.
      destruct o as [|k st]; cbn in Hnode; [contradiction|]. split; [exact Hml | split; [eauto | split; [reflexivity|]]].
      destruct prev as [p|]; [|specialize (Hnone eq_refl); discriminate].
      cbn in Hpassed. destruct Hpassed as (A & B & C & D). exists p. cbn. auto.
    - (* PFindCheck *)
      destruct HLt as (Hnode & Hpassed & Hc & Hnone & Hnext).
      assert (Hwfo : wf_op (m_heap s) l o) by (inversion Hwf; auto). pose proof Hwfo as (Hst & Hstlt & Hk).
      destruct (opt_eqb (deref (m_heap s) (op_start o) prev) (Some cur)) eqn:Ed; [|nores Hstep Hn H2 Hr].
      apply opt_eqb_eq in Ed.
      destruct (passed_adj (m_heap s) l o prev cur HG Hwfo Hpassed Hnone Ed) as [Hadj _].
      destruct (N.leb_spec (sof (op_key o)) (so_of (m_heap s) cur)) as [Hle|Hlt]; [|nores Hstep Hn H2 Hr].
      destruct (N.eqb_spec (so_of (m_heap s) cur) (sof (op_key o))) as [Heq|Hne].
      { destruct (N.eqb_spec (key_of (m_heap s) cur) 0); cbn [negb] in Hstep; nores Hstep Hn H2 Hr. }
      unfold not_found in Hstep. destruct node as [n|]; [nores Hstep Hn H2 Hr|].
      inversion Hstep; subst s'. cbn in H2. rewrite (nth_upd_same _ _ _ _ Hn) in H2. inversion H2; subst th'. cbn in Hr.
      inversion Hr; subst r. eexists _, o, rest. split; [reflexivity | split; [reflexivity|]]. right; right; left.
      destruct o as [|k st]; cbn in Hnode; [contradiction|]. split; [exact Hml | split; [eauto | split; [reflexivity|]]].
      (* before cur: passed; from cur on: larger so_keys *)
      cbn [op_key] in *. intros x Hx Ek.
      destruct (pre_split l cur Hc) as (suf & El).
      rewrite El in Hx. apply in_app_iff in Hx. destruct Hx as [Hx|Hx].
      + rewrite Forall_forall in Hadj. apply (Hadj x Hx). exact Ek.
      + pose proof HG as (_ & _ & _ & G4 & G5 & _).
        assert (Hxl : In x l) by (rewrite El; apply in_app_iff; auto).
        assert (Hge : (so_of (m_heap s) cur <= so_of (m_heap s) x)%N).
        { destruct Hx as [<-|Hx]; [lia|]. rewrite El in G4. apply ssorted_app in G4. destruct G4 as (_ & S2 & _).
          inversion S2 as [|? ? _ F]; subst. rewrite Forall_forall in F. apply F. exact Hx. }
        rewrite (G5 x Hxl) in Hge by congruence. rewrite Ek in Hge. lia.
    - (* PAtEquals *)
      destruct HLt as (Hnode & Hc & Hso & Hkz & Hpre & Hnext).
      destruct (keq (key_of (m_heap s) cur) (op_key o)) eqn:Ek; [|nores Hstep Hn H2 Hr].
      inversion Hstep; subst s'. cbn in H2. rewrite (nth_upd_same _ _ _ _ Hn) in H2. inversion H2; subst th'. cbn in Hr.
      inversion Hr; subst r. eexists _, o, rest. split; [reflexivity | split; [reflexivity|]]. right; left.
      split; [exact Hml|]. exists cur. apply keq_spec in Ek. auto.
    - (* PAtCas *)
      destruct HLt as (Hnode & (p & ->) & Hpassed & Hnx & Hcur).
      destruct (opt_eqb (next_of (m_heap s) p) cur) eqn:Ec; [|nores Hstep Hn H2 Hr].
      destruct o as [k v st|]; cbn in Hnode; [|contradiction]. destruct Hnode as (Hlt & Hnl & Hs & Hkn & Hv).
      destruct (inv_step_l s t s' l HI Hstep0) as (l' & HI' & _ & [[_ Hno]|(l1 & p' & n' & l2 & El & El' & (thx & curx & Hx1 & Hx2 & Hx3))]).
      + exfalso. apply (Hno node p). eexists _, cur. split; [exact Hn | split; [reflexivity|]]. apply opt_eqb_eq. exact Ec.
      + rewrite Hn in Hx1. inversion Hx1; subst thx. cbn in Hx2. inversion Hx2; subst n' p' curx.
        inversion Hstep; subst s'. cbn in H2. rewrite (nth_upd_same _ _ _ _ Hn) in H2. inversion H2; subst th'. cbn in Hr.
        inversion Hr; subst r. eexists _, _, rest. split; [reflexivity | split; [reflexivity|]]. left.
        exists k, v, st, node, l1, p, l2. split; [reflexivity | split; [reflexivity | split; [exact El | split]]].
        * rewrite <- El'. apply (mlist_inv _ _ HI').
        * cbn. rewrite key_setnext, val_setnext. auto.
  Qed.
End Inv.
