(* Programs without delete (put_if_absent / get / put), EVERY schedule, any number of tasks, either policy: no node is ever
   marked and no task ever reaches the helping CAS of qt_lf_list_find, the mark CAS or the unlink CAS -- the only places
   where a node that was linked goes back to the pool.  So the loss of an insert under a replacing put (finding 1) is due to
   qt_lf_force_list_insert alone; marks and recycling play no part in it. *)
From Coq Require Import List NArith Bool Arith Lia.
From QV Require Import Dict.Micro Dict.MicroFull.
Import ListNotations.

Definition nodel_op (o : fop) : Prop := match o with FDel _ _ => False | _ => True end.
Definition ctx_nodel (c : fctx) : Prop := match c with CGet | CPia _ | CPut _ => True | _ => False end.
Definition pc_nodel (p : fpc) : Prop :=
  match p with
  | QIdle | QDone => True
  | QAtHash c | QFindStart c | QFindLoop c _ _ | QAtEquals c _ _ _ _ _ | QAtInsCas c _ _ => ctx_nodel c
  | QFindCheck c _ _ _ mk _ _ _ => ctx_nodel c /\ mk = false
  | QAtHelpCas _ _ _ _ | QAtMarkCas _ _ _ _ | QAtUnlinkCas _ _ _ _ => False
  end.
Definition thr_nodel (th : fthread) : Prop := pc_nodel (ft_pc th) /\ Forall nodel_op (ft_prog th).
Definition unmarked (n : fnode) : Prop := fn_mark n = false.
Definition NoDel (s : fstate) : Prop := Forall unmarked (fs_heap s) /\ Forall thr_nodel (fs_thr s).

Lemma Forall_updn (P : fnode -> Prop) h i f : Forall P h -> (forall n, P n -> P (f n)) -> Forall P (updn h i f).
Proof.
  intros H Hf. revert i. induction H as [|n t Hn Ht IH]; intros i; cbn; [constructor|].
  destruct i; constructor; auto.
Qed.
Lemma Forall_upd_fthr (P : fthread -> Prop) l t th : Forall P l -> P th -> Forall P (upd_fthr l t th).
Proof.
  intros H Hth. revert t. induction H as [|x r Hx Hr IH]; intros t; cbn; [constructor|].
  destruct t; constructor; auto.
Qed.
Lemma unmarked_set_next h i x : Forall unmarked h -> Forall unmarked (set_next h i x false).
Proof. intros H. apply Forall_updn; auto. intros; reflexivity. Qed.
Lemma unmarked_set_kv h i k v : Forall unmarked h -> Forall unmarked (set_kv h i k v).
Proof. intros H. apply Forall_updn; auto. Qed.
Lemma unmarked_set_init h i so k v : Forall unmarked h -> Forall unmarked (set_init h i so k v).
Proof. intros H. apply Forall_updn; auto. intros; reflexivity. Qed.
Lemma unmarked_free h fr n : Forall unmarked h -> Forall unmarked (fst (do_free h fr n)).
Proof. intros H. unfold do_free. cbn [fst]. apply unmarked_set_kv. exact H. Qed.
Lemma unmarked_alloc h fr a : Forall unmarked h -> do_alloc h fr = Some a -> Forall unmarked (snd (fst a)).
Proof.
  intros H. unfold do_alloc. destruct (fr =? 0)%N.
  - intros E. inversion E; subst. cbn [fst snd]. apply Forall_app. split; auto. constructor; [reflexivity | constructor].
  - destruct (ptr_base <=? fr)%N; [|discriminate]. intros E. inversion E; subst. cbn [fst snd]. exact H.
Qed.
Lemma unmarked_fmark h i : Forall unmarked h -> fmark h i = false.
Proof.
  intros H. unfold fmark, fget. revert i. induction H as [|n t Hn Ht IH]; intros i; destruct i; cbn; auto.
Qed.

Section NoDel.
  Variable pol : policy.
  Variable sof : N -> N.
  Variable keq : N -> N -> bool.

  Ltac heap_tac :=
    first [ assumption
          | apply unmarked_free; assumption
          | eapply unmarked_alloc; eassumption
          | apply unmarked_set_next; heap_tac
          | apply unmarked_set_init; heap_tac ].
  Ltac fin :=
    match goal with
    | H : Some _ = Some _ |- _ => injection H as H; rewrite <- H; clear H
    end;
    unfold fgoto, fgoto_h, ffinish, upd_t; cbv beta iota zeta; split; cbn [fs_heap fs_thr];
    [ heap_tac
    | apply Forall_upd_fthr; [assumption|]; split; cbn [ft_pc ft_prog]; try (match goal with E : ft_prog _ = _ |- _ => rewrite E end); cbn [tl]; auto ].

  Lemma find_ret_nodel s t th c prev cur next fv s' :
    NoDel s -> thr_nodel th -> ft_prog th <> [] -> ctx_nodel c ->
    find_ret pol s t th c prev cur next fv = Some s' -> NoDel s'.
  Proof.
    intros [Hh Ht] [Hpc Hprog] Hne Hc H. unfold find_ret in H.
    assert (Htl : Forall nodel_op (tl (ft_prog th))) by (destruct (ft_prog th); cbn; [constructor | inversion Hprog; auto]).
    destruct c; cbn in Hc; try contradiction.
    - fin.
    - destruct (negb (fv =? 0)%N); fin.
    - fin.
  Qed.

  Lemma nodel_step s t s' : NoDel s -> fstep pol sof keq s t = Some s' -> NoDel s'.
  Proof.
    intros HN H. pose proof HN as [Hh Ht]. unfold fstep in H.
    destruct (nth_error (fs_thr s) t) as [th|] eqn:En; [|discriminate].
    assert (Hth : thr_nodel th) by (rewrite Forall_forall in Ht; apply Ht; eapply nth_error_In; eauto).
    pose proof Hth as [Hpc Hprog].
    assert (Htl : Forall nodel_op (tl (ft_prog th))) by (destruct (ft_prog th); cbn; [constructor | inversion Hprog; auto]).
    destruct (ft_pc th) eqn:Epc; destruct (ft_prog th) as [|o rest] eqn:Eprog; try discriminate; cbn in Hpc; try contradiction.
    - (* QIdle, [] *) fin.
    - (* QIdle, o *) assert (Ho : nodel_op o) by (inversion Hprog; auto).
      destruct o; cbn in Ho; try contradiction;
        try (destruct (do_alloc (fs_heap s) (fs_free s)) as [a|] eqn:Ea; [|discriminate]); fin.
    - (* QAtHash *) destruct c; cbn in Hpc; try contradiction; fin.
    - (* QFindStart *) fin.
    - (* QFindLoop *) destruct cur as [x|].
      + fin. split; auto. apply unmarked_fmark. assumption.
      + eapply (find_ret_nodel s t th c); eauto. rewrite Eprog. discriminate.
    - (* QFindCheck *) destruct Hpc as [Hc ->]. cbn [negb] in H.
      destruct (word_eqb _ _); [|fin].
      destruct (_ <=? _)%N; [|fin].
      destruct (_ =? _)%N.
      + destruct (negb _); fin.
      + eapply (find_ret_nodel s t th c); eauto. rewrite Eprog. discriminate.
    - (* QAtEquals *) destruct (keq okey (fop_key o)).
      + eapply (find_ret_nodel s t th c); eauto. rewrite Eprog. discriminate.
      + fin.
    - (* QAtInsCas *) destruct prev as [p|]; [|destruct c; discriminate].
      destruct c; cbn in Hpc; try contradiction; try discriminate.
      + destruct (word_eqb (fnext (fs_heap s) p, fmark (fs_heap s) p) (fnext (fs_heap s) node, fmark (fs_heap s) node));
          destruct (word_eqb (fnext (fs_heap s) p, fmark (fs_heap s) p) (cur, false)); fin.
      + destruct (word_eqb (fnext (fs_heap s) p, fmark (fs_heap s) p) (cur, false)); fin.
  Qed.

  Theorem nodel_run sched : forall s, NoDel s -> NoDel (frun pol sof keq s sched).
  Proof.
    induction sched as [|t r IH]; intros s H; cbn; auto.
    destruct (fstep pol sof keq s t) eqn:E; auto. apply IH. eapply nodel_step; eauto.
  Qed.

  Lemma nodel_init nodes progs :
    (forall p o, In p progs -> In o p -> nodel_op o) -> NoDel (finit nodes [] progs).
  Proof.
    intros Hp. split; cbn.
    - rewrite app_nil_r. generalize 0. induction nodes as [|[[so k] v] r IH]; intros i; cbn; constructor; auto. reflexivity.
    - apply Forall_forall. intros th Hth. apply in_map_iff in Hth. destruct Hth as (p & <- & Hin).
      split; cbn; auto. apply Forall_forall. intros o Ho. eapply Hp; eauto.
  Qed.

  (* the statement for a maintainer *)
  Theorem no_delete_never_marks nodes progs sched :
    (forall p o, In p progs -> In o p -> nodel_op o) ->
    let s := frun pol sof keq (finit nodes [] progs) sched in
    (forall i, fmark (fs_heap s) i = false) /\
    (forall t, match fpc_of s t with
               | QAtHelpCas _ _ _ _ | QAtMarkCas _ _ _ _ | QAtUnlinkCas _ _ _ _ => False
               | _ => True
               end).
  Proof.
    intros Hp. cbv zeta. pose proof (nodel_run sched _ (nodel_init nodes progs Hp)) as [Hh Ht]. split.
    - intros i. apply unmarked_fmark. exact Hh.
    - intros t. unfold fpc_of. destruct (nth_error _ t) as [th|] eqn:E; [|exact I].
      rewrite Forall_forall in Ht. destruct (Ht th (nth_error_In _ _ E)) as [Hpc _].
      destruct (ft_pc th); cbn in Hpc; auto.
  Qed.
End NoDel.
