(* The iterator (no writer active): one traversal returns every present key exactly once, with its value. *)
From Coq Require Import List Arith NArith Bool Lia ZifyBool ZifyNat ZifyN Sorted.
From QV Require Import Dict.Model Dict.ProofsBits Dict.Proofs.
Import ListNotations.
Local Open Scope N_scope.

Definition kv (e : entry) : N * N := (e_key e, e_val e).

Fixpoint first_reg (l : list entry) : option nat :=
  match l with
  | [] => None
  | e :: t => if e_key e =? 0 then option_map S (first_reg t) else Some O
  end.

Lemma first_reg_none l : first_reg l = None -> filter is_reg l = [].
Proof.
  induction l as [|e t IH]; cbn; [reflexivity|]. unfold is_reg at 1.
  destruct (e_key e =? 0); [|discriminate]. cbn. destruct (first_reg t); [discriminate|]. auto.
Qed.

Lemma first_reg_some l o : first_reg l = Some o ->
  exists pre e post, l = pre ++ e :: post /\ length pre = o /\ filter is_reg pre = [] /\ e_key e <> 0.
Proof.
  revert o. induction l as [|x t IH]; cbn; intros o H; [discriminate|].
  destruct (N.eqb_spec (e_key x) 0) as [E|E].
  - destruct (first_reg t) as [o'|]; [|discriminate]. inversion H; subst.
    destruct (IH o' eq_refl) as (pre & e & post & -> & Hl & Hf & Hk).
    exists (x :: pre), e, post. repeat split; cbn; auto. unfold is_reg at 1. rewrite E. cbn. exact Hf.
  - inversion H; subst. exists [], x, t. repeat split; auto.
Qed.

Lemma filter_len_le {A} (f : A -> bool) l : (length (filter f l) <= length l)%nat.
Proof. induction l as [|x t IH]; cbn; [lia|]. destruct (f x); cbn; lia. Qed.

Lemma nth_error_mid {A} (a : list A) e b : nth_error (a ++ e :: b) (length a) = Some e.
Proof. induction a; cbn; auto. Qed.

Lemma so_regular_nonzero lk : so_regularkey lk <> 0.
Proof.
  intro E. assert (H : N.testbit (so_regularkey lk) 0 = false) by (rewrite E; apply N.bits_0).
  unfold so_regularkey in H. rewrite rev64_bit in H. cbn [N.ltb N.compare] in H.
  change (63 - 0) with 63 in H. rewrite N.lor_spec, MSB_eq, N.pow2_bits_true, orb_true_r in H. discriminate.
Qed.

Section Iter.
  Variable hash : N -> N.
  Notation Inv := (Inv hash).

  Lemma it_next_from d : d_count d <> 0 -> forall f l0 e0 rest,
    d_list d = l0 ++ e0 :: rest -> (length rest < f)%nat ->
    it_next f d (mkI (Some (length l0)) false) =
    match first_reg rest with
    | Some o => (mkI (Some (length l0 + S o)%nat) false, Some (length l0 + S o)%nat)
    | None => (mkI None false, None)
    end.
  Proof.
    intros Hc. induction f as [|f IH]; intros l0 e0 rest El Hf; [lia|].
    cbn [it_next]. unfold next_element. destruct (N.eqb_spec (d_count d) 0); [contradiction|].
    cbn [it_new]. unfold step_crt. cbn [it_crt it_new]. rewrite El, app_length. cbn [length].
    destruct rest as [|e1 rest'].
    - cbn [length first_reg]. destruct (Nat.ltb_spec (S (length l0)) (length l0 + 1)); [lia | reflexivity].
    - cbn [length]. destruct (Nat.ltb_spec (S (length l0)) (length l0 + S (S (length rest')))); [|lia].
      assert (El' : l0 ++ e0 :: e1 :: rest' = (l0 ++ [e0]) ++ e1 :: rest') by (rewrite <- app_assoc; reflexivity).
      assert (Hlen : length (l0 ++ [e0]) = S (length l0)) by (rewrite app_length; cbn; lia).
      rewrite El' at 1. rewrite <- Hlen. rewrite nth_error_mid. cbn [first_reg].
      destruct (N.eqb_spec (e_key e1) 0) as [E|E].
      + rewrite (IH (l0 ++ [e0]) e1 rest'); [| rewrite El; exact El' | cbn in Hf; lia].
        destruct (first_reg rest') as [o|]; cbn [option_map]; [|reflexivity].
        rewrite Hlen. replace (S (length l0) + S o)%nat with (length l0 + S (S o))%nat by lia. reflexivity.
      + rewrite Hlen. replace (length l0 + 1)%nat with (S (length l0)) by lia. reflexivity.
  Qed.

  Lemma iterate_from_pos d : d_count d <> 0 -> forall fuel l0 e0 rest,
    d_list d = l0 ++ e0 :: rest -> (length (filter is_reg rest) < fuel)%nat ->
    iterate_from fuel d (mkI (Some (length l0)) false) = (map kv (filter is_reg rest), it_end).
  Proof.
    intros Hc. induction fuel as [|fuel IH]; intros l0 e0 rest El Hf; [lia|].
    cbn [iterate_from].
    rewrite (it_next_from d Hc _ l0 e0 rest El) by (rewrite El, app_length; cbn; lia).
    destruct (first_reg rest) as [o|] eqn:Efr.
    - destruct (first_reg_some _ _ Efr) as (pre & e & post & -> & Hl & Hpre & Hk).
      assert (El' : d_list d = (l0 ++ e0 :: pre) ++ e :: post) by (rewrite El, <- app_assoc; reflexivity).
      assert (Hlen : length (l0 ++ e0 :: pre) = (length l0 + S o)%nat) by (rewrite app_length; cbn; lia).
      rewrite <- Hlen. rewrite El' at 1. rewrite nth_error_mid.
      assert (Hfil : filter is_reg (pre ++ e :: post) = e :: filter is_reg post).
      { rewrite filter_app, Hpre. cbn. unfold is_reg at 1. destruct (N.eqb_spec (e_key e) 0); [contradiction | reflexivity]. }
      rewrite Hfil in *. cbn [length] in Hf.
      rewrite (IH (l0 ++ e0 :: pre) e post El') by lia. reflexivity.
    - rewrite (first_reg_none _ Efr). reflexivity.
  Qed.

  Lemma first_init_zero d : In 0 (d_B d) -> 0 < d_size d -> first_init d = Some 0.
  Proof.
    intros Hin Hs. unfold first_init. induction (d_B d) as [|b t IH]; [destruct Hin|]. cbn [fold_right].
    destruct Hin as [->|Hin].
    - destruct (N.ltb_spec 0 (d_size d)); [|lia].
      destruct (fold_right _ None t); [rewrite N.min_0_r|]; reflexivity.
    - rewrite (IH Hin). destruct (b <? d_size d); [rewrite N.min_0_l|]; reflexivity.
  Qed.

  (* the list starts with the zero dummy of bucket 0 *)
  Lemma list_head d : Inv d -> exists e0 rest, d_list d = e0 :: rest /\ e_so e0 = 0 /\ e_key e0 = 0.
  Proof.
    intros ((Hs & Hok & _) & _ & H0 & HB & _).
    destruct (HB 0 H0) as (e & He & Hso & _). change (so_dummykey 0) with 0 in Hso.
    destruct (d_list d) as [|e0 rest]; [destruct He|]. exists e0, rest.
    assert (Hso0 : e_so e0 = 0).
    { destruct He as [->|He]; [exact Hso|]. inversion Hs as [|? ? _ Hf]; subst. rewrite Forall_forall in Hf. specialize (Hf e He). lia. }
    split; [reflexivity | split; [exact Hso0|]].
    inversion Hok as [|? ? Ho _]; subst. destruct Ho as [[Hk _]|(_ & _ & Hreg)]; [exact Hk|].
    exfalso. rewrite Hso0 in Hreg. symmetry in Hreg. exact (so_regular_nonzero _ Hreg).
  Qed.

  Theorem iterate_complete d : Inv d -> fst (iterate d) = map kv (filter is_reg (d_list d)).
  Proof.
    intros Hinv. destruct (list_head d Hinv) as (e0 & rest & El & Hso0 & Hk0).
    pose proof Hinv as (_ & (kk & Hsz) & H0 & _ & Hcnt).
    unfold iterate. destruct (N.eq_dec (d_count d) 0) as [Hc|Hc].
    - (* count = 0: nothing is returned, and nothing is present *)
      assert (Hnil : filter is_reg (d_list d) = []).
      { unfold keys_of in Hcnt. rewrite map_length in Hcnt. destruct (filter is_reg (d_list d)); [reflexivity | cbn in Hcnt; lia]. }
      rewrite Hnil. cbn [iterate_from it_next]. unfold next_element. rewrite Hc. reflexivity.
    - assert (Hfirst : it_next (S (length (d_list d))) d it_create = it_next (S (length (d_list d))) d (mkI (Some O) false)).
      { pose proof (it_next_from d Hc) as Hn.
        assert (Hp : head_pos 0 (d_list d) = O) by (rewrite El; cbn [head_pos]; rewrite Hso0; reflexivity).
        assert (Hn0 : nth_error (d_list d) O = Some e0) by (rewrite El; reflexivity).
        assert (HR : it_next (S (length (d_list d))) d (mkI (Some O) false) = it_next (length (d_list d)) d (mkI (Some O) false)).
        { change (Some O) with (Some (@length entry [])).
          rewrite (Hn (S (length (d_list d))) [] e0 rest El) by (rewrite El; cbn; lia).
          rewrite (Hn (length (d_list d)) [] e0 rest El) by (rewrite El; cbn; lia). reflexivity. }
        rewrite HR. cbn [it_next]. unfold next_element. destruct (N.eqb_spec (d_count d) 0); [contradiction|].
        cbn [it_create it_new]. rewrite first_init_zero; [| exact H0 | rewrite Hsz; apply N.neq_0_lt_0, N.pow_nonzero; discriminate].
        change (so_dummykey 0) with 0. rewrite Hp, Hn0, Hk0. reflexivity. }
      assert (Hiter : iterate_from (S (length (d_list d))) d it_create = iterate_from (S (length (d_list d))) d (mkI (Some O) false)).
      { cbn [iterate_from]. rewrite Hfirst. reflexivity. }
      rewrite Hiter.
      change (mkI (Some O) false) with (mkI (Some (@length entry [])) false).
      rewrite (iterate_from_pos d Hc _ [] e0 rest El).
      + cbn [fst]. rewrite El. cbn [filter]. unfold is_reg at 2. rewrite Hk0. reflexivity.
      + rewrite El. cbn [length]. pose proof (filter_len_le is_reg rest). lia.
  Qed.

  Lemma alookup_unique k l e : NoDup (keys_of l) -> In e l -> e_key e = k -> k <> 0 -> alookup k l = e_val e.
  Proof.
    induction l as [|x t IH]; intros Hnd Hin Hk Hz; [destruct Hin|]. cbn.
    destruct (N.eqb_spec (e_key x) k) as [E|E].
    - destruct Hin as [->|Hin]; [reflexivity|]. exfalso.
      rewrite keys_of_cons in Hnd. unfold is_reg in Hnd. rewrite E in Hnd. destruct (N.eqb_spec k 0); [contradiction|]. cbn in Hnd.
      inversion Hnd as [|? ? Hni _]; subst. apply Hni. apply in_keys_of. exists e. auto.
    - destruct Hin as [->|Hin]; [contradiction|]. apply IH; auto.
      rewrite keys_of_cons in Hnd. destruct (is_reg x); [inversion Hnd; assumption | exact Hnd].
  Qed.

  Lemma alookup_some k l v : alookup k l = v -> v <> 0 -> exists e, In e l /\ e_key e = k /\ e_val e = v.
  Proof.
    induction l as [|x t IH]; cbn; intros H Hv; [congruence|].
    destruct (N.eqb_spec (e_key x) k) as [E|E].
    - exists x. auto.
    - destruct (IH H Hv) as (e & He & Hk & Hval). exists e. auto.
  Qed.

  (* every present key exactly once, with its current value; nothing else *)
  Theorem iterate_exact d : Inv d ->
    NoDup (map fst (fst (iterate d))) /\
    forall k v, k <> 0 -> (In (k, v) (fst (iterate d)) <-> (abs d k = v /\ v <> 0)).
  Proof.
    intros Hinv. rewrite (iterate_complete d Hinv). pose proof Hinv as ((_ & Hok & Hnd) & _). split.
    - rewrite map_map. exact Hnd.
    - intros k v Hk. rewrite in_map_iff. split.
      + intros (e & Hkv & Hin). apply filter_In in Hin. destruct Hin as [Hin _]. inversion Hkv; subst.
        split; [apply alookup_unique; auto|].
        rewrite Forall_forall in Hok. destruct (Hok e Hin) as [[? _]|(_ & ? & _)]; [contradiction | assumption].
      + intros [Ha Hv]. destruct (alookup_some _ _ _ Ha Hv) as (e & He & Hke & Hve).
        exists e. split; [unfold kv; congruence|]. apply filter_In. split; auto. unfold is_reg. rewrite Hke.
        destruct (N.eqb_spec k 0); [contradiction | reflexivity].
  Qed.
End Iter.
