From Coq Require Import List NArith.
From QV Require Import Dict.Micro Dict.MicroFull Dict.MicroFullHist.
Require Extraction.
Require Import ExtrOcamlBasic.
Extraction Language OCaml.
Extraction "../ocaml/gen/c16micro_model.ml" fstep frun frun_to_sp expand flist finit fget fdone hist_of amap_of linearizable_b pol_code pol_patch ptr_code ffree explore explore_sp.
