(* The witnesses of the three open findings of C16 as schedules of the full micro-step machine.  The programs and the grants
   are the corpus cases corpus/C16/microfull_w*.json, which ./check C16 replays on the real code on every run (directed
   schedule, every arrival compared with this machine); lib/verif/props/_c16_micro.py checks that the definitions below
   are the ones it replays.  Hash: constant (every key has the same so_key: one collision chain behind the dummy node of
   bucket 1, node 1); the numbers are the so_keys the real code computes. *)
From Coq Require Import List NArith Bool Arith.
From QV Require Import Dict.Micro Dict.MicroFull Dict.MicroFullHist Dict.MicroFullProofs.
Import ListNotations.
Local Open Scope N_scope.

Definition wit_so : N := 11529215046068469761.
Definition wit_sof (k : N) : N := wit_so.
Definition wit_d1 : N := 9223372036854775808.
Definition wit_nodes0 : list (N * N * N) := [(0, 0, 0); (wit_d1, 0, 0)].
Definition wit_nodes2 : list (N * N * N) := [(0, 0, 0); (wit_d1, 0, 0); (wit_so, 3, 53); (wit_so, 1, 51)].
Definition pol_nonatomic_norecycle : policy := mkPol false false.
Definition pol_atomic_recycle : policy := mkPol true true.

Definition wit_run (pol : policy) (nodes : list (N * N * N)) (progs : list (list fop)) (grants : list nat) : fstate :=
  let s0 := finit nodes [] progs in
  frun pol wit_sof N.eqb s0 (expand pol wit_sof N.eqb sp_fuel s0 grants).
Definition wit_bad (pol : policy) (nodes : list (N * N * N)) (progs : list (list fop)) (grants : list nat) : bool :=
  let s := wit_run pol nodes progs grants in
  fdone s && negb (linearizable_b (amap_of nodes) (hist_of s)).
Definition results (s : fstate) : list (list N) := map (fun th => rev (ft_res th)) (fs_thr s).

(* 1. replacing put: T0 put(2,102) || T1 put(2,107) || T2 put_if_absent(1,113); get(1).  T1 links its node; T0 finds it and
   parks before its replacing CAS; T2 walks past T1's node and links key 1 behind it; T0 swings the predecessor from T1's
   node to its own node, whose next is the stale successor: T1's node AND the node of key 1 are gone.  get(1) = NULL. *)
Definition wit_put_progs : list (list fop) := [[FPut 2 102 1]; [FPut 2 107 1]; [FPia 1 113 1; FGet 1 1]].
Definition wit_put_grants : list nat := [1; 1; 1; 0; 0; 0; 2; 2; 2; 2; 0; 2; 2]%nat.

(* 2. delete is get-then-remove: T0 delete(1) || T1 put_if_absent(1,110); get(1) on the empty dictionary.  T0's get returns NULL,
   T1 inserts, T0's remove unlinks T1's node and delete returns the NULL of its get.  No recycling is involved. *)
Definition wit_del_progs : list (list fop) := [[FDel 1 1]; [FPia 1 110 1; FGet 1 1]].
Definition wit_del_grants : list nat := [0; 0; 1; 1; 1; 0; 0; 0; 0; 1]%nat.

(* 3. immediate recycling: list 3 -> 1.  T1 put_if_absent(2,115) parks before its CAS on &node(1)->next.  T0 delete(1) = 51
   unlinks node(1) and returns it to the pool; T0 put_if_absent(3,120) = 53 gets node(1) from the pool as its private node,
   re-initialises it (next = NULL, unmarked), finds key 3 and frees it again.  T1's CAS succeeds on the free node: its
   insert is lost, get(2) = NULL.  With an atomic delete (second schedule) the same happens. *)
Definition wit_rec_progs : list (list fop) := [[FDel 1 1; FPia 3 120 1]; [FPia 2 115 1; FGet 2 1]].
Definition wit_rec_grants : list nat := [1; 1; 1; 1; 0; 0; 0; 0; 0; 0; 0; 0; 0; 0; 0; 1; 1; 1]%nat.
Definition wit_rec_atomic_grants : list nat := [1; 1; 1; 1; 0; 0; 0; 0; 0; 0; 0; 0; 1; 1; 1]%nat.

(* 1b. ONE replacing put against a put_if_absent of ANOTHER key: list 2.  T0 put(2,102) finds node(2) and parks before its CAS
   (its node's next = the successor of node(2) = NULL); T1 put_if_absent(1,113) links key 1 behind node(2); T0 swings the
   predecessor to its own node: node(2) and the node of key 1 are gone.  get(1) = NULL. *)
Definition wit_nodes3 : list (N * N * N) := [(0, 0, 0); (wit_d1, 0, 0); (wit_so, 2, 52)].
Definition wit_put_other_progs : list (list fop) := [[FPut 2 102 1]; [FPia 1 113 1; FGet 1 1]].
Definition wit_put_other_grants : list nat := [0; 0; 0; 1; 1; 1; 1; 0; 1; 1]%nat.
Lemma wit_put_other_bad : wit_bad pol_code wit_nodes3 wit_put_other_progs wit_put_other_grants = true.
Proof. vm_compute. reflexivity. Qed.
Lemma wit_put_other_results : results (wit_run pol_code wit_nodes3 wit_put_other_progs wit_put_other_grants) = [[102]; [113; 0]].
Proof. vm_compute. reflexivity. Qed.

Lemma wit_put_bad : wit_bad pol_code wit_nodes0 wit_put_progs wit_put_grants = true.
Proof. vm_compute. reflexivity. Qed.
Lemma wit_put_results : results (wit_run pol_code wit_nodes0 wit_put_progs wit_put_grants) = [[102]; [107]; [113; 0]].
Proof. vm_compute. reflexivity. Qed.

Lemma wit_del_bad : wit_bad pol_code wit_nodes0 wit_del_progs wit_del_grants = true.
Proof. vm_compute. reflexivity. Qed.
Lemma wit_del_bad_norecycle : wit_bad pol_nonatomic_norecycle wit_nodes0 wit_del_progs wit_del_grants = true.
Proof. vm_compute. reflexivity. Qed.
Lemma wit_del_results : results (wit_run pol_code wit_nodes0 wit_del_progs wit_del_grants) = [[0]; [110; 0]].
Proof. vm_compute. reflexivity. Qed.

Lemma wit_rec_bad : wit_bad pol_code wit_nodes2 wit_rec_progs wit_rec_grants = true.
Proof. vm_compute. reflexivity. Qed.
Lemma wit_rec_bad_atomic : wit_bad pol_atomic_recycle wit_nodes2 wit_rec_progs wit_rec_atomic_grants = true.
Proof. vm_compute. reflexivity. Qed.
Lemma wit_rec_results : results (wit_run pol_code wit_nodes2 wit_rec_progs wit_rec_grants) = [[51; 53]; [115; 0]].
Proof. vm_compute. reflexivity. Qed.
Lemma wit_rec_atomic_results : results (wit_run pol_atomic_recycle wit_nodes2 wit_rec_progs wit_rec_atomic_grants) = [[51; 53]; [115; 0]].
Proof. vm_compute. reflexivity. Qed.
(* the lost node hangs off the free node *)
Lemma wit_rec_final :
  let s := wit_run pol_code wit_nodes2 wit_rec_progs wit_rec_grants in
  flist s = [0; 1; 2]%nat /\ ffree s = [Some 3]%nat /\ fnext (fs_heap s) 3 = Some 4%nat /\ fkey (fs_heap s) 4 = 2.
Proof. vm_compute. repeat split; reflexivity. Qed.

(* from a computed witness to the statement of the refutation theorems *)
Lemma wit_refutes pol nodes progs grants :
  wit_bad pol nodes progs grants = true ->
  exists sched, let s := frun pol wit_sof N.eqb (finit nodes [] progs) sched in
                fdone s = true /\ ~ lin (amap_of nodes) (hist_of s).
Proof.
  unfold wit_bad, wit_run. intros H. apply andb_true_iff in H. destruct H as [Hd Hl].
  eexists. cbv zeta. split; [exact Hd|]. apply linb_false_not_lin. apply negb_true_iff. exact Hl.
Qed.
