(* Bounded-exhaustive results about the full micro-step machine: for finite families of configurations EVERY schedule is
   explored (by [explore] = single machine steps, or [explore_sp] = grants) and every complete history is linearizable.
   The families are finite, the quantification over schedules is not bounded (MicroFullProofs.explore_sound / explore_sp_sound). *)
From Coq Require Import List NArith Bool Arith.
From QV Require Import Dict.Micro Dict.MicroFull Dict.MicroFullHist Dict.MicroFullProofs Dict.MicroFullWitness.
Import ListNotations.
Local Open Scope N_scope.

Definition cfg : Type := (list (N * N * N) * list (list fop))%type.
Definition chk_lin (nodes : list (N * N * N)) (s : fstate) : bool := linearizable_b (amap_of nodes) (hist_of s).
Definition cfg_init (c : cfg) : fstate := finit (fst c) [] (snd c).
Definition cfg_ok_sp (pol : policy) (c : cfg) : bool := explore_sp pol wit_sof N.eqb (chk_lin (fst c)) 200 (cfg_init c).
Definition cfg_ok_steps (pol : policy) (c : cfg) : bool := explore pol wit_sof N.eqb (chk_lin (fst c)) 400 (cfg_init c).

Definition wit_nodes1 : list (N * N * N) := [(0, 0, 0); (wit_d1, 0, 0); (wit_so, 1, 51)].
Fixpoint tails {A : Type} (l : list A) : list (list A) := match l with [] => [] | _ :: r => l :: tails r end.
Definition follow (o : fop) : list fop := [o; FGet (fop_key o) 1].

(* ---- the delete class {put_if_absent, get, delete} under the policy of the proposed patch ---- *)
Definition del_ops : list fop := [FPia 1 101 1; FPia 2 102 1; FGet 1 1; FDel 1 1; FDel 3 1; FDel 2 1].
(* A: two tasks, each one operation followed by a get of the same key; list 3 -> 1 (one collision chain) *)
Definition famA : list cfg :=
  flat_map (fun o1 => map (fun o2 => (wit_nodes2, [follow o1; follow o2])) del_ops) del_ops.
(* B: three tasks, one operation each (as multisets: the tasks are interchangeable); list 1 *)
Definition tri_ops : list fop := [FPia 1 101 1; FDel 1 1; FGet 1 1].
Definition famB : list cfg :=
  flat_map (fun l1 => match l1 with [] => [] | o1 :: _ =>
    flat_map (fun l2 => match l2 with [] => [] | o2 :: _ =>
      map (fun o3 => (wit_nodes1, [[o1]; [o2]; [o3]])) l2 end) (tails l1) end) (tails tri_ops).
(* C: delete followed by an insert (the shape in which a node is unlinked and a node is allocated) against another task *)
Definition famC_of (l0 : list (list fop)) : list cfg :=
  flat_map (fun p0 => map (fun p1 => (wit_nodes2, [p0; p1]))
                          [[FPia 2 115 1; FGet 2 1]; [FPia 1 116 1; FGet 1 1]; [FDel 1 1; FGet 1 1]; [FDel 3 1; FPia 3 117 1]]) l0.
Definition famC1 : list cfg := famC_of [[FDel 1 1; FPia 1 106 1]; [FDel 1 1; FPia 3 120 1]].
Definition famC2 : list cfg := famC_of [[FDel 3 1; FPia 3 121 1]].
Definition famC : list cfg := famC1 ++ famC2.
(* the configurations of the witnesses 2 and 3 *)
Definition famW : list cfg := [(wit_nodes0, wit_del_progs); (wit_nodes2, wit_rec_progs)].
Definition patch_family_sp : list cfg := (famW ++ famA) ++ famC1 ++ famC2 ++ famB.

(* single machine steps: two tasks, one operation each, short lists *)
Definition patch_family_steps : list cfg :=
  [(wit_nodes0, [[FDel 1 1]; [FPia 1 110 1]]); (wit_nodes0, [[FPia 1 110 1]; [FPia 1 111 1]]);
   (wit_nodes0, [[FDel 1 1]; [FDel 1 1]]); (wit_nodes0, [[FPia 1 110 1]; [FGet 1 1]]);
   (wit_nodes1, [[FDel 1 1]; [FPia 1 110 1]]); (wit_nodes1, [[FDel 1 1]; [FGet 1 1]]); (wit_nodes1, [[FPia 1 110 1]; [FPia 1 111 1]])].

(* ---- the code as it is, without delete and without a replacing put: put_if_absent / get, and put on a key that is absent
   and that no other task puts ---- *)
Definition ins_ops : list fop := [FPia 1 101 1; FPia 2 102 1; FGet 2 1; FPut 4 104 1].
Definition famI1 : list cfg :=
  map (fun p => (wit_nodes1, p))
      [[[FPia 2 102 1]; [FPia 2 112 1]; [FGet 2 1]]; [[FPia 2 102 1]; [FPut 4 104 1]; [FGet 2 1]];
       [[FPut 4 104 1]; [FPia 1 101 1]; [FPia 2 102 1]]; [[FPia 2 102 1]; [FPia 2 112 1]; [FPut 4 104 1]]].
Definition famI2 : list cfg :=
  flat_map (fun o1 => map (fun o2 => (wit_nodes2, [follow o1; follow o2])) ins_ops) [FPia 1 101 1; FPut 4 104 1].
Definition famI : list cfg := famI1 ++ famI2.

