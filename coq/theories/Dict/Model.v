(* Executable model of src/ds/dictionary/dictionary_shavit.c (C16), sequential semantics,
   plus qt_hash64 of src/ds/dictionary/hash.c.

   Concrete layer.  The single underlying split-ordered list is a [list entry] in list order
   (the first element is the node B[0] points at); a bucket slot B[b] is either UNINITIALIZED or
   points at a dummy node, which the model locates as the first node whose so_key is
   so_dummykey(b).  NULL keys / NULL values are the number 0 (the code's `okey != NULL`
   test and its use of the found VALUE as the "found" flag are mirrored as they are).
   Marked pointers, CAS retries and node reclamation do not occur on one task and are not
   modelled (a CAS on one task always succeeds).  One unreachable branch is NOT faithful:
   when the node a bucket points at already has so_key >= the searched key the code would CAS
   the bucket slot itself; Refine.v shows that [find_from] never stops at the bucket's own
   node when so_dummykey(bucket) < searched key ([find_from_not_head], Properties: bucket_slot_never_cas),
   which [bucket_before_keys] / [parent_before_child] give for every call the code makes. *)
From Coq Require Import List NArith Bool.
Import ListNotations.
Local Open Scope N_scope.

(* ---------- bit reversal: REVERSE_BYTE / REVERSE macros ---------- *)
Definition mask64 (x : N) : N := N.land x (N.ones 64).
Definition mask32 (x : N) : N := N.land x (N.ones 32).

(* ((((uint32_t)x * 0x0802LU & 0x22110LU) | ((uint32_t)x * 0x8020LU & 0x88440LU)) * 0x10101LU >> 16) & 0xff
   (unsigned long arithmetic: 64 bit) *)
Definition reverse_byte (x : N) : N :=
  let x32 := mask32 x in
  N.land (N.shiftr (mask64 (N.lor (N.land (mask64 (x32 * 2050)) 139536)
                                  (N.land (mask64 (x32 * 32800)) 558144) * 65793)) 16) 255.

Definition byte_of (x : N) (j : N) : N := N.land (N.shiftr x (8 * j)) 255.

Definition rev64 (x : N) : N :=
  N.lor (N.shiftl (reverse_byte (byte_of x 0)) 56)
 (N.lor (N.shiftl (reverse_byte (byte_of x 1)) 48)
 (N.lor (N.shiftl (reverse_byte (byte_of x 2)) 40)
 (N.lor (N.shiftl (reverse_byte (byte_of x 3)) 32)
 (N.lor (N.shiftl (reverse_byte (byte_of x 4)) 24)
 (N.lor (N.shiftl (reverse_byte (byte_of x 5)) 16)
 (N.lor (N.shiftl (reverse_byte (byte_of x 6)) 8)
        (N.shiftl (reverse_byte (byte_of x 7)) 0))))))).

Definition MSB : N := 9223372036854775808.        (* 1 << 63 *)
Definition so_regularkey (k : N) : N := rev64 (N.lor k MSB).
Definition so_dummykey (b : N) : N := rev64 b.

(* GET_PARENT: clear the highest set bit *)
Definition smear (t : N) : N :=
  let t := N.lor t (N.shiftr t 1) in
  let t := N.lor t (N.shiftr t 2) in
  let t := N.lor t (N.shiftr t 4) in
  let t := N.lor t (N.shiftr t 8) in
  let t := N.lor t (N.shiftr t 16) in
  N.lor t (N.shiftr t 32).
Definition get_parent (b : N) : N := N.land b (N.shiftr (smear b) 1).

Definition MAX_LOAD : N := 4.

(* ---------- state ---------- *)
Record entry := mkE { e_so : N; e_key : N; e_val : N }.
Record dict := mkD {
  d_list  : list entry;   (* the list, from the node B[0] points at *)
  d_B     : list N;       (* initialised buckets *)
  d_size  : N;
  d_count : N;
  d_cap   : N }.          (* hard_max_buckets *)

Definition set_list (d : dict) (l : list entry) : dict := mkD l (d_B d) (d_size d) (d_count d) (d_cap d).
Definition set_B (d : dict) (b : N) : dict := mkD (d_list d) (b :: d_B d) (d_size d) (d_count d) (d_cap d).
Definition set_size (d : dict) (s : N) : dict := mkD (d_list d) (d_B d) s (d_count d) (d_cap d).
Definition set_count (d : dict) (c : N) : dict := mkD (d_list d) (d_B d) (d_size d) c (d_cap d).

Definition is_init (d : dict) (b : N) : bool := existsb (N.eqb b) (d_B d).

Definition insert_at (pos : nat) (e : entry) (l : list entry) : list entry := firstn pos l ++ e :: skipn pos l.
Definition replace_at (pos : nat) (e : entry) (l : list entry) : list entry := firstn pos l ++ e :: skipn (S pos) l.
Definition remove_at (pos : nat) (l : list entry) : list entry := firstn pos l ++ skipn (S pos) l.

(* qt_hash_create: size 2, count 0, B[0] -> zeroed dummy *)
Definition create (cap : N) : dict := mkD [mkE 0 0 0] [0] 2 0 cap.

Section Ops.
  Variable hash : N -> N.          (* (uint64_t)(uintptr_t)op_hash(key): the int result sign-extended *)
  Variable keq : N -> N -> bool.   (* op_equals *)

  (* HASH_KEY: key &= ~MSB *)
  Definition lkey_of (k : N) : N := N.land (hash k) (N.ones 63).

  (* qt_lf_list_find on an unmarked list: walk from the given node.
     Result: (returned value (0 = NULL), offset of `cur` from the start node).  `cur` is the found node, or the first node
     with a larger so_key (after the whole collision chain of equal so_keys), or the end of the list. *)
  Fixpoint lfind (hk key : N) (l : list entry) : N * nat :=
    match l with
    | [] => (0, O)
    | e :: t =>
      if hk <=? e_so e then
        if e_so e =? hk then
          if negb (e_key e =? 0) && keq (e_key e) key then (e_val e, O)
          else let '(v, n) := lfind hk key t in (v, S n)
        else (0, O)
      else let '(v, n) := lfind hk key t in (v, S n)
    end.

  (* position of the node B[b] points at *)
  Fixpoint head_pos (s : N) (l : list entry) : nat :=
    match l with
    | [] => O
    | e :: t => if e_so e =? s then O else S (head_pos s t)
    end.

  Definition find_from (d : dict) (b hk key : N) : N * nat :=
    let p := head_pos (so_dummykey b) (d_list d) in
    let '(v, off) := lfind hk key (skipn p (d_list d)) in (v, (p + off)%nat).

  (* initialize_bucket (recursion through GET_PARENT; 64 levels suffice) *)
  Fixpoint init_bucket (fuel : nat) (d : dict) (b : N) : dict :=
    match fuel with
    | O => d
    | S f =>
      let parent := get_parent b in
      let d1 := if is_init d parent then d else init_bucket f d parent in
      let '(v, pos) := find_from d1 parent (so_dummykey b) 0 in
      if v =? 0
      then set_B (set_list d1 (insert_at pos (mkE (so_dummykey b) 0 0) (d_list d1))) b
      else d1                                      (* the code would spin; unreachable *)
    end.

  (* common prefix of put/get/remove: hash, bucket, lazy bucket initialisation *)
  Definition prep (d : dict) (k : N) : dict * N * N :=
    let lk := lkey_of k in
    let b := lk mod d_size d in
    let d1 := if is_init d b then d else init_bucket 64 d b in
    (d1, b, so_regularkey lk).

  (* count++ (the OLD count decides), table doubles up to the cap *)
  Definition bump (d : dict) : dict :=
    let c := d_count d in
    let s := d_size d in
    let d1 := set_count d (c + 1) in
    if (MAX_LOAD <? c / s) && (2 * s <=? d_cap d) then set_size d1 (2 * s) else d1.

  Definition put (d : dict) (k v : N) : dict * N :=
    let '(d1, b, hk) := prep d k in
    let '(fv, pos) := find_from d1 b hk k in
    let node := mkE hk k v in
    let l := if fv =? 0 then insert_at pos node (d_list d1) else replace_at pos node (d_list d1) in
    (bump (set_list d1 l), v).

  Definition put_if_absent (d : dict) (k v : N) : dict * N :=
    let '(d1, b, hk) := prep d k in
    let '(fv, pos) := find_from d1 b hk k in
    if fv =? 0
    then (bump (set_list d1 (insert_at pos (mkE hk k v) (d_list d1))), v)
    else (d1, fv).

  Definition get (d : dict) (k : N) : dict * N :=
    let '(d1, b, hk) := prep d k in
    (d1, fst (find_from d1 b hk k)).

  Definition remove (d : dict) (k : N) : dict * bool :=
    let '(d1, b, hk) := prep d k in
    let '(fv, pos) := find_from d1 b hk k in
    if fv =? 0 then (d1, false)
    else (set_count (set_list d1 (remove_at pos (d_list d1))) (d_count d1 - 1), true).

  (* qt_dictionary_delete: get, then remove *)
  Definition delete (d : dict) (k : N) : dict * N :=
    let '(d1, v) := get d k in
    let '(d2, r) := remove d1 k in
    (d2, if r then v else 0).

  (* ---------- iterator ---------- *)
  Record iter := mkI { it_crt : option nat; it_new : bool (* bkt == -1 *) }.
  Definition it_create : iter := mkI None true.
  Definition it_end : iter := mkI None false.

  (* the first initialised bucket below size *)
  Definition first_init (d : dict) : option N :=
    fold_right (fun b acc => if b <? d_size d
                             then match acc with Some a => Some (N.min a b) | None => Some b end
                             else acc) None (d_B d).

  Definition step_crt (d : dict) (it : iter) : iter * option nat :=
    match it_crt it with
    | None => (it, None)
    | Some p =>
      let n := if Nat.ltb (S p) (length (d_list d)) then Some (S p) else None in
      (mkI n (it_new it), n)
    end.

  Definition next_element (d : dict) (it : iter) : iter * option nat :=
    if d_count d =? 0 then (mkI (it_crt it) false, None)
    else if it_new it then
      match first_init d with
      | Some b => let p := head_pos (so_dummykey b) (d_list d) in (mkI (Some p) false, Some p)
      | None => step_crt d it
      end
    else step_crt d it.

  (* qt_dictionary_iterator_next: skip nodes whose key is NULL *)
  Fixpoint it_next (fuel : nat) (d : dict) (it : iter) : iter * option nat :=
    match fuel with
    | O => (it, None)
    | S f =>
      let '(it1, r) := next_element d it in
      match r with
      | None => (it1, None)
      | Some p => match nth_error (d_list d) p with
                  | Some e => if e_key e =? 0 then it_next f d it1 else (it1, Some p)
                  | None => (it1, None)
                  end
      end
    end.

  Definition it_get (d : dict) (it : iter) : option nat :=
    if d_count d =? 0 then None else it_crt it.

  Definition it_equals (a b : iter) : bool :=
    Bool.eqb (it_new a) (it_new b) &&
    match it_crt a, it_crt b with
    | None, None => true
    | Some x, Some y => Nat.eqb x y
    | _, _ => false
    end.

  (* a whole traversal: (key, value) of every element it_next returns, in order; the final iterator *)
  Fixpoint iterate_from (fuel : nat) (d : dict) (it : iter) : list (N * N) * iter :=
    match fuel with
    | O => ([], it)
    | S f =>
      let '(it1, r) := it_next (S (length (d_list d))) d it in
      match r with
      | None => ([], it1)
      | Some p => match nth_error (d_list d) p with
                  | Some e => let '(l, it2) := iterate_from f d it1 in ((e_key e, e_val e) :: l, it2)
                  | None => ([], it1)
                  end
      end
    end.
  Definition iterate (d : dict) : list (N * N) * iter :=
    iterate_from (S (length (d_list d))) d it_create.
End Ops.

(* ---------- qt_hash64 (hash.c), 64-bit branch ---------- *)
Definition sub64 (a b : N) : N := (a + 18446744073709551616 - b) mod 18446744073709551616.
Definition shl64 (a k : N) : N := mask64 (N.shiftl a k).
(* `k.b[3] << 24` is an int: the result is sign-extended when added to the uint64_t *)
Definition sext32 (x : N) : N :=
  let x := mask32 x in if N.testbit x 31 then N.lor x 18446744069414584320 else x.

Definition mix_round (abc : N * N * N) (s1 s2 s3 : N) : N * N * N :=
  let '(a, b, c) := abc in
  let a := N.lxor (sub64 (sub64 a b) c) (N.shiftr c s1) in
  let b := N.lxor (sub64 (sub64 b c) a) (shl64 a s2) in
  let c := N.lxor (sub64 (sub64 c a) b) (N.shiftr b s3) in
  (a, b, c).

Definition hash64 (key : N) : N :=
  let g := 11400714819323198483 in                       (* 0x9e3779b97f4a7c13 *)
  let c := mask64 (16045690984503098046 + 8) in          (* 0xdeadbeefcafebabe + sizeof(uint64_t) *)
  let a := g in
  let a := mask64 (a + N.shiftl (byte_of key 7) 56) in
  let a := mask64 (a + N.shiftl (byte_of key 6) 48) in
  let a := mask64 (a + N.shiftl (byte_of key 5) 40) in
  let a := mask64 (a + N.shiftl (byte_of key 4) 32) in
  let a := mask64 (a + sext32 (N.shiftl (byte_of key 3) 24)) in
  let a := mask64 (a + N.shiftl (byte_of key 2) 16) in
  let a := mask64 (a + N.shiftl (byte_of key 1) 8) in
  let a := mask64 (a + byte_of key 0) in
  let s := mix_round (a, g, c) 43 9 8 in
  let s := mix_round s 38 23 5 in
  let s := mix_round s 35 49 11 in
  let '(_, _, c) := mix_round s 12 18 22 in
  c.
