(* Every operation sequence, every hash function: the dictionary model returns what the map
   specification returns; the invariant holds in every reachable state; refuted variants for
   NULL keys / NULL values. *)
From Coq Require Import List NArith Bool Lia ZifyBool ZifyNat ZifyN Sorted.
From QV Require Import Dict.Model Dict.ProofsBits Dict.Proofs.
Import ListNotations.
Local Open Scope N_scope.

Inductive op := OPut (k v : N) | OPia (k v : N) | OGet (k : N) | ODel (k : N).

(* the map specification (0 = absent / NULL) *)
Definition spec_op (m : N -> N) (o : op) : (N -> N) * N :=
  match o with
  | OPut k v => (upd m k v, v)
  | OPia k v => if m k =? 0 then (upd m k v, v) else (m, m k)
  | OGet k => (m, m k)
  | ODel k => (upd m k 0, m k)
  end.

Fixpoint spec_ops (m : N -> N) (os : list op) : list N :=
  match os with
  | [] => []
  | o :: t => let '(m', r) := spec_op m o in r :: spec_ops m' t
  end.

Fixpoint spec_final (m : N -> N) (os : list op) : N -> N :=
  match os with
  | [] => m
  | o :: t => spec_final (fst (spec_op m o)) t
  end.

(* preconditions: keys non-NULL, values non-NULL *)
Definition op_ok (o : op) : Prop :=
  match o with
  | OPut k v | OPia k v => k <> 0 /\ v <> 0
  | OGet k | ODel k => k <> 0
  end.

Section Seq.
  Variable hash : N -> N.
  Variable keq : N -> N -> bool.
  Hypothesis keq_spec : forall a b, keq a b = true <-> a = b.

  Definition run_op (d : dict) (o : op) : dict * N :=
    match o with
    | OPut k v => put hash keq d k v
    | OPia k v => put_if_absent hash keq d k v
    | OGet k => get hash keq d k
    | ODel k => delete hash keq d k
    end.

  Fixpoint run_ops (d : dict) (os : list op) : list N :=
    match os with
    | [] => []
    | o :: t => let '(d', r) := run_op d o in r :: run_ops d' t
    end.

  Fixpoint final_state (d : dict) (os : list op) : dict :=
    match os with
    | [] => d
    | o :: t => final_state (fst (run_op d o)) t
    end.

  Notation Inv := (Inv hash).

  Lemma delete_ok d k : Inv d -> k <> 0 ->
    let r := delete hash keq d k in
    Inv (fst r) /\ snd r = abs d k /\ (forall k', k' <> 0 -> abs (fst r) k' = upd (abs d) k 0 k').
  Proof.
    intros Hinv Hk. cbv zeta. unfold delete.
    destruct (get_ok hash keq keq_spec d k Hinv Hk) as (Hinv1 & Hv & Hf).
    destruct (get hash keq d k) as [d1 v]. cbn [fst snd] in *.
    destruct (remove_ok hash keq keq_spec d1 k Hinv1 Hk) as (Hinv2 & Hr & Habs2).
    destruct (remove hash keq d1 k) as [d2 r]. cbn [fst snd] in *.
    destruct Hf as (_ & _ & _ & Habs1 & _).
    split; [exact Hinv2 | split].
    - rewrite Hr, Habs1 by exact Hk. subst v. destruct (N.eqb_spec (abs d k) 0) as [E|E]; cbn; congruence.
    - intros k' Hk'. rewrite Habs2 by exact Hk'. unfold upd. destruct (k' =? k); auto.
  Qed.

  Definition R (d : dict) (m : N -> N) : Prop := Inv d /\ forall k, k <> 0 -> abs d k = m k.

  Lemma step_refines d m o : R d m -> op_ok o ->
    R (fst (run_op d o)) (fst (spec_op m o)) /\ snd (run_op d o) = snd (spec_op m o).
  Proof.
    intros [Hinv Hm] Hok. destruct o as [k v|k v|k|k]; cbn [run_op spec_op op_ok] in *.
    - destruct Hok as [Hk Hv]. destruct (put_ok hash keq keq_spec d k v Hinv Hk Hv) as (Hi & Hr & Ha).
      split; [split; [exact Hi|] | exact Hr].
      intros k' Hk'. rewrite Ha by exact Hk'. cbn [fst snd]. unfold upd. destruct (k' =? k); auto.
    - destruct Hok as [Hk Hv]. destruct (pia_ok hash keq keq_spec d k v Hinv Hk Hv) as (Hi & Hr & Ha).
      rewrite <- (Hm k Hk). destruct (abs d k =? 0) eqn:E.
      + split; [split; [exact Hi|] | exact Hr].
        intros k' Hk'. rewrite Ha by exact Hk'. cbn [fst snd]. unfold upd. destruct (k' =? k); auto.
      + split; [split; [exact Hi|] | exact Hr].
        intros k' Hk'. rewrite Ha by exact Hk'. cbn [fst snd]. auto.
    - destruct (get_ok hash keq keq_spec d k Hinv Hok) as (Hi & Hr & Hf).
      split; [split; [exact Hi|] | cbn [fst snd]; rewrite Hr; auto].
      intros k' Hk'. cbn [fst snd]. destruct Hf as (_ & _ & _ & Ha & _). rewrite Ha; auto.
    - destruct (delete_ok d k Hinv Hok) as (Hi & Hr & Ha).
      split; [split; [exact Hi|] | cbn [fst snd]; rewrite Hr; auto].
      intros k' Hk'. rewrite Ha by exact Hk'. cbn [fst snd]. unfold upd. destruct (k' =? k); auto.
  Qed.

  Lemma refines_from d m os : R d m -> Forall op_ok os ->
    run_ops d os = spec_ops m os /\ R (final_state d os) (spec_final m os).
  Proof.
    revert d m. induction os as [|o t IH]; intros d m HR Hok; cbn.
    - split; [reflexivity | apply HR].
    - inversion Hok as [|? ? Ho Ht]; subst.
      destruct (step_refines d m o HR Ho) as [HR' Hr].
      destruct (run_op d o) as [d' r]. destruct (spec_op m o) as [m' r']. cbn [fst snd] in *.
      destruct (IH d' m' HR' Ht) as [E Hi]. subst r'. rewrite E. split; [reflexivity | exact Hi].
  Qed.

  Lemma R_create cap : R (create cap) (fun _ => 0).
  Proof. unfold R. split; [apply (Inv_create hash keq keq_spec)|]. intros k Hk. unfold abs, create; cbn [d_list alookup e_key e_val]. destruct (0 =? k); reflexivity. Qed.

  (* the search that starts at a bucket's dummy node never stops AT that node: the code never CASes a bucket slot *)
  Lemma find_from_not_head d b hk key :
    (exists e, In e (d_list d) /\ e_so e = so_dummykey b) -> so_dummykey b < hk ->
    (head_pos (so_dummykey b) (d_list d) < snd (find_from keq d b hk key))%nat.
  Proof.
    intros Hex Hlt. unfold find_from.
    destruct (head_pos_split _ _ Hex) as (l1 & e & l2 & El & Hlen & Hso).
    cbv zeta. rewrite <- Hlen. rewrite El, skipn_app_len. cbn [lfind].
    destruct (N.leb_spec hk (e_so e)); [lia|].
    destruct (lfind keq hk key l2). cbn. lia.
  Qed.
End Seq.

From QV Require Import Dict.IterProofs.

Lemma parent_before_child_l b : b <> 0 -> b < 2 ^ 64 ->
  so_dummykey (get_parent b) < so_dummykey b /\ get_parent b < 2 ^ N.log2 b.
Proof. intros Hb Hlt. exact (conj (so_dummy_parent_lt b Hb Hlt) (get_parent_lt_pow b Hb)). Qed.

Section Top.
  Variable hash : N -> N.
  Variable keq : N -> N -> bool.
  Hypothesis keq_spec : forall a b, keq a b = true <-> a = b.

  Theorem refines_create cap os : Forall op_ok os ->
    run_ops hash keq (create cap) os = spec_ops (fun _ => 0) os.
  Proof. intros H. apply (refines_from hash keq keq_spec _ _ os (R_create hash keq keq_spec cap) H). Qed.

  Theorem reachable_inv cap os : Forall op_ok os -> Inv hash (final_state hash keq (create cap) os).
  Proof. intros H. apply (refines_from hash keq keq_spec _ _ os (R_create hash keq keq_spec cap) H). Qed.

  Theorem reachable_abs cap os : Forall op_ok os ->
    forall k, k <> 0 -> abs (final_state hash keq (create cap) os) k = spec_final (fun _ => 0) os k.
  Proof. intros H. apply (refines_from hash keq keq_spec _ _ os (R_create hash keq keq_spec cap) H). Qed.

  (* iteration after any operation sequence: the present keys of the SPECIFICATION's map, each exactly once *)
  Theorem iter_reachable cap os : Forall op_ok os ->
    let d := final_state hash keq (create cap) os in
    NoDup (map fst (fst (iterate d))) /\
    forall k v, k <> 0 -> (In (k, v) (fst (iterate d)) <-> (spec_final (fun _ => 0) os k = v /\ v <> 0)).
  Proof.
    intros H d. pose proof (reachable_inv cap os H) as Hinv. fold d in Hinv.
    destruct (iterate_exact hash d Hinv) as [Hnd Hin]. split; [exact Hnd|].
    intros k v Hk. rewrite (Hin k v Hk). unfold d. rewrite (reachable_abs cap os H k Hk). reflexivity.
  Qed.
End Top.

(* ---------- the preconditions are needed: refuted variants (identity hash) ---------- *)
Definition idh (k : N) : N := k.

(* a NULL value is indistinguishable from "absent": after put(1,NULL); put(1,5); delete(1) the key is still in the list *)
Definition null_value_trace := run_ops idh N.eqb (create 16) [OPut 1 0; OPut 1 5; ODel 1; OGet 1].
Definition null_value_final := final_state idh N.eqb (create 16) [OPut 1 0; OPut 1 5; ODel 1].

(* a NULL key can be put but never found *)
Definition null_key_trace := run_ops idh N.eqb (create 16) [OPut 0 5; OGet 0].

Lemma null_key_refuted : exists os, run_ops idh N.eqb (create 16) os <> spec_ops (fun _ => 0) os.
Proof. exists [OPut 0 5; OGet 0]. vm_compute. discriminate. Qed.

Definition op_key_ok (o : op) : Prop := match o with OPut k _ | OPia k _ | OGet k | ODel k => k <> 0 end.

(* keys non-NULL but a NULL value: put(1,NULL); put(1,5) leaves TWO nodes for key 1; iteration visits key 1 twice,
   and after delete(1) the key is still in the list (with a NULL value) *)
Lemma null_value_refuted : exists os, Forall op_key_ok os /\
  ~ NoDup (map fst (fst (iterate (final_state idh N.eqb (create 16) os)))).
Proof.
  exists [OPut 1 0; OPut 1 5]. split.
  - repeat constructor; discriminate.
  - vm_compute. intro H. inversion H as [|? ? Hni _]; subst. apply Hni. left. reflexivity.
Qed.

(* ---------- non-vacuity: a reachable non-trivial state (collisions, growth to 4 buckets, deletions) ---------- *)
Definition ex_hash (k : N) : N := k mod 3.
Definition ex_ops : list op :=
  [OPut 1 10; OPut 2 20; OPia 4 40; OPut 7 70; OPut 1 11; OPut 5 50; OPut 6 60; OPut 8 80; OPut 9 90; OPut 10 100;
   OPut 11 110; OPut 12 120; ODel 4; OPia 2 21; OGet 7; ODel 3].

Example ex_ops_ok : Forall op_ok ex_ops.
Proof. repeat constructor; discriminate. Qed.

Example ex_state_nontrivial :
  let d := final_state ex_hash N.eqb (create 16) ex_ops in
  d_size d = 4 /\ length (d_list d) = 13%nat /\ length (keys_of (d_list d)) = 10%nat /\
  run_ops ex_hash N.eqb (create 16) ex_ops = [10; 20; 40; 70; 11; 50; 60; 80; 90; 100; 110; 120; 40; 20; 70; 0].
Proof. vm_compute. repeat split. Qed.
