(* Micro-step machine for the INSERT-ONLY class of dictionary_shavit.c: N tasks doing
   put_if_absent / get on one split-ordered list whose buckets are already initialised.
   No delete and no replacing put: no pointer is ever marked, no node is ever unlinked or freed.

   Shared state: a heap of nodes (so_key, key, value immutable once allocated; `next` mutable).
   Thread-local: the registers of qt_lf_list_find (prev, cur, next), the private node of
   qt_hash_put, and a program counter.  One [mstep] = at most one access to shared memory:
     PFindStart  : prev = head; cur = *prev            (the bucket slot; constant here)
     PFindLoop   : cur == NULL ? return : next = cur->next
     PFindCheck  : *prev != cur ? start over : compare so_keys, decide
     PAtEquals   : (user equals callback) found / keep looking
     PAtCas      : CAS(prev, cur, node); on failure search again (qt_lf_list_insert's loop)
   [prev = None] stands for the bucket slot B[bucket] (whose content is the dummy node [start]);
   [prev = Some p] for &p->next.  count/size are not part of this machine (no growth in the runs
   it is compared with).  Schedule points of the real harness (hash callback, equals callback,
   before the CAS, end of task) are the pcs PAtHash, PAtEquals, PAtCas, PDone: [run_to_sp]. *)
From Coq Require Import List NArith Bool Arith.
Import ListNotations.

Record mnode := mkN { mn_so : N; mn_key : N; mn_val : N; mn_next : option nat }.

Inductive mop := MPia (k v : N) (start : nat) | MGet (k : N) (start : nat).
Definition op_key (o : mop) : N := match o with MPia k _ _ | MGet k _ => k end.
Definition op_start (o : mop) : nat := match o with MPia _ _ s | MGet _ s => s end.

Inductive pc :=
| PIdle
| PAtHash (node : option nat)
| PFindStart (node : option nat)
| PFindLoop (node : option nat) (prev cur : option nat)
| PFindCheck (node : option nat) (prev : option nat) (cur : nat) (next : option nat)
| PAtEquals (node : option nat) (prev : option nat) (cur : nat) (next : option nat)
| PAtCas (node : nat) (prev cur : option nat)
| PDone.

Record thread := mkT { t_pc : pc; t_prog : list mop; t_res : list N (* most recent first *) }.
Record mstate := mkM { m_heap : list mnode; m_thr : list thread }.

Definition getn (h : list mnode) (i : nat) : mnode := nth i h (mkN 0 0 0 None).
Definition so_of (h : list mnode) (i : nat) : N := mn_so (getn h i).
Definition key_of (h : list mnode) (i : nat) : N := mn_key (getn h i).
Definition val_of (h : list mnode) (i : nat) : N := mn_val (getn h i).
Definition next_of (h : list mnode) (i : nat) : option nat := mn_next (getn h i).

Fixpoint setnext (h : list mnode) (i : nat) (x : option nat) : list mnode :=
  match h with
  | [] => []
  | n :: t => match i with
              | O => mkN (mn_so n) (mn_key n) (mn_val n) x :: t
              | S j => n :: setnext t j x
              end
  end.

Fixpoint upd_thr (l : list thread) (t : nat) (th : thread) : list thread :=
  match l with
  | [] => []
  | x :: r => match t with O => th :: r | S j => x :: upd_thr r j th end
  end.

Definition opt_eqb (a b : option nat) : bool :=
  match a, b with
  | None, None => true
  | Some x, Some y => Nat.eqb x y
  | _, _ => false
  end.

Section Machine.
  Variable sof : N -> N.           (* so_regularkey(hash(key) & ~MSB) *)
  Variable keq : N -> N -> bool.   (* op_equals *)

  (* *prev *)
  Definition deref (h : list mnode) (start : nat) (prev : option nat) : option nat :=
    match prev with None => Some start | Some p => next_of h p end.

  (* the operation returns r *)
  Definition finish (th : thread) (r : N) : thread := mkT PIdle (tl (t_prog th)) (r :: t_res th).

  (* qt_lf_list_find returned NULL with (prev, cur): get returns NULL; put_if_absent sets node->next = cur and goes to its CAS *)
  Definition not_found (s : mstate) (t : nat) (th : thread) (node : option nat) (prev cur : option nat) : mstate :=
    match node with
    | None => mkM (m_heap s) (upd_thr (m_thr s) t (finish th 0%N))
    | Some n => mkM (setnext (m_heap s) n cur) (upd_thr (m_thr s) t (mkT (PAtCas n prev cur) (t_prog th) (t_res th)))
    end.

  Definition goto (s : mstate) (t : nat) (th : thread) (p : pc) : mstate :=
    mkM (m_heap s) (upd_thr (m_thr s) t (mkT p (t_prog th) (t_res th))).

  Definition mstep (s : mstate) (t : nat) : option mstate :=
    match nth_error (m_thr s) t with
    | None => None
    | Some th =>
      let h := m_heap s in
      match t_pc th, t_prog th with
      | PDone, _ => None
      | PIdle, [] => Some (goto s t th PDone)
      | PIdle, MPia k v _ :: _ =>
        Some (mkM (h ++ [mkN (sof k) k v None]) (upd_thr (m_thr s) t (mkT (PAtHash (Some (length h))) (t_prog th) (t_res th))))
      | PIdle, MGet _ _ :: _ => Some (goto s t th (PAtHash None))
      | _, [] => None
      | PAtHash node, _ :: _ => Some (goto s t th (PFindStart node))
      | PFindStart node, o :: _ => Some (goto s t th (PFindLoop node None (Some (op_start o))))
      | PFindLoop node prev cur, o :: _ =>
        match cur with
        | None => Some (not_found s t th node prev None)
        | Some c => Some (goto s t th (PFindCheck node prev c (next_of h c)))
        end
      | PFindCheck node prev c next, o :: _ =>
        let hk := sof (op_key o) in
        if opt_eqb (deref h (op_start o) prev) (Some c) then
          if (hk <=? so_of h c)%N then
            if (so_of h c =? hk)%N then
              if negb (key_of h c =? 0)%N
              then Some (goto s t th (PAtEquals node prev c next))
              else Some (goto s t th (PFindLoop node (Some c) next))
            else Some (not_found s t th node prev (Some c))
          else Some (goto s t th (PFindLoop node (Some c) next))
        else Some (goto s t th (PFindStart node))
      | PAtEquals node prev c next, o :: _ =>
        if keq (key_of h c) (op_key o)
        then Some (mkM h (upd_thr (m_thr s) t (finish th (val_of h c))))
        else Some (goto s t th (PFindLoop node (Some c) next))
      | PAtCas n prev cur, o :: _ =>
        match prev with
        | None => None                                   (* a CAS on the bucket slot: never reached *)
        | Some p =>
          if opt_eqb (next_of h p) cur
          then Some (mkM (setnext h p (Some n)) (upd_thr (m_thr s) t (finish th (match o with MPia _ v _ => v | MGet _ _ => 0%N end))))
          else Some (goto s t th (PFindStart (Some n)))
        end
      end
    end.

  Fixpoint run (s : mstate) (sched : list nat) : mstate :=
    match sched with
    | [] => s
    | t :: r => match mstep s t with Some s' => run s' r | None => run s r end
    end.

  (* schedule points of the real harness *)
  Definition sp_kind (p : pc) : option nat :=
    match p with
    | PAtHash _ => Some 3 | PAtEquals _ _ _ _ => Some 4 | PAtCas _ _ _ => Some 1 | PDone => Some 9
    | _ => None
    end.

  Definition pc_of (s : mstate) (t : nat) : pc :=
    match nth_error (m_thr s) t with Some th => t_pc th | None => PDone end.

  (* thread t runs (alone) up to its next schedule point *)
  Fixpoint run_to_sp (fuel : nat) (s : mstate) (t : nat) : mstate * nat :=
    match fuel with
    | O => (s, 0)
    | S f =>
      match mstep s t with
      | None => (s, 0)
      | Some s' => match sp_kind (pc_of s' t) with
                   | Some k => (s', k)
                   | None => run_to_sp f s' t
                   end
      end
    end.

  (* the list reachable from node 0 (the node B[0] points at) *)
  Fixpoint walk (fuel : nat) (h : list mnode) (cur : option nat) : list nat :=
    match fuel, cur with
    | S f, Some c => c :: walk f h (next_of h c)
    | _, _ => []
    end.
  Definition mlist (s : mstate) : list nat := walk (length (m_heap s)) (m_heap s) (Some 0).
End Machine.

(* an initial state from a node list in list order (node i points at node i+1) *)
Fixpoint chain_from (i : nat) (l : list (N * N * N)) : list mnode :=
  match l with
  | [] => []
  | (so, k, v) :: t => mkN so k v (match t with [] => None | _ => Some (S i) end) :: chain_from (S i) t
  end.
Definition minit (l : list (N * N * N)) (progs : list (list mop)) : mstate :=
  mkM (chain_from 0 l) (map (fun p => mkT PIdle p []) progs).
