(* The LARGER bounded-exhaustive families put together and lifted to statements about EVERY schedule.  Checked by coqc only:
   not part of Properties_C16_micro.v (coqchk would re-evaluate the vm_compute proofs for the better part of an hour). *)
From Coq Require Import List NArith Bool Arith.
From QV Require Import Dict.Micro Dict.MicroFull Dict.MicroFullHist Dict.MicroFullProofs Dict.MicroFullWitness Dict.MicroFullBounded.
From QV Require Import Dict.MicroFullCore Dict.MicroFullBoundedA Dict.MicroFullBoundedS Dict.MicroFullBoundedB Dict.MicroFullBoundedC1 Dict.MicroFullBoundedC2
                       Dict.MicroFullBoundedI1 Dict.MicroFullBoundedI2.
Import ListNotations.
Local Open Scope N_scope.
Lemma forallb_app_true {A : Type} (f : A -> bool) l1 l2 : forallb f l1 = true -> forallb f l2 = true -> forallb f (l1 ++ l2) = true.
Proof. intros H1 H2. rewrite forallb_app, H1, H2. reflexivity. Qed.

Lemma patch_family_sp_ok : forallb (cfg_ok_sp pol_patch) patch_family_sp = true.
Proof.
  unfold patch_family_sp.
  apply forallb_app_true; [exact famWA_ok|].
  apply forallb_app_true; [exact famC1_ok|].
  apply forallb_app_true; [exact famC2_ok | exact famB_ok].
Qed.
Lemma famI_ok : forallb (cfg_ok_sp pol_code) famI = true.
Proof. unfold famI. apply forallb_app_true; [exact famI1_ok | exact famI2_ok]. Qed.

(* the statements of MicroFullCore.v for the larger families *)
Lemma patch_sp_all : forall c, In c patch_family_sp -> forall g,
  let s := frun_grants pol_patch wit_sof N.eqb (cfg_init c) g in fdone s = true -> lin (amap_of (fst c)) (hist_of s).
Proof. exact (family_sp_lift pol_patch patch_family_sp patch_family_sp_ok). Qed.
Lemma patch_steps_all : forall c, In c patch_family_steps -> forall sched,
  let s := frun pol_patch wit_sof N.eqb (cfg_init c) sched in fdone s = true -> lin (amap_of (fst c)) (hist_of s).
Proof. exact (family_steps_lift pol_patch patch_family_steps fam_steps_ok). Qed.
Lemma code_insert_sp_all : forall c, In c famI -> forall g,
  let s := frun_grants pol_code wit_sof N.eqb (cfg_init c) g in fdone s = true -> lin (amap_of (fst c)) (hist_of s).
Proof. exact (family_sp_lift pol_code famI famI_ok). Qed.

(* non-vacuity: the families are not empty, complete runs exist, and the same explorer REJECTS the witness configurations under
   the code's own policy (so the positive results are not an artefact of a checker that accepts everything) *)
Example families_sizes : (length patch_family_sp, length patch_family_steps, length famI) = (60, 7, 12)%nat.
Proof. vm_compute. reflexivity. Qed.
Example explorer_rejects_code_policy :
  cfg_ok_sp pol_code (wit_nodes0, wit_del_progs) = false /\ cfg_ok_sp pol_atomic_recycle (wit_nodes2, wit_rec_progs) = false /\
  cfg_ok_sp pol_nonatomic_norecycle (wit_nodes0, wit_del_progs) = false /\ cfg_ok_sp pol_code (wit_nodes3, wit_put_other_progs) = false.
Proof. vm_compute. repeat split; reflexivity. Qed.
