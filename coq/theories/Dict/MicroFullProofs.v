(* Proofs about the definitions of MicroFullHist.v: the checker [linb] decides [lin]; the exhaustive explorers [explore]
   (single machine steps) and [explore_sp] (grants) are sound for EVERY schedule. *)
From Coq Require Import List NArith Bool Arith Lia.
From QV Require Import Dict.Micro Dict.MicroFull Dict.MicroFullHist.
Import ListNotations.

Lemma picks_in {A : Type} : forall (l1 : list A) pre o l2, In (o, pre ++ l1 ++ l2) (picks pre (l1 ++ o :: l2)).
Proof.
  induction l1 as [|a l1 IH]; intros pre o l2; cbn.
  - left. reflexivity.
  - right. specialize (IH (pre ++ [a]) o l2). rewrite <- app_assoc in IH. cbn in IH. exact IH.
Qed.

Lemma picks_inv {A : Type} : forall (l : list A) pre o rest,
  In (o, rest) (picks pre l) -> exists l1 l2, l = l1 ++ o :: l2 /\ rest = pre ++ l1 ++ l2.
Proof.
  induction l as [|a l IH]; intros pre o rest H; cbn in H; [contradiction|].
  destruct H as [H|H].
  - inversion H; subst. exists [], l. split; reflexivity.
  - destruct (IH _ _ _ H) as (l1 & l2 & -> & ->). exists (a :: l1), l2. split; [reflexivity|].
    rewrite <- app_assoc. reflexivity.
Qed.

Lemma anyb_exists {A : Type} (f : A -> bool) l : anyb f l = true <-> exists x, In x l /\ f x = true.
Proof.
  induction l as [|a r IH]; cbn.
  - split; [discriminate | intros (x & [] & _)].
  - destruct (f a) eqn:E.
    + split; auto. intros _. exists a. auto.
    + rewrite IH. split; intros (x & Hx & Hf); [exists x; auto|].
      destruct Hx as [->|Hx]; [congruence | exists x; auto].
Qed.

Lemma linb_complete m h : lin m h -> forall fuel, length h <= fuel -> linb fuel m h = true.
Proof.
  induction 1 as [m|m l1 o l2 m' Hmin Hspec Hlin IH]; intros fuel Hlen.
  - destruct fuel; reflexivity.
  - destruct (l1 ++ o :: l2) as [|x r] eqn:E; [destruct l1; discriminate|].
    destruct fuel as [|f]; [cbn in Hlen; lia|].
    cbn [linb]. rewrite <- E. apply anyb_exists. exists (o, l1 ++ l2). split.
    + apply (picks_in l1 [] o l2).
    + cbn [fst snd].
      assert (Hf : forallb (fun x => h_inv o <? h_res x) (l1 ++ l2) = true)
        by (apply forallb_forall; intros y Hy; apply Nat.ltb_lt; apply Hmin; exact Hy).
      rewrite Hf, Hspec. cbn [fst snd]. rewrite N.eqb_refl. apply IH.
      assert (length (l1 ++ o :: l2) = S (length (l1 ++ l2))) by (rewrite !app_length; cbn; lia).
      rewrite <- E in Hlen. lia.
Qed.

Lemma linb_sound : forall fuel m h, linb fuel m h = true -> lin m h.
Proof.
  induction fuel as [|f IH]; intros m h H.
  - destruct h; [constructor | discriminate].
  - destruct h as [|x r]; [constructor|].
    cbn [linb] in H. apply anyb_exists in H. destruct H as ([o rest] & Hin & Hc). cbn [fst snd] in Hc.
    apply picks_inv in Hin. destruct Hin as (l1 & l2 & E & ->). cbn [app] in *. rewrite E.
    destruct (forallb (fun x => h_inv o <? h_res x) (l1 ++ l2)) eqn:Hmin; [|discriminate].
    destruct (spec_step m (h_op o)) as [r0 m'] eqn:Es. cbn [fst snd] in *.
    destruct (r0 =? h_ret o)%N eqn:Hr; [|discriminate]. pose proof Hc as Hl. apply N.eqb_eq in Hr. subst r0.
    apply (lin_cons m l1 o l2 m'); auto.
    intros y Hy. apply Nat.ltb_lt. rewrite forallb_forall in Hmin. apply Hmin. exact Hy.
Qed.

Theorem linb_iff m h : linearizable_b m h = true <-> lin m h.
Proof.
  split; [apply linb_sound | intro H; apply linb_complete; auto].
Qed.

Corollary linb_false_not_lin m h : linearizable_b m h = false -> ~ lin m h.
Proof. intros H L. apply linb_iff in L. congruence. Qed.

Section Explore.
  Variable pol : policy.
  Variable sof : N -> N.
  Variable keq : N -> N -> bool.
  Variable chk : fstate -> bool.
  Notation fstep := (fstep pol sof keq).
  Notation frun := (frun pol sof keq).

  Lemma fdone_pc s t th : fdone s = true -> nth_error (fs_thr s) t = Some th -> ft_pc th = QDone.
  Proof.
    unfold fdone. intros H Hn. rewrite forallb_forall in H. specialize (H th (nth_error_In _ _ Hn)).
    destruct (ft_pc th); try discriminate. reflexivity.
  Qed.

  Lemma fdone_nostep s t : fdone s = true -> fstep s t = None.
  Proof.
    intros H. unfold MicroFull.fstep. destruct (nth_error (fs_thr s) t) as [th|] eqn:E; [|reflexivity].
    rewrite (fdone_pc s t th H E). reflexivity.
  Qed.

  Lemma fstep_range s t s' : fstep s t = Some s' -> t < length (fs_thr s).
  Proof.
    unfold MicroFull.fstep. destruct (nth_error (fs_thr s) t) eqn:E; [|discriminate].
    intros _. apply nth_error_Some. congruence.
  Qed.

  (* every schedule of machine steps *)
  Theorem explore_sound : forall sched fuel s,
    explore pol sof keq chk fuel s = true -> fdone (frun s sched) = true -> chk (frun s sched) = true.
  Proof.
    induction sched as [|t r IH]; intros fuel s He Hd; cbn [MicroFull.frun] in *.
    - destruct fuel as [|f]; [discriminate|]. cbn [explore] in He. rewrite Hd in He. exact He.
    - destruct (fstep s t) as [s'|] eqn:Es.
      + destruct fuel as [|f]; [discriminate|]. cbn [explore] in He.
        destruct (fdone s) eqn:Ed; [rewrite (fdone_nostep s t Ed) in Es; discriminate|].
        rewrite forallb_forall in He. specialize (He t). rewrite Es in He.
        apply (IH f s'); auto. apply He. apply in_seq. pose proof (fstep_range s t s' Es). lia.
      + apply (IH fuel s); auto.
  Qed.

  (* a grant: the task runs from the schedule point it is held at to its next one *)
  Definition grant (s : fstate) (t : nat) : fstate :=
    match fpc_of s t with
    | QDone => s
    | _ => fst (fst (frun_to_sp pol sof keq sp_fuel s t 0))
    end.
  Fixpoint frun_grants (s : fstate) (g : list nat) : fstate :=
    match g with [] => s | t :: r => frun_grants (grant s t) r end.

  Lemma fdone_fpc s t : fdone s = true -> fpc_of s t = QDone.
  Proof.
    intros H. unfold fpc_of. destruct (nth_error (fs_thr s) t) as [th|] eqn:E; [|reflexivity].
    apply (fdone_pc s t th H E).
  Qed.

  (* every schedule of grants (the atomicity of the harness: tasks switch at the callbacks and at the CASes only) *)
  Theorem explore_sp_sound : forall g fuel s,
    explore_sp pol sof keq chk fuel s = true -> fdone (frun_grants s g) = true -> chk (frun_grants s g) = true.
  Proof.
    induction g as [|t r IH]; intros fuel s He Hd; cbn [frun_grants] in *.
    - destruct fuel as [|f]; [discriminate|]. cbn [explore_sp] in He. rewrite Hd in He. exact He.
    - unfold grant in *. destruct (fpc_of s t) eqn:Ep; try (apply (IH fuel s); assumption);
        (destruct fuel as [|f]; [discriminate|]; cbn [explore_sp] in He;
         destruct (fdone s) eqn:Ed; [rewrite (fdone_fpc s t Ed) in Ep; discriminate|];
         rewrite forallb_forall in He;
         assert (Hr : In t (seq 0 (length (fs_thr s))))
           by (apply in_seq; unfold fpc_of in Ep; destruct (nth_error (fs_thr s) t) eqn:En; [|discriminate];
               assert (nth_error (fs_thr s) t <> None) by congruence; apply nth_error_Some in H; lia);
         specialize (He t Hr); rewrite Ep in He;
         destruct (snd (fst (frun_to_sp pol sof keq sp_fuel s t 0))); [discriminate|];
         apply (IH f _ He Hd)).
  Qed.
End Explore.
