(* The insert-only class {put_if_absent, get}: theorems for every schedule and any number of tasks. *)
From Coq Require Import List NArith Bool Arith Lia Sorted.
From QV Require Import Dict.Micro Dict.MicroProofs.
Import ListNotations.

Section Thm.
  Variable sof : N -> N.
  Variable keq : N -> N -> bool.
  Hypothesis keq_spec : forall a b, keq a b = true <-> a = b.

  Notation Inv := (Inv sof).
  Notation run := (run sof keq).
  Notation mstep := (mstep sof keq).

  Lemma inv_G s : Inv s -> G sof (m_heap s) (mlist s).
  Proof. intros (l & HI). rewrite (mlist_inv sof s l HI). apply HI. Qed.

  (* ins_inv: along every schedule the list reachable from the head is a NULL-terminated chain without repetition,
     sorted by so_key, holds at most one node per key, regular nodes carry the so_key of their key, and every node
     that was ever in the list is still in it *)
  Theorem ins_inv_l s0 sched : Inv s0 ->
    let s := run s0 sched in
    let h := m_heap s in
    islist h (Some 0) (mlist s) /\ NoDup (mlist s) /\
    StronglySorted (fun a b => (so_of h a <= so_of h b)%N) (mlist s) /\
    (forall x, In x (mlist s) -> key_of h x <> 0%N -> so_of h x = sof (key_of h x)) /\
    (forall x y, In x (mlist s) -> In y (mlist s) -> key_of h x = key_of h y -> key_of h x <> 0%N -> x = y) /\
    incl (mlist s0) (mlist s).
  Proof.
    intros H0. cbv zeta. pose proof (inv_G _ (inv_run sof keq keq_spec sched s0 H0)) as (G1 & G2 & _ & G4 & G5 & G6).
    repeat split; auto. apply reach_mono; auto.
  Qed.

  (* pia_result: a put_if_absent(k,v) that completes either linked its own node (then it returns v, the node is new in the
     list and carries (k,v)), or returns the value of a node of key k that is in the list (and links nothing) *)
  Theorem pia_result_l s0 sched t s' r k v st rest th : Inv s0 ->
    let s := run s0 sched in
    mstep s t = Some s' -> completes s t s' r ->
    nth_error (m_thr s) t = Some th -> t_prog th = MPia k v st :: rest ->
    (r = v /\ exists n l1 p l2, mlist s = l1 ++ p :: l2 /\ mlist s' = l1 ++ p :: n :: l2 /\ ~ In n (mlist s) /\
                               key_of (m_heap s') n = k /\ val_of (m_heap s') n = v) \/
    (mlist s' = mlist s /\ exists c, In c (mlist s) /\ key_of (m_heap s) c = k /\ r = val_of (m_heap s) c).
  Proof.
    intros H0. cbv zeta. intros Hstep Hc Hn Hp.
    destruct (inv_run sof keq keq_spec sched s0 H0) as (l & HI). rewrite (mlist_inv sof _ l HI).
    destruct (op_result sof keq keq_spec _ l t s' r HI Hstep Hc) as (th1 & o & rest1 & Hn1 & Hp1 & Hcases).
    rewrite Hn in Hn1. inversion Hn1; subst th1. rewrite Hp in Hp1. inversion Hp1; subst o rest1.
    destruct Hcases as [(k' & v' & st' & n & l1 & p & l2 & Eo & -> & El & El' & Hni & Hk & Hv)|[(El' & c & Hc1 & Hc2 & Hc3)|[(_ & (k' & st' & Eo) & _)|(_ & (k' & st' & Eo) & _)]]];
      try discriminate.
    - inversion Eo; subst. left. split; auto. exists n, l1, p, l2. auto.
    - right. split; auto. exists c. auto.
  Qed.

  (* pia_unique: a put_if_absent links its node only when no node of that key is in the list; from then on there is one
     (ins_inv: at most one per key, and it is never lost), so among any number of racing put_if_absent of a key at most one links *)
  Theorem pia_unique_l s0 sched t s' r k v st rest th : Inv s0 ->
    let s := run s0 sched in
    mstep s t = Some s' -> completes s t s' r ->
    nth_error (m_thr s) t = Some th -> t_prog th = MPia k v st :: rest ->
    mlist s' <> mlist s ->
    (forall x, In x (mlist s) -> key_of (m_heap s) x <> k) /\
    (exists n, In n (mlist s') /\ key_of (m_heap s') n = k /\ val_of (m_heap s') n = v /\ r = v).
  Proof.
    intros H0. cbv zeta. intros Hstep Hc Hn Hp Hneq.
    pose proof (inv_run sof keq keq_spec sched s0 H0) as HInv.
    assert (HInv' : Inv s') by (eapply inv_step; eauto).
    pose proof (inv_G _ HInv') as (_ & _ & _ & _ & _ & G6').
    destruct (pia_result_l s0 sched t s' r k v st rest th H0 Hstep Hc Hn Hp) as [(-> & n & l1 & p & l2 & El & El' & Hni & Hk & Hv)|(E & _)]; [|contradiction].
    assert (Hk0 : k <> 0%N).
    { destruct HInv as (l & (_ & HL & _)). destruct (HL t th Hn) as [Hwf _]. rewrite Hp in Hwf. inversion Hwf as [|? ? Ho _]; subst. apply Ho. }
    assert (Hnin : In n (mlist s')) by (rewrite El'; apply in_app_iff; cbn; auto).
    split.
    - intros x Hx Ek.
      assert (Hx' : In x (mlist s')) by (rewrite El'; rewrite El in Hx; rewrite in_app_iff in *; cbn in *; tauto).
      (* keys are immutable: the key of x in s' is its key in s *)
      assert (Ekx : key_of (m_heap s') x = key_of (m_heap (run s0 sched)) x).
      { destruct HInv as (l & HI). destruct (inv_step_l sof keq keq_spec _ t s' l HI Hstep) as (l' & HI' & _ & [[E Hno]|(a & q & m & b & Ea & Eb & (thx & curx & X1 & X2 & X3))]).
        - exfalso. apply Hneq. rewrite (mlist_inv sof _ _ HI'), (mlist_inv sof _ _ HI). exact E.
        - unfold Micro.mstep in Hstep. rewrite X1 in Hstep. rewrite X2 in Hstep.
          destruct (t_prog thx) as [|o rs]; [discriminate|].
          apply opt_eqb_eq in X3. rewrite X3 in Hstep. inversion Hstep; subst s'. cbn. apply key_setnext. }
      assert (x = n).
      { apply G6'; auto; [rewrite Ekx, Ek, Hk; reflexivity | rewrite Ekx, Ek; exact Hk0]. }
      subst x. contradiction.
    - exists n. auto.
  Qed.

  (* get_sound (partial): a get that completes returns the value of a node of its key that is in the list at that step
     (and stays in it), or NULL when, at that very step, no node of the list carries the key, or NULL after its search
     read a NULL next pointer from the last node it examined -- every node up to that one carries another key.
     PARTIAL: in this last case the statement "the key was absent from the list at some moment during the call"
     (it is absent when that NULL pointer is read) needs a history variable and is not derived here. *)
  Theorem get_sound_partial_l s0 sched t s' r k st rest th : Inv s0 ->
    let s := run s0 sched in
    mstep s t = Some s' -> completes s t s' r ->
    nth_error (m_thr s) t = Some th -> t_prog th = MGet k st :: rest ->
    mlist s' = mlist s /\
    ((exists c, In c (mlist s) /\ key_of (m_heap s) c = k /\ r = val_of (m_heap s) c) \/
     (r = 0%N /\ forall x, In x (mlist s) -> key_of (m_heap s) x <> k) \/
     (r = 0%N /\ exists p, t_pc th = PFindLoop None (Some p) None /\ In p (mlist s) /\
                          key_of (m_heap s) p <> k /\ forall x, In x (pre (mlist s) p) -> key_of (m_heap s) x <> k)).
  Proof.
    intros H0. cbv zeta. intros Hstep Hc Hn Hp.
    destruct (inv_run sof keq keq_spec sched s0 H0) as (l & HI). rewrite (mlist_inv sof _ l HI).
    destruct (op_result sof keq keq_spec _ l t s' r HI Hstep Hc) as (th1 & o & rest1 & Hn1 & Hp1 & Hcases).
    rewrite Hn in Hn1. inversion Hn1; subst th1. rewrite Hp in Hp1. inversion Hp1; subst o rest1. cbn [op_key] in Hcases.
    destruct Hcases as [(k' & v' & st' & n & l1 & p & l2 & Eo & _)|[(El' & c & Hc1 & Hc2 & Hc3)|[(El' & _ & -> & Habs)|(El' & _ & -> & p & Hpc & Hpl & Hf & Hkp)]]];
      try discriminate.
    - split; auto. left. exists c. auto.
    - split; auto.
    - split; auto. right; right. split; auto. exists p. repeat split; auto. rewrite Forall_forall in Hf. exact Hf.
  Qed.

  (* the invariant holds initially: the empty dictionary (only the dummy node of bucket 0), any number of tasks with any
     programs of put_if_absent / get on non-NULL keys *)
  Theorem inv_init0 (progs : list (list mop)) :
    (forall p o, In p progs -> In o p -> op_start o = 0 /\ (0 < sof (op_key o))%N /\ op_key o <> 0%N) ->
    Inv (minit [(0%N, 0%N, 0%N)] progs).
  Proof.
    intros Hp. exists [0]. split; [|split].
    - cbn. repeat split; auto.
      + constructor; [intros []|constructor].
      + intros x [<-|[]]. cbn. lia.
      + repeat constructor.
      + intros x [<-|[]]. cbn. congruence.
      + intros x y [<-|[]] [<-|[]]. auto.
    - intros t th Hn. cbn in Hn. rewrite nth_error_map in Hn. destruct (nth_error progs t) as [p|] eqn:E; [|discriminate].
      inversion Hn; subst th. split; cbn; auto. rewrite Forall_forall. intros o Ho.
      destruct (Hp p o (nth_error_In _ _ E) Ho) as (A & B & C). unfold wf_op. rewrite A. cbn. auto.
    - intros a b tha thb n _ Ha _ Ho. cbn in Ha. rewrite nth_error_map in Ha. destruct (nth_error progs a); [|discriminate].
      inversion Ha; subst tha. cbn in Ho. discriminate.
  Qed.
End Thm.

(* ---------- the invariant holds for every well-formed initial state (what the replayed runs start from) ---------- *)
Definition nso (nodes : list (N * N * N)) (i : nat) : N := fst (fst (nth i nodes (0, 0, 0)%N)).
Definition nkey (nodes : list (N * N * N)) (i : nat) : N := snd (fst (nth i nodes (0, 0, 0)%N)).

Lemma chain_attrs nodes : forall j i,
  mn_so (getn (chain_from j nodes) i) = nso nodes i /\ mn_key (getn (chain_from j nodes) i) = nkey nodes i.
Proof.
  unfold getn, nso, nkey. induction nodes as [|[[so k] v] t IH]; intros j i; cbn.
  - destruct i; auto.
  - destruct i; cbn; auto.
Qed.

Lemma chain_length nodes : forall j, length (chain_from j nodes) = length nodes.
Proof. induction nodes as [|[[so k] v] t IH]; intros j; cbn; auto. Qed.

Lemma chain_islist nodes : forall pre, nodes <> [] ->
  islist (pre ++ chain_from (length pre) nodes) (Some (length pre)) (seq (length pre) (length nodes)).
Proof.
  induction nodes as [|[[so k] v] t IH]; intros pre Hne; [congruence|]. cbn. split; auto.
  unfold next_of, getn. rewrite app_nth2 by lia. rewrite Nat.sub_diag. cbn.
  destruct t as [|nd t'].
  - cbn. reflexivity.
  - specialize (IH (pre ++ [mkN so k v (Some (S (length pre)))]) ltac:(discriminate)).
    rewrite app_length in IH. cbn [length] in IH. rewrite Nat.add_1_r in IH.
    rewrite <- app_assoc in IH. exact IH.
Qed.

Lemma ssorted_seq (R : nat -> nat -> Prop) n : forall s,
  (forall a b, s <= a -> a < b -> b < s + n -> R a b) -> StronglySorted R (seq s n).
Proof.
  induction n as [|n IH]; intros s H; cbn; constructor.
  - apply IH. intros a b Ha Hab Hb. apply H; lia.
  - rewrite Forall_forall. intros b Hb. apply in_seq in Hb. apply H; lia.
Qed.

Section Init.
  Variable sof : N -> N.

  Definition init_ok (nodes : list (N * N * N)) (progs : list (list mop)) : Prop :=
    nodes <> [] /\
    (forall i j, i < j -> j < length nodes -> (nso nodes i <= nso nodes j)%N) /\
    (forall i, i < length nodes -> nkey nodes i <> 0%N -> nso nodes i = sof (nkey nodes i)) /\
    (forall i j, i < length nodes -> j < length nodes -> nkey nodes i = nkey nodes j -> nkey nodes i <> 0%N -> i = j) /\
    (forall p o, In p progs -> In o p ->
                 op_start o < length nodes /\ (nso nodes (op_start o) < sof (op_key o))%N /\ op_key o <> 0%N).

  Theorem inv_init nodes progs : init_ok nodes progs -> Inv sof (minit nodes progs).
  Proof.
    intros (Hne & Hsort & Hreg & Huniq & Hprogs).
    set (h := chain_from 0 nodes).
    assert (Hso : forall i, so_of h i = nso nodes i) by (intros; apply (chain_attrs nodes 0 i)).
    assert (Hkey : forall i, key_of h i = nkey nodes i) by (intros; apply (chain_attrs nodes 0 i)).
    exists (seq 0 (length nodes)). split; [|split].
    - cbn. fold h. split; [|split; [|split; [|split; [|split]]]].
      + apply (chain_islist nodes [] Hne).
      + apply seq_NoDup.
      + intros x Hx. apply in_seq in Hx. unfold h. rewrite chain_length. lia.
      + apply ssorted_seq. intros a b _ Hab Hb. rewrite !Hso. apply Hsort; lia.
      + intros x Hx. apply in_seq in Hx. rewrite Hso, Hkey. apply Hreg. lia.
      + intros x y Hx Hy. apply in_seq in Hx. apply in_seq in Hy. rewrite !Hkey. apply Huniq; lia.
    - intros t th Hn. cbn in Hn. rewrite nth_error_map in Hn. destruct (nth_error progs t) as [p|] eqn:E; [|discriminate].
      inversion Hn; subst th. split; cbn; auto. rewrite Forall_forall. intros o Ho.
      destruct (Hprogs p o (nth_error_In _ _ E) Ho) as (A & B & C). unfold wf_op. fold h. rewrite Hso.
      repeat split; auto. apply in_seq. lia.
    - intros a b tha thb n _ Ha _ Ho. cbn in Ha. rewrite nth_error_map in Ha. destruct (nth_error progs a); [|discriminate].
      inversion Ha; subst tha. cbn in Ho. discriminate.
  Qed.
End Init.

(* non-vacuity: two tasks racing to insert the same key from the empty dictionary, one getter; after the schedule below
   exactly one node for key 5 is linked, the loser returns the winner's value *)
Definition ex_sof (k : N) : N := (2 * k + 1)%N.
Definition ex_progs : list (list mop) := [[MPia 5 50 0]; [MPia 5 51 0; MGet 7 0]; [MGet 5 0]].
Definition ex_sched : list nat := [0;1;0;1;0;1;0;1;0;1;2;2;2;2;0;0;1;1;1;1;1;1;2;2;2;2;2;2;1;1;1;1;1;1;1;1;0;1;2;1;1;1;1;1;1;1;1;1;1].

Example ex_init_inv : Inv ex_sof (minit [(0%N, 0%N, 0%N)] ex_progs).
Proof.
  apply inv_init0. intros p o Hp Ho. cbn in Hp.
  destruct Hp as [<-|[<-|[<-|[]]]]; cbn in Ho; intuition (subst; cbn; auto; try lia; try discriminate).
Qed.

Example ex_run :
  let s := run ex_sof N.eqb (minit [(0%N, 0%N, 0%N)] ex_progs) ex_sched in
  map (fun i => (key_of (m_heap s) i, val_of (m_heap s) i)) (mlist s) = [(0, 0); (5, 50)]%N /\
  map t_res (m_thr s) = [[50]; [0; 50]; [0]]%N.
Proof. vm_compute. split; reflexivity. Qed.
