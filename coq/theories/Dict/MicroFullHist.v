(* Histories of the full micro-step machine and linearizability w.r.t. the finite-map specification (definitions only).
   A history is the list of COMPLETED operations of the event log, each with the positions of its invocation and of its
   response in the log.  [lin m h]: the operations of h can be taken one after the other, each time one that no remaining
   operation precedes in real time (no remaining x responded before it was invoked), such that each returns what the map
   specification returns, starting from the map m.  [linb] decides it (MicroFullProofs.linb_iff). *)
From Coq Require Import List NArith Bool Arith.
From QV Require Import Dict.Micro Dict.MicroFull.
Import ListNotations.

Record hop := mkH { h_t : nat; h_op : fop; h_ret : N; h_inv : nat; h_res : nat }.

Fixpoint find_pend (t : nat) (pend : list (nat * (fop * nat))) : option (fop * nat) :=
  match pend with
  | [] => None
  | (u, x) :: r => if Nat.eqb u t then Some x else find_pend t r
  end.

(* events in chronological order *)
Fixpoint hist_go (evs : list fevent) (pos : nat) (pend : list (nat * (fop * nat))) : list hop :=
  match evs with
  | [] => []
  | EInv t o :: r => hist_go r (S pos) ((t, (o, pos)) :: pend)
  | ERes t v :: r =>
    match find_pend t pend with
    | Some (o, i) => mkH t o v i pos :: hist_go r (S pos) pend
    | None => hist_go r (S pos) pend
    end
  end.
Definition hist_of (s : fstate) : list hop := hist_go (rev (fs_log s)) 0 [].

(* the specification: a finite map N -> N, 0 = absent *)
Definition amap := list (N * N).
Fixpoint alook (m : amap) (k : N) : N :=
  match m with [] => 0%N | (a, b) :: r => if (a =? k)%N then b else alook r k end.
Fixpoint aset (m : amap) (k v : N) : amap :=
  match m with
  | [] => [(k, v)]
  | (a, b) :: r => if (a =? k)%N then (a, v) :: r else (a, b) :: aset r k v
  end.
Definition spec_step (m : amap) (o : fop) : N * amap :=
  match o with
  | FPia k v _ => if (alook m k =? 0)%N then (v, aset m k v) else (alook m k, m)
  | FGet k _ => (alook m k, m)
  | FPut k v _ => (v, aset m k v)
  | FDel k _ => (alook m k, aset m k 0%N)
  end.
(* the map an initial list stands for (regular nodes only) *)
Fixpoint amap_of (l : list (N * N * N)) : amap :=
  match l with
  | [] => []
  | (_, k, v) :: r => if (k =? 0)%N then amap_of r else aset (amap_of r) k v
  end.

Inductive lin : amap -> list hop -> Prop :=
| lin_nil m : lin m []
| lin_cons m l1 o l2 m' :
    (forall x, In x (l1 ++ l2) -> h_inv o < h_res x) ->
    spec_step m (h_op o) = (h_ret o, m') ->
    lin m' (l1 ++ l2) ->
    lin m (l1 ++ o :: l2).

(* every element of l with the others (in order) *)
Fixpoint picks {A : Type} (pre l : list A) : list (A * list A) :=
  match l with
  | [] => []
  | x :: r => (x, pre ++ r) :: picks (pre ++ [x]) r
  end.

(* existsb with a lazy disjunction (vm_compute is call-by-value: [||] would evaluate every alternative) *)
Fixpoint anyb {A : Type} (f : A -> bool) (l : list A) : bool :=
  match l with [] => false | a :: r => if f a then true else anyb f r end.

Fixpoint linb (fuel : nat) (m : amap) (h : list hop) : bool :=
  match h with
  | [] => true
  | _ :: _ =>
    match fuel with
    | O => false
    | S f =>
      anyb (fun p : hop * list hop =>
              if forallb (fun x => h_inv (fst p) <? h_res x) (snd p)
              then (let rm := spec_step m (h_op (fst p)) in if (fst rm =? h_ret (fst p))%N then linb f (snd rm) (snd p) else false)
              else false)
           (picks [] h)
    end
  end.
Definition linearizable_b (m : amap) (h : list hop) : bool := linb (length h) m h.

Definition sp_fuel : nat := 4000.

(* all schedules from s, one machine step at a time: [chk] holds in every state in which all tasks are done *)
Section Explore.
  Variable pol : policy.
  Variable sof : N -> N.
  Variable keq : N -> N -> bool.
  Variable chk : fstate -> bool.
  Fixpoint explore (fuel : nat) (s : fstate) : bool :=
    match fuel with
    | O => false
    | S f =>
      if fdone s then chk s
      else forallb (fun t => match fstep pol sof keq s t with None => true | Some s' => explore f s' end)
                   (seq 0 (length (fs_thr s)))
    end.
  (* the same with grants (run to the next schedule point of the harness) instead of single steps *)
  Fixpoint explore_sp (fuel : nat) (s : fstate) : bool :=
    match fuel with
    | O => false
    | S f =>
      if fdone s then chk s
      else forallb (fun t => match fpc_of s t with
                             | QDone => true
                             | _ => let x := frun_to_sp pol sof keq sp_fuel s t 0 in
                                    match snd (fst x) with O => false | _ => explore_sp f (fst (fst x)) end
                             end)
                   (seq 0 (length (fs_thr s)))
    end.
End Explore.
