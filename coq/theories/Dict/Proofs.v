(* Sequential refinement: the split-ordered-list model implements a key -> value map, for every
   user hash function, every operation sequence and across every table doubling. *)
From Coq Require Import List NArith Bool Lia ZifyBool ZifyNat ZifyN Sorted.
From QV Require Import Dict.Model Dict.ProofsBits.
Import ListNotations.
Local Open Scope N_scope.

(* ---------- generic list facts ---------- *)
Lemma ssorted_app {A} (R : A -> A -> Prop) l1 l2 :
  StronglySorted R (l1 ++ l2) <->
  StronglySorted R l1 /\ StronglySorted R l2 /\ (forall a b, In a l1 -> In b l2 -> R a b).
Proof.
  induction l1 as [|x l1 IH]; cbn.
  - split; [intros H; repeat split; [constructor | exact H | intros ? ? []] | tauto].
  - split.
    + intros H. inversion H as [|? ? Hs Hf]; subst. apply IH in Hs. destruct Hs as (H1 & H2 & H3).
      rewrite Forall_app in Hf. destruct Hf as [Hf1 Hf2]. rewrite Forall_forall in Hf2.
      repeat split; [constructor; assumption | assumption |].
      intros a b [<-|Ha] Hb; auto.
    + intros (H1 & H2 & H3). inversion H1 as [|? ? Hs Hf]; subst. constructor.
      * apply IH. repeat split; auto.
      * rewrite Forall_app. split; [exact Hf|]. rewrite Forall_forall. intros b Hb. apply H3; auto.
Qed.

Lemma NoDup_insert {A} (a : A) l1 l2 : NoDup (l1 ++ l2) -> ~ In a (l1 ++ l2) -> NoDup (l1 ++ a :: l2).
Proof.
  induction l1 as [|x l1 IH]; cbn; intros Hnd Hni.
  - constructor; assumption.
  - inversion Hnd as [|? ? Hx Hnd']; subst. constructor.
    + rewrite in_app_iff in *. cbn. intros [H|[H|H]]; [apply Hx; auto | subst; apply Hni; auto | apply Hx; auto].
    + apply IH; [exact Hnd' | intro H; apply Hni; auto].
Qed.

Lemma firstn_app_len {A} (l1 l2 : list A) : firstn (length l1) (l1 ++ l2) = l1.
Proof. induction l1; cbn; [destruct l2|]; congruence. Qed.
Lemma skipn_app_len {A} (l1 l2 : list A) : skipn (length l1) (l1 ++ l2) = l2.
Proof. induction l1; cbn; auto. Qed.

Lemma skipn_S_app_len {A} (l1 : list A) e t : skipn (S (length l1)) (l1 ++ e :: t) = t.
Proof. induction l1; cbn; auto. Qed.

Section Refinement.
  Variable hash : N -> N.
  Variable keq : N -> N -> bool.
  Hypothesis keq_spec : forall a b, keq a b = true <-> a = b.

  Notation lfind := (lfind keq).
  Notation find_from := (find_from keq).
  Definition hk_of (k : N) : N := so_regularkey (lkey_of hash k).

  (* ---------- the abstraction ---------- *)
  Fixpoint alookup (k : N) (l : list entry) : N :=
    match l with
    | [] => 0
    | e :: t => if e_key e =? k then e_val e else alookup k t
    end.
  Definition abs (d : dict) : N -> N := fun k => alookup k (d_list d).

  Definition is_reg (e : entry) : bool := negb (e_key e =? 0).
  Definition keys_of (l : list entry) : list N := map e_key (filter is_reg l).

  Definition so_sorted (l : list entry) : Prop := StronglySorted (fun a b => e_so a <= e_so b) l.
  Definition entry_ok (e : entry) : Prop :=
    (e_key e = 0 /\ e_val e = 0) \/ (e_key e <> 0 /\ e_val e <> 0 /\ e_so e = hk_of (e_key e)).
  Definition list_ok (l : list entry) : Prop := so_sorted l /\ Forall entry_ok l /\ NoDup (keys_of l).

  Lemma keys_of_app l1 l2 : keys_of (l1 ++ l2) = keys_of l1 ++ keys_of l2.
  Proof. unfold keys_of. rewrite filter_app, map_app. reflexivity. Qed.

  Lemma keys_of_cons e l : keys_of (e :: l) = if is_reg e then e_key e :: keys_of l else keys_of l.
  Proof. unfold keys_of. cbn. destruct (is_reg e); reflexivity. Qed.

  Lemma in_keys_of k l : In k (keys_of l) <-> exists e, In e l /\ e_key e = k /\ k <> 0.
  Proof.
    unfold keys_of. rewrite in_map_iff. split.
    - intros (e & <- & H). apply filter_In in H. destruct H as [Hin Hr]. exists e. unfold is_reg in Hr. repeat split; auto. lia.
    - intros (e & Hin & <- & Hz). exists e. split; auto. apply filter_In. split; auto. unfold is_reg. lia.
  Qed.

  Lemma alookup_none k l : (forall e, In e l -> e_key e <> k) -> alookup k l = 0.
  Proof.
    induction l as [|e t IH]; cbn; intros H; [reflexivity|].
    destruct (N.eqb_spec (e_key e) k) as [E|E]; [exfalso; apply (H e); auto|]. apply IH. intros; apply H; auto.
  Qed.

  Lemma alookup_app_skip k l1 l2 : (forall e, In e l1 -> e_key e <> k) -> alookup k (l1 ++ l2) = alookup k l2.
  Proof.
    induction l1 as [|e t IH]; cbn; intros H; [reflexivity|].
    destruct (N.eqb_spec (e_key e) k) as [E|E]; [exfalso; apply (H e); auto|]. apply IH. intros; apply H; auto.
  Qed.

  (* an entry with another key does not matter *)
  Lemma alookup_mid k l1 x l2 : e_key x <> k -> alookup k (l1 ++ x :: l2) = alookup k (l1 ++ l2).
  Proof.
    intros Hx. induction l1 as [|e t IH]; cbn.
    - destruct (N.eqb_spec (e_key x) k); [contradiction | reflexivity].
    - rewrite IH. reflexivity.
  Qed.

  (* ---------- qt_lf_list_find ---------- *)
  Definition skipped (hk key : N) (e : entry) : Prop :=
    e_so e < hk \/ (e_so e = hk /\ (e_key e = 0 \/ e_key e <> key)).

  Lemma lfind_spec hk key l : forall v n, lfind hk key l = (v, n) ->
    exists l1 l2, l = l1 ++ l2 /\ length l1 = n /\ Forall (skipped hk key) l1 /\
      ((l2 = [] /\ v = 0) \/
       (exists e t, l2 = e :: t /\ hk < e_so e /\ v = 0) \/
       (exists e t, l2 = e :: t /\ e_so e = hk /\ e_key e <> 0 /\ e_key e = key /\ v = e_val e)).
  Proof.
    induction l as [|e t IH]; cbn; intros v n H.
    - inversion H; subst. exists [], []. repeat split; auto.
    - destruct (N.leb_spec hk (e_so e)) as [Hle|Hlt].
      + destruct (N.eqb_spec (e_so e) hk) as [Heq|Hne].
        * destruct (negb (e_key e =? 0) && keq (e_key e) key) eqn:Hm.
          -- inversion H; subst. exists [], (e :: t). repeat split; auto. right; right.
             apply andb_true_iff in Hm. destruct Hm as [Hz Hk]. apply keq_spec in Hk.
             exists e, t. repeat split; auto. lia.
          -- destruct (lfind hk key t) as [v' n'] eqn:Ht. inversion H; subst.
             destruct (IH _ _ eq_refl) as (l1 & l2 & -> & Hlen & Hf & Hc).
             exists (e :: l1), l2. repeat split; cbn; auto. constructor; auto.
             right. split; auto. apply andb_false_iff in Hm. destruct Hm as [Hm|Hm]; [left; lia|].
             right. intro E. apply keq_spec in E. congruence.
        * inversion H; subst. exists [], (e :: t). repeat split; auto. right; left. exists e, t. repeat split; auto. lia.
      + destruct (lfind hk key t) as [v' n'] eqn:Ht. inversion H; subst.
        destruct (IH _ _ eq_refl) as (l1 & l2 & -> & Hlen & Hf & Hc).
        exists (e :: l1), l2. repeat split; cbn; auto. constructor; auto. left; exact Hlt.
  Qed.

  Lemma lfind_skip hk key l1 l2 :
    Forall (fun e => e_so e < hk) l1 ->
    lfind hk key (l1 ++ l2) = (fst (lfind hk key l2), (length l1 + snd (lfind hk key l2))%nat).
  Proof.
    induction l1 as [|e t IH]; cbn; intros H.
    - destruct (lfind hk key l2); reflexivity.
    - inversion H; subst. destruct (N.leb_spec hk (e_so e)); [lia|].
      rewrite IH by assumption. reflexivity.
  Qed.

  Lemma head_pos_split s l : (exists e, In e l /\ e_so e = s) ->
    exists l1 e l2, l = l1 ++ e :: l2 /\ length l1 = head_pos s l /\ e_so e = s.
  Proof.
    induction l as [|x t IH]; intros (e & Hin & Hs); [destruct Hin|]. cbn.
    destruct (N.eqb_spec (e_so x) s) as [E|E].
    - exists [], x, t. auto.
    - destruct Hin as [->|Hin]; [contradiction|].
      destruct IH as (l1 & e' & l2 & -> & Hl & Hs'); [exists e; auto|].
      exists (x :: l1), e', l2. cbn. auto.
  Qed.

  (* a search started at the bucket's dummy node sees what a search from the list head sees *)
  Lemma find_from_global d b hk key :
    so_sorted (d_list d) -> (exists e, In e (d_list d) /\ e_so e = so_dummykey b) -> so_dummykey b < hk ->
    find_from d b hk key = lfind hk key (d_list d).
  Proof.
    intros Hs Hex Hlt. unfold Model.find_from.
    destruct (head_pos_split _ _ Hex) as (l1 & e & l2 & El & Hlen & Hso).
    cbv zeta. rewrite <- Hlen. rewrite El. rewrite skipn_app_len.
    rewrite lfind_skip.
    - destruct (lfind hk key (e :: l2)); reflexivity.
    - rewrite Forall_forall. intros x Hx. unfold so_sorted in Hs. rewrite El in Hs.
      apply ssorted_app in Hs. destruct Hs as (_ & _ & H). specialize (H x e Hx (or_introl eq_refl)). lia.
  Qed.

  (* ---------- what find tells about the abstract map (well-formed lists) ---------- *)
  Lemma reg_so e : entry_ok e -> e_key e <> 0 -> e_so e = hk_of (e_key e).
  Proof. intros [[H _]|(_ & _ & H)] Hz; [contradiction | exact H]. Qed.

  Lemma skipped_not_key k l1 : k <> 0 -> Forall entry_ok l1 -> Forall (skipped (hk_of k) k) l1 ->
    forall e, In e l1 -> e_key e <> k.
  Proof.
    intros Hk Hok Hsk e Hin E. rewrite Forall_forall in Hok, Hsk.
    pose proof (Hok e Hin) as Ho. pose proof (Hsk e Hin) as [Hlt|[_ [Hz|Hne]]].
    - rewrite (reg_so e Ho) in Hlt by congruence. rewrite E in Hlt. lia.
    - congruence.
    - contradiction.
  Qed.

  Lemma above_not_key k e t : k <> 0 -> so_sorted (e :: t) -> Forall entry_ok (e :: t) -> hk_of k < e_so e ->
    forall x, In x (e :: t) -> e_key x <> k.
  Proof.
    intros Hk Hs Hok Hlt x Hin E. rewrite Forall_forall in Hok.
    assert (Hx : e_so e <= e_so x).
    { destruct Hin as [->|Hin]; [lia|]. inversion Hs as [|? ? _ Hf]; subst. rewrite Forall_forall in Hf. apply Hf; auto. }
    rewrite (reg_so x (Hok x Hin)) in Hx by congruence. rewrite E in Hx. lia.
  Qed.

  Definition find_result (k : N) (l : list entry) (v : N) (n : nat) : Prop :=
    exists l1 l2, l = l1 ++ l2 /\ length l1 = n /\
      (forall e, In e l1 -> e_key e <> k) /\ (forall e, In e l1 -> e_so e <= hk_of k) /\
      v = alookup k l /\
      ((v = 0 /\ (forall e, In e l2 -> hk_of k < e_so e) /\ (forall e, In e l -> e_key e <> k)) \/
       (exists e t, l2 = e :: t /\ e_so e = hk_of k /\ e_key e = k /\ e_val e = v /\ v <> 0)).

  Lemma lfind_result k l v n : k <> 0 -> list_ok l -> lfind (hk_of k) k l = (v, n) -> find_result k l v n.
  Proof.
    intros Hk (Hs & Hok & Hnd) H.
    destruct (lfind_spec _ _ _ _ _ H) as (l1 & l2 & -> & Hlen & Hsk & Hc).
    apply Forall_app in Hok. destruct Hok as [Hok1 Hok2].
    pose proof (skipped_not_key k l1 Hk Hok1 Hsk) as Hno1.
    assert (Hle : forall e, In e l1 -> e_so e <= hk_of k).
    { rewrite Forall_forall in Hsk. intros e He. destruct (Hsk e He) as [?|[? _]]; lia. }
    unfold so_sorted in Hs. apply ssorted_app in Hs. destruct Hs as (Hs1 & Hs2 & Hs12).
    destruct Hc as [[-> ->]|[(e & t & -> & Hlt & ->)|(e & t & -> & Hso & Hz & Hke & ->)]].
    - exists l1, []. refine (conj eq_refl (conj Hlen (conj Hno1 (conj Hle (conj _ _))))).
      + rewrite alookup_none; auto. intros e He. rewrite app_nil_r in He. auto.
      + left. repeat split; [intros ? []|]. intros e He. rewrite app_nil_r in He. auto.
    - pose proof (above_not_key k e t Hk Hs2 Hok2 Hlt) as Hno2.
      exists l1, (e :: t). refine (conj eq_refl (conj Hlen (conj Hno1 (conj Hle (conj _ _))))).
      + rewrite alookup_none; auto. intros x Hx. apply in_app_iff in Hx. destruct Hx; auto.
      + left. repeat split.
        * intros x Hx. destruct Hx as [<-|Hx]; [exact Hlt|]. inversion Hs2 as [|? ? _ Hf]; subst.
          rewrite Forall_forall in Hf. specialize (Hf x Hx). lia.
        * intros x Hx. apply in_app_iff in Hx. destruct Hx; auto.
    - assert (Hv : e_val e <> 0).
      { inversion Hok2 as [|? ? He _]; subst. destruct He as [[? _]|(_ & ? & _)]; [contradiction | assumption]. }
      exists l1, (e :: t). refine (conj eq_refl (conj Hlen (conj Hno1 (conj Hle (conj _ _))))).
      + rewrite alookup_app_skip by exact Hno1. cbn. rewrite Hke, N.eqb_refl. reflexivity.
      + right. exists e, t. repeat split; auto.
  Qed.

  (* ---------- list updates ---------- *)
  Lemma insert_at_split (l1 l2 : list entry) x : insert_at (length l1) x (l1 ++ l2) = l1 ++ x :: l2.
  Proof. unfold insert_at. rewrite firstn_app_len, skipn_app_len. reflexivity. Qed.
  Lemma replace_at_split (l1 t : list entry) e x : replace_at (length l1) x (l1 ++ e :: t) = l1 ++ x :: t.
  Proof.
    unfold replace_at. rewrite firstn_app_len, skipn_S_app_len. reflexivity.
  Qed.
  Lemma remove_at_split (l1 t : list entry) e : remove_at (length l1) (l1 ++ e :: t) = l1 ++ t.
  Proof.
    unfold remove_at. rewrite firstn_app_len, skipn_S_app_len. reflexivity.
  Qed.

  Lemma sorted_insert l1 l2 x :
    so_sorted (l1 ++ l2) -> (forall e, In e l1 -> e_so e <= e_so x) -> (forall e, In e l2 -> e_so x <= e_so e) ->
    so_sorted (l1 ++ x :: l2).
  Proof.
    unfold so_sorted. intros Hs H1 H2. apply ssorted_app in Hs. destruct Hs as (Hs1 & Hs2 & H12).
    apply ssorted_app. repeat split; auto.
    - constructor; auto. rewrite Forall_forall. exact H2.
    - intros a b Ha [<-|Hb]; auto.
  Qed.

  Lemma sorted_remove l1 l2 x : so_sorted (l1 ++ x :: l2) -> so_sorted (l1 ++ l2).
  Proof.
    unfold so_sorted. intros Hs. apply ssorted_app in Hs. destruct Hs as (Hs1 & Hs2 & H12).
    apply ssorted_app. inversion Hs2; subst. repeat split; auto. intros a b Ha Hb. apply H12; cbn; auto.
  Qed.

  Lemma sorted_mid l1 l2 x : so_sorted (l1 ++ x :: l2) ->
    (forall e, In e l1 -> e_so e <= e_so x) /\ (forall e, In e l2 -> e_so x <= e_so e).
  Proof.
    unfold so_sorted. intros Hs. apply ssorted_app in Hs. destruct Hs as (Hs1 & Hs2 & H12). split.
    - intros e He. apply H12; cbn; auto.
    - inversion Hs2 as [|? ? _ Hf]; subst. rewrite Forall_forall in Hf. exact Hf.
  Qed.

  Definition node_ok (k v : N) (x : entry) : Prop := x = mkE (hk_of k) k v.

  (* insertion of a new key *)
  Lemma list_insert_new k v l1 l2 : k <> 0 -> v <> 0 -> list_ok (l1 ++ l2) ->
    (forall e, In e l1 -> e_so e <= hk_of k) -> (forall e, In e l2 -> hk_of k < e_so e) ->
    (forall e, In e (l1 ++ l2) -> e_key e <> k) ->
    let l' := l1 ++ mkE (hk_of k) k v :: l2 in
    list_ok l' /\ (forall k', alookup k' l' = if k' =? k then v else alookup k' (l1 ++ l2)) /\
    length (keys_of l') = S (length (keys_of (l1 ++ l2))).
  Proof.
    intros Hk Hv (Hs & Hok & Hnd) H1 H2 Hno. cbv zeta. split; [|split].
    - split; [|split].
      + apply sorted_insert; auto. cbn. intros e He. specialize (H2 e He). lia.
      + apply Forall_app in Hok. destruct Hok. apply Forall_app. split; auto. constructor; auto.
        right. cbn. auto.
      + rewrite keys_of_app, keys_of_cons. unfold is_reg. cbn.
        destruct (N.eqb_spec k 0); [contradiction|]. cbn.
        apply NoDup_insert; rewrite <- keys_of_app; auto.
        intro Hin. apply in_keys_of in Hin. destruct Hin as (e & He & Hek & _). exact (Hno e He Hek).
    - intros k'. destruct (N.eqb_spec k' k) as [->|Hne].
      + rewrite alookup_app_skip; [cbn; rewrite N.eqb_refl; reflexivity|].
        intros e He. apply Hno. apply in_app_iff; auto.
      + apply alookup_mid. cbn. congruence.
    - rewrite !keys_of_app, keys_of_cons. unfold is_reg. cbn. destruct (N.eqb_spec k 0); [contradiction|].
      cbn. rewrite !app_length. cbn. lia.
  Qed.

  (* replacement of the node of an existing key *)
  Lemma list_replace k v l1 e t : k <> 0 -> v <> 0 -> list_ok (l1 ++ e :: t) -> e_key e = k -> e_so e = hk_of k ->
    (forall x, In x l1 -> e_key x <> k) ->
    let l' := l1 ++ mkE (hk_of k) k v :: t in
    list_ok l' /\ (forall k', alookup k' l' = if k' =? k then v else alookup k' (l1 ++ e :: t)) /\
    keys_of l' = keys_of (l1 ++ e :: t).
  Proof.
    intros Hk Hv (Hs & Hok & Hnd) Hek Hso Hno. cbv zeta.
    assert (Hkeys : keys_of (l1 ++ mkE (hk_of k) k v :: t) = keys_of (l1 ++ e :: t)).
    { rewrite !keys_of_app, !keys_of_cons. unfold is_reg. cbn. rewrite Hek. reflexivity. }
    split; [|split]; auto.
    - split; [|split].
      + destruct (sorted_mid _ _ _ Hs) as [Ha Hb]. apply sorted_insert.
        * eapply sorted_remove; eauto.
        * cbn. intros x Hx. specialize (Ha x Hx). lia.
        * cbn. intros x Hx. specialize (Hb x Hx). lia.
      + apply Forall_app in Hok. destruct Hok as [H1 H2]. inversion H2; subst. apply Forall_app. split; auto.
        constructor; auto. right. cbn. auto.
      + rewrite Hkeys. exact Hnd.
    - intros k'. destruct (N.eqb_spec k' k) as [->|Hne].
      + rewrite alookup_app_skip by exact Hno. cbn. rewrite N.eqb_refl. reflexivity.
      + rewrite alookup_mid by (cbn; congruence). rewrite alookup_mid by congruence. reflexivity.
  Qed.

  (* removal of the node of a key *)
  Lemma list_remove k l1 e t : k <> 0 -> list_ok (l1 ++ e :: t) -> e_key e = k ->
    let l' := l1 ++ t in
    list_ok l' /\ (forall k', alookup k' l' = if k' =? k then 0 else alookup k' (l1 ++ e :: t)) /\
    S (length (keys_of l')) = length (keys_of (l1 ++ e :: t)).
  Proof.
    intros Hk (Hs & Hok & Hnd) Hek. cbv zeta.
    assert (Hkeys : keys_of (l1 ++ e :: t) = keys_of l1 ++ k :: keys_of t).
    { rewrite keys_of_app, keys_of_cons. unfold is_reg. rewrite Hek. destruct (N.eqb_spec k 0); [contradiction|]. reflexivity. }
    rewrite Hkeys in Hnd. split; [|split].
    - split; [|split].
      + eapply sorted_remove; eauto.
      + apply Forall_app in Hok. destruct Hok as [H1 H2]. inversion H2; subst. apply Forall_app. auto.
      + rewrite keys_of_app. eapply NoDup_remove_1; eauto.
    - intros k'. destruct (N.eqb_spec k' k) as [->|Hne].
      + apply alookup_none. intros x Hx E. apply NoDup_remove_2 in Hnd. apply Hnd.
        rewrite <- keys_of_app. apply in_keys_of. exists x. auto.
      + rewrite alookup_mid by congruence. reflexivity.
    - rewrite Hkeys, keys_of_app, !app_length. cbn. lia.
  Qed.

  (* ---------- the dictionary invariant ---------- *)
  Definition Inv (d : dict) : Prop :=
    list_ok (d_list d) /\
    (exists k, d_size d = 2 ^ k) /\
    In 0 (d_B d) /\
    (forall b, In b (d_B d) -> exists e, In e (d_list d) /\ e_so e = so_dummykey b /\ e_key e = 0) /\
    N.of_nat (length (keys_of (d_list d))) <= d_count d.

  Lemma weaken_dummy (l : list entry) b :
    (exists e, In e l /\ e_so e = so_dummykey b /\ e_key e = 0) -> exists e, In e l /\ e_so e = so_dummykey b.
  Proof. intros (e & H1 & H2 & _). eauto. Qed.

  Definition same_frame (d d' : dict) : Prop :=
    d_size d' = d_size d /\ d_count d' = d_count d /\ d_cap d' = d_cap d /\
    (forall k, k <> 0 -> abs d' k = abs d k) /\ keys_of (d_list d') = keys_of (d_list d).

  Lemma same_frame_refl d : same_frame d d.
  Proof. repeat split; auto. Qed.

  Lemma same_frame_trans a b c : same_frame a b -> same_frame b c -> same_frame a c.
  Proof.
    intros (A1 & A2 & A3 & A4 & A5) (B1 & B2 & B3 & B4 & B5). repeat split; try congruence.
    intros k Hk. rewrite B4, A4; auto.
  Qed.

  Lemma is_init_In d b : is_init d b = true <-> In b (d_B d).
  Proof.
    unfold is_init. rewrite existsb_exists. split.
    - intros (x & Hx & E). apply N.eqb_eq in E. subst. exact Hx.
    - intros H. exists b. split; auto. apply N.eqb_refl.
  Qed.

  Lemma Inv_create cap : Inv (create cap).
  Proof.
    unfold Inv, create; cbn. split; [|split; [|split; [|split]]].
    - split; [|split].
      + repeat constructor.
      + constructor; [left; auto | constructor].
      + constructor.
    - exists 1. reflexivity.
    - auto.
    - intros b [<-|[]]. exists (mkE 0 0 0). split; [left; reflexivity | split; [vm_compute; reflexivity | reflexivity]].
    - lia.
  Qed.

  (* inserting the dummy node of a bucket *)
  Lemma list_insert_dummy s l v n : list_ok l -> lfind s 0 l = (v, n) ->
    v = 0 /\ let l' := insert_at n (mkE s 0 0) l in
    list_ok l' /\ (forall k, k <> 0 -> alookup k l' = alookup k l) /\ keys_of l' = keys_of l /\
    (forall e, In e l -> In e l') /\ In (mkE s 0 0) l'.
  Proof.
    intros (Hs & Hok & Hnd) H.
    destruct (lfind_spec _ _ _ _ _ H) as (l1 & l2 & -> & <- & Hsk & Hc).
    assert (Hv : v = 0).
    { destruct Hc as [[_ ->]|[(e & t & _ & _ & ->)|(e & t & _ & _ & Hz & Hk & _)]]; auto. contradiction. }
    split; [exact Hv|]. cbv zeta. rewrite insert_at_split.
    assert (H2 : forall e, In e l2 -> s <= e_so e).
    { destruct Hc as [[-> _]|[(e & t & -> & Hlt & _)|(e & t & _ & _ & Hz & Hk & _)]]; [intros ? [] | | contradiction].
      unfold so_sorted in Hs. apply ssorted_app in Hs. destruct Hs as (_ & Hs2 & _).
      intros x [<-|Hx]; [lia|]. inversion Hs2 as [|? ? _ Hf]; subst. rewrite Forall_forall in Hf. specialize (Hf x Hx). lia. }
    assert (H1 : forall e, In e l1 -> e_so e <= s).
    { rewrite Forall_forall in Hsk. intros e He. destruct (Hsk e He) as [?|[? _]]; lia. }
    repeat split.
    - apply sorted_insert; auto.
    - apply Forall_app in Hok. destruct Hok. apply Forall_app. split; auto. constructor; auto. left. auto.
    - rewrite keys_of_app, keys_of_cons. cbn. rewrite <- keys_of_app. exact Hnd.
    - intros k Hk. apply alookup_mid. cbn. congruence.
    - rewrite !keys_of_app, keys_of_cons. reflexivity.
    - intros e He. apply in_app_iff in He. apply in_app_iff. cbn. tauto.
    - apply in_app_iff. cbn. auto.
  Qed.

  Lemma init_bucket_ok fuel : forall d b, Inv d -> b <> 0 -> b < 2 ^ N.of_nat fuel -> b < 2 ^ 64 ->
    let d' := init_bucket keq fuel d b in
    Inv d' /\ same_frame d d' /\ In b (d_B d') /\ (forall b', In b' (d_B d) -> In b' (d_B d')).
  Proof.
    induction fuel as [|f IH]; intros d b Hinv Hb Hfuel H64.
    - cbn in Hfuel. lia.
    - cbn [init_bucket]. cbv zeta.
      set (parent := get_parent b).
      set (d1 := if is_init d parent then d else init_bucket keq f d parent).
      assert (H1 : Inv d1 /\ same_frame d d1 /\ In parent (d_B d1) /\ (forall b', In b' (d_B d) -> In b' (d_B d1))).
      { unfold d1. destruct (is_init d parent) eqn:Ei.
        - split; [exact Hinv | split; [apply same_frame_refl | split; [apply is_init_In; exact Ei | auto]]].
        - assert (parent <> 0).
          { intro E. rewrite E in Ei. destruct Hinv as (_ & _ & H0 & _). apply is_init_In in H0. congruence. }
          apply IH; auto.
          + apply get_parent_fuel. exact Hfuel.
          + pose proof (get_parent_le b). unfold parent. lia. }
      destruct H1 as (Hinv1 & Hf1 & Hp & Hmono1).
      destruct Hinv1 as (Hlok & Hsz & H0 & HB & Hcnt).
      rewrite find_from_global; [| apply Hlok | apply weaken_dummy, HB; exact Hp | apply so_dummy_parent_lt; assumption].
      destruct (lfind (so_dummykey b) 0 (d_list d1)) as [v pos] eqn:Ef.
      destruct (list_insert_dummy _ _ _ _ Hlok Ef) as (-> & Hl' & Hal & Hkeys & Hin & Hnew).
      cbn [N.eqb].
      split; [|split; [|split]].
      + unfold Inv, set_B, set_list; cbn [d_list d_B d_size d_count d_cap]. refine (conj Hl' (conj Hsz (conj (or_intror H0) (conj _ _)))).
        * intros b' [<-|Hb']; [eexists; split; [exact Hnew | split; reflexivity]|].
          destruct (HB b' Hb') as (e & He & Hso & Hke). exists e. auto.
        * rewrite Hkeys. exact Hcnt.
      + destruct Hf1 as (F1 & F2 & F3 & F4 & F5). unfold same_frame, set_B, set_list; cbn [d_list d_B d_size d_count d_cap].
        refine (conj F1 (conj F2 (conj F3 (conj _ _)))).
        * intros k Hk. unfold abs; cbn [d_list d_B d_size d_count d_cap]. rewrite Hal by exact Hk. apply F4. exact Hk.
        * rewrite Hkeys. exact F5.
      + cbn. auto.
      + intros b' Hb'. cbn. right. apply Hmono1. exact Hb'.
  Qed.

  Lemma lkey_lt k : lkey_of hash k < 2 ^ 63.
  Proof. unfold lkey_of. rewrite N.land_ones. apply N.mod_lt. discriminate. Qed.

  Lemma prep_ok d k : Inv d ->
    let '(d1, b, hk) := prep hash keq d k in
    Inv d1 /\ same_frame d d1 /\ hk = hk_of k /\ find_from d1 b hk k = lfind hk k (d_list d1).
  Proof.
    intros Hinv. unfold prep. cbv zeta.
    set (lk := lkey_of hash k). set (b := lk mod d_size d).
    pose proof (lkey_lt k) as Hlk. fold lk in Hlk.
    pose proof Hinv as (Hlok & (kk & Hsz) & H0 & HB & Hcnt).
    assert (Hblt : b < 2 ^ 63).
    { unfold b. rewrite Hsz. pose proof (N.mod_le lk (2 ^ kk) ltac:(apply N.pow_nonzero; discriminate)). lia. }
    assert (Hlt : so_dummykey b < so_regularkey lk).
    { unfold b. rewrite Hsz. apply so_dummy_lt_regular. exact Hlk. }
    destruct (is_init d b) eqn:Ei.
    - split; [exact Hinv | split; [apply same_frame_refl | split; [reflexivity|]]].
      apply find_from_global; [apply Hlok | apply weaken_dummy, HB; apply is_init_In; exact Ei | exact Hlt].
    - assert (Hb0 : b <> 0).
      { intro E. rewrite E in Ei. apply is_init_In in H0. congruence. }
      destruct (init_bucket_ok 64 d b Hinv Hb0) as (Hinv1 & Hf1 & Hb1 & _).
      + change (N.of_nat 64) with 64. lia.
      + lia.
      + split; [exact Hinv1 | split; [exact Hf1 | split; [reflexivity|]]].
        destruct Hinv1 as ((Hs1 & _) & _ & _ & HB1 & _).
        apply find_from_global; [exact Hs1 | apply weaken_dummy, HB1; exact Hb1 | exact Hlt].
  Qed.

  Lemma bump_ok d l' : Inv d -> list_ok l' ->
    (forall b, In b (d_B d) -> exists e, In e l' /\ e_so e = so_dummykey b /\ e_key e = 0) ->
    (length (keys_of l') <= S (length (keys_of (d_list d))))%nat ->
    Inv (bump (set_list d l')) /\ d_list (bump (set_list d l')) = l'.
  Proof.
    intros (Hlok & (kk & Hsz) & H0 & HB & Hcnt) Hl' HB' Hlen. unfold bump, set_list, set_count, set_size.
    cbn [d_list d_B d_size d_count d_cap].
    destruct ((MAX_LOAD <? d_count d / d_size d) && (2 * d_size d <=? d_cap d)); (split; [|reflexivity]);
      unfold Inv; cbn [d_list d_B d_size d_count d_cap]; refine (conj Hl' (conj _ (conj H0 (conj HB' _)))); try lia.
    - exists (N.succ kk). rewrite N.pow_succ_r', Hsz. reflexivity.
    - exists kk. exact Hsz.
  Qed.

  (* ---------- the four operations against the map specification ---------- *)
  Definition upd (m : N -> N) (k v : N) : N -> N := fun k' => if k' =? k then v else m k'.

  Lemma put_ok d k v : Inv d -> k <> 0 -> v <> 0 ->
    Inv (fst (put hash keq d k v)) /\ snd (put hash keq d k v) = v /\
    (forall k', k' <> 0 -> abs (fst (put hash keq d k v)) k' = upd (abs d) k v k').
  Proof.
    intros Hinv Hk Hv. unfold put.
    pose proof (prep_ok d k Hinv) as Hp. destruct (prep hash keq d k) as [[d1 b] hk].
    destruct Hp as (Hinv1 & Hf & -> & Hff). rewrite Hff.
    destruct (lfind (hk_of k) k (d_list d1)) as [fv pos] eqn:Ef.
    pose proof Hinv1 as (Hlok & _ & _ & HB & _).
    destruct (lfind_result k _ _ _ Hk Hlok Ef) as (l1 & l2 & El & <- & Hno1 & Hle1 & Hval & Hc).
    destruct Hf as (_ & _ & _ & Habs & _).
    destruct Hc as [(-> & Hgt & Hno)|(e & t & -> & Hso & Hek & Hev & Hnz)].
    - cbn [N.eqb]. rewrite El, insert_at_split.
      rewrite El in Hlok, Hno.
      destruct (list_insert_new k v l1 l2 Hk Hv Hlok Hle1 Hgt Hno) as (Hl' & Hal & Hlen).
      destruct (bump_ok d1 _ Hinv1 Hl') as (Hinv' & El').
      + intros b' Hb'. destruct (HB b' Hb') as (e & He & Hso & Hke). exists e. split; auto.
        rewrite El in He. apply in_app_iff in He. apply in_app_iff. cbn. tauto.
      + rewrite Hlen, El. lia.
      + cbn [fst snd]. split; [exact Hinv' | split; [reflexivity|]]. intros k' Hk'. unfold abs, upd. rewrite El', Hal.
        destruct (k' =? k); auto. rewrite <- El. apply Habs. exact Hk'.
    - destruct (N.eqb_spec fv 0) as [E|_]; [contradiction|].
      rewrite El, replace_at_split. rewrite El in Hlok.
      destruct (list_replace k v l1 e t Hk Hv Hlok Hek Hso Hno1) as (Hl' & Hal & Hkeys).
      destruct (bump_ok d1 _ Hinv1 Hl') as (Hinv' & El').
      + intros b' Hb'. destruct (HB b' Hb') as (x & Hx & Hsox & Hkx).
        rewrite El in Hx. apply in_app_iff in Hx. destruct Hx as [Hx|[<-|Hx]].
        * exists x. split; auto. apply in_app_iff. auto.
        * congruence.
        * exists x. split; auto. apply in_app_iff. cbn. auto.
      + rewrite Hkeys, El. lia.
      + cbn [fst snd]. split; [exact Hinv' | split; [reflexivity|]]. intros k' Hk'. unfold abs, upd. rewrite El', Hal.
        destruct (k' =? k); auto. rewrite <- El. apply Habs. exact Hk'.
  Qed.

  Lemma pia_ok d k v : Inv d -> k <> 0 -> v <> 0 ->
    let r := put_if_absent hash keq d k v in
    Inv (fst r) /\ snd r = (if abs d k =? 0 then v else abs d k) /\
    (forall k', k' <> 0 -> abs (fst r) k' = (if abs d k =? 0 then upd (abs d) k v else abs d) k').
  Proof.
    intros Hinv Hk Hv. cbv zeta. unfold put_if_absent.
    pose proof (prep_ok d k Hinv) as Hp. destruct (prep hash keq d k) as [[d1 b] hk].
    destruct Hp as (Hinv1 & Hf & -> & Hff). rewrite Hff.
    destruct (lfind (hk_of k) k (d_list d1)) as [fv pos] eqn:Ef.
    pose proof Hinv1 as (Hlok & _ & _ & HB & _).
    destruct (lfind_result k _ _ _ Hk Hlok Ef) as (l1 & l2 & El & <- & Hno1 & Hle1 & Hval & Hc).
    destruct Hf as (_ & _ & _ & Habs & _).
    assert (Hfv : fv = abs d k) by (rewrite <- Habs by exact Hk; exact Hval).
    rewrite <- Hfv.
    destruct Hc as [(-> & Hgt & Hno)|(e & t & -> & Hso & Hek & Hev & Hnz)].
    - cbn [N.eqb]. rewrite El, insert_at_split.
      rewrite El in Hlok, Hno.
      destruct (list_insert_new k v l1 l2 Hk Hv Hlok Hle1 Hgt Hno) as (Hl' & Hal & Hlen).
      destruct (bump_ok d1 _ Hinv1 Hl') as (Hinv' & El').
      + intros b' Hb'. destruct (HB b' Hb') as (e & He & Hso & Hke). exists e. split; auto.
        rewrite El in He. apply in_app_iff in He. apply in_app_iff. cbn. tauto.
      + rewrite Hlen, El. lia.
      + cbn [fst snd]. split; [exact Hinv' | split; [reflexivity|]]. intros k' Hk'. unfold abs, upd. rewrite El', Hal.
        destruct (k' =? k); auto. rewrite <- El. apply Habs. exact Hk'.
    - destruct (N.eqb_spec fv 0) as [E|_]; [contradiction|].
      cbn [fst snd]. split; [exact Hinv1 | split; [reflexivity | exact Habs]].
  Qed.

  Lemma get_ok d k : Inv d -> k <> 0 ->
    Inv (fst (get hash keq d k)) /\ snd (get hash keq d k) = abs d k /\
    same_frame d (fst (get hash keq d k)).
  Proof.
    intros Hinv Hk. unfold get.
    pose proof (prep_ok d k Hinv) as Hp. destruct (prep hash keq d k) as [[d1 b] hk].
    destruct Hp as (Hinv1 & Hf & -> & Hff). rewrite Hff. cbn [fst snd].
    destruct (lfind (hk_of k) k (d_list d1)) as [fv pos] eqn:Ef.
    pose proof Hinv1 as (Hlok & _).
    destruct (lfind_result k _ _ _ Hk Hlok Ef) as (l1 & l2 & El & _ & _ & _ & Hval & _).
    destruct Hf as (F1 & F2 & F3 & F4 & F5).
    split; [exact Hinv1 | split; [| repeat split; assumption]]. cbn. rewrite Hval. apply F4. exact Hk.
  Qed.

  Lemma remove_ok d k : Inv d -> k <> 0 ->
    let r := remove hash keq d k in
    Inv (fst r) /\ snd r = negb (abs d k =? 0) /\
    (forall k', k' <> 0 -> abs (fst r) k' = upd (abs d) k 0 k').
  Proof.
    intros Hinv Hk. cbv zeta. unfold remove.
    pose proof (prep_ok d k Hinv) as Hp. destruct (prep hash keq d k) as [[d1 b] hk].
    destruct Hp as (Hinv1 & Hf & -> & Hff). rewrite Hff.
    destruct (lfind (hk_of k) k (d_list d1)) as [fv pos] eqn:Ef.
    pose proof Hinv1 as (Hlok & Hsz & H0 & HB & Hcnt).
    destruct (lfind_result k _ _ _ Hk Hlok Ef) as (l1 & l2 & El & <- & Hno1 & Hle1 & Hval & Hc).
    destruct Hf as (_ & _ & _ & Habs & _).
    assert (Hfv : fv = abs d k) by (rewrite <- Habs by exact Hk; exact Hval).
    rewrite <- Hfv.
    destruct Hc as [(-> & Hgt & Hno)|(e & t & -> & Hso & Hek & Hev & Hnz)].
    - cbn [N.eqb fst snd negb]. split; [exact Hinv1 | split; [reflexivity|]]. intros k' Hk'. unfold upd.
      destruct (N.eqb_spec k' k) as [->|_]; [|apply Habs; exact Hk'].
      rewrite Habs by exact Hk. symmetry. exact Hfv.
    - destruct (N.eqb_spec fv 0) as [E|_]; [contradiction|]. cbn [fst snd negb].
      rewrite El, remove_at_split. rewrite El in Hlok.
      destruct (list_remove k l1 e t Hk Hlok Hek) as (Hl' & Hal & Hlen).
      split; [|split; [reflexivity|]].
      + unfold Inv, set_count, set_list; cbn [d_list d_B d_size d_count d_cap]. refine (conj Hl' (conj Hsz (conj H0 (conj _ _)))).
        * intros b' Hb'. destruct (HB b' Hb') as (x & Hx & Hsox & Hkx).
          rewrite El in Hx. apply in_app_iff in Hx. destruct Hx as [Hx|[<-|Hx]].
          -- exists x. split; auto. apply in_app_iff. auto.
          -- congruence.
          -- exists x. split; auto. apply in_app_iff. auto.
        * rewrite El in Hcnt. lia.
      + intros k' Hk'. unfold abs, upd, set_count, set_list; cbn [d_list d_B d_size d_count d_cap]. rewrite Hal. destruct (k' =? k); auto. rewrite <- El. apply Habs. exact Hk'.
  Qed.
End Refinement.
