From Coq Require Import List NArith.
From QV Require Import Dict.Micro.
Require Extraction.
Require Import ExtrOcamlBasic.
Extraction Language OCaml.
Extraction "../ocaml/gen/c16m_model.ml" mstep run_to_sp mlist minit getn.
