From Coq Require Import List NArith.
From QV Require Import Dict.Model.
Require Extraction.
Require Import ExtrOcamlBasic.
Extraction Language OCaml.
Extraction "../ocaml/gen/c16_model.ml" create put put_if_absent get delete iterate it_create it_end it_get it_equals it_next hash64 rev64 reverse_byte get_parent so_regularkey so_dummykey is_init.
