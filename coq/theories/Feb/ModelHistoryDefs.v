(* Extension R (C01/C02): the history of a run of the op-atomic FEB model.
   Feb/Model.v executes a script of (task, call) steps; every step yields the list of events `Ret t c x` that say which
   pending call returns at that step (the caller's own call, then the waiters it released, in the model's order of effects).
   This file turns such a run into a history in the vocabulary of Feb/History.v (the one the free-running tier M4 builds from
   tickets logged by the real code): a call on the word gets an invocation ticket when it is issued and a return ticket when
   its `Ret` event is emitted - at once, or at a later step whose call releases it - and stays pending (h_ret = None) when
   the run ends with the task still blocked.  Definitions only (executable, extracted by Feb/ExtractLink.v); the theorems
   are in Feb/ModelHistory.v. *)
From Coq Require Import List ZArith NArith Bool.
Import ListNotations.
From QV Require Import Cell.Spec Feb.Model Feb.Proofs Feb.History.
Local Open Scope N_scope.

(* state of the history builder for one word: next ticket, the calls that returned (in the order of their return tickets),
   the calls still pending with the task that issued them *)
Record bst := mkB { b_clk : N; b_done : list hop; b_pend : list (N * hop) }.
Definition b0 : bst := mkB 1 [] [].

(* what a caller can observe of the result, given the value the model stored into its own buffer: a read into an own buffer
   sees the value, a read into NULL / into the word itself sees nothing, status sees the bit, the other calls see that there
   is no result (the encoding of lib/verif/props/_feb_free.py: Dv<value> / D- / Db<bit> / Dn) *)
Definition obs_of (c : cop) (v : option Z) : option cres :=
  match c with
  | CReadFE | CReadFF | CReadXX => match v with Some x => Some (RVal x) | None => None end
  | CStatus => match v with Some x => Some (RBit (negb (Z.eqb x 0))) | None => None end
  | _ => Some RNone
  end.

(* the call as it is issued: id = invocation ticket (unique), cell operation and nb flag by the abstraction of Feb/Proofs.v *)
Definition new_hop (o : op) (inv : N) : hop := mkHop inv (cop_of o) (is_nb o) inv None (ODone None).
(* ... and as it returns at ticket r with code c and buffer value v *)
Definition finish (p : hop) (r : N) (c : code) (v : option Z) : hop :=
  mkHop (h_id p) (h_op p) (h_nb p) (h_inv p) (Some r)
        (match c with OK => ODone (obs_of (h_op p) v) | OPFAIL => OFail end).

Fixpoint take_tid (t : N) (pend : list (N * hop)) : option (hop * list (N * hop)) :=
  match pend with
  | [] => None
  | (t', p) :: rest =>
      if N.eqb t t' then Some (p, rest)
      else match take_tid t rest with Some (q, r) => Some (q, (t', p) :: r) | None => None end
  end.

(* `Ret t c v`: the pending call of task t returns now *)
Definition on_event (b : bst) (e : event) : bst :=
  match e with
  | Ret t c v =>
      match take_tid t (b_pend b) with
      | Some (p, rest) => mkB (N.succ (b_clk b)) (b_done b ++ [finish p (b_clk b) c v]) rest
      | None => b
      end
  | _ => b
  end.
Definition on_events (b : bst) (evs : list event) : bst := fold_left on_event evs b.

(* one script step seen from word a: s = the model state before the step, evs = the events the model emitted.
   A call on a by a task that is not blocked is issued (invocation ticket), then the events are played; every other step
   (another word, a spawn, an ignored step of a blocked task) only advances the clock. *)
Definition bstep (a : N) (s : state) (b : bst) (t : N) (g : gop) (evs : list event) : bst :=
  match g with
  | GWord a' o =>
      if N.eqb a' a && negb (is_blocked s t)
      then on_events (mkB (N.succ (b_clk b)) (b_done b) ((t, new_hop o (b_clk b)) :: b_pend b)) evs
      else mkB (N.succ (b_clk b)) (b_done b) (b_pend b)
  | GSpawn _ _ => mkB (N.succ (b_clk b)) (b_done b) (b_pend b)
  end.

(* the model run (Feb.Model.run_ops) with the builder of word a alongside *)
Fixpoint build (a : N) (s : state) (b : bst) (l : list (N * gop)) : state * bst :=
  match l with
  | [] => (s, b)
  | (t, g) :: l' => let '(s1, ev) := step s t g in build a s1 (bstep a s b t g ev) l'
  end.

(* the history is presented in invocation order (the order a logger would write it), not in the order of effects *)
Fixpoint insert_inv (x : hop) (l : list hop) : list hop :=
  match l with
  | [] => [x]
  | y :: l' => if h_inv x <=? h_inv y then x :: l else y :: insert_inv x l'
  end.
Definition sort_inv (l : list hop) : list hop := fold_right insert_inv [] l.

Definition hist_of_bst (b : bst) : list hop := sort_inv (b_done b ++ map snd (b_pend b)).
Definition hist_from (s0 : state) (l : list (N * gop)) (a : N) : list hop := hist_of_bst (snd (build a s0 b0 l)).
(* the history of word a in the run of script l from the initial state of Feb.Model.exec *)
Definition hist_of_run (l : list (N * gop)) (a : N) : list hop := hist_from init l a.

(* the abstract cell of word a in a model state (absent record = full) *)
Definition cell_at (s : state) (a : N) : cell := cell_of (lookup a (st_febs s)) (memget a s).
Definition state_after (s0 : state) (l : list (N * gop)) : state := fst (run_ops s0 l).

(* ---------- the executable cross-check (ocaml/c01link_driver.ml) ---------- *)
(* perturbations of a history, used as negative controls of the cross-check: the i-th call never returned; the return
   tickets of the i-th and j-th call are exchanged; the i-th call observed another value *)
Inductive mutation := MNone | MDropRet (i : nat) | MSwapRet (i j : nat) | MBumpVal (i : nat).

Definition set_ret (x : hop) (r : option N) : hop := mkHop (h_id x) (h_op x) (h_nb x) (h_inv x) r (h_out x).
Definition bump_out (x : hop) : hop :=
  mkHop (h_id x) (h_op x) (h_nb x) (h_inv x) (h_ret x)
        (match h_out x with ODone (Some (RVal v)) => ODone (Some (RVal (v + 1)%Z)) | o => o end).
Fixpoint map_nth {A} (f : A -> A) (i : nat) (l : list A) : list A :=
  match l, i with
  | [], _ => []
  | x :: l', O => f x :: l'
  | x :: l', S k => x :: map_nth f k l'
  end.
Definition ret_at (h : list hop) (i : nat) : option N := match nth_error h i with Some x => h_ret x | None => None end.
Definition mutate (m : mutation) (h : list hop) : list hop :=
  match m with
  | MNone => h
  | MDropRet i => map_nth (fun x => set_ret x None) i h
  | MSwapRet i j =>
      let ri := ret_at h i in let rj := ret_at h j in
      map_nth (fun x => set_ret x ri) j (map_nth (fun x => set_ret x rj) i h)
  | MBumpVal i => map_nth bump_out i h
  end.

(* some call was invoked while another one was in flight (overlapping tickets) *)
Definition in_flight_at (x : hop) (tk : N) : bool :=
  (h_inv x <? tk) && match h_ret x with Some r => tk <? r | None => true end.
Definition has_overlap (h : list hop) : bool := existsb (fun x => existsb (fun y => in_flight_at x (h_inv y)) h) h.

Definition verdict_code (v : verdict) : N := match v with Accept _ => 0 | Reject => 1 | Unknown => 2 | Bug => 3 end.

(* (verdict, calls, pending calls, overlap?, the history's tickets for the log) of word a in the run of l from memory mem *)
Definition feb_link (fuel : N) (mem : list (N * Z)) (l : list (N * gop)) (m : mutation) (a : N)
  : N * (N * (N * bool)) :=
  let s0 := mkSt mem [] [] in
  let h := mutate m (hist_from s0 l a) in
  (verdict_code (decide fuel (cell_at s0 a) h (cell_at (state_after s0 l) a)),
   (N.of_nat (length h), (N.of_nat (length (pending h)), has_overlap h))).
