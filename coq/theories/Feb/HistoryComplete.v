(* Completeness of the exhaustive search of Feb/History.v: when it answers NotFound (verdict Reject) the history has no
   linearisation at all.  The memo only ever holds configurations from which no linearisation can be completed. *)
From Coq Require Import List ZArith NArith Bool Permutation Sorted Lia.
Import ListNotations.
From QV Require Import Cell.Spec Feb.History Feb.HistoryProofs.
Local Open Scope N_scope.

Lemma cell_eqb_refl c : cell_eqb c c = true.
Proof. destruct c as [f v]. unfold cell_eqb. simpl. rewrite eqb_reflx, Z.eqb_refl. reflexivity. Qed.

Lemma key_eqb_eq a b : key_eqb a b = true -> a = b.
Proof.
  destruct a as [ra ca], b as [rb cb]. unfold key_eqb. simpl.
  destruct (cell_eq_dec ca cb); [|discriminate]. destruct (list_eq_dec hop_eq_dec ra rb); [|discriminate]. intros _. congruence.
Qed.

Lemma mem_key_in k seen : mem_key k seen = true -> In k seen.
Proof.
  unfold mem_key. rewrite existsb_exists. intros (k' & I & E). apply key_eqb_eq in E. subst. exact I.
Qed.

Definition wf_l (l : list hop) : Prop := Forall (fun x => forall r, h_ret x = Some r -> h_inv x < r) l.

Lemma minret_in l : forall m, minret l = Some m -> exists y, In y l /\ h_ret y = Some m.
Proof.
  induction l as [|x l IH]; simpl; intros m H; [discriminate|].
  destruct (h_ret x) as [r|] eqn:R.
  - destruct (minret l) as [m'|] eqn:M.
    + inversion H; subst. destruct (N.min_spec r m') as [[_ E]|[_ E]]; rewrite E.
      * exists x. split; [left; reflexivity|exact R].
      * destruct (IH m' eq_refl) as (y & I & Y). exists y. split; [right; exact I|exact Y].
    + inversion H; subst. exists x. split; [left; reflexivity|exact R].
  - destruct (IH m H) as (y & I & Y). exists y. split; [right; exact I|exact Y].
Qed.

Section Complete.
  Variable cfin : cell.
  Variable pend : list hop.

  (* from cell c the calls rem can still be linearised into the final state, with the pending calls disabled there *)
  Definition live (c : cell) (rem : list hop) : Prop :=
    exists l, Permutation l rem /\ StronglySorted rt_compat l /\ hrun c l cfin /\ quiescent_b pend cfin = true.
  Definition dead_keys (seen : list key) : Prop := forall rem c, In (rem, c) seen -> ~ live c rem.
  Definition rec_ok (rec : cell -> list hop -> list key -> N -> sres * list key * N) : Prop :=
    forall c rem seen b r seen' b', wf_l rem -> dead_keys seen -> rec c rem seen b = (r, seen', b') ->
      dead_keys seen' /\ (r = NotFound -> ~ live c rem).

  (* x can be the first call of a linearisation of rem *)
  Definition first_ok (c : cell) (rem : list hop) (x : hop) : Prop :=
    exists l', Permutation (x :: l') rem /\ StronglySorted rt_compat (x :: l') /\ hrun c (x :: l') cfin /\ quiescent_b pend cfin = true.

  Lemma not_cand_not_first c rem x :
    wf_l rem -> In x rem -> cand (minret rem) x = false -> ~ first_ok c rem x.
  Proof.
    intros W Ix C (l' & P & S & _ & _). unfold cand in C. destruct (minret rem) as [m|] eqn:M; [|discriminate].
    apply N.leb_gt in C. destruct (minret_in _ _ M) as (y & Iy & Ry).
    assert (Nyx : y <> x).
    { intros ->. unfold wf_l in W. rewrite Forall_forall in W. specialize (W x Ix m Ry). lia. }
    assert (Iy' : In y l').
    { apply (Permutation_in _ (Permutation_sym P)) in Iy. destruct Iy as [E|I]; [congruence|exact I]. }
    inversion S as [|? ? _ F]; subst. rewrite Forall_forall in F. apply (F y Iy'). unfold rt_before. rewrite Ry. exact C.
  Qed.

  Lemma try_cands_ok rec c rem :
    rec_ok rec -> wf_l rem -> rem <> [] ->
    forall post pre seen b r seen' b',
      rem = rev pre ++ post -> dead_keys seen -> (forall x, In x pre -> ~ first_ok c rem x) ->
      try_cands rec c (minret rem) (rem, c) pre post seen b = (r, seen', b') ->
      dead_keys seen' /\ (r = NotFound -> ~ live c rem).
  Proof.
    intros RO W NE. induction post as [|x post IH]; intros pre seen b r seen' b' E D NF T; simpl in T.
    - inversion T; subst r seen' b'. rewrite app_nil_r in E.
      assert (NL : ~ live c rem).
      { intros (l & P & S & R & Q). destruct l as [|x l'].
        - apply Permutation_nil in P. congruence.
        - apply (NF x).
          + rewrite in_rev. rewrite <- E. eapply Permutation_in; [exact P|left; reflexivity].
          + exists l'. auto. }
      split; [|intros _; exact NL].
      intros rem1 c1 [K|I]; [inversion K; subst; exact NL|apply D; exact I].
    - assert (Ix : In x rem) by (rewrite E; apply in_or_app; right; left; reflexivity).
      assert (E' : rem = rev (x :: pre) ++ post) by (simpl; rewrite <- app_assoc; exact E).
      assert (step : ~ first_ok c rem x -> forall s bb, dead_keys s ->
                     try_cands rec c (minret rem) (rem, c) (x :: pre) post s bb = (r, seen', b') ->
                     dead_keys seen' /\ (r = NotFound -> ~ live c rem)).
      { intros NX s bb Ds Ts. eapply IH; [exact E'|exact Ds| |exact Ts].
        intros z [->|Iz]; [exact NX|apply NF; exact Iz]. }
      destruct (cand (minret rem) x) eqn:C.
      + destruct (apply_op c x) as [c1|] eqn:A.
        * destruct (rec c1 (rev_append pre post) seen b) as [[r1 s1] b1] eqn:R.
          assert (W1 : wf_l (rev_append pre post)).
          { unfold wf_l in *. rewrite Forall_forall in *. intros z Iz. apply W. rewrite E.
            rewrite rev_append_rev in Iz. apply in_app_or in Iz. apply in_or_app. destruct Iz; [left|right; right]; assumption. }
          destruct (RO _ _ _ _ _ _ _ W1 D R) as [D1 N1].
          destruct r1 as [w| |].
          -- inversion T; subst. split; [exact D1|discriminate].
          -- apply (step) with (s := s1) (bb := b1); [|exact D1|exact T].
             intros (l' & P & S & Hr & Q). apply (N1 eq_refl).
             destruct (hrun_cons_inv _ _ _ _ Hr) as (c1' & A' & Hr'). rewrite A in A'. inversion A'; subst c1'.
             exists l'. split; [|split; [inversion S; assumption|split; assumption]].
             rewrite rev_append_rev. rewrite E in P. apply Permutation_cons_app_inv in P. exact P.
          -- inversion T; subst. split; [exact D1|discriminate].
        * apply (step) with (s := seen) (bb := b); [|exact D|exact T].
          intros (l' & _ & _ & Hr & _). destruct (hrun_cons_inv _ _ _ _ Hr) as (c1' & A' & _). congruence.
      + apply (step) with (s := seen) (bb := b); [|exact D|exact T].
        apply not_cand_not_first; assumption.
  Qed.

  Lemma search_ok depth : rec_ok (search cfin pend depth).
  Proof.
    induction depth as [|d IH]; intros c rem seen b r seen' b' W D S; simpl in S.
    - inversion S; subst. split; [exact D|discriminate].
    - destruct b as [|pb]; [inversion S; subst; split; [exact D|discriminate]|].
      destruct rem as [|x0 rem0].
      + destruct (final_ok cfin pend c) eqn:F; inversion S; subst; (split; [exact D|]); [discriminate|].
        intros _ (l & P & _ & R & Q). apply Permutation_sym, Permutation_nil in P. subst l. inversion R; subst.
        unfold final_ok in F. rewrite cell_eqb_refl, Q in F. discriminate.
      + destruct (mem_key (x0 :: rem0, c) seen) eqn:M.
        * inversion S; subst. split; [exact D|]. intros _. apply D. apply mem_key_in. exact M.
        * eapply (try_cands_ok (search cfin pend d) c (x0 :: rem0) IH W); [discriminate| |exact D| |exact S].
          -- reflexivity.
          -- intros z [].
  Qed.
End Complete.

Lemma wf_b_completed h : wf_b h = true -> wf_l (completed h).
Proof.
  unfold wf_b, wf_l, completed. rewrite forallb_forall, Forall_forall. intros H x Ix r R.
  apply filter_In in Ix. destruct Ix as [Ix _]. specialize (H x Ix). rewrite R in H. apply N.ltb_lt. exact H.
Qed.

Theorem reject_complete fuel c0 h cfin : decide fuel c0 h cfin = Reject -> ~ explained c0 h cfin.
Proof.
  unfold decide. remember (S (length h)) as depth eqn:Hd. clear Hd.
  destruct (wf_b h) eqn:W; cbn [negb]; [|discriminate].
  destruct (match fst (fsearch cfin (pending h) depth c0 (completed h) fuel) with
            | Some w => if check_lin c0 h cfin w then Some w else None | None => None end); [discriminate|].
  destruct (search cfin (pending h) depth c0 (completed h) [] fuel) as [[r s] b] eqn:S. cbn [fst].
  destruct r as [w| |]; [destruct (check_lin c0 h cfin w); discriminate| |discriminate].
  intros _ (l & (P & St & R) & Q).
  destruct (search_ok cfin (pending h) _ _ _ _ _ _ _ _ (wf_b_completed h W) (fun _ _ (I : In _ []) => match I with end) S) as [_ N].
  apply (N eq_refl). exists l. split; [exact P|]. split; [exact St|]. split; [exact R|].
  unfold quiescent_b. rewrite forallb_forall. intros p Ip. rewrite (Q p Ip). reflexivity.
Qed.
