(* Proofs about the concrete FEB model (Feb/Model.v) against the abstract cell (Cell/Spec.v). *)
From Coq Require Import List ZArith NArith Bool Lia Permutation.
Import ListNotations.
From QV Require Import Cell.Spec Feb.Model.

(* ------------------------------------------------------------------ invariant of one record *)
Definition no_nascent (q : list waiter) : Prop := Forall (fun w => w_nascent w = false) q.

Record winv (r : rec) : Prop := mkWinv {
  wi_full  : r_full r = true -> r_FEQ r = [] /\ r_FFQ r = [] /\ r_FFWQ r = [];
  wi_empty : r_full r = false -> r_EFQ r = [];
  wi_nasE  : no_nascent (r_EFQ r);
  wi_nasF  : no_nascent (r_FEQ r) }.

Definition winv_opt (ro : option rec) : Prop := match ro with Some r => winv r | None => True end.

Lemma winv_new : winv new_rec.
Proof. constructor; simpl; intros; try discriminate; auto; constructor. Qed.

(* ------------------------------------------------------------------ the inner functions under the invariant *)
Lemma fill_on_full f r v :
  winv r -> r_full r = true ->
  fill_inner (S f) r v = Some (mkRec true (r_EFQ r) [] [] [], v, []).
Proof.
  intros I F. destruct (wi_full r I F) as (E1 & E2 & E3). simpl. rewrite E1, E2, E3. reflexivity.
Qed.

Lemma empty_on_empty f r v :
  r_EFQ r = [] ->
  empty_inner (S f) r v = Some (mkRec false [] (r_FEQ r) (r_FFQ r) (r_FFWQ r), v, []).
Proof. intros E. simpl. rewrite E. reflexivity. Qed.

Lemma fill_on_empty f r v :
  r_EFQ r = [] ->
  fill_inner (S (S f)) r v =
    let '(v1, rs1) := drain_ffwq (r_FFWQ r) v in
    let rs2 := drain_ffq (r_FFQ r) v1 in
    match r_FEQ r with
    | [] => Some (mkRec true [] [] [] [], v1, rs1 ++ rs2)
    | w :: feq => Some (mkRec false [] feq [] [], v1, rs1 ++ rs2 ++ [(w_tid w, false, deliver (w_dest w) v1)])
    end.
Proof.
  intros E. cbn [fill_inner]. destruct (drain_ffwq (r_FFWQ r) v) as [v1 rs1]. rewrite E.
  destruct (r_FEQ r) as [|w feq]; [reflexivity|].
  rewrite empty_on_empty by reflexivity. reflexivity.
Qed.

Lemma empty_on_full f r v :
  winv r -> r_full r = true ->
  empty_inner (S (S f)) r v =
    match r_EFQ r with
    | [] => Some (mkRec false [] [] [] [], v, [])
    | w :: efq => Some (mkRec true efq [] [] [], stored (w_src w) v, [(w_tid w, false, None)])
    end.
Proof.
  intros I F. destruct (wi_full r I F) as (E1 & E2 & E3). cbn [empty_inner]. rewrite E1, E2, E3.
  destruct (r_EFQ r) as [|w efq]; [reflexivity|]. reflexivity.
Qed.

Lemma fuel_of_ge2 r : exists f, fuel_of r = S (S f).
Proof. unfold fuel_of. eexists; reflexivity. Qed.

(* ------------------------------------------------------------------ abstraction *)
Definition full_of (ro : option rec) : bool := match ro with Some r => r_full r | None => true end.
Definition cell_of (ro : option rec) (v : Z) : cell := mkCell (full_of ro) v.

Definition cop_of (o : op) : cop :=
  match o with
  | OReadFE _ | OReadFE_nb _ => CReadFE
  | OReadFF _ | OReadFF_nb _ => CReadFF
  | OReadXX _ => CReadXX
  | OWriteEF s | OWriteEF_nb s => CWriteEF s
  | OWriteF s => CWriteF s
  | OWriteFF s => CWriteFF s
  | OFill => CFill | OEmpty => CEmpty | OPurge s => CPurge s | OStatus => CStatus
  end.
Definition is_nb (o : op) : bool :=
  match o with OReadFE_nb _ | OReadFF_nb _ | OWriteEF_nb _ => true | _ => false end.
Definition dest_of (o : op) : dmode :=
  match o with OReadFE d | OReadFE_nb d | OReadFF d | OReadFF_nb d | OReadXX d => d | _ => DNull end.
(* the blocking twin *)
Definition twin (o : op) : op :=
  match o with OReadFE_nb d => OReadFE d | OReadFF_nb d => OReadFF d | OWriteEF_nb s => OWriteEF s | _ => o end.

(* what the caller finds in its own buffer *)
Definition out_of (d : dmode) (r : cres) : option Z :=
  match r with RVal x => deliver d x | RBit b => Some (Z.b2z b) | RNone => None end.

(* pending operation of a waiter, by the queue it sits in *)
Definition pool (r : rec) : list (waiter * cop) :=
  map (fun w => (w, CWriteEF (w_src w))) (r_EFQ r) ++ map (fun w => (w, CReadFE)) (r_FEQ r) ++
  map (fun w => (w, CReadFF)) (r_FFQ r) ++ map (fun w => (w, CWriteFF (w_src w))) (r_FFWQ r).
Definition pool_opt (ro : option rec) := match ro with Some r => pool r | None => [] end.

(* the release record the model emits for a waiter whose operation returned [res] *)
Definition rel_of (x : waiter * cres) : rel :=
  (w_tid (fst x), w_nascent (fst x), match snd x with RVal y => deliver (w_dest (fst x)) y | _ => None end).

(* ------------------------------------------------------------------ drains are linearisations *)
Lemma drain_ffwq_lin q v :
  lin (mkCell true v) (map (fun w => (w, CWriteFF (w_src w))) q) (map (fun w => (w, RNone)) q)
      (mkCell true (fst (drain_ffwq q v)))
  /\ snd (drain_ffwq q v) = map rel_of (map (fun w => (w, RNone)) q).
Proof.
  revert v. induction q as [|w q IH]; intros v; simpl.
  - split; [constructor | reflexivity].
  - specialize (IH (stored (w_src w) v)). destruct (drain_ffwq q (stored (w_src w) v)) as [v2 rs] eqn:E.
    simpl in *. destruct IH as [L R]. split.
    + econstructor; [reflexivity | exact L].
    + rewrite R. reflexivity.
Qed.

Lemma drain_ffq_lin q v :
  lin (mkCell true v) (map (fun w => (w, CReadFF)) q) (map (fun w => (w, RVal v)) q) (mkCell true v)
  /\ drain_ffq q v = map rel_of (map (fun w => (w, RVal v)) q).
Proof.
  induction q as [|w q [L R]]; simpl.
  - split; [constructor | reflexivity].
  - split; [econstructor; [reflexivity | exact L] |]. unfold drain_ffq in *. simpl. rewrite R. reflexivity.
Qed.

(* ------------------------------------------------------------------ releases of a transition to full / to empty (C02) *)
(* what a fill of an empty record releases: every FFWQ entry, every FFQ entry, then the first FEQ entry *)
Definition fill_released (r : rec) (v : Z) : list (waiter * cres) :=
  let v1 := fst (drain_ffwq (r_FFWQ r) v) in
  map (fun w => (w, RNone)) (r_FFWQ r) ++ map (fun w => (w, RVal v1)) (r_FFQ r) ++
  map (fun w => (w, RVal v1)) (firstn 1 (r_FEQ r)).
Definition fill_released_ops (r : rec) : list (waiter * cop) :=
  map (fun w => (w, CWriteFF (w_src w))) (r_FFWQ r) ++ map (fun w => (w, CReadFF)) (r_FFQ r) ++
  map (fun w => (w, CReadFE)) (firstn 1 (r_FEQ r)).

Lemma fill_inner_spec f r v :
  winv r -> r_full r = false ->
  exists r' v',
    fill_inner (S (S f)) r v = Some (r', v', map rel_of (fill_released r v)) /\
    lin (mkCell true v) (fill_released_ops r) (fill_released r v) (mkCell (r_full r') v') /\
    r_full r' = is_nil (r_FEQ r) /\ r_EFQ r' = [] /\ r_FEQ r' = skipn 1 (r_FEQ r) /\ r_FFQ r' = [] /\ r_FFWQ r' = [] /\
    v' = fst (drain_ffwq (r_FFWQ r) v).
Proof.
  intros I F. pose proof (wi_empty r I F) as E. rewrite fill_on_empty by exact E.
  destruct (drain_ffwq_lin (r_FFWQ r) v) as [L1 R1].
  unfold fill_released, fill_released_ops.
  destruct (drain_ffwq (r_FFWQ r) v) as [v1 rs1] eqn:D. simpl in L1, R1. simpl fst.
  destruct (drain_ffq_lin (r_FFQ r) v1) as [L2 R2].
  pose proof (wi_nasF r I) as NF.
  destruct (r_FEQ r) as [|w feq]; simpl.
  - do 2 eexists. split; [|split].
    + rewrite R1, R2, !map_app, app_nil_r. reflexivity.
    + rewrite !app_nil_r. eapply lin_app; eassumption.
    + simpl. repeat split; reflexivity.
  - do 2 eexists. split; [|split].
    + rewrite R1, R2, !map_app. simpl. inversion NF as [|? ? HN ?]; subst.
      replace (rel_of (w, RVal v1)) with (w_tid w, false, deliver (w_dest w) v1)
        by (unfold rel_of; simpl; rewrite HN; reflexivity).
      reflexivity.
    + eapply lin_app; [exact L1|]. eapply lin_app; [exact L2|].
      econstructor; [reflexivity | constructor].
    + simpl. repeat split; reflexivity.
Qed.

(* what emptying a full record releases: the first EFQ entry (which refills the word) *)
Definition empty_released (r : rec) : list (waiter * cres) := map (fun w => (w, RNone)) (firstn 1 (r_EFQ r)).
Definition empty_released_ops (r : rec) : list (waiter * cop) := map (fun w => (w, CWriteEF (w_src w))) (firstn 1 (r_EFQ r)).

Lemma empty_inner_spec f r v :
  winv r -> r_full r = true ->
  exists r' v',
    empty_inner (S (S f)) r v = Some (r', v', map rel_of (empty_released r)) /\
    lin (mkCell false v) (empty_released_ops r) (empty_released r) (mkCell (r_full r') v') /\
    r_full r' = negb (is_nil (r_EFQ r)) /\ r_EFQ r' = skipn 1 (r_EFQ r) /\ r_FEQ r' = [] /\ r_FFQ r' = [] /\ r_FFWQ r' = [] /\
    v' = match r_EFQ r with w :: _ => stored (w_src w) v | [] => v end.
Proof.
  intros I F. rewrite empty_on_full by assumption. unfold empty_released, empty_released_ops.
  pose proof (wi_nasE r I) as NE.
  destruct (r_EFQ r) as [|w efq]; simpl.
  - do 2 eexists. split; [reflexivity|]. split; [constructor|]. simpl. repeat split; reflexivity.
  - do 2 eexists. split; [|split].
    + unfold rel_of. simpl. inversion NE as [|? ? HN ?]; subst. rewrite HN. reflexivity.
    + econstructor; [reflexivity | constructor].
    + simpl. repeat split; reflexivity.
Qed.

(* ------------------------------------------------------------------ permutation helpers *)
Lemma perm_rot {A} (a : A) X B C : Permutation (a :: X ++ B ++ C) ((C ++ B ++ [a]) ++ X).
Proof.
  apply Permutation_sym. rewrite <- !app_assoc. simpl.
  eapply perm_trans; [apply Permutation_app_comm|].
  change (a :: X ++ B ++ C) with ((a :: X) ++ B ++ C). rewrite (app_assoc (a :: X) B C).
  apply Permutation_app_tail. apply Permutation_app_comm.
Qed.

Lemma perm_mid2 {A} (x : A) X B C : Permutation (X ++ B ++ x :: C) (x :: X ++ B ++ C).
Proof. rewrite !app_assoc. apply Permutation_sym, Permutation_middle. Qed.
Lemma perm_mid3 {A} (x : A) X B C D : Permutation (X ++ B ++ C ++ x :: D) (x :: X ++ B ++ C ++ D).
Proof. rewrite !app_assoc. apply Permutation_sym, Permutation_middle. Qed.

Lemma winv_quiet r v : winv r -> forall x, In x (pool r) -> enabled (mkCell (r_full r) v) (snd x) = false.
Proof.
  intros I x Hx. unfold pool in Hx. rewrite enabled_char. simpl.
  destruct (r_full r) eqn:F.
  - destruct (wi_full r I F) as (E1 & E2 & E3). rewrite E1, E2, E3 in Hx. simpl in Hx. rewrite !app_nil_r in Hx.
    apply in_map_iff in Hx. destruct Hx as (w & <- & _). reflexivity.
  - rewrite (wi_empty r I F) in Hx. simpl in Hx.
    repeat (apply in_app_or in Hx; destruct Hx as [Hx|Hx]); apply in_map_iff in Hx; destruct Hx as (w & <- & _); reflexivity.
Qed.

(* ------------------------------------------------------------------ gotlock_fill / gotlock_empty under the invariant *)
Definition good_release (r : rec) (c1 : cell) (wr : wres) : Prop :=
  exists ops rels,
    wr_rel wr = map rel_of rels /\ map fst ops = map fst rels /\
    lin c1 ops rels (cell_of (wr_rec wr) (wr_val wr)) /\
    Permutation (pool r) (ops ++ pool_opt (wr_rec wr)) /\
    winv_opt (wr_rec wr).

Lemma gotlock_fill_ref r v out :
  winv r ->
  exists wr, gotlock_fill r v out = Some wr /\ wr_code wr = Some OK /\ wr_out wr = out /\
             good_release r (mkCell true v) wr /\
             (r_full r = false -> wr_rel wr = map rel_of (fill_released r v)) /\
             (r_full r = true -> wr_rel wr = [] /\ wr_rec wr = Some r /\ wr_val wr = v).
Proof.
  intros I. unfold gotlock_fill. destruct (fuel_of_ge2 r) as [f ->].
  destruct (r_full r) eqn:F.
  - rewrite fill_on_full by assumption. eexists. split; [reflexivity|]. simpl.
    destruct (wi_full r I F) as (E1 & E2 & E3).
    assert (R : mkRec true (r_EFQ r) [] [] [] = r) by (destruct r; simpl in *; subst; reflexivity).
    rewrite R. split; [reflexivity|]. split; [reflexivity|]. split; [|split; [discriminate | auto]].
    exists [], []. simpl. unfold cell_of. simpl. rewrite F.
    split; [reflexivity|]. split; [reflexivity|]. split; [constructor|]. split; [simpl; reflexivity | exact I].
  - destruct (fill_inner_spec f r v I F) as (r' & v' & E & L & Hf & He & Hq & Hff & Hffw & Hv).
    rewrite E. eexists. split; [reflexivity|]. simpl.
    split; [reflexivity|]. split; [reflexivity|]. split; [|split; [auto | discriminate]].
    exists (fill_released_ops r), (fill_released r v). simpl. unfold cell_of. simpl.
    split; [reflexivity|]. split; [|split; [exact L|split]].
    + unfold fill_released_ops, fill_released. rewrite !map_app, !map_map. reflexivity.
    + unfold pool, fill_released_ops. rewrite He, Hq, Hff, Hffw, (wi_empty r I F). simpl. rewrite !app_nil_r.
      destruct (r_FEQ r) as [|w feq]; simpl.
      * rewrite !app_nil_r. apply Permutation_app_comm.
      * apply perm_rot.
    + pose proof (wi_nasF r I) as NF. constructor.
      * intros Hn. rewrite Hff, Hffw, Hq. rewrite Hf in Hn. destruct (r_FEQ r); simpl in *; [auto | discriminate].
      * intros _. exact He.
      * rewrite He. constructor.
      * rewrite Hq. destruct (r_FEQ r); simpl; [constructor | inversion NF; assumption].
Qed.

Lemma gotlock_empty_ref r v out :
  winv r ->
  exists wr, gotlock_empty r v out = Some wr /\ wr_code wr = Some OK /\ wr_out wr = out /\
             good_release r (mkCell false v) wr /\
             (r_full r = true -> wr_rel wr = map rel_of (empty_released r)) /\
             (r_full r = false -> wr_rel wr = [] /\ wr_rec wr = Some r /\ wr_val wr = v).
Proof.
  intros I. unfold gotlock_empty. destruct (fuel_of_ge2 r) as [f ->].
  destruct (r_full r) eqn:F.
  - destruct (empty_inner_spec f r v I F) as (r' & v' & E & L & Hf & He & Hq & Hff & Hffw & Hv).
    rewrite E. eexists. split; [reflexivity|]. simpl.
    split; [reflexivity|]. split; [reflexivity|]. split; [|split; [auto | discriminate]].
    exists (empty_released_ops r), (empty_released r). simpl. unfold cell_of. simpl.
    split; [reflexivity|]. split; [|split; [exact L|split]].
    + unfold empty_released_ops, empty_released. rewrite !map_map. reflexivity.
    + unfold pool, empty_released_ops. rewrite He, Hq, Hff, Hffw. destruct (wi_full r I F) as (E1 & E2 & E3).
      rewrite E1, E2, E3. simpl. rewrite !app_nil_r. destruct (r_EFQ r); simpl; reflexivity.
    + pose proof (wi_nasE r I) as NE. constructor.
      * intros _. auto.
      * intros Hn. rewrite He. rewrite Hf in Hn. destruct (r_EFQ r); simpl in *; [reflexivity | discriminate].
      * rewrite He. destruct (r_EFQ r); simpl; [constructor | inversion NE; assumption].
      * rewrite Hq. constructor.
  - pose proof (wi_empty r I F) as E0. rewrite empty_on_empty by assumption. eexists. split; [reflexivity|]. simpl.
    assert (R : mkRec false [] (r_FEQ r) (r_FFQ r) (r_FFWQ r) = r) by (destruct r; simpl in *; subst; reflexivity).
    rewrite R. split; [reflexivity|]. split; [reflexivity|]. split; [|split; [discriminate | auto]].
    exists [], []. simpl. unfold cell_of. simpl. rewrite F.
    split; [reflexivity|]. split; [reflexivity|]. split; [constructor|]. split; [simpl; reflexivity | exact I].
Qed.

(* ------------------------------------------------------------------ C01: one API call refines the atomic cell *)
Definition refines_cell (ro : option rec) (v : Z) (t : N) (o : op) (wr : wres) : Prop :=
  let c := cell_of ro v in
  match atomic c (cop_of o) with
  | None =>
      (* the operation has to wait: nothing happens to the cell, nobody is released;
         a blocking call enqueues the caller (and only it), a non-blocking one fails *)
      cell_of (wr_rec wr) (wr_val wr) = c /\ wr_rel wr = [] /\
      (if is_nb o
       then wr_code wr = Some OPFAIL /\ wr_out wr = None /\ pool_opt (wr_rec wr) = pool_opt ro
       else wr_code wr = None /\
            exists w, w_tid w = t /\ w_nascent w = false /\
                      Permutation (pool_opt (wr_rec wr)) ((w, cop_of o) :: pool_opt ro))
  | Some (c1, res) =>
      (* the caller's operation takes effect first, then the released waiters' operations, each enabled where
         it stands, with the values of the specification; the waiters are exactly the ones that disappear *)
      wr_code wr = Some OK /\ wr_out wr = out_of (dest_of o) res /\
      exists ops rels,
        wr_rel wr = map rel_of rels /\ map fst ops = map fst rels /\
        lin c1 ops rels (cell_of (wr_rec wr) (wr_val wr)) /\
        Permutation (pool_opt ro) (ops ++ pool_opt (wr_rec wr))
  end.

Ltac fin_nil :=
  split; [reflexivity|]; split; [reflexivity|]; exists [], []; simpl;
  split; [reflexivity|]; split; [reflexivity|]; split; [constructor | reflexivity].

Ltac use_gotlock H F :=
  let wr := fresh "wr" in let E := fresh "E" in let C := fresh "C" in let O := fresh "O" in let G := fresh "G" in
  destruct H as (wr & E & C & O & G & _); rewrite E; exists wr; split; [reflexivity|];
  destruct G as (ops & rels & G1 & G2 & G3 & G4 & G5); split; [exact G5|];
  unfold refines_cell, cell_of; simpl; rewrite ?F; simpl;
  split; [exact C|]; split; [rewrite O; reflexivity|]; exists ops, rels;
  split; [exact G1|]; split; [exact G2|]; split; [exact G3 | exact G4].

Ltac use_gotlock0 H :=
  let wr := fresh "wr" in let E := fresh "E" in let C := fresh "C" in let O := fresh "O" in let G := fresh "G" in
  destruct H as (wr & E & C & O & G & _); rewrite E; exists wr; split; [reflexivity|];
  destruct G as (ops & rels & G1 & G2 & G3 & G4 & G5); split; [exact G5|];
  unfold refines_cell, cell_of; simpl;
  split; [exact C|]; split; [rewrite O; reflexivity|]; exists ops, rels;
  split; [exact G1|]; split; [exact G2|]; split; [exact G3 | exact G4].

Ltac blocked_case I F W :=
  unfold wblock; eexists; split; [reflexivity|]; simpl; split;
  [ constructor; simpl; intros; try discriminate; auto; try (apply I; assumption);
    try (destruct (wi_full _ I F) as (? & ? & ?); auto);
    try (constructor; [reflexivity | apply I])
  | unfold refines_cell, cell_of; simpl; rewrite ?F; simpl;
    split; [reflexivity|]; split; [reflexivity|]; split; [reflexivity|];
    exists W; split; [reflexivity|]; split; [reflexivity|]; unfold pool; simpl ].

Theorem word_refines ro v t o :
  winv_opt ro ->
  exists wr, word_step ro v t o = Some wr /\ winv_opt (wr_rec wr) /\ refines_cell ro v t o wr.
Proof.
  intros I.
  destruct o; destruct ro as [r|]; simpl in I |- *;
    try (destruct (r_full r) eqn:F; simpl);
    try (match goal with |- exists wr, wdone _ _ _ _ = _ /\ _ => idtac end;
         unfold wdone; eexists; split; [reflexivity|]; simpl;
         split; [first [exact I | exact Logic.I | exact winv_new
                       | constructor; simpl; intros; try discriminate; auto; constructor] |];
         unfold refines_cell, cell_of; simpl; rewrite ?F; simpl; first [fin_nil | idtac]).
  all: try (split; [reflexivity|]; split; [reflexivity|]; split; [reflexivity|]; split; reflexivity).
  (* readFE *)
  - use_gotlock (gotlock_empty_ref r v (deliver d v) I) F.
  - blocked_case I F (mkW t None d false). apply Permutation_sym, Permutation_middle.
  - use_gotlock0 (gotlock_empty_ref new_rec v (deliver d v) winv_new).
  - use_gotlock (gotlock_empty_ref r v (deliver d v) I) F.
  - use_gotlock0 (gotlock_empty_ref new_rec v (deliver d v) winv_new).
  (* readFF *)
  - blocked_case I F (mkW t None d false). apply perm_mid2.
  (* writeEF *)
  - blocked_case I F (mkW t s DNull false). reflexivity.
  - use_gotlock (gotlock_fill_ref r (stored s v) None I) F.
  - blocked_case winv_new F (mkW t s DNull false). reflexivity.
  - use_gotlock (gotlock_fill_ref r (stored s v) None I) F.
  (* writeF *)
  - use_gotlock (gotlock_fill_ref r (stored s v) None I) F.
  - use_gotlock (gotlock_fill_ref r (stored s v) None I) F.
  (* writeFF *)
  - blocked_case I F (mkW t s DNull false). apply perm_mid3.
  (* fill, empty, purge *)
  - use_gotlock (gotlock_fill_ref r v None I) F.
  - use_gotlock (gotlock_fill_ref r v None I) F.
  - use_gotlock (gotlock_empty_ref r v None I) F.
  - use_gotlock (gotlock_empty_ref r v None I) F.
  - use_gotlock (gotlock_empty_ref r (stored s v) None I) F.
  - use_gotlock (gotlock_empty_ref r (stored s v) None I) F.
Qed.

(* ------------------------------------------------------------------ corollaries at word level *)
(* a blocking call never completes while the word is in the state it has to wait out;
   the non-blocking twin fails exactly when the blocking call would enqueue the caller, and never enqueues *)
Corollary nb_twin_word ro v t o :
  winv_opt ro -> is_nb o = true ->
  exists wr wr', word_step ro v t o = Some wr /\ word_step ro v t (twin o) = Some wr' /\
    (wr_code wr = Some OPFAIL <-> wr_code wr' = None) /\
    wr_code wr <> None /\
    (wr_code wr = Some OPFAIL -> pool_opt (wr_rec wr) = pool_opt ro /\ wr_rel wr = []).
Proof.
  intros I NB.
  destruct (word_refines ro v t o I) as (wr & E & _ & R).
  destruct (word_refines ro v t (twin o) I) as (wr' & E' & _ & R').
  exists wr, wr'. split; [exact E|]. split; [exact E'|].
  unfold refines_cell in R, R'.
  assert (C : cop_of (twin o) = cop_of o) by (destruct o; reflexivity).
  assert (NB' : is_nb (twin o) = false) by (destruct o; try discriminate; reflexivity).
  rewrite C in R'. rewrite NB in R. rewrite NB' in R'.
  destruct (atomic (cell_of ro v) (cop_of o)) as [[c1 res]|].
  - destruct R as (Rc & _). destruct R' as (Rc' & _). rewrite Rc, Rc'.
    split; [split; discriminate|]. split; [discriminate|]. discriminate.
  - destruct R as (_ & Rr & Rc & _ & Rp). destruct R' as (_ & _ & Rc' & _). rewrite Rc, Rc'.
    split; [split; reflexivity|]. split; [discriminate|]. intros _. split; assumption.
Qed.

(* C02: in the state after any call no blocked operation is enabled *)
Corollary quiescent_word ro v t o wr :
  winv_opt ro -> word_step ro v t o = Some wr ->
  forall x, In x (pool_opt (wr_rec wr)) -> enabled (cell_of (wr_rec wr) (wr_val wr)) (snd x) = false.
Proof.
  intros I E x Hx. destruct (word_refines ro v t o I) as (wr0 & E0 & I0 & _).
  rewrite E in E0. inversion E0; subst wr0. destruct (wr_rec wr) as [r|]; [|contradiction].
  unfold cell_of. simpl. apply winv_quiet; assumption.
Qed.

(* C02: a transition to full releases every FFWQ and FFQ waiter and exactly min 1 |FEQ| FEQ waiters *)
Definition fills (o : op) : bool :=
  match o with OWriteEF _ | OWriteEF_nb _ | OWriteF _ | OFill => true | _ => false end.
Definition empties (o : op) : bool :=
  match o with OReadFE _ | OReadFE_nb _ | OEmpty | OPurge _ => true | _ => false end.
Definition written (o : op) (v : Z) : Z :=
  match o with OWriteEF s | OWriteEF_nb s | OWriteF s | OPurge s => stored s v | _ => v end.

Theorem fill_releases_word r v t o :
  winv r -> r_full r = false -> fills o = true ->
  exists wr, word_step (Some r) v t o = Some wr /\
    wr_rel wr = map rel_of (fill_released r (written o v)) /\
    length (wr_rel wr) = (length (r_FFWQ r) + length (r_FFQ r) + Nat.min 1 (length (r_FEQ r)))%nat.
Proof.
  intros I F Hf.
  assert (L : forall x, length (map rel_of (fill_released r x)) =
                        (length (r_FFWQ r) + length (r_FFQ r) + Nat.min 1 (length (r_FEQ r)))%nat).
  { intros x. unfold fill_released. rewrite map_length, !app_length, !map_length, firstn_length. lia. }
  destruct o; try discriminate; simpl; rewrite ?F; simpl.
  all: match goal with |- context [gotlock_fill ?r0 ?x None] =>
         destruct (gotlock_fill_ref r0 x None I) as (wr & E & _ & _ & _ & Hr & _); rewrite E; exists wr;
         split; [reflexivity|]; rewrite (Hr F); split; [reflexivity | apply L] end.
Qed.

Theorem empty_releases_word r v t o :
  winv r -> r_full r = true -> empties o = true ->
  exists wr, word_step (Some r) v t o = Some wr /\
    wr_rel wr = map rel_of (empty_released r) /\
    length (wr_rel wr) = Nat.min 1 (length (r_EFQ r)).
Proof.
  intros I F Hf.
  assert (L : length (map rel_of (empty_released r)) = Nat.min 1 (length (r_EFQ r))).
  { unfold empty_released. rewrite !map_length, firstn_length. reflexivity. }
  destruct o; try discriminate; simpl; rewrite ?F; simpl.
  all: match goal with |- context [gotlock_empty ?r0 ?x ?y] =>
         destruct (gotlock_empty_ref r0 x y I) as (wr & E & _ & _ & _ & Hr & _); rewrite E; exists wr;
         split; [reflexivity|]; rewrite (Hr F); split; [reflexivity | apply L] end.
Qed.

(* nascent (precondition) waiters are never scheduled directly: they only go to the re-check batch *)
Lemma rel_events_no_nascent rs t c x : In (Ret t c x) (rel_events rs) -> In (t, false, x) rs /\ c = OK.
Proof.
  induction rs as [|[[t' n] y] rs IH]; simpl; [contradiction|].
  destruct n; simpl.
  - intros H. destruct (IH H). split; [right|]; assumption.
  - intros [H|H]; [inversion H; subst; split; [left; reflexivity | reflexivity] | destruct (IH H); split; [right|]; assumption].
Qed.

(* ================================================================== multi-word state, reachable states *)
Section AssocLemmas.
  Context {V : Type}.
  Implicit Types l : list (N * V).
  Lemma lookup_In a l x : lookup a l = Some x -> In (a, x) l.
  Proof.
    induction l as [|[k y] l IH]; simpl; [discriminate|].
    destruct (N.eqb a k) eqn:E; intros H.
    - apply N.eqb_eq in E. inversion H; subst. left; reflexivity.
    - right; auto.
  Qed.
  Lemma Forall_update (Q : V -> Prop) a x l :
    Forall (fun ar => Q (snd ar)) l -> Q x -> Forall (fun ar => Q (snd ar)) (update a x l).
  Proof.
    induction l as [|[k y] l IH]; simpl; intros H Hx.
    - constructor; [exact Hx | constructor].
    - inversion H; subst. destruct (N.eqb a k); constructor; auto.
  Qed.
  Lemma Forall_remove (Q : V -> Prop) a l :
    Forall (fun ar => Q (snd ar)) l -> Forall (fun ar => Q (snd ar)) (remove a l).
  Proof.
    unfold remove. induction l as [|[k y] l IH]; simpl; intros H; [constructor|].
    inversion H; subst. destruct (N.eqb a k); simpl; [auto | constructor; auto].
  Qed.
  Lemma lookup_update_eq a x l : lookup a (update a x l) = Some x.
  Proof.
    induction l as [|[k y] l IH]; simpl; [rewrite N.eqb_refl; reflexivity|].
    destruct (N.eqb a k) eqn:E; simpl; rewrite E; auto.
  Qed.
  Lemma lookup_update_neq a b x l : a <> b -> lookup b (update a x l) = lookup b l.
  Proof.
    intros Hn. induction l as [|[k y] l IH]; simpl.
    - destruct (N.eqb b a) eqn:E; [apply N.eqb_eq in E; congruence | reflexivity].
    - destruct (N.eqb a k) eqn:E; simpl.
      + apply N.eqb_eq in E; subst k. destruct (N.eqb b a) eqn:E2; [apply N.eqb_eq in E2; congruence | reflexivity].
      + destruct (N.eqb b k); auto.
  Qed.
End AssocLemmas.

Definition all_inv (s : state) : Prop := Forall (fun ar => winv (snd ar)) (st_febs s).

Lemma all_inv_lookup s a : all_inv s -> winv_opt (lookup a (st_febs s)).
Proof.
  intros H. destruct (lookup a (st_febs s)) as [r|] eqn:E; simpl; [|exact Logic.I].
  apply lookup_In in E. unfold all_inv in H. rewrite Forall_forall in H. exact (H _ E).
Qed.

Lemma winv_park r k : winv r -> r_full r = false ->
  winv (mkRec (r_full r) (r_EFQ r) (r_FEQ r) (mkW k None DNull true :: r_FFQ r) (r_FFWQ r)).
Proof.
  intros I F. constructor; simpl; intros; try apply I; auto. rewrite F in H. discriminate.
Qed.

Lemma check_walk_inv febs k rem :
  Forall (fun ar => winv (snd ar)) febs -> Forall (fun ar => winv (snd ar)) (fst (check_walk febs k rem)).
Proof.
  intros H. induction rem as [|a rem IH]; simpl; [assumption|].
  destruct (lookup a febs) as [r|] eqn:E; [|assumption].
  destruct (r_full r) eqn:F; [assumption|]. simpl.
  apply Forall_update; [assumption|]. rewrite <- F at 1. apply winv_park; [|assumption].
  apply lookup_In in E. rewrite Forall_forall in H. exact (H _ E).
Qed.

Lemma check_preconds_inv s k : all_inv s -> all_inv (fst (check_preconds s k)).
Proof.
  intros H. unfold check_preconds.
  destruct (check_walk (st_febs s) k _) as [febs' rem'] eqn:E. simpl. unfold all_inv. simpl.
  pose proof (check_walk_inv (st_febs s) k (p_rem (match lookup k (st_pre s) with Some i => i | None => no_pinfo end)) H) as H2.
  rewrite E in H2. exact H2.
Qed.

Lemma launch_inv batch : forall s, all_inv s -> all_inv (fst (launch s batch)).
Proof.
  induction batch as [|k b IH]; intros s H; simpl; [assumption|].
  pose proof (check_preconds_inv s k H) as H1. destruct (check_preconds s k) as [s1 ok]. simpl in H1.
  specialize (IH s1 H1). destruct (launch s1 b) as [s2 ev]. exact IH.
Qed.

Lemma feb_remove_inv s a : all_inv s -> all_inv (feb_remove s a).
Proof.
  intros H. unfold feb_remove. destruct (lookup a (st_febs s)); [|assumption].
  destruct (all_empty r && r_full r); [|assumption]. unfold all_inv. simpl. apply Forall_remove. exact H.
Qed.

Theorem step_inv s t g : all_inv s -> all_inv (fst (step s t g)).
Proof.
  intros H. unfold step. destruct (is_blocked s t); [exact H|].
  destruct g as [a o | k pcs].
  - destruct (word_refines (lookup a (st_febs s)) (memget a s) t o (all_inv_lookup s a H)) as (wr & E & I' & _).
    rewrite E.
    set (s1 := mkSt (update a (wr_val wr) (st_mem s))
                    (match wr_rec wr with Some r => update a r (st_febs s) | None => st_febs s end) (st_pre s)).
    assert (H1 : all_inv s1).
    { unfold all_inv, s1. simpl. destruct (wr_rec wr) as [r'|]; [apply Forall_update; assumption | exact H]. }
    pose proof (launch_inv (rel_batch (wr_rel wr)) s1 H1) as H2.
    destruct (launch s1 (rel_batch (wr_rel wr))) as [s2 ev2]. simpl in H2.
    destruct (wr_rm wr); simpl; [apply feb_remove_inv|]; exact H2.
  - destruct (is_blocked s k || has_key k (st_pre s) || N.eqb k t); [exact H|].
    set (s1 := mkSt (st_mem s) (st_febs s) (update k (mkP (rev pcs) (rev pcs) [] 0) (st_pre s))).
    pose proof (check_preconds_inv s1 k H) as H2. destruct (check_preconds s1 k) as [s2 ok]. exact H2.
Qed.

Lemma run_ops_inv l : forall s, all_inv s -> all_inv (fst (run_ops s l)).
Proof.
  induction l as [|[t g] l IH]; intros s H; simpl; [exact H|].
  pose proof (step_inv s t g H) as H1. destruct (step s t g) as [s1 ev]. simpl in H1.
  specialize (IH s1 H1). destruct (run_ops s1 l) as [s2 evs]. exact IH.
Qed.

(* C01 feb_inv: in every reachable state (any list of (task, operation) steps, any number of tasks and words,
   spawns of precondition tasks included) every record satisfies the queue discipline *)
Theorem feb_inv_reachable l a r : lookup a (st_febs (exec l)) = Some r -> winv r.
Proof.
  intros E. assert (H : all_inv (exec l)) by (apply run_ops_inv; constructor).
  pose proof (all_inv_lookup _ a H) as H2. rewrite E in H2. exact H2.
Qed.

(* C01 feb_refines_cell, for every reachable state: a call by a task that is not blocked is a legal atomic step of
   the abstract cell followed by the released waiters' operations; the events of the concrete step are the
   caller's return, then the releases in that order, then launches of precondition tasks *)
Definition caller_event (t : N) (wr : wres) : list event :=
  match wr_code wr with Some c => [Ret t c (wr_out wr)] | None => [] end.

Lemma launch_events b : forall s e, In e (snd (launch s b)) -> exists k, e = Enq k.
Proof.
  induction b as [|k b IH]; intros s e; simpl; [intros []|].
  destruct (check_preconds s k) as [s1 ok]. specialize (IH s1 e). destruct (launch s1 b) as [s2 ev]. simpl in *.
  destruct ok; simpl; [intros [<-|He]; [eexists; reflexivity | auto] | auto].
Qed.

Theorem feb_refines_cell_reachable l t a o :
  let s := exec l in
  is_blocked s t = false ->
  exists wr launched,
    word_step (lookup a (st_febs s)) (memget a s) t o = Some wr /\
    refines_cell (lookup a (st_febs s)) (memget a s) t o wr /\
    snd (step s t (GWord a o)) = caller_event t wr ++ rel_events (wr_rel wr) ++ launched /\
    (forall e, In e launched -> exists k, e = Enq k).
Proof.
  intros s NB. assert (H : all_inv s) by (apply run_ops_inv; constructor).
  destruct (word_refines (lookup a (st_febs s)) (memget a s) t o (all_inv_lookup s a H)) as (wr & E & _ & R).
  unfold step. rewrite NB, E.
  match goal with |- context [launch ?s1 ?b] => pose proof (launch_events b s1) as LE; destruct (launch s1 b) as [s2 ev2] end.
  exists wr, ev2. split; [reflexivity|]. split; [exact R|]. split; [reflexivity | exact LE].
Qed.

(* C02 quiescent_no_enabled_blocked: in every reachable state no blocked operation is enabled *)
Theorem quiescent_reachable l a r x :
  lookup a (st_febs (exec l)) = Some r -> In x (pool r) ->
  enabled (mkCell (r_full r) (memget a (exec l))) (snd x) = false.
Proof. intros E Hx. apply winv_quiet; [eapply feb_inv_reachable; eassumption | exact Hx]. Qed.

(* ------------------------------------------------------------------ non-vacuity *)
(* a reachable state with waiters of three kinds on an empty word (FEQ = [2;1], FFQ = [3], FFWQ = [4]);
   a writeEF then releases 4, 3 and 2 (in that order) and leaves 1 blocked on the word emptied again by 2 *)
Definition ex_ops : list (N * gop) :=
  [(0, GWord 0 OEmpty); (1, GWord 0 (OReadFE DOwn)); (2, GWord 0 (OReadFE DOwn)); (3, GWord 0 (OReadFF DOwn));
   (4, GWord 0 (OWriteFF (Some 9%Z)))]%N.
Example ex_state_waiters :
  exists r, lookup 0%N (st_febs (exec ex_ops)) = Some r /\ r_full r = false /\
            map w_tid (r_FEQ r) = [2; 1]%N /\ map w_tid (r_FFQ r) = [3%N] /\ map w_tid (r_FFWQ r) = [4%N].
Proof. eexists. vm_compute. repeat split; reflexivity. Qed.
Example ex_fill_releases :
  snd (step (exec ex_ops) 5%N (GWord 0%N (OWriteEF (Some 5%Z)))) =
  [Ret 5%N OK None; Ret 4%N OK None; Ret 3%N OK (Some 9%Z); Ret 2%N OK (Some 9%Z)].
Proof. vm_compute. reflexivity. Qed.
Example ex_not_blocked : is_blocked (exec ex_ops) 5%N = false.
Proof. vm_compute. reflexivity. Qed.
