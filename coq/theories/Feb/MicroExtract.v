From Coq Require Import List ZArith NArith.
From QV Require Import Cell.Spec Feb.Model Feb.Proofs Feb.Micro.
Require Extraction.
Require Import ExtrOcamlBasic.
Extraction Language OCaml.
Extraction "../ocaml/gen/c01micro_model.ml" minit mstep mstep_old mfinal good_final outcome_of explained finished mrun.
