From Coq Require Import List ZArith NArith.
From QV Require Import Cell.Spec Feb.Model.
Require Extraction.
Require Import ExtrOcamlBasic.
Extraction Language OCaml.
Extraction "../ocaml/gen/c01_model.ml" init step step_ext runs_as memget lookup blocked_tids waiters_of atomic enabled.
