(* Extension R (C01/C02): non-vacuity of the link theorems of Feb/ModelHistory.v. *)
From Coq Require Import List ZArith NArith Bool.
Import ListNotations.
From QV Require Import Cell.Spec Feb.Model Feb.Proofs Feb.History Feb.HistoryProofs Feb.HistoryComplete
  Feb.ModelHistoryDefs Feb.ModelHistory.
Local Open Scope N_scope.

(* Feb/Proofs.v ex_ops: word 0 emptied, tasks 1 and 2 block in readFE, 3 in readFF, 4 in writeFF(9); then task 5's writeEF(5)
   releases 4 (which overwrites 5 by 9), 3 and 2 (both read 9; 2 empties the word again); task 1 stays blocked *)
Definition ex_link : list (N * gop) := ex_ops ++ [(5, GWord 0 (OWriteEF (Some 5%Z)))].

(* the history: the released waiters were invoked at tickets 4, 5, 6 and return at 11, 10, 9 - after the call (7..8) that
   released them, in the reverse of their invocation order; the call of task 1 (ticket 3) is pending *)
Example ex_link_history :
  map (fun x => (h_inv x, h_ret x, h_op x, h_out x)) (hist_of_run ex_link 0) =
  [ (1, Some 2, CEmpty, ODone (Some RNone));
    (3, None, CReadFE, ODone None);
    (4, Some 11, CReadFE, ODone (Some (RVal 9%Z)));
    (5, Some 10, CReadFF, ODone (Some (RVal 9%Z)));
    (6, Some 9, CWriteFF (Some 9%Z), ODone (Some RNone));
    (7, Some 8, CWriteEF (Some 5%Z), ODone (Some RNone)) ].
Proof. vm_compute. reflexivity. Qed.

Example ex_link_overlap : has_overlap (hist_of_run ex_link 0) = true.
Proof. vm_compute. reflexivity. Qed.
Example ex_link_pending : length (pending (hist_of_run ex_link 0)) = 1%nat.
Proof. vm_compute. reflexivity. Qed.
Example ex_link_final : cell_at (exec ex_link) 0 = mkCell false 9%Z.
Proof. vm_compute. reflexivity. Qed.

(* the theorem on this instance, and the acceptor's own answer: the linearisation it finds (ids = invocation tickets) is
   not the invocation order *)
Example ex_link_explained : explained (mkCell true 0%Z) (hist_of_run ex_link 0) (mkCell false 9%Z).
Proof. exact (model_runs_are_explained ex_link 0). Qed.
Example ex_link_accepted : decide 1000 (mkCell true 0%Z) (hist_of_run ex_link 0) (mkCell false 9%Z) = Accept [1; 7; 6; 5; 4].
Proof. vm_compute. reflexivity. Qed.

(* the acceptor does judge these histories: perturbed, they are rejected.  The released readFE loses its return (the word
   would have to be full for ever after: the writeEF could not have been followed by nothing) ... *)
Example ex_link_dropped_return_rejected :
  decide 1000 (mkCell true 0%Z) (mutate (MDropRet 2) (hist_of_run ex_link 0)) (mkCell false 9%Z) = Reject.
Proof. vm_compute. reflexivity. Qed.
(* ... or observes another value *)
Example ex_link_wrong_value_rejected :
  decide 1000 (mkCell true 0%Z) (mutate (MBumpVal 2) (hist_of_run ex_link 0)) (mkCell false 9%Z) = Reject.
Proof. vm_compute. reflexivity. Qed.
(* ... hence, by completeness of Reject, nothing explains them *)
Example ex_link_dropped_return_unexplained :
  ~ explained (mkCell true 0%Z) (mutate (MDropRet 2) (hist_of_run ex_link 0)) (mkCell false 9%Z).
Proof. apply (reject_complete 1000). exact ex_link_dropped_return_rejected. Qed.

(* several words, a precondition task (GSpawn) parked on word 1, a failed non-blocking call, an ignored step of a blocked task *)
Definition ex_link2 : list (N * gop) :=
  [ (0, GWord 1 OEmpty); (0, GSpawn 100 [1; 0]); (1, GWord 1 (OReadFF DOwn)); (1, GWord 0 OStatus);
    (2, GWord 1 (OReadFE_nb DOwn)); (2, GWord 0 (OWriteEF (Some 7%Z))); (3, GWord 1 (OWriteF (Some 4%Z)));
    (3, GWord 0 (OReadFE DNull)) ].
Example ex_link2_word1 :
  map (fun x => (h_inv x, h_ret x, h_op x, h_out x)) (hist_of_run ex_link2 1) =
  [ (1, Some 2, CEmpty, ODone (Some RNone));
    (4, Some 11, CReadFF, ODone (Some (RVal 4%Z)));
    (6, Some 7, CReadFE, OFail);
    (9, Some 10, CWriteF (Some 4%Z), ODone (Some RNone)) ].
Proof. vm_compute. reflexivity. Qed.
(* word 0: the status call of task 1 is ignored (task 1 is blocked on word 1); the writeEF of task 2 (ticket 6) waits until
   the readFE of task 3 (8..9) empties the word, and returns after it *)
Example ex_link2_word0 :
  map (fun x => (h_inv x, h_ret x, h_op x, h_out x)) (hist_of_run ex_link2 0) =
  [ (6, Some 10, CWriteEF (Some 7%Z), ODone (Some RNone)); (8, Some 9, CReadFE, ODone None) ].
Proof. vm_compute. reflexivity. Qed.
Example ex_link2_accepted :
  accepts 1000 (mkCell true 0%Z) (hist_of_run ex_link2 0) (cell_at (exec ex_link2) 0) = true /\
  accepts 1000 (mkCell true 0%Z) (hist_of_run ex_link2 1) (cell_at (exec ex_link2) 1) = true.
Proof. split; vm_compute; reflexivity. Qed.
