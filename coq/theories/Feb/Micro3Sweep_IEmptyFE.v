(* C01 / C02 micro-step layer with a pre-blocked third task (extension K): exhaustive sweep (src/feb.c as it is) of the 13 x 13 pairs
   of calls from initial state IEmptyFE (reachable-set certificates with a decreasing measure, Micro3Proofs.cert_sound /
   cert_bounded); finite domain, by vm_compute. *)
From Coq Require Import List ZArith NArith Bool.
From QV Require Import Cell.Spec Feb.Model Feb.Proofs Feb.Micro3 Feb.Micro3Proofs.

Lemma cur_IEmptyFE : sweep mstep good_all no_skip IEmptyFE = true.
Proof. vm_compute. reflexivity. Qed.
