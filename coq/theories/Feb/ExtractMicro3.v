From Coq Require Import List ZArith NArith.
From QV Require Import Cell.Spec Feb.Model Feb.Proofs Feb.Micro3.
Require Extraction.
Require Import ExtrOcamlBasic.
Extraction Language OCaml.
Extraction "../ocaml/gen/c01micro3_model.ml" minit mstep mstep_norecheck mstep_gen mrun finished good_final good_all no_lost_wakeup settled explained res_of seq2 hashed full_now chain ghost_op irec.
