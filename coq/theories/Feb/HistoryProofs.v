(* Proofs about the history acceptor of Feb/History.v (C02 / C01, mode M4). *)
From Coq Require Import List ZArith NArith Bool Permutation Sorted Lia.
Import ListNotations.
From QV Require Import Cell.Spec Feb.History.
Local Open Scope N_scope.

(* ---------- small facts ---------- *)
Lemma cell_eqb_eq a b : cell_eqb a b = true -> a = b.
Proof.
  destruct a as [fa va], b as [fb vb]. unfold cell_eqb. simpl. intros H.
  apply andb_true_iff in H. destruct H as [H1 H2].
  apply eqb_prop in H1. apply Z.eqb_eq in H2. subst. reflexivity.
Qed.

Lemma apply_op_done c x c1 :
  apply_op c x = Some c1 ->
  (exists obs r, h_out x = ODone obs /\ atomic c (h_op x) = Some (c1, r) /\ obs_ok obs r = true) \/
  (h_out x = OFail /\ h_nb x = true /\ atomic c (h_op x) = None /\ c1 = c).
Proof.
  unfold apply_op. destruct (h_out x) as [obs|].
  - destruct (atomic c (h_op x)) as [[c' r]|] eqn:A; [|discriminate].
    destruct (obs_ok obs r) eqn:O; [|discriminate]. intros H. inversion H; subst. left. eauto.
  - destruct (h_nb x); [|discriminate]. destruct (atomic c (h_op x)) eqn:A; [discriminate|].
    intros H. inversion H; subst. right. auto.
Qed.

Lemma hrun_b_sound l : forall c c', hrun_b c l = Some c' -> hrun c l c'.
Proof.
  induction l as [|x l IH]; simpl; intros c c' H.
  - inversion H; subst. constructor.
  - destruct (apply_op c x) as [c1|] eqn:A; [|discriminate].
    apply apply_op_done in A. destruct A as [(obs & r & Ho & Ha & Hk)|(Ho & Hn & Ha & ->)].
    + eapply hrun_done; eauto.
    + eapply hrun_fail; eauto.
Qed.

Lemma hrun_b_complete c l c' : hrun c l c' -> hrun_b c l = Some c'.
Proof.
  induction 1 as [c|c x l c1 r c2 obs Ho Ha Hk _ IH|c x l c2 Ho Hn Ha _ IH]; simpl.
  - reflexivity.
  - unfold apply_op. rewrite Ho, Ha, Hk. exact IH.
  - unfold apply_op. rewrite Ho, Hn, Ha. exact IH.
Qed.

(* the step relation is a function of the state *)
Lemma hrun_cons_inv c x l c' :
  hrun c (x :: l) c' -> exists c1, apply_op c x = Some c1 /\ hrun c1 l c'.
Proof.
  intros H. apply hrun_b_complete in H. simpl in H.
  destruct (apply_op c x) as [c1|]; [|discriminate]. exists c1. split; [reflexivity|]. apply hrun_b_sound. exact H.
Qed.

Lemma take_perm i : forall pool x rest, take i pool = Some (x, rest) -> Permutation pool (x :: rest).
Proof.
  induction pool as [|y pool IH]; simpl; intros x rest H; [discriminate|].
  destruct (N.eqb (h_id y) i).
  - inversion H; subst. apply Permutation_refl.
  - destruct (take i pool) as [[z r]|] eqn:T; [|discriminate]. inversion H; subst.
    eapply perm_trans; [apply perm_skip; apply IH; reflexivity|]. apply perm_swap.
Qed.

Lemma pick_perm w : forall pool l, pick w pool = Some l -> Permutation l pool.
Proof.
  induction w as [|i w IH]; simpl; intros pool l H.
  - destruct pool; [|discriminate]. inversion H; subst. constructor.
  - destruct (take i pool) as [[x pool']|] eqn:T; [|discriminate].
    destruct (pick w pool') as [l'|] eqn:P; [|discriminate]. inversion H; subst.
    apply Permutation_sym. eapply perm_trans; [eapply take_perm; eassumption|].
    apply perm_skip. apply Permutation_sym. apply IH. exact P.
Qed.

Lemma rt_check_sound l : forall m, rt_check m l = true ->
  StronglySorted rt_compat l /\ Forall (fun y => forall r, h_ret y = Some r -> m <= r) l.
Proof.
  induction l as [|x l IH]; simpl; intros m H.
  - split; constructor.
  - destruct (h_ret x) as [r|] eqn:R; [|discriminate].
    apply andb_true_iff in H. destruct H as [H1 H2]. apply N.leb_le in H1.
    destruct (IH _ H2) as [S F]. split.
    + constructor; [exact S|].
      rewrite Forall_forall in *. intros y Hy. unfold rt_compat, rt_before. intros B.
      destruct (h_ret y) as [ry|] eqn:Ry; [|exact B].
      specialize (F y Hy ry Ry). lia.
    + constructor.
      * intros r' E. rewrite R in E. inversion E; subst. exact H1.
      * rewrite Forall_forall in *. intros y Hy ry Ry. specialize (F y Hy ry Ry). lia.
Qed.

Lemma quiescent_b_sound pend c : quiescent_b pend c = true -> forall p, In p pend -> enabled c (h_op p) = false.
Proof.
  unfold quiescent_b. rewrite forallb_forall. intros H p Hp. specialize (H p Hp).
  destruct (enabled c (h_op p)); [discriminate|reflexivity].
Qed.

(* ---------- soundness of the certificate checker and of the acceptor ---------- *)
Theorem check_lin_sound c0 h cfin w : check_lin c0 h cfin w = true -> explained c0 h cfin.
Proof.
  unfold check_lin. destruct (pick w (completed h)) as [l|] eqn:P; [|discriminate].
  intros H. apply andb_true_iff in H. destruct H as [H Q]. apply andb_true_iff in H. destruct H as [R E].
  destruct (hrun_b c0 l) as [c|] eqn:B; [|discriminate]. apply cell_eqb_eq in E. subst c.
  exists l. split; [|intros p Hp; eapply quiescent_b_sound; eassumption].
  split; [eapply pick_perm; eassumption|]. split; [apply (rt_check_sound l 0 R)|apply hrun_b_sound; exact B].
Qed.

Theorem decide_accept_sound fuel c0 h cfin w : decide fuel c0 h cfin = Accept w -> check_lin c0 h cfin w = true.
Proof.
  unfold decide. destruct (negb (wf_b h)); [discriminate|].
  destruct (fst (fsearch cfin (pending h) (S (length h)) c0 (completed h) fuel)) as [w1|].
  - destruct (check_lin c0 h cfin w1) eqn:C1.
    + intros H. inversion H; subst. exact C1.
    + destruct (fst (fst (search cfin (pending h) (S (length h)) c0 (completed h) [] fuel))) as [w2| |]; try discriminate.
      destruct (check_lin c0 h cfin w2) eqn:C2; [|discriminate]. intros H. inversion H; subst. exact C2.
  - destruct (fst (fst (search cfin (pending h) (S (length h)) c0 (completed h) [] fuel))) as [w2| |]; try discriminate.
    destruct (check_lin c0 h cfin w2) eqn:C2; [|discriminate]. intros H. inversion H; subst. exact C2.
Qed.

Theorem accepts_sound fuel c0 h cfin : accepts fuel c0 h cfin = true -> explained c0 h cfin.
Proof.
  unfold accepts. destruct (decide fuel c0 h cfin) as [w| | |] eqn:D; try discriminate.
  intros _. eapply check_lin_sound. eapply decide_accept_sound. exact D.
Qed.

(* ---------- what a linearisation is, in the words of Cell/Spec.v ---------- *)
Definition succeeded (x : hop) : bool := match h_out x with ODone _ => true | OFail => false end.
Definition tagged (l : list hop) : list (N * cop) := map (fun x => (h_id x, h_op x)) (filter succeeded l).

(* the calls that succeeded form a linearisation [lin] of the atomic cell (every one enabled where it stands), each caller
   saw the spec's result, and the failed non-blocking calls do not move the cell *)
Lemma hrun_lin c l c' : hrun c l c' ->
  exists rs, lin c (tagged l) rs c' /\
             Forall2 (fun x ir => fst ir = h_id x /\ exists obs, h_out x = ODone obs /\ obs_ok obs (snd ir) = true) (filter succeeded l) rs.
Proof.
  induction 1 as [c|c x l c1 r c2 obs Ho Ha Hk _ IH|c x l c2 Ho Hn Ha _ IH]; unfold tagged; simpl.
  - exists []. split; constructor.
  - destruct IH as (rs & L & F). assert (S : succeeded x = true) by (unfold succeeded; rewrite Ho; reflexivity).
    rewrite S. simpl.
    exists ((h_id x, r) :: rs). split; [econstructor; eassumption|]. constructor; [|exact F]. simpl. eauto.
  - destruct IH as (rs & L & F). assert (S : succeeded x = false) by (unfold succeeded; rewrite Ho; reflexivity).
    rewrite S. exists rs. split; assumption.
Qed.

(* every failed non-blocking call stands at a point of the linearisation where its blocking twin has to wait *)
Lemma hrun_failed_disabled c l c' : hrun c l c' ->
  forall l1 x l2, l = l1 ++ x :: l2 -> h_out x = OFail ->
  exists cx, hrun c l1 cx /\ enabled cx (h_op x) = false /\ h_nb x = true.
Proof.
  induction 1 as [c|c y l c1 r c2 obs Ho Ha Hk Hr IH|c y l c2 Ho Hn Ha Hr IH]; intros l1 x l2 E F.
  - destruct l1; discriminate.
  - destruct l1 as [|z l1]; simpl in E; inversion E; subst.
    + rewrite Ho in F. discriminate.
    + destruct (IH l1 x l2 eq_refl F) as (cx & R & D & B). exists cx. split; [eapply hrun_done; eassumption|auto].
  - destruct l1 as [|z l1]; simpl in E; inversion E; subst.
    + exists c. split; [constructor|]. split; [unfold enabled; rewrite Ha; reflexivity|exact Hn].
    + destruct (IH l1 x l2 eq_refl F) as (cx & R & D & B). exists cx. split; [eapply hrun_fail; eassumption|auto].
Qed.

(* real-time order: whoever returned before another call was invoked stands before it *)
Lemma sorted_order l : StronglySorted rt_compat l ->
  forall l1 x l2 y l3, l = l1 ++ x :: l2 ++ y :: l3 -> ~ rt_before y x.
Proof.
  induction 1 as [|a l S IH F]; intros l1 x l2 y l3 E.
  - destruct l1; discriminate.
  - destruct l1 as [|z l1]; simpl in E; inversion E; subst.
    + rewrite Forall_forall in F. apply F. apply in_or_app. right. left. reflexivity.
    + eapply IH. reflexivity.
Qed.

(* ---------- lifted quiescence (C02): a call still pending although the final state lets it proceed is never accepted ---------- *)
Theorem pending_disabled fuel c0 h cfin :
  accepts fuel c0 h cfin = true -> forall p, In p h -> h_ret p = None -> enabled cfin (h_op p) = false.
Proof.
  intros A p Hp Hr. destruct (accepts_sound _ _ _ _ A) as (l & _ & Q). apply Q.
  unfold pending. apply filter_In. split; [exact Hp|]. unfold is_done. rewrite Hr. reflexivity.
Qed.

Theorem lost_wakeup_rejected fuel c0 h cfin p :
  In p h -> h_ret p = None -> enabled cfin (h_op p) = true -> accepts fuel c0 h cfin = false.
Proof.
  intros Hp Hr E. destruct (accepts fuel c0 h cfin) eqn:A; [|reflexivity].
  rewrite (pending_disabled _ _ _ _ A p Hp Hr) in E. discriminate.
Qed.

(* the statement of accepts_sound with the definitions unfolded *)
Corollary accepts_sound_explicit fuel c0 h cfin :
  accepts fuel c0 h cfin = true ->
  exists l, Permutation l (completed h) /\ StronglySorted rt_compat l /\ hrun c0 l cfin /\
            (forall p, In p (pending h) -> enabled cfin (h_op p) = false).
Proof.
  intros A. destruct (accepts_sound _ _ _ _ A) as (l & (P & S & R) & Q). exists l. auto.
Qed.
