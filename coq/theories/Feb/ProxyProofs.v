(* External-pthread callers: the blocker table read from src/feb.c (Feb/GenProxy.v, regenerated on every run)
   maps every API function to itself, hence a call from a non-qthread pthread is the same model step. *)
From Coq Require Import List ZArith NArith Bool.
Import ListNotations.
From QV Require Import Cell.Spec Feb.Model Feb.GenProxy.

Definition gen_tbl : apiname -> option apiname := runs_as gen_passes gen_runs.

(* finite domain (the 11 proxied API functions): checked by computation over the whole enumeration *)
Lemma proxy_table_all : forallb (fun f => match gen_tbl f with Some f' => api_eqb f f' | None => false end) all_apis = true.
Proof. vm_compute. reflexivity. Qed.

Lemma all_apis_complete f : In f all_apis.
Proof. destruct f; simpl; tauto. Qed.

Lemma api_eqb_eq x y : api_eqb x y = true -> x = y.
Proof. destruct x, y; simpl; intros H; try discriminate; reflexivity. Qed.

Theorem proxy_table_faithful : forall f, gen_tbl f = Some f.
Proof.
  intros f. pose proof proxy_table_all as H. rewrite forallb_forall in H. specialize (H f (all_apis_complete f)).
  destruct (gen_tbl f) as [f'|]; [|discriminate]. apply api_eqb_eq in H. congruence.
Qed.

Lemma ext_op_faithful tbl : (forall f, tbl f = Some f) -> forall o, ext_op tbl o = Some o.
Proof. intros H o. unfold ext_op. destruct o; simpl; rewrite ?H; reflexivity. Qed.

(* "whether called from a task or from an external pthread" *)
Theorem ext_step_faithful s t a o : step_ext gen_tbl s t a o = step s t (GWord a o).
Proof. unfold step_ext. rewrite (ext_op_faithful gen_tbl proxy_table_faithful). reflexivity. Qed.
