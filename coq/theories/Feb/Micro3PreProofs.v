(* C06 micro-step layer with a nascent waiter (extension K part 2): the certificate machinery for Feb/Micro3Pre.v (as
   Feb/Micro3Proofs.v; the certificate additionally checks a state invariant on EVERY reachable state, and schedules range over the
   two running calls and the environment actor 2). *)
From Coq Require Import List ZArith NArith PArith Bool Arith FMapPositive Lia.
From QV Require Import Cell.Spec Feb.Model Feb.Proofs Feb.Micro3Pre.
Import ListNotations.
Local Open Scope N_scope.

(* ---------- decidable equality of micro states (transparent: it computes) ---------- *)
Definition dmode_eq_dec (x y : dmode) : {x = y} + {x <> y}. Proof. decide equality. Defined.
Definition oz_eq_dec (x y : option Z) : {x = y} + {x <> y}. Proof. decide equality. apply Z.eq_dec. Defined.
Definition on_eq_dec (x y : option N) : {x = y} + {x <> y}. Proof. decide equality. apply N.eq_dec. Defined.
Definition onat_eq_dec (x y : option nat) : {x = y} + {x <> y}. Proof. decide equality. apply Nat.eq_dec. Defined.
Definition op_eq_dec (x y : op) : {x = y} + {x <> y}. Proof. decide equality; try apply dmode_eq_dec; apply oz_eq_dec. Defined.
Definition code_eq_dec (x y : code) : {x = y} + {x <> y}. Proof. decide equality. Defined.
Definition waiter_eq_dec (x y : waiter) : {x = y} + {x <> y}.
Proof. decide equality; try apply Bool.bool_dec; try apply dmode_eq_dec; try apply oz_eq_dec; apply N.eq_dec. Defined.
Definition owaiter_eq_dec (x y : option waiter) : {x = y} + {x <> y}. Proof. decide equality. apply waiter_eq_dec. Defined.
Definition rec_eq_dec (x y : rec) : {x = y} + {x <> y}.
Proof. decide equality; try apply Bool.bool_dec; apply list_eq_dec, waiter_eq_dec. Defined.
Definition rcd_eq_dec (x y : rcd) : {x = y} + {x <> y}.
Proof. decide equality; try apply Bool.bool_dec; try apply on_eq_dec; apply rec_eq_dec. Defined.
Definition pword_eq_dec (x y : pword) : {x = y} + {x <> y}. Proof. decide equality. Defined.
Definition nas_eq_dec (x y : nas) : {x = y} + {x <> y}.
Proof. decide equality; try apply Bool.bool_dec; try apply Nat.eq_dec. apply list_eq_dec, pword_eq_dec. Defined.
Definition pc_eq_dec (x y : pc) : {x = y} + {x <> y}. Proof. decide equality. Defined.
Definition thr_eq_dec (x y : thr) : {x = y} + {x <> y}.
Proof.
  decide equality; try apply Bool.bool_dec; try apply onat_eq_dec; try apply owaiter_eq_dec; try apply oz_eq_dec;
    try apply pc_eq_dec; try apply op_eq_dec.
  decide equality. decide equality; [apply oz_eq_dec | apply code_eq_dec].
Defined.
Definition gst_eq_dec (x y : gst) : {x = y} + {x <> y}.
Proof.
  decide equality; try apply thr_eq_dec; try apply Bool.bool_dec; try apply on_eq_dec; try apply onat_eq_dec; try apply Z.eq_dec;
    try apply nas_eq_dec; try apply Nat.eq_dec.
  apply list_eq_dec, rcd_eq_dec.
Defined.
Definition geqb (x y : gst) : bool := if gst_eq_dec x y then true else false.
Lemma geqb_eq x y : geqb x y = true -> x = y.
Proof. unfold geqb. destruct (gst_eq_dec x y); [auto | discriminate]. Qed.

(* ---------- a hash of the state (any function will do) ---------- *)
Definition mix (h x : N) : N := N.land (h * 131 + x) 281474976710655.
Definition pc_code (p : pc) : N :=
  match p with
  | PHLock => 1 | PHGet => 2 | PHPut => 3 | PFast => 4 | PRLock => 5 | PHUnl => 6 | PTest => 7 | PWord => 8 | PEnq => 9 | PSwitch => 10
  | PRUnl => 11 | PFSet => 12 | PFfw => 13 | PFfwEff => 14 | PFfwSch => 15 | PFfq => 16 | PFfqEff => 17 | PFfqSch => 18 | PFeq => 19
  | PFeqEff => 20 | PFeqSch => 21 | PESet => 22 | PEfq => 23 | PEfqEff => 24 | PEfqSch => 25 | PEnd => 26 | PRmHLock => 27 | PRmGet => 28
  | PRmRLock => 29 | PRmChk => 30 | PRmHUnl => 31 | PRmFin => 32 | PXX => 33 | PDone => 34
  | PPreHLock => 35 | PPreGet => 36 | PPreRLock => 37 | PPreHUnl => 38 | PPreTest => 39 | PPrePark => 40 | PPreRUnlF => 41 | PPreRUnlP => 42
  | PPreU => 43 | PPreEnq => 44
  end.
Definition onat_code (x : option nat) : N := match x with None => 0 | Some n => 1 + N.of_nat n end.
Definition on_code (x : option N) : N := match x with None => 0 | Some n => 1 + n end.
Definition oz_code (x : option Z) : N := match x with None => 0 | Some z => 1 + Z.to_N z end.
Definition thr_code (th : thr) : N :=
  mix (mix (mix (mix (pc_code (t_pc th)) (onat_code (t_m th) + 8 * (if t_blk th then 1 else 0) + 16 * (if t_batch th then 1 else 0) + 32 * (if t_rm th then 1 else 0)))
                 (match t_x th with Some X => 1 + w_tid X | None => 0 end))
           (oz_code (t_buf th))) (match t_res th with Some (c, v) => (match c with OK => 1 | OPFAIL => 2 end) + 4 * oz_code v | None => 0 end).
Definition rcd_code (k : rcd) : N :=
  let r := k_rec k in
  on_code (k_lock k) + 4 * N.of_nat (length (r_EFQ r)) + 16 * N.of_nat (length (r_FEQ r)) + 64 * N.of_nat (length (r_FFQ r)) +
  256 * N.of_nat (length (r_FFWQ r)) + (if r_full r then 1024 else 0) + (if k_freed k then 2048 else 0).
Definition enc (s : gst) : positive :=
  N.succ_pos (mix (mix (mix (mix (mix (mix (Z.to_N (g_word s)) (onat_code (g_hash s) + 8 * on_code (g_hlock s)))
                                       (fold_left (fun h r => mix h (rcd_code r)) (g_heap s) 7))
                                  (thr_code (g_t0 s))) (thr_code (g_t1 s)))
                       ((if g_u s then 1 else 0) + 2 * N.of_nat (g_flips s) + 8 * N.of_nat (length (n_rem (g_n s))) + 32 * N.of_nat (n_launch (g_n s)) +
                        128 * (if n_parkedU (g_n s) then 1 else 0) + 256 * (if n_seenW (g_n s) then 1 else 0) + 512 * (if n_seenU (g_n s) then 1 else 0)))
                  (if g_uaf s then 1 else 0)).

(* ---------- sets of states ---------- *)
Definition sset := PositiveMap.t (list gst).
Definition smem (s : gst) (M : sset) : bool :=
  match PositiveMap.find (enc s) M with Some l => existsb (geqb s) l | None => false end.
Definition sins (s : gst) (M : sset) : sset :=
  PositiveMap.add (enc s) (s :: match PositiveMap.find (enc s) M with Some l => l | None => [] end) M.
Definition sbuild (L : list gst) : sset := fold_right sins (PositiveMap.empty _) L.

Lemma smem_sins x a M : smem x (sins a M) = true -> x = a \/ smem x M = true.
Proof.
  unfold smem, sins. destruct (Pos.eq_dec (enc x) (enc a)) as [e|ne].
  - rewrite e, PositiveMap.gss. cbn [existsb]. intro H. apply orb_prop in H. destruct H as [H|H].
    + left. apply geqb_eq, H.
    + right. destruct (PositiveMap.find (enc a) M); [exact H | discriminate].
  - rewrite PositiveMap.gso by exact ne. auto.
Qed.
Lemma smem_sbuild x L : smem x (sbuild L) = true -> In x L.
Proof.
  induction L as [|a L IH]; cbn [sbuild fold_right].
  - unfold smem. rewrite PositiveMap.gempty. discriminate.
  - intro H. apply smem_sins in H. destruct H as [->|H]; [left; reflexivity | right; apply IH, H].
Qed.

(* ---------- a measure that every step decreases (termination of every interleaving) ---------- *)
Definition pc_rank (o : op) (p : pc) : N :=
  match o, p with
  | _, PDone => 0 | _, PXX => 1
  | OStatus, PHLock => 6 | OStatus, PHGet => 5 | OStatus, PRLock => 4 | OStatus, PRUnl => 3 | OStatus, PHUnl => 2
  | _, PHLock => 400 | _, PHGet => 399 | _, PHPut => 398 | _, PFast => 397 | _, PRLock => 396 | _, PHUnl => 395 | _, PTest => 394
  | _, PWord => 393 | _, PEnq => 392 | _, PSwitch => 191 | _, PRUnl => 190
  | _, PFSet => 140 | _, PFfw => 139 | _, PFfwEff => 138 | _, PFfwSch => 137 | _, PFfq => 136 | _, PFfqEff => 135 | _, PFfqSch => 134
  | _, PFeq => 133 | _, PFeqEff => 132 | _, PFeqSch => 131 | _, PESet => 130 | _, PEfq => 129 | _, PEfqEff => 128 | _, PEfqSch => 127
  | _, PEnd => 60
  | _, PPreHLock => 50 | _, PPreGet => 49 | _, PPreRLock => 48 | _, PPreHUnl => 47 | _, PPreTest => 46 | _, PPrePark => 45
  | _, PPreRUnlF => 44 | _, PPreU => 42 | _, PPreEnq => 41 | _, PPreRUnlP => 39
  | _, PRmHLock => 19 | _, PRmGet => 18 | _, PRmRLock => 17 | _, PRmChk => 16 | _, PRmHUnl => 15 | _, PRmFin => 14
  end.
Definition thr_rank (th : thr) : N :=
  if t_blk th then 0 else pc_rank (t_op th) (t_pc th) + (match t_x th with Some _ => 100 | None => 0 end).
Definition wcount (r : rec) : nat :=
  (100 * length (filter (fun w => negb (w_nascent w)) (waiters_of r)) + 3 * length (filter (fun w => w_nascent w) (waiters_of r)))%nat.
Definition measure (s : gst) : N :=
  thr_rank (g_t0 s) + thr_rank (g_t1 s) + 1000 * N.of_nat (g_flips s) +
  N.of_nat (fold_left (fun n k => (n + wcount (k_rec k))%nat) (g_heap s) 0%nat).

Section Reach.
  Variable stp : gst -> N -> option gst.

  Fixpoint run_with (s : gst) (sched : list N) : option gst :=
    match sched with
    | [] => Some s
    | t :: l => match stp s t with Some s' => run_with s' l | None => None end
    end.
  (* nothing can move any more (task 2 makes no shared access of its own: once woken it returns) *)
  Definition final_with (s : gst) : Prop := stp s 0 = None /\ stp s 1 = None.
  Definition is_sched (sched : list N) : Prop := Forall (fun t => t = 0 \/ t = 1 \/ t = 2) sched.

  Definition succs (s : gst) : list gst :=
    (match stp s 0 with Some x => [x] | None => [] end) ++ (match stp s 1 with Some x => [x] | None => [] end) ++
    (match stp s 2 with Some x => [x] | None => [] end).
  Definition is_final (s : gst) : bool := match stp s 0, stp s 1 with None, None => true | _, _ => false end.

  (* the reachable set (computed, then checked) *)
  Fixpoint close (fuel : nat) (todo : list gst) (seen : sset) (acc : list gst) : list gst :=
    match fuel with
    | O => acc
    | S f => match todo with
             | [] => acc
             | s :: rest => if smem s seen then close f rest seen acc else close f (succs s ++ rest) (sins s seen) (s :: acc)
             end
    end.

  Variable inv : gst -> bool.       (* checked on EVERY state of the certificate *)
  Definition cert_ok (chk : gst -> bool) (s0 : gst) (L : list gst) : bool :=
    let M := sbuild L in
    smem s0 M && forallb (fun s => forallb (fun x => smem x M && N.ltb (measure x) (measure s)) (succs s) &&
                                   (inv s && (if is_final s then chk s else true))) L.

  Lemma reach_in chk s0 L : cert_ok chk s0 L = true ->
    forall sched s', is_sched sched -> run_with s0 sched = Some s' -> In s' L.
  Proof.
    unfold cert_ok. intros C. apply andb_prop in C. destruct C as [C1 C2].
    rewrite forallb_forall in C2. apply smem_sbuild in C1.
    assert (R : forall sched s s', In s L -> is_sched sched -> run_with s sched = Some s' -> In s' L).
    { induction sched as [|t l IH]; intros s s' Hin Hs Hr; simpl in Hr; [inversion Hr; subst; exact Hin|].
      inversion Hs as [|? ? Ht Hl]; subst. destruct (stp s t) as [s1|] eqn:E; [|discriminate].
      apply (IH s1 s'); [|exact Hl | exact Hr]. specialize (C2 s Hin). apply andb_prop in C2. destruct C2 as [C2 _].
      rewrite forallb_forall in C2. assert (X : smem s1 (sbuild L) && N.ltb (measure s1) (measure s) = true); [apply C2 | apply andb_prop in X; apply smem_sbuild, X].
      unfold succs. destruct Ht as [-> | [-> | ->]]; rewrite E; [left; reflexivity | apply in_or_app; right; apply in_or_app; left; left; reflexivity | apply in_or_app; right; apply in_or_app; right; left; reflexivity]. }
    intros sched s' Hs Hr. exact (R sched s0 s' C1 Hs Hr).
  Qed.

  Lemma cert_sound chk s0 L : cert_ok chk s0 L = true ->
    forall sched s', is_sched sched -> run_with s0 sched = Some s' -> final_with s' -> chk s' = true.
  Proof.
    intros C sched s' Hs Hr [F0 F1]. pose proof (reach_in chk s0 L C sched s' Hs Hr) as Hin.
    unfold cert_ok in C. apply andb_prop in C. destruct C as [_ C2]. rewrite forallb_forall in C2.
    specialize (C2 s' Hin). apply andb_prop in C2. destruct C2 as [_ C3]. apply andb_prop in C3. destruct C3 as [_ C3].
    unfold is_final in C3. rewrite F0, F1 in C3. exact C3.
  Qed.

  Lemma cert_inv chk s0 L : cert_ok chk s0 L = true ->
    forall sched s', is_sched sched -> run_with s0 sched = Some s' -> inv s' = true.
  Proof.
    intros C sched s' Hs Hr. pose proof (reach_in chk s0 L C sched s' Hs Hr) as Hin.
    unfold cert_ok in C. apply andb_prop in C. destruct C as [_ C2]. rewrite forallb_forall in C2.
    specialize (C2 s' Hin). apply andb_prop in C2. destruct C2 as [_ C3]. apply andb_prop in C3. apply C3.
  Qed.

  (* every step inside the certificate decreases [measure]: no run is longer than the measure of its first state *)
  Lemma cert_bounded chk s0 L : cert_ok chk s0 L = true ->
    forall sched s', is_sched sched -> run_with s0 sched = Some s' -> (N.of_nat (length sched) + measure s' <= measure s0)%N.
  Proof.
    intros C. pose proof (reach_in chk s0 L C) as RI.
    unfold cert_ok in C. apply andb_prop in C. destruct C as [C1 C2]. rewrite forallb_forall in C2. apply smem_sbuild in C1.
    assert (R : forall sched s s', In s L -> is_sched sched -> run_with s sched = Some s' -> (N.of_nat (length sched) + measure s' <= measure s)%N).
    { induction sched as [|t l IH]; intros s s' Hin Hs Hr; simpl in Hr; [inversion Hr; subst; simpl; apply N.le_refl|].
      inversion Hs as [|? ? Ht Hl]; subst. destruct (stp s t) as [s1|] eqn:E; [|discriminate].
      specialize (C2 s Hin). apply andb_prop in C2. destruct C2 as [C2 _]. rewrite forallb_forall in C2.
      assert (X : smem s1 (sbuild L) && N.ltb (measure s1) (measure s) = true).
      { apply C2. unfold succs. destruct Ht as [-> | [-> | ->]]; rewrite E; [left; reflexivity | apply in_or_app; right; apply in_or_app; left; left; reflexivity | apply in_or_app; right; apply in_or_app; right; left; reflexivity]. }
      apply andb_prop in X. destruct X as [X1 X2]. apply smem_sbuild in X1. apply N.ltb_lt in X2.
      specialize (IH s1 s' X1 Hl Hr). cbn [length]. rewrite Nat2N.inj_succ. lia. }
    intros sched s' Hs Hr. exact (R sched s0 s' C1 Hs Hr).
  Qed.
  Definition check_with (chk : gst -> bool) (s0 : gst) : bool :=
    cert_ok chk s0 (close 4000 [s0] (PositiveMap.empty _) []).
  Lemma check_with_sound chk s0 : check_with chk s0 = true ->
    forall sched s', is_sched sched -> run_with s0 sched = Some s' -> final_with s' -> chk s' = true.
  Proof. unfold check_with. apply cert_sound. Qed.
  Lemma check_with_bounded chk s0 : check_with chk s0 = true ->
    forall sched s', is_sched sched -> run_with s0 sched = Some s' -> (N.of_nat (length sched) + measure s' <= measure s0)%N.
  Proof. unfold check_with. apply cert_bounded. Qed.
  Lemma check_with_inv chk s0 : check_with chk s0 = true ->
    forall sched s', is_sched sched -> run_with s0 sched = Some s' -> inv s' = true.
  Proof. unfold check_with. apply cert_inv. Qed.
End Reach.

(* ---------- the statements ---------- *)
Definition va : Z := 11.
Definition vb : Z := 22.
Definition ops_of (v : Z) : list op :=
  [OReadFE DOwn; OReadFE_nb DOwn; OReadFF DOwn; OReadFF_nb DOwn; OReadXX DOwn; OWriteEF (Some v); OWriteEF_nb (Some v);
   OWriteF (Some v); OWriteFF (Some v); OFill; OEmpty; OPurge (Some v); OStatus].
Definition ikinds : list ikind := [IPre1; IPre2F; IPre2E].
Lemma ikinds_all k : In k ikinds. Proof. destruct k; simpl; auto 7. Qed.

(* in EVERY state any interleaving (two calls + the environment's flip) reaches, [inv] holds; in every state where neither call can
   move any more, [fin] holds *)
Definition pre_holds (stp : gst -> N -> option gst) (inv fin : gst -> bool) (k : ikind) (oa ob : op) : Prop :=
  (forall sched s, is_sched sched -> run_with stp (minit k oa ob) sched = Some s -> inv s = true) /\
  (forall sched s, is_sched sched -> run_with stp (minit k oa ob) sched = Some s -> final_with stp s -> fin s = true).

Definition check_triple (stp : gst -> N -> option gst) (inv fin : gst -> bool) (k : ikind) (oa ob : op) : bool :=
  check_with stp inv fin (minit k oa ob).
Lemma check_triple_sound stp inv fin k oa ob : check_triple stp inv fin k oa ob = true -> pre_holds stp inv fin k oa ob.
Proof.
  intros H. split.
  - intros sched s Hs Hr. exact (check_with_inv stp inv _ _ H sched s Hs Hr).
  - intros sched s Hs Hr Hf. exact (check_with_sound stp inv _ _ H sched s Hs Hr Hf).
Qed.

Definition sweep (stp : gst -> N -> option gst) (inv fin : gst -> bool) (skip : ikind -> op -> op -> bool) (k : ikind) : bool :=
  forallb (fun oa => forallb (fun ob => skip k oa ob || check_triple stp inv fin k oa ob) (ops_of vb)) (ops_of va).
Lemma sweep_sound stp inv fin skip k oa ob :
  sweep stp inv fin skip k = true -> In oa (ops_of va) -> In ob (ops_of vb) -> skip k oa ob = false -> pre_holds stp inv fin k oa ob.
Proof.
  unfold sweep. intros H Ha Hb Hk. rewrite forallb_forall in H. specialize (H oa Ha). rewrite forallb_forall in H. specialize (H ob Hb).
  rewrite Hk in H. exact (check_triple_sound _ _ _ _ _ _ H).
Qed.
Definition no_skip (k : ikind) (oa ob : op) : bool := false.
(* the triples on which the regression variant [mstep_skip] (seeded change C06-3 / C06-1) loses the nascent task: a fill-like call
   and a readFE (blocking: it sits on FEQ when the fill comes; or its non-blocking twin overlapping the wake-up) *)
Definition fills (o : op) : bool := match o with OFill | OWriteF _ | OWriteEF _ | OWriteEF_nb _ => true | _ => false end.
Definition is_readFE (o : op) : bool := match o with OReadFE _ => true | _ => false end.
Definition skip_class (k : ikind) (oa ob : op) : bool := (fills oa && is_readFE ob) || (fills ob && is_readFE oa).

(* ---------- termination ---------- *)
Definition BOUND : N := 2000.
Lemma measure_init k oa ob : (measure (minit k oa ob) <= BOUND)%N.
Proof. destruct k, oa, ob; vm_compute; discriminate. Qed.
Lemma sweep_bounded stp inv fin skip k oa ob :
  sweep stp inv fin skip k = true -> In oa (ops_of va) -> In ob (ops_of vb) -> skip k oa ob = false ->
  forall sched s, is_sched sched -> run_with stp (minit k oa ob) sched = Some s -> (N.of_nat (length sched) <= BOUND)%N.
Proof.
  unfold sweep. intros H Ha Hb Hk. rewrite forallb_forall in H. specialize (H oa Ha). rewrite forallb_forall in H. specialize (H ob Hb).
  rewrite Hk in H. intros sched s Hs Hr. pose proof (check_with_bounded stp inv _ _ H sched s Hs Hr) as B. pose proof (measure_init k oa ob). lia.
Qed.
