(* Extension R (C01/C02): every run of the op-atomic FEB model is a history the proved acceptor accepts.
   Feb/Proofs.v shows that each call of the concrete model (Feb/Model.v) is one atomic step of the abstract cell followed by
   the released waiters' operations (word_refines); Feb/History.v defines when a history with invocation / return tickets is
   explained by the cell (a linearisation that respects real time, every caller saw the spec's result, no pending call is
   enabled at the end) and Feb/HistoryProofs.v / HistoryComplete.v prove the extracted acceptor sound and its Reject complete.
   Here the two halves are connected: the history of a model run (Feb/ModelHistoryDefs.v: tickets assigned as the model's
   `Ret` events are emitted) is explained - the witness is the model's own order of effects - hence never rejected. *)
From Coq Require Import List ZArith NArith Bool Lia Permutation Sorted.
Import ListNotations.
From QV Require Import Cell.Spec Feb.Model Feb.Proofs Feb.History Feb.HistoryProofs Feb.HistoryComplete Feb.ModelHistoryDefs.
Local Open Scope N_scope.

(* ------------------------------------------------------------------ lists *)
Lemma perm_filter {A} (f : A -> bool) l l' : Permutation l l' -> Permutation (filter f l) (filter f l').
Proof.
  induction 1 as [|x l l' _ IH|x y l|l l' l'' _ IH1 _ IH2]; simpl.
  - constructor.
  - destruct (f x); [constructor|]; exact IH.
  - destruct (f x), (f y); try apply Permutation_refl. apply perm_swap.
  - eapply perm_trans; eassumption.
Qed.

Lemma sorted_snoc {A} (R : A -> A -> Prop) l x :
  StronglySorted R l -> Forall (fun y => R y x) l -> StronglySorted R (l ++ [x]).
Proof.
  induction 1 as [|a l S IH F]; intros H; simpl.
  - constructor; constructor.
  - inversion H as [|? ? Ha Hl]; subst. constructor; [apply IH; exact Hl|].
    apply Forall_app. split; [exact F|]. constructor; [exact Ha|constructor].
Qed.

Lemma hrun_app c l c1 l' c2 : hrun c l c1 -> hrun c1 l' c2 -> hrun c (l ++ l') c2.
Proof.
  induction 1 as [c|c x l c1 r c2' obs Ho Ha Hk _ IH|c x l c2' Ho Hn Ha _ IH]; intros H2; simpl.
  - exact H2.
  - eapply hrun_done; eauto.
  - eapply hrun_fail; eauto.
Qed.

(* ------------------------------------------------------------------ the pending table *)
Lemma take_tid_in t p : forall pend, NoDup (map fst pend) -> In (t, p) pend ->
  exists rest, take_tid t pend = Some (p, rest) /\ Permutation pend ((t, p) :: rest).
Proof.
  induction pend as [|[t' q] pend IH]; simpl; intros ND I; [contradiction|].
  inversion ND as [|? ? NI ND']; subst. destruct I as [E|I].
  - inversion E; subst. rewrite N.eqb_refl. exists pend. split; [reflexivity|apply Permutation_refl].
  - destruct (N.eqb t t') eqn:Q.
    + apply N.eqb_eq in Q. subst t'. exfalso. apply NI. change t with (fst (t, p)). apply in_map. exact I.
    + destruct (IH ND' I) as (rest & T & P). rewrite T. exists ((t', q) :: rest). split; [reflexivity|].
      eapply perm_trans; [apply perm_skip; exact P|apply perm_swap].
Qed.

(* tickets: pending calls were invoked in the past; completed calls returned in the past, after their invocation, and
   stand in the order of their return tickets *)
Record binv (b : bst) : Prop := mkBinv {
  bi_nodup : NoDup (map fst (b_pend b));
  bi_pend : Forall (fun tp => h_ret (snd tp) = None /\ h_inv (snd tp) < b_clk b) (b_pend b);
  bi_done : Forall (fun x => exists r, h_ret x = Some r /\ h_inv x < r /\ r < b_clk b) (b_done b);
  bi_sorted : StronglySorted rt_compat (b_done b) }.

Lemma binv_b0 : binv b0.
Proof. constructor; simpl; constructor. Qed.

Lemma binv_tick b : binv b -> binv (mkB (N.succ (b_clk b)) (b_done b) (b_pend b)).
Proof.
  intros [ND P D S]. constructor; simpl; try assumption.
  - eapply Forall_impl; [|exact P]. intros tp [H1 H2]. split; [exact H1|lia].
  - eapply Forall_impl; [|exact D]. intros x (r & H1 & H2 & H3). exists r. repeat split; try assumption. lia.
Qed.

Lemma binv_issue b t o : binv b -> ~ In t (map fst (b_pend b)) ->
  binv (mkB (N.succ (b_clk b)) (b_done b) ((t, new_hop o (b_clk b)) :: b_pend b)).
Proof.
  intros BI NI. destruct (binv_tick b BI) as [ND P D S]. simpl in *. constructor; simpl; try assumption.
  - constructor; assumption.
  - constructor; [|exact P]. simpl. split; [reflexivity|lia].
Qed.

Lemma binv_finish b t p rest c v :
  binv b -> Permutation (b_pend b) ((t, p) :: rest) ->
  binv (mkB (N.succ (b_clk b)) (b_done b ++ [finish p (b_clk b) c v]) rest).
Proof.
  intros [ND P D S] Pm.
  assert (P' : Forall (fun tp => h_ret (snd tp) = None /\ h_inv (snd tp) < b_clk b) ((t, p) :: rest)).
  { rewrite Forall_forall in *. intros x Hx. apply P. eapply Permutation_in; [apply Permutation_sym; exact Pm|exact Hx]. }
  inversion P' as [|? ? [Hr Hi] Prest]; subst. simpl in Hr, Hi.
  constructor; simpl.
  - assert (Q : Permutation (map fst (b_pend b)) (t :: map fst rest)) by (apply (Permutation_map fst) in Pm; exact Pm).
    pose proof (Permutation_NoDup Q ND) as ND2. inversion ND2; assumption.
  - eapply Forall_impl; [|exact Prest]. intros tp [H1 H2]. split; [exact H1|lia].
  - apply Forall_app. split.
    + eapply Forall_impl; [|exact D]. intros x (r & H1 & H2 & H3). exists r. repeat split; try assumption. lia.
    + constructor; [|constructor]. exists (b_clk b). simpl. repeat split; [exact Hi|lia].
  - apply sorted_snoc; [exact S|]. eapply Forall_impl; [|exact D].
    intros x (r & H1 & H2 & H3). unfold rt_compat, rt_before. simpl. lia.
Qed.

(* ------------------------------------------------------------------ observations agree with the specification's results *)
Lemma cres_eqb_refl r : cres_eqb r r = true.
Proof. destruct r; simpl; [reflexivity|apply Z.eqb_refl|apply eqb_reflx]. Qed.

(* a released waiter: the model hands RVal y to the waiter's buffer mode *)
Lemma obs_ok_released c o c' r d :
  atomic c o = Some (c', r) ->
  obs_ok (obs_of o (match r with RVal y => deliver d y | _ => None end)) r = true.
Proof.
  destruct o; simpl; try (destruct (c_full c)); intros H; inversion H; subst; simpl;
    try reflexivity; destruct d; simpl; try reflexivity; apply Z.eqb_refl.
Qed.

(* the caller: wr_out = out_of (dest_of o) res *)
Lemma obs_ok_caller c o c' r :
  atomic c (cop_of o) = Some (c', r) -> obs_ok (obs_of (cop_of o) (out_of (dest_of o) r)) r = true.
Proof.
  destruct o; simpl; try (destruct (c_full c) eqn:F); intros H; inversion H; subst; simpl;
    try reflexivity; try (destruct d; simpl; try reflexivity; apply Z.eqb_refl).
Qed.

(* ------------------------------------------------------------------ what the history sees of a word *)
Definition tagp (tp : N * hop) : N * cop := (fst tp, h_op (snd tp)).
Definition tagw (x : waiter * cop) : N * cop := (w_tid (fst x), snd x).
(* precondition (nascent) waiters are not calls of a task on the word: they are not part of the history *)
Definition nn (x : waiter * cop) : bool := negb (w_nascent (fst x)).
Definition calls_of (ro : option rec) : list (N * cop) := map tagw (filter nn (pool_opt ro)).

(* a nascent waiter only ever waits for the word to be full without changing it *)
Definition nas_ok_r (r : rec) : Prop := forall x, In x (pool r) -> w_nascent (fst x) = true -> snd x = CReadFF.
Definition nas_ok (s : state) : Prop := Forall (fun ar => nas_ok_r (snd ar)) (st_febs s).

Definition wabs (s : state) (a : N) : bool * Z * list (N * cop) :=
  (full_of (lookup a (st_febs s)), memget a s, calls_of (lookup a (st_febs s))).

Lemma pool_park r k f :
  pool (mkRec f (r_EFQ r) (r_FEQ r) (mkW k None DNull true :: r_FFQ r) (r_FFWQ r)) =
  map (fun w => (w, CWriteEF (w_src w))) (r_EFQ r) ++ map (fun w => (w, CReadFE)) (r_FEQ r) ++
  (mkW k None DNull true, CReadFF) :: map (fun w => (w, CReadFF)) (r_FFQ r) ++ map (fun w => (w, CWriteFF (w_src w))) (r_FFWQ r).
Proof. reflexivity. Qed.

Lemma calls_park r k f :
  calls_of (Some (mkRec f (r_EFQ r) (r_FEQ r) (mkW k None DNull true :: r_FFQ r) (r_FFWQ r))) = calls_of (Some r).
Proof. unfold calls_of, pool_opt. rewrite pool_park. unfold pool. rewrite !filter_app. simpl. rewrite !filter_app. reflexivity. Qed.

Lemma nas_park r k f : nas_ok_r r -> nas_ok_r (mkRec f (r_EFQ r) (r_FEQ r) (mkW k None DNull true :: r_FFQ r) (r_FFWQ r)).
Proof.
  intros H x Hx Nx. rewrite pool_park in Hx. apply in_app_or in Hx. destruct Hx as [Hx|Hx].
  - apply H; [|exact Nx]. unfold pool. apply in_or_app. left. exact Hx.
  - apply in_app_or in Hx. destruct Hx as [Hx|Hx].
    + apply H; [|exact Nx]. unfold pool. apply in_or_app. right. apply in_or_app. left. exact Hx.
    + destruct Hx as [<-|Hx]; [reflexivity|].
      apply H; [|exact Nx]. unfold pool. apply in_or_app. right. apply in_or_app. right. exact Hx.
Qed.

Section AssocMore.
  Context {V : Type}.
  Implicit Types l : list (N * V).
  Lemma lookup_remove_eq a l : lookup a (remove a l) = None.
  Proof.
    unfold remove. induction l as [|[k y] l IH]; simpl; [reflexivity|].
    destruct (N.eqb a k) eqn:E; simpl; [exact IH|]. rewrite E. exact IH.
  Qed.
  Lemma lookup_remove_neq a b l : a <> b -> lookup b (remove a l) = lookup b l.
  Proof.
    intros Hn. unfold remove. induction l as [|[k y] l IH]; simpl; [reflexivity|].
    destruct (N.eqb a k) eqn:E; simpl.
    - apply N.eqb_eq in E. subst k. destruct (N.eqb b a) eqn:E2; [apply N.eqb_eq in E2; congruence|exact IH].
    - destruct (N.eqb b k); [reflexivity|exact IH].
  Qed.
End AssocMore.

(* ---------- the precondition machinery does not touch what the history sees ---------- *)
Lemma check_walk_wabs febs k rem a :
  full_of (lookup a (fst (check_walk febs k rem))) = full_of (lookup a febs) /\
  calls_of (lookup a (fst (check_walk febs k rem))) = calls_of (lookup a febs).
Proof.
  induction rem as [|a0 rem IH]; simpl; [split; reflexivity|].
  destruct (lookup a0 febs) as [r|] eqn:E; [|exact IH].
  destruct (r_full r) eqn:F; [exact IH|]. simpl.
  destruct (N.eq_dec a0 a) as [->|Hn].
  - rewrite lookup_update_eq, E. simpl. split; [symmetry; exact F|]. apply calls_park.
  - rewrite lookup_update_neq by exact Hn. split; reflexivity.
Qed.

Lemma check_walk_nas febs k rem :
  Forall (fun ar => nas_ok_r (snd ar)) febs -> Forall (fun ar => nas_ok_r (snd ar)) (fst (check_walk febs k rem)).
Proof.
  intros H. induction rem as [|a rem IH]; simpl; [assumption|].
  destruct (lookup a febs) as [r|] eqn:E; [|assumption].
  destruct (r_full r) eqn:F; [assumption|]. simpl.
  apply Forall_update; [assumption|]. apply nas_park.
  apply lookup_In in E. rewrite Forall_forall in H. exact (H _ E).
Qed.

Lemma check_preconds_wabs s k a : wabs (fst (check_preconds s k)) a = wabs s a.
Proof.
  unfold check_preconds.
  pose proof (check_walk_wabs (st_febs s) k (p_rem (match lookup k (st_pre s) with Some i => i | None => no_pinfo end)) a) as H.
  destruct (check_walk (st_febs s) k _) as [febs' rem']. simpl in *. destruct H as [H1 H2].
  unfold wabs, memget. simpl. rewrite H1, H2. reflexivity.
Qed.

Lemma check_preconds_nas s k : nas_ok s -> nas_ok (fst (check_preconds s k)).
Proof.
  intros H. unfold check_preconds.
  pose proof (check_walk_nas (st_febs s) k (p_rem (match lookup k (st_pre s) with Some i => i | None => no_pinfo end)) H) as H2.
  destruct (check_walk (st_febs s) k _) as [febs' rem']. exact H2.
Qed.

Lemma launch_wabs batch a : forall s, wabs (fst (launch s batch)) a = wabs s a.
Proof.
  induction batch as [|k b IH]; intros s; simpl; [reflexivity|].
  pose proof (check_preconds_wabs s k a) as H1. destruct (check_preconds s k) as [s1 ok]. simpl in H1.
  specialize (IH s1). destruct (launch s1 b) as [s2 ev]. simpl in *. congruence.
Qed.

Lemma launch_nas batch : forall s, nas_ok s -> nas_ok (fst (launch s batch)).
Proof.
  induction batch as [|k b IH]; intros s H; simpl; [assumption|].
  pose proof (check_preconds_nas s k H) as H1. destruct (check_preconds s k) as [s1 ok]. simpl in H1.
  specialize (IH s1 H1). destruct (launch s1 b) as [s2 ev]. exact IH.
Qed.

Lemma all_empty_pool r : all_empty r = true -> pool r = [].
Proof.
  unfold all_empty, pool. destruct (r_EFQ r), (r_FEQ r), (r_FFQ r), (r_FFWQ r); simpl; try discriminate. reflexivity.
Qed.

Lemma feb_remove_wabs s a' a : wabs (feb_remove s a') a = wabs s a.
Proof.
  unfold feb_remove. destruct (lookup a' (st_febs s)) as [r|] eqn:E; [|reflexivity].
  destruct (all_empty r && r_full r) eqn:C; [|reflexivity].
  apply andb_true_iff in C. destruct C as [C1 C2]. unfold wabs, memget. simpl.
  destruct (N.eq_dec a' a) as [->|Hn].
  - rewrite lookup_remove_eq, E. unfold calls_of. simpl. rewrite C2, (all_empty_pool r C1). reflexivity.
  - rewrite lookup_remove_neq by exact Hn. reflexivity.
Qed.

Lemma feb_remove_nas s a : nas_ok s -> nas_ok (feb_remove s a).
Proof.
  intros H. unfold feb_remove. destruct (lookup a (st_febs s)); [|assumption].
  destruct (all_empty r && r_full r); [|assumption]. unfold nas_ok. simpl. apply Forall_remove. exact H.
Qed.

(* ---------- one call, seen from the word it is made on and from another word ---------- *)
Lemma refines_pool_sub ro v t o wr :
  refines_cell ro v t o wr -> forall x, In x (pool_opt (wr_rec wr)) -> In x (pool_opt ro) \/ w_nascent (fst x) = false.
Proof.
  unfold refines_cell. destruct (atomic (cell_of ro v) (cop_of o)) as [[c1 res]|].
  - intros (_ & _ & ops & rels & _ & _ & _ & P) x Hx. left.
    eapply Permutation_in; [apply Permutation_sym; exact P|]. apply in_or_app. right. exact Hx.
  - intros (_ & _ & H) x Hx. destruct (is_nb o).
    + destruct H as (_ & _ & E). rewrite E in Hx. left. exact Hx.
    + destruct H as (_ & w & _ & Nw & P). apply (Permutation_in _ P) in Hx. destruct Hx as [<-|Hx]; [right; exact Nw|left; exact Hx].
Qed.

Lemma word_step_rec_none ro v t o wr : word_step ro v t o = Some wr -> wr_rec wr = None -> ro = None.
Proof.
  destruct ro as [r|]; [|reflexivity]. intros H N. exfalso. revert H N.
  destruct o; simpl; unfold wdone, wblock, gotlock_fill, gotlock_empty;
    repeat match goal with
           | |- context [if ?b then _ else _] => destruct b
           | |- context [match fill_inner ?f ?x ?y with _ => _ end] => destruct (fill_inner f x y) as [[[? ?] ?]|]
           | |- context [match empty_inner ?f ?x ?y with _ => _ end] => destruct (empty_inner f x y) as [[[? ?] ?]|]
           end; intros H N; inversion H; subst; simpl in N; discriminate.
Qed.

Definition only_enq (evs : list event) : Prop := forall e, In e evs -> exists k, e = Enq k.

(* the state after a call on word a, by a task that is not blocked *)
Lemma step_word_state s t a o wr :
  is_blocked s t = false -> word_step (lookup a (st_febs s)) (memget a s) t o = Some wr ->
  exists launched,
    snd (step s t (GWord a o)) = caller_event t wr ++ rel_events (wr_rel wr) ++ launched /\ only_enq launched /\
    wabs (fst (step s t (GWord a o))) a = (full_of (wr_rec wr), wr_val wr, calls_of (wr_rec wr)) /\
    (forall a', a' <> a -> wabs (fst (step s t (GWord a o))) a' = wabs s a').
Proof.
  intros NB E. unfold step. rewrite NB, E.
  set (s1 := mkSt (update a (wr_val wr) (st_mem s))
                  (match wr_rec wr with Some r => update a r (st_febs s) | None => st_febs s end) (st_pre s)).
  assert (L1 : lookup a (st_febs s1) = wr_rec wr).
  { unfold s1. simpl. destruct (wr_rec wr) as [r'|] eqn:W; [apply lookup_update_eq|].
    apply (word_step_rec_none _ _ _ _ _ E W). }
  assert (M1 : memget a s1 = wr_val wr) by (unfold memget, s1; simpl; rewrite lookup_update_eq; reflexivity).
  assert (O1 : forall a', a' <> a -> wabs s1 a' = wabs s a').
  { intros a' Hn. unfold wabs, memget, s1. simpl.
    rewrite (lookup_update_neq a a') by congruence.
    destruct (wr_rec wr); [rewrite (lookup_update_neq a a') by congruence|]; reflexivity. }
  pose proof (launch_events (rel_batch (wr_rel wr)) s1) as LE.
  pose proof (fun x => launch_wabs (rel_batch (wr_rel wr)) x s1) as LW.
  destruct (launch s1 (rel_batch (wr_rel wr))) as [s2 ev2]. simpl in LE, LW.
  exists ev2. split; [reflexivity|]. split; [exact LE|].
  assert (W2 : forall x, wabs (if wr_rm wr then feb_remove s2 a else s2) x = wabs s1 x).
  { intros x. destruct (wr_rm wr); [rewrite feb_remove_wabs|]; apply LW. }
  simpl. split.
  - rewrite W2. unfold wabs. rewrite L1, M1. reflexivity.
  - intros a' Hn. rewrite W2. apply O1. exact Hn.
Qed.

Lemma step_nas s t g : all_inv s -> nas_ok s -> nas_ok (fst (step s t g)).
Proof.
  intros AI H. unfold step. destruct (is_blocked s t); [exact H|].
  destruct g as [a o | k pcs].
  - destruct (word_refines (lookup a (st_febs s)) (memget a s) t o (all_inv_lookup s a AI)) as (wr & E & _ & R).
    rewrite E.
    set (s1 := mkSt (update a (wr_val wr) (st_mem s))
                    (match wr_rec wr with Some r => update a r (st_febs s) | None => st_febs s end) (st_pre s)).
    assert (H1 : nas_ok s1).
    { unfold nas_ok, s1. simpl. destruct (wr_rec wr) as [r'|] eqn:W; [|exact H].
      apply Forall_update; [exact H|]. intros x Hx Nx.
      pose proof (refines_pool_sub _ _ _ _ _ R x) as S. rewrite W in S. simpl in S. destruct (S Hx) as [Hin|Hf]; [|congruence].
      destruct (lookup a (st_febs s)) as [r|] eqn:Lk; [|contradiction]. simpl in Hin.
      apply lookup_In in Lk. unfold nas_ok in H. rewrite Forall_forall in H. exact (H _ Lk x Hin Nx). }
    pose proof (launch_nas (rel_batch (wr_rel wr)) s1 H1) as H2.
    destruct (launch s1 (rel_batch (wr_rel wr))) as [s2 ev2]. simpl in H2.
    destruct (wr_rm wr); simpl; [apply feb_remove_nas|]; exact H2.
  - destruct (is_blocked s k || has_key k (st_pre s) || N.eqb k t); [exact H|].
    set (s1 := mkSt (st_mem s) (st_febs s) (update k (mkP (rev pcs) (rev pcs) [] 0) (st_pre s))).
    pose proof (check_preconds_nas s1 k H) as H2. destruct (check_preconds s1 k) as [s2 ok]. exact H2.
Qed.

(* a step that is not a call on word a by a runnable task leaves what the history of a sees as it is *)
Lemma step_other_wabs s t g a :
  all_inv s -> (forall o, g = GWord a o -> is_blocked s t = true) -> wabs (fst (step s t g)) a = wabs s a.
Proof.
  intros AI H. unfold step. destruct (is_blocked s t) eqn:B; [reflexivity|].
  destruct g as [a' o | k pcs].
  - destruct (N.eq_dec a' a) as [->|Hn]; [specialize (H o eq_refl); discriminate|].
    destruct (word_refines (lookup a' (st_febs s)) (memget a' s) t o (all_inv_lookup s a' AI)) as (wr & E & _ & _).
    destruct (step_word_state s t a' o wr B E) as (ev & _ & _ & _ & O).
    specialize (O a (fun e => Hn (eq_sym e))). unfold step in O. rewrite B in O. exact O.
  - destruct (is_blocked s k || has_key k (st_pre s) || N.eqb k t); [reflexivity|].
    set (s1 := mkSt (st_mem s) (st_febs s) (update k (mkP (rev pcs) (rev pcs) [] 0) (st_pre s))).
    pose proof (check_preconds_wabs s1 k a) as H2. destruct (check_preconds s1 k) as [s2 ok]. exact H2.
Qed.

(* ------------------------------------------------------------------ events played on the builder *)
Lemma on_events_app b l1 l2 : on_events b (l1 ++ l2) = on_events (on_events b l1) l2.
Proof. unfold on_events. apply fold_left_app. Qed.

Lemma on_events_nil b : on_events b [] = b.
Proof. reflexivity. Qed.

Lemma on_events_enq evs : only_enq evs -> forall b, on_events b evs = b.
Proof.
  induction evs as [|e evs IH]; intros H b; [reflexivity|].
  destruct (H e (or_introl eq_refl)) as (k & ->). simpl. apply IH. intros e' He'. apply H. right. exact He'.
Qed.

Lemma in_pool_blocked s a r x : lookup a (st_febs s) = Some r -> In x (pool r) -> In (w_tid (fst x)) (blocked_tids s).
Proof.
  intros Lk Hx. apply lookup_In in Lk. unfold blocked_tids. apply in_flat_map. exists (a, r). split; [exact Lk|]. simpl.
  unfold waiters_of. unfold pool in Hx.
  repeat (apply in_app_or in Hx; destruct Hx as [Hx|Hx]);
    apply in_map_iff in Hx; destruct Hx as (w & <- & Hw); simpl; apply in_map; repeat (apply in_or_app; (left; exact Hw) || right); try exact Hw.
Qed.

Lemma not_blocked_not_in s t : is_blocked s t = false -> ~ In t (blocked_tids s).
Proof.
  unfold is_blocked. intros H I. assert (E : existsb (N.eqb t) (blocked_tids s) = true).
  { apply existsb_exists. exists t. split; [exact I|apply N.eqb_refl]. }
  congruence.
Qed.

Section Sim.
  Variable c0 : cell.        (* the cell the word started in *)
  Variable a : N.            (* the word *)

  (* the released waiters' operations, played on the builder *)
  Lemma release_sim c1 ops rels c2 :
    lin c1 ops rels c2 ->
    (forall x, In x ops -> w_nascent (fst x) = true -> snd x = CReadFF) ->
    forall b rest, binv b -> hrun c0 (b_done b) c1 ->
      Permutation (map tagp (b_pend b)) (map tagw (filter nn ops) ++ rest) ->
      let b' := on_events b (rel_events (map rel_of rels)) in
      binv b' /\ hrun c0 (b_done b') c2 /\ Permutation (map tagp (b_pend b')) rest.
  Proof.
    induction 1 as [c|c x o c1 r l rs c2 A L IH]; intros NA b rest BI HR P.
    - simpl. auto.
    - assert (NA' : forall y, In y l -> w_nascent (fst y) = true -> snd y = CReadFF) by (intros y Hy; apply NA; right; exact Hy).
      cbn [map rel_of fst snd rel_events flat_map]. unfold nn in P. cbn [filter fst] in P.
      destruct (w_nascent x) eqn:NX; cbn [negb] in P.
      + pose proof (NA (x, o) (or_introl eq_refl) NX) as Eo. simpl in Eo. subst o.
        simpl in A. destruct (c_full c); [|discriminate]. inversion A; subst c1 r. simpl. apply IH; assumption.
      + cbn [map tagw fst snd app] in P.
        assert (I : In (w_tid x, o) (map tagp (b_pend b))).
        { eapply Permutation_in; [apply Permutation_sym; exact P|left; reflexivity]. }
        apply in_map_iff in I. destruct I as ([t p] & Et & Ip). unfold tagp in Et. simpl in Et. inversion Et; subst t o.
        destruct (take_tid_in (w_tid x) p (b_pend b) (bi_nodup b BI) Ip) as (rest' & T & Pm).
        simpl. unfold on_events. simpl. rewrite T. fold (on_events (mkB (N.succ (b_clk b))
          (b_done b ++ [finish p (b_clk b) OK match r with RVal y => deliver (w_dest x) y | _ => None end]) rest') (rel_events (map rel_of rs))).
        apply IH; [exact NA'|eapply binv_finish; eassumption| |].
        * simpl. eapply hrun_app; [exact HR|]. eapply hrun_done; [reflexivity|exact A| |constructor].
          simpl. eapply obs_ok_released. exact A.
        * simpl. apply (Permutation_map tagp) in Pm. simpl in Pm. unfold tagp at 2 in Pm. simpl in Pm.
          eapply Permutation_cons_inv. eapply perm_trans; [apply Permutation_sym; exact Pm|exact P].
  Qed.

  (* the simulation: model state / builder state of word a *)
  Record sim (s : state) (b : bst) : Prop := mkSim {
    sm_inv : all_inv s;
    sm_nas : nas_ok s;
    sm_b : binv b;
    sm_run : hrun c0 (b_done b) (cell_at s a);
    sm_pend : Permutation (map tagp (b_pend b)) (calls_of (lookup a (st_febs s))) }.

  Lemma sim_cell s s' b :
    wabs s' a = wabs s a -> all_inv s' -> nas_ok s' -> sim s b -> sim s' (mkB (N.succ (b_clk b)) (b_done b) (b_pend b)).
  Proof.
    intros W AI NO [_ _ BI HR PP]. unfold wabs in W. inversion W as [[W1 W2 W3]].
    constructor; simpl; try assumption.
    - apply binv_tick. exact BI.
    - unfold cell_at, cell_of. rewrite W1, W2. exact HR.
    - rewrite W3. exact PP.
  Qed.

  Lemma nas_lookup s r : nas_ok s -> lookup a (st_febs s) = Some r -> nas_ok_r r.
  Proof. intros H Lk. apply lookup_In in Lk. unfold nas_ok in H. rewrite Forall_forall in H. exact (H _ Lk). Qed.

  Lemma sim_step s b t g :
    sim s b -> sim (fst (step s t g)) (bstep a s b t g (snd (step s t g))).
  Proof.
    intros SM. pose proof SM as [AI NO BI HR PP].
    pose proof (step_inv s t g AI) as AI'. pose proof (step_nas s t g AI NO) as NO'.
    assert (OTHER : (forall o, g = GWord a o -> is_blocked s t = true) ->
                    sim (fst (step s t g)) (mkB (N.succ (b_clk b)) (b_done b) (b_pend b))).
    { intros H. apply (sim_cell s); try assumption. apply step_other_wabs; assumption. }
    destruct g as [a' o|k pcs]; [|apply OTHER; intros o Eo; discriminate]. unfold bstep.
    destruct (N.eqb a' a) eqn:Ea; simpl; [|apply OTHER; intros o' Eo; inversion Eo; subst; rewrite N.eqb_refl in Ea; discriminate].
    apply N.eqb_eq in Ea. subst a'.
    destruct (is_blocked s t) eqn:NB; simpl; [apply OTHER; intros; reflexivity|].
    (* a call on a by a runnable task *)
    destruct (word_refines (lookup a (st_febs s)) (memget a s) t o (all_inv_lookup s a AI)) as (wr & E & _ & R).
    destruct (step_word_state s t a o wr NB E) as (ev2 & EV & EQ & WA & _).
    rewrite EV. set (s' := fst (step s t (GWord a o))) in *.
    unfold wabs in WA. inversion WA as [[W1 W2 W3]].
    assert (NI : ~ In t (map fst (b_pend b))).
    { intros I. apply (not_blocked_not_in s t NB).
      apply in_map_iff in I. destruct I as ([t' p] & Et & Ip). simpl in Et. subst t'.
      assert (I2 : In (t, h_op p) (calls_of (lookup a (st_febs s)))).
      { eapply Permutation_in; [exact PP|]. apply in_map_iff. exists (t, p). split; [reflexivity|exact Ip]. }
      unfold calls_of in I2. apply in_map_iff in I2. destruct I2 as (x & Ex & Hx). apply filter_In in Hx. destruct Hx as [Hx _].
      destruct (lookup a (st_febs s)) as [r|] eqn:Lk; [|contradiction]. simpl in Hx.
      unfold tagw in Ex. injection Ex as Et _. rewrite <- Et. eapply in_pool_blocked; eassumption. }
    set (b1 := mkB (N.succ (b_clk b)) (b_done b) ((t, new_hop o (b_clk b)) :: b_pend b)).
    assert (BI1 : binv b1) by (apply binv_issue; assumption).
    rewrite !on_events_app. rewrite (on_events_enq ev2 EQ).
    assert (NAold : forall x, In x (pool_opt (lookup a (st_febs s))) -> w_nascent (fst x) = true -> snd x = CReadFF).
    { destruct (lookup a (st_febs s)) as [r|] eqn:Lk; [|intros x []]. simpl. apply (nas_lookup s r NO Lk). }
    unfold refines_cell in R. unfold caller_event.
    destruct (atomic (cell_of (lookup a (st_febs s)) (memget a s)) (cop_of o)) as [[c1 res]|] eqn:AT.
    - (* the call takes effect now, then the released waiters *)
      destruct R as (RC & RO & ops & rels & RR & RF & RL & RP). rewrite RC, RO, RR.
      set (fp := finish (new_hop o (b_clk b)) (N.succ (b_clk b)) OK (out_of (dest_of o) res)).
      set (b2 := mkB (N.succ (N.succ (b_clk b))) (b_done b ++ [fp]) (b_pend b)).
      assert (E2 : on_events b1 [Ret t OK (out_of (dest_of o) res)] = b2).
      { unfold on_events, b1. simpl. rewrite N.eqb_refl. reflexivity. }
      rewrite E2.
      assert (BI2 : binv b2).
      { apply (binv_finish b1 t (new_hop o (b_clk b)) (b_pend b) OK (out_of (dest_of o) res) BI1). apply Permutation_refl. }
      assert (HR2 : hrun c0 (b_done b2) c1).
      { simpl. eapply hrun_app; [exact HR|]. eapply hrun_done; [reflexivity|exact AT| |constructor].
        simpl. apply (obs_ok_caller _ _ _ _ AT). }
      assert (NAops : forall x, In x ops -> w_nascent (fst x) = true -> snd x = CReadFF).
      { intros x Hx. apply NAold. eapply Permutation_in; [apply Permutation_sym; exact RP|]. apply in_or_app. left. exact Hx. }
      assert (PP2 : Permutation (map tagp (b_pend b2)) (map tagw (filter nn ops) ++ calls_of (wr_rec wr))).
      { simpl. eapply perm_trans; [exact PP|]. unfold calls_of. rewrite <- map_app, <- filter_app.
        apply Permutation_map. apply perm_filter. exact RP. }
      destruct (release_sim c1 ops rels _ RL NAops b2 _ BI2 HR2 PP2) as (BI3 & HR3 & PP3).
      constructor; try assumption.
      + unfold cell_at. fold s'. unfold cell_of in *. rewrite W1, W2. exact HR3.
      + fold s'. rewrite W3. exact PP3.
    - destruct R as (RCell & RR & R). rewrite RR. simpl rel_events. rewrite on_events_nil.
      unfold cell_of in RCell. inversion RCell as [[RC1 RC2]].
      destruct (is_nb o) eqn:NBo.
      + (* a non-blocking call fails where its twin would wait *)
        destruct R as (RC & RO & RPool). rewrite RC, RO.
        set (fp := finish (new_hop o (b_clk b)) (N.succ (b_clk b)) OPFAIL None).
        set (b2 := mkB (N.succ (N.succ (b_clk b))) (b_done b ++ [fp]) (b_pend b)).
        assert (E2 : on_events b1 [Ret t OPFAIL None] = b2).
        { unfold on_events, b1. simpl. rewrite N.eqb_refl. reflexivity. }
        rewrite E2.
        assert (BI2 : binv b2).
        { apply (binv_finish b1 t (new_hop o (b_clk b)) (b_pend b) OPFAIL None BI1). apply Permutation_refl. }
        constructor; try assumption.
        * simpl. unfold cell_at. fold s'. unfold cell_of. rewrite W1, W2, RC1, RC2.
          eapply hrun_app; [exact HR|]. eapply hrun_fail; [reflexivity|exact NBo|exact AT|constructor].
        * simpl. fold s'. rewrite W3. unfold calls_of. rewrite RPool. exact PP.
      + (* a blocking call waits: it stays pending *)
        destruct R as (RC & w & Wt & Wn & RPool). rewrite RC. simpl.
        constructor; try assumption.
        * simpl. unfold cell_at. fold s'. unfold cell_of. rewrite W1, W2, RC1, RC2. exact HR.
        * simpl. fold s'. rewrite W3. unfold calls_of.
          eapply perm_trans; [|apply Permutation_map; apply perm_filter; apply Permutation_sym; exact RPool].
          simpl. unfold nn at 1. simpl. rewrite Wn. simpl. unfold tagw at 1, tagp at 1. simpl. rewrite Wt.
          apply perm_skip. exact PP.
  Qed.

  Lemma sim_build l : forall s b, sim s b -> fst (build a s b l) = fst (run_ops s l) /\ sim (fst (build a s b l)) (snd (build a s b l)).
  Proof.
    induction l as [|[t g] l IH]; intros s b SM; simpl; [auto|].
    pose proof (sim_step s b t g SM) as S1. destruct (step s t g) as [s1 ev]. simpl in S1.
    destruct (IH s1 _ S1) as [E1 S2]. destruct (run_ops s1 l) as [s2 evs]. simpl in *. auto.
  Qed.
End Sim.

(* ------------------------------------------------------------------ explained is about the set of calls, not their order *)
Lemma explained_perm c0 h h' cfin : Permutation h h' -> explained c0 h cfin -> explained c0 h' cfin.
Proof.
  intros P (l & (Pl & S & R) & Q). exists l. split.
  - split; [|split; assumption]. eapply perm_trans; [exact Pl|]. apply perm_filter. exact P.
  - intros p Hp. apply Q. unfold pending in *. eapply Permutation_in; [apply perm_filter; apply Permutation_sym; exact P|exact Hp].
Qed.

Lemma insert_inv_perm x l : Permutation (insert_inv x l) (x :: l).
Proof.
  induction l as [|y l IH]; simpl; [apply Permutation_refl|].
  destruct (h_inv x <=? h_inv y); [apply Permutation_refl|].
  eapply perm_trans; [apply perm_skip; exact IH|apply perm_swap].
Qed.
Lemma sort_inv_perm l : Permutation (sort_inv l) l.
Proof.
  induction l as [|x l IH]; simpl; [constructor|].
  eapply perm_trans; [apply insert_inv_perm|apply perm_skip; exact IH].
Qed.

Lemma filter_all {A} (f : A -> bool) l : Forall (fun x => f x = true) l -> filter f l = l.
Proof. induction 1 as [|x l H _ IH]; simpl; [reflexivity|]. rewrite H, IH. reflexivity. Qed.
Lemma filter_none {A} (f : A -> bool) l : Forall (fun x => f x = false) l -> filter f l = [].
Proof. induction 1 as [|x l H _ IH]; simpl; [reflexivity|]. rewrite H, IH. reflexivity. Qed.

(* ------------------------------------------------------------------ the link *)
Lemma sim_explained c0 a s b : sim c0 a s b -> explained c0 (hist_of_bst b) (cell_at s a).
Proof.
  intros [AI NO BI HR PP]. apply (explained_perm c0 (b_done b ++ map snd (b_pend b)));
    [apply Permutation_sym, sort_inv_perm|].
  assert (Dn : Forall (fun x => is_done x = true) (b_done b)).
  { eapply Forall_impl; [|exact (bi_done b BI)]. intros x (r & Hr & _). unfold is_done. rewrite Hr. reflexivity. }
  assert (Pn : Forall (fun x => is_done x = false) (map snd (b_pend b))).
  { rewrite Forall_forall. intros x Hx. apply in_map_iff in Hx. destruct Hx as (tp & <- & Htp).
    pose proof (bi_pend b BI) as F. rewrite Forall_forall in F. destruct (F tp Htp) as [Hr _]. unfold is_done. rewrite Hr. reflexivity. }
  assert (C : completed (b_done b ++ map snd (b_pend b)) = b_done b).
  { unfold completed. rewrite filter_app, (filter_all _ _ Dn), (filter_none _ _ Pn). apply app_nil_r. }
  assert (Pd : pending (b_done b ++ map snd (b_pend b)) = map snd (b_pend b)).
  { unfold pending. rewrite filter_app. rewrite filter_none, filter_all; [reflexivity| |].
    - eapply Forall_impl; [|exact Pn]. intros x Hx. simpl in Hx. rewrite Hx. reflexivity.
    - eapply Forall_impl; [|exact Dn]. intros x Hx. simpl in Hx. rewrite Hx. reflexivity. }
  exists (b_done b). split.
  - split; [rewrite C; apply Permutation_refl|]. split; [exact (bi_sorted b BI)|exact HR].
  - intros p Hp. rewrite Pd in Hp. apply in_map_iff in Hp. destruct Hp as ([t q] & <- & Htq). simpl.
    assert (I2 : In (t, h_op q) (calls_of (lookup a (st_febs s)))).
    { eapply Permutation_in; [exact PP|]. apply in_map_iff. exists (t, q). split; [reflexivity|exact Htq]. }
    unfold calls_of in I2. apply in_map_iff in I2. destruct I2 as (x & Ex & Hx). apply filter_In in Hx. destruct Hx as [Hx _].
    destruct (lookup a (st_febs s)) as [r|] eqn:Lk; [|contradiction]. simpl in Hx.
    unfold tagw in Ex. injection Ex as _ Eo. rewrite <- Eo. unfold cell_at, cell_of. rewrite Lk. simpl.
    apply winv_quiet; [|exact Hx]. pose proof (all_inv_lookup s a AI) as W. rewrite Lk in W. exact W.
Qed.

Lemma sim_init s0 a : st_febs s0 = [] -> sim (cell_at s0 a) a s0 b0.
Proof.
  intros E. constructor.
  - unfold all_inv. rewrite E. constructor.
  - unfold nas_ok. rewrite E. constructor.
  - apply binv_b0.
  - simpl. constructor.
  - rewrite E. simpl. constructor.
Qed.

(* every run of the model, from any initial memory, on any number of words, by any number of tasks (spawns of precondition
   tasks and ignored steps of blocked tasks included): the history of each word is explained by the abstract cell, from the
   word's initial cell to the cell the model ends in *)
Theorem model_runs_are_explained_from s0 l a :
  st_febs s0 = [] -> explained (cell_at s0 a) (hist_from s0 l a) (cell_at (state_after s0 l) a).
Proof.
  intros E. unfold hist_from, state_after.
  destruct (sim_build (cell_at s0 a) a l s0 b0 (sim_init s0 a E)) as [E1 S]. rewrite <- E1. apply sim_explained. exact S.
Qed.

Theorem model_runs_are_explained l a : explained (mkCell true 0%Z) (hist_of_run l a) (cell_at (exec l) a).
Proof. exact (model_runs_are_explained_from init l a eq_refl). Qed.

(* ... hence the acceptor that judges the free-running traces of the real code never rejects it, whatever its fuel *)
Theorem model_runs_are_accepted_from fuel s0 l a :
  st_febs s0 = [] -> decide fuel (cell_at s0 a) (hist_from s0 l a) (cell_at (state_after s0 l) a) <> Reject.
Proof. intros E D. exact (reject_complete _ _ _ _ D (model_runs_are_explained_from s0 l a E)). Qed.

Theorem model_runs_are_accepted fuel l a : decide fuel (mkCell true 0%Z) (hist_of_run l a) (cell_at (exec l) a) <> Reject.
Proof. exact (model_runs_are_accepted_from fuel init l a eq_refl). Qed.

(* the histories are well formed (every call returns after it was invoked): the acceptor never answers Bug on them either
   for that reason *)
Lemma sim_wf c0 a s b : sim c0 a s b -> wf_b (hist_of_bst b) = true.
Proof.
  intros [_ _ BI _ _]. unfold wf_b. apply forallb_forall. intros x Hx.
  apply (Permutation_in _ (sort_inv_perm _)) in Hx. apply in_app_or in Hx. destruct Hx as [Hx|Hx].
  - pose proof (bi_done b BI) as F. rewrite Forall_forall in F. destruct (F x Hx) as (r & Hr & Hi & _). rewrite Hr. apply N.ltb_lt. exact Hi.
  - apply in_map_iff in Hx. destruct Hx as (tp & <- & Htp).
    pose proof (bi_pend b BI) as F. rewrite Forall_forall in F. destruct (F tp Htp) as [Hr _]. rewrite Hr. reflexivity.
Qed.

Theorem model_histories_wellformed s0 l a : st_febs s0 = [] -> wf_b (hist_from s0 l a) = true.
Proof.
  intros E. unfold hist_from. destruct (sim_build (cell_at s0 a) a l s0 b0 (sim_init s0 a E)) as [_ S].
  eapply sim_wf. exact S.
Qed.

(* the clauses of `explained`, spelled out for a model run *)
Corollary model_runs_explicit s0 l a :
  st_febs s0 = [] ->
  exists lin_order,
    Permutation lin_order (completed (hist_from s0 l a)) /\ StronglySorted rt_compat lin_order /\
    hrun (cell_at s0 a) lin_order (cell_at (state_after s0 l) a) /\
    (forall p, In p (hist_from s0 l a) -> h_ret p = None -> enabled (cell_at (state_after s0 l) a) (h_op p) = false).
Proof.
  intros E. destruct (model_runs_are_explained_from s0 l a E) as (lo & (P & S & R) & Q).
  exists lo. repeat split; try assumption. intros p Hp Hr. apply Q. unfold pending. apply filter_In. split; [exact Hp|].
  unfold is_done. rewrite Hr. reflexivity.
Qed.
