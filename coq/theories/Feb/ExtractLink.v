From Coq Require Import List ZArith NArith.
From QV Require Import Feb.ModelHistoryDefs Syncvar.ModelHistoryDefs.
Require Extraction.
Require Import ExtrOcamlBasic.
Extraction Language OCaml.
Extraction "../ocaml/gen/c01link_model.ml" Feb.ModelHistoryDefs.feb_link Syncvar.ModelHistoryDefs.sv_link Feb.Model.runs_as Feb.Model.ext_op
  Syncvar.Model.SYNCVAR_INITIALIZER Syncvar.Model.SYNCVAR_EMPTY_INITIALIZER Syncvar.Model.SYNCVAR_INITIALIZE_TO Syncvar.Model.SYNCVAR_EMPTY_INITIALIZE_TO.
