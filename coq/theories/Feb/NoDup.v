(* C01/C02: in every reachable state a task id sits on at most one waiter list of at most one word. *)
From Coq Require Import List ZArith NArith Bool Lia Permutation.
Import ListNotations.
From QV Require Import Cell.Spec Feb.Model Feb.Proofs.

Definition tids (r : rec) : list N := map w_tid (waiters_of r).
Definition tids_opt (ro : option rec) : list N := match ro with Some r => tids r | None => [] end.
Definition bt (febs : list (N * rec)) : list N := flat_map (fun ar => tids (snd ar)) febs.

Lemma blocked_tids_bt s : blocked_tids s = bt (st_febs s).
Proof. reflexivity. Qed.

Lemma pool_fst r : map fst (pool r) = waiters_of r.
Proof. unfold pool, waiters_of. rewrite !map_app, !map_map. simpl. rewrite !map_id. reflexivity. Qed.
Lemma pool_tids ro : map (fun x => w_tid (fst x)) (pool_opt ro) = tids_opt ro.
Proof. destruct ro as [r|]; [|reflexivity]. simpl. unfold tids. rewrite <- pool_fst, map_map. reflexivity. Qed.

(* ---------------- assoc-list shape of an update ---------------- *)
Lemma bt_update febs a r' :
  exists P Q, bt febs = P ++ tids_opt (lookup a febs) ++ Q /\ bt (update a r' febs) = P ++ tids r' ++ Q.
Proof.
  induction febs as [|[k y] l IH]; simpl.
  - exists [], []. simpl. rewrite app_nil_r. split; reflexivity.
  - destruct (N.eqb a k) eqn:E; simpl.
    + exists [], (bt l). simpl. split; reflexivity.
    + destruct IH as (P & Q & H1 & H2). exists (tids y ++ P), Q. unfold bt in *. simpl. rewrite H1, H2, <- !app_assoc. split; reflexivity.
Qed.

(* ---------------- NoDup helpers ---------------- *)
Lemma NoDup_swap_mid {A} (P X Q R Y : list A) :
  Permutation X (R ++ Y) -> NoDup (P ++ X ++ Q) -> NoDup (R ++ P ++ Y ++ Q).
Proof.
  intros HP HN. eapply Permutation_NoDup; [|exact HN].
  eapply perm_trans; [apply Permutation_app_head, Permutation_app_tail, HP|].
  rewrite <- app_assoc. rewrite app_assoc. eapply perm_trans; [apply Permutation_app_tail, Permutation_app_comm|].
  rewrite <- app_assoc. reflexivity.
Qed.
Lemma NoDup_app_drop_l {A} (R Z : list A) : NoDup (R ++ Z) -> NoDup Z.
Proof. induction R; simpl; intros H; [exact H | inversion H; auto]. Qed.
Lemma NoDup_map_filter_app {A B} (f : A -> B) (p : A -> bool) (L : list A) (Z : list B) :
  NoDup (map f L ++ Z) -> NoDup (map f (filter p L) ++ Z).
Proof.
  induction L as [|x L IH]; simpl; intros H; [exact H|]. inversion H as [|? ? Hn Hr]; subst. specialize (IH Hr).
  destruct (p x); simpl; [|exact IH]. constructor; [|exact IH].
  intros Hin. apply Hn. apply in_app_or in Hin. apply in_or_app. destruct Hin as [Hin|Hin]; [left|right; exact Hin].
  apply in_map_iff in Hin. destruct Hin as (y & <- & Hy). apply filter_In in Hy. apply in_map, Hy.
Qed.
Lemma NoDup_flat_map_filter {A B} (f : A -> list B) (p : A -> bool) (l : list A) :
  NoDup (flat_map f l) -> NoDup (flat_map f (filter p l)).
Proof.
  induction l as [|x l IH]; simpl; intros H; [exact H|].
  destruct (p x); simpl; [|exact (IH (NoDup_app_drop_l _ _ H))].
  assert (H2 := H). apply NoDup_app_drop_l in H2. specialize (IH H2).
  clear H2. induction (f x) as [|y ys IHy]; simpl in *; [exact IH|]. inversion H as [|? ? Hn Hr]; subst.
  constructor; [|exact (IHy Hr)]. intros Hin. apply Hn. apply in_app_or in Hin. apply in_or_app. destruct Hin as [Hin|Hin]; [left; exact Hin|right].
  apply in_flat_map in Hin. destruct Hin as (z & Hz & Hy). apply filter_In in Hz. apply in_flat_map. exists z. split; [apply Hz | exact Hy].
Qed.

(* ---------------- released waiters and the batch ---------------- *)
Lemma rel_batch_rels (rels : list (waiter * cres)) :
  rel_batch (map rel_of rels) = map w_tid (filter w_nascent (map fst rels)).
Proof.
  induction rels as [|[w c] rels IH]; [reflexivity|].
  change (rel_batch (map rel_of ((w, c) :: rels))) with ((if w_nascent w then [w_tid w] else []) ++ rel_batch (map rel_of rels)).
  rewrite IH. simpl. destruct (w_nascent w); reflexivity.
Qed.

Lemma wr_rec_none ro v t o wr : word_step ro v t o = Some wr -> wr_rec wr = None -> ro = None.
Proof.
  destruct ro as [r|]; [|reflexivity]. intros H N. exfalso. revert H.
  destruct o; simpl; unfold gotlock_fill, gotlock_empty, wdone, wblock;
    repeat match goal with
           | |- context [if ?b then _ else _] => destruct b
           | |- context [fill_inner ?f ?r ?v] => destruct (fill_inner f r v) as [[[? ?] ?]|]
           | |- context [empty_inner ?f ?r ?v] => destruct (empty_inner f r v) as [[[? ?] ?]|]
           end; intros H; inversion H; subst; simpl in N; discriminate.
Qed.

Lemma not_blocked_notin s t : is_blocked s t = false -> ~ In t (blocked_tids s).
Proof.
  unfold is_blocked. intros H Hin. assert (existsb (N.eqb t) (blocked_tids s) = true); [|congruence].
  apply existsb_exists. exists t. split; [exact Hin | apply N.eqb_refl].
Qed.

(* ---------------- parking ---------------- *)
Lemma check_walk_shape febs k rem :
  fst (check_walk febs k rem) = febs \/
  exists a r, lookup a febs = Some r /\
    fst (check_walk febs k rem) = update a (mkRec (r_full r) (r_EFQ r) (r_FEQ r) (mkW k None DNull true :: r_FFQ r) (r_FFWQ r)) febs.
Proof.
  induction rem as [|a rem IH]; simpl; [left; reflexivity|].
  destruct (lookup a febs) as [r|] eqn:E; [|exact IH].
  destruct (r_full r) eqn:F; [exact IH|]. right. exists a, r. split; [exact E | rewrite F; reflexivity].
Qed.

Lemma tids_park r k :
  Permutation (tids (mkRec (r_full r) (r_EFQ r) (r_FEQ r) (mkW k None DNull true :: r_FFQ r) (r_FFWQ r))) (k :: tids r).
Proof.
  unfold tids, waiters_of. simpl. rewrite !map_app. simpl. rewrite !map_app.
  apply (perm_mid2 k (map w_tid (r_EFQ r)) (map w_tid (r_FEQ r)) (map w_tid (r_FFQ r) ++ map w_tid (r_FFWQ r))).
Qed.

Lemma check_preconds_bt s k :
  blocked_tids (fst (check_preconds s k)) = blocked_tids s \/
  Permutation (blocked_tids (fst (check_preconds s k))) (k :: blocked_tids s).
Proof.
  unfold check_preconds. set (rem := p_rem _).
  pose proof (check_walk_shape (st_febs s) k rem) as H. destruct (check_walk (st_febs s) k rem) as [febs' rem'] eqn:E. simpl in *.
  destruct H as [->|(a & r & L & ->)]; [left; reflexivity|]. right.
  rewrite !blocked_tids_bt. simpl. destruct (bt_update (st_febs s) a (mkRec (r_full r) (r_EFQ r) (r_FEQ r) (mkW k None DNull true :: r_FFQ r) (r_FFWQ r))) as (P & Q & H1 & H2).
  rewrite H2, H1, L. simpl.
  eapply perm_trans; [apply Permutation_app_head, Permutation_app_tail, tids_park|]. simpl.
  apply Permutation_sym, Permutation_middle.
Qed.

Lemma launch_nodup b : forall s, NoDup (b ++ blocked_tids s) -> NoDup (blocked_tids (fst (launch s b))).
Proof.
  induction b as [|k b IH]; intros s H; simpl; [exact H|].
  pose proof (check_preconds_bt s k) as C. destruct (check_preconds s k) as [s1 ok]. simpl in C.
  specialize (IH s1). destruct (launch s1 b) as [s2 ev]. simpl in *. apply IH.
  inversion H as [|? ? Hn Hr]; subst. destruct C as [->|C]; [exact Hr|].
  eapply Permutation_NoDup; [apply Permutation_app_head, Permutation_sym, C|].
  eapply Permutation_NoDup; [apply Permutation_middle|]. constructor; assumption.
Qed.

Lemma feb_remove_nodup s a : NoDup (blocked_tids s) -> NoDup (blocked_tids (feb_remove s a)).
Proof.
  intros H. unfold feb_remove. destruct (lookup a (st_febs s)); [|exact H]. destruct (_ && _); [|exact H].
  rewrite blocked_tids_bt. simpl. unfold remove, bt. apply NoDup_flat_map_filter. exact H.
Qed.

(* ---------------- one step ---------------- *)
Theorem step_nodup s t g : all_inv s -> NoDup (blocked_tids s) -> NoDup (blocked_tids (fst (step s t g))).
Proof.
  intros I H. unfold step. destruct (is_blocked s t) eqn:B; [exact H|].
  pose proof (not_blocked_notin s t B) as Hnt.
  destruct g as [a o | k pcs].
  - destruct (word_refines (lookup a (st_febs s)) (memget a s) t o (all_inv_lookup s a I)) as (wr & E & _ & R).
    rewrite E.
    set (s1 := mkSt (update a (wr_val wr) (st_mem s))
                    (match wr_rec wr with Some r => update a r (st_febs s) | None => st_febs s end) (st_pre s)).
    assert (H1 : NoDup (rel_batch (wr_rel wr) ++ blocked_tids s1)).
    { rewrite blocked_tids_bt in H, Hnt. rewrite blocked_tids_bt. unfold s1. simpl.
      destruct (wr_rec wr) as [r'|] eqn:ER.
      - destruct (bt_update (st_febs s) a r') as (P & Q & H1 & H2). rewrite H2. rewrite H1 in H, Hnt.
        unfold refines_cell in R. destruct (atomic _ _) as [[c1 res]|].
        + destruct R as (_ & _ & ops & rels & Rr & Rf & _ & Rp). rewrite ER in Rp. simpl in Rp.
          apply (Permutation_map (fun x => w_tid (fst x))) in Rp. rewrite pool_tids, map_app in Rp.
          change (map (fun x : waiter * cop => w_tid (fst x)) (pool r')) with (map (fun x => w_tid (fst x)) (pool_opt (Some r'))) in Rp.
          rewrite pool_tids in Rp. simpl in Rp.
          pose proof (NoDup_swap_mid P _ Q _ _ Rp H) as H3.
          rewrite Rr, rel_batch_rels, <- Rf. rewrite <- map_map in H3. apply NoDup_map_filter_app. exact H3.
        + destruct R as (_ & Rr & Rc). rewrite Rr. simpl. destruct (is_nb o).
          * destruct Rc as (_ & _ & Rp). rewrite ER in Rp. simpl in Rp.
            assert (T : tids r' = tids_opt (lookup a (st_febs s))).
            { rewrite <- pool_tids, <- Rp. change (pool r') with (pool_opt (Some r')). apply eq_sym, pool_tids. }
            rewrite T. exact H.
          * destruct Rc as (_ & w & Hw & _ & Rp). rewrite ER in Rp. simpl in Rp.
            apply (Permutation_map (fun x => w_tid (fst x))) in Rp. simpl in Rp. rewrite pool_tids, Hw in Rp.
            change (map (fun x : waiter * cop => w_tid (fst x)) (pool r')) with (map (fun x => w_tid (fst x)) (pool_opt (Some r'))) in Rp.
            rewrite pool_tids in Rp. simpl in Rp.
            eapply Permutation_NoDup; [apply Permutation_app_head, Permutation_app_tail, Permutation_sym, Rp|].
            simpl. eapply Permutation_NoDup; [apply Permutation_middle|]. constructor; assumption.
      - pose proof (wr_rec_none _ _ _ _ _ E ER) as EN. unfold refines_cell in R. rewrite EN, ER in R.
        destruct (atomic _ _) as [[c1 res]|].
        + destruct R as (_ & _ & ops & rels & Rr & Rf & _ & Rp). simpl in Rp. rewrite app_nil_r in Rp.
          apply Permutation_nil in Rp. subst ops. destruct rels; [|discriminate]. rewrite Rr. exact H.
        + destruct R as (_ & Rr & _). rewrite Rr. exact H. }
    pose proof (launch_nodup (rel_batch (wr_rel wr)) s1 H1) as H2.
    destruct (launch s1 (rel_batch (wr_rel wr))) as [s2 ev2]. simpl in H2.
    destruct (wr_rm wr); simpl; [apply feb_remove_nodup|]; exact H2.
  - destruct (is_blocked s k || has_key k (st_pre s) || N.eqb k t) eqn:C; [exact H|].
    apply orb_false_elim in C. destruct C as [C _]. apply orb_false_elim in C. destruct C as [Bk _].
    set (s1 := mkSt (st_mem s) (st_febs s) (update k (mkP (rev pcs) (rev pcs) [] 0) (st_pre s))).
    pose proof (check_preconds_bt s1 k) as CB. destruct (check_preconds s1 k) as [s2 ok]. simpl in *.
    destruct CB as [->|CB]; [exact H|].
    eapply Permutation_NoDup; [apply Permutation_sym, CB|]. constructor; [exact (not_blocked_notin s k Bk) | exact H].
Qed.

Lemma run_ops_nodup l : forall s, all_inv s -> NoDup (blocked_tids s) -> NoDup (blocked_tids (fst (run_ops s l))).
Proof.
  induction l as [|[t g] l IH]; intros s I H; simpl; [exact H|].
  pose proof (step_inv s t g I) as I1. pose proof (step_nodup s t g I H) as H1.
  destruct (step s t g) as [s1 ev]. simpl in *. specialize (IH s1 I1 H1). destruct (run_ops s1 l). exact IH.
Qed.

(* a call issued by a task that is blocked is not executed (the harness does the same): this is the well-formedness
   condition on scripts, enforced by the model itself, so the theorems below hold for every operation list *)
Lemma step_blocked_skip s t g : is_blocked s t = true -> step s t g = (s, [Skip t]).
Proof. intros H. unfold step. rewrite H. reflexivity. Qed.

Theorem blocked_once_reachable l : NoDup (blocked_tids (exec l)).
Proof. apply run_ops_nodup; constructor. Qed.

(* consequences: at most one waiter list, at most one word *)
Lemma NoDup_flat_map_in {A B} (f : A -> list B) (l : list A) x :
  NoDup (flat_map f l) -> In x l -> NoDup (f x).
Proof.
  induction l as [|y l IH]; simpl; intros H Hin; [contradiction|]. destruct Hin as [->|Hin].
  - clear IH. induction (f x) as [|z zs IHz]; [constructor|]. simpl in H. inversion H as [|? ? Hn Hr]; subst.
    constructor; [intros Hz; apply Hn, in_or_app; left; exact Hz | exact (IHz Hr)].
  - exact (IH (NoDup_app_drop_l _ _ H) Hin).
Qed.
Lemma NoDup_app_disjoint {A} (X Y : list A) t : NoDup (X ++ Y) -> In t X -> In t Y -> False.
Proof.
  induction X as [|x X IH]; simpl; intros H Hx Hy; [contradiction|]. destruct Hx as [->|Hx]; inversion H as [|? ? Hn Hr]; subst.
  - apply Hn, in_or_app. right; exact Hy.
  - exact (IH Hr Hx Hy).
Qed.
Theorem one_list_reachable l a r : lookup a (st_febs (exec l)) = Some r -> NoDup (map w_tid (waiters_of r)).
Proof.
  intros E. apply lookup_In in E.
  exact (NoDup_flat_map_in (fun ar => tids (snd ar)) _ (a, r) (blocked_once_reachable l) E).
Qed.

Theorem one_word_reachable l a b r r' t :
  lookup a (st_febs (exec l)) = Some r -> lookup b (st_febs (exec l)) = Some r' ->
  In t (map w_tid (waiters_of r)) -> In t (map w_tid (waiters_of r')) -> a = b.
Proof.
  intros Ea Eb Ta Tb. destruct (N.eq_dec a b) as [|Hn]; [assumption|]. exfalso.
  apply lookup_In in Ea. apply lookup_In in Eb.
  pose proof (blocked_once_reachable l) as H. rewrite blocked_tids_bt in H. unfold bt in H.
  revert H Ea Eb. generalize (st_febs (exec l)). intros febs. induction febs as [|z febs IH]; simpl; intros H Ea Eb; [contradiction|].
  destruct Ea as [->|Ea]; destruct Eb as [Eb|Eb]; subst.
  - inversion Eb; congruence.
  - eapply NoDup_app_disjoint; [exact H | exact Ta | apply in_flat_map; exists (b, r'); auto].
  - eapply NoDup_app_disjoint; [exact H | exact Tb | apply in_flat_map; exists (a, r); auto].
  - exact (IH (NoDup_app_drop_l _ _ H) Ea Eb).
Qed.
