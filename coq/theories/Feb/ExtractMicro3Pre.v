From Coq Require Import List ZArith NArith.
From QV Require Import Cell.Spec Feb.Model Feb.Proofs Feb.Micro3Pre.
Require Extraction.
Require Import ExtrOcamlBasic.
Extraction Language OCaml.
Extraction "../ocaml/gen/c06micro_model.ml" minit mstep mstep_gen finished good_final inv_ok launch_ok once_ok n_places nascent_final_ok no_lost_wakeup settled res_of hashed full_now.
