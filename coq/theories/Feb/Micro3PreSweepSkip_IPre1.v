(* C06 micro-step layer with a nascent waiter (extension K part 2): exhaustive sweep of the 13 x 13 pairs of calls from initial state
   IPre1: src/feb.c as it is (every triple) and the regression variant C06-3 / C06-1 (every triple outside skip_class);
   reachable-set certificates with a state invariant and a decreasing measure (Micro3PreProofs); finite domain, by vm_compute. *)
From Coq Require Import List ZArith NArith Bool.
From QV Require Import Cell.Spec Feb.Model Feb.Proofs Feb.Micro3Pre Feb.Micro3PreProofs.

Lemma skipvar_IPre1 : sweep mstep_skip inv_ok good_final skip_class IPre1 = true.
Proof. vm_compute. reflexivity. Qed.
