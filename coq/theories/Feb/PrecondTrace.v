(* C06, trace level: precond_safe over arbitrary operation lists, using the history variables p_seen / p_enq of the model. *)
From Coq Require Import List ZArith NArith Bool Lia.
Import ListNotations.
From QV Require Import Cell.Spec Feb.Model Feb.Proofs Feb.PrecondProofs.

Section RemoveLemmas.
  Context {V : Type}.
  Lemma lookup_remove_eq a (l : list (N * V)) : lookup a (remove a l) = None.
  Proof.
    unfold remove. induction l as [|[k y] l IH]; simpl; [reflexivity|].
    destruct (N.eqb a k) eqn:E; simpl; [exact IH | rewrite E; exact IH].
  Qed.
  Lemma lookup_remove_neq a b (l : list (N * V)) : a <> b -> lookup b (remove a l) = lookup b l.
  Proof.
    intros Hn. unfold remove. induction l as [|[k y] l IH]; simpl; [reflexivity|].
    destruct (N.eqb a k) eqn:E; simpl.
    - apply N.eqb_eq in E; subst k. destruct (N.eqb b a) eqn:E2; [apply N.eqb_eq in E2; congruence | exact IH].
    - destruct (N.eqb b k); [reflexivity | exact IH].
  Qed.
End RemoveLemmas.

Lemma feb_remove_full s a b : is_full (st_febs (feb_remove s a)) b = is_full (st_febs s) b.
Proof.
  unfold feb_remove. destruct (lookup a (st_febs s)) as [r|] eqn:E; [|reflexivity].
  destruct (all_empty r && r_full r) eqn:C; [|reflexivity]. simpl. unfold is_full.
  destruct (N.eq_dec a b) as [<-|Hn].
  - rewrite lookup_remove_eq, E. simpl. apply andb_prop in C. symmetry. apply C.
  - rewrite lookup_remove_neq by assumption. reflexivity.
Qed.
Lemma feb_remove_pre s a : st_pre (feb_remove s a) = st_pre s.
Proof. unfold feb_remove. destruct (lookup a (st_febs s)); [destruct (_ && _)|]; reflexivity. Qed.

Lemma lookup_info s k info : lookup k (st_pre s) = Some info -> info_of s k = info.
Proof. unfold info_of. intros ->. reflexivity. Qed.

(* ---------------- where do the entries of p_seen come from ---------------- *)
Definition seen_before (s : state) (k a : N) : Prop := exists info, lookup k (st_pre s) = Some info /\ In a (p_seen info).

Lemma check_seen s k0 s1 ok k info1 a :
  check_preconds s k0 = (s1, ok) -> lookup k (st_pre s1) = Some info1 -> In a (p_seen info1) ->
  seen_before s k a \/ is_full (st_febs s) a = true.
Proof.
  intros E L Ha. destruct (recheck_safe _ _ _ _ E) as (seen & rem' & info' & _ & Fs & Hl & _ & _ & Hseen & _ & _ & Hoth & _).
  destruct (N.eq_dec k k0) as [->|Hn].
  - rewrite Hl in L. inversion L; subst info1. rewrite Hseen in Ha. apply in_app_or in Ha. destruct Ha as [Ha|Ha].
    + left. unfold info_of in Ha. destruct (lookup k0 (st_pre s)) as [i|] eqn:E0; [exists i; auto | contradiction].
    + right. rewrite Forall_forall in Fs. exact (Fs a Ha).
  - left. exists info1. rewrite <- (Hoth k Hn). auto.
Qed.

Lemma launch_seen b : forall s s' evs, launch s b = (s', evs) ->
  forall k info' a, lookup k (st_pre s') = Some info' -> In a (p_seen info') ->
  seen_before s k a \/ is_full (st_febs s) a = true.
Proof.
  induction b as [|k0 b IH]; intros s s' evs H k info' a L Ha; simpl in H.
  - inversion H; subst. left. exists info'. auto.
  - destruct (check_preconds s k0) as [s1 ok] eqn:E1. destruct (launch s1 b) as [s2 ev] eqn:E2. inversion H; subst. clear H.
    destruct (IH _ _ _ E2 k info' a L Ha) as [(i1 & L1 & H1)|Hf].
    + exact (check_seen _ _ _ _ _ _ _ E1 L1 H1).
    + right. destruct (recheck_safe _ _ _ _ E1) as (_ & _ & _ & _ & _ & _ & _ & _ & _ & _ & _ & _ & Hf1 & _). rewrite <- Hf1. exact Hf.
Qed.

Lemma step_seen s t g s' evs k info' a :
  step s t g = (s', evs) -> lookup k (st_pre s') = Some info' -> In a (p_seen info') ->
  seen_before s k a \/ is_full (st_febs s') a = true.
Proof.
  unfold step. destruct (is_blocked s t); [intros H; inversion H; subst; intros L Ha; left; exists info'; auto|].
  destruct g as [w o | k0 pcs].
  - destruct (word_step (lookup w (st_febs s)) (memget w s) t o) as [wr|];
      [|intros H; inversion H; subst; intros L Ha; left; exists info'; auto].
    match goal with |- context [launch ?x ?b] => set (s1 := x); destruct (launch s1 b) as [s2 ev2] eqn:EL end.
    intros H. inversion H; subst. clear H. intros L Ha.
    assert (L2 : lookup k (st_pre s2) = Some info') by (destruct (wr_rm wr); [rewrite feb_remove_pre in L|]; exact L).
    destruct (launch_seen _ _ _ _ EL k info' a L2 Ha) as [Hs|Hf]; [left; exact Hs|]. right.
    pose proof (launch_full (rel_batch (wr_rel wr)) s1 a) as LF. rewrite EL in LF. simpl in LF.
    destruct (wr_rm wr); [rewrite feb_remove_full|]; rewrite LF; exact Hf.
  - destruct (is_blocked s k0 || has_key k0 (st_pre s) || N.eqb k0 t) eqn:C;
      [intros H; inversion H; subst; intros L Ha; left; exists info'; auto|].
    set (s1 := mkSt (st_mem s) (st_febs s) (update k0 (mkP (rev pcs) (rev pcs) [] 0) (st_pre s))).
    destruct (check_preconds s1 k0) as [s2 ok] eqn:E. intros H. inversion H; subst. clear H. intros L Ha.
    destruct (recheck_safe _ _ _ _ E) as (_ & _ & _ & _ & _ & _ & _ & _ & _ & _ & _ & _ & Hf & _).
    destruct (check_seen _ _ _ _ _ _ _ E L Ha) as [(i & L1 & H1)|Hf1]; [|right; rewrite Hf; exact Hf1].
    unfold s1 in L1. simpl in L1. destruct (N.eq_dec k0 k) as [->|Hn].
    + rewrite lookup_update_eq in L1. inversion L1; subst i. contradiction.
    + left. exists i. rewrite lookup_update_neq in L1 by assumption. auto.
Qed.

(* ---------------- runs ---------------- *)
Lemma run_ops_app l1 : forall s l2, fst (run_ops s (l1 ++ l2)) = fst (run_ops (fst (run_ops s l1)) l2).
Proof.
  induction l1 as [|[t g] l1 IH]; intros s l2; simpl; [reflexivity|].
  destruct (step s t g) as [s1 ev]. specialize (IH s1 l2).
  destruct (run_ops s1 (l1 ++ l2)) as [sa ea]. destruct (run_ops s1 l1) as [sb eb]. simpl in *. exact IH.
Qed.
Lemma exec_snoc l t g : exec (l ++ [(t, g)]) = fst (step (exec l) t g).
Proof.
  unfold exec. rewrite run_ops_app. simpl. destruct (step (fst (run_ops init l)) t g) as [s1 ev]. reflexivity.
Qed.

(* every word recorded in p_seen was full in the state after some step at which the task already existed *)
Theorem seen_was_full l : forall k info a,
  lookup k (st_pre (exec l)) = Some info -> In a (p_seen info) ->
  exists j, (j <= length l)%nat /\ has_key k (st_pre (exec (firstn j l))) = true /\
            is_full (st_febs (exec (firstn j l))) a = true.
Proof.
  induction l as [|[t g] l IH] using rev_ind; intros k info a L Ha.
  - discriminate.
  - rewrite exec_snoc in L. destruct (step (exec l) t g) as [s' evs] eqn:E. simpl in L.
    destruct (step_seen _ _ _ _ _ _ _ _ E L Ha) as [(i & L1 & H1)|Hf].
    + destruct (IH k i a L1 H1) as (j & Hj & Hk & Hfull). exists j. rewrite app_length. simpl.
      split; [lia|]. rewrite firstn_app. replace (j - length l)%nat with 0%nat by lia. simpl. rewrite app_nil_r. split; assumption.
    + exists (length (l ++ [(t, g)])). split; [lia|]. rewrite firstn_all, exec_snoc, E. simpl.
      split; [unfold has_key; rewrite L; reflexivity | exact Hf].
Qed.

(* ---------------- bookkeeping invariant: all = seen ++ rem; enqueued only with nothing remaining ---------------- *)
Definition pre_ok (i : pinfo) : Prop := p_all i = p_seen i ++ p_rem i /\ ((p_enq i > 0)%nat -> p_rem i = []).
Definition pre_inv (s : state) : Prop := forall k i, lookup k (st_pre s) = Some i -> pre_ok i.

Lemma pre_ok_none : pre_ok no_pinfo.
Proof. split; [reflexivity | intros; reflexivity]. Qed.

Lemma check_pre_inv s k s' ok : pre_inv s -> check_preconds s k = (s', ok) -> pre_inv s'.
Proof.
  intros I E k' i' L.
  destruct (recheck_safe _ _ _ _ E) as (seen & rem' & info' & Hs & _ & Hl & Hall & Hr & Hseen & Henq & Hok & Hoth & _).
  destruct (N.eq_dec k' k) as [->|Hn]; [|apply (I k'); rewrite <- (Hoth k' Hn); exact L].
  rewrite Hl in L. inversion L; subst i'.
  assert (O : pre_ok (info_of s k)) by (unfold info_of; destruct (lookup k (st_pre s)) eqn:E0; [apply (I k); exact E0 | exact pre_ok_none]).
  destruct O as [O1 O2]. split.
  - rewrite Hall, Hseen, Hr, O1, Hs, app_assoc. reflexivity.
  - rewrite Henq, Hr. destruct ok; intros Hp.
    + destruct rem'; [reflexivity | discriminate].
    + specialize (O2 Hp). rewrite O2 in Hs. destruct seen; [|discriminate]. simpl in Hs. subst rem'. discriminate.
Qed.

Lemma launch_pre_inv b : forall s s' evs, pre_inv s -> launch s b = (s', evs) -> pre_inv s'.
Proof.
  induction b as [|k b IH]; intros s s' evs I H; simpl in H; [inversion H; subst; exact I|].
  destruct (check_preconds s k) as [s1 ok] eqn:E1. destruct (launch s1 b) as [s2 ev] eqn:E2. inversion H; subst.
  eapply IH; [eapply check_pre_inv; eassumption | eassumption].
Qed.

Lemma step_pre_inv s t g : pre_inv s -> pre_inv (fst (step s t g)).
Proof.
  intros I. unfold step. destruct (is_blocked s t); [exact I|].
  destruct g as [w o | k0 pcs].
  - destruct (word_step (lookup w (st_febs s)) (memget w s) t o) as [wr|]; [|exact I].
    match goal with |- context [launch ?x ?b] => set (s1 := x); destruct (launch s1 b) as [s2 ev2] eqn:EL end.
    assert (I2 : pre_inv s2) by (eapply launch_pre_inv; [|exact EL]; exact I).
    simpl. destruct (wr_rm wr); [|exact I2]. intros k i L. rewrite feb_remove_pre in L. exact (I2 k i L).
  - destruct (is_blocked s k0 || has_key k0 (st_pre s) || N.eqb k0 t); [exact I|].
    set (s1 := mkSt (st_mem s) (st_febs s) (update k0 (mkP (rev pcs) (rev pcs) [] 0) (st_pre s))).
    destruct (check_preconds s1 k0) as [s2 ok] eqn:E. simpl. eapply check_pre_inv; [|exact E].
    intros k i L. unfold s1 in L. simpl in L. destruct (N.eq_dec k0 k) as [->|Hn].
    + rewrite lookup_update_eq in L. inversion L; subst. split; [reflexivity | simpl; lia].
    + rewrite lookup_update_neq in L by assumption. exact (I k i L).
Qed.

Lemma exec_pre_inv l : pre_inv (exec l).
Proof.
  induction l as [|[t g] l IH] using rev_ind; [intros k i L; discriminate|].
  rewrite exec_snoc. apply step_pre_inv. exact IH.
Qed.

(* ---------------- an Enq event counts ---------------- *)
Lemma check_enq_mono s k0 s1 ok k : check_preconds s k0 = (s1, ok) -> (p_enq (info_of s k) <= p_enq (info_of s1 k))%nat.
Proof.
  intros E. destruct (recheck_safe _ _ _ _ E) as (_ & _ & info' & _ & _ & Hl & _ & _ & _ & Henq & _ & Hoth & _).
  destruct (N.eq_dec k k0) as [->|Hn].
  - unfold info_of at 2. rewrite Hl, Henq. destruct ok; lia.
  - unfold info_of. rewrite (Hoth k Hn). lia.
Qed.
Lemma launch_enq b : forall s s' evs k, launch s b = (s', evs) ->
  (p_enq (info_of s k) <= p_enq (info_of s' k))%nat /\ (In (Enq k) evs -> (p_enq (info_of s' k) > 0)%nat).
Proof.
  induction b as [|k0 b IH]; intros s s' evs k H; simpl in H; [inversion H; subst; split; [lia | intros []]|].
  destruct (check_preconds s k0) as [s1 ok] eqn:E1. destruct (launch s1 b) as [s2 ev] eqn:E2. inversion H; subst. clear H.
  destruct (IH _ _ _ k E2) as [M2 P2]. pose proof (check_enq_mono _ _ _ _ k E1) as M1. split; [lia|].
  intros Hin. destruct ok; [destruct Hin as [Hk|Hin]; [|auto] | auto].
  inversion Hk; subst k0. destruct (recheck_safe _ _ _ _ E1) as (_ & _ & info' & _ & _ & Hl & _ & _ & _ & Henq & _).
  assert (p_enq (info_of s1 k) > 0)%nat by (unfold info_of; rewrite Hl, Henq; lia). lia.
Qed.

Lemma step_enq s t g s' evs k : step s t g = (s', evs) -> In (Enq k) evs -> (p_enq (info_of s' k) > 0)%nat.
Proof.
  unfold step. destruct (is_blocked s t); [intros H; inversion H; subst; intros [H1|[]]; discriminate|].
  destruct g as [w o | k0 pcs].
  - destruct (word_step (lookup w (st_febs s)) (memget w s) t o) as [wr|]; [|intros H; inversion H; subst; intros [H1|[]]; discriminate].
    match goal with |- context [launch ?x ?b] => set (s1 := x); destruct (launch s1 b) as [s2 ev2] eqn:EL end.
    intros H. inversion H; subst. clear H. intros Hin.
    assert (In (Enq k) ev2).
    { apply in_app_or in Hin. destruct Hin as [Hin|Hin]; [destruct (wr_code wr); simpl in Hin; [destruct Hin as [Hin|[]]; discriminate | contradiction]|].
      apply in_app_or in Hin. destruct Hin as [Hin|Hin]; [|exact Hin]. exfalso.
      unfold rel_events in Hin. apply in_flat_map in Hin. destruct Hin as ([[t' n] v'] & _ & Hx).
      destruct n; simpl in Hx; [contradiction | destruct Hx as [Hx|[]]; discriminate]. }
    destruct (launch_enq _ _ _ _ k EL) as [_ P]. specialize (P H).
    unfold info_of in *. destruct (wr_rm wr); [rewrite feb_remove_pre|]; exact P.
  - destruct (is_blocked s k0 || has_key k0 (st_pre s) || N.eqb k0 t); [intros H; inversion H; subst; intros [H1|[]]; discriminate|].
    set (s1 := mkSt (st_mem s) (st_febs s) (update k0 (mkP (rev pcs) (rev pcs) [] 0) (st_pre s))).
    destruct (check_preconds s1 k0) as [s2 ok] eqn:E. intros H. inversion H; subst. clear H.
    destruct (recheck_safe _ _ _ _ E) as (_ & _ & info' & _ & _ & Hl & _ & _ & _ & Henq & _).
    intros [Hin|Hin]; [discriminate|]. destruct ok; [|contradiction]. destruct Hin as [Hin|[]]. inversion Hin; subst k0.
    unfold info_of. rewrite Hl, Henq. lia.
Qed.

(* the words of a task are the ones given at its spawn (walk order = reversed argument order) *)
Lemma spawn_sets_all s t k pcs s' evs :
  step s t (GSpawn k pcs) = (s', evs) -> evs <> [Skip t] -> p_all (info_of s' k) = rev pcs.
Proof.
  unfold step. destruct (is_blocked s t); [intros H; inversion H; subst; congruence|].
  destruct (is_blocked s k || has_key k (st_pre s) || N.eqb k t); [intros H; inversion H; subst; congruence|].
  set (s1 := mkSt (st_mem s) (st_febs s) (update k (mkP (rev pcs) (rev pcs) [] 0) (st_pre s))).
  destruct (check_preconds s1 k) as [s2 ok] eqn:E. intros H. inversion H; subst. intros _.
  destruct (recheck_safe _ _ _ _ E) as (_ & _ & info' & _ & _ & Hl & Hall & _).
  unfold info_of at 1. rewrite Hl, Hall. unfold info_of, s1. simpl. rewrite lookup_update_eq. reflexivity.
Qed.

(* ================= precond_safe =================
   For every operation list l and every further step (t, g): if that step hands precondition task k to a ready queue
   (event Enq k), then every one of k's precondition words was seen full by a check of k, and was full in the state
   after some step of the run at which k had already been spawned. *)
Theorem precond_safe l t g k :
  In (Enq k) (snd (step (exec l) t g)) ->
  let l' := l ++ [(t, g)] in
  let info := info_of (exec l') k in
  (p_enq info > 0)%nat /\ p_rem info = [] /\
  forall a, In a (p_all info) ->
    In a (p_seen info) /\
    exists j, (j <= length l')%nat /\ has_key k (st_pre (exec (firstn j l'))) = true /\
              is_full (st_febs (exec (firstn j l'))) a = true.
Proof.
  intros Hin l' info. unfold info, l'. rewrite exec_snoc.
  destruct (step (exec l) t g) as [s' evs] eqn:E. simpl in *.
  pose proof (step_enq _ _ _ _ _ _ E Hin) as Hp.
  assert (L : exists i, lookup k (st_pre s') = Some i).
  { unfold info_of in Hp. destruct (lookup k (st_pre s')) as [i|]; [eexists; reflexivity | simpl in Hp; lia]. }
  destruct L as (i & L). rewrite (lookup_info _ _ _ L) in *.
  assert (I : pre_inv s') by (replace s' with (fst (step (exec l) t g)) by (rewrite E; reflexivity); apply step_pre_inv, exec_pre_inv).
  destruct (I k i L) as [O1 O2]. split; [exact Hp|]. split; [exact (O2 Hp)|].
  intros a Ha. rewrite O1, (O2 Hp), app_nil_r in Ha. split; [exact Ha|].
  apply (seen_was_full (l ++ [(t, g)]) k i a); [rewrite exec_snoc, E; exact L | exact Ha].
Qed.
