(* C06, trace level: precond_once -- a precondition task is enqueued at most once and is at any time in exactly one
   place: parked (as a nascent waiter, on one waiter list of one word) or launched. *)
From Coq Require Import List ZArith NArith Bool Lia Permutation.
Import ListNotations.
From QV Require Import Cell.Spec Feb.Model Feb.Proofs Feb.PrecondProofs Feb.PrecondTrace Feb.NoDup.

(* nascent (parked precondition) task ids *)
Definition ntids (r : rec) : list N := map w_tid (filter w_nascent (waiters_of r)).
Definition ntids_opt (ro : option rec) : list N := match ro with Some r => ntids r | None => [] end.
Definition nt (febs : list (N * rec)) : list N := flat_map (fun ar => ntids (snd ar)) febs.
Definition parked (s : state) : list N := nt (st_febs s).

Lemma perm_filter {A} (p : A -> bool) (l l' : list A) : Permutation l l' -> Permutation (filter p l) (filter p l').
Proof.
  induction 1 as [|x l l' H IH|x y l|l l' l'' H1 IH1 H2 IH2]; simpl.
  - constructor.
  - destruct (p x); [constructor|]; exact IH.
  - destruct (p x), (p y); try reflexivity. apply perm_swap.
  - eapply perm_trans; eassumption.
Qed.
Lemma perm_swap_mid {A} (P X Q R Y : list A) : Permutation X (R ++ Y) -> Permutation (P ++ X ++ Q) (R ++ P ++ Y ++ Q).
Proof.
  intros HP. eapply perm_trans; [apply Permutation_app_head, Permutation_app_tail, HP|].
  rewrite <- app_assoc. rewrite app_assoc. eapply perm_trans; [apply Permutation_app_tail, Permutation_app_comm|].
  rewrite <- app_assoc. reflexivity.
Qed.

Lemma nt_update febs a r' :
  exists P Q, nt febs = P ++ ntids_opt (lookup a febs) ++ Q /\ nt (update a r' febs) = P ++ ntids r' ++ Q.
Proof.
  induction febs as [|[k y] l IH]; simpl.
  - exists [], []. simpl. rewrite app_nil_r. split; reflexivity.
  - destruct (N.eqb a k) eqn:E; simpl.
    + exists [], (nt l). simpl. split; reflexivity.
    + destruct IH as (P & Q & H1 & H2). exists (ntids y ++ P), Q. unfold nt in *. simpl. rewrite H1, H2, <- !app_assoc. split; reflexivity.
Qed.

Lemma pool_ntids ro : map w_tid (filter w_nascent (map fst (pool_opt ro))) = ntids_opt ro.
Proof. destruct ro as [r|]; [|reflexivity]. simpl. rewrite pool_fst. reflexivity. Qed.

Lemma parked_blocked febs k : In k (nt febs) -> In k (bt febs).
Proof.
  unfold nt, bt. intros H. apply in_flat_map in H. destruct H as (ar & Har & Hk). apply in_flat_map. exists ar. split; [exact Har|].
  unfold ntids in Hk. unfold tids. apply in_map_iff in Hk. destruct Hk as (w & <- & Hw). apply filter_In in Hw. apply in_map, Hw.
Qed.

(* ---------------- the word step: parked tasks either stay or go to the batch ---------------- *)
Lemma word_step_parked s t a o wr :
  all_inv s -> word_step (lookup a (st_febs s)) (memget a s) t o = Some wr ->
  Permutation (nt (st_febs s))
              (rel_batch (wr_rel wr) ++ nt (match wr_rec wr with Some r => update a r (st_febs s) | None => st_febs s end)).
Proof.
  intros I E.
  destruct (word_refines (lookup a (st_febs s)) (memget a s) t o (all_inv_lookup s a I)) as (wr0 & E0 & _ & R).
  rewrite E in E0. inversion E0; subst wr0. clear E0.
  destruct (wr_rec wr) as [r'|] eqn:ER.
  - destruct (nt_update (st_febs s) a r') as (P & Q & H1 & H2). rewrite H2, H1.
    unfold refines_cell in R. destruct (atomic _ _) as [[c1 res]|].
    + destruct R as (_ & _ & ops & rels & Rr & Rf & _ & Rp). rewrite ER in Rp. simpl in Rp.
      apply (Permutation_map fst) in Rp. apply (perm_filter w_nascent) in Rp. apply (Permutation_map w_tid) in Rp.
      rewrite pool_ntids in Rp. rewrite map_app, filter_app, map_app in Rp.
      change (map w_tid (filter w_nascent (map fst (pool r')))) with (map w_tid (filter w_nascent (map fst (pool_opt (Some r'))))) in Rp.
      rewrite pool_ntids in Rp. simpl in Rp. rewrite Rr, rel_batch_rels, <- Rf. apply perm_swap_mid. exact Rp.
    + destruct R as (_ & Rr & Rc). rewrite Rr. simpl. destruct (is_nb o).
      * destruct Rc as (_ & _ & Rp). rewrite ER in Rp. simpl in Rp.
        assert (T : ntids r' = ntids_opt (lookup a (st_febs s))).
        { rewrite <- pool_ntids, <- Rp. change (pool r') with (pool_opt (Some r')). apply eq_sym, pool_ntids. }
        rewrite T. reflexivity.
      * destruct Rc as (_ & w & Hw & Hn & Rp). rewrite ER in Rp. simpl in Rp.
        apply (Permutation_map fst) in Rp. apply (perm_filter w_nascent) in Rp. apply (Permutation_map w_tid) in Rp.
        simpl in Rp. rewrite Hn in Rp. rewrite pool_ntids in Rp.
        change (map w_tid (filter w_nascent (map fst (pool r')))) with (map w_tid (filter w_nascent (map fst (pool_opt (Some r'))))) in Rp.
        rewrite pool_ntids in Rp. simpl in Rp.
        apply Permutation_app_head, Permutation_app_tail, Permutation_sym, Rp.
  - pose proof (wr_rec_none _ _ _ _ _ E ER) as EN. unfold refines_cell in R. rewrite EN, ER in R.
    destruct (atomic _ _) as [[c1 res]|].
    + destruct R as (_ & _ & ops & rels & Rr & Rf & _ & Rp). simpl in Rp. rewrite app_nil_r in Rp.
      apply Permutation_nil in Rp. subst ops. destruct rels; [|discriminate]. rewrite Rr. reflexivity.
    + destruct R as (_ & Rr & _). rewrite Rr. reflexivity.
Qed.

Lemma word_step_batch_nodup s t a o wr :
  all_inv s -> is_blocked s t = false -> word_step (lookup a (st_febs s)) (memget a s) t o = Some wr ->
  NoDup (bt (st_febs s)) ->
  NoDup (rel_batch (wr_rel wr) ++ bt (match wr_rec wr with Some r => update a r (st_febs s) | None => st_febs s end)).
Proof.
  intros I B E H. pose proof (not_blocked_notin s t B) as Hnt. rewrite blocked_tids_bt in Hnt.
  destruct (word_refines (lookup a (st_febs s)) (memget a s) t o (all_inv_lookup s a I)) as (wr0 & E0 & _ & R).
  rewrite E in E0. inversion E0; subst wr0. clear E0.
  destruct (wr_rec wr) as [r'|] eqn:ER.
  - destruct (bt_update (st_febs s) a r') as (P & Q & H1 & H2). rewrite H2. rewrite H1 in H, Hnt.
    unfold refines_cell in R. destruct (atomic _ _) as [[c1 res]|].
    + destruct R as (_ & _ & ops & rels & Rr & Rf & _ & Rp). rewrite ER in Rp. simpl in Rp.
      apply (Permutation_map (fun x => w_tid (fst x))) in Rp. rewrite pool_tids, map_app in Rp.
      change (map (fun x : waiter * cop => w_tid (fst x)) (pool r')) with (map (fun x => w_tid (fst x)) (pool_opt (Some r'))) in Rp.
      rewrite pool_tids in Rp. simpl in Rp.
      pose proof (NoDup_swap_mid P _ Q _ _ Rp H) as H3.
      rewrite Rr, rel_batch_rels, <- Rf. rewrite <- map_map in H3. apply NoDup_map_filter_app. exact H3.
    + destruct R as (_ & Rr & Rc). rewrite Rr. simpl. destruct (is_nb o).
      * destruct Rc as (_ & _ & Rp). rewrite ER in Rp. simpl in Rp.
        assert (T : tids r' = tids_opt (lookup a (st_febs s))).
        { rewrite <- pool_tids, <- Rp. change (pool r') with (pool_opt (Some r')). apply eq_sym, pool_tids. }
        rewrite T. exact H.
      * destruct Rc as (_ & w & Hw & _ & Rp). rewrite ER in Rp. simpl in Rp.
        apply (Permutation_map (fun x => w_tid (fst x))) in Rp. simpl in Rp. rewrite pool_tids, Hw in Rp.
        change (map (fun x : waiter * cop => w_tid (fst x)) (pool r')) with (map (fun x => w_tid (fst x)) (pool_opt (Some r'))) in Rp.
        rewrite pool_tids in Rp. simpl in Rp.
        eapply Permutation_NoDup; [apply Permutation_app_head, Permutation_app_tail, Permutation_sym, Rp|].
        simpl. eapply Permutation_NoDup; [apply Permutation_middle|]. constructor; assumption.
  - pose proof (wr_rec_none _ _ _ _ _ E ER) as EN. unfold refines_cell in R. rewrite EN, ER in R.
    destruct (atomic _ _) as [[c1 res]|].
    + destruct R as (_ & _ & ops & rels & Rr & Rf & _ & Rp). simpl in Rp. rewrite app_nil_r in Rp.
      apply Permutation_nil in Rp. subst ops. destruct rels; [|discriminate]. rewrite Rr. exact H.
    + destruct R as (_ & Rr & _). rewrite Rr. exact H.
Qed.

(* ---------------- parking by a check ---------------- *)
Lemma ntids_park r k :
  Permutation (ntids (mkRec (r_full r) (r_EFQ r) (r_FEQ r) (mkW k None DNull true :: r_FFQ r) (r_FFWQ r))) (k :: ntids r).
Proof.
  unfold ntids, waiters_of. simpl. rewrite !filter_app. simpl. rewrite ?filter_app, !map_app. simpl. rewrite ?map_app.
  apply perm_mid2.
Qed.

(* a check either launches (febs unchanged, nothing remains) or parks k (one more parked id) *)
Lemma check_parked s k s' ok :
  check_preconds s k = (s', ok) ->
  (ok = true /\ st_febs s' = st_febs s) \/
  (ok = false /\ Permutation (parked s') (k :: parked s) /\ Permutation (blocked_tids s') (k :: blocked_tids s)).
Proof.
  intros E. pose proof (check_preconds_bt s k) as CB. rewrite E in CB. simpl in CB.
  destruct (recheck_safe _ _ _ _ E) as (_ & rem' & _ & _ & _ & _ & _ & _ & _ & _ & Hok & _ & _ & _ & Hm).
  destruct rem' as [|a r']; [left; split; [exact Hok | exact Hm]|]. right. split; [exact Hok|].
  destruct Hm as (Hfa & r & L & L' & Hoth).
  unfold check_preconds in E. set (rem := p_rem _) in E.
  pose proof (check_walk_shape (st_febs s) k rem) as SH. destruct (check_walk (st_febs s) k rem) as [febs' rem2] eqn:EW.
  inversion E; subst s'. simpl in *. clear E.
  destruct SH as [->|(a2 & r2 & L2 & ->)].
  - exfalso. rewrite L in L'. inversion L' as [HR]. apply (f_equal r_FFQ) in HR. simpl in HR.
    apply (f_equal (@length waiter)) in HR. simpl in HR. lia.
  - split.
    + unfold parked. simpl. destruct (nt_update (st_febs s) a2 (mkRec (r_full r2) (r_EFQ r2) (r_FEQ r2) (mkW k None DNull true :: r_FFQ r2) (r_FFWQ r2))) as (P & Q & NU1 & NU2).
      rewrite NU2, NU1, L2. simpl.
      eapply perm_trans; [apply Permutation_app_head, Permutation_app_tail, ntids_park|]. simpl.
      apply Permutation_sym, Permutation_middle.
    + destruct CB as [CB|CB]; [|exact CB]. exfalso.
      (* the blocked list cannot be unchanged: it gained k *)
      rewrite !blocked_tids_bt in CB. simpl in CB.
      destruct (bt_update (st_febs s) a2 (mkRec (r_full r2) (r_EFQ r2) (r_FEQ r2) (mkW k None DNull true :: r_FFQ r2) (r_FFWQ r2))) as (P & Q & NU1 & NU2).
      rewrite NU2, NU1, L2 in CB. simpl in CB. apply (f_equal (@length N)) in CB.
      rewrite !app_length in CB. pose proof (Permutation_length (tids_park r2 k)) as PL. simpl in PL. lia.
Qed.

(* ---------------- keys of the record table are unique: removal takes out exactly the looked-up record ---------------- *)
Definition keys_ok (s : state) : Prop := NoDup (map fst (st_febs s)).

Lemma keys_update (febs : list (N * rec)) a x : NoDup (map fst febs) -> NoDup (map fst (update a x febs)).
Proof.
  induction febs as [|[k y] l IH]; simpl; intros H.
  - constructor; [intros [] | constructor].
  - inversion H as [|? ? Hn Hr]; subst. destruct (N.eqb a k) eqn:E; simpl; [constructor; assumption|].
    constructor; [|exact (IH Hr)]. intros Hin. apply Hn. clear -Hin E.
    induction l as [|[k2 y2] l IHl]; simpl in *.
    + destruct Hin as [Hin|[]]. subst. rewrite N.eqb_refl in E. discriminate.
    + destruct (N.eqb a k2); simpl in Hin; destruct Hin as [Hin|Hin]; auto.
Qed.
Lemma keys_remove (febs : list (N * rec)) a : NoDup (map fst febs) -> NoDup (map fst (remove a febs)).
Proof.
  unfold remove. induction febs as [|[k y] l IH]; simpl; intros H; [constructor|]. inversion H as [|? ? Hn Hr]; subst.
  destruct (N.eqb a k); simpl; [exact (IH Hr)|]. constructor; [|exact (IH Hr)].
  intros Hin. apply Hn. apply in_map_iff in Hin. destruct Hin as (z & <- & Hz). apply filter_In in Hz. apply in_map, Hz.
Qed.
Lemma remove_notin (febs : list (N * rec)) a : ~ In a (map fst febs) -> remove a febs = febs.
Proof.
  unfold remove. induction febs as [|[k y] l IH]; simpl; intros H; [reflexivity|].
  destruct (N.eqb a k) eqn:E; [apply N.eqb_eq in E; subst; exfalso; apply H; left; reflexivity|]. simpl. f_equal. apply IH. tauto.
Qed.
Lemma nt_remove (febs : list (N * rec)) a r :
  NoDup (map fst febs) -> lookup a febs = Some r -> ntids r = [] -> nt (remove a febs) = nt febs.
Proof.
  induction febs as [|[k y] l IH]; simpl; intros H L Hr; [discriminate|]. inversion H as [|? ? Hn Hnd]; subst.
  unfold remove in *. simpl. destruct (N.eqb a k) eqn:E; simpl.
  - apply N.eqb_eq in E; subst k. inversion L; subst y. rewrite Hr. simpl.
    fold (remove a l). rewrite remove_notin by exact Hn. reflexivity.
  - unfold nt in *. simpl. f_equal. apply IH; assumption.
Qed.

Lemma all_empty_ntids r : all_empty r = true -> ntids r = [].
Proof.
  unfold all_empty, ntids, waiters_of. intros H. repeat (apply andb_prop in H; destruct H as [H ?]).
  destruct (r_EFQ r), (r_FEQ r), (r_FFQ r), (r_FFWQ r); try discriminate. reflexivity.
Qed.

Lemma feb_remove_parked s a : keys_ok s -> parked (feb_remove s a) = parked s /\ keys_ok (feb_remove s a).
Proof.
  intros K. unfold feb_remove. destruct (lookup a (st_febs s)) as [r|] eqn:L; [|split; [reflexivity | exact K]].
  destruct (all_empty r && r_full r) eqn:C; [|split; [reflexivity | exact K]]. apply andb_prop in C. destruct C as [C _].
  split; [unfold parked; simpl; eapply nt_remove; [exact K | exact L | apply all_empty_ntids, C] | unfold keys_ok; simpl; apply keys_remove, K].
Qed.

Lemma check_keys s k : keys_ok s -> keys_ok (fst (check_preconds s k)).
Proof.
  intros K. unfold check_preconds. set (rem := p_rem _).
  pose proof (check_walk_shape (st_febs s) k rem) as SH. destruct (check_walk (st_febs s) k rem) as [febs' rem2]. simpl in *.
  unfold keys_ok. simpl. destruct SH as [->|(a & r & _ & ->)]; [exact K | apply keys_update, K].
Qed.

(* ---------------- the invariant ---------------- *)
Record once_inv (s : state) : Prop := mkOnce {
  oi_inv   : all_inv s;
  oi_nodup : NoDup (blocked_tids s);
  oi_keys  : keys_ok s;
  oi_J : forall k, In k (parked s) -> has_key k (st_pre s) = true /\ p_enq (info_of s k) = 0%nat;
  oi_K : forall k i, lookup k (st_pre s) = Some i -> p_enq i = 0%nat -> In k (parked s);
  oi_E : forall k i, lookup k (st_pre s) = Some i -> (p_enq i <= 1)%nat }.

(* loop invariant of qthread_precond_launch over the remaining batch b *)
Record loop_inv (b : list N) (s : state) : Prop := mkLoop {
  li_inv   : all_inv s;
  li_nodup : NoDup (b ++ blocked_tids s);
  li_keys  : keys_ok s;
  li_J : forall k, In k (parked s) -> has_key k (st_pre s) = true /\ p_enq (info_of s k) = 0%nat;
  li_B : forall k, In k b -> has_key k (st_pre s) = true /\ p_enq (info_of s k) = 0%nat;
  li_K : forall k i, lookup k (st_pre s) = Some i -> p_enq i = 0%nat -> In k (parked s) \/ In k b;
  li_E : forall k i, lookup k (st_pre s) = Some i -> (p_enq i <= 1)%nat }.

Lemma has_key_info s k : has_key k (st_pre s) = true -> exists i, lookup k (st_pre s) = Some i /\ info_of s k = i.
Proof. unfold has_key, info_of. destruct (lookup k (st_pre s)) as [i|]; [eexists; split; reflexivity | discriminate]. Qed.

Lemma loop_step k b s s1 ok : loop_inv (k :: b) s -> check_preconds s k = (s1, ok) -> loop_inv b s1.
Proof.
  intros L E. destruct L as [I ND KO J B K Ev].
  destruct (recheck_safe _ _ _ _ E) as (seen & rem' & info' & _ & _ & Hl & _ & _ & _ & Henq & _ & Hoth & _).
  pose proof (check_parked _ _ _ _ E) as CP.
  assert (I1 : all_inv s1) by (replace s1 with (fst (check_preconds s k)) by (rewrite E; reflexivity); apply check_preconds_inv, I).
  assert (KO1 : keys_ok s1) by (replace s1 with (fst (check_preconds s k)) by (rewrite E; reflexivity); apply check_keys, KO).
  destruct (B k (or_introl eq_refl)) as [Bk1 Bk2].
  simpl in ND. inversion ND as [|? ? Hnk NDr]; subst.
  assert (Hkb : ~ In k b) by (intros Hx; apply Hnk, in_or_app; left; exact Hx).
  assert (Hks : ~ In k (blocked_tids s)) by (intros Hx; apply Hnk, in_or_app; right; exact Hx).
  assert (INFO : forall k', k' <> k -> info_of s1 k' = info_of s k') by (intros k' Hn; unfold info_of; rewrite (Hoth k' Hn); reflexivity).
  assert (HK : forall k', k' <> k -> has_key k' (st_pre s1) = has_key k' (st_pre s)) by (intros k' Hn; unfold has_key; rewrite (Hoth k' Hn); reflexivity).
  assert (HKk : has_key k (st_pre s1) = true) by (unfold has_key; rewrite Hl; reflexivity).
  assert (IK : info_of s1 k = info') by (unfold info_of; rewrite Hl; reflexivity).
  destruct CP as [(-> & Hf)|(-> & PP & PB)].
  - (* launched *)
    assert (PS : parked s1 = parked s) by (unfold parked; rewrite Hf; reflexivity).
    assert (BS : blocked_tids s1 = blocked_tids s) by (rewrite !blocked_tids_bt, Hf; reflexivity).
    constructor; auto.
    + rewrite BS. exact NDr.
    + intros k' Hk'. rewrite PS in Hk'. assert (k' <> k) by (intros ->; apply Hks; rewrite blocked_tids_bt; apply parked_blocked, Hk').
      rewrite HK, INFO by assumption. apply J, Hk'.
    + intros k' Hk'. assert (k' <> k) by (intros ->; exact (Hkb Hk')). rewrite HK, INFO by assumption. apply B. right; exact Hk'.
    + intros k' i L0 Hz. destruct (N.eq_dec k' k) as [->|Hn].
      * rewrite Hl in L0. inversion L0; subst i. rewrite Henq in Hz. discriminate.
      * rewrite (Hoth k' Hn) in L0. rewrite PS. destruct (K k' i L0 Hz) as [Hp|[Hp|Hp]]; [left; exact Hp | congruence | right; exact Hp].
    + intros k' i L0. destruct (N.eq_dec k' k) as [->|Hn].
      * rewrite Hl in L0. inversion L0; subst i. rewrite Henq, Bk2. lia.
      * rewrite (Hoth k' Hn) in L0. exact (Ev k' i L0).
  - (* parked again *)
    constructor; auto.
    + eapply Permutation_NoDup; [apply Permutation_app_head, Permutation_sym, PB|].
      eapply Permutation_NoDup; [apply Permutation_middle|]. constructor; assumption.
    + intros k' Hk'. apply (Permutation_in _ PP) in Hk'. destruct Hk' as [<-|Hk'].
      * split; [exact HKk|]. rewrite IK, Henq. exact Bk2.
      * destruct (N.eq_dec k' k) as [->|Hn]; [split; [exact HKk | rewrite IK, Henq; exact Bk2]|].
        rewrite HK, INFO by assumption. apply J, Hk'.
    + intros k' Hk'. assert (k' <> k) by (intros ->; exact (Hkb Hk')). rewrite HK, INFO by assumption. apply B. right; exact Hk'.
    + intros k' i L0 Hz. destruct (N.eq_dec k' k) as [->|Hn].
      * left. apply (Permutation_in _ (Permutation_sym PP)). left; reflexivity.
      * rewrite (Hoth k' Hn) in L0. destruct (K k' i L0 Hz) as [Hp|[Hp|Hp]];
          [left; apply (Permutation_in _ (Permutation_sym PP)); right; exact Hp | congruence | right; exact Hp].
    + intros k' i L0. destruct (N.eq_dec k' k) as [->|Hn].
      * rewrite Hl in L0. inversion L0; subst i. rewrite Henq, Bk2. lia.
      * rewrite (Hoth k' Hn) in L0. exact (Ev k' i L0).
Qed.

Lemma loop_done b : forall s, loop_inv b s -> once_inv (fst (launch s b)).
Proof.
  induction b as [|k b IH]; intros s L; simpl.
  - destruct L as [I ND KO J B K Ev]. constructor; auto. intros k i L0 Hz. destruct (K k i L0 Hz) as [H|[]]; exact H.
  - destruct (check_preconds s k) as [s1 ok] eqn:E. pose proof (loop_step _ _ _ _ _ L E) as L1.
    specialize (IH s1 L1). destruct (launch s1 b) as [s2 ev]. exact IH.
Qed.

Theorem step_once s t g : once_inv s -> once_inv (fst (step s t g)).
Proof.
  intros O. unfold step. destruct (is_blocked s t) eqn:B; [exact O|].
  destruct O as [I ND KO J K Ev].
  destruct g as [a o | k pcs].
  - destruct (word_refines (lookup a (st_febs s)) (memget a s) t o (all_inv_lookup s a I)) as (wr & E & I' & _).
    rewrite E.
    set (febs1 := match wr_rec wr with Some r => update a r (st_febs s) | None => st_febs s end).
    set (s1 := mkSt (update a (wr_val wr) (st_mem s)) febs1 (st_pre s)).
    pose proof (word_step_parked s t a o wr I E) as PP. fold febs1 in PP.
    pose proof (word_step_batch_nodup s t a o wr I B E ND) as NB. fold febs1 in NB.
    assert (L : loop_inv (rel_batch (wr_rel wr)) s1).
    { constructor.
      - unfold all_inv, s1, febs1. simpl. destruct (wr_rec wr) as [r'|]; [apply Forall_update; assumption | exact I].
      - exact NB.
      - unfold keys_ok, s1, febs1. simpl. destruct (wr_rec wr); [apply keys_update, KO | exact KO].
      - intros k Hk. apply J. unfold parked. apply (Permutation_in _ (Permutation_sym PP)). apply in_or_app. right; exact Hk.
      - intros k Hk. apply J. unfold parked. apply (Permutation_in _ (Permutation_sym PP)). apply in_or_app. left; exact Hk.
      - intros k i L0 Hz. specialize (K k i L0 Hz). unfold parked in K. apply (Permutation_in _ PP) in K.
        apply in_app_or in K. destruct K as [K|K]; [right | left]; exact K.
      - exact Ev. }
    pose proof (loop_done _ _ L) as O2. destruct (launch s1 (rel_batch (wr_rel wr))) as [s2 ev2]. simpl in O2.
    destruct (wr_rm wr); simpl; [|exact O2].
    destruct O2 as [I2 ND2 KO2 J2 K2 Ev2]. destruct (feb_remove_parked s2 a KO2) as [PR KR].
    constructor; auto.
    + apply feb_remove_inv, I2.
    + apply feb_remove_nodup, ND2.
    + intros k Hk. rewrite PR in Hk. unfold info_of. rewrite feb_remove_pre. apply J2, Hk.
    + intros k i L0 Hz. rewrite feb_remove_pre in L0. rewrite PR. exact (K2 k i L0 Hz).
    + intros k i L0. rewrite feb_remove_pre in L0. exact (Ev2 k i L0).
  - destruct (is_blocked s k || has_key k (st_pre s) || N.eqb k t) eqn:C; [constructor; assumption|].
    apply orb_false_elim in C. destruct C as [C _]. apply orb_false_elim in C. destruct C as [Bk Hk].
    set (s1 := mkSt (st_mem s) (st_febs s) (update k (mkP (rev pcs) (rev pcs) [] 0) (st_pre s))).
    assert (L : loop_inv [k] s1).
    { assert (HKn : forall k', k' <> k -> has_key k' (st_pre s1) = has_key k' (st_pre s) /\ info_of s1 k' = info_of s k').
      { intros k' Hn. unfold has_key, info_of, s1. simpl. rewrite lookup_update_neq by congruence. split; reflexivity. }
      constructor; auto.
      - simpl. constructor; [exact (not_blocked_notin s k Bk) | exact ND].
      - intros k' Hk'. destruct (J k' Hk') as [J1 J2]. assert (k' <> k) by (intros ->; congruence).
        destruct (HKn k' H) as [-> ->]. split; assumption.
      - intros k' [<-|[]]. unfold has_key, info_of, s1. simpl. rewrite lookup_update_eq. split; reflexivity.
      - intros k' i L0 Hz. destruct (N.eq_dec k' k) as [->|Hn]; [right; left; reflexivity|].
        unfold s1 in L0. simpl in L0. rewrite lookup_update_neq in L0 by congruence. left. exact (K k' i L0 Hz).
      - intros k' i L0. destruct (N.eq_dec k' k) as [->|Hn].
        + unfold s1 in L0. simpl in L0. rewrite lookup_update_eq in L0. inversion L0; subst. simpl. lia.
        + unfold s1 in L0. simpl in L0. rewrite lookup_update_neq in L0 by congruence. exact (Ev k' i L0). }
    pose proof (loop_done _ _ L) as O2. simpl in O2. destruct (check_preconds s1 k) as [s2 ok]. exact O2.
Qed.

Lemma once_init : once_inv init.
Proof. constructor; try constructor; simpl; intros; try contradiction; discriminate. Qed.

Lemma exec_once l : once_inv (exec l).
Proof.
  induction l as [|[t g] l IH] using rev_ind; [exact once_init|]. rewrite exec_snoc. apply step_once, IH.
Qed.

(* ================= precond_once =================
   In every reachable state, for every spawned precondition task k: it has been enqueued at most once, and it is in
   exactly one place: not yet enqueued and parked as a nascent waiter (on exactly one waiter list of exactly one word,
   because blocked task ids are duplicate-free), or enqueued once and parked nowhere. *)
Theorem precond_once l k i :
  lookup k (st_pre (exec l)) = Some i ->
  (p_enq i <= 1)%nat /\
  ((p_enq i = 0%nat /\ In k (parked (exec l))) \/ (p_enq i = 1%nat /\ ~ In k (parked (exec l)))) /\
  NoDup (blocked_tids (exec l)).
Proof.
  intros L. destruct (exec_once l) as [I ND KO J K Ev]. pose proof (Ev k i L) as E1. split; [exact E1|]. split; [|exact ND].
  destruct (p_enq i) as [|[|n]] eqn:Pe; [left; split; [reflexivity | exact (K k i L Pe)] | right | lia].
  split; [reflexivity|]. intros Hp. destruct (J k Hp) as [_ J2]. rewrite (lookup_info _ _ _ L), Pe in J2. discriminate.
Qed.

(* the counter counts the Enq events: every Enq k event of a step raises p_enq of k by one *)
Definition is_enq (k : N) (e : event) : bool := match e with Enq k' => N.eqb k k' | _ => false end.
Definition enq_count (k : N) (evs : list event) : nat := length (filter (is_enq k) evs).

Lemma launch_count b : forall s s' evs k, launch s b = (s', evs) ->
  (p_enq (info_of s' k) = p_enq (info_of s k) + enq_count k evs)%nat.
Proof.
  induction b as [|k0 b IH]; intros s s' evs k H; simpl in H; [inversion H; subst; unfold enq_count; simpl; lia|].
  destruct (check_preconds s k0) as [s1 ok] eqn:E1. destruct (launch s1 b) as [s2 ev] eqn:E2. inversion H; subst. clear H.
  rewrite (IH _ _ _ k E2).
  destruct (recheck_safe _ _ _ _ E1) as (_ & _ & info' & _ & _ & Hl & _ & _ & _ & Henq & _ & Hoth & _).
  unfold enq_count. destruct (N.eq_dec k k0) as [->|Hn].
  - unfold info_of at 1. rewrite Hl, Henq. destruct ok; simpl; [rewrite N.eqb_refl; simpl; lia | lia].
  - unfold info_of at 1. rewrite (Hoth k Hn). fold (info_of s k).
    destruct ok; simpl; [|lia]. destruct (N.eqb k k0) eqn:E; [apply N.eqb_eq in E; congruence | lia].
Qed.
