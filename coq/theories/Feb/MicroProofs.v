(* C01 micro-step layer (two tasks, one word).  The code as it is (since /repo eba51ae) is atomic for every pair of calls
   (micro_atomic_pairs: exhaustive over the finite set of op pairs x initial states x interleavings, through a checked
   reachable-set certificate).  The access order before that commit is NOT: micro_atomic_old_refuted and three class
   witnesses, each of which was reproduced on the real code; kept as regressions about [mstep_old]. *)
From Coq Require Import List ZArith NArith Bool.
Import ListNotations.
From QV Require Import Cell.Spec Feb.Model Feb.Proofs Feb.Micro.

Section Generic.
  Variable stp : mstate -> N -> option mstate.

  Fixpoint run_with (s : mstate) (sched : list N) : option mstate :=
    match sched with
    | [] => Some s
    | t :: l => match stp s t with Some s' => run_with s' l | None => None end
    end.
  Definition final_with (s : mstate) : Prop := stp s 0%N = None /\ stp s 1%N = None.

  (* every maximal interleaving of the two calls ends in a state whose results and word are those of the two atomic cell
     operations in one of the two orders (a blocked call counts as "has to wait"), with no task stuck on a lock *)
  Definition micro_atomic_with (pe : bool) (v : Z) (oa ob : op) : Prop :=
    forall sched s, Forall (fun t => t = 0%N \/ t = 1%N) sched ->
      run_with (minit pe v oa ob) sched = Some s -> final_with s -> good_final pe v oa ob s = true.

  Fixpoint all_good (chk : mstate -> bool) (fuel : nat) (s : mstate) : bool :=
    match fuel with
    | O => false
    | S f =>
        match stp s 0%N, stp s 1%N with
        | None, None => chk s
        | a, b => (match a with Some s' => all_good chk f s' | None => true end) &&
                  (match b with Some s' => all_good chk f s' | None => true end)
        end
    end.

  Lemma all_good_sound chk fuel : forall s, all_good chk fuel s = true ->
    forall sched s', Forall (fun t => t = 0%N \/ t = 1%N) sched -> run_with s sched = Some s' -> final_with s' -> chk s' = true.
  Proof.
    induction fuel as [|f IH]; intros s H sched s' Hs Hr Hf; [discriminate|]. simpl in H.
    destruct sched as [|t l]; simpl in Hr.
    - inversion Hr; subst s'. destruct Hf as [F0 F1]. rewrite F0, F1 in H. exact H.
    - inversion Hs as [|? ? Ht Hl]; subst. destruct (stp s t) as [s1|] eqn:E; [|discriminate].
      assert (G : all_good chk f s1 = true).
      { destruct Ht as [-> | ->]; rewrite E in H.
        - destruct (stp s 1%N); apply andb_prop in H; apply H.
        - destruct (stp s 0%N); [apply andb_prop in H; apply H | simpl in H; exact H]. }
      exact (IH s1 G l s' Hl Hr Hf).
  Qed.
End Generic.

Definition micro_atomic := micro_atomic_with mstep.              (* feb.c as it is *)
Definition micro_atomic_old := micro_atomic_with mstep_old.      (* access order before eba51ae *)

(* ---------------- refutation: three classes of schedules ---------------- *)
Definition sched_of (l : list nat) : list N := map N.of_nat l.

(* (1) writeF sees "no record", readFE then consumes the OLD value and empties the word, writeF then stores into the emptied
   word without marking it full: the reader got 5, the word is empty and holds 11 -- no order of the two calls does that *)
Lemma writeF_readFE_bad :
  exists s, run_with mstep_old (minit false 5 (OWriteF (Some 11%Z)) (OReadFE DOwn)) (sched_of [0;0;0;1;1;1;1;1;1;0;1;1]%nat) = Some s /\
            final_with mstep_old s /\ good_final false 5 (OWriteF (Some 11%Z)) (OReadFE DOwn) s = false /\
            outcome_of s = (Some (OK, None), Some (OK, Some 5%Z), false, 11%Z).
Proof. eexists. vm_compute. repeat split; reflexivity. Qed.

(* (2) readFF sees "no record", purge_to empties the word and stores 22, readFF then returns 22 although the word is empty *)
Lemma readFF_purge_bad :
  exists s, run_with mstep_old (minit false 5 (OReadFF DOwn) (OPurge (Some 22%Z))) (sched_of [0;0;0;1;1;1;1;0]%nat) = Some s /\
            final_with mstep_old s /\ good_final false 5 (OReadFF DOwn) (OPurge (Some 22%Z)) s = false /\
            outcome_of s = (Some (OK, Some 22%Z), Some (OK, None), false, 22%Z).
Proof. eexists. vm_compute. repeat split; reflexivity. Qed.

(* (3) purge_to inserts the empty record, writeEF fills the word with 11, purge_to then stores 22 into the FULL word *)
Lemma purge_writeEF_bad :
  exists s, run_with mstep_old (minit false 5 (OPurge (Some 11%Z)) (OWriteEF (Some 22%Z))) (sched_of [0;0;0;1;1;1;1;1;1;0;1;1;1;1;1]%nat) = Some s /\
            final_with mstep_old s /\ good_final false 5 (OPurge (Some 11%Z)) (OWriteEF (Some 22%Z)) s = false /\
            outcome_of s = (Some (OK, None), Some (OK, None), true, 11%Z).
Proof. eexists. vm_compute. repeat split; reflexivity. Qed.

Theorem micro_atomic_old_refuted : exists pe v oa ob, ~ micro_atomic_old pe v oa ob.
Proof.
  exists false, 5%Z, (OWriteF (Some 11%Z)), (OReadFE DOwn). intros H.
  destruct writeF_readFE_bad as (s & R & F & B & _).
  assert (Fs : Forall (fun t => t = 0%N \/ t = 1%N) (sched_of [0;0;0;1;1;1;1;1;1;0;1;1]%nat)) by (vm_compute; repeat constructor; auto).
  assert (G := H _ s Fs R F). congruence.
Qed.

(* ---------------- positive part, by exhaustion over the finite set of pairs ---------------- *)
Definition ops_of (v : Z) : list op :=
  [OReadFE DOwn; OReadFE_nb DOwn; OReadFF DOwn; OReadFF_nb DOwn; OReadXX DOwn; OWriteEF (Some v); OWriteEF_nb (Some v);
   OWriteF (Some v); OWriteFF (Some v); OFill; OEmpty; OPurge (Some v); OStatus].

(* the racy class: one call takes a record-absent fast path (or purge_to's late store), the other creates / uses the record *)
Definition lockless_write (o : op) := match o with OWriteF _ | OWriteFF _ => true | _ => false end.
Definition lockless_read (o : op) := match o with OReadFF _ | OReadFF_nb _ => true | _ => false end.
Definition is_purge (o : op) := match o with OPurge _ => true | _ => false end.
Definition is_readFE (o : op) := match o with OReadFE _ | OReadFE_nb _ => true | _ => false end.
Definition is_writeEF (o : op) := match o with OWriteEF _ | OWriteEF_nb _ => true | _ => false end.
Definition racy1 (a b : op) : bool :=
  (lockless_write a && (is_readFE b || is_purge b)) || (lockless_read a && is_purge b) || (is_purge a && is_writeEF b).
Definition racy (a b : op) : bool := racy1 a b || racy1 b a.

(* decidable equality of micro states (computes: every decider is transparent) *)
Definition dmode_eq_dec (x y : dmode) : {x = y} + {x <> y}. Proof. decide equality. Defined.
Definition oz_eq_dec (x y : option Z) : {x = y} + {x <> y}. Proof. decide equality. apply Z.eq_dec. Defined.
Definition op_eq_dec (x y : op) : {x = y} + {x <> y}.
Proof. decide equality; try apply dmode_eq_dec; apply oz_eq_dec. Defined.
Definition code_eq_dec (x y : code) : {x = y} + {x <> y}. Proof. decide equality. Defined.
Definition waiter_eq_dec (x y : waiter) : {x = y} + {x <> y}.
Proof. decide equality; try apply Bool.bool_dec; try apply dmode_eq_dec; try apply oz_eq_dec; apply N.eq_dec. Defined.
Definition rec_eq_dec (x y : rec) : {x = y} + {x <> y}.
Proof. decide equality; try apply Bool.bool_dec; apply list_eq_dec, waiter_eq_dec. Defined.
Definition thr_eq_dec (x y : thr) : {x = y} + {x <> y}.
Proof.
  decide equality; try apply Bool.bool_dec; try apply Nat.eq_dec; try apply op_eq_dec.
  decide equality. decide equality; [apply oz_eq_dec | apply code_eq_dec].
Defined.
Definition mstate_eq_dec (x y : mstate) : {x = y} + {x <> y}.
Proof.
  decide equality; try apply thr_eq_dec; try apply Z.eq_dec.
  - decide equality. apply N.eq_dec.
  - decide equality. apply N.eq_dec.
  - decide equality. apply rec_eq_dec.
Defined.
Definition mem (s : mstate) (l : list mstate) : bool := if in_dec mstate_eq_dec s l then true else false.
Lemma mem_In s l : mem s l = true -> In s l.
Proof. unfold mem. destruct (in_dec mstate_eq_dec s l); [auto | discriminate]. Qed.

Section Reach.
  Variable stp : mstate -> N -> option mstate.
  Definition succs (s : mstate) : list mstate :=
    (match stp s 0%N with Some x => [x] | None => [] end) ++ (match stp s 1%N with Some x => [x] | None => [] end).
  Definition is_final (s : mstate) : bool := match stp s 0%N, stp s 1%N with None, None => true | _, _ => false end.

  (* the set of reachable states (a certificate; computed, then checked) *)
  Fixpoint close (fuel : nat) (todo seen : list mstate) : list mstate :=
    match fuel with
    | O => seen
    | S f => match todo with
             | [] => seen
             | s :: rest => if mem s seen then close f rest seen else close f (succs s ++ rest) (s :: seen)
             end
    end.

  Definition cert_ok (chk : mstate -> bool) (s0 : mstate) (L : list mstate) : bool :=
    mem s0 L && forallb (fun s => forallb (fun x => mem x L) (succs s)) L &&
    forallb (fun s => if is_final s then chk s else true) L.

  Lemma cert_sound chk s0 L : cert_ok chk s0 L = true ->
    forall sched s', Forall (fun t => t = 0%N \/ t = 1%N) sched -> run_with stp s0 sched = Some s' -> final_with stp s' -> chk s' = true.
  Proof.
    intros C. apply andb_prop in C. destruct C as [C C3]. apply andb_prop in C. destruct C as [C1 C2].
    rewrite forallb_forall in C2, C3. apply mem_In in C1.
    assert (R : forall sched s s', In s L -> Forall (fun t => t = 0%N \/ t = 1%N) sched -> run_with stp s sched = Some s' -> In s' L).
    { induction sched as [|t l IH]; intros s s' Hin Hs Hr; simpl in Hr; [inversion Hr; subst; exact Hin|].
      inversion Hs as [|? ? Ht Hl]; subst. destruct (stp s t) as [s1|] eqn:E; [|discriminate].
      apply (IH s1 s'); [|exact Hl | exact Hr]. specialize (C2 s Hin). rewrite forallb_forall in C2. apply mem_In, C2.
      unfold succs. destruct Ht as [-> | ->]; rewrite E; [left; reflexivity | apply in_or_app; right; left; reflexivity]. }
    intros sched s' Hs Hr [F0 F1]. specialize (C3 s' (R sched s0 s' C1 Hs Hr)). unfold is_final in C3. rewrite F0, F1 in C3. exact C3.
  Qed.
End Reach.

Definition check_pair (stp : mstate -> N -> option mstate) (pe : bool) (oa ob : op) : bool :=
  let s0 := minit pe 5 oa ob in
  cert_ok stp (good_final pe 5 oa ob) s0 (close stp 4000 [s0] []).

Lemma check_pair_sound stp pe oa ob : check_pair stp pe oa ob = true -> micro_atomic_with stp pe 5 oa ob.
Proof.
  unfold check_pair. intros H sched s Hs Hr Hf.
  exact (cert_sound stp (good_final pe 5 oa ob) (minit pe 5 oa ob) _ H sched s Hs Hr Hf).
Qed.

Lemma current_all_pairs :
  forallb (fun pe => forallb (fun oa => forallb (fun ob => check_pair mstep pe oa ob) (ops_of 22)) (ops_of 11)) [false; true] = true.
Proof. vm_compute. reflexivity. Qed.

Lemma old_nonracy_pairs :
  forallb (fun pe => forallb (fun oa => forallb (fun ob => (negb pe && racy oa ob) || check_pair mstep_old pe oa ob) (ops_of 22)) (ops_of 11)) [false; true] = true.
Proof. vm_compute. reflexivity. Qed.

(* the code as it is: every pair of the 13 x 13 calls on one word is atomic, from both initial word states *)
Theorem micro_atomic_pairs : forall pe oa ob,
  In oa (ops_of 11) -> In ob (ops_of 22) -> micro_atomic pe 5 oa ob.
Proof.
  intros pe oa ob Ha Hb sched s Hs Hr Hf.
  pose proof current_all_pairs as H. rewrite forallb_forall in H.
  assert (Hpe : In pe [false; true]) by (destruct pe; simpl; auto).
  specialize (H pe Hpe). rewrite forallb_forall in H. specialize (H oa Ha). rewrite forallb_forall in H. specialize (H ob Hb).
  exact (check_pair_sound mstep pe oa ob H sched s Hs Hr Hf).
Qed.

(* the old order: atomic only outside the racy class (and for every pair when the record already exists) *)
Theorem micro_atomic_old_pairs_partial : forall pe oa ob,
  In oa (ops_of 11) -> In ob (ops_of 22) -> (pe = true \/ racy oa ob = false) -> micro_atomic_old pe 5 oa ob.
Proof.
  intros pe oa ob Ha Hb G sched s Hs Hr Hf.
  pose proof old_nonracy_pairs as H. rewrite forallb_forall in H.
  assert (Hpe : In pe [false; true]) by (destruct pe; simpl; auto).
  specialize (H pe Hpe). rewrite forallb_forall in H. specialize (H oa Ha). rewrite forallb_forall in H. specialize (H ob Hb).
  apply orb_prop in H. destruct H as [H|H].
  - apply andb_prop in H. destruct H as [H1 H2]. destruct G as [->|G]; [discriminate | congruence].
  - exact (check_pair_sound mstep_old pe oa ob H sched s Hs Hr Hf).
Qed.
