(* C01 / C02 micro-step layer with a pre-blocked third task (extension K): the theorems. *)
From Coq Require Import List ZArith NArith Bool.
From QV Require Import Cell.Spec Feb.Model Feb.Proofs Feb.Micro3 Feb.Micro3Proofs.
From QV Require Import Feb.Micro3Sweep_IFull Feb.Micro3Sweep_IEmpty Feb.Micro3Sweep_IFullEF Feb.Micro3Sweep_IEmptyFE
                       Feb.Micro3Sweep_IEmptyFF Feb.Micro3Sweep_IEmptyFFW.
Import ListNotations.
Local Open Scope N_scope.

Lemma cur_all k : sweep mstep good_all no_skip k = true.
Proof. destruct k; [exact cur_IFull | exact cur_IEmpty | exact cur_IFullEF | exact cur_IEmptyFE | exact cur_IEmptyFF | exact cur_IEmptyFFW]. Qed.

Lemma micro3_all : forall k oa ob, In oa (ops_of va) -> In ob (ops_of vb) -> micro3_atomic k oa ob.
Proof. intros k oa ob Ha Hb. exact (sweep_sound _ _ _ k oa ob (cur_all k) Ha Hb eq_refl). Qed.

(* the code as it is: every triple, every interleaving: atomic outcome, clean structure *)
Theorem micro3_atomic_triples : forall k oa ob,
  In oa (ops_of va) -> In ob (ops_of vb) ->
  forall sched s, is_sched sched -> run_with mstep (minit k oa ob) sched = Some s -> final_with mstep s -> good_final k oa ob s = true.
Proof.
  intros k oa ob Ha Hb sched s Hs Hr Hf. pose proof (micro3_all k oa ob Ha Hb sched s Hs Hr Hf) as G.
  unfold good_all in G. apply andb_prop in G. apply G.
Qed.

(* C02 at this granularity *)
Theorem micro3_no_lost_wakeup : forall k oa ob,
  In oa (ops_of va) -> In ob (ops_of vb) ->
  forall sched s, is_sched sched -> run_with mstep (minit k oa ob) sched = Some s -> final_with mstep s -> no_lost_wakeup s = true.
Proof.
  intros k oa ob Ha Hb sched s Hs Hr Hf. pose proof (micro3_all k oa ob Ha Hb sched s Hs Hr Hf) as G.
  unfold good_all in G. apply andb_prop in G. apply G.
Qed.

(* every interleaving terminates: no run (maximal or not) has more than BOUND steps *)
Theorem micro3_runs_bounded : forall k oa ob,
  In oa (ops_of va) -> In ob (ops_of vb) ->
  forall sched s, is_sched sched -> run_with mstep (minit k oa ob) sched = Some s -> N.of_nat (length sched) <= BOUND.
Proof. intros k oa ob Ha Hb. exact (sweep_bounded _ _ _ k oa ob (cur_all k) Ha Hb eq_refl). Qed.

(* what a good final state says, spelled out *)
Lemma good_final_unfold k oa ob s : good_final k oa ob s = true ->
  (* nobody holds the stripe lock or a record lock, no released record was used *)
  g_hlock s = None /\ Forall (fun r => k_lock r = None) (g_heap s) /\ g_uaf s = false /\
  (* the record is in the table iff somebody waits or the word is empty *)
  (match hashed s with Some r => all_empty r && r_full r = false | None => True end) /\
  explained k oa ob s = true.
Proof.
  unfold good_final, settled. intro H. repeat (apply andb_prop in H; destruct H as [H ?]).
  repeat split; try assumption.
  - destruct (g_hlock s); [discriminate | reflexivity].
  - apply Forall_forall. intros r Hin. match goal with X : forallb _ (g_heap s) = true |- _ => rewrite forallb_forall in X; specialize (X r Hin) end.
    destruct (k_lock r); [discriminate | reflexivity].
  - destruct (g_uaf s); [discriminate | reflexivity].
  - unfold hashed. destruct (g_hash s) as [i|]; [|exact I]. destruct (get_rcd s i) as [k0|]; [|exact I].
    match goal with X : _ && negb (all_empty _ && _) = true |- _ => apply andb_prop in X; destruct X as [_ X]; apply negb_true_iff in X; exact X end.
Qed.

(* ================= regression variant: qthread_FEB_remove WITHOUT its re-check under the two locks ================= *)
Definition sched_of (l : list nat) : list N := map N.of_nat l.
Lemma is_sched_of l : forallb (fun t => Nat.leb t 1) l = true -> is_sched (sched_of l).
Proof.
  unfold is_sched, sched_of. induction l as [|t l IH]; cbn [forallb map]; intro H; constructor.
  - apply andb_prop in H. destruct H as [H _]. destruct t as [|[|t]]; [left | right | discriminate]; reflexivity.
  - apply IH. apply andb_prop in H. apply H.
Qed.
(* the word is empty.  Task 0: fill makes it full, unlocks the record and is about to remove it.  Task 1: readFE finds the record,
   locks it, reads 5 and marks the word empty again.  Task 0 then removes the record without looking at it: the word is full again
   although readFE consumed it *)
Definition norecheck_schedule : list nat := [0;0;0;0;1;1;0;0;0;0;0;1;1;1;1;1;1;1;0;0;0;0;0;0]%nat.
Lemma norecheck_witness :
  exists s, run_with mstep_norecheck (minit IEmpty OFill (OReadFE DOwn)) (sched_of norecheck_schedule) = Some s /\
            final_with mstep_norecheck s /\ good_all IEmpty OFill (OReadFE DOwn) s = false /\
            res_of (g_t0 s) = Some (OK, None) /\ res_of (g_t1 s) = Some (OK, Some 5%Z) /\ g_hash s = None /\ full_now s = true.
Proof. eexists. vm_compute. repeat split; reflexivity. Qed.

Theorem micro3_norecheck_refuted : ~ micro3_atomic_norecheck IEmpty OFill (OReadFE DOwn).
Proof.
  intro H. destruct norecheck_witness as (s & R & F & B & _).
  pose proof (H (sched_of norecheck_schedule) s (is_sched_of norecheck_schedule eq_refl) R F) as G. congruence.
Qed.
(* the same pair with the code as it is *)
Example norecheck_pair_now : micro3_atomic IEmpty OFill (OReadFE DOwn).
Proof. apply micro3_all; vm_compute; auto 14. Qed.

(* ================= non-vacuity ================= *)
Fixpoint greedy (stp : gst -> N -> option gst) (pref : list N) (fuel : nat) (s : gst) : list N :=
  match fuel with
  | O => []
  | S f => match pref with
           | t :: p => match stp s t with Some s' => t :: greedy stp p f s' | None => greedy stp p f s end
           | [] => match stp s 0 with
                   | Some s' => 0 :: greedy stp [] f s'
                   | None => match stp s 1 with Some s' => 1 :: greedy stp [] f s' | None => [] end
                   end
           end
  end.
Lemma is_sched_b l : forallb (fun t => N.leb t 1) l = true -> is_sched l.
Proof.
  unfold is_sched. induction l as [|t l IH]; cbn [forallb]; intro H; constructor.
  - apply andb_prop in H. destruct H as [H _].
    destruct t as [|p]; [left; reflexivity|]. destruct p as [p|p|]; [destruct p; discriminate H | destruct p; discriminate H | right; reflexivity].
  - apply IH. apply andb_prop in H. apply H.
Qed.
(* a wake-up body overlapped by the second call: the word is empty and task 2 is blocked in writeFF(33).  Task 0: writeEF(11) stores
   11, marks the word full, takes task 2 off FFWQ -- here task 1's readXX reads the word: 11 -- then performs task 2's store of 33,
   hands task 2 to the scheduler, and removes the record.  11 is neither the value before nor after task 0's call as one step: it is
   the value between writeEF(11) and the woken writeFF(33) *)
Example body_overlapped_by_readXX :
  exists sched s, is_sched sched /\ run_with mstep (minit IEmptyFFW (OWriteEF (Some va)) (OReadXX DOwn)) sched = Some s /\
                  final_with mstep s /\ good_all IEmptyFFW (OWriteEF (Some va)) (OReadXX DOwn) s = true /\
                  res_of (g_t1 s) = Some (OK, Some 11%Z) /\ res_of (g_t2 s) = Some (OK, None) /\ g_word s = 33%Z /\ g_hash s = None /\
                  matches s (seq2 IEmptyFFW (OWriteEF (Some va)) (OReadXX DOwn) true) = false /\
                  matches s (seq2 IEmptyFFW (OWriteEF (Some va)) (OReadXX DOwn) false) = false.
Proof.
  exists (greedy mstep [0;0;0;0;0;0;0;0;1] 200 (minit IEmptyFFW (OWriteEF (Some va)) (OReadXX DOwn))). eexists.
  split; [apply is_sched_b; vm_compute; reflexivity|]. vm_compute. repeat split; reflexivity.
Qed.
(* the removal raced by a call that looked the record up before: the word is empty, task 2 blocked in readFF.  Task 0: fill wakes
   task 2, unlocks the record, is about to remove it; task 1: readFE locks the record first, empties the word; task 0's re-check then
   leaves the record in the table *)
Example removal_overlapped :
  exists sched s, is_sched sched /\ run_with mstep (minit IEmptyFF OFill (OReadFE DOwn)) sched = Some s /\
                  final_with mstep s /\ good_all IEmptyFF OFill (OReadFE DOwn) s = true /\
                  res_of (g_t1 s) = Some (OK, Some 5%Z) /\ res_of (g_t2 s) = Some (OK, Some 5%Z) /\ full_now s = false /\ g_hash s = Some 0%nat.
Proof.
  exists (greedy mstep [0;0;0;0;0;0;0;0;0;0;0;0;1;1;1;1;1;1;1] 200 (minit IEmptyFF OFill (OReadFE DOwn))). eexists.
  split; [apply is_sched_b; vm_compute; reflexivity|]. vm_compute. repeat split; reflexivity.
Qed.
(* three tasks end up blocked on one list, in LIFO order behind the one that was there first *)
Example three_waiters :
  exists sched s, is_sched sched /\ run_with mstep (minit IEmptyFE (OReadFE DOwn) (OReadFE DOwn)) sched = Some s /\ final_with mstep s /\
                  good_all IEmptyFE (OReadFE DOwn) (OReadFE DOwn) s = true /\
                  option_map (fun r => map w_tid (r_FEQ r)) (hashed s) = Some [1; 0; 2].
Proof.
  exists (greedy mstep [] 200 (minit IEmptyFE (OReadFE DOwn) (OReadFE DOwn))). eexists.
  split; [apply is_sched_b; vm_compute; reflexivity|]. vm_compute. repeat split; reflexivity.
Qed.
(* the domain of the theorems *)
Lemma domain_size : length ikinds = 6%nat /\ length (ops_of va) = 13%nat /\ length (ops_of vb) = 13%nat.
Proof. repeat split; reflexivity. Qed.
