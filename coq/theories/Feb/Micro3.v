(* C01 / C02, extension K: micro-step model of src/feb.c (non LOCK_FREE_FEBS build, as it is since /repo eba51ae) for TWO RUNNING
   tasks (0 and 1) on ONE word plus an optional THIRD task (2) that is already blocked on the word when the two calls start -- in
   EFQ (writeEF waiting on a full word), FEQ (readFE on an empty word), FFQ (readFF on an empty word) or FFWQ (writeFF on an empty
   word) -- so that the wake-up bodies (qthread_gotlock_fill_inner / qthread_gotlock_empty_inner) and the record removal
   (qthread_FEB_remove) race with a second running call.  Feb/Micro.v (two tasks, single-step gotlock bodies) is left as it is.
   Shared objects and the accesses that are steps:
     the stripe's table FEBs[bin]: qt_hash_lock / qt_hash_get_locked / qt_hash_put_locked / qt_hash_remove_locked / qt_hash_unlock
     the record (qthread_addrstat_t): its lock (QTHREAD_FASTLOCK_LOCK / UNLOCK), m->full, the four waiter lists, and whether it
        has been given back to the allocator (qthread_addrstat_delete): a later access through a stale pointer sets [g_uaf]
     the word itself: plain loads and stores (the caller's own access; `*maddr = *X->addr` / `*X->addr = *maddr` of a wake-up)
     a waiter: its buffer (filled by the waker) and its hand-over to the scheduler (qt_feb_schedule), after which it returns
        from its call with what its buffer holds at that moment (it makes no further shared access).
   The gotlock bodies are the loops of the code: per waiter "dequeue (X = m->Q; m->Q = X->next)", "memory effect", "schedule";
   fill_inner and empty_inner call each other with recursive = 1; only the outermost call computes `removeable`, unlocks the
   record and calls qthread_FEB_remove (lock stripe, lookup again, lock record, re-check, remove, unlock stripe, unlock record,
   free).  A blocking call enqueues itself and switches to the worker, which drops the record lock (qthread.c, case
   QTHREAD_STATE_FEB_BLOCKED).  Sequential consistency is assumed (DESIGN section 7).
   [recheck] = false is a regression variant: qthread_FEB_remove without the test of lists / full bit under the two locks. *)
From Coq Require Import List ZArith NArith Bool.
Import ListNotations.
From QV Require Import Cell.Spec Feb.Model Feb.Proofs.

Record rcd := mkK { k_lock : option N; k_rec : rec; k_freed : bool }.

Inductive pc :=
| PHLock | PHGet | PHPut | PFast         (* qt_hash_lock; get_locked; put_locked of a fresh record; word access of a record-absent fast path *)
| PRLock | PHUnl                         (* lock m (stripe still held); qt_hash_unlock *)
| PTest | PWord                          (* test of m->full; the caller's own load / store of the word (record locked) *)
| PEnq | PSwitch                         (* X->next = m->Q; m->Q = X;  back_to_master + the worker's unlock of m *)
| PRUnl                                  (* unlock m of a call that wakes nobody (status, readFF, writeFF, failing _nb) *)
| PFSet | PFfw | PFfwEff | PFfwSch | PFfq | PFfqEff | PFfqSch | PFeq | PFeqEff | PFeqSch      (* gotlock_fill_inner *)
| PESet | PEfq | PEfqEff | PEfqSch                                                            (* gotlock_empty_inner *)
| PEnd                                   (* outermost call: removeable = ...; unlock m *)
| PRmHLock | PRmGet | PRmRLock | PRmChk | PRmHUnl | PRmFin                                    (* qthread_FEB_remove *)
| PXX                                    (* readXX: one plain load *)
| PDone.

Definition res := option (code * option Z).        (* None = the call did not return (blocked) *)
Record thr := mkT { t_op : op; t_pc : pc; t_m : option nat; t_x : option waiter; t_buf : option Z;
                    t_res : res; t_blk : bool }.
Record gst := mkG { g_word : Z; g_hash : option nat; g_hlock : option N; g_heap : list rcd; g_uaf : bool;
                    g_t0 : thr; g_t1 : thr; g_t2 : thr }.

(* ---------- plumbing ---------- *)
Definition get_thr (s : gst) (t : N) : thr := if N.eqb t 0 then g_t0 s else if N.eqb t 1 then g_t1 s else g_t2 s.
Definition set_thr (s : gst) (t : N) (x : thr) : gst :=
  if N.eqb t 0 then mkG (g_word s) (g_hash s) (g_hlock s) (g_heap s) (g_uaf s) x (g_t1 s) (g_t2 s)
  else if N.eqb t 1 then mkG (g_word s) (g_hash s) (g_hlock s) (g_heap s) (g_uaf s) (g_t0 s) x (g_t2 s)
  else mkG (g_word s) (g_hash s) (g_hlock s) (g_heap s) (g_uaf s) (g_t0 s) (g_t1 s) x.
Definition set_word (s : gst) (v : Z) := mkG v (g_hash s) (g_hlock s) (g_heap s) (g_uaf s) (g_t0 s) (g_t1 s) (g_t2 s).
Definition set_hash (s : gst) (h : option nat) := mkG (g_word s) h (g_hlock s) (g_heap s) (g_uaf s) (g_t0 s) (g_t1 s) (g_t2 s).
Definition set_hlock (s : gst) (l : option N) := mkG (g_word s) (g_hash s) l (g_heap s) (g_uaf s) (g_t0 s) (g_t1 s) (g_t2 s).
Definition set_heap (s : gst) (h : list rcd) := mkG (g_word s) (g_hash s) (g_hlock s) h (g_uaf s) (g_t0 s) (g_t1 s) (g_t2 s).
Definition set_uaf (s : gst) := mkG (g_word s) (g_hash s) (g_hlock s) (g_heap s) true (g_t0 s) (g_t1 s) (g_t2 s).
Definition is_free (l : option N) : bool := match l with None => true | Some _ => false end.

Fixpoint upd_nth (l : list rcd) (i : nat) (x : rcd) : list rcd :=
  match l, i with
  | [], _ => []
  | _ :: r, O => x :: r
  | a :: r, S j => a :: upd_nth r j x
  end.
Definition get_rcd (s : gst) (i : nat) : option rcd := nth_error (g_heap s) i.
Definition put_rcd (s : gst) (i : nat) (r : rcd) : gst := set_heap s (upd_nth (g_heap s) i r).
(* any access through a pointer to a record that was given back: use after free *)
Definition touch (s : gst) (r : rcd) : gst := if k_freed r then set_uaf s else s.
Definition put_rec (s : gst) (i : nat) (k : rcd) (r : rec) : gst := touch (put_rcd s i (mkK (k_lock k) r (k_freed k))) k.

Definition lock_rcd (s : gst) (me : N) (i : nat) : option gst :=
  match get_rcd s i with
  | Some r => if is_free (k_lock r) then Some (touch (put_rcd s i (mkK (Some me) (k_rec r) (k_freed r))) r) else None
  | None => None
  end.
Definition unlock_rcd (s : gst) (i : nat) (free : bool) : gst :=
  match get_rcd s i with
  | Some r => touch (put_rcd s i (mkK None (k_rec r) (k_freed r || free))) r
  | None => s
  end.

Definition w_pc (th : thr) (p : pc) : thr := mkT (t_op th) p (t_m th) (t_x th) (t_buf th) (t_res th) (t_blk th).
Definition w_m (th : thr) (m : option nat) (p : pc) : thr := mkT (t_op th) p m (t_x th) (t_buf th) (t_res th) (t_blk th).
Definition w_x (th : thr) (x : option waiter) (p : pc) : thr := mkT (t_op th) p (t_m th) x (t_buf th) (t_res th) (t_blk th).
Definition w_res (th : thr) (c : code) (v : option Z) (p : pc) : thr :=
  mkT (t_op th) p (t_m th) (t_x th) (t_buf th) (Some (c, v)) (t_blk th).
Definition w_blk (th : thr) : thr := mkT (t_op th) (t_pc th) (t_m th) (t_x th) (t_buf th) None true.

(* the waker's store into a blocked reader's buffer; the hand-over of a waiter to the scheduler: it returns with its buffer *)
Definition set_buf (s : gst) (t : N) (v : option Z) : gst :=
  let th := get_thr s t in set_thr s t (mkT (t_op th) (t_pc th) (t_m th) (t_x th) v (t_res th) (t_blk th)).
Definition wake (s : gst) (t : N) : gst :=
  let th := get_thr s t in set_thr s t (mkT (t_op th) PDone (t_m th) (t_x th) (t_buf th) (Some (OK, t_buf th)) false).

Definition is_status (o : op) : bool := match o with OStatus => true | _ => false end.
(* what the lookup does when the word has no record *)
Inductive absent := AInsertKeep | AInsertForget | AInsertStore | ANull | AFastPath.
Definition on_absent (o : op) : absent :=
  match o with
  | OWriteEF _ | OReadFE _ | OReadFE_nb _ => AInsertKeep            (* m = qthread_addrstat_new(); put; lock m *)
  | OEmpty => AInsertForget                                        (* m->full = 0; put; m = NULL *)
  | OPurge _ => AInsertStore                                       (* m->full = 0; put; store; unlock stripe; return *)
  | OWriteF _ | OWriteFF _ | OReadFF _ | OReadFF_nb _ => AFastPath (* access the word while the stripe is locked; return *)
  | _ => ANull                                                     (* fill, writeEF_nb, status: m = NULL *)
  end.
(* first step once the record is locked and the stripe unlocked *)
Definition after_hunl (o : op) : pc :=
  match o with
  | OEmpty => PESet | OFill => PFSet | OWriteF _ | OPurge _ => PWord | _ => PTest
  end.
Definition enq (o : op) (me : N) (r : rec) : rec :=
  match o with
  | OWriteEF w => mkRec (r_full r) (mkW me w DNull false :: r_EFQ r) (r_FEQ r) (r_FFQ r) (r_FFWQ r)
  | OWriteFF w => mkRec (r_full r) (r_EFQ r) (r_FEQ r) (r_FFQ r) (mkW me w DNull false :: r_FFWQ r)
  | OReadFF d => mkRec (r_full r) (r_EFQ r) (r_FEQ r) (mkW me None d false :: r_FFQ r) (r_FFWQ r)
  | OReadFE d => mkRec (r_full r) (r_EFQ r) (mkW me None d false :: r_FEQ r) (r_FFQ r) (r_FFWQ r)
  | _ => r
  end.
Definition set_full (r : rec) (f : bool) : rec := mkRec f (r_EFQ r) (r_FEQ r) (r_FFQ r) (r_FFWQ r).

(* ---------- one shared access of task me ---------- *)
Definition mstep_gen (recheck : bool) (s : gst) (me : N) : option gst :=
  if negb (N.ltb me 2) then None else
  let th := get_thr s me in
  if t_blk th then None else
  let o := t_op th in
  let go th' s' := Some (set_thr s' me th') in
  (* the record m points to *)
  let with_m (f : nat -> rcd -> option gst) : option gst :=
    match t_m th with Some i => match get_rcd s i with Some k => f i k | None => None end | None => None end in
  match t_pc th with
  | PDone => None
  | PXX => go (w_res th OK (deliver (dest_of o) (g_word s)) PDone) s
  (* ---- prologue ---- *)
  | PHLock => if is_free (g_hlock s) then go (w_pc th PHGet) (set_hlock s (Some me)) else None
  | PHGet =>
      match g_hash s with
      | Some i => go (w_m th (Some i) PRLock) s
      | None =>
          match on_absent o with
          | AInsertKeep | AInsertForget | AInsertStore => go (w_m th None PHPut) s
          | AFastPath => go (w_m th None PFast) s
          | ANull =>
              match o with
              | OStatus => go (w_res (w_m th None PHUnl) OK (Some 1%Z) PHUnl) s
              | OWriteEF_nb _ => go (w_res (w_m th None PHUnl) OPFAIL None PHUnl) s
              | _ => go (w_res (w_m th None PHUnl) OK None PHUnl) s
              end
          end
      end
  | PHPut =>
      let i := length (g_heap s) in
      let fresh f := set_hash (set_heap s (g_heap s ++ [mkK None (mkRec f [] [] [] []) false])) (Some i) in
      match on_absent o with
      | AInsertKeep => go (w_m th (Some i) PRLock) (fresh true)
      | AInsertForget => go (w_res (w_m th None PHUnl) OK None PHUnl) (fresh false)
      | AInsertStore => go (w_m th None PFast) (fresh false)
      | _ => None
      end
  | PFast =>
      match o with
      | OWriteF w | OWriteFF w | OPurge w => go (w_res th OK None PHUnl) (set_word s (stored w (g_word s)))
      | OReadFF d | OReadFF_nb d => go (w_res th OK (deliver d (g_word s)) PHUnl) s
      | _ => None
      end
  | PRLock =>
      match t_m th with
      | Some i => match lock_rcd s me i with
                  | Some s1 => go (w_pc th (if is_status o then PRUnl else PHUnl)) s1
                  | None => None
                  end
      | None => None
      end
  | PHUnl =>
      match t_m th with
      | None => go (w_pc th PDone) (set_hlock s None)
      | Some _ => if is_status o then go (w_pc th PDone) (set_hlock s None)
                  else go (w_res th OK None (after_hunl o)) (set_hlock s None)
      end
  (* ---- the call proper, m locked ---- *)
  | PTest =>
      with_m (fun i k =>
        let f := r_full (k_rec k) in
        let s1 := touch s k in
        match o with
        | OWriteEF _ => go (w_pc th (if f then PEnq else PWord)) s1
        | OWriteEF_nb _ => if f then go (w_res th OPFAIL None PRUnl) s1 else go (w_pc th PWord) s1
        | OWriteFF _ | OReadFF _ | OReadFE _ => go (w_pc th (if f then PWord else PEnq)) s1
        | OReadFF_nb _ | OReadFE_nb _ => if f then go (w_pc th PWord) s1 else go (w_res th OPFAIL None PRUnl) s1
        | _ => None
        end)
  | PWord =>
      match o with
      | OWriteF w | OWriteEF w | OWriteEF_nb w => go (w_res th OK None PFSet) (set_word s (stored w (g_word s)))
      | OPurge w => go (w_res th OK None PESet) (set_word s (stored w (g_word s)))
      | OWriteFF w => go (w_res th OK None PRUnl) (set_word s (stored w (g_word s)))
      | OReadFF d | OReadFF_nb d => go (w_res th OK (deliver d (g_word s)) PRUnl) s
      | OReadFE d | OReadFE_nb d => go (w_res th OK (deliver d (g_word s)) PESet) s
      | _ => None
      end
  | PEnq => with_m (fun i k => go (w_pc th PSwitch) (put_rec s i k (enq o me (k_rec k))))
  | PSwitch => match t_m th with Some i => go (w_blk th) (unlock_rcd s i false) | None => None end
  | PRUnl =>
      with_m (fun i k =>
        let s1 := unlock_rcd s i false in
        if is_status o then go (w_res th OK (Some (Z.b2z (r_full (k_rec k)))) PHUnl) s1 else go (w_pc th PDone) s1)
  (* ---- qthread_gotlock_fill_inner ---- *)
  | PFSet => with_m (fun i k => go (w_pc th PFfw) (put_rec s i k (set_full (k_rec k) true)))
  | PFfw =>
      with_m (fun i k =>
        let r := k_rec k in
        match r_FFWQ r with
        | X :: q => go (w_x th (Some X) PFfwEff) (put_rec s i k (mkRec (r_full r) (r_EFQ r) (r_FEQ r) (r_FFQ r) q))
        | [] => go (w_pc th PFfq) (touch s k)
        end)
  | PFfwEff => match t_x th with Some X => go (w_pc th PFfwSch) (set_word s (stored (w_src X) (g_word s))) | None => None end
  | PFfwSch => match t_x th with Some X => go (w_x th None PFfw) (wake s (w_tid X)) | None => None end
  | PFfq =>
      with_m (fun i k =>
        let r := k_rec k in
        match r_FFQ r with
        | X :: q => go (w_x th (Some X) PFfqEff) (put_rec s i k (mkRec (r_full r) (r_EFQ r) (r_FEQ r) q (r_FFWQ r)))
        | [] => go (w_pc th PFeq) (touch s k)
        end)
  | PFfqEff => match t_x th with Some X => go (w_pc th PFfqSch) (set_buf s (w_tid X) (deliver (w_dest X) (g_word s))) | None => None end
  | PFfqSch => match t_x th with Some X => go (w_x th None PFfq) (wake s (w_tid X)) | None => None end
  | PFeq =>
      with_m (fun i k =>
        let r := k_rec k in
        match r_FEQ r with
        | X :: q => go (w_x th (Some X) PFeqEff) (put_rec s i k (mkRec (r_full r) (r_EFQ r) q (r_FFQ r) (r_FFWQ r)))
        | [] => go (w_pc th PEnd) (touch s k)
        end)
  | PFeqEff => match t_x th with Some X => go (w_pc th PFeqSch) (set_buf s (w_tid X) (deliver (w_dest X) (g_word s))) | None => None end
  | PFeqSch => match t_x th with Some X => go (w_x th None PESet) (wake s (w_tid X)) | None => None end
  (* ---- qthread_gotlock_empty_inner ---- *)
  | PESet => with_m (fun i k => go (w_pc th PEfq) (put_rec s i k (set_full (k_rec k) false)))
  | PEfq =>
      with_m (fun i k =>
        let r := k_rec k in
        match r_EFQ r with
        | X :: q => go (w_x th (Some X) PEfqEff) (put_rec s i k (mkRec (r_full r) q (r_FEQ r) (r_FFQ r) (r_FFWQ r)))
        | [] => go (w_pc th PEnd) (touch s k)
        end)
  | PEfqEff => match t_x th with Some X => go (w_pc th PEfqSch) (set_word s (stored (w_src X) (g_word s))) | None => None end
  | PEfqSch => match t_x th with Some X => go (w_x th None PFSet) (wake s (w_tid X)) | None => None end
  (* ---- the outermost call: removeable, unlock, remove ---- *)
  | PEnd =>
      with_m (fun i k =>
        let r := k_rec k in
        let fill_top := match o with OFill | OWriteF _ | OWriteEF _ | OWriteEF_nb _ => true | _ => false end in
        let rm := if fill_top then is_nil (r_EFQ r) && is_nil (r_FEQ r) && r_full r else r_full r && all_empty r in
        go (w_pc th (if rm then PRmHLock else PDone)) (unlock_rcd s i false))
  | PRmHLock => if is_free (g_hlock s) then go (w_pc th PRmGet) (set_hlock s (Some me)) else None
  | PRmGet =>
      match g_hash s with
      | Some i => go (w_m th (Some i) PRmRLock) s
      | None => go (w_m th None PRmHUnl) s
      end
  | PRmRLock =>
      match t_m th with
      | Some i => match lock_rcd s me i with Some s1 => go (w_pc th PRmChk) s1 | None => None end
      | None => None
      end
  | PRmChk =>
      with_m (fun i k =>
        let r := k_rec k in
        if negb recheck || (all_empty r && r_full r) then go (w_pc th PRmHUnl) (set_hash (touch s k) None)
        else go (w_m th None PRmHUnl) (unlock_rcd s i false))
  | PRmHUnl => go (w_pc th (match t_m th with Some _ => PRmFin | None => PDone end)) (set_hlock s None)
  | PRmFin => match t_m th with Some i => go (w_pc th PDone) (unlock_rcd s i true) | None => None end
  end.

Definition mstep := mstep_gen true.              (* src/feb.c as it is *)
Definition mstep_norecheck := mstep_gen false.   (* regression variant: removal without the re-check under both locks *)

(* ---------- initial states ---------- *)
Inductive ikind := IFull | IEmpty | IFullEF | IEmptyFE | IEmptyFF | IEmptyFFW.    (* the last four: task 2 is blocked on the word *)
Definition v0 : Z := 5.        (* the word at the start *)
Definition vg : Z := 33.       (* the value a blocked writer (task 2) carries *)
Definition first_pc (o : op) : pc := match o with OReadXX _ => PXX | _ => PHLock end.
Definition init_thr (o : op) : thr := mkT o (first_pc o) None None None None false.
Definition idle_thr : thr := mkT OStatus PDone None None None None false.
Definition blocked_thr (o : op) : thr := mkT o PSwitch (Some 0%nat) None None None true.
Definition ghost_op (k : ikind) : option op :=
  match k with
  | IFullEF => Some (OWriteEF (Some vg)) | IEmptyFE => Some (OReadFE DOwn) | IEmptyFF => Some (OReadFF DOwn)
  | IEmptyFFW => Some (OWriteFF (Some vg)) | _ => None
  end.
(* the record the table holds at the start (None = the word is full and nobody waits) *)
Definition irec (k : ikind) : option rec :=
  match k with
  | IFull => None
  | IEmpty => Some (mkRec false [] [] [] [])
  | _ => match ghost_op k with Some o => Some (enq o 2 (mkRec (match k with IFullEF => true | _ => false end) [] [] [] [])) | None => None end
  end.
Definition minit (k : ikind) (oa ob : op) : gst :=
  let t2 := match ghost_op k with Some o => blocked_thr o | None => idle_thr end in
  match irec k with
  | Some r => mkG v0 (Some 0%nat) None [mkK None r false] false (init_thr oa) (init_thr ob) t2
  | None => mkG v0 None None [] false (init_thr oa) (init_thr ob) t2
  end.

Fixpoint mrun (s : gst) (sched : list N) : option gst :=
  match sched with
  | [] => Some s
  | t :: l => match mstep s t with Some s' => mrun s' l | None => None end
  end.
Definition finished (th : thr) : bool := match t_pc th with PDone => true | _ => false end.

(* ================= what the calls produce when each is ONE atomic step (Feb/Model.v word_step = Cell/Spec.v + release rule) ================= *)
Definition sres := list (N * (code * option Z)).
Definition spec1 (ro : option rec) (v : Z) (t : N) (o : op) : option (option rec * Z * sres) :=
  match word_step ro v t o with
  | None => None
  | Some wr =>
      let ro1 := match wr_rec wr with Some r => Some r | None => ro end in
      let ro2 := if wr_rm wr then match ro1 with Some r => if all_empty r && r_full r then None else ro1 | None => None end else ro1 in
      Some (ro2, wr_val wr,
            (match wr_code wr with Some c => [(t, (c, wr_out wr))] | None => [] end) ++
            map (fun x : rel => match x with (t', _, v') => (t', (OK, v')) end) (wr_rel wr))
  end.
Fixpoint sres_get (l : sres) (t : N) : res :=
  match l with [] => None | (t', r) :: l' => if N.eqb t t' then Some r else sres_get l' t end.
(* the two calls, task [fst] first *)
Definition seq2 (k : ikind) (oa ob : op) (a_first : bool) : option (option rec * Z * sres) :=
  let '(t1, o1, t2, o2) := if a_first then (0%N, oa, 1%N, ob) else (1%N, ob, 0%N, oa) in
  match spec1 (irec k) v0 t1 o1 with
  | None => None
  | Some (r1, w1, e1) =>
      match spec1 r1 w1 t2 o2 with
      | None => None
      | Some (r2, w2, e2) => Some (r2, w2, e1 ++ e2)
      end
  end.

Definition oz_eqb (x y : option Z) : bool :=
  match x, y with Some a, Some b => Z.eqb a b | None, None => true | _, _ => false end.
Definition code_eqb (x y : code) : bool := match x, y with OK, OK | OPFAIL, OPFAIL => true | _, _ => false end.
Definition res_eqb (x y : res) : bool :=
  match x, y with
  | Some (c, v), Some (c', v') => code_eqb c c' && oz_eqb v v'
  | None, None => true
  | _, _ => false
  end.
Definition dmode_eqb (x y : dmode) : bool := match x, y with DOwn, DOwn | DNull, DNull | DSame, DSame => true | _, _ => false end.
Definition waiter_eqb (x y : waiter) : bool :=
  N.eqb (w_tid x) (w_tid y) && oz_eqb (w_src x) (w_src y) && dmode_eqb (w_dest x) (w_dest y) && Bool.eqb (w_nascent x) (w_nascent y).
Fixpoint wl_eqb (x y : list waiter) : bool :=
  match x, y with
  | [], [] => true
  | a :: r, b :: r' => waiter_eqb a b && wl_eqb r r'
  | _, _ => false
  end.
Definition rec_eqb (x y : rec) : bool :=
  Bool.eqb (r_full x) (r_full y) && wl_eqb (r_EFQ x) (r_EFQ y) && wl_eqb (r_FEQ x) (r_FEQ y) && wl_eqb (r_FFQ x) (r_FFQ y) &&
  wl_eqb (r_FFWQ x) (r_FFWQ y).
Definition orec_eqb (x y : option rec) : bool :=
  match x, y with Some a, Some b => rec_eqb a b | None, None => true | _, _ => false end.

Definition res_of (th : thr) : res := if finished th then t_res th else None.
(* the record the table holds for the word *)
Definition hashed (s : gst) : option rec :=
  match g_hash s with Some i => match get_rcd s i with Some k => Some (k_rec k) | None => None end | None => None end.
Definition full_now (s : gst) : bool := match hashed s with Some r => r_full r | None => true end.

(* nobody holds (or waits for) a lock, no released record was used, the table's entry is a live record, and the record is present
   iff somebody still waits or the word is empty; every blocked task sits on a list of that record *)
Definition on_lists (r : option rec) (t : N) : bool :=
  match r with Some r => existsb (fun w => N.eqb (w_tid w) t) (waiters_of r) | None => false end.
Definition settled (s : gst) : bool :=
  (finished (g_t0 s) || t_blk (g_t0 s)) && (finished (g_t1 s) || t_blk (g_t1 s)) && (finished (g_t2 s) || t_blk (g_t2 s)) &&
  is_free (g_hlock s) && forallb (fun r => is_free (k_lock r)) (g_heap s) && negb (g_uaf s) &&
  match g_hash s with
  | Some i => match get_rcd s i with Some k => negb (k_freed k) && negb (all_empty (k_rec k) && r_full (k_rec k)) | None => false end
  | None => true
  end &&
  (negb (t_blk (g_t0 s)) || on_lists (hashed s) 0) && (negb (t_blk (g_t1 s)) || on_lists (hashed s) 1) &&
  (negb (t_blk (g_t2 s)) || on_lists (hashed s) 2).

Definition matches (s : gst) (x : option (option rec * Z * sres)) : bool :=
  match x with
  | None => false
  | Some (ro, w, rs) =>
      res_eqb (res_of (g_t0 s)) (sres_get rs 0) && res_eqb (res_of (g_t1 s)) (sres_get rs 1) && res_eqb (res_of (g_t2 s)) (sres_get rs 2) &&
      Z.eqb (g_word s) w && orec_eqb (hashed s) ro
  end.

(* readXX takes no lock: it returns the value the cell has at some point of a Cell/Spec linearisation of the OTHER operations (the
   other call, then the blocked operation it enables): the start value, the value after the other call, the value after the woken
   operation.  Everything else is as if readXX were not there. *)
Definition is_xx (o : op) : bool := match o with OReadXX _ => true | _ => false end.
Definition chain (k : ikind) (o : op) : list Z :=
  let c0 := mkCell (match irec k with Some r => r_full r | None => true end) v0 in
  v0 :: match atomic c0 (cop_of o) with
        | Some (c1, _) =>
            c_val c1 :: match ghost_op k with
                        | Some og => match atomic c1 (cop_of og) with Some (c2, _) => [c_val c2] | None => [] end
                        | None => []
                        end
        | None => []
        end.
Definition matches_xx (k : ikind) (s : gst) (xx_t : N) (xx_o : op) (o_t : N) (o : op) : bool :=
  match spec1 (irec k) v0 o_t o with
  | None => false
  | Some (ro, w, rs) =>
      res_eqb (res_of (get_thr s o_t)) (sres_get rs o_t) && res_eqb (res_of (g_t2 s)) (sres_get rs 2) &&
      Z.eqb (g_word s) w && orec_eqb (hashed s) ro &&
      match res_of (get_thr s xx_t) with
      | Some (OK, x) => existsb (fun w' => oz_eqb x (deliver (dest_of xx_o) w')) (chain k o)
      | _ => false
      end
  end.

Definition explained (k : ikind) (oa ob : op) (s : gst) : bool :=
  matches s (seq2 k oa ob true) || matches s (seq2 k oa ob false) ||
  (is_xx oa && negb (is_xx ob) && matches_xx k s 0 oa 1 ob) || (is_xx ob && negb (is_xx oa) && matches_xx k s 1 ob 0 oa).
Definition good_final (k : ikind) (oa ob : op) (s : gst) : bool := settled s && explained k oa ob s.

(* C02 at this granularity: no task is left blocked although the condition it waits for holds *)
Definition cond_holds (s : gst) (th : thr) : bool := enabled (mkCell (full_now s) (g_word s)) (cop_of (t_op th)).
Definition no_lost_wakeup (s : gst) : bool :=
  (negb (t_blk (g_t0 s)) || negb (cond_holds s (g_t0 s))) && (negb (t_blk (g_t1 s)) || negb (cond_holds s (g_t1 s))) &&
  (negb (t_blk (g_t2 s)) || negb (cond_holds s (g_t2 s))).
Definition good_all (k : ikind) (oa ob : op) (s : gst) : bool := good_final k oa ob s && no_lost_wakeup s.
