(* C06 (with C01 / C02), extension K part 2: micro-step model of src/feb.c as Feb/Micro3.v, where the pre-blocked third party is a
   NASCENT waiter: a task N spawned with qthread_fork_precond whose walk (qthread_check_feb_preconds) parked it on the FFQ of the
   word w.  Two running tasks (0 and 1) call the FEB API on w; their calls race with
     - the collection of nascent waiters in qthread_gotlock_fill_inner (a nascent waiter taken off FFQ is not handed to the
       scheduler but linked into the batch *precond_tasks),
     - qthread_precond_launch after the record lock was dropped: qthread_check_feb_preconds(N) walks N's REMAINING precondition
       words (lock stripe, lookup, lock record, unlock stripe, test m->full; full / no record: count the word off and go on; empty:
       push N on that word's FFQ as nascent again, unlock, stop), and only when no word remains is N enqueued (launched),
     - then qthread_FEB_remove when `removeable`.
   N has one precondition word (w) or two (w, then u): the second word u is an abstract full/empty flag which an environment
   actor (schedule id 2) may flip once; a fill of u while N is parked on u launches N (u is the last word of the walk).
   Ghost state (read by no executable decision): where N was seen full, how often N was enqueued, a monitor [n_bad].
   [skip] = true is a regression variant: the tail of qthread_gotlock_fill_inner returns early when the record is not removeable,
   which skips qthread_precond_launch (seeded change C06-3; C06-1 launches only inside `if (removeable)`: same behaviour).
   [nocheck] = true is a second regression variant: the batch is enqueued without the re-check.
   Definitions only. *)
From Coq Require Import List ZArith NArith Bool.
Import ListNotations.
From QV Require Import Cell.Spec Feb.Model Feb.Proofs.

Record rcd := mkK { k_lock : option N; k_rec : rec; k_freed : bool }.

Inductive pc :=
| PHLock | PHGet | PHPut | PFast         (* qt_hash_lock; get_locked; put_locked of a fresh record; word access of a record-absent fast path *)
| PRLock | PHUnl                         (* lock m (stripe still held); qt_hash_unlock *)
| PTest | PWord                          (* test of m->full; the caller's own load / store of the word (record locked) *)
| PEnq | PSwitch                         (* X->next = m->Q; m->Q = X;  back_to_master + the worker's unlock of m *)
| PRUnl                                  (* unlock m of a call that wakes nobody (status, readFF, writeFF, failing _nb) *)
| PFSet | PFfw | PFfwEff | PFfwSch | PFfq | PFfqEff | PFfqSch | PFeq | PFeqEff | PFeqSch      (* gotlock_fill_inner *)
| PESet | PEfq | PEfqEff | PEfqSch                                                            (* gotlock_empty_inner *)
| PEnd                                   (* outermost call: removeable = ...; unlock m *)
| PPreHLock | PPreGet | PPreRLock | PPreHUnl | PPreTest | PPrePark | PPreRUnlF | PPreRUnlP    (* qthread_check_feb_preconds on w *)
| PPreU                                  (* ... on the abstract second word u *)
| PPreEnq                                (* qthread_precond_launch: qt_threadqueue_enqueue of the task whose walk returned 0 *)
| PRmHLock | PRmGet | PRmRLock | PRmChk | PRmHUnl | PRmFin                                    (* qthread_FEB_remove *)
| PXX                                    (* readXX: one plain load *)
| PDone.

Definition res := option (code * option Z).        (* None = the call did not return (blocked) *)
Record thr := mkT { t_op : op; t_pc : pc; t_m : option nat; t_x : option waiter; t_buf : option Z;
                    t_res : res; t_blk : bool; t_batch : bool; t_rm : bool }.
(* the nascent task: remaining precondition words in walking order, parked on u?, ghost history *)
Inductive pword := PW | PU.
Record nas := mkN { n_rem : list pword; n_parkedU : bool; n_hasU : bool;
                    n_launch : nat; n_seenW : bool; n_seenU : bool; n_bad : bool }.
Record gst := mkG { g_word : Z; g_hash : option nat; g_hlock : option N; g_heap : list rcd; g_uaf : bool;
                    g_t0 : thr; g_t1 : thr; g_t2 : thr; g_u : bool; g_flips : nat; g_n : nas }.

(* ---------- plumbing ---------- *)
Definition get_thr (s : gst) (t : N) : thr := if N.eqb t 0 then g_t0 s else if N.eqb t 1 then g_t1 s else g_t2 s.
Definition set_thr (s : gst) (t : N) (x : thr) : gst :=
  if N.eqb t 0 then mkG (g_word s) (g_hash s) (g_hlock s) (g_heap s) (g_uaf s) x (g_t1 s) (g_t2 s) (g_u s) (g_flips s) (g_n s)
  else if N.eqb t 1 then mkG (g_word s) (g_hash s) (g_hlock s) (g_heap s) (g_uaf s) (g_t0 s) x (g_t2 s) (g_u s) (g_flips s) (g_n s)
  else mkG (g_word s) (g_hash s) (g_hlock s) (g_heap s) (g_uaf s) (g_t0 s) (g_t1 s) x (g_u s) (g_flips s) (g_n s).
Definition set_word (s : gst) (v : Z) := mkG v (g_hash s) (g_hlock s) (g_heap s) (g_uaf s) (g_t0 s) (g_t1 s) (g_t2 s) (g_u s) (g_flips s) (g_n s).
Definition set_hash (s : gst) (h : option nat) := mkG (g_word s) h (g_hlock s) (g_heap s) (g_uaf s) (g_t0 s) (g_t1 s) (g_t2 s) (g_u s) (g_flips s) (g_n s).
Definition set_hlock (s : gst) (l : option N) := mkG (g_word s) (g_hash s) l (g_heap s) (g_uaf s) (g_t0 s) (g_t1 s) (g_t2 s) (g_u s) (g_flips s) (g_n s).
Definition set_heap (s : gst) (h : list rcd) := mkG (g_word s) (g_hash s) (g_hlock s) h (g_uaf s) (g_t0 s) (g_t1 s) (g_t2 s) (g_u s) (g_flips s) (g_n s).
Definition set_uaf (s : gst) := mkG (g_word s) (g_hash s) (g_hlock s) (g_heap s) true (g_t0 s) (g_t1 s) (g_t2 s) (g_u s) (g_flips s) (g_n s).
Definition is_free (l : option N) : bool := match l with None => true | Some _ => false end.

Fixpoint upd_nth (l : list rcd) (i : nat) (x : rcd) : list rcd :=
  match l, i with
  | [], _ => []
  | _ :: r, O => x :: r
  | a :: r, S j => a :: upd_nth r j x
  end.
Definition get_rcd (s : gst) (i : nat) : option rcd := nth_error (g_heap s) i.
Definition full_now_raw (s : gst) : bool :=
  match g_hash s with Some i => match nth_error (g_heap s) i with Some k => r_full (k_rec k) | None => true end | None => true end.
Definition put_rcd (s : gst) (i : nat) (r : rcd) : gst := set_heap s (upd_nth (g_heap s) i r).
(* any access through a pointer to a record that was given back: use after free *)
Definition touch (s : gst) (r : rcd) : gst := if k_freed r then set_uaf s else s.
Definition put_rec (s : gst) (i : nat) (k : rcd) (r : rec) : gst := touch (put_rcd s i (mkK (k_lock k) r (k_freed k))) k.

Definition lock_rcd (s : gst) (me : N) (i : nat) : option gst :=
  match get_rcd s i with
  | Some r => if is_free (k_lock r) then Some (touch (put_rcd s i (mkK (Some me) (k_rec r) (k_freed r))) r) else None
  | None => None
  end.
Definition unlock_rcd (s : gst) (i : nat) (free : bool) : gst :=
  match get_rcd s i with
  | Some r => touch (put_rcd s i (mkK None (k_rec r) (k_freed r || free))) r
  | None => s
  end.

Definition w_pc (th : thr) (p : pc) : thr := mkT (t_op th) p (t_m th) (t_x th) (t_buf th) (t_res th) (t_blk th) (t_batch th) (t_rm th).
Definition w_m (th : thr) (m : option nat) (p : pc) : thr := mkT (t_op th) p m (t_x th) (t_buf th) (t_res th) (t_blk th) (t_batch th) (t_rm th).
Definition w_x (th : thr) (x : option waiter) (p : pc) : thr := mkT (t_op th) p (t_m th) x (t_buf th) (t_res th) (t_blk th) (t_batch th) (t_rm th).
Definition w_res (th : thr) (c : code) (v : option Z) (p : pc) : thr :=
  mkT (t_op th) p (t_m th) (t_x th) (t_buf th) (Some (c, v)) (t_blk th) (t_batch th) (t_rm th).
Definition w_blk (th : thr) : thr := mkT (t_op th) (t_pc th) (t_m th) (t_x th) (t_buf th) None true (t_batch th) (t_rm th).

(* the waker's store into a blocked reader's buffer; the hand-over of a waiter to the scheduler: it returns with its buffer *)
Definition set_buf (s : gst) (t : N) (v : option Z) : gst :=
  let th := get_thr s t in set_thr s t (mkT (t_op th) (t_pc th) (t_m th) (t_x th) v (t_res th) (t_blk th) (t_batch th) (t_rm th)).
Definition wake (s : gst) (t : N) : gst :=
  let th := get_thr s t in set_thr s t (mkT (t_op th) PDone (t_m th) (t_x th) (t_buf th) (Some (OK, t_buf th)) false (t_batch th) (t_rm th)).

Definition is_status (o : op) : bool := match o with OStatus => true | _ => false end.
(* what the lookup does when the word has no record *)
Inductive absent := AInsertKeep | AInsertForget | AInsertStore | ANull | AFastPath.
Definition on_absent (o : op) : absent :=
  match o with
  | OWriteEF _ | OReadFE _ | OReadFE_nb _ => AInsertKeep            (* m = qthread_addrstat_new(); put; lock m *)
  | OEmpty => AInsertForget                                        (* m->full = 0; put; m = NULL *)
  | OPurge _ => AInsertStore                                       (* m->full = 0; put; store; unlock stripe; return *)
  | OWriteF _ | OWriteFF _ | OReadFF _ | OReadFF_nb _ => AFastPath (* access the word while the stripe is locked; return *)
  | _ => ANull                                                     (* fill, writeEF_nb, status: m = NULL *)
  end.
(* first step once the record is locked and the stripe unlocked *)
Definition after_hunl (o : op) : pc :=
  match o with
  | OEmpty => PESet | OFill => PFSet | OWriteF _ | OPurge _ => PWord | _ => PTest
  end.
Definition enq (o : op) (me : N) (r : rec) : rec :=
  match o with
  | OWriteEF w => mkRec (r_full r) (mkW me w DNull false :: r_EFQ r) (r_FEQ r) (r_FFQ r) (r_FFWQ r)
  | OWriteFF w => mkRec (r_full r) (r_EFQ r) (r_FEQ r) (r_FFQ r) (mkW me w DNull false :: r_FFWQ r)
  | OReadFF d => mkRec (r_full r) (r_EFQ r) (r_FEQ r) (mkW me None d false :: r_FFQ r) (r_FFWQ r)
  | OReadFE d => mkRec (r_full r) (r_EFQ r) (mkW me None d false :: r_FEQ r) (r_FFQ r) (r_FFWQ r)
  | _ => r
  end.
Definition set_full (r : rec) (f : bool) : rec := mkRec f (r_EFQ r) (r_FEQ r) (r_FFQ r) (r_FFWQ r).

Definition set_n (s : gst) (n : nas) : gst :=
  mkG (g_word s) (g_hash s) (g_hlock s) (g_heap s) (g_uaf s) (g_t0 s) (g_t1 s) (g_t2 s) (g_u s) (g_flips s) n.
Definition w_batch (th : thr) (b : bool) (p : pc) : thr := mkT (t_op th) p (t_m th) (t_x th) (t_buf th) (t_res th) (t_blk th) b (t_rm th).
Definition w_rm (th : thr) (rm : bool) (p : pc) : thr := mkT (t_op th) p (t_m th) (t_x th) (t_buf th) (t_res th) (t_blk th) (t_batch th) rm.
Definition NTID : N := 2.          (* the id a nascent waiter carries on the lists *)
Definition nascent_waiter : waiter := mkW NTID None DNull true.
(* the walk of qthread_check_feb_preconds: where it goes for the next remaining word *)
Definition pre_next (n : nas) : pc := match n_rem n with [] => PPreEnq | PW :: _ => PPreHLock | PU :: _ => PPreU end.
Definition n_pop (n : nas) : nas := mkN (tl (n_rem n)) (n_parkedU n) (n_hasU n) (n_launch n) (n_seenW n) (n_seenU n) (n_bad n).
Definition n_seeW (n : nas) (bad : bool) : nas := mkN (n_rem n) (n_parkedU n) (n_hasU n) (n_launch n) true (n_seenU n) (n_bad n || bad).
Definition after_pre (th : thr) : pc := if t_rm th then PRmHLock else PDone.
Definition fill_top (o : op) : bool := match o with OFill | OWriteF _ | OWriteEF _ | OWriteEF_nb _ => true | _ => false end.

(* ---------- one shared access of task me ---------- *)
Definition env_step (s : gst) : option gst :=
  (* the environment flips the abstract second word; filling it while N is parked on it launches N (u is the last word) *)
  match g_flips s with
  | O => None
  | S k =>
      let n := g_n s in
      if negb (n_hasU n) then None else
      let u' := negb (g_u s) in
      let n' := if u' && n_parkedU n
                then mkN [] false (n_hasU n) (S (n_launch n)) (n_seenW n) true (n_bad n || negb (n_seenW n))
                else n in
      Some (mkG (g_word s) (g_hash s) (g_hlock s) (g_heap s) (g_uaf s) (g_t0 s) (g_t1 s) (g_t2 s) u' k n')
  end.
Definition mstep_gen (skip nocheck : bool) (s : gst) (me : N) : option gst :=
  if N.eqb me 2 then env_step s else
  if negb (N.ltb me 2) then None else
  let th := get_thr s me in
  if t_blk th then None else
  let o := t_op th in
  let go th' s' := Some (set_thr s' me th') in
  (* the record m points to *)
  let with_m (f : nat -> rcd -> option gst) : option gst :=
    match t_m th with Some i => match get_rcd s i with Some k => f i k | None => None end | None => None end in
  match t_pc th with
  | PDone => None
  | PXX => go (w_res th OK (deliver (dest_of o) (g_word s)) PDone) s
  (* ---- prologue ---- *)
  | PHLock => if is_free (g_hlock s) then go (w_pc th PHGet) (set_hlock s (Some me)) else None
  | PHGet =>
      match g_hash s with
      | Some i => go (w_m th (Some i) PRLock) s
      | None =>
          match on_absent o with
          | AInsertKeep | AInsertForget | AInsertStore => go (w_m th None PHPut) s
          | AFastPath => go (w_m th None PFast) s
          | ANull =>
              match o with
              | OStatus => go (w_res (w_m th None PHUnl) OK (Some 1%Z) PHUnl) s
              | OWriteEF_nb _ => go (w_res (w_m th None PHUnl) OPFAIL None PHUnl) s
              | _ => go (w_res (w_m th None PHUnl) OK None PHUnl) s
              end
          end
      end
  | PHPut =>
      let i := length (g_heap s) in
      let fresh f := set_hash (set_heap s (g_heap s ++ [mkK None (mkRec f [] [] [] []) false])) (Some i) in
      match on_absent o with
      | AInsertKeep => go (w_m th (Some i) PRLock) (fresh true)
      | AInsertForget => go (w_res (w_m th None PHUnl) OK None PHUnl) (fresh false)
      | AInsertStore => go (w_m th None PFast) (fresh false)
      | _ => None
      end
  | PFast =>
      match o with
      | OWriteF w | OWriteFF w | OPurge w => go (w_res th OK None PHUnl) (set_word s (stored w (g_word s)))
      | OReadFF d | OReadFF_nb d => go (w_res th OK (deliver d (g_word s)) PHUnl) s
      | _ => None
      end
  | PRLock =>
      match t_m th with
      | Some i => match lock_rcd s me i with
                  | Some s1 => go (w_pc th (if is_status o then PRUnl else PHUnl)) s1
                  | None => None
                  end
      | None => None
      end
  | PHUnl =>
      match t_m th with
      | None => go (w_pc th PDone) (set_hlock s None)
      | Some _ => if is_status o then go (w_pc th PDone) (set_hlock s None)
                  else go (w_res th OK None (after_hunl o)) (set_hlock s None)
      end
  (* ---- the call proper, m locked ---- *)
  | PTest =>
      with_m (fun i k =>
        let f := r_full (k_rec k) in
        let s1 := touch s k in
        match o with
        | OWriteEF _ => go (w_pc th (if f then PEnq else PWord)) s1
        | OWriteEF_nb _ => if f then go (w_res th OPFAIL None PRUnl) s1 else go (w_pc th PWord) s1
        | OWriteFF _ | OReadFF _ | OReadFE _ => go (w_pc th (if f then PWord else PEnq)) s1
        | OReadFF_nb _ | OReadFE_nb _ => if f then go (w_pc th PWord) s1 else go (w_res th OPFAIL None PRUnl) s1
        | _ => None
        end)
  | PWord =>
      match o with
      | OWriteF w | OWriteEF w | OWriteEF_nb w => go (w_res th OK None PFSet) (set_word s (stored w (g_word s)))
      | OPurge w => go (w_res th OK None PESet) (set_word s (stored w (g_word s)))
      | OWriteFF w => go (w_res th OK None PRUnl) (set_word s (stored w (g_word s)))
      | OReadFF d | OReadFF_nb d => go (w_res th OK (deliver d (g_word s)) PRUnl) s
      | OReadFE d | OReadFE_nb d => go (w_res th OK (deliver d (g_word s)) PESet) s
      | _ => None
      end
  | PEnq => with_m (fun i k => go (w_pc th PSwitch) (put_rec s i k (enq o me (k_rec k))))
  | PSwitch => match t_m th with Some i => go (w_blk th) (unlock_rcd s i false) | None => None end
  | PRUnl =>
      with_m (fun i k =>
        let s1 := unlock_rcd s i false in
        if is_status o then go (w_res th OK (Some (Z.b2z (r_full (k_rec k)))) PHUnl) s1 else go (w_pc th PDone) s1)
  (* ---- qthread_gotlock_fill_inner ---- *)
  | PFSet => with_m (fun i k => go (w_pc th PFfw) (put_rec s i k (set_full (k_rec k) true)))
  | PFfw =>
      with_m (fun i k =>
        let r := k_rec k in
        match r_FFWQ r with
        | X :: q => go (w_x th (Some X) PFfwEff) (put_rec s i k (mkRec (r_full r) (r_EFQ r) (r_FEQ r) (r_FFQ r) q))
        | [] => go (w_pc th PFfq) (touch s k)
        end)
  | PFfwEff => match t_x th with Some X => go (w_pc th PFfwSch) (set_word s (stored (w_src X) (g_word s))) | None => None end
  | PFfwSch => match t_x th with Some X => go (w_x th None PFfw) (wake s (w_tid X)) | None => None end
  | PFfq =>
      with_m (fun i k =>
        let r := k_rec k in
        match r_FFQ r with
        | X :: q =>
            let s1 := put_rec s i k (mkRec (r_full r) (r_EFQ r) (r_FEQ r) q (r_FFWQ r)) in
            if w_nascent X then go (w_batch th true PFfq) s1           (* X->addr == NULL: no copy; linked into *precond_tasks *)
            else go (w_x th (Some X) PFfqEff) s1
        | [] => go (w_pc th PFeq) (touch s k)
        end)
  | PFfqEff => match t_x th with Some X => go (w_pc th PFfqSch) (set_buf s (w_tid X) (deliver (w_dest X) (g_word s))) | None => None end
  | PFfqSch => match t_x th with Some X => go (w_x th None PFfq) (wake s (w_tid X)) | None => None end
  | PFeq =>
      with_m (fun i k =>
        let r := k_rec k in
        match r_FEQ r with
        | X :: q => go (w_x th (Some X) PFeqEff) (put_rec s i k (mkRec (r_full r) (r_EFQ r) q (r_FFQ r) (r_FFWQ r)))
        | [] => go (w_pc th PEnd) (touch s k)
        end)
  | PFeqEff => match t_x th with Some X => go (w_pc th PFeqSch) (set_buf s (w_tid X) (deliver (w_dest X) (g_word s))) | None => None end
  | PFeqSch => match t_x th with Some X => go (w_x th None PESet) (wake s (w_tid X)) | None => None end
  (* ---- qthread_gotlock_empty_inner ---- *)
  | PESet => with_m (fun i k => go (w_pc th PEfq) (put_rec s i k (set_full (k_rec k) false)))
  | PEfq =>
      with_m (fun i k =>
        let r := k_rec k in
        match r_EFQ r with
        | X :: q => go (w_x th (Some X) PEfqEff) (put_rec s i k (mkRec (r_full r) q (r_FEQ r) (r_FFQ r) (r_FFWQ r)))
        | [] => go (w_pc th PEnd) (touch s k)
        end)
  | PEfqEff => match t_x th with Some X => go (w_pc th PEfqSch) (set_word s (stored (w_src X) (g_word s))) | None => None end
  | PEfqSch => match t_x th with Some X => go (w_x th None PFSet) (wake s (w_tid X)) | None => None end
  (* ---- the outermost call: removeable, unlock, remove ---- *)
  | PEnd =>
      with_m (fun i k =>
        let r := k_rec k in
        let rm := if fill_top o then is_nil (r_EFQ r) && is_nil (r_FEQ r) && r_full r else r_full r && all_empty r in
        let s1 := unlock_rcd s i false in
        let th1 := w_rm th rm PEnd in
        if skip && fill_top o && negb rm then go (w_pc th1 PDone) s1                 (* regression variant: early return *)
        else if t_batch th then go (w_pc th1 (if nocheck then PPreEnq else pre_next (g_n s))) s1
        else go (w_pc th1 (after_pre th1)) s1)
  (* ---- qthread_precond_launch -> qthread_check_feb_preconds(N) ---- *)
  | PPreHLock => if is_free (g_hlock s) then go (w_pc th PPreGet) (set_hlock s (Some me)) else None
  | PPreGet =>
      match g_hash s with
      | Some i => go (w_m th (Some i) PPreRLock) s
      | None => go (w_m th None PPreHUnl) (set_n s (n_seeW (g_n s) false))     (* m == NULL: the word is full now *)
      end
  | PPreRLock =>
      match t_m th with
      | Some i => match lock_rcd s me i with Some s1 => go (w_pc th PPreHUnl) s1 | None => None end
      | None => None
      end
  | PPreHUnl =>
      match t_m th with
      | Some _ => go (w_pc th PPreTest) (set_hlock s None)
      | None => let n' := n_pop (g_n s) in go (w_pc th (pre_next n')) (set_n (set_hlock s None) n')
      end
  | PPreTest =>
      with_m (fun i k =>
        if r_full (k_rec k) then go (w_pc th PPreRUnlF) (set_n (touch s k) (n_seeW (g_n s) (negb (full_now_raw s))))
        else go (w_pc th PPrePark) (touch s k))
  | PPrePark =>
      with_m (fun i k =>
        let r := k_rec k in
        go (w_batch th false PPreRUnlP) (put_rec s i k (mkRec (r_full r) (r_EFQ r) (r_FEQ r) (nascent_waiter :: r_FFQ r) (r_FFWQ r))))
  | PPreRUnlF =>
      match t_m th with
      | Some i => let n' := n_pop (g_n s) in go (w_pc th (pre_next n')) (set_n (unlock_rcd s i false) n')
      | None => None
      end
  | PPreRUnlP =>
      match t_m th with
      | Some i => go (w_pc th (after_pre th)) (unlock_rcd s i false)
      | None => None
      end
  | PPreU =>
      let n := g_n s in
      if g_u s then let n' := mkN (tl (n_rem n)) (n_parkedU n) (n_hasU n) (n_launch n) (n_seenW n) true (n_bad n) in
                    go (w_pc th (pre_next n')) (set_n s n')
      else go (w_batch th false (after_pre th)) (set_n s (mkN (n_rem n) true (n_hasU n) (n_launch n) (n_seenW n) (n_seenU n) (n_bad n)))
  | PPreEnq =>
      let n := g_n s in
      let all_seen := n_seenW n && (negb (n_hasU n) || n_seenU n) && is_nil (n_rem n) in
      go (w_batch th false (after_pre th))
         (set_n s (mkN (n_rem n) (n_parkedU n) (n_hasU n) (S (n_launch n)) (n_seenW n) (n_seenU n) (n_bad n || negb all_seen)))
  | PRmHLock => if is_free (g_hlock s) then go (w_pc th PRmGet) (set_hlock s (Some me)) else None
  | PRmGet =>
      match g_hash s with
      | Some i => go (w_m th (Some i) PRmRLock) s
      | None => go (w_m th None PRmHUnl) s
      end
  | PRmRLock =>
      match t_m th with
      | Some i => match lock_rcd s me i with Some s1 => go (w_pc th PRmChk) s1 | None => None end
      | None => None
      end
  | PRmChk =>
      with_m (fun i k =>
        let r := k_rec k in
        if all_empty r && r_full r then go (w_pc th PRmHUnl) (set_hash (touch s k) None)
        else go (w_m th None PRmHUnl) (unlock_rcd s i false))
  | PRmHUnl => go (w_pc th (match t_m th with Some _ => PRmFin | None => PDone end)) (set_hlock s None)
  | PRmFin => match t_m th with Some i => go (w_pc th PDone) (unlock_rcd s i true) | None => None end
  end.

Definition mstep := mstep_gen false false.         (* src/feb.c as it is *)
Definition mstep_skip := mstep_gen true false.     (* regression variant: seeded change C06-3 / C06-1 (launch skipped when not removeable) *)
Definition mstep_nocheck := mstep_gen false true.  (* regression variant: the batch is enqueued without the re-check *)

(* ---------- initial states: the word w is empty, N sits on its FFQ as a nascent waiter ---------- *)
Inductive ikind := IPre1          (* N has (or has left) the one word w *)
                 | IPre2F         (* N has w, then u; u is full at the start, the environment may empty it *)
                 | IPre2E.        (* ... u is empty at the start, the environment may fill it *)
Definition v0 : Z := 5.
Definition first_pc (o : op) : pc := match o with OReadXX _ => PXX | _ => PHLock end.
Definition init_thr (o : op) : thr := mkT o (first_pc o) None None None None false false false.
Definition idle_thr : thr := mkT OStatus PDone None None None None false false false.
Definition irec : rec := mkRec false [] [] [nascent_waiter] [].
Definition init_nas (k : ikind) : nas :=
  match k with
  | IPre1 => mkN [PW] false false 0 false false false
  | _ => mkN [PW; PU] false true 0 false false false
  end.
Definition minit (k : ikind) (oa ob : op) : gst :=
  mkG v0 (Some 0%nat) None [mkK None irec false] false (init_thr oa) (init_thr ob) idle_thr
      (match k with IPre2F => true | _ => false end) (match k with IPre1 => 0%nat | _ => 1%nat end) (init_nas k).

Definition finished (th : thr) : bool := match t_pc th with PDone => true | _ => false end.
Definition res_of (th : thr) : res := if finished th then t_res th else None.
Definition hashed (s : gst) : option rec :=
  match g_hash s with Some i => match get_rcd s i with Some k => Some (k_rec k) | None => None end | None => None end.
Definition full_now (s : gst) : bool := match hashed s with Some r => r_full r | None => true end.

(* ---------- where N is ---------- *)
Definition b2n (b : bool) : nat := if b then 1%nat else 0%nat.
Definition on_w (s : gst) : nat :=
  match hashed s with Some r => length (filter (fun w => w_nascent w) (waiters_of r)) | None => O end.
Definition on_w_ffq (s : gst) : nat :=
  match hashed s with Some r => length (filter (fun w => w_nascent w) (r_FFQ r)) | None => O end.
(* N is in exactly one place: on a list of the table's record of w, parked on u, in the batch of a running call, or launched *)
Definition n_places (s : gst) : nat :=
  (on_w s + b2n (n_parkedU (g_n s)) + b2n (t_batch (g_t0 s)) + b2n (t_batch (g_t1 s)) + n_launch (g_n s))%nat.

(* the three C06 statements as state predicates *)
(* (1) N is enqueued only when its walk has seen every precondition word full (each at the moment the walk examined it: the
       monitor [n_bad] compares what the walk saw with the state of the word at that step), and nothing remains to be checked *)
Definition launch_ok (s : gst) : bool :=
  negb (n_bad (g_n s)) &&
  (Nat.eqb (n_launch (g_n s)) 0 || (n_seenW (g_n s) && (negb (n_hasU (g_n s)) || n_seenU (g_n s)) && is_nil (n_rem (g_n s)))).
(* (2) at most once *)
Definition once_ok (s : gst) : bool := Nat.leb (n_launch (g_n s)) 1.
(* holds in EVERY reachable state: (1), (2), and N is never dropped or duplicated *)
Definition inv_ok (s : gst) : bool := launch_ok s && once_ok s && Nat.eqb (n_places s) 1.
(* (3) in a final state N is launched, or parked on the FFQ of w while w is empty, or parked on u while u is empty *)
Definition nascent_final_ok (s : gst) : bool :=
  (Nat.eqb (n_launch (g_n s)) 1 && Nat.eqb (on_w s) 0 && negb (n_parkedU (g_n s))) ||
  (Nat.eqb (n_launch (g_n s)) 0 && Nat.eqb (on_w_ffq s) 1 && Nat.eqb (on_w s) 1 && negb (full_now s) && negb (n_parkedU (g_n s))) ||
  (Nat.eqb (n_launch (g_n s)) 0 && Nat.eqb (on_w s) 0 && n_parkedU (g_n s) && negb (g_u s)).

(* structure, as Micro3.settled *)
Definition on_lists (r : option rec) (t : N) : bool :=
  match r with Some r => existsb (fun w => N.eqb (w_tid w) t && negb (w_nascent w)) (waiters_of r) | None => false end.
Definition settled (s : gst) : bool :=
  (finished (g_t0 s) || t_blk (g_t0 s)) && (finished (g_t1 s) || t_blk (g_t1 s)) &&
  is_free (g_hlock s) && forallb (fun r => is_free (k_lock r)) (g_heap s) && negb (g_uaf s) &&
  match g_hash s with
  | Some i => match get_rcd s i with Some k => negb (k_freed k) && negb (all_empty (k_rec k) && r_full (k_rec k)) | None => false end
  | None => true
  end &&
  (negb (t_blk (g_t0 s)) || on_lists (hashed s) 0) && (negb (t_blk (g_t1 s)) || on_lists (hashed s) 1) &&
  negb (t_batch (g_t0 s)) && negb (t_batch (g_t1 s)).
Definition cond_holds (s : gst) (th : thr) : bool := enabled (mkCell (full_now s) (g_word s)) (cop_of (t_op th)).
Definition no_lost_wakeup (s : gst) : bool :=
  (negb (t_blk (g_t0 s)) || negb (cond_holds s (g_t0 s))) && (negb (t_blk (g_t1 s)) || negb (cond_holds s (g_t1 s))).
Definition good_final (s : gst) : bool := settled s && no_lost_wakeup s && nascent_final_ok s.
