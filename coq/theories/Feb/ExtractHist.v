From Coq Require Import List ZArith NArith.
From QV Require Import Cell.Spec Feb.History.
Require Extraction.
Require Import ExtrOcamlBasic.
Extraction Language OCaml.
Extraction "../ocaml/gen/c02hist_model.ml" decide accepts check_lin hrun_b completed pending atomic enabled.
