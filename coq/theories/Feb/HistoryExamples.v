(* Non-vacuity of the theorems about the history acceptor (Feb/History.v): concrete histories with real overlap. *)
From Coq Require Import List ZArith NArith Bool.
Import ListNotations.
From QV Require Import Cell.Spec Feb.History Feb.HistoryProofs Feb.HistoryComplete.
Local Open Scope N_scope.

Definition op (i : N) (o : cop) (nb : bool) (inv : N) (ret : option N) (out : outcome) : hop := mkHop i o nb inv ret out.

(* word initially empty (value 5): two producers and two consumers overlap, one writeEF_nb fails while the word is full,
   a readFF with a NULL destination waits through the whole run *)
Definition h_ok : list hop :=
  [ op 1 (CWriteEF (Some 11%Z)) false 2 (Some 3) (ODone (Some RNone));
    op 2 (CWriteEF (Some 12%Z)) false 4 (Some 9) (ODone (Some RNone));
    op 3 CReadFE false 1 (Some 8) (ODone (Some (RVal 11%Z)));
    op 4 CReadFE false 10 (Some 13) (ODone (Some (RVal 12%Z)));
    op 5 (CWriteEF (Some 13%Z)) true 5 (Some 6) OFail;
    op 6 CReadFF false 0 (Some 7) (ODone None);
    op 7 CStatus false 14 (Some 15) (ODone (Some (RBit false))) ].

Example accepted_history : accepts 1000 (mkCell false 5%Z) h_ok (mkCell false 12%Z) = true.
Proof. vm_compute. reflexivity. Qed.

(* the same run, but the second consumer claims to have received the first value again: no linearisation *)
Definition h_dup : list hop :=
  [ op 1 (CWriteEF (Some 11%Z)) false 2 (Some 3) (ODone (Some RNone));
    op 2 (CWriteEF (Some 12%Z)) false 4 (Some 9) (ODone (Some RNone));
    op 3 CReadFE false 1 (Some 8) (ODone (Some (RVal 11%Z)));
    op 4 CReadFE false 10 (Some 13) (ODone (Some (RVal 11%Z))) ].

Example rejected_history : decide 1000 (mkCell false 5%Z) h_dup (mkCell false 12%Z) = Reject.
Proof. vm_compute. reflexivity. Qed.
Example rejected_history_unexplained : ~ explained (mkCell false 5%Z) h_dup (mkCell false 12%Z).
Proof. apply (reject_complete 1000). exact rejected_history. Qed.

(* a lost wake-up: the writer returned, the word is full, the reader that was invoked before is still blocked *)
Definition h_lost : list hop :=
  [ op 1 CReadFF false 0 None (ODone None);
    op 2 (CWriteEF (Some 11%Z)) false 1 (Some 2) (ODone (Some RNone)) ].

Example lost_wakeup_is_rejected : decide 1000 (mkCell false 5%Z) h_lost (mkCell true 11%Z) = Reject.
Proof. vm_compute. reflexivity. Qed.
Example lost_wakeup_by_theorem : accepts 1000 (mkCell false 5%Z) h_lost (mkCell true 11%Z) = false.
Proof. apply (lost_wakeup_rejected _ _ _ _ (op 1 CReadFF false 0 None (ODone None))); [left; reflexivity|reflexivity|reflexivity]. Qed.
(* ... whereas a reader still blocked on a word that ended empty is fine *)
Example blocked_on_empty_accepted :
  accepts 1000 (mkCell false 5%Z) [ op 1 CReadFF false 0 None (ODone None); op 2 CEmpty false 1 (Some 2) (ODone (Some RNone)) ] (mkCell false 5%Z) = true.
Proof. vm_compute. reflexivity. Qed.
