(* Micro-step model of src/feb.c for TWO tasks on ONE word (DESIGN C01 "Extended (micro-step)").
   Each API call is its sequence of shared accesses in the non LOCK_FREE_FEBS build:
     lock stripe; hash lookup (and insert of a fresh record where the code does that); lock record; unlock stripe;
     plain read / write of the word; test of m->full; gotlock_fill / gotlock_empty (under the record lock);
     unlock record; qthread_FEB_remove (lock stripe; lookup + re-check + remove; unlock stripe).
   The record-absent fast paths are as in the code (since /repo eba51ae): writeF, writeFF, readFF, readFF_nb access the word
   inside the stripe critical section when the lookup finds no record, and purge_to stores before unlocking when it
   inserted the record itself.  The access order before that commit (word touched AFTER the stripe lock was dropped, with
   no lock held) is kept as [mstep_old]: it is not atomic (MicroProofs.micro_atomic_old_refuted).
   With two tasks a waiter list holds at most the other task, which is then blocked and cannot race; the body of
   gotlock_fill / gotlock_empty is therefore one step (it is executed under the record lock).
   Exhaustively searched (ocaml/c01micro_driver.ml), proved atomic for all pairs (MicroProofs.micro_atomic_pairs) and
   replayed on the real code with a targeted baton (harness/c/c01_micro.c) by ./check C01. *)
From Coq Require Import List ZArith NArith Bool.
Import ListNotations.
From QV Require Import Cell.Spec Feb.Model Feb.Proofs.

Definition DONE : nat := 99.
Record thr := mkT { t_op : op; t_pc : nat; t_m : bool; t_rm : bool; t_res : option (code * option Z); t_blk : bool }.
Record mstate := mkM { m_word : Z; m_rec : option rec; m_stripe : option N; m_rlock : option N; m_t0 : thr; m_t1 : thr }.

Definition get_thr (s : mstate) (t : N) : thr := if N.eqb t 0 then m_t0 s else m_t1 s.
Definition set_thr (s : mstate) (t : N) (x : thr) : mstate :=
  if N.eqb t 0 then mkM (m_word s) (m_rec s) (m_stripe s) (m_rlock s) x (m_t1 s)
  else mkM (m_word s) (m_rec s) (m_stripe s) (m_rlock s) (m_t0 s) x.
Definition set_word (s : mstate) (v : Z) := mkM v (m_rec s) (m_stripe s) (m_rlock s) (m_t0 s) (m_t1 s).
Definition set_rec (s : mstate) (r : option rec) := mkM (m_word s) r (m_stripe s) (m_rlock s) (m_t0 s) (m_t1 s).
Definition set_stripe (s : mstate) (l : option N) := mkM (m_word s) (m_rec s) l (m_rlock s) (m_t0 s) (m_t1 s).
Definition set_rlock (s : mstate) (l : option N) := mkM (m_word s) (m_rec s) (m_stripe s) l (m_t0 s) (m_t1 s).
Definition is_free (l : option N) : bool := match l with None => true | Some _ => false end.

Definition with_pc (th : thr) (pc : nat) := mkT (t_op th) pc (t_m th) (t_rm th) (t_res th) (t_blk th).
Definition with_res (th : thr) (c : code) (v : option Z) (pc : nat) := mkT (t_op th) pc (t_m th) (t_rm th) (Some (c, v)) (t_blk th).

(* a released waiter returns from its call with the delivered value *)
Fixpoint apply_rels (s : mstate) (rs : list rel) : mstate :=
  match rs with
  | [] => s
  | (t, _, v) :: rs' =>
      let th := get_thr s t in
      apply_rels (set_thr s t (mkT (t_op th) DONE (t_m th) (t_rm th) (Some (OK, v)) false)) rs'
  end.

(* record the lookup creates when the word has none (qthread_addrstat_new gives full = 1; empty / purge_to set full = 0 and
   forget the pointer: m = NULL) *)
Definition creates (o : op) : option (bool * bool) :=       (* (initial full, keeps m) *)
  match o with
  | OEmpty | OPurge _ => Some (false, false)
  | OWriteEF _ | OReadFE _ | OReadFE_nb _ => Some (true, true)
  | _ => None
  end.

Definition do_gotlock (s : mstate) (me : N) (th : thr) (fill : bool) : option mstate :=
  match m_rec s with
  | None => None
  | Some r =>
      match (if fill then gotlock_fill r (m_word s) None else gotlock_empty r (m_word s) None) with
      | None => None
      | Some wr =>
          let s1 := apply_rels (set_rec (set_word s (wr_val wr)) (wr_rec wr)) (wr_rel wr) in
          Some (set_thr s1 me (mkT (t_op th) 20 (t_m th) (wr_rm wr) (t_res th) false))
      end
  end.

Definition block_on (s : mstate) (me : N) (th : thr) (r' : rec) : option mstate :=
  (* enqueue + qthread_back_to_master; the worker drops the record lock after the switch *)
  Some (set_thr (set_rlock (set_rec s (Some r')) None) me (mkT (t_op th) (t_pc th) (t_m th) (t_rm th) None true)).

Definition full_now (s : mstate) : bool := match m_rec s with Some r => r_full r | None => true end.
Definition rec_now (s : mstate) : rec := match m_rec s with Some r => r | None => new_rec end.

(* [fx] = true: the code as it is (eba51ae): the record-absent fast paths of writeF / writeFF / readFF / readFF_nb, and the
   store of purge_to when it inserted the record itself, are performed inside the stripe critical section (at the lookup);
   [fx] = false: the old order *)
Definition fast_access (o : op) (s : mstate) (th : thr) : option (mstate * thr) :=
  match o with
  | OWriteF w | OWriteFF w => Some (set_word s (stored w (m_word s)), mkT o 3 false false (Some (OK, None)) false)
  | OReadFF d | OReadFF_nb d => Some (s, mkT o 3 false false (Some (OK, deliver d (m_word s))) false)
  | _ => None
  end.

Definition mstep_gen (fx : bool) (s : mstate) (me : N) : option mstate :=
  let th := get_thr s me in
  if t_blk th then None else
  let o := t_op th in
  let pc := t_pc th in
  let go th' s' := Some (set_thr s' me th') in
  match o, pc with
  | _, 99 => None
  (* ---- readXX: one plain read, no lock *)
  | OReadXX d, _ => go (with_res th OK (deliver d (m_word s)) DONE) s
  (* ---- status: everything inside the stripe critical section *)
  | OStatus, 0 => if is_free (m_stripe s) then go (with_pc th 1) (set_stripe s (Some me)) else None
  | OStatus, 1 => if is_free (m_rlock s) || negb (match m_rec s with Some _ => true | None => false end)
                  then go (with_res th OK (Some (Z.b2z (full_now s))) 2) s else None
  | OStatus, _ => go (with_pc th DONE) (set_stripe s None)
  (* ---- common prologue *)
  | _, 0 => if is_free (m_stripe s) then go (with_pc th 1) (set_stripe s (Some me)) else None
  | _, 1 =>
      match m_rec s with
      | Some _ => go (mkT o 2 true false (t_res th) false) s
      | None =>
          match creates o with
          | Some (f, keep) =>
              let s1 := set_rec s (Some (mkRec f [] [] [] [])) in
              match o with
              | OPurge w => if fx then go (mkT o 3 false false (Some (OK, None)) false) (set_word s1 (stored w (m_word s)))
                            else go (mkT o 3 false false (t_res th) false) s1
              | _ => go (mkT o (if keep then 2 else 3) keep false (t_res th) false) s1
              end
          | None =>
              match (if fx then fast_access o s th else None) with
              | Some (s1, th1) => go th1 s1
              | None => go (mkT o 3 false false (t_res th) false) s
              end
          end
      end
  | _, 2 => if is_free (m_rlock s) then go (with_pc th 3) (set_rlock s (Some me)) else None
  | _, 3 => go (with_pc th 4) (set_stripe s None)
  (* ---- epilogue: unlock the record, then qthread_FEB_remove when flagged *)
  | _, 20 => go (with_pc th (if t_rm th then 30 else DONE)) (set_rlock s None)
  | _, 30 => if is_free (m_stripe s) then go (with_pc th 31) (set_stripe s (Some me)) else None
  | _, 31 =>
      match m_rec s with
      | None => go (with_pc th 32) s
      | Some r => if is_free (m_rlock s)
                  then go (with_pc th 32) (if all_empty r && r_full r then set_rec s None else s)
                  else None
      end
  | _, 32 => go (with_pc th DONE) (set_stripe s None)
  (* ---- gotlock bodies *)
  | _, 10 => do_gotlock s me th true
  | _, 11 => do_gotlock s me th false
  (* ---- bodies *)
  | OEmpty, 4 => if t_m th then do_gotlock s me (with_res th OK None 4) false else go (with_res th OK None DONE) s
  | OFill, 4 => if t_m th then do_gotlock s me (with_res th OK None 4) true else go (with_res th OK None DONE) s
  | OWriteF w, 4 => if fx && negb (t_m th) then go (with_pc th DONE) s
                    else go (with_res th OK None (if t_m th then 10 else DONE)) (set_word s (stored w (m_word s)))
  | OPurge w, 4 => if fx && negb (t_m th) then go (with_pc th DONE) s
                   else go (with_res th OK None (if t_m th then 11 else DONE)) (set_word s (stored w (m_word s)))
  | OWriteEF w, 4 =>
      let r := rec_now s in
      if r_full r then block_on s me th (mkRec (r_full r) (mkW me w DNull false :: r_EFQ r) (r_FEQ r) (r_FFQ r) (r_FFWQ r))
      else go (with_pc th 5) s
  | OWriteEF_nb w, 4 =>
      if negb (t_m th) then go (with_res th OPFAIL None DONE) s
      else if full_now s then go (with_res th OPFAIL None DONE) (set_rlock s None)
      else go (with_pc th 5) s
  | (OWriteEF w | OWriteEF_nb w), 5 => go (with_res th OK None 10) (set_word s (stored w (m_word s)))
  | OWriteFF w, 4 =>
      if negb (t_m th) then (if fx then go (with_pc th DONE) s else go (with_res th OK None DONE) (set_word s (stored w (m_word s))))
      else let r := rec_now s in
           if negb (r_full r) then block_on s me th (mkRec (r_full r) (r_EFQ r) (r_FEQ r) (r_FFQ r) (mkW me w DNull false :: r_FFWQ r))
           else go (with_pc th 6) s
  | OWriteFF w, 6 => go (with_res th OK None 20) (set_word s (stored w (m_word s)))
  | OReadFF d, 4 =>
      if negb (t_m th) then (if fx then go (with_pc th DONE) s else go (with_res th OK (deliver d (m_word s)) DONE) s)
      else let r := rec_now s in
           if negb (r_full r) then block_on s me th (mkRec (r_full r) (r_EFQ r) (r_FEQ r) (mkW me None d false :: r_FFQ r) (r_FFWQ r))
           else go (with_pc th 6) s
  | OReadFF_nb d, 4 =>
      if negb (t_m th) then (if fx then go (with_pc th DONE) s else go (with_res th OK (deliver d (m_word s)) DONE) s)
      else if negb (full_now s) then go (with_res th OPFAIL None DONE) (set_rlock s None)
      else go (with_pc th 6) s
  | (OReadFF d | OReadFF_nb d), 6 => go (with_res th OK (deliver d (m_word s)) 20) s
  | OReadFE d, 4 =>
      let r := rec_now s in
      if negb (r_full r) then block_on s me th (mkRec (r_full r) (r_EFQ r) (mkW me None d false :: r_FEQ r) (r_FFQ r) (r_FFWQ r))
      else go (with_pc th 7) s
  | OReadFE_nb d, 4 =>
      if negb (full_now s) then go (with_res th OPFAIL None DONE) (set_rlock s None) else go (with_pc th 7) s
  | (OReadFE d | OReadFE_nb d), 7 => go (with_res th OK (deliver d (m_word s)) 11) s
  | _, _ => None
  end.

Definition mstep := mstep_gen true.           (* the code as it is *)
Definition mstep_old := mstep_gen false.      (* access order before eba51ae (regression model) *)

Definition init_thr (o : op) : thr := mkT o 0 false false None false.
(* initial word state: no record (= full), or a record that says empty *)
Definition minit (present_empty : bool) (v : Z) (oa ob : op) : mstate :=
  mkM v (if present_empty then Some (mkRec false [] [] [] []) else None) None None (init_thr oa) (init_thr ob).

Fixpoint mrun (s : mstate) (sched : list N) : option mstate :=
  match sched with
  | [] => Some s
  | t :: l => match mstep s t with Some s' => mrun s' l | None => None end
  end.

Definition finished (th : thr) : bool := Nat.eqb (t_pc th) DONE.
(* nothing can move any more *)
Definition mfinal (s : mstate) : bool :=
  match mstep s 0, mstep s 1 with None, None => true | _, _ => false end.

(* ---------------- what two atomic operations can produce ---------------- *)
Definition res := option (code * option Z).        (* None = the call did not return (blocked) *)
Definition outcome := (res * res * bool * Z)%type.

Definition app1 (c : cell) (o : op) : option (cell * (code * option Z)) :=
  match atomic c (cop_of o) with
  | Some (c1, r) => Some (c1, (OK, out_of (dest_of o) r))
  | None => if is_nb o then Some (c, (OPFAIL, None)) else None
  end.
(* oa first; an operation that has to wait is retried after the other one *)
Definition seq2 (c : cell) (oa ob : op) : res * res * cell :=
  match app1 c oa with
  | Some (c1, ra) =>
      match app1 c1 ob with Some (c2, rb) => (Some ra, Some rb, c2) | None => (Some ra, None, c1) end
  | None =>
      match app1 c ob with
      | Some (c1, rb) => match app1 c1 oa with Some (c2, ra) => (Some ra, Some rb, c2) | None => (None, Some rb, c1) end
      | None => (None, None, c)
      end
  end.

Definition oz_eqb (x y : option Z) : bool :=
  match x, y with Some a, Some b => Z.eqb a b | None, None => true | _, _ => false end.
Definition code_eqb (x y : code) : bool := match x, y with OK, OK | OPFAIL, OPFAIL => true | _, _ => false end.
Definition res_eqb (x y : res) : bool :=
  match x, y with
  | Some (c, v), Some (c', v') => code_eqb c c' && oz_eqb v v'
  | None, None => true
  | _, _ => false
  end.
Definition outcome_of (s : mstate) : outcome :=
  ((if finished (m_t0 s) then t_res (m_t0 s) else None), (if finished (m_t1 s) then t_res (m_t1 s) else None), full_now s, m_word s).

Definition explained (c0 : cell) (oa ob : op) (out : outcome) : bool :=
  let '(ra, rb, f, w) := out in
  let '(xa, xb, c1) := seq2 c0 oa ob in
  let '(yb, ya, c2) := seq2 c0 ob oa in
  (res_eqb ra xa && res_eqb rb xb && Bool.eqb f (c_full c1) && Z.eqb w (c_val c1)) ||
  (res_eqb ra ya && res_eqb rb yb && Bool.eqb f (c_full c2) && Z.eqb w (c_val c2)).

(* a final state is fine when every task returned or is blocked (no task stuck on a lock) and the outcome is explained *)
Definition good_final (present_empty : bool) (v : Z) (oa ob : op) (s : mstate) : bool :=
  (finished (m_t0 s) || t_blk (m_t0 s)) && (finished (m_t1 s) || t_blk (m_t1 s)) &&
  explained (mkCell (negb present_empty) v) oa ob (outcome_of s).
