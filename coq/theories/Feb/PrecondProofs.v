(* C06: preconditioned tasks on top of the FEB model (qthread_check_feb_preconds, qthread_precond_launch, qthread_spawn). *)
From Coq Require Import List ZArith NArith Bool Lia.
Import ListNotations.
From QV Require Import Cell.Spec Feb.Model Feb.Proofs.

Definition is_full (febs : list (N * rec)) (a : N) : bool := full_of (lookup a febs).

Lemma is_full_update_park febs a r k b :
  lookup a febs = Some r ->
  is_full (update a (mkRec (r_full r) (r_EFQ r) (r_FEQ r) (mkW k None DNull true :: r_FFQ r) (r_FFWQ r)) febs) b = is_full febs b.
Proof.
  intros E. unfold is_full. destruct (N.eq_dec a b) as [<-|Hn].
  - rewrite lookup_update_eq, E. reflexivity.
  - rewrite lookup_update_neq by assumption. reflexivity.
Qed.

(* the walk of qthread_check_feb_preconds: it consumes exactly a prefix of words that are full now, and either
   finishes or parks the task (once) on the FFQ of the first word that is empty now *)
Theorem check_walk_sound febs k rem febs' rem' :
  check_walk febs k rem = (febs', rem') ->
  exists seen, rem = seen ++ rem' /\ Forall (fun a => is_full febs a = true) seen /\
    (forall b, is_full febs' b = is_full febs b) /\
    match rem' with
    | [] => febs' = febs
    | a :: _ => is_full febs a = false /\
                exists r, lookup a febs = Some r /\
                  lookup a febs' = Some (mkRec false (r_EFQ r) (r_FEQ r) (mkW k None DNull true :: r_FFQ r) (r_FFWQ r)) /\
                  (forall b, b <> a -> lookup b febs' = lookup b febs)
    end.
Proof.
  revert febs' rem'. induction rem as [|a rem IH]; intros febs' rem' H; simpl in H.
  - inversion H; subst. exists []. repeat split; auto.
  - destruct (lookup a febs) as [r|] eqn:E.
    + destruct (r_full r) eqn:F.
      * destruct (IH _ _ H) as (seen & -> & Fs & Hf & Hm). exists (a :: seen). split; [reflexivity|].
        split; [constructor; [unfold is_full; rewrite E; exact F | exact Fs] |]. split; assumption.
      * inversion H; subst. exists []. split; [reflexivity|]. split; [constructor|].
        split; [intros b; pose proof (is_full_update_park febs a r k b E) as P; rewrite F in P; exact P|].
        split; [unfold is_full; rewrite E; exact F|].
        exists r. split; [exact E|]. split; [rewrite lookup_update_eq; reflexivity|].
        intros b Hb. apply lookup_update_neq. congruence.
    + destruct (IH _ _ H) as (seen & -> & Fs & Hf & Hm). exists (a :: seen). split; [reflexivity|].
      split; [constructor; [unfold is_full; rewrite E; reflexivity | exact Fs] |]. split; assumption.
Qed.

Lemma firstn_consumed {A} (seen rem' : list A) :
  firstn (length (seen ++ rem') - length rem') (seen ++ rem') = seen.
Proof.
  rewrite app_length, Nat.add_sub, firstn_app, Nat.sub_diag, firstn_all. simpl. apply app_nil_r.
Qed.

Definition info_of (s : state) (k : N) : pinfo := match lookup k (st_pre s) with Some i => i | None => no_pinfo end.

(* precond_safe / precond_live at one check (spawn or re-check): progress only over words that are full now (these are
   what the history variable p_seen records); enqueue (p_enq + 1) iff nothing remains; otherwise parked on one word that
   is empty now; full bits, memory and the other tasks' entries untouched *)
Theorem recheck_safe s k s' ok :
  check_preconds s k = (s', ok) ->
  exists seen rem' info',
    p_rem (info_of s k) = seen ++ rem' /\ Forall (fun a => is_full (st_febs s) a = true) seen /\
    lookup k (st_pre s') = Some info' /\ p_all info' = p_all (info_of s k) /\ p_rem info' = rem' /\
    p_seen info' = p_seen (info_of s k) ++ seen /\
    p_enq info' = (if ok then S (p_enq (info_of s k)) else p_enq (info_of s k)) /\ ok = is_nil rem' /\
    (forall k', k' <> k -> lookup k' (st_pre s') = lookup k' (st_pre s)) /\
    (forall b, is_full (st_febs s') b = is_full (st_febs s) b) /\ st_mem s' = st_mem s /\
    match rem' with
    | [] => st_febs s' = st_febs s
    | a :: _ => is_full (st_febs s) a = false /\
                exists r, lookup a (st_febs s) = Some r /\
                  lookup a (st_febs s') = Some (mkRec false (r_EFQ r) (r_FEQ r) (mkW k None DNull true :: r_FFQ r) (r_FFWQ r)) /\
                  (forall b, b <> a -> lookup b (st_febs s') = lookup b (st_febs s))
    end.
Proof.
  unfold check_preconds. fold (info_of s k).
  destruct (check_walk (st_febs s) k (p_rem (info_of s k))) as [febs' rem'] eqn:E. intros H. inversion H; subst. clear H.
  destruct (check_walk_sound _ _ _ _ _ E) as (seen & Hs & Fs & Hf & Hm).
  exists seen, rem'. eexists. split; [exact Hs|]. split; [exact Fs|]. simpl.
  split; [apply lookup_update_eq|]. simpl. split; [reflexivity|]. split; [reflexivity|].
  split; [rewrite Hs, firstn_consumed; reflexivity|]. split; [reflexivity|]. split; [reflexivity|].
  split; [intros k' Hk; apply lookup_update_neq; congruence|]. split; [exact Hf|]. split; [reflexivity|].
  destruct rem' as [|a r']; exact Hm.
Qed.

(* precond_safe, spawn side: qthread_spawn hands the task to a ready queue only if the check saw every
   precondition word full *)
Theorem spawn_safe s t k pcs s' evs :
  step s t (GSpawn k pcs) = (s', evs) -> In (Enq k) evs ->
  Forall (fun a => is_full (st_febs s) a = true) pcs /\ p_rem (info_of s' k) = [].
Proof.
  unfold step. destruct (is_blocked s t); [intros H; inversion H; subst; intros [H1|[]]; discriminate|].
  destruct (is_blocked s k || has_key k (st_pre s) || N.eqb k t); [intros H; inversion H; subst; intros [H1|[]]; discriminate|].
  set (s1 := mkSt (st_mem s) (st_febs s) (update k (mkP (rev pcs) (rev pcs) [] 0) (st_pre s))).
  destruct (check_preconds s1 k) as [s2 ok] eqn:E. intros H. inversion H; subst. clear H.
  destruct (recheck_safe _ _ _ _ E) as (seen & rem' & info' & Hs & Fs & Hl & _ & Hr & _ & _ & Hok & _).
  assert (Hi : info_of s1 k = mkP (rev pcs) (rev pcs) [] 0) by (unfold info_of, s1; simpl; rewrite lookup_update_eq; reflexivity).
  rewrite Hi in Hs. simpl in Hs.
  destruct ok; simpl; [|intros [H|[]]; discriminate]. intros _.
  destruct rem'; [|discriminate]. rewrite app_nil_r in Hs. subst seen. split.
  - rewrite Forall_forall in *. intros a Ha. apply (Fs a). apply in_rev in Ha. exact Ha.
  - unfold info_of. rewrite Hl. exact Hr.
Qed.

(* re-checks never change a full bit or a memory word: they only park *)
Lemma launch_full b : forall s a, is_full (st_febs (fst (launch s b))) a = is_full (st_febs s) a.
Proof.
  induction b as [|k b IH]; intros s a; simpl; [reflexivity|].
  destruct (check_preconds s k) as [s1 ok] eqn:E1.
  destruct (recheck_safe _ _ _ _ E1) as (_ & _ & _ & _ & _ & _ & _ & _ & _ & _ & _ & _ & Hf1 & _).
  specialize (IH s1 a). destruct (launch s1 b) as [s2 ev]. simpl in *. rewrite IH. apply Hf1.
Qed.

(* every Enq emitted by qthread_precond_launch is for a task of the batch whose re-check returned "all full":
   its remaining list is empty afterwards *)
Theorem launch_safe b : forall s s' evs k,
  launch s b = (s', evs) -> In (Enq k) evs -> In k b.
Proof.
  induction b as [|k0 b IH]; intros s s' evs k H; simpl in H.
  - inversion H; subst. intros [].
  - destruct (check_preconds s k0) as [s1 ok] eqn:E1. destruct (launch s1 b) as [s2 ev] eqn:E2. inversion H; subst. clear H.
    intros Hin. destruct ok; [destruct Hin as [Hk|Hin]; [inversion Hk; left; reflexivity|]|];
      right; exact (IH _ _ _ _ E2 Hin).
Qed.

(* C06 precond_safe for one step of the whole model: an Enq k emitted by an FEB call on word a means that k was a
   nascent waiter released by this very call (it sat in the batch) *)
Theorem step_launch_safe s t a o s' evs k :
  step s t (GWord a o) = (s', evs) -> In (Enq k) evs ->
  exists wr, word_step (lookup a (st_febs s)) (memget a s) t o = Some wr /\ In k (rel_batch (wr_rel wr)).
Proof.
  unfold step. destruct (is_blocked s t); [intros H; inversion H; subst; intros [H1|[]]; discriminate|].
  destruct (word_step (lookup a (st_febs s)) (memget a s) t o) as [wr|]; [|intros H; inversion H; subst; intros [H1|[]]; discriminate].
  match goal with |- context [launch ?s1 ?b] => destruct (launch s1 b) as [s2 ev2] eqn:EL end.
  intros H. inversion H; subst. clear H. intros Hin. exists wr. split; [reflexivity|].
  apply in_app_or in Hin. destruct Hin as [Hin|Hin].
  - destruct (wr_code wr); simpl in Hin; [destruct Hin as [Hin|[]]; discriminate | contradiction].
  - apply in_app_or in Hin. destruct Hin as [Hin|Hin].
    + exfalso. unfold rel_events in Hin. apply in_flat_map in Hin. destruct Hin as ([[t' n] v'] & _ & Hx).
      destruct n; simpl in Hx; [contradiction | destruct Hx as [Hx|[]]; discriminate].
    + eapply launch_safe; eassumption.
Qed.

(* non-vacuity: a task with two preconditions, one empty at spawn: parked, then launched by the fill *)
Example precond_example :
  let l := [(0%N, GWord 1%N OEmpty); (0%N, GSpawn 100%N [1%N; 2%N]); (1%N, GWord 1%N (OWriteF (Some 7%Z)))] in
  snd (run_ops init l) = [[Ret 0%N OK None]; [Ret 0%N OK None]; [Ret 1%N OK None; Enq 100%N]].
Proof. vm_compute. reflexivity. Qed.
