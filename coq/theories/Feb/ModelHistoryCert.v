(* Extension R (C01/C02): the certificate checker of Feb/History.v is complete on histories whose completed calls have
   distinct ids, and the histories of model runs are such: every run of the op-atomic FEB model has a certificate that the
   proved checker check_lin accepts (the search of `decide` is only a way to find one). *)
From Coq Require Import List ZArith NArith Bool Lia Permutation Sorted.
Import ListNotations.
From QV Require Import Cell.Spec Feb.Model Feb.Proofs Feb.History Feb.HistoryProofs Feb.HistoryComplete
  Feb.ModelHistoryDefs Feb.ModelHistory.
Local Open Scope N_scope.

(* ---------- completeness of check_lin ---------- *)
Lemma take_in x : forall pool, In x pool -> NoDup (map h_id pool) ->
  exists rest, take (h_id x) pool = Some (x, rest) /\ Permutation pool (x :: rest).
Proof.
  induction pool as [|y pool IH]; simpl; intros I ND; [contradiction|].
  inversion ND as [|? ? NI ND']; subst.
  destruct (N.eqb (h_id y) (h_id x)) eqn:E.
  - apply N.eqb_eq in E. destruct I as [->|I].
    + exists pool. split; [reflexivity|apply Permutation_refl].
    + exfalso. apply NI. rewrite E. apply in_map. exact I.
  - destruct I as [->|I]; [rewrite N.eqb_refl in E; discriminate|].
    destruct (IH I ND') as (rest & T & P). rewrite T. exists (y :: rest). split; [reflexivity|].
    eapply perm_trans; [apply perm_skip; exact P|apply perm_swap].
Qed.

Lemma pick_complete : forall l pool, NoDup (map h_id pool) -> Permutation l pool -> pick (map h_id l) pool = Some l.
Proof.
  induction l as [|x l IH]; intros pool ND P; simpl.
  - apply Permutation_nil in P. subst. reflexivity.
  - assert (I : In x pool) by (eapply Permutation_in; [exact P|left; reflexivity]).
    destruct (take_in x pool I ND) as (rest & T & Pr). rewrite T.
    assert (P2 : Permutation l rest).
    { eapply Permutation_cons_inv. eapply perm_trans; [exact P|exact Pr]. }
    assert (ND2 : NoDup (map h_id rest)).
    { pose proof (Permutation_NoDup (Permutation_map h_id Pr) ND) as H. inversion H; assumption. }
    rewrite (IH rest ND2 P2). reflexivity.
Qed.

Lemma rt_check_complete l : StronglySorted rt_compat l -> Forall (fun x => is_done x = true) l ->
  forall m, Forall (fun x => forall r, h_ret x = Some r -> m <= r) l -> rt_check m l = true.
Proof.
  induction 1 as [|x l S IH F]; intros D m M; simpl; [reflexivity|].
  inversion D as [|? ? Dx Dl]; subst. inversion M as [|? ? Mx Ml]; subst.
  unfold is_done in Dx. destruct (h_ret x) as [r|] eqn:R; [|discriminate].
  apply andb_true_iff. split; [apply N.leb_le; apply Mx; reflexivity|].
  apply IH; [exact Dl|]. rewrite Forall_forall in *. intros y Hy ry Ry.
  specialize (Ml y Hy ry Ry). specialize (F y Hy). unfold rt_compat, rt_before in F. rewrite Ry in F. lia.
Qed.

Theorem explained_has_certificate c0 h cfin :
  NoDup (map h_id (completed h)) -> explained c0 h cfin -> exists w, check_lin c0 h cfin w = true.
Proof.
  intros ND (l & (P & S & R) & Q). exists (map h_id l). unfold check_lin.
  rewrite (pick_complete l (completed h) ND P).
  assert (D : Forall (fun x => is_done x = true) l).
  { rewrite Forall_forall. intros x Hx. apply (Permutation_in _ P) in Hx. unfold completed in Hx. apply filter_In in Hx. apply Hx. }
  rewrite (rt_check_complete l S D 0) by (rewrite Forall_forall; intros; lia).
  rewrite (hrun_b_complete _ _ _ R), cell_eqb_refl. simpl.
  unfold quiescent_b. apply forallb_forall. intros p Hp. rewrite (Q p Hp). reflexivity.
Qed.

(* ---------- the ids of a model history are distinct (they are the invocation tickets) ---------- *)
Definition ids (b : bst) : list N := map h_id (b_done b) ++ map (fun tp => h_id (snd tp)) (b_pend b).
Definition idinv (b : bst) : Prop := NoDup (ids b) /\ Forall (fun i => i < b_clk b) (ids b).

Lemma take_tid_perm t : forall pend p rest, take_tid t pend = Some (p, rest) -> Permutation pend ((t, p) :: rest).
Proof.
  induction pend as [|[t' q] pend IH]; simpl; intros p rest H; [discriminate|].
  destruct (N.eqb t t') eqn:E.
  - apply N.eqb_eq in E. subst t'. inversion H; subst. apply Permutation_refl.
  - destruct (take_tid t pend) as [[q' r']|] eqn:T; [|discriminate]. inversion H; subst.
    eapply perm_trans; [apply perm_skip; apply IH; reflexivity|apply perm_swap].
Qed.

Lemma idinv_mono b clk' : idinv b -> b_clk b <= clk' -> idinv (mkB clk' (b_done b) (b_pend b)).
Proof.
  intros [ND F] L. split; [exact ND|]. unfold ids in *. simpl. eapply Forall_impl; [|exact F]. intros i Hi. simpl in *. lia.
Qed.

Lemma idinv_event b e : idinv b -> idinv (on_event b e) /\ b_clk b <= b_clk (on_event b e).
Proof.
  intros I. destruct e as [t c v| | | |]; simpl; try (split; [exact I|lia]).
  destruct (take_tid t (b_pend b)) as [[p rest]|] eqn:T; [|split; [exact I|lia]].
  pose proof (take_tid_perm t _ _ _ T) as Pm. destruct I as [ND F]. simpl. split; [|lia].
  assert (Pi : Permutation (ids b) (map h_id (b_done b ++ [finish p (b_clk b) c v]) ++ map (fun tp => h_id (snd tp)) rest)).
  { unfold ids. rewrite map_app. simpl. rewrite <- app_assoc. apply Permutation_app_head.
    apply (Permutation_map (fun tp : N * hop => h_id (snd tp))) in Pm. exact Pm. }
  split.
  - unfold ids. simpl. eapply Permutation_NoDup; [exact Pi|exact ND].
  - unfold ids. simpl. rewrite Forall_forall in *. intros i Hi.
    assert (Hi' : In i (ids b)) by (eapply Permutation_in; [apply Permutation_sym; exact Pi|exact Hi]).
    specialize (F i Hi'). lia.
Qed.

Lemma idinv_events evs : forall b, idinv b -> idinv (on_events b evs) /\ b_clk b <= b_clk (on_events b evs).
Proof.
  induction evs as [|e evs IH]; intros b I; simpl; [split; [exact I|lia]|].
  destruct (idinv_event b e I) as [I1 L1]. destruct (IH _ I1) as [I2 L2]. unfold on_events in *. simpl. split; [exact I2|lia].
Qed.

Lemma idinv_bstep a s b t g evs : idinv b -> idinv (bstep a s b t g evs).
Proof.
  intros I. assert (TICK : idinv (mkB (N.succ (b_clk b)) (b_done b) (b_pend b))) by (apply idinv_mono; [exact I|simpl; lia]).
  unfold bstep. destruct g as [a' o|k pcs]; [|exact TICK].
  destruct (N.eqb a' a && negb (is_blocked s t)); [|exact TICK].
  apply idinv_events. destruct I as [ND F]. split.
  - unfold ids in *. simpl.
    apply (Permutation_NoDup (l := b_clk b :: (map h_id (b_done b) ++ map (fun tp => h_id (snd tp)) (b_pend b)))).
    + apply Permutation_middle.
    + constructor; [|exact ND]. intros Hin. rewrite Forall_forall in F. specialize (F _ Hin). lia.
  - unfold ids in *. simpl. apply Forall_app. rewrite Forall_app in F. destruct F as [F1 F2]. split.
    + eapply Forall_impl; [|exact F1]. intros i Hi. simpl in Hi. lia.
    + constructor; [simpl; lia|]. eapply Forall_impl; [|exact F2]. intros i Hi. simpl in Hi. lia.
Qed.

Lemma idinv_build a l : forall s b, idinv b -> idinv (snd (build a s b l)).
Proof.
  induction l as [|[t g] l IH]; intros s b I; simpl; [exact I|].
  destruct (step s t g) as [s1 ev]. apply IH. apply idinv_bstep. exact I.
Qed.

Lemma nodup_map_filter {A B} (f : A -> B) (p : A -> bool) l : NoDup (map f l) -> NoDup (map f (filter p l)).
Proof.
  induction l as [|x l IH]; simpl; intros H; [constructor|]. inversion H as [|? ? NI ND]; subst.
  destruct (p x); simpl; [|apply IH; exact ND]. constructor; [|apply IH; exact ND].
  intros I. apply NI. apply in_map_iff in I. destruct I as (y & E & Hy). apply filter_In in Hy. rewrite <- E. apply in_map. apply Hy.
Qed.

Lemma hist_ids_distinct s0 l a : NoDup (map h_id (completed (hist_from s0 l a))).
Proof.
  unfold completed. apply nodup_map_filter. unfold hist_from, hist_of_bst.
  assert (I0 : idinv b0) by (split; simpl; constructor).
  destruct (idinv_build a l s0 b0 I0) as [ND _]. set (b := snd (build a s0 b0 l)) in *.
  eapply Permutation_NoDup; [apply Permutation_sym; apply Permutation_map; apply sort_inv_perm|].
  unfold ids in ND. rewrite map_app, map_map. exact ND.
Qed.

(* every run of the model has a certificate (an order of the completed calls, by id) that check_lin accepts *)
Theorem model_runs_have_certificate s0 l a :
  st_febs s0 = [] -> exists w, check_lin (cell_at s0 a) (hist_from s0 l a) (cell_at (state_after s0 l) a) w = true.
Proof.
  intros E. apply explained_has_certificate; [apply hist_ids_distinct|apply model_runs_are_explained_from; exact E].
Qed.
