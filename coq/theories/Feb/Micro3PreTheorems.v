(* C06 micro-step layer with a nascent waiter (extension K part 2): the theorems. *)
From Coq Require Import List ZArith NArith Bool.
From QV Require Import Cell.Spec Feb.Model Feb.Proofs Feb.Micro3Pre Feb.Micro3PreProofs.
From QV Require Import Feb.Micro3PreSweep_IPre1 Feb.Micro3PreSweep_IPre2F Feb.Micro3PreSweep_IPre2E
                       Feb.Micro3PreSweepSkip_IPre1 Feb.Micro3PreSweepSkip_IPre2F Feb.Micro3PreSweepSkip_IPre2E.
Import ListNotations.
Local Open Scope N_scope.

Lemma cur_all k : sweep mstep inv_ok good_final no_skip k = true.
Proof. destruct k; [exact cur_IPre1 | exact cur_IPre2F | exact cur_IPre2E]. Qed.
Lemma skipvar_all k : sweep mstep_skip inv_ok good_final skip_class k = true.
Proof. destruct k; [exact skipvar_IPre1 | exact skipvar_IPre2F | exact skipvar_IPre2E]. Qed.

Lemma pre_all k oa ob : In oa (ops_of va) -> In ob (ops_of vb) -> pre_holds mstep inv_ok good_final k oa ob.
Proof. intros Ha Hb. exact (sweep_sound _ _ _ _ k oa ob (cur_all k) Ha Hb eq_refl). Qed.

Lemma inv_parts s : inv_ok s = true -> launch_ok s = true /\ once_ok s = true /\ n_places s = 1%nat.
Proof.
  unfold inv_ok. intro H. apply andb_prop in H. destruct H as [H H3]. apply andb_prop in H. destruct H as [H1 H2].
  repeat split; try assumption. apply Nat.eqb_eq, H3.
Qed.

(* (1) in every interleaving, in every state it reaches: N was enqueued only if its walk has seen every one of its precondition
       words full (each at the step at which the walk examined it) and no word remains; the monitor never fired *)
Theorem micro3pre_launch_only_after_all_full : forall k oa ob,
  In oa (ops_of va) -> In ob (ops_of vb) ->
  forall sched s, is_sched sched -> run_with mstep (minit k oa ob) sched = Some s ->
    n_bad (g_n s) = false /\
    (n_launch (g_n s) <> 0%nat -> n_seenW (g_n s) = true /\ (n_hasU (g_n s) = true -> n_seenU (g_n s) = true) /\ n_rem (g_n s) = []).
Proof.
  intros k oa ob Ha Hb sched s Hs Hr. destruct (pre_all k oa ob Ha Hb) as [I _]. specialize (I sched s Hs Hr).
  destruct (inv_parts s I) as (L & _ & _). unfold launch_ok in L. apply andb_prop in L. destruct L as [L1 L2].
  split; [destruct (n_bad (g_n s)); [discriminate | reflexivity]|].
  intro NZ. apply orb_prop in L2. destruct L2 as [L2|L2]; [apply Nat.eqb_eq in L2; contradiction|].
  apply andb_prop in L2. destruct L2 as [L2 L3]. apply andb_prop in L2. destruct L2 as [L2 L4].
  repeat split; [exact L2 | | destruct (n_rem (g_n s)); [reflexivity | discriminate]].
  intro HU. rewrite HU in L4. exact L4.
Qed.

(* (2) ... and at most once *)
Theorem micro3pre_launched_at_most_once : forall k oa ob,
  In oa (ops_of va) -> In ob (ops_of vb) ->
  forall sched s, is_sched sched -> run_with mstep (minit k oa ob) sched = Some s -> (n_launch (g_n s) <= 1)%nat.
Proof.
  intros k oa ob Ha Hb sched s Hs Hr. destruct (pre_all k oa ob Ha Hb) as [I _]. specialize (I sched s Hs Hr).
  destruct (inv_parts s I) as (_ & O & _). apply Nat.leb_le, O.
Qed.

(* N is never dropped and never duplicated: in every reachable state it is in exactly one place *)
Theorem micro3pre_conserved : forall k oa ob,
  In oa (ops_of va) -> In ob (ops_of vb) ->
  forall sched s, is_sched sched -> run_with mstep (minit k oa ob) sched = Some s -> n_places s = 1%nat.
Proof.
  intros k oa ob Ha Hb sched s Hs Hr. destruct (pre_all k oa ob Ha Hb) as [I _]. specialize (I sched s Hs Hr).
  destruct (inv_parts s I) as (_ & _ & P). exact P.
Qed.

(* (3) in every state where neither call can move any more *)
Theorem micro3pre_no_lost_nascent : forall k oa ob,
  In oa (ops_of va) -> In ob (ops_of vb) ->
  forall sched s, is_sched sched -> run_with mstep (minit k oa ob) sched = Some s -> final_with mstep s ->
    nascent_final_ok s = true /\ settled s = true /\ no_lost_wakeup s = true.
Proof.
  intros k oa ob Ha Hb sched s Hs Hr Hf. destruct (pre_all k oa ob Ha Hb) as [_ F]. specialize (F sched s Hs Hr Hf).
  unfold good_final in F. apply andb_prop in F. destruct F as [F F3]. apply andb_prop in F. destruct F as [F1 F2]. auto.
Qed.

Theorem micro3pre_runs_bounded : forall k oa ob,
  In oa (ops_of va) -> In ob (ops_of vb) ->
  forall sched s, is_sched sched -> run_with mstep (minit k oa ob) sched = Some s -> N.of_nat (length sched) <= BOUND.
Proof. intros k oa ob Ha Hb. exact (sweep_bounded _ _ _ _ k oa ob (cur_all k) Ha Hb eq_refl). Qed.

(* ================= regression variant: seeded change C06-3 (and C06-1) ================= *)
Definition sched_of (l : list nat) : list N := map N.of_nat l.
Lemma is_sched_of l : forallb (fun t => Nat.leb t 2) l = true -> is_sched (sched_of l).
Proof.
  unfold is_sched, sched_of. induction l as [|t l IH]; cbn [forallb map]; intro H; constructor.
  - apply andb_prop in H. destruct H as [H _]. destruct t as [|[|[|t]]]; [left | right; left | right; right | discriminate]; reflexivity.
  - apply IH. apply andb_prop in H. apply H.
Qed.
Fixpoint greedy (stp : gst -> N -> option gst) (pref : list N) (fuel : nat) (s : gst) : list N :=
  match fuel with
  | O => []
  | S f => match pref with
           | t :: p => match stp s t with Some s' => t :: greedy stp p f s' | None => greedy stp p f s end
           | [] => match stp s 0 with
                   | Some s' => 0 :: greedy stp [] f s'
                   | None => match stp s 1 with Some s' => 1 :: greedy stp [] f s' | None => [] end
                   end
           end
  end.
Lemma is_sched_b l : forallb (fun t => N.leb t 2) l = true -> is_sched l.
Proof.
  unfold is_sched. induction l as [|t l IH]; cbn [forallb]; intro H; constructor.
  - apply andb_prop in H. destruct H as [H _].
    destruct t as [|p]; [left; reflexivity|]. destruct p as [p|p|]; [destruct p; discriminate H | | right; left; reflexivity].
    destruct p as [p|p|]; [destruct p; discriminate H | destruct p; discriminate H | right; right; reflexivity].
  - apply IH. apply andb_prop in H. apply H.
Qed.
(* N is parked on the empty word.  Task 1: readFE blocks on FEQ.  Task 0: fill marks the word full, takes N off FFQ into its batch,
   releases the blocked readFE (the word is empty again: not removeable), unlocks the record -- and returns: N is neither
   re-checked, nor re-parked, nor enqueued *)
Definition skip_schedule : list nat := [1;1;1;1;1;1;1;0;0;0;0;0;0;0;0;0;0;0;0;0;0]%nat.
Lemma skip_witness :
  exists s, run_with mstep_skip (minit IPre1 OFill (OReadFE DOwn)) (sched_of skip_schedule) = Some s /\
            final_with mstep_skip s /\ good_final s = false /\ nascent_final_ok s = false /\
            n_launch (g_n s) = 0%nat /\ on_w s = 0%nat /\ t_batch (g_t0 s) = true /\
            res_of (g_t0 s) = Some (OK, None) /\ res_of (g_t1 s) = Some (OK, Some 5%Z) /\ full_now s = false.
Proof. eexists. vm_compute. repeat split; reflexivity. Qed.
Theorem micro3pre_skip_variant_refuted : ~ pre_holds mstep_skip inv_ok good_final IPre1 OFill (OReadFE DOwn).
Proof.
  intros [_ H]. destruct skip_witness as (s & R & F & B & _).
  pose proof (H (sched_of skip_schedule) s (is_sched_of skip_schedule eq_refl) R F) as G. congruence.
Qed.
(* outside the class "a fill-like call and a blocking readFE" the variant behaves *)
Theorem micro3pre_skip_variant_partial : forall k oa ob,
  In oa (ops_of va) -> In ob (ops_of vb) -> skip_class k oa ob = false -> pre_holds mstep_skip inv_ok good_final k oa ob.
Proof. intros k oa ob Ha Hb Hc. exact (sweep_sound _ _ _ _ k oa ob (skipvar_all k) Ha Hb Hc). Qed.
(* the same pair, the code as it is: N is re-parked on the word, which is empty again *)
Example skip_pair_now :
  exists sched s, is_sched sched /\ run_with mstep (minit IPre1 OFill (OReadFE DOwn)) sched = Some s /\
            final_with mstep s /\ good_final s = true /\ n_launch (g_n s) = 0%nat /\ on_w_ffq s = 1%nat /\ full_now s = false /\
            res_of (g_t1 s) = Some (OK, Some 5%Z).
Proof.
  exists (greedy mstep [1;1;1;1;1;1;1] 200 (minit IPre1 OFill (OReadFE DOwn))). eexists.
  split; [apply is_sched_b; vm_compute; reflexivity|]. vm_compute. repeat split; reflexivity.
Qed.

(* regression variant: the batch is enqueued without the re-check: N starts although the word was emptied again *)
Definition nocheck_prefix : list N := [0;0;0;0;0;0;0;0;0;0;1;1;1;1;1;1;1].
Definition nocheck_schedule : list N := greedy mstep_nocheck nocheck_prefix 200 (minit IPre1 OFill OEmpty).
Lemma nocheck_witness :
  exists s, run_with mstep_nocheck (minit IPre1 OFill OEmpty) nocheck_schedule = Some s /\
            final_with mstep_nocheck s /\ n_bad (g_n s) = true /\ n_launch (g_n s) = 1%nat /\ n_seenW (g_n s) = false.
Proof. eexists. vm_compute. repeat split; reflexivity. Qed.
Theorem micro3pre_nocheck_variant_refuted : ~ pre_holds mstep_nocheck inv_ok good_final IPre1 OFill OEmpty.
Proof.
  intros [H _]. destruct nocheck_witness as (s & R & _ & B & _).
  assert (Hs : is_sched nocheck_schedule) by (apply is_sched_b; vm_compute; reflexivity).
  pose proof (H nocheck_schedule s Hs R) as G.
  unfold inv_ok, launch_ok in G. rewrite B in G. discriminate.
Qed.

(* ================= non-vacuity ================= *)
(* the launch raced by the second call: fill collects N and drops the record lock; empty re-empties the word; the re-check of
   fill's launch then finds the word empty and parks N again -- it is not launched *)
Example relaunch_raced :
  exists sched s, is_sched sched /\ run_with mstep (minit IPre1 OFill OEmpty) sched = Some s /\
            final_with mstep s /\ good_final s = true /\ n_launch (g_n s) = 0%nat /\ on_w_ffq s = 1%nat /\ full_now s = false.
Proof.
  exists (greedy mstep nocheck_prefix 200 (minit IPre1 OFill OEmpty)). eexists.
  split; [apply is_sched_b; vm_compute; reflexivity|]. vm_compute. repeat split; reflexivity.
Qed.
(* two words: w is seen full, u is empty: N parks on u; the environment fills u: launched exactly once, both words seen *)
Example two_words_launch :
  exists sched s, is_sched sched /\ run_with mstep (minit IPre2E OFill OStatus) sched = Some s /\ final_with mstep s /\
                  good_final s = true /\ n_launch (g_n s) = 1%nat /\ n_seenW (g_n s) = true /\ n_seenU (g_n s) = true /\ g_flips s = 0%nat.
Proof.
  exists (greedy mstep [] 200 (minit IPre2E OFill OStatus) ++ [2]). eexists.
  split; [apply is_sched_b; vm_compute; reflexivity|]. vm_compute. repeat split; reflexivity.
Qed.
Lemma skip_class_count :
  length (filter (fun x => x) (flat_map (fun k => flat_map (fun oa => map (fun ob => skip_class k oa ob) (ops_of vb)) (ops_of va)) ikinds)) = 24%nat.
Proof. vm_compute. reflexivity. Qed.
