(* Executable concrete model of src/feb.c (C01, C02, C06), non LOCK_FREE_FEBS configuration.
   Mirrors the code branch by branch at op-atomic granularity:
   - addrstat record {full; EFQ; FEQ; FFQ; FFWQ}, LIFO waiter lists, absent record = full / no waiters
   - qthread_gotlock_fill_inner / qthread_gotlock_empty_inner (mutual recursion, fuelled)
   - removal rule (removeable flag computed under the record lock, re-check in qthread_FEB_remove)
   - nascent (precondition) waiters diverted to a batch, qthread_precond_launch after the unlock,
     qthread_check_feb_preconds walk, qthread_spawn's step 5
   - external pthread callers go through the blocker table (qthread_feb_blocker_func/_thread),
     which is a parameter here (read from the source by tools/c01_srcfacts.py).
   Definitions only (no proofs) so that the extracted model still runs when a proof breaks. *)
From Coq Require Import List ZArith NArith Bool.
Import ListNotations.
From QV Require Import Cell.Spec.

(* destination of a read: own buffer / NULL / the word itself (dest == src) *)
Inductive dmode := DOwn | DNull | DSame.

Inductive op :=
| OReadFE (d : dmode) | OReadFE_nb (d : dmode) | OReadFF (d : dmode) | OReadFF_nb (d : dmode) | OReadXX (d : dmode)
| OWriteEF (s : wsrc) | OWriteEF_nb (s : wsrc) | OWriteF (s : wsrc) | OWriteFF (s : wsrc)
| OFill | OEmpty | OPurge (s : wsrc) | OStatus.

(* qthread_lock(a) = qthread_readFE(NULL, a); qthread_unlock(a) = qthread_fill(a)   (src/locks.c) *)
Definition OLock := OReadFE DNull.
Definition OUnlock := OFill.

Inductive code := OK | OPFAIL.
Inductive event :=
| Ret (t : N) (c : code) (v : option Z)   (* the pending call of t returns c; v = value stored into its own buffer *)
| Enq (k : N)                             (* precondition task k put on a ready queue *)
| Skip (t : N)                            (* ill-formed script step (t is blocked / k already spawned): ignored *)
| Bad                                     (* proxy table maps the call to a function of another shape *)
| Fuel.                                   (* out of fuel: excluded by every theorem, never hit by the correspondence *)

(* qthread_addrres_t: waiter, addr (source value of a writer / destination of a reader) *)
Record waiter := mkW { w_tid : N; w_src : wsrc; w_dest : dmode; w_nascent : bool }.
Record rec := mkRec { r_full : bool; r_EFQ : list waiter; r_FEQ : list waiter; r_FFQ : list waiter; r_FFWQ : list waiter }.

Definition new_rec := mkRec true [] [] [] [].      (* qthread_addrstat_new *)

(* one release: (tid, nascent?, value delivered into the waiter's buffer) *)
Definition rel := (N * bool * option Z)%type.

Definition deliver (d : dmode) (v : Z) : option Z := match d with DOwn => Some v | _ => None end.

(* while (m->FFWQ) { *maddr = *X->addr (unless same); schedule / batch } *)
Fixpoint drain_ffwq (q : list waiter) (v : Z) : Z * list rel :=
  match q with
  | [] => (v, [])
  | w :: q' => let v1 := stored (w_src w) v in
               let '(v2, rs) := drain_ffwq q' v1 in (v2, (w_tid w, w_nascent w, None) :: rs)
  end.
(* while (m->FFQ) { if (X->addr && X->addr != maddr) *X->addr = *maddr; schedule / batch } *)
Definition drain_ffq (q : list waiter) (v : Z) : list rel :=
  map (fun w => (w_tid w, w_nascent w, deliver (w_dest w) v)) q.

Fixpoint fill_inner (fuel : nat) (r : rec) (v : Z) {struct fuel} : option (rec * Z * list rel) :=
  match fuel with
  | O => None
  | S f =>
      let '(v1, rs1) := drain_ffwq (r_FFWQ r) v in
      let rs2 := drain_ffq (r_FFQ r) v1 in
      match r_FEQ r with
      | [] => Some (mkRec true (r_EFQ r) [] [] [], v1, rs1 ++ rs2)
      | w :: feq =>
          match empty_inner f (mkRec true (r_EFQ r) feq [] []) v1 with
          | None => None
          | Some (r', v', rs3) => Some (r', v', rs1 ++ rs2 ++ (w_tid w, false, deliver (w_dest w) v1) :: rs3)
          end
      end
  end
with empty_inner (fuel : nat) (r : rec) (v : Z) {struct fuel} : option (rec * Z * list rel) :=
  match fuel with
  | O => None
  | S f =>
      match r_EFQ r with
      | [] => Some (mkRec false [] (r_FEQ r) (r_FFQ r) (r_FFWQ r), v, [])
      | w :: efq =>
          let v1 := stored (w_src w) v in
          match fill_inner f (mkRec false efq (r_FEQ r) (r_FFQ r) (r_FFWQ r)) v1 with
          | None => None
          | Some (r', v', rs) => Some (r', v', (w_tid w, false, None) :: rs)
          end
      end
  end.

Definition fuel_of (r : rec) : nat := S (S (length (r_EFQ r) + length (r_FEQ r))).
Definition is_nil {A} (l : list A) : bool := match l with [] => true | _ => false end.
Definition all_empty (r : rec) : bool :=
  is_nil (r_EFQ r) && is_nil (r_FEQ r) && is_nil (r_FFQ r) && is_nil (r_FFWQ r).

(* result of an API call on one word.  wr_code = None: the caller was enqueued (blocks) *)
Record wres := mkWres { wr_rec : option rec; wr_val : Z; wr_code : option code; wr_out : option Z;
                        wr_rel : list rel; wr_rm : bool }.

(* qthread_gotlock_fill (recursive = 0): removeable = EFQ==NULL && FEQ==NULL && full==1 *)
Definition gotlock_fill (r : rec) (v : Z) (out : option Z) : option wres :=
  match fill_inner (fuel_of r) r v with
  | None => None
  | Some (r', v', rs) =>
      Some (mkWres (Some r') v' (Some OK) out rs (is_nil (r_EFQ r') && is_nil (r_FEQ r') && r_full r'))
  end.
(* qthread_gotlock_empty (recursive = 0): removeable = full==1 && all four queues NULL *)
Definition gotlock_empty (r : rec) (v : Z) (out : option Z) : option wres :=
  match empty_inner (fuel_of r) r v with
  | None => None
  | Some (r', v', rs) => Some (mkWres (Some r') v' (Some OK) out rs (r_full r' && all_empty r'))
  end.

Definition or_new (ro : option rec) : rec := match ro with Some r => r | None => new_rec end.
Definition wdone (ro : option rec) (v : Z) (c : code) (out : option Z) : option wres :=
  Some (mkWres ro v (Some c) out [] false).
Definition wblock (r : rec) (v : Z) : option wres := Some (mkWres (Some r) v None None [] false).

Definition word_step (ro : option rec) (v : Z) (t : N) (o : op) : option wres :=
  match o with
  | OEmpty =>
      match ro with
      | None => wdone (Some (mkRec false [] [] [] [])) v OK None
      | Some r => gotlock_empty r v None
      end
  | OFill =>
      match ro with
      | None => wdone None v OK None
      | Some r => gotlock_fill r v None
      end
  | OWriteF s =>
      match ro with
      | None => wdone None (stored s v) OK None
      | Some r => gotlock_fill r (stored s v) None
      end
  | OPurge s =>
      match ro with
      | None => wdone (Some (mkRec false [] [] [] [])) (stored s v) OK None
      | Some r => gotlock_empty r (stored s v) None
      end
  | OWriteEF s =>
      let r := or_new ro in
      if r_full r then wblock (mkRec (r_full r) (mkW t s DNull false :: r_EFQ r) (r_FEQ r) (r_FFQ r) (r_FFWQ r)) v
      else gotlock_fill r (stored s v) None
  | OWriteEF_nb s =>
      match ro with
      | None => wdone None v OPFAIL None
      | Some r => if r_full r then wdone ro v OPFAIL None else gotlock_fill r (stored s v) None
      end
  | OWriteFF s =>
      match ro with
      | None => wdone None (stored s v) OK None
      | Some r => if negb (r_full r)
                  then wblock (mkRec (r_full r) (r_EFQ r) (r_FEQ r) (r_FFQ r) (mkW t s DNull false :: r_FFWQ r)) v
                  else wdone ro (stored s v) OK None
      end
  | OReadFF d =>
      match ro with
      | None => wdone None v OK (deliver d v)
      | Some r => if negb (r_full r)
                  then wblock (mkRec (r_full r) (r_EFQ r) (r_FEQ r) (mkW t None d false :: r_FFQ r) (r_FFWQ r)) v
                  else wdone ro v OK (deliver d v)
      end
  | OReadFF_nb d =>
      match ro with
      | None => wdone None v OK (deliver d v)
      | Some r => if negb (r_full r) then wdone ro v OPFAIL None else wdone ro v OK (deliver d v)
      end
  | OReadFE d =>
      let r := or_new ro in
      if negb (r_full r)
      then wblock (mkRec (r_full r) (r_EFQ r) (mkW t None d false :: r_FEQ r) (r_FFQ r) (r_FFWQ r)) v
      else gotlock_empty r v (deliver d v)
  | OReadFE_nb d =>
      let r := or_new ro in
      if negb (r_full r) then wdone (Some r) v OPFAIL None else gotlock_empty r v (deliver d v)
  | OReadXX d => wdone ro v OK (deliver d v)
  | OStatus => wdone ro v OK (Some (Z.b2z (match ro with Some r => r_full r | None => true end)))
  end.

(* ---------------- multi-word state ---------------- *)
Section Assoc.
  Context {V : Type}.
  Fixpoint lookup (a : N) (l : list (N * V)) : option V :=
    match l with [] => None | (k, x) :: l' => if N.eqb a k then Some x else lookup a l' end.
  Fixpoint update (a : N) (x : V) (l : list (N * V)) : list (N * V) :=
    match l with
    | [] => [(a, x)]
    | (k, y) :: l' => if N.eqb a k then (k, x) :: l' else (k, y) :: update a x l'
    end.
  Definition remove (a : N) (l : list (N * V)) : list (N * V) :=
    filter (fun kv => negb (N.eqb a (fst kv))) l.
End Assoc.

(* st_pre: precondition tasks: k |-> p_rem = remaining precondition words in walking order
   (the C array is walked from index n down to 1; [] = all seen full, task handed to a ready queue).
   History variables (not read by any executable decision): p_all = the words given at the spawn,
   p_seen = the words a check of this task has seen full since the spawn, p_enq = how often it was enqueued. *)
Record pinfo := mkP { p_all : list N; p_rem : list N; p_seen : list N; p_enq : nat }.
Definition no_pinfo := mkP [] [] [] 0.
Record state := mkSt { st_mem : list (N * Z); st_febs : list (N * rec); st_pre : list (N * pinfo) }.
Definition init : state := mkSt [] [] [].
Definition memget (a : N) (s : state) : Z := match lookup a (st_mem s) with Some v => v | None => 0%Z end.

Definition waiters_of (r : rec) : list waiter := r_EFQ r ++ r_FEQ r ++ r_FFQ r ++ r_FFWQ r.
Definition blocked_tids (s : state) : list N :=
  flat_map (fun ar => map w_tid (waiters_of (snd ar))) (st_febs s).
Definition is_blocked (s : state) (t : N) : bool := existsb (N.eqb t) (blocked_tids s).

(* qthread_check_feb_preconds: count decremented only when the word is seen full; parks on the first empty one *)
Fixpoint check_walk (febs : list (N * rec)) (k : N) (rem : list N) : list (N * rec) * list N :=
  match rem with
  | [] => (febs, [])
  | a :: rem' =>
      match lookup a febs with
      | None => check_walk febs k rem'
      | Some r =>
          if r_full r then check_walk febs k rem'
          else (update a (mkRec (r_full r) (r_EFQ r) (r_FEQ r) (mkW k None DNull true :: r_FFQ r) (r_FFWQ r)) febs, rem)
      end
  end.
(* returns true when all preconditions were seen full (C returns 0) *)
Definition check_preconds (s : state) (k : N) : state * bool :=
  let info := match lookup k (st_pre s) with Some i => i | None => no_pinfo end in
  let rem := p_rem info in
  let '(febs', rem') := check_walk (st_febs s) k rem in
  let ok := is_nil rem' in
  let info' := mkP (p_all info) rem' (p_seen info ++ firstn (length rem - length rem') rem)
                   (if ok then S (p_enq info) else p_enq info) in
  (mkSt (st_mem s) febs' (update k info' (st_pre s)), ok).

(* qthread_precond_launch: re-check each batched task, enqueue on result 0 *)
Fixpoint launch (s : state) (batch : list N) : state * list event :=
  match batch with
  | [] => (s, [])
  | k :: b => let '(s1, ok) := check_preconds s k in
              let '(s2, ev) := launch s1 b in (s2, if ok then Enq k :: ev else ev)
  end.

(* qthread_FEB_remove: re-check under both locks *)
Definition feb_remove (s : state) (a : N) : state :=
  match lookup a (st_febs s) with
  | Some r => if all_empty r && r_full r then mkSt (st_mem s) (remove a (st_febs s)) (st_pre s) else s
  | None => s
  end.

Definition rel_events (rs : list rel) : list event :=
  flat_map (fun x : rel => match x with (t, nas, v) => if nas then [] else [Ret t OK v] end) rs.
Definition rel_batch (rs : list rel) : list N :=
  flat_map (fun x : rel => match x with (t, nas, v) => if nas then [t] else [] end) rs.

Inductive gop := GWord (a : N) (o : op) | GSpawn (k : N) (pcs : list N).

Definition has_key {V} (k : N) (l : list (N * V)) : bool := match lookup k l with Some _ => true | None => false end.

Definition step (s : state) (t : N) (g : gop) : state * list event :=
  if is_blocked s t then (s, [Skip t]) else
  match g with
  | GWord a o =>
      match word_step (lookup a (st_febs s)) (memget a s) t o with
      | None => (s, [Fuel])
      | Some wr =>
          let febs1 := match wr_rec wr with Some r => update a r (st_febs s) | None => st_febs s end in
          let s1 := mkSt (update a (wr_val wr) (st_mem s)) febs1 (st_pre s) in
          let '(s2, ev2) := launch s1 (rel_batch (wr_rel wr)) in
          let s3 := if wr_rm wr then feb_remove s2 a else s2 in
          (s3, (match wr_code wr with Some c => [Ret t c (wr_out wr)] | None => [] end)
                 ++ rel_events (wr_rel wr) ++ ev2)
      end
  | GSpawn k pcs =>
      (* qthread_spawn step 5: t->preconds = [n; a1..an]; enqueue iff the check returns 0 *)
      if is_blocked s k || has_key k (st_pre s) || N.eqb k t then (s, [Skip t]) else
      let s1 := mkSt (st_mem s) (st_febs s) (update k (mkP (rev pcs) (rev pcs) [] 0) (st_pre s)) in
      let '(s2, ok) := check_preconds s1 k in
      (s2, Ret t OK None :: (if ok then [Enq k] else []))
  end.

Fixpoint run_ops (s : state) (l : list (N * gop)) : state * list (list event) :=
  match l with
  | [] => (s, [])
  | (t, g) :: l' => let '(s1, ev) := step s t g in
                    let '(s2, evs) := run_ops s1 l' in (s2, ev :: evs)
  end.
Definition exec (l : list (N * gop)) : state := fst (run_ops init l).

(* ---------------- external pthread callers: the blocker table ---------------- *)
Inductive apiname :=
| A_readFE | A_readFE_nb | A_readFF | A_readFF_nb | A_writeEF | A_writeEF_nb | A_writeF | A_writeFF
| A_purge_to | A_fill | A_empty.
Inductive btype :=
| BT_PURGE | BT_WRITEEF | BT_WRITEEF_NB | BT_WRITEF | BT_WRITEFF | BT_READFF | BT_READFF_NB
| BT_READFE | BT_READFE_NB | BT_FILL | BT_EMPTY.

Definition api_eqb (x y : apiname) : bool :=
  match x, y with
  | A_readFE, A_readFE | A_readFE_nb, A_readFE_nb | A_readFF, A_readFF | A_readFF_nb, A_readFF_nb
  | A_writeEF, A_writeEF | A_writeEF_nb, A_writeEF_nb | A_writeF, A_writeF | A_writeFF, A_writeFF
  | A_purge_to, A_purge_to | A_fill, A_fill | A_empty, A_empty => true
  | _, _ => false
  end.
Definition bt_eqb (x y : btype) : bool :=
  match x, y with
  | BT_PURGE, BT_PURGE | BT_WRITEEF, BT_WRITEEF | BT_WRITEEF_NB, BT_WRITEEF_NB | BT_WRITEF, BT_WRITEF
  | BT_WRITEFF, BT_WRITEFF | BT_READFF, BT_READFF | BT_READFF_NB, BT_READFF_NB | BT_READFE, BT_READFE
  | BT_READFE_NB, BT_READFE_NB | BT_FILL, BT_FILL | BT_EMPTY, BT_EMPTY => true
  | _, _ => false
  end.
Definition all_apis : list apiname :=
  [A_readFE; A_readFE_nb; A_readFF; A_readFF_nb; A_writeEF; A_writeEF_nb; A_writeF; A_writeFF; A_purge_to; A_fill; A_empty].

Fixpoint alookup {K V} (eqb : K -> K -> bool) (k : K) (l : list (K * V)) : option V :=
  match l with [] => None | (k', v) :: l' => if eqb k k' then Some v else alookup eqb k l' end.

(* passes: API function -> blocker_type handed to qthread_feb_blocker_func when called off a qthread
   runs:   blocker_type -> API function called by qthread_feb_blocker_thread *)
Definition runs_as (passes : list (apiname * btype)) (runs : list (btype * apiname)) (f : apiname) : option apiname :=
  match alookup api_eqb f passes with
  | Some b => alookup bt_eqb b runs
  | None => None
  end.

Definition api_of (o : op) : option apiname :=
  match o with
  | OReadFE _ => Some A_readFE | OReadFE_nb _ => Some A_readFE_nb | OReadFF _ => Some A_readFF
  | OReadFF_nb _ => Some A_readFF_nb | OWriteEF _ => Some A_writeEF | OWriteEF_nb _ => Some A_writeEF_nb
  | OWriteF _ => Some A_writeF | OWriteFF _ => Some A_writeFF | OPurge _ => Some A_purge_to
  | OFill => Some A_fill | OEmpty => Some A_empty
  | OReadXX _ | OStatus => None              (* no shepherd test in these two: executed directly *)
  end.
(* the same arguments handed to another API function of the same shape *)
Definition retarget (o : op) (f : apiname) : option op :=
  match o, f with
  | (OReadFE d | OReadFE_nb d | OReadFF d | OReadFF_nb d), A_readFE => Some (OReadFE d)
  | (OReadFE d | OReadFE_nb d | OReadFF d | OReadFF_nb d), A_readFE_nb => Some (OReadFE_nb d)
  | (OReadFE d | OReadFE_nb d | OReadFF d | OReadFF_nb d), A_readFF => Some (OReadFF d)
  | (OReadFE d | OReadFE_nb d | OReadFF d | OReadFF_nb d), A_readFF_nb => Some (OReadFF_nb d)
  | (OWriteEF s | OWriteEF_nb s | OWriteF s | OWriteFF s | OPurge s), A_writeEF => Some (OWriteEF s)
  | (OWriteEF s | OWriteEF_nb s | OWriteF s | OWriteFF s | OPurge s), A_writeEF_nb => Some (OWriteEF_nb s)
  | (OWriteEF s | OWriteEF_nb s | OWriteF s | OWriteFF s | OPurge s), A_writeF => Some (OWriteF s)
  | (OWriteEF s | OWriteEF_nb s | OWriteF s | OWriteFF s | OPurge s), A_writeFF => Some (OWriteFF s)
  | (OWriteEF s | OWriteEF_nb s | OWriteF s | OWriteFF s | OPurge s), A_purge_to => Some (OPurge s)
  | (OFill | OEmpty), A_fill => Some OFill
  | (OFill | OEmpty), A_empty => Some OEmpty
  | _, _ => None
  end.
Definition ext_op (tbl : apiname -> option apiname) (o : op) : option op :=
  match api_of o with
  | None => Some o
  | Some f => match tbl f with Some f' => retarget o f' | None => None end
  end.
(* an API call issued by a non-qthread pthread: the forked proxy task performs the table's function;
   the pthread returns when the proxy does (t stands for both) *)
Definition step_ext (tbl : apiname -> option apiname) (s : state) (t : N) (a : N) (o : op) : state * list event :=
  match ext_op tbl o with
  | Some o' => step s t (GWord a o')
  | None => (s, [Bad])
  end.
