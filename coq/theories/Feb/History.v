(* C02 / C01, mode M4: acceptance of free-running FEB traces.
   A history of one word is a list of operations, each with the ticket drawn just before the call (h_inv) and the ticket
   drawn just after it returned (h_ret; None = the call never returned: the task is still blocked when the runtime is
   quiescent), the abstract cell operation (Cell/Spec.v) and what the caller observed.  Definitions only (executable,
   extracted by Feb/ExtractHist.v); the proofs are in Feb/HistoryProofs.v. *)
From Coq Require Import List ZArith NArith Bool Permutation Sorted.
Import ListNotations.
From QV Require Import Cell.Spec.
Local Open Scope N_scope.

(* what the caller saw: the call succeeded (observed result, None = not observable, e.g. a read into a NULL destination)
   or, for the _nb variants only, it reported QTHREAD_OPFAIL *)
Inductive outcome := ODone (obs : option cres) | OFail.

Record hop := mkHop { h_id : N; h_op : cop; h_nb : bool; h_inv : N; h_ret : option N; h_out : outcome }.

Definition is_done (x : hop) : bool := match h_ret x with Some _ => true | None => false end.
Definition completed (h : list hop) : list hop := filter is_done h.
Definition pending (h : list hop) : list hop := filter (fun x => negb (is_done x)) h.

(* ---------- the specification: linearisations of a history ---------- *)

(* x returned before y was invoked *)
Definition rt_before (x y : hop) : Prop := match h_ret x with Some r => r < h_inv y | None => False end.
(* x may be placed before y *)
Definition rt_compat (x y : hop) : Prop := ~ rt_before y x.

Definition cres_eqb (a b : cres) : bool :=
  match a, b with
  | RNone, RNone => true
  | RVal x, RVal y => Z.eqb x y
  | RBit x, RBit y => Bool.eqb x y
  | _, _ => false
  end.
Definition obs_ok (obs : option cres) (r : cres) : bool :=
  match obs with None => true | Some r' => cres_eqb r' r end.

(* the operations take effect one after the other: a completed call is enabled where it stands and the caller saw the
   spec's result; a failed non-blocking call stands where its blocking twin would have had to wait *)
Inductive hrun : cell -> list hop -> cell -> Prop :=
| hrun_nil c : hrun c [] c
| hrun_done c x l c1 r c2 obs :
    h_out x = ODone obs -> atomic c (h_op x) = Some (c1, r) -> obs_ok obs r = true -> hrun c1 l c2 -> hrun c (x :: l) c2
| hrun_fail c x l c2 :
    h_out x = OFail -> h_nb x = true -> atomic c (h_op x) = None -> hrun c l c2 -> hrun c (x :: l) c2.

(* l is a linearisation of the completed calls of h that starts in c0 and ends in cfin *)
Definition linearisation (c0 : cell) (h l : list hop) (cfin : cell) : Prop :=
  Permutation l (completed h) /\ StronglySorted rt_compat l /\ hrun c0 l cfin.

(* no call that is still pending could proceed in the final state *)
Definition quiescent_ok (h : list hop) (cfin : cell) : Prop :=
  forall p, In p (pending h) -> enabled cfin (h_op p) = false.

Definition explained (c0 : cell) (h : list hop) (cfin : cell) : Prop :=
  exists l, linearisation c0 h l cfin /\ quiescent_ok h cfin.

(* ---------- executable side ---------- *)

Definition cell_eqb (a b : cell) : bool := Bool.eqb (c_full a) (c_full b) && Z.eqb (c_val a) (c_val b).

Definition apply_op (c : cell) (x : hop) : option cell :=
  match h_out x with
  | ODone obs =>
      match atomic c (h_op x) with
      | Some (c1, r) => if obs_ok obs r then Some c1 else None
      | None => None
      end
  | OFail =>
      if h_nb x then match atomic c (h_op x) with None => Some c | Some _ => None end else None
  end.

Fixpoint hrun_b (c : cell) (l : list hop) : option cell :=
  match l with
  | [] => Some c
  | x :: l' => match apply_op c x with Some c1 => hrun_b c1 l' | None => None end
  end.

(* first element with the given id, and the list without it *)
Fixpoint take (i : N) (pool : list hop) : option (hop * list hop) :=
  match pool with
  | [] => None
  | x :: pool' =>
      if N.eqb (h_id x) i then Some (x, pool')
      else match take i pool' with Some (y, rest) => Some (y, x :: rest) | None => None end
  end.

(* the calls named by the witness, in its order; every call of the pool exactly once *)
Fixpoint pick (w : list N) (pool : list hop) : option (list hop) :=
  match w with
  | [] => match pool with [] => Some [] | _ => None end
  | i :: w' =>
      match take i pool with
      | Some (x, pool') => match pick w' pool' with Some l => Some (x :: l) | None => None end
      | None => None
      end
  end.

(* m = largest invocation ticket seen so far: nobody placed later may have returned before it *)
Fixpoint rt_check (m : N) (l : list hop) : bool :=
  match l with
  | [] => true
  | x :: l' =>
      match h_ret x with
      | Some r => (m <=? r) && rt_check (N.max m (h_inv x)) l'
      | None => false
      end
  end.

Definition quiescent_b (pend : list hop) (c : cell) : bool := forallb (fun p => negb (enabled c (h_op p))) pend.

(* the certificate checker: w is an order of the completed calls of h *)
Definition check_lin (c0 : cell) (h : list hop) (cfin : cell) (w : list N) : bool :=
  match pick w (completed h) with
  | Some l =>
      rt_check 0 l &&
      match hrun_b c0 l with Some c => cell_eqb c cfin | None => false end &&
      quiescent_b (pending h) cfin
  | None => false
  end.

(* ---------- the search (Wing & Gong with memoisation on (set of calls not yet linearised, cell)) ---------- *)

Definition key := (list N * cell)%type.
Fixpoint ids_eqb (a b : list N) : bool :=
  match a, b with
  | [], [] => true
  | x :: a', y :: b' => N.eqb x y && ids_eqb a' b'
  | _, _ => false
  end.
Definition key_eqb (a b : key) : bool := cell_eqb (snd a) (snd b) && ids_eqb (fst a) (fst b).
Definition mem_key (k : key) (seen : list key) : bool := existsb (key_eqb k) seen.

Inductive sres := Found (w : list N) | NotFound | NoFuel.

(* smallest return ticket among the calls not yet linearised *)
Fixpoint minret (l : list hop) : option N :=
  match l with
  | [] => None
  | x :: l' =>
      match h_ret x, minret l' with
      | Some r, Some m => Some (N.min r m)
      | Some r, None => Some r
      | None, m => m
      end
  end.
(* x may come next: nobody else returned before x was invoked *)
Definition cand (mr : option N) (x : hop) : bool := match mr with Some m => h_inv x <=? m | None => true end.

Section Search.
  Variable cfin : cell.
  Variable pend : list hop.

  Fixpoint search (fuel : nat) (c : cell) (rem : list hop) (seen : list key) {struct fuel} : sres * list key :=
    match fuel with
    | O => (NoFuel, seen)
    | S f =>
        match rem with
        | [] => if cell_eqb c cfin && quiescent_b pend c then (Found [], seen) else (NotFound, seen)
        | _ :: _ =>
            let k := (map h_id rem, c) in
            if mem_key k seen then (NotFound, seen) else
            let mr := minret rem in
            (fix try (pre post : list hop) (seen : list key) {struct post} : sres * list key :=
               match post with
               | [] => (NotFound, k :: seen)
               | x :: post' =>
                   if cand mr x then
                     match apply_op c x with
                     | Some c1 =>
                         match search f c1 (rev_append pre post') seen with
                         | (Found w, s) => (Found (h_id x :: w), s)
                         | (NoFuel, s) => (NoFuel, s)
                         | (NotFound, s) => try (x :: pre) post' s
                         end
                     | None => try (x :: pre) post' seen
                     end
                   else try (x :: pre) post' seen
               end) [] rem seen
        end
    end.
End Search.

Inductive verdict := Accept (w : list N) | Reject | Unknown | Bug.

(* ids must be distinct for the memo keys to identify sets of calls *)
Fixpoint nodup_ids (l : list N) : bool :=
  match l with [] => true | x :: l' => negb (existsb (N.eqb x) l') && nodup_ids l' end.

Definition decide (fuel : N) (c0 : cell) (h : list hop) (cfin : cell) : verdict :=
  if negb (nodup_ids (map h_id h)) then Bug else
  match fst (search cfin (pending h) (N.to_nat fuel) c0 (completed h) []) with
  | Found w => if check_lin c0 h cfin w then Accept w else Bug
  | NotFound => Reject
  | NoFuel => Unknown
  end.

Definition accepts (fuel : N) (c0 : cell) (h : list hop) (cfin : cell) : bool :=
  match decide fuel c0 h cfin with Accept _ => true | _ => false end.
