(* C02 / C01, mode M4: acceptance of free-running FEB traces.
   A history of one word is a list of operations, each with the ticket drawn just before the call (h_inv) and the ticket
   drawn just after it returned (h_ret; None = the call never returned: the task is still blocked when the runtime is
   quiescent), the abstract cell operation (Cell/Spec.v) and what the caller observed.  Definitions only (executable,
   extracted by Feb/ExtractHist.v); the proofs are in Feb/HistoryProofs.v. *)
From Coq Require Import List ZArith NArith Bool Permutation Sorted.
Import ListNotations.
From QV Require Import Cell.Spec.
Local Open Scope N_scope.

(* what the caller saw: the call succeeded (observed result, None = not observable, e.g. a read into a NULL destination)
   or, for the _nb variants only, it reported QTHREAD_OPFAIL *)
Inductive outcome := ODone (obs : option cres) | OFail.

Record hop := mkHop { h_id : N; h_op : cop; h_nb : bool; h_inv : N; h_ret : option N; h_out : outcome }.

Definition is_done (x : hop) : bool := match h_ret x with Some _ => true | None => false end.
Definition completed (h : list hop) : list hop := filter is_done h.
Definition pending (h : list hop) : list hop := filter (fun x => negb (is_done x)) h.

(* ---------- the specification: linearisations of a history ---------- *)

(* x returned before y was invoked *)
Definition rt_before (x y : hop) : Prop := match h_ret x with Some r => r < h_inv y | None => False end.
(* x may be placed before y *)
Definition rt_compat (x y : hop) : Prop := ~ rt_before y x.

Definition cres_eqb (a b : cres) : bool :=
  match a, b with
  | RNone, RNone => true
  | RVal x, RVal y => Z.eqb x y
  | RBit x, RBit y => Bool.eqb x y
  | _, _ => false
  end.
Definition obs_ok (obs : option cres) (r : cres) : bool :=
  match obs with None => true | Some r' => cres_eqb r' r end.

(* the operations take effect one after the other: a completed call is enabled where it stands and the caller saw the
   spec's result; a failed non-blocking call stands where its blocking twin would have had to wait *)
Inductive hrun : cell -> list hop -> cell -> Prop :=
| hrun_nil c : hrun c [] c
| hrun_done c x l c1 r c2 obs :
    h_out x = ODone obs -> atomic c (h_op x) = Some (c1, r) -> obs_ok obs r = true -> hrun c1 l c2 -> hrun c (x :: l) c2
| hrun_fail c x l c2 :
    h_out x = OFail -> h_nb x = true -> atomic c (h_op x) = None -> hrun c l c2 -> hrun c (x :: l) c2.

(* l is a linearisation of the completed calls of h that starts in c0 and ends in cfin *)
Definition linearisation (c0 : cell) (h l : list hop) (cfin : cell) : Prop :=
  Permutation l (completed h) /\ StronglySorted rt_compat l /\ hrun c0 l cfin.

(* no call that is still pending could proceed in the final state *)
Definition quiescent_ok (h : list hop) (cfin : cell) : Prop :=
  forall p, In p (pending h) -> enabled cfin (h_op p) = false.

Definition explained (c0 : cell) (h : list hop) (cfin : cell) : Prop :=
  exists l, linearisation c0 h l cfin /\ quiescent_ok h cfin.

(* ---------- executable side ---------- *)

Definition cell_eqb (a b : cell) : bool := Bool.eqb (c_full a) (c_full b) && Z.eqb (c_val a) (c_val b).

Definition apply_op (c : cell) (x : hop) : option cell :=
  match h_out x with
  | ODone obs =>
      match atomic c (h_op x) with
      | Some (c1, r) => if obs_ok obs r then Some c1 else None
      | None => None
      end
  | OFail =>
      if h_nb x then match atomic c (h_op x) with None => Some c | Some _ => None end else None
  end.

Fixpoint hrun_b (c : cell) (l : list hop) : option cell :=
  match l with
  | [] => Some c
  | x :: l' => match apply_op c x with Some c1 => hrun_b c1 l' | None => None end
  end.

(* first element with the given id, and the list without it *)
Fixpoint take (i : N) (pool : list hop) : option (hop * list hop) :=
  match pool with
  | [] => None
  | x :: pool' =>
      if N.eqb (h_id x) i then Some (x, pool')
      else match take i pool' with Some (y, rest) => Some (y, x :: rest) | None => None end
  end.

(* the calls named by the witness, in its order; every call of the pool exactly once *)
Fixpoint pick (w : list N) (pool : list hop) : option (list hop) :=
  match w with
  | [] => match pool with [] => Some [] | _ => None end
  | i :: w' =>
      match take i pool with
      | Some (x, pool') => match pick w' pool' with Some l => Some (x :: l) | None => None end
      | None => None
      end
  end.

(* m = largest invocation ticket seen so far: nobody placed later may have returned before it *)
Fixpoint rt_check (m : N) (l : list hop) : bool :=
  match l with
  | [] => true
  | x :: l' =>
      match h_ret x with
      | Some r => (m <=? r) && rt_check (N.max m (h_inv x)) l'
      | None => false
      end
  end.

Definition quiescent_b (pend : list hop) (c : cell) : bool := forallb (fun p => negb (enabled c (h_op p))) pend.

(* the certificate checker: w is an order of the completed calls of h *)
Definition check_lin (c0 : cell) (h : list hop) (cfin : cell) (w : list N) : bool :=
  match pick w (completed h) with
  | Some l =>
      rt_check 0 l &&
      match hrun_b c0 l with Some c => cell_eqb c cfin | None => false end &&
      quiescent_b (pending h) cfin
  | None => false
  end.

(* ---------- the search (Wing & Gong with memoisation on (calls not yet linearised, cell)) ---------- *)

Definition cres_eq_dec (a b : cres) : {a = b} + {a <> b}.
Proof. decide equality; [apply Z.eq_dec | apply bool_dec]. Defined.
Definition wsrc_eq_dec (a b : wsrc) : {a = b} + {a <> b}.
Proof. unfold wsrc. decide equality. apply Z.eq_dec. Defined.
Definition cop_eq_dec (a b : cop) : {a = b} + {a <> b}.
Proof. decide equality; apply wsrc_eq_dec. Defined.
Definition outcome_eq_dec (a b : outcome) : {a = b} + {a <> b}.
Proof. decide equality. decide equality. apply cres_eq_dec. Defined.
Definition hop_eq_dec (a b : hop) : {a = b} + {a <> b}.
Proof.
  decide equality; try apply N.eq_dec; try apply bool_dec; try apply cop_eq_dec; try apply outcome_eq_dec.
  decide equality. apply N.eq_dec.
Defined.
Definition cell_eq_dec (a b : cell) : {a = b} + {a <> b}.
Proof. decide equality; [apply Z.eq_dec | apply bool_dec]. Defined.

Definition key := (list hop * cell)%type.
Definition key_eqb (a b : key) : bool :=
  if cell_eq_dec (snd a) (snd b) then if list_eq_dec hop_eq_dec (fst a) (fst b) then true else false else false.
Definition mem_key (k : key) (seen : list key) : bool := existsb (key_eqb k) seen.

Inductive sres := Found (w : list N) | NotFound | NoFuel.

(* smallest return ticket among the calls not yet linearised *)
Fixpoint minret (l : list hop) : option N :=
  match l with
  | [] => None
  | x :: l' =>
      match h_ret x, minret l' with
      | Some r, Some m => Some (N.min r m)
      | Some r, None => Some r
      | None, m => m
      end
  end.
(* x may come next: nobody returned before x was invoked *)
Definition cand (mr : option N) (x : hop) : bool := match mr with Some m => h_inv x <=? m | None => true end.

Section Search.
  Variable cfin : cell.
  Variable pend : list hop.

  Definition final_ok (c : cell) : bool := cell_eqb c cfin && quiescent_b pend c.

  (* ----- the complete search: every candidate is tried; b = number of nodes it may still visit ----- *)
  Section Try.
    Variable rec : cell -> list hop -> list key -> N -> sres * list key * N.
    Variable c : cell.
    Variable mr : option N.
    Variable k : key.
    (* try every candidate of post as the next call; pre = the calls already tried, latest first *)
    Fixpoint try_cands (pre post : list hop) (seen : list key) (b : N) {struct post} : sres * list key * N :=
      match post with
      | [] => (NotFound, k :: seen, b)
      | x :: post' =>
          if cand mr x then
            match apply_op c x with
            | Some c1 =>
                match rec c1 (rev_append pre post') seen b with
                | (Found w, s, b') => (Found (h_id x :: w), s, b')
                | (NoFuel, s, b') => (NoFuel, s, b')
                | (NotFound, s, b') => try_cands (x :: pre) post' s b'
                end
            | None => try_cands (x :: pre) post' seen b
            end
          else try_cands (x :: pre) post' seen b
      end.
  End Try.

  Fixpoint search (depth : nat) (c : cell) (rem : list hop) (seen : list key) (b : N) {struct depth} : sres * list key * N :=
    match depth with
    | O => (NoFuel, seen, b)
    | S d =>
        match b with
        | N0 => (NoFuel, seen, b)
        | _ =>
            let b := N.pred b in
            match rem with
            | [] => if final_ok c then (Found [], seen, b) else (NotFound, seen, b)
            | _ :: _ =>
                if mem_key (rem, c) seen then (NotFound, seen, b)
                else try_cands (search d) c (minret rem) (rem, c) [] rem seen b
            end
        end
    end.

  (* ----- the fast search: finds witnesses only (they are re-checked by check_lin); heuristics, no claim of completeness ----- *)
  (* calls that never change the cell wherever they stand: taken as soon as they are enabled *)
  Definition is_pure (x : hop) : bool :=
    match h_out x with
    | OFail => true
    | ODone _ => match h_op x with CReadFF | CReadXX | CStatus => true | _ => false end
    end.
  Definition need_val (x : hop) : option Z :=
    match h_out x with
    | ODone (Some (RVal v)) => match h_op x with CReadFE | CReadFF | CReadXX => Some v | _ => None end
    | _ => None
    end.
  Definition gives_val (x : hop) : option Z :=
    match h_out x with
    | ODone _ => match h_op x with
                 | CWriteEF (Some v) | CWriteF (Some v) | CWriteFF (Some v) | CPurge (Some v) => Some v
                 | _ => None
                 end
    | OFail => None
    end.
  Definition wants_full (x : hop) : bool :=
    match h_out x with ODone _ => waits_for_full (h_op x) | OFail => waits_for_empty (h_op x) end.
  Definition wants_empty (x : hop) : bool :=
    match h_out x with ODone _ => waits_for_empty (h_op x) | OFail => waits_for_full (h_op x) end.
  Definition can_fill (x : hop) : bool :=
    match h_out x with ODone _ => match h_op x with CWriteEF _ | CWriteF _ | CFill => true | _ => false end | OFail => false end.
  Definition can_empty (x : hop) : bool :=
    match h_out x with ODone _ => match h_op x with CReadFE | CEmpty | CPurge _ => true | _ => false end | OFail => false end.
  Fixpoint vals_of (l : list hop) : list Z :=
    match l with [] => [] | x :: l' => match gives_val x with Some v => v :: vals_of l' | None => vals_of l' end end.
  (* a remaining call can no longer get what it observed / the state it needs *)
  Definition stranded (c1 : cell) (rem' : list hop) : bool :=
    let avail := c_val c1 :: vals_of rem' in
    existsb (fun y => match need_val y with Some v => negb (existsb (Z.eqb v) avail) | None => false end) rem'
    || (if c_full c1 then existsb wants_empty rem' && negb (existsb can_empty rem')
        else existsb wants_full rem' && negb (existsb can_fill rem')).

  Definition fcand := (hop * cell * list hop)%type.
  Fixpoint cands_of (c : cell) (mr : option N) (pre post : list hop) : list fcand :=
    match post with
    | [] => []
    | x :: post' =>
        let rest := cands_of c mr (x :: pre) post' in
        if cand mr x then
          match apply_op c x with Some c1 => (x, c1, rev_append pre post') :: rest | None => rest end
        else rest
    end.
  Definition ret_of (x : hop) : N := match h_ret x with Some r => r | None => 0 end.
  Fixpoint insert_by_ret (a : fcand) (l : list fcand) : list fcand :=
    match l with
    | [] => [a]
    | y :: l' => if ret_of (fst (fst a)) <=? ret_of (fst (fst y)) then a :: l else y :: insert_by_ret a l'
    end.
  Definition sort_by_ret (l : list fcand) : list fcand := fold_right insert_by_ret [] l.

  Fixpoint fsearch (depth : nat) (c : cell) (rem : list hop) (b : N) {struct depth} : option (list N) * N :=
    match depth with
    | O => (None, b)
    | S d =>
        match b with
        | N0 => (None, b)
        | _ =>
            let b := N.pred b in
            match rem with
            | [] => if final_ok c then (Some [], b) else (None, b)
            | _ :: _ =>
                let cs := cands_of c (minret rem) [] rem in
                match find (fun a => is_pure (fst (fst a))) cs with
                | Some (x, c1, rem') =>
                    match fsearch d c1 rem' b with
                    | (Some w, b') => (Some (h_id x :: w), b')
                    | (None, b') => (None, b')
                    end
                | None =>
                    (fix ftry (l : list fcand) (b : N) {struct l} : option (list N) * N :=
                       match l with
                       | [] => (None, b)
                       | (x, c1, rem') :: l' =>
                           match fsearch d c1 rem' b with
                           | (Some w, b') => (Some (h_id x :: w), b')
                           | (None, b') => ftry l' b'
                           end
                       end) (sort_by_ret (filter (fun a => negb (stranded (snd (fst a)) (snd a))) cs)) b
                end
            end
        end
    end.
End Search.

Inductive verdict := Accept (w : list N) | Reject | Unknown | Bug.

(* well-formed: a call returns after it was invoked *)
Definition wf_b (h : list hop) : bool :=
  forallb (fun x => match h_ret x with Some r => h_inv x <? r | None => true end) h.

Definition decide (fuel : N) (c0 : cell) (h : list hop) (cfin : cell) : verdict :=
  if negb (wf_b h) then Bug else
  let depth := S (length h) in
  let fast := match fst (fsearch cfin (pending h) depth c0 (completed h) fuel) with
              | Some w => if check_lin c0 h cfin w then Some w else None
              | None => None
              end in
  match fast with
  | Some w => Accept w
  | None =>
      match fst (fst (search cfin (pending h) depth c0 (completed h) [] fuel)) with
      | Found w => if check_lin c0 h cfin w then Accept w else Bug
      | NotFound => Reject
      | NoFuel => Unknown
      end
  end.

Definition accepts (fuel : N) (c0 : cell) (h : list hop) (cfin : cell) : bool :=
  match decide fuel c0 h cfin with Accept _ => true | _ => false end.
