(* C18 atomic read-modify-write primitives: the property theorems (proofs in Atomics/Theorems.v, Atomics/Proofs.v).
   They are about the machines of GenShape.gen_shape, i.e. the shape read from include/qthread/qthread.h on this run.
   ASSUMED (hardware/compiler contract, built into Model.step): a lock-prefixed cmpxchg and the __sync builtins are
   one atomic step; sequential consistency.  Level: partial by nature.                                            *)
From Coq Require Import ZArith List Bool Arith.
From QV Require Import Atomics.Model Atomics.GenShape Atomics.Proofs Atomics.Theorems.
Import ListNotations.
Local Open Scope Z_scope.

Theorem shape_is_expected : shape_ok gen_shape = true.
Proof. exact Theorems.shape_is_expected. Qed.
Print Assumptions shape_is_expected.

Theorem atomics_linearizable : forall fadd c, In c (cfgs_of gen_shape) ->
  forall v0 progs sched, let s := st_of fadd c v0 progs sched in
  seq_accept fadd (m_M c) v0 (rev (map (fun e => (e_op e, e_ret e)) (log s))) = Some (cell s) /\
  (forall e, In e (log s) -> e_ret e = e_pre e /\ e_post e = effect fadd (m_M c) (e_op e) (e_pre e)) /\
  (forall i t, nth_error (thrs s) i = Some t ->
     t_rets t = map e_ret (mine i (log s)) /\ rev (map e_op (mine i (log s))) ++ t_todo t = nth i progs []).
Proof. exact atomics_linearizable_all. Qed.
Print Assumptions atomics_linearizable.

Theorem incr_no_lost_update : forall fadd c, In c (cfgs_of gen_shape) ->
  (forall a b, fadd a b = (a + b) mod m_M c) ->
  forall v0 progs sched, Forall (fun p => forallb is_add p = true) progs -> 0 <= v0 < m_M c ->
  let s := st_of fadd c v0 progs sched in
  (cell s + pending (thrs s)) mod m_M c = (v0 + total progs) mod m_M c /\
  (finished s = true -> cell s = (v0 + total progs) mod m_M c).
Proof. exact incr_no_lost_update_all. Qed.
Print Assumptions incr_no_lost_update.

Theorem incr_distinct : forall fadd c, In c (cfgs_of gen_shape) ->
  (forall a b, fadd a b = (a + b) mod m_M c) ->
  forall v0 progs sched, Forall (fun p => forallb plus_one p = true) progs -> 0 <= v0 < m_M c ->
  Z.of_nat (totalN progs) <= m_M c ->
  let s := st_of fadd c v0 progs sched in
  NoDup (map e_ret (log s)) /\
  (forall i t, nth_error (thrs s) i = Some t -> NoDup (t_rets t)) /\
  (forall i j ti tj r, i <> j -> nth_error (thrs s) i = Some ti -> nth_error (thrs s) j = Some tj ->
     In r (t_rets ti) -> ~ In r (t_rets tj)).
Proof. exact incr_distinct_all. Qed.
Print Assumptions incr_distinct.

Theorem cas_one_winner : forall fadd c, In c (cfgs_of gen_shape) ->
  forall o progs sched, Forall (fun p => forallb (cas_on o) p = true) progs ->
  let s := st_of fadd c o progs sched in
  (log s = [] /\ cell s = o) \/
  (cell s <> o /\ length (filter (wins o) (log s)) = 1%nat /\
   exists e n, In e (log s) /\ e_ret e = o /\ e_op e = OCas o n /\ cell s = n).
Proof. exact cas_one_winner_all. Qed.
Print Assumptions cas_one_winner.

Theorem cas_loop_lockfree_thread : forall fadd c, In c (cfgs_of gen_shape) ->
  forall s i window, unfinished s i -> (3 <= count_occ Nat.eq_dec window i)%nat ->
  (length (log s) < length (log (run fadd c s window)))%nat.
Proof. exact cas_loop_lockfree_thread_all. Qed.
Print Assumptions cas_loop_lockfree_thread.

Theorem cas_loop_lockfree : forall fadd c, In c (cfgs_of gen_shape) ->
  forall s window, (forall i, In i window -> unfinished s i) -> (2 * length (thrs s) < length window)%nat ->
  (length (log s) < length (log (run fadd c s window)))%nat.
Proof. exact cas_loop_lockfree_all. Qed.
Print Assumptions cas_loop_lockfree.

Theorem unlocked_cmpxchg_loses_update_refuted : exists sched,
  let s := run i32 (mkCfg 32 (unlocked (sh_fincr gen_shape)) (sh_incr32 gen_shape) (sh_cas32 gen_shape))
               (init_st 0 [[OLoop 1]; [OLoop 1]]) sched in
  finished s = true /\ cell s = 1.
Proof. exact unlocked_cmpxchg_refuted. Qed.
Print Assumptions unlocked_cmpxchg_loses_update_refuted.
