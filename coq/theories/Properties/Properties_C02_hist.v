(* C02 (and C01) under real concurrency, mode M4: theorems about the acceptor that judges the logged free-running traces.
   Statements only; proofs in Feb/HistoryProofs.v and Feb/HistoryComplete.v, non-vacuity examples in Feb/HistoryExamples.v.
   A history h is the list of calls on one word: cell operation (Cell/Spec.v), ticket before the call (h_inv), ticket after
   its return (h_ret, None = never returned), what the caller observed (h_out). *)
From Coq Require Import List ZArith NArith Bool Permutation Sorted.
Import ListNotations.
From QV Require Import Cell.Spec Feb.History Feb.HistoryProofs Feb.HistoryComplete Feb.HistoryExamples.
Local Open Scope N_scope.

(* soundness of the acceptor: an accepted history has a linearisation - a total order l of the completed calls that extends
   the real-time order (StronglySorted rt_compat: nobody stands after a call that was invoked after he had returned), in
   which every call takes effect atomically, enabled where it stands and with the result its caller saw (hrun), ending in
   the audited final state - and no call left pending is enabled in that final state *)
Theorem hist_accepts_sound : forall (fuel : N) (c0 : cell) (h : list hop) (cfin : cell),
  accepts fuel c0 h cfin = true ->
  exists l, Permutation l (completed h) /\ StronglySorted rt_compat l /\ hrun c0 l cfin /\
            (forall p, In p (pending h) -> enabled cfin (h_op p) = false).
Proof. exact accepts_sound_explicit. Qed.
Print Assumptions hist_accepts_sound.

(* the certificate checker alone (the search is untrusted: every witness it returns goes through check_lin) *)
Theorem hist_certificate_sound : forall (c0 : cell) (h : list hop) (cfin : cell) (w : list N),
  check_lin c0 h cfin w = true -> explained c0 h cfin.
Proof. exact check_lin_sound. Qed.
Print Assumptions hist_certificate_sound.

(* hrun in the words of Cell/Spec.v: the calls that succeeded are a linearisation [lin] of the atomic cell (each enabled in
   the cell state it meets) and each caller observed the spec's result *)
Theorem hist_linearisation_is_cell_lin : forall (c : cell) (l : list hop) (c' : cell),
  hrun c l c' ->
  exists rs, lin c (tagged l) rs c' /\
             Forall2 (fun x ir => fst ir = h_id x /\ exists obs, h_out x = ODone obs /\ obs_ok obs (snd ir) = true)
                     (filter succeeded l) rs.
Proof. exact hrun_lin. Qed.
Print Assumptions hist_linearisation_is_cell_lin.

(* ... and a non-blocking call that reported failure stands where its blocking twin would have had to wait *)
Theorem hist_failed_nb_was_disabled : forall (c : cell) (l : list hop) (c' : cell),
  hrun c l c' ->
  forall l1 x l2, l = l1 ++ x :: l2 -> h_out x = OFail ->
  exists cx, hrun c l1 cx /\ enabled cx (h_op x) = false /\ h_nb x = true.
Proof. exact hrun_failed_disabled. Qed.
Print Assumptions hist_failed_nb_was_disabled.

(* the order extends real time: a call that returned before another was invoked never stands after it *)
Theorem hist_real_time_respected : forall (l : list hop),
  StronglySorted rt_compat l ->
  forall l1 x l2 y l3, l = l1 ++ x :: l2 ++ y :: l3 -> ~ rt_before y x.
Proof. exact sorted_order. Qed.
Print Assumptions hist_real_time_respected.

(* quiescent_no_enabled_blocked lifted to histories: in an accepted history no call that never returned is enabled in the
   final state; equivalently a task still blocked at quiescence whose condition holds (a lost wake-up) is never accepted *)
Theorem hist_quiescent_no_enabled_blocked : forall (fuel : N) (c0 : cell) (h : list hop) (cfin : cell),
  accepts fuel c0 h cfin = true -> forall p, In p h -> h_ret p = None -> enabled cfin (h_op p) = false.
Proof. exact pending_disabled. Qed.
Print Assumptions hist_quiescent_no_enabled_blocked.

Theorem hist_lost_wakeup_rejected : forall (fuel : N) (c0 : cell) (h : list hop) (cfin : cell) (p : hop),
  In p h -> h_ret p = None -> enabled cfin (h_op p) = true -> accepts fuel c0 h cfin = false.
Proof. exact lost_wakeup_rejected. Qed.
Print Assumptions hist_lost_wakeup_rejected.

(* completeness of the exhaustive search: the verdict Reject (the one that is reported as a violation) is given only when
   NO linearisation exists *)
Theorem hist_reject_complete : forall (fuel : N) (c0 : cell) (h : list hop) (cfin : cell),
  decide fuel c0 h cfin = Reject -> ~ explained c0 h cfin.
Proof. exact reject_complete. Qed.
Print Assumptions hist_reject_complete.
