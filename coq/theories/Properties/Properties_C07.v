(* C07: placement - obligations (models: Kernel/Placement.v, Kernel/Model.v) *)
From Coq Require Import List Bool Arith NArith.
From QV Require Import Kernel.GenSpawnTable Kernel.Placement Kernel.ProofsPlacement Kernel.Model Kernel.ProofsKernel Kernel.ProofsC07 Kernel.ProofsPin.
Import ListNotations.

Theorem C07_pinned_exec_home : forall st s w t got st' x h,
  step st (LExec s w t got) = Some st' -> reads_current st (LExec s w t got) = true ->
  get_task t st.(tasks) = Some x -> x.(t_target) = Some h -> nthb st.(active) h = true -> s = h.
Proof. exact pinned_exec_home. Qed.
Print Assumptions C07_pinned_exec_home.

Theorem C07_dispatch_exec_home : forall me h (act : nat -> bool),
  dispatch me (Some h) (act h) (act me) = DExec -> act h = true -> me = h.
Proof. exact dispatch_exec_home. Qed.
Print Assumptions C07_dispatch_exec_home.

Theorem C07_migrate_returns_there : forall st t h st1 s w x,
  running_on st t = Some (s, w, x) -> migrate_case_of x.(t_mccoy) s (Some h) st.(nsh) = MMove ->
  step st (LMigrate t (Some h)) = Some st1 ->
  exists x1, get_task t st1.(tasks) = Some x1 /\ x1.(t_target) = Some h /\ x1.(t_unsteal) = true /\ x1.(t_state) = MIGRATING /\
             forall st2, step st1 (LPostMigrate s w t) = Some st2 ->
                         place_of t st2.(places) = Some (InQueue h false) /\
                         exists x2, get_task t st2.(tasks) = Some x2 /\ x2.(t_target) = Some h /\ x2.(t_state) = RUNNING.
Proof. exact migrate_pins_and_enqueues_on_target. Qed.
Print Assumptions C07_migrate_returns_there.

Theorem C07_migrate_other_cases : forall st t h st1 s w x,
  running_on st t = Some (s, w, x) -> step st (LMigrate t h) = Some st1 ->
  match migrate_case_of x.(t_mccoy) s h st.(nsh) with
  | MNotAllowed | MBadArgs => st1 = st
  | MUnpin => exists x1, get_task t st1.(tasks) = Some x1 /\ x1.(t_target) = None /\ x1.(t_unsteal) = false /\ x1.(t_state) = RUNNING
  | MSame => exists x1, get_task t st1.(tasks) = Some x1 /\ x1.(t_target) = h /\ x1.(t_unsteal) = true /\ x1.(t_state) = RUNNING
  | MMove => True
  end.
Proof. exact migrate_other_cases. Qed.
Print Assumptions C07_migrate_other_cases.

(* every execution of the main task, in every run, is on worker 0 of shepherd 0 (all_reads_plausible: a read of shepherd
   0's active flag, which nobody ever writes, returns true) *)
Theorem C07_mccoy_worker0 : forall ns nw ac tr st s w t got st' x,
  run (init ns nw ac) tr = Some st -> all_reads_plausible (init ns nw ac) tr ->
  step st (LExec s w t got) = Some st' -> get_task t st.(tasks) = Some x -> x.(t_mccoy) = true ->
  s = 0 /\ w = 0.
Proof. exact mccoy_worker0. Qed.
Print Assumptions C07_mccoy_worker0.

Theorem C07_mccoy_confined : forall ns nw ac tr st l,
  run (init ns nw ac) tr = Some st -> all_reads_plausible (init ns nw ac) tr -> In (0, l) st.(places) -> mccoy_place l.
Proof. exact mccoy_confined. Qed.
Print Assumptions C07_mccoy_confined.

Theorem C07_mccoy_cannot_migrate : forall st t h s w x,
  running_on st t = Some (s, w, x) -> x.(t_mccoy) = true -> step st (LMigrate t h) = Some st.
Proof. exact mccoy_refused_by_migrate. Qed.
Print Assumptions C07_mccoy_cannot_migrate.

Theorem C07_disabled_runs_nothing : forall tr st st' s,
  nthb st.(active) s = false -> run st tr = Some st' -> all_reads_current st tr ->
  ~ In (LEnable s) tr -> forall w t got, ~ In (LExec s w t got) tr.
Proof. exact disabled_runs_nothing. Qed.
Print Assumptions C07_disabled_runs_nothing.

Theorem C07_dispatch_disabled_no_exec : forall me tg at_, dispatch me tg at_ false <> DExec.
Proof. exact dispatch_disabled_no_exec. Qed.
Print Assumptions C07_dispatch_disabled_no_exec.

Theorem C07_disable_effective : forall nsh act s,
  0 < s -> s < nsh -> s < length act -> nthb (disable_shep nsh act s) s = false.
Proof. exact disable_effective. Qed.
Print Assumptions C07_disable_effective.

Theorem C07_shepherd0_never_disabled : forall nsh act s, nthb (disable_shep nsh act s) 0 = nthb act 0.
Proof. exact shepherd0_never_disabled. Qed.
Print Assumptions C07_shepherd0_never_disabled.

(* disabled_still_completes: find_active_shepherd *)
Theorem C07_fas_active : forall l d act qlen coins r, fas l d act qlen coins = Some r -> act r = true.
Proof. exact fas_active. Qed.
Print Assumptions C07_fas_active.

Theorem C07_fas_some : forall l d act qlen coins,
  (exists x, In x l /\ act x = true) -> exists r, fas l d act qlen coins = Some r /\ act r = true /\ In r l.
Proof. exact fas_some. Qed.
Print Assumptions C07_fas_some.

Theorem C07_fas_nolist_some : forall n act qlen coins,
  (exists i, i < n /\ act i = true) -> exists r, fas_nolist n act qlen coins = Some r /\ act r = true.
Proof. exact fas_nolist_some. Qed.
Print Assumptions C07_fas_nolist_some.

Theorem C07_rerouted_task_dispatch : forall r tg (act : nat -> bool),
  act r = true ->
  match dispatch r tg (match tg with Some h => act h | None => false end) (act r) with
  | DExec => True
  | DSendHome h => tg = Some h /\ act h = true
  | DReroute _ => False
  end.
Proof. exact rerouted_task_dispatch. Qed.
Print Assumptions C07_rerouted_task_dispatch.

(* the code before /repo commit c719d4a violated C07_fas_active: kept as the regression witness *)
Theorem C07_fas_prefix_refuted :
  exists l d act qlen coins r,
    fas_prefix l d act qlen coins = Some r /\ act r = false /\ (exists x, In x l /\ act x = true).
Proof. exact fas_prefix_refuted. Qed.
Print Assumptions C07_fas_prefix_refuted.

(* in every run, a task obtained from another shepherd's queue is not pinned: UNSTEALABLE clear, no target, not the main task *)
Theorem C07_steal_respects_pin : forall ns nw ac tr st s w src t st',
  run (init ns nw ac) tr = Some st -> step st (LTake s w src t) = Some st' -> src <> s ->
  exists x, get_task t st.(tasks) = Some x /\ x.(t_unsteal) = false /\ x.(t_target) = None /\ x.(t_mccoy) = false.
Proof. exact steal_respects_pin. Qed.
Print Assumptions C07_steal_respects_pin.

Theorem C07_pinned_node_unstealable : forall ns nw ac tr st t q b x h,
  run (init ns nw ac) tr = Some st -> In (t, InQueue q b) st.(places) -> get_task t st.(tasks) = Some x ->
  x.(t_target) = Some h -> b = false.
Proof. exact pinned_node_unstealable. Qed.
Print Assumptions C07_pinned_node_unstealable.

Theorem C07_wake_dest_pinned : forall tu tshep ws, wake_dest tu true tshep ws = tshep.
Proof. exact wake_dest_pinned. Qed.
Print Assumptions C07_wake_dest_pinned.

Theorem C07_wake_dest_feb_syncvar_agree : forall unsteal tshep ws, wake_dest 1 unsteal tshep ws = wake_dest 2 unsteal tshep ws.
Proof. exact wake_dest_feb_syncvar_agree. Qed.
Print Assumptions C07_wake_dest_feb_syncvar_agree.

(* non-vacuity: task pinned to shepherd 1, shepherd 1 disabled, re-routed to 0 and executed there, enabled again,
   sent home at the next dispatch and executed at home *)
Example C07_example :
  let row := mkRow true false true false false 0 0 false in
  exists st, run (init 2 1 1024) [LSpawn (Some (0, 0)) row (Some 1) 0 5 false; LDisable 1; LTake 1 0 1 1; LReroute 1 0 1 0;
                                  LMayBlock 0; LBlocked 0 0 0; LTake 0 0 0 1; LExec 0 0 1 (Some (Ptr 5)); LYield 1; LPostYield 0 0 1;
                                  LEnable 1; LTake 0 0 0 1; LSendHome 0 0 1 1; LTake 1 0 1 1; LExec 1 0 1 None] = Some st
             /\ In (1, OnWorker 1 0) st.(places).
Proof. eexists. vm_compute. split; [reflexivity|left; reflexivity]. Qed.
