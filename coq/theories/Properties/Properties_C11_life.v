(* C11 extension S -- the barrier's life cycle: property theorems (statements in full; proofs in Barrier/LifecycleProofs.v).
   Model: Barrier/Lifecycle.v = the participants of Barrier/Model.v (its `step`, unchanged) + one controller thread (thread id =
   number of participants) that runs a script of qt_barrier_create / resize / destroy, the global-barrier wrappers, joins
   (LWait) and new groups of participants (LEra n E); one step = one shared access; sched = ANY list of thread ids.
   okscript gm MD false 0 sc = the script sc uses the barrier inside its contract: resize, destroy, creation and a new group
   only after a join, every group exactly as large as the current count, nothing on a freed or missing object.
   uaf = number of shared accesses participants made to a freed barrier. *)
From Coq Require Import List ZArith Bool Arith.
From QV Require Import Barrier.Model Barrier.Proofs Barrier.Lifecycle Barrier.LifecycleProofs.
Import ListNotations.

(* INSIDE THE CONTRACT, any number of create / resize / new group / destroy / re-create rounds, plain or through the global
   wrappers, every schedule: nobody ever touches a freed barrier, in every group nobody passes the out gate of / returns from
   its k-th enter before every participant of the group did the +1 of its k-th enter, the gates are never both full. *)
Theorem barrier_lifecycle_safe :
  forall (gm : bool) (sc : list lop) (sched : list nat),
    okscript gm MD false 0%Z sc = true ->
    let l := lexec (lstart gm sc) sched in
    uaf l = 0%nat /\
    (forall i j ti tj, nth_error (thrs (bar l)) i = Some ti -> nth_error (thrs (bar l)) j = Some tj ->
                       (t_ep ti <= t_pas ti /\ t_pas ti <= t_arr tj /\ t_arr tj <= calls tj)%nat) /\
    (alive l = true -> cp l = CNext -> in_full (bar l) && out_full (bar l) = false /\ (0 <= blockers (bar l))%Z).
Proof. exact life_contract_safe_lemma. Qed.
Print Assumptions barrier_lifecycle_safe.

(* ... and it never gets stuck: as long as the script is not finished or a participant has episodes left, somebody can move
   (in particular qt_barrier_destroy after a join never waits) *)
Theorem barrier_lifecycle_no_deadlock :
  forall (gm : bool) (sc : list lop) (sched : list nat),
    okscript gm MD false 0%Z sc = true ->
    let l := lexec (lstart gm sc) sched in
    lfinished l = false -> exists i, lenabled l i = true.
Proof. exact life_no_deadlock_lemma. Qed.
Print Assumptions barrier_lifecycle_no_deadlock.

(* ... every step decreases a measure (participants: the measure of Properties_C11.v; script: every operation has a cost, a new
   group costs n(10E+9)+1), hence every run inside the contract can be completed from wherever it stands: every participant of
   every group returns from all its enters, destroy frees the object, the script ends *)
Theorem barrier_lifecycle_step_decreases :
  forall (gm : bool) (sc : list lop) (sched : list nat) (i : nat) (l' : lstate),
    okscript gm MD false 0%Z sc = true ->
    lstep (lexec (lstart gm sc) sched) i = Some l' -> (lmeas l' < lmeas (lexec (lstart gm sc) sched))%nat.
Proof. exact life_step_decreases_lemma. Qed.
Print Assumptions barrier_lifecycle_step_decreases.

Theorem barrier_lifecycle_completes :
  forall (gm : bool) (sc : list lop) (sched : list nat),
    okscript gm MD false 0%Z sc = true ->
    exists rest, lfinished (lexec (lstart gm sc) (sched ++ rest)) = true.
Proof. exact life_completes_lemma. Qed.
Print Assumptions barrier_lifecycle_completes.

(* a barrier whose participants have all returned is exactly in the state qt_barrier_create leaves it in *)
Theorem barrier_quiescent_is_fresh :
  forall (n E : nat) (sched : list nat),
    let s := exec (Z.of_nat n) E (init n) sched in
    all_done E s = true -> in_full s = true /\ out_full s = false /\ blockers s = 0%Z.
Proof. exact quiescent_is_fresh_lemma. Qed.
Print Assumptions barrier_quiescent_is_fresh.

(* resize to n' at a joined point, then n' participants: the machine IS the freshly created barrier for n' participants, so it
   is safe and live for them (barrier_safe / barrier_completes of Properties_C11.v instantiated) *)
Theorem barrier_resize_then_correct :
  forall (n E : nat) (sched : list nat) (n' E' : nat) (sched' : list nat),
    let b := exec (Z.of_nat n) E (init n) sched in
    all_done E b = true ->
    let l := mkl b (Z.of_nat n) E true false false CNext [LResize (Z.of_nat n'); LEra n' E'] 0 in
    exists l1 l2, cstep l = Some l1 /\ cstep l1 = Some l2 /\
      bar l2 = init n' /\ maxb l2 = Z.of_nat n' /\ epis l2 = E' /\
      (forall i j ti tj, let s := exec (maxb l2) (epis l2) (bar l2) sched' in
                         nth_error (thrs s) i = Some ti -> nth_error (thrs s) j = Some tj ->
                         (t_ep ti <= t_pas ti /\ t_pas ti <= t_arr tj /\ t_arr tj <= calls tj)%nat) /\
      (exists rest, all_done (epis l2) (exec (maxb l2) (epis l2) (bar l2) (sched' ++ rest)) = true).
Proof. exact resize_then_correct_lemma. Qed.
Print Assumptions barrier_resize_then_correct.

(* reuse, stated explicitly for an unbounded number of episodes: for EVERY k, whoever has returned from its k-th enter, every
   participant has arrived (done the +1) at least k times *)
Theorem barrier_reuse_any_number_of_episodes :
  forall (n E : nat) (sched : list nat) (k i j : nat) (ti tj : thr),
    let s := exec (Z.of_nat n) E (init n) sched in
    nth_error (thrs s) i = Some ti -> nth_error (thrs s) j = Some tj ->
    (k <= t_ep ti -> k <= t_arr tj /\ k <= calls tj)%nat.
Proof. exact reuse_any_number_of_episodes_lemma. Qed.
Print Assumptions barrier_reuse_any_number_of_episodes.

(* for EVERY script and schedule (also outside the contract): blockers = number of participants between their +1 and their -1 *)
Theorem barrier_blockers_counts_inside :
  forall (gm : bool) (sc : list lop) (sched : list nat),
    let l := lexec (lstart gm sc) sched in
    blockers (bar l) = Z.of_nat (cnt inside (thrs (bar l))).
Proof. exact blockers_counts_inside_lemma. Qed.
Print Assumptions barrier_blockers_counts_inside.

(* DESTROY WAITS FOR THE LEAVERS, the part that holds for every script and schedule: whenever the wait loop of
   qt_barrier_destroy ends (the step that takes the destroyer to its first fill), no participant is between its arrival (+1)
   and its decrement (-1): nobody is waiting at / passing the out gate *)
Theorem barrier_destroy_waits_for_leavers_partial :
  forall (gm : bool) (sc : list lop) (sched : list nat) (l' : lstate),
    let l := lexec (lstart gm sc) sched in
    cp l <> CFillOut -> cstep l = Some l' -> cp l' = CFillOut ->
    bar l' = bar l /\ blockers (bar l') = 0%Z /\
    forall j t, nth_error (thrs (bar l')) j = Some t -> inside t = false.
Proof. exact destroy_waits_partial_lemma. Qed.
Print Assumptions barrier_destroy_waits_for_leavers_partial.

(* the FULL statement (destroy completes only when no participant is between its arrival and its EXIT; nobody touches the
   freed barrier) is refuted by the faithful model: the last leaver decrements blockers to 0 BEFORE it empties the out gate
   and fills the in gate.  Witness: count 2, two participants, one episode; participant 0 has returned, participant 1 (last
   leaver) stands before qthread_empty(&out_gate); destroy sees blockers = 0, fills both gates and frees; participant 1 then
   performs its two gate operations on the freed object.  Guarded positive version: barrier_lifecycle_safe (destroy after a join). *)
Theorem barrier_destroy_waits_for_leavers_refuted :
  let before := lexec (lstart false race_script) (firstn 13 race_sched) in
  let after_free := lexec (lstart false race_script) (firstn 17 race_sched) in
  let l := lexec (lstart false race_script) race_sched in
  (exists t0 t1, thrs (bar before) = [t0; t1] /\ t_pc t0 = PCall /\ t_ep t0 = 1%nat /\ t_pc t1 = PEmpOut) /\
  blockers (bar before) = 0%Z /\ alive before = true /\
  alive after_free = false /\ uaf after_free = 0%nat /\
  uaf l = 2%nat /\ lfinished l = true.
Proof. exact destroy_waits_refuted_lemma. Qed.
Print Assumptions barrier_destroy_waits_for_leavers_refuted.

Theorem global_barrier_destroy_refuted :
  let l := lexec (lstart true grace_script) race_sched in uaf l = 2%nat /\ gset l = false /\ lfinished l = true.
Proof. exact global_destroy_refuted_lemma. Qed.
Print Assumptions global_barrier_destroy_refuted.

(* FEWER participants than the count: nobody ever passes the out gate or returns (safe), the gates stay as created *)
Theorem fewer_participants_nobody_passes :
  forall (n : nat) (m : Z) (E : nat) (sched : list nat) (i : nat) (t : thr),
    (Z.of_nat n < m)%Z ->
    let s := exec m E (init n) sched in
    nth_error (thrs s) i = Some t ->
    t_pas t = 0%nat /\ t_ep t = 0%nat /\ in_full s = true /\ out_full s = false /\ (blockers s <= Z.of_nat n)%Z.
Proof. exact fewer_participants_nobody_passes_lemma. Qed.
Print Assumptions fewer_participants_nobody_passes.

(* MORE participants than the count is outside the contract (the code's compiled-out assert: waiters <= max_blockers) and
   does break the barrier: count 2, four participants x one episode (two full batches): three pass on the first opening and
   the fourth waits at the out gate for ever (nobody enabled, not all done) *)
Theorem more_participants_refuted :
  let s := exec 2 1 (init 4) more_sched in
  all_done 1 s = false /\ enabled_list 2 1 s = [] /\
  (exists t0 t1 t2 t3, thrs s = [t0; t1; t2; t3] /\ t_ep t0 = 1%nat /\ t_ep t1 = 1%nat /\ t_ep t3 = 1%nat /\ t_pc t2 = POutW /\ t_ep t2 = 0%nat).
Proof. exact more_participants_refuted_lemma. Qed.
Print Assumptions more_participants_refuted.

(* qt_global_barrier_init on an initialised global barrier does nothing: also its size argument is ignored *)
Theorem global_init_twice_ignored :
  forall (l l' : lstate) (m : Z) (r : list lop),
    cp l = CNext -> script l = LGInit m :: r -> gset l = true -> cstep l = Some l' ->
    bar l' = bar l /\ maxb l' = maxb l /\ alive l' = alive l /\ gset l' = true /\ script l' = r.
Proof. exact global_init_twice_ignored_lemma. Qed.
Print Assumptions global_init_twice_ignored.

(* qt_global_barrier() while global_barrier == NULL (before init / after destroy; outside the contract, assert compiled out):
   qt_barrier_enter(NULL) returns at once -- participant 0 has returned from its first enter, participant 1 has not even called *)
Theorem global_enter_before_init_refuted :
  let l := lexec (lstart true [LEra 2 1]) [0; 0]%nat in
  exists t0 t1, thrs (bar l) = [t0; t1] /\ t_ep t0 = 1%nat /\ t_arr t1 = 0%nat /\ calls t1 = 0%nat /\ uaf l = 0%nat.
Proof. exact global_enter_before_init_refuted_lemma. Qed.
Print Assumptions global_enter_before_init_refuted.

(* ---- the proposed repair (docs/proposed_fixes/C11-destroy-last-leaver.diff): the wait loop of destroy also waits for the in
   gate to be full again (chk_fixed; lexecG chk_fixed = the same machine with that loop condition; never tied to the code).
   pend l = destroy is being / about to be called (cp CNext or CYield, script LDestroy/LGDestroy :: r with r inside the contract)
   on a live barrier in a reachable state (inv) whose participants have ALL ARRIVED for their last episode (t_arr = epis):
   the usual pattern "a participant returns from its last enter and destroys the barrier".  Then, for every schedule, nobody
   touches the freed object, the object is freed only when everybody has returned, and the barrier stays safe meanwhile. *)
Theorem barrier_destroy_repaired_waits_for_leavers :
  forall (l : lstate) (sched : list nat),
    pend l ->
    let l' := lexecG chk_fixed l sched in
    uaf l' = 0%nat /\ (alive l' = false -> settled (epis l') (bar l')) /\
    (forall i j ti tj, nth_error (thrs (bar l')) i = Some ti -> nth_error (thrs (bar l')) j = Some tj ->
                       (t_ep ti <= t_pas ti /\ t_pas ti <= t_arr tj /\ t_arr tj <= calls tj)%nat).
Proof. exact destroy_fixed_waits_for_leavers_lemma. Qed.
Print Assumptions barrier_destroy_repaired_waits_for_leavers.

(* the repaired loop exits as soon as everybody has returned (destroy terminates), and inside the contract the repaired machine
   has the same guarantees as the present one *)
Theorem barrier_destroy_repaired_exits :
  forall l, pend l -> all_done (epis l) (bar l) = true -> chk_fixed l = true.
Proof. exact destroy_fixed_exits_lemma. Qed.
Print Assumptions barrier_destroy_repaired_exits.

Theorem barrier_lifecycle_safe_repaired :
  forall (gm : bool) (sc : list lop) (sched : list nat),
    okscript gm MD false 0%Z sc = true ->
    let l := lexecG chk_fixed (lstart gm sc) sched in
    uaf l = 0%nat /\
    (forall i j ti tj, nth_error (thrs (bar l)) i = Some ti -> nth_error (thrs (bar l)) j = Some tj ->
                       (t_ep ti <= t_pas ti /\ t_pas ti <= t_arr tj /\ t_arr tj <= calls tj)%nat) /\
    (alive l = true -> cp l = CNext -> in_full (bar l) && out_full (bar l) = false /\ (0 <= blockers (bar l))%Z).
Proof. exact life_contract_safe_fixed_lemma. Qed.
Print Assumptions barrier_lifecycle_safe_repaired.
