(* C19 lifecycle: the property theorems, instantiated with the registration table read from the sources on this run
   (Lifecycle/GenSubsystems.v).  Proofs: Lifecycle/Proofs.v, Lifecycle/Theorems.v.  The model is about the
   registration / teardown bookkeeping; byte-exact leak freedom and thread exit are measured by the harness. *)
From Coq Require Import List Bool Arith.
From QV Require Import Lifecycle.Model Lifecycle.GenSubsystems Lifecycle.Proofs Lifecycle.Theorems.
Import ListNotations.

(* obligations on the generated table: the listed exceptions are exactly rows 12-14 (dictionary hash_entry_pool, wavefront
   workunit_pool, qarray shepherd tracker: created on first use, no cleanup registered -> a one-time allocation that survives
   finalize); every row brought up by qthread_initialize restores its statics; the proxy-stopping cleanup is registered by
   initialize; atexit(qthread_finalize) is registered once per process *)
Theorem table_is_expected :
  bad_rows gen_table 0 = [12; 13; 14] /\
  forallb (fun i => match nth_error gen_table i with Some r => r_lazy r && negb (r_registers r) && r_resets r | None => false end) [12; 13; 14] = true /\
  init_good gen_table = true /\ io_wellformed gen_table = true /\ existsb r_io gen_table = true /\ gen_atexit_every_initialize = false.
Proof. exact (conj gen_exceptions (conj gen_exceptions_unregistered_lazy (conj gen_init_good (conj gen_io_wellformed (conj gen_has_proxy_row gen_atexit_once))))). Qed.
Print Assumptions table_is_expected.

Theorem finalize_runs_all_cleanups : forall ops, let s := run gen_table gen_atexit_every_initialize ops in qlib s = true ->
  let s' := finalize gen_table true s in
  ran s' = early s ++ normal s ++ late s /\ NoDup (ran s') /\ early s' = [] /\ normal s' = [] /\ late s' = [] /\
  (forall i r, nth_error gen_table i = Some r -> r_lazy r = false -> r_registers r = true -> In i (ran s')) /\
  (forall i, In i (ran s') -> exists r, nth_error gen_table i = Some r /\ r_registers r = true).
Proof. exact (finalize_runs_all_cleanups_gen gen_table gen_atexit_every_initialize). Qed.
Print Assumptions finalize_runs_all_cleanups.

Theorem ledger_balanced : forall ops, let s := run gen_table gen_atexit_every_initialize ops in qlib s = true ->
  forall j, In j (ledger (finalize gen_table true s)) -> exists r, nth_error gen_table j = Some r /\ r_registers r = false.
Proof. exact (ledger_balanced_gen gen_table gen_atexit_every_initialize). Qed.
Print Assumptions ledger_balanced.

Theorem ledger_exception_refuted : ledger (run gen_table false [OInit 4; OUse 12; OFin true]) = [12].
Proof. exact unregistered_row_leaks_refuted. Qed.
Print Assumptions ledger_exception_refuted.

Theorem reinit_equivalent : forall ops w, ops_good gen_table ops ->
  let s := run gen_table gen_atexit_every_initialize ops in qlib s = true ->
  same_runtime (initialize gen_table gen_atexit_every_initialize w (finalize gen_table true s))
               (initialize gen_table gen_atexit_every_initialize w fresh).
Proof. exact (fun ops w => reinit_equivalent_gen gen_table gen_atexit_every_initialize ops w gen_init_good gen_io_wellformed). Qed.
Print Assumptions reinit_equivalent.

Theorem redundant_calls_noop : forall s w,
  (qlib s = true -> initialize gen_table gen_atexit_every_initialize w s = s) /\
  (qlib s = false -> forall ok, finalize gen_table ok s = s) /\
  (finalize gen_table false s = s) /\
  (qlib s = false -> forall i, use gen_table i s = s).
Proof. exact (redundant_calls_noop_gen gen_table gen_atexit_every_initialize). Qed.
Print Assumptions redundant_calls_noop.

Theorem workers_joined : forall ops, let s := run gen_table gen_atexit_every_initialize ops in qlib s = true ->
  threads (finalize gen_table true s) = 0 /\ proxies (finalize gen_table true s) = 0.
Proof.
  exact (fun ops Q => conj (proj1 (workers_joined_gen gen_table gen_atexit_every_initialize ops Q))
                           (proj2 (workers_joined_gen gen_table gen_atexit_every_initialize ops Q) gen_io_wellformed)).
Qed.
Print Assumptions workers_joined.

Theorem atexit_once : forall ops, atexits (run gen_table gen_atexit_every_initialize ops) <= 1.
Proof. exact (atexit_once_gen gen_table). Qed.
Print Assumptions atexit_once.

Theorem stale_static_second_incarnation_refuted :
  fault (run (unreset 11 gen_table) false [OInit 4; OUse 11; OFin true; OInit 4; OUse 11]) = true.
Proof. exact stale_static_refuted. Qed.
Print Assumptions stale_static_second_incarnation_refuted.
