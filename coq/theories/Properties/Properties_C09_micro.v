(* C09 extension G: task identity over EVERY schedule of the micro-step machine Kernel/IdentMicro.v (the accesses of
   qthread_id() in src/qthread.c), and the descriptor life cycle Kernel/Reuse.v.
   final c0 sch = run true (init c0) sch : the state after the schedule sch (a list of task numbers, one access each) from
   the state in which no task has an id and qlib->max_thread_id = c0 mod 2^64.  s_adv = counter units handed out so far
   (ghost).  rets_of s i = the values returned by the calls of task i so far. *)
From Coq Require Import List NArith Arith.
From QV Require Import Kernel.Tasklocal Kernel.TasklocalProofs Kernel.Reuse Kernel.ReuseProofs.
From QV Require Import Kernel.Ident Kernel.IdentMicro Kernel.IdentMicroProofs.   (* last: s_tasks / init below are IdentMicro's *)
Import ListNotations.

(* every value any call returns, under any schedule, from any starting counter, is neither 0 nor UINT_MAX -- as long as
   fewer than 2^32 counter units have been handed out in the whole execution (the documented 32-bit limit) *)
Theorem idm_nonzero_nonreserved : forall c0 sch i r,
  (s_adv (final c0 sch) < M32)%N -> In r (rets_of (final c0 sch) i) -> r <> NON_TASK_ID /\ r <> NULL_TASK_ID.
Proof. exact idm_nonzero_nonreserved_thm. Qed.
Print Assumptions idm_nonzero_nonreserved.

(* two different tasks never obtain the same id *)
Theorem idm_distinct : forall c0 sch i j ri rj,
  (s_adv (final c0 sch) < M32)%N -> i <> j ->
  In ri (rets_of (final c0 sch) i) -> In rj (rets_of (final c0 sch) j) -> ri <> rj.
Proof. exact idm_distinct_thm. Qed.
Print Assumptions idm_distinct.

(* once a call of task i has returned r, every later call of i returns r and the descriptor holds r *)
Theorem idm_stable : forall c0 sch1 sch2 i r r',
  (s_adv (final c0 (sch1 ++ sch2)) < M32)%N ->
  In r (rets_of (final c0 sch1) i) -> In r' (rets_of (final c0 (sch1 ++ sch2)) i) ->
  r' = r /\ t_fld (s_tasks (final c0 (sch1 ++ sch2)) i) = r.
Proof. exact idm_stable_thm. Qed.
Print Assumptions idm_stable.

(* a task performs at most two fetch-and-adds in its whole life (one draw, at most one re-draw: |reserved| = 2 but the code
   has no loop) *)
Theorem idm_draws_bounded : forall c0 sch i,
  (s_adv (final c0 sch) < M32)%N -> (t_draws (s_tasks (final c0 sch) i) <= 2)%nat.
Proof. exact idm_draws_bounded_thm. Qed.
Print Assumptions idm_draws_bounded.

(* wait freedom: from ANY state (reachable or not, atomic increment or not), whatever the other tasks do, a task that is
   scheduled CALL_STEPS = 10 times completes a call *)
Theorem idm_wait_free : forall a s sch i,
  (CALL_STEPS <= count_occ Nat.eq_dec sch i)%nat ->
  (length (rets_of s i) < length (rets_of (run a s sch) i))%nat.
Proof. exact idm_wait_free_thm. Qed.
Print Assumptions idm_wait_free.

(* n tasks hand out at most 3 n units: no ghost state in the hypotheses *)
Theorem idm_adv_bound : forall c0 n sch,
  Forall (fun i => (i < n)%nat) sch -> (3 * N.of_nat n < M32)%N -> (s_adv (final c0 sch) < M32)%N.
Proof. exact idm_adv_bound_thm. Qed.
Print Assumptions idm_adv_bound.

Theorem idm_n_tasks : forall c0 n sch,
  Forall (fun i => (i < n)%nat) sch -> (3 * N.of_nat n < M32)%N ->
  (forall i r, In r (rets_of (final c0 sch) i) ->
               r <> NON_TASK_ID /\ r <> NULL_TASK_ID /\ r = t_fld (s_tasks (final c0 sch) i)) /\
  (forall i j ri rj, i <> j -> In ri (rets_of (final c0 sch) i) -> In rj (rets_of (final c0 sch) j) -> ri <> rj) /\
  (forall i, (t_draws (s_tasks (final c0 sch) i) <= 2)%nat).
Proof. exact idm_n_tasks_thm. Qed.
Print Assumptions idm_n_tasks.

(* with the increment split into a load and a store two tasks obtain the same id: the schedule is the witness *)
Theorem idm_nonatomic_increment_refuted :
  exists c0 sch r, In r (rets_of (run false (init c0) sch) 0) /\ In r (rets_of (run false (init c0) sch) 1) /\
                   (s_adv (run false (init c0) sch) < M32)%N.
Proof. exact idm_nonatomic_increment_refuted_thm. Qed.
Print Assumptions idm_nonatomic_increment_refuted.

(* a call that no other access interleaves with behaves exactly as the op-atomic model Ident.qthread_id (the function the
   theorems of Properties_C09.v are about and the regeneration tie Gen/Ident.v proves equal to the source) *)
Theorem idm_solo_call : forall s i, t_pc (s_tasks s i) = PIdle ->
  exists k, (k <= CALL_STEPS)%nat /\
    let s' := run true s (repeat i k) in
    let '(r, f', c') := qthread_id (t_fld (s_tasks s i)) (s_ctr s) in
    t_pc (s_tasks s' i) = PIdle /\ t_rets (s_tasks s' i) = r :: t_rets (s_tasks s i) /\
    t_fld (s_tasks s' i) = f' /\ s_ctr s' = c' /\ forall j, j <> i -> s_tasks s' j = s_tasks s j.
Proof. exact idm_solo_call_thm. Qed.
Print Assumptions idm_solo_call.

(* ---------------- descriptor life cycle (Kernel/Reuse.v): spawn / id / get_tasklocal / write / finish with the two pools -------------- *)

(* a recycled (or fresh) descriptor starts unassigned, whatever id its previous owner had: the first qthread_id() of the new
   owner draws from the counter, and the value is not reserved *)
Theorem id_fresh_after_reuse : forall c junk s tid arg,
  aget (Tasklocal.s_tasks (r_tl s)) tid = None ->
  let s' := rspawn c junk s tid arg in
  exists d, desc_of s' tid = Some d /\ fld_of s' d = NON_TASK_ID /\ r_ctr s' = r_ctr s /\
    forall s'' r, rid s' tid = (s'', Some r) ->
      r = fst (id_alloc (r_ctr s)) /\ r <> NON_TASK_ID /\ r <> NULL_TASK_ID /\ live_fld s'' tid = Some r.
Proof. exact id_fresh_after_reuse_thm. Qed.
Print Assumptions id_fresh_after_reuse.

(* ... and its task-local storage starts in place, at the default size, without a blob *)
Theorem tl_fresh_after_reuse : forall c junk s tid arg,
  aget (Tasklocal.s_tasks (r_tl s)) tid = None ->
  let s' := rspawn c junk s tid arg in
  exists t, aget (Tasklocal.s_tasks (r_tl s')) tid = Some t /\ t_tlsz t = 0 /\ t_slot t = None /\
    size_tasklocal c (r_tl s') tid = Some (TL c) /\
    tl_region c (r_tl s') tid = Some (RDesc tid (tl_off c t) (TL c)) /\
    slot_of (r_tl s') tid = None /\ r_freed s' = r_freed s.
Proof. exact tl_fresh_after_reuse_thm. Qed.
Print Assumptions tl_fresh_after_reuse.

(* what the code does NOT do: the default area of a recycled small descriptor still holds the bytes it was released with *)
Theorem reuse_sees_previous_bytes : forall c junk s tid d rest bs,
  aget (Tasklocal.s_tasks (r_tl s)) tid = None -> r_free_s s = d :: rest -> aget (r_stale s) d = Some bs ->
  length bs = PTR + TL c ->
  let s' := rspawn c junk s tid [] in
  desc_of s' tid = Some d /\ tl_view c (r_tl s') tid = Some (firstn (TL c) bs).
Proof. exact reuse_sees_previous_bytes_thm. Qed.
Print Assumptions reuse_sees_previous_bytes.

(* the Tasklocal invariant (hence tl_private / tl_persist / tl_grow_preserves of Properties_C09.v) holds in every state reachable
   with recycling *)
Theorem reuse_tl_inv : forall c junk c0 ops, inv c (r_tl (rrun c junk (rinit c0) ops)).
Proof. exact reuse_tl_inv_thm. Qed.
Print Assumptions reuse_tl_inv.

(* every heap block (blob, realloc'ed blob, heap argument copy) is released at most once and is gone from the heap afterwards *)
Theorem blob_freed_once : forall c junk c0 ops,
  let s := rrun c junk (rinit c0) ops in
  NoDup (r_freed s) /\ forall b, In b (r_freed s) -> aget (s_heap (r_tl s)) b = None.
Proof. exact blob_freed_once_thm. Qed.
Print Assumptions blob_freed_once.

(* ... and a finished task's blocks ARE released, its descriptor returns to the front of its pool, the blob slot is zeroed *)
Theorem free_releases : forall c s tid t d,
  aget (Tasklocal.s_tasks (r_tl s)) tid = Some t -> aget (r_desc s) tid = Some d ->
  let s' := rfree c s tid in
  (forall b, In b (blocks_of t) -> In b (r_freed s')) /\
  aget (Tasklocal.s_tasks (r_tl s')) tid = None /\ desc_of s' tid = None /\
  (if t_big t then hd_error (r_free_b s') else hd_error (r_free_s s')) = Some d /\
  (t_tlsz t <> 0 -> tl_off c t + PTR <= length (t_data t) ->
   exists bs, aget (r_stale s') d = Some bs /\ slice bs (tl_off c t) PTR = repeat 0%N PTR).
Proof. exact free_releases_thm. Qed.
Print Assumptions free_releases.

(* a descriptor is never owned by two live tasks and never both owned and in a pool *)
Theorem descriptor_single_owner : forall c junk c0 ops,
  let s := rrun c junk (rinit c0) ops in
  (forall t1 t2 d, desc_of s t1 = Some d -> desc_of s t2 = Some d -> t1 = t2) /\
  (forall t d, desc_of s t = Some d -> ~ In d (r_free_s s) /\ ~ In d (r_free_b s)) /\
  NoDup (r_free_s s ++ r_free_b s).
Proof. exact descriptor_single_owner_thm. Qed.
Print Assumptions descriptor_single_owner.

(* identity with recycling: live tasks that have an id have pairwise different, non-reserved ids *)
Theorem reuse_live_ids_distinct : forall c junk c0 ops,
  (c0 < M64)%N -> (3 * N.of_nat (count_rid ops) < M32)%N ->
  let s := rrun c junk (rinit c0) ops in
  forall t1 t2 i1 i2, t1 <> t2 -> live_fld s t1 = Some i1 -> live_fld s t2 = Some i2 ->
    i1 <> NON_TASK_ID -> i2 <> NON_TASK_ID -> i1 <> i2 /\ i1 <> NULL_TASK_ID.
Proof. exact reuse_live_ids_distinct_thm. Qed.
Print Assumptions reuse_live_ids_distinct.
