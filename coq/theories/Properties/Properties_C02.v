(* C02: FEB waiters are always woken.  Statements only; proofs in Feb/Proofs.v *)
From Coq Require Import List ZArith NArith Bool.
Import ListNotations.
From QV Require Import Cell.Spec Feb.Model Feb.Proofs.

(* a transition to full (writeEF / writeEF_nb / writeF / fill on an empty word) releases every writeFF waiter, every readFF
   waiter and exactly min 1 |FEQ| readFE waiters, in this order, with the values of the linearisation *)
Theorem fill_releases : forall (r : rec) (v : Z) (t : N) (o : op),
  winv r -> r_full r = false -> fills o = true ->
  exists wr, word_step (Some r) v t o = Some wr /\
    wr_rel wr = map rel_of (fill_released r (written o v)) /\
    length (wr_rel wr) = (length (r_FFWQ r) + length (r_FFQ r) + Nat.min 1 (length (r_FEQ r)))%nat.
Proof. exact fill_releases_word. Qed.
Print Assumptions fill_releases.

(* a transition to empty (readFE / readFE_nb / empty / purge on a full word) releases exactly min 1 |EFQ| writeEF waiters *)
Theorem empty_releases : forall (r : rec) (v : Z) (t : N) (o : op),
  winv r -> r_full r = true -> empties o = true ->
  exists wr, word_step (Some r) v t o = Some wr /\
    wr_rel wr = map rel_of (empty_released r) /\
    length (wr_rel wr) = Nat.min 1 (length (r_EFQ r)).
Proof. exact empty_releases_word. Qed.
Print Assumptions empty_releases.

(* release_effect / no_spurious: the released operations are applied in the same step, each enabled where it stands
   (this is the linearisation of feb_word_refines); and afterwards nothing blocked is enabled *)
Theorem quiescent_after_step : forall (ro : option rec) (v : Z) (t : N) (o : op) (wr : wres),
  winv_opt ro -> word_step ro v t o = Some wr ->
  forall x, In x (pool_opt (wr_rec wr)) -> enabled (cell_of (wr_rec wr) (wr_val wr)) (snd x) = false.
Proof. exact quiescent_word. Qed.
Print Assumptions quiescent_after_step.

(* in every reachable state no blocked operation is enabled *)
Theorem quiescent_no_enabled_blocked : forall (l : list (N * gop)) (a : N) (r : rec) (x : waiter * cop),
  lookup a (st_febs (exec l)) = Some r -> In x (pool r) ->
  enabled (mkCell (r_full r) (memget a (exec l))) (snd x) = false.
Proof. exact quiescent_reachable. Qed.
Print Assumptions quiescent_no_enabled_blocked.

(* nascent (precondition) waiters are never scheduled directly *)
Theorem nascent_not_scheduled : forall (rs : list rel) (t : N) (c : code) (x : option Z),
  In (Ret t c x) (rel_events rs) -> In (t, false, x) rs /\ c = OK.
Proof. exact rel_events_no_nascent. Qed.
Print Assumptions nascent_not_scheduled.
