From Coq Require Import List Bool Arith NArith.
From QV Require Import Kernel.GenSpawnTable Kernel.Placement Kernel.Model.
Import ListNotations.
