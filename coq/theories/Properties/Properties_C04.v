(* C04: every spawned task runs exactly once with its argument - obligations (model: Kernel/Model.v) *)
From Coq Require Import List Bool Arith NArith.
From QV Require Import Kernel.GenSpawnTable Kernel.Placement Kernel.Model Kernel.ProofsKernel.
Import ListNotations.

Theorem C04_loc_unique : forall ns nw ac tr st,
  run (init ns nw ac) tr = Some st ->
  NoDup (map fst st.(places)) /\
  (forall t, t < st.(next) -> exists l, In (t, l) st.(places) /\ forall l', In (t, l') st.(places) -> l' = l).
Proof. exact loc_unique. Qed.
Print Assumptions C04_loc_unique.

Theorem C04_queued_at_most_once : forall ns nw ac tr st t s b s' b',
  run (init ns nw ac) tr = Some st ->
  In (t, InQueue s b) st.(places) -> In (t, InQueue s' b') st.(places) -> s = s' /\ b = b'.
Proof. exact queued_at_most_once. Qed.
Print Assumptions C04_queued_at_most_once.

Theorem C04_freed_only_from_terminated_on_worker : forall st l st' t,
  step st l = Some st' -> In (t, Freed) st'.(places) -> ~ In (t, Freed) st.(places) ->
  exists s w x, l = LFree s w t /\ place_of t st.(places) = Some (OnWorker s w) /\
                get_task t st.(tasks) = Some x /\ x.(t_state) = TERMINATED.
Proof. exact freed_only_from_terminated_on_worker. Qed.
Print Assumptions C04_freed_only_from_terminated_on_worker.

Theorem C04_nothing_refers_to_freed : forall ns nw ac tr1 tr2 st st' t,
  run (init ns nw ac) tr1 = Some st -> In (t, Freed) st.(places) -> run st tr2 = Some st' ->
  forall l, In (t, l) st'.(places) -> l = Freed.
Proof. exact nothing_refers_to_freed. Qed.
Print Assumptions C04_nothing_refers_to_freed.

Theorem C04_runs_once : forall ns nw ac tr st t x,
  run (init ns nw ac) tr = Some st -> get_task t st.(tasks) = Some x ->
  x.(t_started) <= 1 /\ (x.(t_state) = TERMINATED -> x.(t_started) = 1) /\
  (x.(t_started) = 0 <-> (x.(t_state) = NEW \/ x.(t_state) = NASCENT)).
Proof. exact runs_once. Qed.
Print Assumptions C04_runs_once.

Theorem C04_started_counts_first_exec : forall st l st' t x x',
  step st l = Some st' -> get_task t st.(tasks) = Some x -> get_task t st'.(tasks) = Some x' -> t < st.(next) ->
  x'.(t_started) = x.(t_started) \/
  (exists s w got, l = LExec s w t got /\ x.(t_state) = NEW /\ x'.(t_state) = RUNNING /\ x'.(t_started) = S x.(t_started)).
Proof. exact started_moves_only_at_first_exec. Qed.
Print Assumptions C04_started_counts_first_exec.

Theorem C04_arg_semantics : forall st caller row shep_param asize src pre st1 tr st2,
  step st (LSpawn caller row shep_param asize src pre) = Some st1 -> run st1 tr = Some st2 ->
  exists x, get_task st.(next) st2.(tasks) = Some x /\
            x.(t_arg) = (if row.(r_copy) && negb (N.eqb asize 0)
                         then Copy (mem_get src st.(mem)) (N.leb asize st.(argcopy))
                         else Ptr src).
Proof. exact arg_semantics. Qed.
Print Assumptions C04_arg_semantics.

Theorem C04_arg_copy_immune_to_scribble : forall st caller row shep_param asize src pre st1 junk tr st2,
  row.(r_copy) = true -> asize <> 0%N ->
  step st (LSpawn caller row shep_param asize src pre) = Some st1 -> run st1 (LStore src junk :: tr) = Some st2 ->
  exists x, get_task st.(next) st2.(tasks) = Some x /\ x.(t_arg) = Copy (mem_get src st.(mem)) (N.leb asize st.(argcopy)).
Proof. exact arg_copy_immune_to_scribble. Qed.
Print Assumptions C04_arg_copy_immune_to_scribble.

Theorem C04_exec_gets_spawn_argument : forall st s w t g st' x,
  step st (LExec s w t (Some g)) = Some st' -> get_task t st.(tasks) = Some x -> argv_eqb g x.(t_arg) = true.
Proof. exact exec_gets_spawn_argument. Qed.
Print Assumptions C04_exec_gets_spawn_argument.

(* the generated spawn table (read off the working tree) has the shape the variants' names promise: copyargs variants
   forward the size, _to variants forward the target, every variant forwards its argument; finite table, by computation *)
Definition row_of (v : nat) : option spawn_row :=
  option_map snd (find (fun p => fst p =? v) spawn_table).
Definition expect (v : nat) (copy to pre simple : bool) (ret team : nat) : bool :=
  match row_of v with
  | Some r => r.(r_arg) && Bool.eqb r.(r_copy) copy && Bool.eqb r.(r_to) to && Bool.eqb r.(r_precond) pre &&
              Bool.eqb r.(r_simple) simple && (r.(r_ret) =? ret) && (r.(r_team) =? team)
  | None => false
  end.
Theorem C04_spawn_table_sound :
  forallb (fun b => b)
    [ expect 0 false false false false 0 0; expect 1 false true false false 0 0; expect 2 true false false false 0 0;
      expect 3 true true false false 1 0 (* declared with a syncvar_t return location: /repo f9ee21a *); expect 4 false false false false 1 0; expect 5 false true false false 1 0;
      expect 6 true false false false 1 0; expect 7 true false false true 1 0; expect 8 false false true false 0 0;
      expect 9 false true true false 0 0; expect 10 false false true true 0 0; expect 11 true false true false 1 0;
      expect 12 false false false false 0 1; expect 13 false false false false 0 2; expect 14 false true false false 0 1;
      expect 15 false false false false 1 1; expect 16 false false false false 1 2; expect 17 true false false false 0 1;
      expect 18 true false false false 0 2; expect 19 true true false false 1 0; expect 20 false false false false 0 0 ] = true.
Proof. vm_compute. reflexivity. Qed.
Print Assumptions C04_spawn_table_sound.

(* non-vacuity: a reachable state in which a copied argument has been scribbled over, the task has run, terminated and
   been freed *)
Example C04_example :
  let row := mkRow true true false false false 0 0 false in
  exists st, run (init 2 2 1024) [LStore 7 [1; 2; 3]%N; LSpawn (Some (0, 0)) row None 3 7 false; LStore 7 [9; 9; 9]%N;
                                  LTake 1 0 0 1; LExec 1 0 1 (Some (Copy [1; 2; 3]%N true)); LYield 1; LPostYield 1 0 1;
                                  LTake 1 1 1 1; LExec 1 1 1 None; LEnd 1; LFree 1 1 1] = Some st
             /\ In (1, Freed) st.(places) /\ finished st = true.
Proof. eexists. vm_compute. split; [reflexivity|]. split; [left; reflexivity|reflexivity]. Qed.
