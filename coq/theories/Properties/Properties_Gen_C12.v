(* Regeneration tie for C12 (parallel loops): Loops.Model.split / maxworkers -- the functions the C12 theorems about
   qt_loop_balance and qt_loopaccum_balance are about -- are what the split loops of qt_loop_balance_inner and
   qt_loopaccum_balance_inner compute, as regenerated from src/qloop.c by tools/ctrans.py on every run (Gen/Qloop.v).
   Theorems only; proofs in Gen/Tie_Qloop.v. *)
From Coq Require Import ZArith List.
From QV Require Import Gen.CInt Gen.Qloop Gen.Tie_Qloop Loops.Model.
Local Open Scope Z_scope.

(* qwa[k].startat / qwa[k].stopat written by qt_loop_balance_inner = k-th pair of Model.split; maxworkers agrees *)
Theorem gen_c12_loop_balance_split :
  forall (fuel : nat) (start stop nw st : Z) (sa so : Z -> Z),
    0 <= start <= stop -> stop < 2 ^ 62 -> 0 <= nw < 65536 -> 0 <= st <= 3 ->
    0 < maxworkers start stop nw -> (Z.to_nat (maxworkers start stop nw) < fuel)%nat ->
    exists sa' so',
      qt_loop_balance_split fuel start stop st nw sa so = Some (maxworkers start stop nw, sa', so')
      /\ forall k, 0 <= k < maxworkers start stop nw ->
                   (sa' k, so' k) = nth (Z.to_nat k) (split start stop nw) (0, 0).
Proof. exact tie_loop_balance_split. Qed.
Print Assumptions gen_c12_loop_balance_split.

(* the same for qt_loopaccum_balance_inner (sync_type SYNCVAR_T, SINC_T or DONECOUNT: the others abort) *)
Theorem gen_c12_loopaccum_balance_split :
  forall (fuel : nat) (start stop nw st : Z) (sa so : Z -> Z),
    0 <= start <= stop -> stop < 2 ^ 62 -> 0 <= nw < 65536 -> 1 <= st <= 3 ->
    0 < maxworkers start stop nw -> (Z.to_nat (maxworkers start stop nw) < fuel)%nat ->
    exists sa' so',
      qt_loopaccum_balance_split fuel start stop st nw sa so = Some (maxworkers start stop nw, sa', so')
      /\ forall k, 0 <= k < maxworkers start stop nw ->
                   (sa' k, so' k) = nth (Z.to_nat k) (split start stop nw) (0, 0).
Proof. exact tie_loopaccum_balance_split. Qed.
Print Assumptions gen_c12_loopaccum_balance_split.
