(* Regeneration tie for C12 (parallel loops): Loops.Model.split / maxworkers -- the functions the C12 theorems about
   qt_loop_balance and qt_loopaccum_balance are about -- are what the split loops of qt_loop_balance_inner and
   qt_loopaccum_balance_inner compute, as regenerated from src/qloop.c by tools/ctrans.py on every run (Gen/Qloop.v).
   Theorems only; proofs in Gen/Tie_Qloop.v. *)
From Coq Require Import ZArith List.
From QV Require Import Gen.CInt Gen.Qloop Gen.Tie_Qloop Gen.Tie_QloopCursor Loops.Model.
Local Open Scope Z_scope.

(* qwa[k].startat / qwa[k].stopat written by qt_loop_balance_inner = k-th pair of Model.split; maxworkers agrees *)
Theorem gen_c12_loop_balance_split :
  forall (fuel : nat) (start stop nw st : Z) (sa so : Z -> Z),
    0 <= start <= stop -> stop < 2 ^ 62 -> 0 <= nw < 65536 -> 0 <= st <= 3 ->
    0 < maxworkers start stop nw -> (Z.to_nat (maxworkers start stop nw) < fuel)%nat ->
    exists sa' so',
      qt_loop_balance_split fuel start stop st nw sa so = Some (maxworkers start stop nw, sa', so')
      /\ forall k, 0 <= k < maxworkers start stop nw ->
                   (sa' k, so' k) = nth (Z.to_nat k) (split start stop nw) (0, 0).
Proof. exact tie_loop_balance_split. Qed.
Print Assumptions gen_c12_loop_balance_split.

(* the same for qt_loopaccum_balance_inner (sync_type SYNCVAR_T, SINC_T or DONECOUNT: the others abort) *)
Theorem gen_c12_loopaccum_balance_split :
  forall (fuel : nat) (start stop nw st : Z) (sa so : Z -> Z),
    0 <= start <= stop -> stop < 2 ^ 62 -> 0 <= nw < 65536 -> 1 <= st <= 3 ->
    0 < maxworkers start stop nw -> (Z.to_nat (maxworkers start stop nw) < fuel)%nat ->
    exists sa' so',
      qt_loopaccum_balance_split fuel start stop st nw sa so = Some (maxworkers start stop nw, sa', so')
      /\ forall k, 0 <= k < maxworkers start stop nw ->
                   (sa' k, so' k) = nth (Z.to_nat k) (split start stop nw) (0, 0).
Proof. exact tie_loopaccum_balance_split. Qed.
Print Assumptions gen_c12_loopaccum_balance_split.

(* ---- queue-loop cursors (the qqloop_get_iterations functions): the arithmetic between the shared accesses; CAS / fetch-add are
   oracle parameters and the theorems say with which arguments they are called *)
Theorem gen_c12_guided_claim :
  forall (p : params) (cas : Z -> Z -> Z) (ret : Z),
    0 <= ret <= p_stop p -> p_stop p < B62 -> 0 < p_sheps p < 65536 ->
    qq_guided_claim cas ret (p_sheps p) (p_stop p) = Some (guided_it p ret, cas ret (ret + guided_it p ret)).
Proof. exact tie_guided_claim. Qed.
Print Assumptions gen_c12_guided_claim.

Theorem gen_c12_factored_phase :
  forall (p : params) (cas : Z -> Z -> Z) (ret ph : Z),
    0 <= ret <= p_stop p -> p_stop p < B62 -> 0 < p_sheps p < 65536 ->
    qq_factored_phase cas ph ret (p_sheps p) (p_stop p) = Some (cas ph (fact_target p ret ph)).
Proof. exact tie_factored_phase. Qed.
Print Assumptions gen_c12_factored_phase.

Theorem gen_c12_factored_claim :
  forall (p : params) (cas : Z -> Z -> Z) (ret ph : Z),
    0 <= ret <= p_stop p -> 0 <= ph <= p_stop p -> p_stop p < B62 -> 0 < p_sheps p < 65536 ->
    qq_factored_claim cas ph ret (p_sheps p) (p_stop p) = Some (fact_it p ph, cas ret (ret + fact_it p ph)).
Proof. exact tie_factored_claim. Qed.
Print Assumptions gen_c12_factored_claim.

(* chunked: the range handed out after the fetch-add returned cur1 is the claim of the model's C_faa step at cur1 *)
Theorem gen_c12_chunked :
  forall (p : params) (ph : Z) (lb : Z -> Z) (fst_ : bool) (shep cur0 cur1 : Z),
    cur0 < p_stop p -> 0 <= cur1 -> 0 <= cur0 -> p_stop p < B62 -> cur1 < B62 -> 0 <= p_chunk p < B62 ->
    qq_chunked (fun _ => cur1) cur0 (p_step p) (p_stop p) (p_chunk p)
    = Some (match option_map e_claim (tstep p false cur1 ph lb (mkT C_faa fst_ shep)) with
            | Some (Some (lo, hi)) => (lo, hi, 1)
            | _ => (0, 0, 0)
            end).
Proof. exact tie_chunked. Qed.
Print Assumptions gen_c12_chunked.

(* timed: the block size (slow-path formula, clamp to the end) and the arguments of the CAS on iq->start *)
Theorem gen_c12_timed_block :
  forall (p : params) (cas : Z -> Z -> Z) (ls db : Z) (slow : bool),
    0 <= ls <= p_stop p -> p_stop p < B62 -> 0 < p_sheps p < 65536 -> 0 < p_step p < 2147483648 -> 0 <= db < B62 ->
    match (if slow then qq_timed_slow ls (p_step p) (p_stop p) (p_sheps p) else Some db) with
    | Some d => qq_timed_claim cas d ls (p_stop p)
    | None => None
    end = Some (timed_block p ls db slow, cas ls (ls + timed_block p ls db slow)).
Proof. exact tie_timed_block. Qed.
Print Assumptions gen_c12_timed_block.
