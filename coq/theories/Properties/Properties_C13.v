(* C13 -- data-parallel utilities equal their sequential definition: the property theorems.
   Models: Util/Reduce.v, Util/Sort.v, Util/Allpairs.v (extracted and compared with the real code on every run). *)
From Coq Require Import List Arith NArith ZArith Permutation.
From QV Require Import Util.Reduce Util.ReduceProofs Util.Sort Util.SortProofs Util.SortCorrect Util.MergeCorrect Util.Strided Util.StridedThread Util.StridedPass Util.SortFinal Util.Allpairs Util.AllpairsProofs.
Import ListNotations.

(* the worker ranges of qt_loopaccum_balance_inner tile [start,stop): non-empty, consecutive, min(len,workers) of them,
   sizes differing by at most one -- every length >= 1 (also below the worker count), every worker count >= 1 *)
Theorem loopaccum_split_partition : forall start stop workers, start < stop -> 1 <= workers ->
  Chain start (loopaccum_ranges start stop workers) stop /\
  length (loopaccum_ranges start stop workers) = Nat.min (stop - start) workers /\
  (forall r, In r (loopaccum_ranges start stop workers) ->
     snd r - fst r = (stop - start) / Nat.min (stop - start) workers \/
     snd r - fst r = S ((stop - start) / Nat.min (stop - start) workers)).
Proof. exact ReduceProofs.loopaccum_split_partition. Qed.
Print Assumptions loopaccum_split_partition.

(* qt_loopaccum_balance / _sv / _dc and qt_{uint,int,double}_{sum,prod,max,min}: any associative operator *)
Theorem loopaccum_eq_fold : forall (V : Type) (op : V -> V -> V) (dflt : V),
  (forall x y z, op (op x y) z = op x (op y z)) ->
  forall a start stop workers, start < stop -> stop <= length a -> 1 <= workers ->
  loopaccum V op dflt a start stop workers = seqfold V op dflt (slice V a start stop).
Proof. exact ReduceProofs.loopaccum_eq_fold_assoc. Qed.
Print Assumptions loopaccum_eq_fold.

(* qt_loopaccum_balance_sinc: any assignment of the partials to the sinc's per-worker slots, any submission order *)
Theorem loopaccum_sinc_eq_fold : forall (V : Type) (op : V -> V -> V) (dflt : V),
  (forall x y z, op (op x y) z = op x (op y z)) -> (forall x y, op x y = op y x) ->
  forall e, (forall x, op e x = x) ->
  forall a start stop workers slots, start < stop -> stop <= length a -> 1 <= workers ->
  Permutation (concat slots) (partials V op dflt a start stop workers) ->
  sinc_collate V op e slots = seqfold V op dflt (slice V a start stop).
Proof. exact ReduceProofs.loopaccum_sinc_eq_fold. Qed.
Print Assumptions loopaccum_sinc_eq_fold.

(* qutil_{uint,int,double}_{sum,mult,max,min}: chained chunks, any chunk size >= 1, any associative-commutative operator *)
Theorem chunked_reduce_eq_fold : forall (V : Type) (op : V -> V -> V) (dflt : V),
  (forall x y z, op (op x y) z = op x (op y z)) -> (forall x y, op x y = op y x) ->
  forall C a, 1 <= C -> a <> [] -> qutil_reduce V op dflt C a = seqfold V op dflt a.
Proof. exact ReduceProofs.chunked_reduce_eq_fold. Qed.
Print Assumptions chunked_reduce_eq_fold.

(* floating point (no law assumed for the operator): the result is the value of some bracketing of the operands,
   in index order for loopaccum, of a permutation of them for the qutil chain *)
Theorem loopaccum_reassoc : forall (V : Type) (op : V -> V -> V) (dflt : V) a start stop workers,
  start < stop -> stop <= length a -> 1 <= workers ->
  exists t, eval V op t = loopaccum V op dflt a start stop workers /\ leaves V t = slice V a start stop.
Proof. exact ReduceProofs.loopaccum_reassoc. Qed.
Print Assumptions loopaccum_reassoc.

Theorem chunked_reduce_reassoc : forall (V : Type) (op : V -> V -> V) (dflt : V) C a, 1 <= C -> a <> [] ->
  exists t, eval V op t = qutil_reduce V op dflt C a /\ Permutation (leaves V t) a.
Proof. exact ReduceProofs.chunked_reduce_reassoc. Qed.
Print Assumptions chunked_reduce_reassoc.

(* the integer operators of the kernels satisfy the laws: + and * mod 2^64 (unsigned and two's complement), max, min *)
Theorem integer_operators_ac :
  (forall x y z, u_add (u_add x y) z = u_add x (u_add y z)) /\ (forall x y, u_add x y = u_add y x) /\
  (forall x y z, u_mul (u_mul x y) z = u_mul x (u_mul y z)) /\ (forall x y, u_mul x y = u_mul y x) /\
  (forall x y z, s_add (s_add x y) z = s_add x (s_add y z)) /\ (forall x y, s_add x y = s_add y x) /\
  (forall x y z, s_mul (s_mul x y) z = s_mul x (s_mul y z)) /\ (forall x y, s_mul x y = s_mul y x) /\
  (forall x y z, z_max (z_max x y) z = z_max x (z_max y z)) /\ (forall x y, z_max x y = z_max y x) /\
  (forall x y z, z_min (z_min x y) z = z_min x (z_min y z)) /\ (forall x y, z_min x y = z_min y x).
Proof.
  exact (conj u_add_assoc (conj u_add_comm (conj u_mul_assoc (conj u_mul_comm (conj s_add_assoc (conj s_add_comm
        (conj s_mul_assoc (conj s_mul_comm (conj z_max_assoc (conj z_max_comm (conj z_min_assoc z_min_comm))))))))))).
Qed.
Print Assumptions integer_operators_ac.

(* ---------------------------------------------------------------------- sorts *)
(* sort_permutation -- qutil_qsort, qutil_aligned_qsort, qt_qsort are the instances P = qutil_params / qt_params of
   qsort_inner_gen true true (the code as it is now; the other flag values are the code before the pivot-is-maximum
   rule / before the no-progress exit of the partition loop): for every comparison, parameter record, rule, input,
   fuel and segment, a run that returns has only permuted the allocation (every mutation is a SWAP inside it;
   the sort used below the cutoff is assumed to permute its segment). *)
Theorem sort_permutation : forall (V : Type) (leb : V -> V -> bool) (dflt : V) (bound : N)
  (base_sort : arr V -> N -> N -> arr V) (P : params),
  (forall a b len, (b + len <= bound)%N ->
     Permutation (to_list V dflt a bound) (to_list V dflt (base_sort a b len) bound)) ->
  forall newrule stall_exit fuel wfuel a b len a',
  qsort_inner_gen V leb dflt bound base_sort P newrule stall_exit fuel wfuel a b len = Some a' ->
  Permutation (to_list V dflt a bound) (to_list V dflt a' bound).
Proof. exact SortProofs.qsort_permutation. Qed.
Print Assumptions sort_permutation.

(* the parallel-partition loop with the no-progress exit terminates: when every pass returns, gap+1 passes suffice
   (the gap strictly shrinks on every pass that does not leave the loop) *)
Theorem partition_loop_terminates : forall (V : Type) (leb : V -> V -> bool) (dflt : V) (bound : N) (P : params)
  wfuel a b thresh pivot lwall rwall,
  (forall a0 b0 l0 p0, partitioner V leb dflt bound P a0 b0 l0 p0 <> None) ->
  (N.to_nat (rwall - lwall) < wfuel)%nat ->
  walls V leb dflt bound P true wfuel a b thresh pivot lwall rwall <> None.
Proof. exact SortProofs.walls_terminates. Qed.
Print Assumptions partition_loop_terminates.

(* ---- "terminate and leave a sorted permutation" ----
   OrderOK: the comparison is total and transitive.  BaseSortOK: the sort used below the cutoff (libc qsort,
   drf_qsort_dbl/_algt) returns its segment sorted and only rearranged.  SortedSeg a 0 len: a[i] <= a[j] for all
   i <= j < len.  Fuel is explicit: length + 1.  No other hypothesis. *)

(* one pass of the strided multi-thread partitioner (sub-array [b', b'+len') holding at least one chunk per thread):
   it returns, rearranges only the sub-array, its walls (l, r) have everything below l (up to r) <= pivot and everything
   above r > pivot.  Proof: per-thread Hoare walk along the enumeration idx of the thread's slice (StridedThread), the
   megachunk length computation = exactly the slice elements inside the sub-array, threads touch disjoint slices, walls
   merged by min / max (StridedPass). *)
Theorem strided_pass_correct : forall (V : Type) (leb : V -> V -> bool) (dflt : V) (bound : N) (P : params) (L : N),
  strided_pass_post V leb dflt bound P L.
Proof. exact SortFinal.strided_pass_post_holds. Qed.
Print Assumptions strided_pass_correct.

(* every well-formed parameter record (ParamsWF: above the cutoff, every gap larger than the threshold holds at least one
   chunk per partition thread), every array, every length *)
Theorem qsort_returns_sorted_permutation :
  forall (V : Type) (leb : V -> V -> bool) (dflt : V) (bound : N) bs (P : params) L wfuel,
  OrderOK V leb -> BaseSortOK V leb dflt bound bs -> ParamsWF P L ->
  forall a len, (0 < len)%N -> (len <= L)%N -> (len <= bound)%N ->
  exists a', qsort_inner V leb dflt bound bs P (S (N.to_nat len)) wfuel a 0%N len = Some a' /\
             Permutation (to_list V dflt a bound) (to_list V dflt a' bound) /\
             SortedSeg V leb dflt a' 0%N len /\ (forall k, (len <= k)%N -> aget V dflt a' k = aget V dflt a k).
Proof. exact SortFinal.qsort_returns_sorted_permutation. Qed.
Print Assumptions qsort_returns_sorted_permutation.

(* qutil_qsort and qutil_aligned_qsort (cache line 64, MT_LOOP_CHUNK 10000): every array of every length *)
Theorem qutil_qsort_sorted_permutation :
  forall (V : Type) (leb : V -> V -> bool) (dflt : V) (bound : N) bs wfuel,
  OrderOK V leb -> BaseSortOK V leb dflt bound bs ->
  forall a len, (0 < len)%N -> (len <= bound)%N ->
  exists a', qsort_inner V leb dflt bound bs (qutil_params 64 10000) (S (N.to_nat len)) wfuel a 0%N len = Some a' /\
             Permutation (to_list V dflt a bound) (to_list V dflt a' bound) /\
             SortedSeg V leb dflt a' 0%N len /\ (forall k, (len <= k)%N -> aget V dflt a' k = aget V dflt a k).
Proof. exact SortFinal.qutil_qsort_sorted_permutation. Qed.
Print Assumptions qutil_qsort_sorted_permutation.

(* qt_qsort on ns shepherds: every array of every length (side condition true for ns <= 44: SortFinal.qt_side_condition) *)
Theorem qt_qsort_sorted_permutation :
  forall (V : Type) (leb : V -> V -> bool) (dflt : V) (bound : N) bs ns wfuel,
  OrderOK V leb -> BaseSortOK V leb dflt bound bs -> (0 < ns)%N -> (10 * ns <= 2 * (10001 / ns))%N ->
  forall a len, (0 < len)%N -> (len <= bound)%N ->
  exists a', qsort_inner V leb dflt bound bs (qt_params ns) (S (N.to_nat len)) wfuel a 0%N len = Some a' /\
             Permutation (to_list V dflt a bound) (to_list V dflt a' bound) /\
             SortedSeg V leb dflt a' 0%N len /\ (forall k, (len <= k)%N -> aget V dflt a' k = aget V dflt a k).
Proof. exact SortFinal.qt_qsort_sorted_permutation. Qed.
Print Assumptions qt_qsort_sorted_permutation.

(* the index arithmetic of the strided threads used by strided_pass_correct.
   idx k = (k / cs) * (cs*nt) + k mod cs enumerates, in increasing order, the local indices a thread owns; the code's
   left / right steps are exactly next / previous in that enumeration (no previous before the first), and the slices
   t*cs + idx k, t < nt, of the threads are pairwise disjoint and cover every index. *)
Theorem strided_steps_enumerate : forall (P : params) (nt : N), (0 < p_chunk P)%N -> (0 < nt)%N ->
  let jump := ((nt - 1) * p_chunk P + 1)%N in
  (forall k, lstep P jump (idx P nt k) = idx P nt (k + 1)) /\
  (forall k, rstep P jump (idx P nt (k + 1)) = Some (idx P nt k)) /\
  rstep P jump (idx P nt 0) = None /\
  (forall k, (idx P nt k < idx P nt (k + 1))%N).
Proof.
  intros P nt H1 H2. split; [|split; [|split]].
  - apply Strided.lstep_idx; assumption.
  - apply Strided.rstep_idx_succ; assumption.
  - apply Strided.rstep_idx_0; assumption.
  - apply Strided.idx_increasing; assumption.
Qed.
Print Assumptions strided_steps_enumerate.

Theorem strided_slices_partition : forall (P : params) (nt : N), (0 < p_chunk P)%N -> (0 < nt)%N ->
  (forall j, exists t k, (t < nt)%N /\ j = (t * p_chunk P + idx P nt k)%N) /\
  (forall t k t' k', (t < nt)%N -> (t' < nt)%N ->
     (t * p_chunk P + idx P nt k = t' * p_chunk P + idx P nt k')%N -> t = t' /\ k = k').
Proof.
  intros P nt H1 H2. split.
  - apply Strided.slice_decompose; assumption.
  - apply Strided.slice_unique; assumption.
Qed.
Print Assumptions strided_slices_partition.

(* qutil_mergesort (presort of chunks of 10 by the cutoff sort, rounds of in-place merges, run length doubling):
   for every array of every length n >= 1 the call returns a sorted permutation, the rest of the memory is untouched.
   (merge of two sorted runs by rotation: sorted + permutation; rounds: runs of length cs -> 2cs; log2(n)+1 rounds suffice) *)
Theorem mergesort_sorted_permutation :
  forall (V : Type) (leb : V -> V -> bool) (dflt : V) bs (n : N),
  OrderOK V leb -> BaseSortOK V leb dflt n bs -> (0 < n)%N ->
  forall a, Permutation (to_list V dflt a n) (to_list V dflt (mergesort V leb dflt bs a n) n) /\
            SortedSeg V leb dflt (mergesort V leb dflt bs a n) 0%N n /\
            (forall k, (n <= k)%N -> aget V dflt (mergesort V leb dflt bs a n) k = aget V dflt a k).
Proof. exact MergeCorrect.mergesort_sorted_permutation. Qed.
Print Assumptions mergesort_sorted_permutation.

(* regression (Examples in Util/SortProofs.v): qsort_const_diverged_old -- the code before the pivot rule recurses for ever
   on equal elements (qsort_old_stuck: the mechanism); qsort_stall_old_rule -- the partition loop before the no-progress
   exit repeats the same pass; qsort_const_returns / qsort_mostly_max_returns / qsort_stall_fixed -- the current rules return. *)

(* ---------------------------------------------------------------------- allpairs *)
(* allpairs_exact: every unit-to-sub-queue assignment, every number of workers >= 1, every schedule: no unit is
   ever lost or duplicated, and when all workers have left every unit has been processed exactly once *)
Theorem allpairs_exact : forall (units : list (nat * N)) (k : nat) (sched : list apstep), 0 < k ->
  let s := ap_run (ap_init units k) sched in
  Permutation (map snd units) (content s) /\
  (all_done s = true -> Permutation (map snd units) (ap_processed s)).
Proof. exact AllpairsProofs.allpairs_exact. Qed.
Print Assumptions allpairs_exact.

(* the pre-fix worker protocol (reverted 20d2f8a) is refuted by a schedule *)
Theorem allpairs_ptrtest_refuted : exists units k sched,
  let s := fold_left ap_step_ptrtest sched (ap_init units k) in
  all_done s = true /\ ap_processed s = [] /\ concat (ap_queues s) <> [].
Proof.
  exists [(0, 10%N); (1, 11%N)], 2, [SWork 0 None; SWork 0 None; SWork 1 None; SWork 1 None; SGen; SGen; SGen].
  vm_compute. repeat split. discriminate.
Qed.
Print Assumptions allpairs_ptrtest_refuted.
