(* Hashmap — qt_hash (src/hashmap.c), the record table behind FEB words (C01) and syncvars (C03).
   Property theorems only; proofs in Hashmap/Proofs_{Scan,Arith,Inv,Main,Extra}.v, model in Hashmap/Model.v
   (tied to /repo by the M1 run of lib/verif/props/_hashmap.py, called from ./check C01 and ./check C03).
   bs = 2^lb is the bucket size (cache line / 16), me = 2^lm the minimum table size (page size / 8). *)
From Coq Require Import List NArith Bool.
From QV Require Import Hashmap.Model Hashmap.Proofs_Scan Hashmap.Proofs_Arith Hashmap.Proofs_Inv Hashmap.Proofs_Main Hashmap.Proofs_Extra.
Import ListNotations.
Local Open Scope N_scope.

(* Refinement of a finite map, for EVERY operation sequence from qt_hash_create that respects the callers' contract
   (regular keys; a key is put only while it is absent): every return value - put's and remove's codes, get's value,
   count - is the one of the finite map `spec_run` (get = value of the latest put not followed by a remove, count =
   number of bound keys). *)
Theorem hashmap_refines_finite_map :
  forall lb lm os, lb <= lm -> 3 <= lm -> guarded (fun _ => None) os ->
    fst (run (2 ^ lb) (2 ^ lm) (create (2 ^ lb) (2 ^ lm)) os) = spec_run (fun _ => None) 0 os.
Proof. intros lb lm os H1 H2 G. exact (proj1 (m_run_refines lb lm H1 H2 os _ _ _ (m_create_rel lb lm H1 H2) G)). Qed.
Print Assumptions hashmap_refines_finite_map.

(* ... and the table invariant holds after every such sequence. *)
Theorem hashmap_invariant_every_sequence :
  forall lb lm os, lb <= lm -> 3 <= lm -> guarded (fun _ => None) os ->
    wf lb lm (snd (run (2 ^ lb) (2 ^ lm) (create (2 ^ lb) (2 ^ lm)) os)).
Proof. intros lb lm os H1 H2 G. exact (proj2 (m_run_refines lb lm H1 H2 os _ _ _ (m_create_rel lb lm H1 H2) G)). Qed.
Print Assumptions hashmap_invariant_every_sequence.

(* What the invariant is: size a power of two >= me, the mask, population = number of live slots, deletes = number of
   deleted slots, load bound (a never-used slot always exists), every live key is reached by the code's own probe
   sequence (qt_hash_internal_find returns exactly its slot), no key is stored twice. *)
Theorem hashmap_invariant_content :
  forall lb lm h, lb <= lm -> 3 <= lm -> wf lb lm h ->
  (exists a, lm <= a /\ nent h = 2 ^ a) /\
  mask h = N.ldiff (nent h - 1) (2 ^ lb - 1) /\
  length (ents h) = N.to_nat (nent h) /\
  pop h = nlive (ents h) /\ dels h = ndel (ents h) /\
  pop h + dels h < nent h /\
  (forall i, i < nent h -> 1 < key_at (ents h) i -> find_slot (2 ^ lb) h (key_at (ents h) i) = Some i) /\
  (forall i j, i < nent h -> j < nent h -> 1 < key_at (ents h) i -> key_at (ents h) i = key_at (ents h) j -> i = j).
Proof. exact wf_facts. Qed.
Print Assumptions hashmap_invariant_content.

(* The rehash step (growth, shrink, tidy-up at the same size - any target length) never loses or duplicates a binding:
   the abstraction (what a lookup of any regular key observes) is unchanged, the population is unchanged, the deleted
   slots are gone, the invariant holds. *)
Theorem hashmap_rehash_preserves_abstraction :
  forall lb lm h len, lb <= lm -> 3 <= lm -> wf lb lm h -> 0 < len ->
    wf lb lm (brehash (2 ^ lb) (2 ^ lm) h len) /\ dels (brehash (2 ^ lb) (2 ^ lm) h len) = 0 /\
    pop (brehash (2 ^ lb) (2 ^ lm) h len) = pop h /\ len <= nent (brehash (2 ^ lb) (2 ^ lm) h len) /\
    (forall K, 2 <= K -> lookup lb h K = lookup lb (brehash (2 ^ lb) (2 ^ lm) h len) K).
Proof. intros lb lm h len H1 H2. exact (m_brehash_abs lb lm H1 H2 h len). Qed.
Print Assumptions hashmap_rehash_preserves_abstraction.

(* Single operations on any table that satisfies the invariant.  put of an absent regular key: returns 1, binds it,
   changes no other key, population + 1, never shrinks the table. *)
Theorem hashmap_put_absent :
  forall lb lm h K v, lb <= lm -> 3 <= lm -> wf lb lm h -> 2 <= K -> find_slot (2 ^ lb) h K = None ->
    put_ok lb lm h K v (put (2 ^ lb) (2 ^ lm) h K v).
Proof. intros lb lm h K v H1 H2. exact (m_put_ok lb lm H1 H2 h K v). Qed.
Print Assumptions hashmap_put_absent.

(* remove: returns 1 exactly when the key was bound, unbinds it, changes no other key, population - 1. *)
Theorem hashmap_remove :
  forall lb lm h K, lb <= lm -> 3 <= lm -> wf lb lm h -> 2 <= K ->
    remove_post lb lm h K (remove (2 ^ lb) (2 ^ lm) h K).
Proof. intros lb lm h K H1 H2. exact (m_remove_ok lb lm H1 H2 h K). Qed.
Print Assumptions hashmap_remove.

(* get returns what the lookup observes (0 = NULL when unbound). *)
Theorem hashmap_get :
  forall lb h K, 2 <= K -> get (2 ^ lb) h K = match lookup lb h K with Some v => v | None => 0 end.
Proof. exact get_spec. Qed.
Print Assumptions hashmap_get.

(* The probing scheme: with 2^a entries and buckets of 2^lb, every probe stays inside the table and the walk with the
   odd step visits every slot before it returns to its start. *)
Theorem hashmap_probe_covers_table :
  forall lb a h K, lb <= a -> nent h = 2 ^ a -> mask h = N.ldiff (2 ^ a - 1) (2 ^ lb - 1) ->
    (forall s, In s (slots (2 ^ lb) h K) -> s < nent h) /\ (forall z, z < nent h -> In z (slots (2 ^ lb) h K)).
Proof. intros lb a h K H Hn Hm. split; [exact (slots_bound lb a H h K Hn Hm)|exact (slots_cover lb a H h K Hn Hm)]. Qed.
Print Assumptions hashmap_probe_covers_table.

(* ------------------------------------------------------------------ where hashmap.c is NOT a finite map (outside the guard) *)
(* (a) reserved keys: brehash starts its copy counter at has_key[0] + has_key[1] although population does not count
   them, so a growth while key 0 or 1 is stored drops live entries.  85 distinct keys put, none removed: key 73 is
   gone and count is 84.  The full statement "growth never loses a binding" is therefore refuted without the guard. *)
Theorem hashmap_reserved_key_growth_loses_binding_refuted :
  forallb (fun o => match o with OPut _ _ => true | _ => false end) w_reserved = true /\
  nth 72 w_reserved OCount = OPut 73 173 /\
  fst (run 4 8 (create 4 8) w_reserved) = repeat 1 85 /\
  get 4 (snd (run 4 8 (create 4 8) w_reserved)) 73 = 0 /\
  count (snd (run 4 8 (create 4 8) w_reserved)) = 84.
Proof. exact reserved_key_witness. Qed.
Print Assumptions hashmap_reserved_key_growth_loses_binding_refuted.

(* (b) put of a PRESENT key: found in the home bucket it returns PUT_COLLISION and keeps the value, found further down
   the chain it replaces the value and returns 1, and when an earlier bucket has a deleted slot it stores a second
   copy: after remove (1) a get answers the old value (306). *)
Theorem hashmap_put_present_key_duplicates_refuted :
  fst (run 4 8 (create 4 8) w_existing) = [1; 1; 1; 1; 1; 1; 1; 999; 1; 306; 4].
Proof. exact existing_key_witness. Qed.
Print Assumptions hashmap_put_present_key_duplicates_refuted.

(* (c) shrink_size is never refreshed by brehash: for every sequence and every key it keeps its creation-time value;
   with 4 KiB pages that value is 0, so the shrink branch of qt_hash_remove_locked is dead code there. *)
Theorem hashmap_shrink_size_never_refreshed :
  forall bs me os, shrink (snd (run bs me (create bs me) os)) = shrink (create bs me).
Proof. intros bs me os. exact (run_shrink bs me os (create bs me)). Qed.
Print Assumptions hashmap_shrink_size_never_refreshed.

Theorem hashmap_shrink_dead_with_4k_pages :
  forall os, shrink (snd (run 4 512 (create 4 512) os)) = 0.
Proof. exact shrink_dead_4k. Qed.
Print Assumptions hashmap_shrink_dead_with_4k_pages.

(* ------------------------------------------------------------------ non-vacuity: a guarded sequence (bs = 4, me = 8) that
   crosses a growth 128 -> 256 and two shrinks 256 -> 128 -> 64; the theorems above apply to it (lb = 2, lm = 3). *)
Theorem hashmap_example_crosses_growth_and_shrink :
  guardedb (fun _ => None) ex_ops = true /\
  nent (create 4 8) = 128 /\
  nent (snd (run 4 8 (create 4 8) (firstn 90 ex_ops))) = 256 /\
  nent (snd (run 4 8 (create 4 8) ex_ops)) = 64 /\
  skipn 181 (fst (run 4 8 (create 4 8) ex_ops)) = [1; 4809; 0].
Proof. exact ex_ops_facts. Qed.
Print Assumptions hashmap_example_crosses_growth_and_shrink.

Theorem hashmap_guard_is_decidable :
  forall os m, guardedb m os = true -> guarded m os.
Proof. exact guardedb_sound. Qed.
Print Assumptions hashmap_guard_is_decidable.
