(* C04 progress (extension M): completion, not only safety - obligations.
   Model: Kernel/Progress.v (Kernel/Model.v composed with the sherwood queues of TQueue/Model.v). *)
From Coq Require Import List Bool Arith NArith ZArith.
From QV Require Import Kernel.GenSpawnTable Kernel.Placement Kernel.Model Kernel.Progress Kernel.ProgressInv Kernel.ProgressProofs.
Import ListNotations.

(* the kernel component of every composed execution is a kernel run: all theorems of Properties_C04 / Properties_C07 about
   runs of Kernel.Model apply to every reachable composed state *)
Theorem C04p_composed_refines_kernel : forall ns nw ac chunk prog es c,
  crun (cinit ns nw ac chunk prog) es = Some c -> exists tr, run (init ns nw ac) tr = Some c.(ck).
Proof. exact composed_refines_kernel_l. Qed.
Print Assumptions C04p_composed_refines_kernel.

Theorem C04p_spawn_failure_leaves_no_trace : forall st caller row shep_param asize src pre rc,
  rc <> 0 ->
  exists st', spawn_call st caller row shep_param asize src pre (Some rc) = SpawnFailed rc st' /\
              st' = st /\ st'.(places) = st.(places) /\ st'.(tasks) = st.(tasks) /\ st'.(next) = st.(next).
Proof. exact spawn_failure_leaves_no_trace_l. Qed.
Print Assumptions C04p_spawn_failure_leaves_no_trace.

Theorem C04p_spawn_success_is_LSpawn : forall st caller row shep_param asize src pre ret_rc st',
  ret_rc = None \/ ret_rc = Some 0 ->
  (spawn_call st caller row shep_param asize src pre ret_rc = SpawnOk st' <->
   step st (LSpawn caller row shep_param asize src pre) = Some st').
Proof. exact spawn_success_is_LSpawn_l. Qed.
Print Assumptions C04p_spawn_success_is_LSpawn.

Theorem C04p_failed_spawn_in_body : forall c s w c' t l x row sp asize src rest,
  worker_ref s w c.(ck).(places) = Some (t, l) -> get_task t c.(ck).(tasks) = Some x ->
  get_prog t c.(cprog) = Some (BSpawnFail row sp asize src :: rest) ->
  cstep c (EBody s w) = Some c' -> c'.(ck) = c.(ck) /\ c'.(cs) = c.(cs) /\ get_prog t c'.(cprog) = Some rest.
Proof. exact failed_spawn_in_body_l. Qed.
Print Assumptions C04p_failed_spawn_in_body.
