(* C04 progress (extension M): completion, not only safety - obligations.
   Model: Kernel/Progress.v (Kernel/Model.v composed with the sherwood queues of TQueue/Model.v; task bodies are finite
   lists of operations; the only way a queued task starts is a scheduler event EPop / ESteal followed by EDispatch). *)
From Coq Require Import List Bool Arith NArith ZArith.
From QV Require Import Kernel.GenSpawnTable Kernel.Placement Kernel.Model Kernel.ProofsPin Kernel.Progress Kernel.ProgressInv
     Kernel.ProgressProofs Kernel.ProgressMeasure Kernel.ProgressEnabled Kernel.ProgressCinv Kernel.ProgressBusy
     Kernel.ProgressCompletion Kernel.ProgressFinal.
From QV Require TQueue.Model TQueue.Proofs.
Import ListNotations.

(* REFINEMENT.  The kernel component of every composed execution is a kernel run: all theorems of Properties_C04 /
   Properties_C07 about runs of Kernel.Model (loc_unique, runs_once, nothing_refers_to_freed, arg_semantics,
   exec_gets_spawn_argument, steal_respects_pin ...) hold in every reachable composed state *)
Theorem C04p_composed_refines_kernel : forall ns nw ac chunk prog es c,
  crun (cinit ns nw ac chunk prog) es = Some c -> exists tr, run (init ns nw ac) tr = Some c.(ck).
Proof. exact composed_refines_kernel_l. Qed.
Print Assumptions C04p_composed_refines_kernel.

(* place / state consistency in every reachable composed state (ProgressInv.cons_ok: a queued or held reference belongs to
   a runnable task, a worker only holds tasks in the states qthread_master's post-switch knows, a blocked task is
   FEB_BLOCKED, a freed descriptor belongs to a TERMINATED task, the main task never leaves shepherd 0 / worker 0,
   targets and shepherd pointers are in range) *)
Theorem C04p_reachable_consistent : forall ns nw ac chunk prog es c,
  0 < ns -> 0 < nw -> crun (cinit ns nw ac chunk prog) es = Some c -> kinv c.(ck).
Proof. exact reachable_kinv_l. Qed.
Print Assumptions C04p_reachable_consistent.

(* MEASURE_DECREASES.  8 * (operations still to be executed, children's bodies and returns included) + (sum over all task
   references of their distance to the next body step) strictly decreases with EVERY event: scheduler (pop, steal),
   dispatch (send home, execute), body operation of any kind (spawn of every variant of GenSpawnTable, failed spawn, yield,
   migrate_to, blocking system call, blocking / non-blocking wait, return), master post-switch, and the environment's
   releases of blocked tasks.  pin_inv holds in every reachable state (C04p_reachable_pin_inv). *)
Theorem C04p_measure_decreases : forall c e c',
  pin_inv c.(ck) -> cstep c e = Some c' -> measure c' < measure c.
Proof. exact measure_decreases_l. Qed.
Print Assumptions C04p_measure_decreases.

Theorem C04p_reachable_pin_inv : forall ns nw ac chunk prog es c,
  crun (cinit ns nw ac chunk prog) es = Some c -> pin_inv c.(ck).
Proof. exact reachable_pin_inv_l. Qed.
Print Assumptions C04p_reachable_pin_inv.

(* TERMINATION.  Every execution of a finite program is finite, whatever the scheduling and however the environment
   releases blocked tasks: at most 8 * (|program| + 1) + 2 events (no fairness assumption needed for termination) *)
Theorem C04p_executions_finite : forall ns nw ac chunk prog es c,
  crun (cinit ns nw ac chunk prog) es = Some c -> length es <= 8 * S (psize prog) + 2.
Proof. exact executions_finite_init_l. Qed.
Print Assumptions C04p_executions_finite.

(* THE SIMULATION RELATION IS AN INVARIANT.  reach = reachable from the initial state of a well-formed finite program on
   ns >= 1 shepherds x nw >= 1 workers with a steal chunk >= 0.  In every reachable state: every node of every sherwood queue
   stands for a kernel InQueue reference with the same stealable bit (an unstealable node sits in the queue of the very
   shepherd the kernel has it on; the McCoy bit marks tid 0), every kernel InQueue reference has exactly one node in all
   queues together, and both counters of every queue are exact. *)
Theorem C04p_queue_simulation : forall ns nw ac chunk prog c,
  reach ns nw ac chunk prog c ->
  (forall i n, In n (TQueue.Model.items (TQueue.Model.getq c.(cs) i)) -> node_agrees c.(ck) i n) /\
  (forall t, TQueue.Proofs.cntq (N.of_nat t) (TQueue.Model.queues c.(cs)) =
             match place_of t c.(ck).(places) with Some (InQueue _ _) => 1 | _ => 0 end) /\
  TQueue.Proofs.sys_exact c.(cs).
Proof. exact queue_simulation_r. Qed.
Print Assumptions C04p_queue_simulation.

(* the full invariant of the composed system (kernel consistency, all shepherds enabled, the simulation relation,
   well-formed programs - QTHREAD_SIMPLE tasks have non-suspending bodies -, main blocked once its program is exhausted) *)
Theorem C04p_reachable_invariant : forall ns nw ac chunk prog es c,
  0 < ns -> 0 < nw -> (0 <= chunk)%Z -> wf_prog prog = true ->
  crun (cinit ns nw ac chunk prog) es = Some c -> cinv c.
Proof. exact reachable_cinv. Qed.
Print Assumptions C04p_reachable_invariant.

(* ENABLED_IF_WORK (no stranded task), own queue: in every reachable state an idle worker whose shepherd's queue is not
   empty has an enabled scheduler step - unless all the queue holds is the McCoy task and the worker is not worker 0
   (the McCoy node only ever sits in shepherd 0's queue; then it waits for worker 0.0: mccoy_handover of C08) *)
Theorem C04p_enabled_if_work_own : forall ns nw ac chunk prog c s w,
  reach ns nw ac chunk prog c ->
  idle c.(ck) s w = true -> s < c.(ck).(nsh) -> w < c.(ck).(nwk) ->
  TQueue.Model.items (TQueue.Model.getq c.(cs) s) <> [] ->
  (forall n, TQueue.Model.items (TQueue.Model.getq c.(cs) s) = [n] -> TQueue.Model.mccoy n = true -> w = 0) ->
  exists c', cstep c (EPop s w) = Some c'.
Proof. exact enabled_if_work_own_r. Qed.
Print Assumptions C04p_enabled_if_work_own.

(* whatever node the C owner path hands out, the kernel accepts it for that worker *)
Theorem C04p_enabled_if_work_pop : forall ns nw ac chunk prog c s w n q',
  reach ns nw ac chunk prog c ->
  idle c.(ck) s w = true -> s < c.(ck).(nsh) -> w < c.(ck).(nwk) ->
  TQueue.Model.dequeue_worker (TQueue.Model.getq c.(cs) s) (packed c.(ck) s w) = (Some n, q') ->
  exists c', cstep c (EPop s w) = Some c' /\ place_of (ntid n) c'.(ck).(places) = Some (Held s w false) /\
             c'.(cs) = TQueue.Model.setq c.(cs) s q' /\ c'.(cprog) = c.(cprog).
Proof. exact enabled_if_work_pop_r. Qed.
Print Assumptions C04p_enabled_if_work_pop.

(* ENABLED_IF_WORK, stranded work: an idle worker with an empty own queue obtains a task from ANY victim that holds a
   stealable node (steal_progress / steal_only_stealable of C08 on the exact counters); the task is stealable, hence neither
   pinned nor the McCoy task.  (All shepherds are enabled in the model's scope.) *)
Theorem C04p_enabled_if_work_steal : forall ns nw ac chunk prog c s w v,
  reach ns nw ac chunk prog c ->
  idle c.(ck) s w = true -> s < c.(ck).(nsh) -> w < c.(ck).(nwk) -> v < c.(ck).(nsh) -> v <> s ->
  TQueue.Model.items (TQueue.Model.getq c.(cs) s) = [] ->
  0 < TQueue.Model.count_stl (TQueue.Model.items (TQueue.Model.getq c.(cs) v)) ->
  exists c' n, cstep c (ESteal s w v) = Some c' /\ TQueue.Model.stl n = true /\
               In n (TQueue.Model.items (TQueue.Model.getq c.(cs) v)) /\
               place_of (ntid n) c'.(ck).(places) = Some (Held s w false).
Proof. exact enabled_if_work_steal_r. Qed.
Print Assumptions C04p_enabled_if_work_steal.

(* a worker that holds a task always has an enabled event of its own: dispatch (send home / execute), the next operation of
   the body or its return, or the post-switch of qthread_master *)
Theorem C04p_busy_worker_can_step : forall ns nw ac chunk prog c s w t l,
  reach ns nw ac chunk prog c -> worker_ref s w c.(ck).(places) = Some (t, l) ->
  exists e c', internal e = true /\ cstep c e = Some c'.
Proof. exact busy_worker_can_step_r. Qed.
Print Assumptions C04p_busy_worker_can_step.

(* COMPLETION.  stuck c: no event of the runtime (scheduler, dispatch, body, post-switch of any worker) is enabled.
   released c (hypothesis blocked_eventually_released, as a property of the last state): no task is left on a waiter list,
   an unsatisfied precondition or in the blocking subsystem, except the main task in its final wait.
   For every finite well-formed program, every configuration and every execution ending in such a state: every successfully
   spawned task (ids 1 .. next-1: failed spawns consume no id) is TERMINATED, was started exactly once, its descriptor is in
   the freed pool; every ready queue is empty with both counters 0; every worker is idle; main is in its final wait; and the
   kernel component is a run of Kernel.Model, so C04_arg_semantics / C04_exec_gets_spawn_argument give "with its spawn
   argument" (EDispatch executes a NEW task with LExec ... (Some t_arg)). *)
Theorem C04p_every_spawn_runs_exactly_once : forall ns nw ac chunk prog es c,
  0 < ns -> 0 < nw -> (0 <= chunk)%Z -> wf_prog prog = true ->
  crun (cinit ns nw ac chunk prog) es = Some c -> stuck c -> released c ->
  (forall t, 0 < t -> t < c.(ck).(next) ->
             exists x, get_task t c.(ck).(tasks) = Some x /\ x.(t_state) = TERMINATED /\ x.(t_started) = 1 /\
                       place_of t c.(ck).(places) = Some Freed) /\
  (forall i, TQueue.Model.items (TQueue.Model.getq c.(cs) i) = [] /\ TQueue.Model.qlen (TQueue.Model.getq c.(cs) i) = 0%Z /\
             TQueue.Model.qstl (TQueue.Model.getq c.(cs) i) = 0%Z) /\
  (forall s w, worker_ref s w c.(ck).(places) = None) /\
  place_of 0 c.(ck).(places) = Some Blocked /\
  (exists tr, run (init ns nw ac) tr = Some c.(ck)).
Proof. exact every_spawn_runs_exactly_once_l. Qed.
Print Assumptions C04p_every_spawn_runs_exactly_once.

(* the same for MAXIMAL executions.  quiescent c: NO event extends the execution, the environment's releases included.  The
   environment offers the release of every waiting task at any time (EWake / ELaunch / EIoDone are enabled for every blocked
   / nascent / syscall-blocked task but main in its final wait), so an execution that is maximal in this sense has released
   every blocked task: this is the fairness assumption (an enabled event is eventually taken) on finite executions. *)
Theorem C04p_every_spawn_runs_exactly_once_maximal : forall ns nw ac chunk prog es c,
  0 < ns -> 0 < nw -> (0 <= chunk)%Z -> wf_prog prog = true ->
  crun (cinit ns nw ac chunk prog) es = Some c -> quiescent c ->
  (forall t, 0 < t -> t < c.(ck).(next) ->
             exists x, get_task t c.(ck).(tasks) = Some x /\ x.(t_state) = TERMINATED /\ x.(t_started) = 1 /\
                       place_of t c.(ck).(places) = Some Freed) /\
  (forall i, TQueue.Model.items (TQueue.Model.getq c.(cs) i) = [] /\ TQueue.Model.qlen (TQueue.Model.getq c.(cs) i) = 0%Z /\
             TQueue.Model.qstl (TQueue.Model.getq c.(cs) i) = 0%Z) /\
  (forall s w, worker_ref s w c.(ck).(places) = None) /\
  place_of 0 c.(ck).(places) = Some Blocked /\
  (exists tr, run (init ns nw ac) tr = Some c.(ck)).
Proof. exact every_spawn_runs_exactly_once_quiescent_l. Qed.
Print Assumptions C04p_every_spawn_runs_exactly_once_maximal.

(* SPAWN FAILURE (qthread_spawn step 4: `qthread_thread_free(t); return test;`) *)
Theorem C04p_spawn_failure_leaves_no_trace : forall st caller row shep_param asize src pre rc,
  rc <> 0 ->
  exists st', spawn_call st caller row shep_param asize src pre (Some rc) = SpawnFailed rc st' /\
              st' = st /\ st'.(places) = st.(places) /\ st'.(tasks) = st.(tasks) /\ st'.(next) = st.(next).
Proof. exact spawn_failure_leaves_no_trace_l. Qed.
Print Assumptions C04p_spawn_failure_leaves_no_trace.

Theorem C04p_spawn_success_is_LSpawn : forall st caller row shep_param asize src pre ret_rc st',
  ret_rc = None \/ ret_rc = Some 0 ->
  (spawn_call st caller row shep_param asize src pre ret_rc = SpawnOk st' <->
   step st (LSpawn caller row shep_param asize src pre) = Some st').
Proof. exact spawn_success_is_LSpawn_l. Qed.
Print Assumptions C04p_spawn_success_is_LSpawn.

Theorem C04p_failed_spawn_in_body : forall c s w c' t l x row sp asize src rest,
  worker_ref s w c.(ck).(places) = Some (t, l) -> get_task t c.(ck).(tasks) = Some x ->
  get_prog t c.(cprog) = Some (BSpawnFail row sp asize src :: rest) ->
  cstep c (EBody s w) = Some c' -> c'.(ck) = c.(ck) /\ c'.(cs) = c.(cs) /\ get_prog t c'.(cprog) = Some rest.
Proof. exact failed_spawn_in_body_l. Qed.
Print Assumptions C04p_failed_spawn_in_body.
