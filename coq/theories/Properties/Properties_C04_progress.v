(* C04 progress (extension M): completion, not only safety - obligations.
   Model: Kernel/Progress.v (Kernel/Model.v composed with the sherwood queues of TQueue/Model.v; task bodies are finite
   lists of operations; the only way a queued task starts is a scheduler event EPop / ESteal followed by EDispatch). *)
From Coq Require Import List Bool Arith NArith ZArith.
From QV Require Import Kernel.GenSpawnTable Kernel.Placement Kernel.Model Kernel.ProofsPin Kernel.Progress Kernel.ProgressInv
     Kernel.ProgressProofs Kernel.ProgressMeasure Kernel.ProgressEnabled.
From QV Require TQueue.Model TQueue.Proofs.
Import ListNotations.

(* REFINEMENT.  The kernel component of every composed execution is a kernel run: all theorems of Properties_C04 /
   Properties_C07 about runs of Kernel.Model (loc_unique, runs_once, nothing_refers_to_freed, arg_semantics,
   exec_gets_spawn_argument, steal_respects_pin ...) hold in every reachable composed state *)
Theorem C04p_composed_refines_kernel : forall ns nw ac chunk prog es c,
  crun (cinit ns nw ac chunk prog) es = Some c -> exists tr, run (init ns nw ac) tr = Some c.(ck).
Proof. exact composed_refines_kernel_l. Qed.
Print Assumptions C04p_composed_refines_kernel.

(* place / state consistency in every reachable composed state (ProgressInv.cons_ok: a queued or held reference belongs to
   a runnable task, a worker only holds tasks in the states qthread_master's post-switch knows, a blocked task is
   FEB_BLOCKED, a freed descriptor belongs to a TERMINATED task, the main task never leaves shepherd 0 / worker 0,
   targets and shepherd pointers are in range) *)
Theorem C04p_reachable_consistent : forall ns nw ac chunk prog es c,
  0 < ns -> 0 < nw -> crun (cinit ns nw ac chunk prog) es = Some c -> kinv c.(ck).
Proof. exact reachable_kinv_l. Qed.
Print Assumptions C04p_reachable_consistent.

(* MEASURE_DECREASES.  8 * (operations still to be executed, children's bodies and returns included) + (sum over all task
   references of their distance to the next body step) strictly decreases with EVERY event: scheduler (pop, steal),
   dispatch (send home, execute), body operation of any kind (spawn of every variant of GenSpawnTable, failed spawn, yield,
   migrate_to, blocking system call, blocking / non-blocking wait, return), master post-switch, and the environment's
   releases of blocked tasks.  pin_inv holds in every reachable state (C04p_reachable_pin_inv). *)
Theorem C04p_measure_decreases : forall c e c',
  pin_inv c.(ck) -> cstep c e = Some c' -> measure c' < measure c.
Proof. exact measure_decreases_l. Qed.
Print Assumptions C04p_measure_decreases.

Theorem C04p_reachable_pin_inv : forall ns nw ac chunk prog es c,
  crun (cinit ns nw ac chunk prog) es = Some c -> pin_inv c.(ck).
Proof. exact reachable_pin_inv_l. Qed.
Print Assumptions C04p_reachable_pin_inv.

(* TERMINATION.  Every execution of a finite program is finite, whatever the scheduling and however the environment
   releases blocked tasks: at most 8 * (|program| + 1) + 2 events (no fairness assumption needed for termination) *)
Theorem C04p_executions_finite : forall ns nw ac chunk prog es c,
  crun (cinit ns nw ac chunk prog) es = Some c -> length es <= 8 * S (psize prog) + 2.
Proof. exact executions_finite_init_l. Qed.
Print Assumptions C04p_executions_finite.

(* ENABLED_IF_WORK (no stranded task), own queue.  PARTIAL in this sense: the simulation relation between queue nodes and
   kernel references (node_agrees) is a hypothesis about the state; its preservation along executions is checked on the
   model's runs (ProgressExamples) and on the real runs (quiescent_ok), not proved here. *)
Theorem C04p_enabled_if_work_own_partial : forall c s w,
  kinv c.(ck) -> idle c.(ck) s w = true -> s < c.(ck).(nsh) -> w < c.(ck).(nwk) ->
  TQueue.Model.items (TQueue.Model.getq c.(cs) s) <> [] ->
  (forall n, In n (TQueue.Model.items (TQueue.Model.getq c.(cs) s)) -> node_agrees c.(ck) s n) ->
  NoDup (map ntid (TQueue.Model.items (TQueue.Model.getq c.(cs) s))) ->
  (forall n, TQueue.Model.items (TQueue.Model.getq c.(cs) s) = [n] -> TQueue.Model.mccoy n = true -> packed c.(ck) s w = 0) ->
  exists c', cstep c (EPop s w) = Some c'.
Proof. exact enabled_if_work_own_l. Qed.
Print Assumptions C04p_enabled_if_work_own_partial.

Theorem C04p_enabled_if_work_pop_partial : forall c s w n q',
  kinv c.(ck) -> idle c.(ck) s w = true -> s < c.(ck).(nsh) -> w < c.(ck).(nwk) ->
  TQueue.Model.dequeue_worker (TQueue.Model.getq c.(cs) s) (packed c.(ck) s w) = (Some n, q') ->
  node_agrees c.(ck) s n -> (TQueue.Model.mccoy n = true -> packed c.(ck) s w = 0) ->
  exists c', cstep c (EPop s w) = Some c' /\ place_of (ntid n) c'.(ck).(places) = Some (Held s w false) /\
             c'.(cs) = TQueue.Model.setq c.(cs) s q' /\ c'.(cprog) = c.(cprog).
Proof. exact enabled_if_work_pop_l. Qed.
Print Assumptions C04p_enabled_if_work_pop_partial.

(* ENABLED_IF_WORK, stranded work: an idle worker of an ENABLED shepherd with an empty own queue obtains a task from any
   victim holding a stealable node (uses steal_progress / steal_only_stealable of C08 on the exact counters); the task it
   gets is stealable, hence neither pinned nor the McCoy task.  Unstealable nodes are only ever taken by their own
   shepherd's workers (the own-queue theorem above), the McCoy task only by worker 0.0. *)
Theorem C04p_enabled_if_work_steal_partial : forall c s w v,
  kinv c.(ck) -> idle c.(ck) s w = true -> s < c.(ck).(nsh) -> w < c.(ck).(nwk) -> v < c.(ck).(nsh) -> v <> s ->
  nthb c.(ck).(active) s = true ->
  TQueue.Model.items (TQueue.Model.getq c.(cs) s) = [] ->
  TQueue.Proofs.exact (TQueue.Model.getq c.(cs) v) -> (0 <= TQueue.Model.chunk c.(cs))%Z ->
  0 < TQueue.Model.count_stl (TQueue.Model.items (TQueue.Model.getq c.(cs) v)) ->
  (forall n, In n (TQueue.Model.items (TQueue.Model.getq c.(cs) v)) -> node_agrees c.(ck) v n) ->
  exists c' n, cstep c (ESteal s w v) = Some c' /\ TQueue.Model.stl n = true /\
               In n (TQueue.Model.items (TQueue.Model.getq c.(cs) v)) /\
               place_of (ntid n) c'.(ck).(places) = Some (Held s w false).
Proof. exact enabled_if_work_steal_l. Qed.
Print Assumptions C04p_enabled_if_work_steal_partial.

(* SPAWN FAILURE (qthread_spawn step 4: `qthread_thread_free(t); return test;`) *)
Theorem C04p_spawn_failure_leaves_no_trace : forall st caller row shep_param asize src pre rc,
  rc <> 0 ->
  exists st', spawn_call st caller row shep_param asize src pre (Some rc) = SpawnFailed rc st' /\
              st' = st /\ st'.(places) = st.(places) /\ st'.(tasks) = st.(tasks) /\ st'.(next) = st.(next).
Proof. exact spawn_failure_leaves_no_trace_l. Qed.
Print Assumptions C04p_spawn_failure_leaves_no_trace.

Theorem C04p_spawn_success_is_LSpawn : forall st caller row shep_param asize src pre ret_rc st',
  ret_rc = None \/ ret_rc = Some 0 ->
  (spawn_call st caller row shep_param asize src pre ret_rc = SpawnOk st' <->
   step st (LSpawn caller row shep_param asize src pre) = Some st').
Proof. exact spawn_success_is_LSpawn_l. Qed.
Print Assumptions C04p_spawn_success_is_LSpawn.

Theorem C04p_failed_spawn_in_body : forall c s w c' t l x row sp asize src rest,
  worker_ref s w c.(ck).(places) = Some (t, l) -> get_task t c.(ck).(tasks) = Some x ->
  get_prog t c.(cprog) = Some (BSpawnFail row sp asize src :: rest) ->
  cstep c (EBody s w) = Some c' -> c'.(ck) = c.(ck) /\ c'.(cs) = c.(cs) /\ get_prog t c'.(cprog) = Some rest.
Proof. exact failed_spawn_in_body_l. Qed.
Print Assumptions C04p_failed_spawn_in_body.
