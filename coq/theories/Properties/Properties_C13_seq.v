(* C13 extension W -- the sequential sort the parallel sorts fall back to below the cutoff is the library's OWN code
   (src/qutil.c drf_qsort_dbl / drf_qsort_algt: iterative quicksort, explicit stack of QT_INT_LOG(elements) + 5 entries).
   Model: Util/SeqSort.v (extracted and compared with the real static functions on every run: final array, largest stack
   index, loop-head visits, capacity).  With it the "sort used below the cutoff returns a sorted permutation" assumption of
   Properties_C13.v is discharged for qutil_qsort, qutil_aligned_qsort and qutil_mergesort (qt_qsort keeps libc qsort). *)
From Coq Require Import List NArith ZArith Permutation.
From QV Require Import Util.Sort Util.SortProofs Util.SortCorrect Util.MergeCorrect Util.SortFinal
                       Util.SeqSort Util.SeqSortProofs Util.SeqSortOuter Util.SeqSortArr Util.SeqSortTop.
Import ListNotations.

(* seqsort_permutation -- no hypothesis at all: every comparison function (also a non-transitive one), every array, every
   base and length: the call rearranges the segment [b, b+elements) only (same values inside, nothing changed outside,
   every prefix of the memory that holds the segment is permuted).  A run that would overflow the explicit stack or run
   out of fuel counts as "array unchanged"; seqsort_terminates shows there is no such run. *)
Theorem seqsort_permutation : forall (V : Type) (leb : V -> V -> bool) (dflt : V) (a : arr V) (b elements : N),
  SegRel V dflt a (seqsort V leb dflt a b elements) b elements /\
  forall n, (b + elements <= n)%N -> Permutation (to_list V dflt a n) (to_list V dflt (seqsort V leb dflt a b elements) n).
Proof. exact SeqSortTop.seqsort_permutation. Qed.
Print Assumptions seqsort_permutation.

(* the same for the raw loop: every fuel, every stack capacity -- whenever it returns *)
Theorem seqsort_run_permutation : forall (V : Type) (leb : V -> V -> bool) (dflt : V) fuel cap (a : arr V) b elements a' d it,
  outer V leb dflt fuel cap a b [(0%N, elements)] 0%N 0%N = Some (a', d, it) ->
  SegRel V dflt a a' b elements /\ forall n, (b + elements <= n)%N -> Permutation (to_list V dflt a n) (to_list V dflt a' n).
Proof. exact SeqSortTop.outer_run_permutation. Qed.
Print Assumptions seqsort_run_permutation.

(* seqsort_stack_depth_bound -- the explicit stack cannot overflow: the smaller part is kept on top, so the entry at index
   k holds at most elements / 2^k elements.  Every comparison function, every array, every length >= 1: a capacity of
   floor(log2 elements) + 1 entries suffices (the code allocates floor(log2 elements) + 5), the largest index used is at
   most floor(log2 elements), the loop head is visited at most 2 * elements + 1 times. *)
Theorem seqsort_stack_depth_bound : forall (V : Type) (leb : V -> V -> bool) (dflt : V) fuel cap (a : arr V) b elements,
  (0 < elements)%N -> (N.log2 elements < cap)%N -> (N.to_nat (2 * elements + 1) < fuel)%nat ->
  exists a' d it, outer V leb dflt fuel cap a b [(0%N, elements)] 0%N 0%N = Some (a', d, it) /\
                  (d <= N.log2 elements)%N /\ (it <= 2 * elements + 1)%N.
Proof. exact SeqSortTop.seqsort_stack_depth_bound. Qed.
Print Assumptions seqsort_stack_depth_bound.

(* seqsort_terminates -- with the code's own capacity MAX = QT_INT_LOG(elements) + 5 and 2 * elements + 2 units of fuel the
   call returns, for every comparison function, every array and every length below 2^32 (QT_INT_LOG truncates its argument
   to 32 bits: SeqSortTop.stack_cap_truncation; the callers pass at most MT_LOOP_CHUNK = 10000 elements) *)
Theorem seqsort_terminates : forall (V : Type) (leb : V -> V -> bool) (dflt : V) (a : arr V) b elements,
  (elements < 4294967296)%N ->
  exists a' d it, seqsort_run V leb dflt a b elements = Some (a', d, it) /\
                  (d <= N.log2 elements)%N /\ (d < stack_cap elements)%N /\ (it <= 2 * elements + 1)%N.
Proof. exact SeqSortTop.seqsort_terminates. Qed.
Print Assumptions seqsort_terminates.

(* seqsort_sorted -- total and transitive comparison (OrderOK; doubles without NaN, aligned_t), every array, every length
   below 2^32: the segment is sorted afterwards *)
Theorem seqsort_sorted : forall (V : Type) (leb : V -> V -> bool) (dflt : V) (a : arr V) b elements,
  OrderOK V leb -> (elements < 4294967296)%N ->
  SortedSeg V leb dflt (seqsort V leb dflt a b elements) b elements.
Proof. exact SeqSortTop.seqsort_sorted. Qed.
Print Assumptions seqsort_sorted.

(* the partition loop itself: whatever the comparison, the result (with the pivot stored back) is a rearrangement of the
   window [L, R] and the final position lies in it *)
Theorem seqsort_partition_rearranges : forall (V : Type) (leb : V -> V -> bool) (dflt : V) fuel (a : arr V) b piv L R a' Lf,
  (L <= R)%N -> ploop V leb dflt fuel a b piv L R = Some (a', Lf) ->
  (L <= Lf)%N /\ (Lf <= R)%N /\
  PRel V dflt (aset V a (b + L) piv) (aset V a' (b + Lf) piv) (b + L) (R - L + 1).
Proof. exact SeqSortProofs.ploop_rel. Qed.
Print Assumptions seqsort_partition_rearranges.

(* ... and with a total comparison it partitions: everything left of the final position <= pivot <= everything right *)
Theorem seqsort_partition_partitions : forall (V : Type) (leb : V -> V -> bool) (dflt : V),
  (forall x y, leb x y = false -> leb y x = true) ->
  forall fuel (a : arr V) b piv B E L R a' Lf, (L <= R)%N -> (B <= L)%N -> (R < E)%N ->
  LEp V leb dflt a b piv B L -> GEp V leb dflt a b piv R E -> ploop V leb dflt fuel a b piv L R = Some (a', Lf) ->
  LEp V leb dflt a' b piv B Lf /\ GEp V leb dflt a' b piv Lf E.
Proof. exact SeqSortProofs.ploop_order. Qed.
Print Assumptions seqsort_partition_partitions.

(* the explicit stack as the code has it -- two variable-length arrays beg[] / end[] and the index i, one update per
   assignment of the C text (Util/SeqSortArr.v), the uninitialised contents of the arrays arbitrary -- computes exactly what
   the model with the list of live entries computes: array, largest index and loop-head visits (entries above i are never
   read before they are written) *)
Theorem seqsort_array_stack_refines : forall (V : Type) (leb : V -> V -> bool) (dflt : V) (beg0 en0 : nat -> N) (a : arr V) b elements,
  outer_arr V leb dflt (seq_fuel elements) (stack_cap elements) a b (supd beg0 O 0%N) (supd en0 O elements) 1 0%N 0%N =
  seqsort_run V leb dflt a b elements.
Proof. exact SeqSortArr.seqsort_array_stack_refines. Qed.
Print Assumptions seqsort_array_stack_refines.

(* the model satisfies the hypothesis BaseSortOK of Properties_C13.v *)
Theorem seqsort_is_a_base_sort : forall (V : Type) (leb : V -> V -> bool) (dflt : V) (bound : N),
  OrderOK V leb -> (bound < 4294967296)%N -> BaseSortOK V leb dflt bound (seqsort V leb dflt).
Proof. exact SeqSortTop.seqsort_base_ok. Qed.
Print Assumptions seqsort_is_a_base_sort.

(* qutil_qsort_sorted_permutation_unconditional -- qutil_qsort and qutil_aligned_qsort (cache line 64, MT_LOOP_CHUNK
   10000) with the library's own sequential sort below the cutoff: every array of every length (in a memory of fewer
   than 2^32 elements): the call returns a sorted permutation and touches nothing else.  No assumption about the cutoff
   sort is left. *)
Theorem qutil_qsort_sorted_permutation_unconditional :
  forall (V : Type) (leb : V -> V -> bool) (dflt : V) (bound : N) wfuel,
  OrderOK V leb -> (bound < 4294967296)%N ->
  forall a len, (0 < len)%N -> (len <= bound)%N ->
  exists a', qsort_inner V leb dflt bound (seqsort V leb dflt) (qutil_params 64 10000) (S (N.to_nat len)) wfuel a 0%N len = Some a' /\
             Permutation (to_list V dflt a bound) (to_list V dflt a' bound) /\
             SortedSeg V leb dflt a' 0%N len /\ (forall k, (len <= k)%N -> aget V dflt a' k = aget V dflt a k).
Proof. exact SeqSortTop.qutil_qsort_sorted_permutation_unconditional. Qed.
Print Assumptions qutil_qsort_sorted_permutation_unconditional.

(* qutil_mergesort (presort of the chunks of 10 by drf_qsort_dbl): likewise *)
Theorem mergesort_sorted_permutation_unconditional :
  forall (V : Type) (leb : V -> V -> bool) (dflt : V) (n : N), OrderOK V leb -> (0 < n)%N -> (n < 4294967296)%N ->
  forall a, Permutation (to_list V dflt a n) (to_list V dflt (mergesort V leb dflt (seqsort V leb dflt) a n) n) /\
            SortedSeg V leb dflt (mergesort V leb dflt (seqsort V leb dflt) a n) 0%N n /\
            (forall k, (n <= k)%N -> aget V dflt (mergesort V leb dflt (seqsort V leb dflt) a n) k = aget V dflt a k).
Proof. exact SeqSortTop.mergesort_sorted_permutation_unconditional. Qed.
Print Assumptions mergesort_sorted_permutation_unconditional.

(* the capacity the code computes: floor(log2 elements) + 5 for 1 <= elements < 2^32 *)
Theorem seqsort_stack_capacity : forall n, (0 < n)%N -> (n < 4294967296)%N -> stack_cap n = (N.log2 n + 5)%N.
Proof. exact SeqSortTop.stack_cap_small. Qed.
Print Assumptions seqsort_stack_capacity.

(* non-vacuity / counterfactuals (Examples in Util/SeqSortTop.v): seqsort_example -- a run with equal keys and guard
   elements; depth_bound_tight -- the bound floor(log2 elements) is attained; larger_first_overflows -- with the exchange
   test reversed a sorted array of 64 elements overflows the 11 entries; zle_order -- OrderOK is satisfiable. *)
