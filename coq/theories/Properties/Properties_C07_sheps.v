(* C07 extension N: obligations about the shepherd API (src/shepherds.c), the worker switches (src/workers.c) and the
   construction of sorted_sheplist / shep_dists (qt_affinity_gendists + sort_sheps); model Kernel/Sheps.v *)
From Coq Require Import List Bool Arith ZArith Permutation Sorted.
From QV Require Import Kernel.Placement Kernel.ProofsPlacement Kernel.Sheps Kernel.ShepsProofs.
Import ListNotations.

(* -------- the lists the runtime builds: discharges "sorted_sheplist is any permutation of the others" for them *)
Theorem C07_sorted_sheplist_is_permutation : forall n (D : nat -> nat -> nat) rs i,
  i < n ->
  let e := nth i (fst (gendists n D rs)) ([], []) in
  fst e = dist_row n D i /\
  Permutation (snd e) (others n i) /\
  StronglySorted (fun a b => D i a <= D i b) (snd e).
Proof. exact sorted_sheplist_is_permutation. Qed.
Print Assumptions C07_sorted_sheplist_is_permutation.

Theorem C07_sort_sheps_sorted_permutation : forall (d : nat -> nat) s rs,
  Permutation (fst (sort_sheps d s rs)) s /\ StronglySorted (fun a b => d a <= d b) (fst (sort_sheps d s rs)).
Proof. exact sort_sheps_spec. Qed.
Print Assumptions C07_sort_sheps_sorted_permutation.

Theorem C07_shuffle_is_permutation : forall s rs, Permutation (fst (shuffle s rs)) s.
Proof. exact shuffle_perm. Qed.
Print Assumptions C07_shuffle_is_permutation.

Theorem C07_others_are_the_other_shepherds : forall n i x, In x (others n i) <-> x < n /\ x <> i.
Proof. exact others_spec. Qed.
Print Assumptions C07_others_are_the_other_shepherds.

(* -------- find_active_shepherd on the constructed lists (fas_active / fas_some without a permutation hypothesis) *)
Theorem C07_fas_constructed : forall n (D : nat -> nat -> nat) rs me (act : nat -> bool) (qlen : nat -> nat) coins,
  me < n ->
  let row := fst (fst (gendists_row n D me rs)) in
  let l := snd (fst (gendists_row n D me rs)) in
  (exists x, x < n /\ x <> me /\ act x = true) ->
  exists r, fas l (row_fun row) act qlen coins = Some r /\ act r = true /\ r < n /\ r <> me /\
            (forall y, y < n -> y <> me -> act y = true -> D me r <= D me y).
Proof. exact fas_constructed. Qed.
Print Assumptions C07_fas_constructed.

Theorem C07_fas_constructed_active : forall n (D : nat -> nat -> nat) rs me (act : nat -> bool) (qlen : nat -> nat) coins r,
  me < n ->
  fas (snd (fst (gendists_row n D me rs))) (row_fun (fst (fst (gendists_row n D me rs)))) act qlen coins = Some r ->
  act r = true /\ r < n /\ r <> me.
Proof. exact fas_constructed_active. Qed.
Print Assumptions C07_fas_constructed_active.

Theorem C07_fas_constructed_from_disabled : forall n (D : nat -> nat -> nat) rs me (act : nat -> bool) (qlen : nat -> nat) coins,
  me < n -> me <> 0 -> act 0 = true ->
  exists r, fas (snd (fst (gendists_row n D me rs))) (row_fun (fst (fst (gendists_row n D me rs)))) act qlen coins = Some r /\
            act r = true /\ r <> me.
Proof. exact fas_constructed_from_disabled. Qed.
Print Assumptions C07_fas_constructed_from_disabled.

Theorem C07_fas_nearest : forall l (d : nat -> nat) (act : nat -> bool) (qlen : nat -> nat) coins r,
  StronglySorted (fun a b => d a <= d b) l ->
  fas l d act qlen coins = Some r ->
  forall y, In y l -> act y = true -> d r <= d y.
Proof. exact fas_nearest. Qed.
Print Assumptions C07_fas_nearest.

(* -------- qthread_shep_next / qthread_shep_prev *)
Theorem C07_shep_next_prev_valid : forall n c,
  0 < n ->
  shep_next n c < n /\
  (c < n -> shep_prev n c < n /\ shep_next n (shep_prev n c) = c /\ shep_prev n (shep_next n c) = c).
Proof. exact shep_next_prev_valid. Qed.
Print Assumptions C07_shep_next_prev_valid.

Theorem C07_shep_next_walks_the_whole_ring : forall n c k, c < n -> Nat.iter k (shep_next n) c = (c + k) mod n.
Proof. exact shep_next_iter. Qed.
Print Assumptions C07_shep_next_walks_the_whole_ring.

Theorem C07_shep_next_reaches_disabled : forall n (act : nat -> bool) s,
  s < n -> act s = false -> exists c, c < n /\ act (shep_next n c) = false.
Proof. exact shep_next_reaches_disabled. Qed.
Print Assumptions C07_shep_next_reaches_disabled.

Theorem C07_shep_prev_out_of_range_refuted : exists n c, 0 < n /\ ~ shep_prev n c < n.
Proof. exact shep_prev_out_of_range_refuted. Qed.
Print Assumptions C07_shep_prev_out_of_range_refuted.

(* -------- the switches *)
Theorem C07_disable_worker0_disables_shepherd : forall t s,
  wf t -> 0 < s -> s < nsh t -> 0 < nwps t ->
  fst (disable_worker t s) = RcSuccess /\
  nthb (sact (snd (disable_worker t s))) s = false /\
  nthb (wact (snd (disable_worker t s))) (widx t s 0) = false.
Proof. exact disable_worker0_disables_shepherd. Qed.
Print Assumptions C07_disable_worker0_disables_shepherd.

Theorem C07_shepherd0_worker0_never_disabled : forall ops t,
  wf t -> nthb (sact t) 0 = true -> nthb (wact t) 0 = true ->
  nthb (sact (run_ops t ops)) 0 = true /\ nthb (wact (run_ops t ops)) 0 = true.
Proof. exact shepherd0_worker0_never_disabled. Qed.
Print Assumptions C07_shepherd0_worker0_never_disabled.

Theorem C07_counters_drift : forall ops t, wf t ->
  (nsa (run_ops t ops) - count_true (sact (run_ops t ops)) = nsa t - count_true (sact t) + fst (drift t ops))%Z /\
  (nwa (run_ops t ops) - count_true (wact (run_ops t ops)) = nwa t - count_true (wact t) + snd (drift t ops))%Z.
Proof. exact counters_drift. Qed.
Print Assumptions C07_counters_drift.

Theorem C07_nworkers_active_exact : forall t ops,
  wf t -> consistent t -> nonredundant t ops -> consistent (run_ops t ops).
Proof. exact nworkers_active_exact. Qed.
Print Assumptions C07_nworkers_active_exact.

Theorem C07_nworkers_active_refuted :
  exists t ops, wf t /\ consistent t /\ nwa (run_ops t ops) <> count_true (wact (run_ops t ops)) /\
                nsa (run_ops t ops) <> count_true (sact (run_ops t ops)).
Proof. exact nworkers_active_refuted. Qed.
Print Assumptions C07_nworkers_active_refuted.

Theorem C07_switch_flags_independent_of_counters : forall ops a b,
  same_flags a b -> same_flags (run_ops a ops) (run_ops b ops).
Proof. exact switch_flags_independent_of_counters. Qed.
Print Assumptions C07_switch_flags_independent_of_counters.

Theorem C07_disable_shepherd_is_placement : forall t s,
  sact (snd (disable_shepherd t s)) = disable_shep (nsh t) (sact t) s.
Proof. exact disable_shepherd_is_placement. Qed.
Print Assumptions C07_disable_shepherd_is_placement.

Theorem C07_enable_shepherd_is_placement : forall t s,
  sact (enable_shepherd t s) = enable_shep (nsh t) (sact t) s.
Proof. exact enable_shepherd_is_placement. Qed.
Print Assumptions C07_enable_shepherd_is_placement.

Theorem C07_init_tbl_consistent_partial : forall ns nw h,
  1 <= ns <= 8 -> 1 <= nw <= 4 -> 1 <= h <= ns * nw ->
  wf (init_tbl ns nw h) /\ consistent (init_tbl ns nw h) /\
  nthb (sact (init_tbl ns nw h)) 0 = true /\ nthb (wact (init_tbl ns nw h)) 0 = true.
Proof. exact init_tbl_consistent_partial. Qed.
Print Assumptions C07_init_tbl_consistent_partial.

(* -------- qthread_distance on the constructed table *)
Theorem C07_distance_constructed_below : forall n (D : nat -> nat -> nat) rs src dest,
  src < n -> dest < src -> distance n (rows_of (fst (gendists n D rs))) src dest = DistVal (D src dest).
Proof. exact distance_constructed_below. Qed.
Print Assumptions C07_distance_constructed_below.

Theorem C07_distance_constructed_above : forall n (D : nat -> nat -> nat) rs src dest,
  dest < n -> src < dest ->
  distance n (rows_of (fst (gendists n D rs))) src dest = DistVal (if dest - 1 =? src then 0 else D src (dest - 1)).
Proof. exact distance_constructed_above. Qed.
Print Assumptions C07_distance_constructed_above.

Theorem C07_distance_constructed_above_refuted :
  exists n (D : nat -> nat -> nat) rs src dest, src < dest /\ dest < n /\
    distance n (rows_of (fst (gendists n D rs))) src dest <> DistVal (D src dest).
Proof. exact distance_constructed_above_refuted. Qed.
Print Assumptions C07_distance_constructed_above_refuted.
