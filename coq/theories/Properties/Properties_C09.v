From Coq Require Import List NArith.
From QV Require Import Kernel.Ident Kernel.IdentProofs.
Import ListNotations.
Local Open Scope N_scope.

Theorem id_nonzero : forall c, fst (id_alloc c) <> NON_TASK_ID /\ fst (id_alloc c) <> NULL_TASK_ID.
Proof. exact id_alloc_reserved. Qed.
Print Assumptions id_nonzero.

Theorem id_nonzero_every_run : forall ops s, fields_ok s ->
  Forall (fun x => forall r, x = Some r -> r <> NON_TASK_ID /\ r <> NULL_TASK_ID) (snd (irun s ops)).
Proof. exact id_nonzero_run. Qed.
Print Assumptions id_nonzero_every_run.

Theorem id_stable : forall ops s t i,
  iget (i_tasks s) t = Some i -> i <> NON_TASK_ID ->
  forallb (fun o => negb (touches t o)) ops = true ->
  iget (i_tasks (fst (irun s ops))) t = Some i /\
  Forall2 (fun o x => o = IId t -> x = Some i) ops (snd (irun s ops)).
Proof. exact id_stable_run. Qed.
Print Assumptions id_stable.

Theorem id_distinct : forall n c i j a b,
  c < M64 -> (i < j < n)%nat -> N.of_nat (j - i) < M32 - 2 ->
  nth_error (fst (alloc_seq n c)) i = Some a -> nth_error (fst (alloc_seq n c)) j = Some b -> a <> b.
Proof. exact id_distinct_apart. Qed.
Print Assumptions id_distinct.
