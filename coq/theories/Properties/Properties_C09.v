From Coq Require Import List NArith Arith.
From QV Require Import Kernel.Ident Kernel.IdentProofs Kernel.Tasklocal Kernel.TasklocalProofs.
Import ListNotations.

Theorem id_nonzero : forall c, fst (id_alloc c) <> NON_TASK_ID /\ fst (id_alloc c) <> NULL_TASK_ID.
Proof. exact id_alloc_reserved. Qed.
Print Assumptions id_nonzero.

Theorem id_nonzero_every_run : forall ops s, fields_ok s ->
  Forall (fun x => forall r, x = Some r -> r <> NON_TASK_ID /\ r <> NULL_TASK_ID) (snd (irun s ops)).
Proof. exact id_nonzero_run. Qed.
Print Assumptions id_nonzero_every_run.

Theorem id_stable : forall ops s t i,
  iget (i_tasks s) t = Some i -> i <> NON_TASK_ID ->
  forallb (fun o => negb (touches t o)) ops = true ->
  iget (i_tasks (fst (irun s ops))) t = Some i /\
  Forall2 (fun o x => o = IId t -> x = Some i) ops (snd (irun s ops)).
Proof. exact id_stable_run. Qed.
Print Assumptions id_stable.

Theorem id_distinct : forall n c i j a b,
  (c < M64)%N -> (i < j < n)%nat -> (N.of_nat (j - i) < M32 - 2)%N ->
  nth_error (fst (alloc_seq n c)) i = Some a -> nth_error (fst (alloc_seq n c)) j = Some b -> a <> b.
Proof. exact id_distinct_apart. Qed.
Print Assumptions id_distinct.

Theorem id_redraw_interleaved_null : forall c0 c, wrap32 c0 = NULL_TASK_ID -> (c0 < c)%N -> (c - c0 < M32 - 2)%N ->
  forall c' p, astep (wrap64 c) PRedrawNull = (c', p) -> exists i, p = PDone i /\ i <> NON_TASK_ID /\ i <> NULL_TASK_ID.
Proof. exact redraw_null_ok. Qed.
Print Assumptions id_redraw_interleaved_null.

Theorem tl_invariant_reachable : forall c junk ops, inv c (trun c junk init ops).
Proof. exact inv_reachable. Qed.
Print Assumptions tl_invariant_reachable.

Theorem tl_grow_preserves : forall c junk s tid size r s' old,
  inv c s -> get_tasklocal c junk s tid size = Some (r, s') -> tl_view c s tid = Some old ->
  exists new, tl_view c s' tid = Some new /\ firstn (length old) new = old /\ length old <= length new /\
              size <= length new /\ size_tasklocal c s' tid = Some (length new) /\ tl_region c s' tid = Some r.
Proof. exact tl_grow_preserves_step. Qed.
Print Assumptions tl_grow_preserves.

Theorem tl_grow_preserves_every_run : forall c junk ops tid size r s' old,
  let s := trun c junk init ops in
  get_tasklocal c junk s tid size = Some (r, s') -> tl_view c s tid = Some old ->
  exists new, tl_view c s' tid = Some new /\ firstn (Nat.min (length old) (length new)) new = firstn (Nat.min (length old) (length new)) old /\
              size <= length new.
Proof. exact tl_grow_preserves_run. Qed.
Print Assumptions tl_grow_preserves_every_run.

Theorem tl_private : forall c s t1 t2 r1 r2, inv c s -> t1 <> t2 ->
  (tl_region c s t1 = Some r1 \/ arg_region s t1 = Some r1) ->
  (tl_region c s t2 = Some r2 \/ arg_region s t2 = Some r2) -> regions_disjoint r1 r2.
Proof. exact tl_private_tasks. Qed.
Print Assumptions tl_private.

Theorem tl_private_argcopy : forall c s t r1 r2, inv c s ->
  tl_region c s t = Some r1 -> arg_region s t = Some r2 -> regions_disjoint r1 r2.
Proof. exact tl_private_own_arg. Qed.
Print Assumptions tl_private_argcopy.

Theorem tl_persist : forall c junk s o t, inv c s -> op_tid o <> t ->
  tl_view c (tstep c junk s o) t = tl_view c s t /\ arg_view (tstep c junk s o) t = arg_view s t /\
  tl_region c (tstep c junk s o) t = tl_region c s t.
Proof. exact tl_persist_step. Qed.
Print Assumptions tl_persist.

Theorem tl_store_read_back : forall c s tid bs s' old, inv c s -> tl_view c s tid = Some old -> length bs = length old ->
  tl_write c s tid 0 bs = Some s' -> tl_view c s' tid = Some bs.
Proof. exact tl_write_read. Qed.
Print Assumptions tl_store_read_back.
