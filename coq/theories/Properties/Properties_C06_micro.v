(* C06, extension K part 2: micro-step (shared-access level) model of the FEB calls with a NASCENT (precondition) waiter as the third
   party.  Model: Feb/Micro3Pre.v (Feb/Micro3.v + the collection of nascent waiters in qthread_gotlock_fill_inner, qthread_precond_launch
   and the walk of qthread_check_feb_preconds after the record lock was dropped: lock stripe, lookup, lock record, unlock stripe, test
   m->full, count the word off / park again on the first empty word, enqueue when no word remains; then qthread_FEB_remove).
   Domain (finite, swept exhaustively through checked reachable-set certificates with a state invariant and a decreasing measure):
   3 initial states (N parked on the empty word w with the one remaining word w; with w and then an abstract second word u that is
   full / empty at the start and that an environment actor, schedule id 2, may flip once) x 13 x 13 running calls.
   [mstep_skip] is the regression variant of the seeded changes C06-3 / C06-1 (the tail of qthread_gotlock_fill_inner skips
   qthread_precond_launch when the record is not removeable), [mstep_nocheck] enqueues the batch without the re-check. *)
From Coq Require Import List ZArith NArith Bool.
From QV Require Import Cell.Spec Feb.Model Feb.Proofs Feb.Micro3Pre Feb.Micro3PreProofs Feb.Micro3PreTheorems.
Import ListNotations.
Local Open Scope N_scope.

(* in every interleaving of the two calls' shared accesses and the environment's flip, in every state reached: the monitor never
   fired (whenever the walk counted a word off, the word was full at that step), and if N has been enqueued then its walk has seen
   w full, has seen u full when N has a second word, and no word remained *)
Theorem micro3pre_launch_only_after_all_full : forall k oa ob,
  In oa (ops_of va) -> In ob (ops_of vb) ->
  forall sched s, is_sched sched -> run_with mstep (minit k oa ob) sched = Some s ->
    n_bad (g_n s) = false /\
    (n_launch (g_n s) <> 0%nat -> n_seenW (g_n s) = true /\ (n_hasU (g_n s) = true -> n_seenU (g_n s) = true) /\ n_rem (g_n s) = []).
Proof. exact Micro3PreTheorems.micro3pre_launch_only_after_all_full. Qed.
Print Assumptions micro3pre_launch_only_after_all_full.

Theorem micro3pre_launched_at_most_once : forall k oa ob,
  In oa (ops_of va) -> In ob (ops_of vb) ->
  forall sched s, is_sched sched -> run_with mstep (minit k oa ob) sched = Some s -> (n_launch (g_n s) <= 1)%nat.
Proof. exact Micro3PreTheorems.micro3pre_launched_at_most_once. Qed.
Print Assumptions micro3pre_launched_at_most_once.

(* in every reachable state N is in exactly one place: on a list of the table's record of w, parked on u, in the batch of a running
   call, or launched (never dropped, never duplicated) *)
Theorem micro3pre_conserved : forall k oa ob,
  In oa (ops_of va) -> In ob (ops_of vb) ->
  forall sched s, is_sched sched -> run_with mstep (minit k oa ob) sched = Some s -> n_places s = 1%nat.
Proof. exact Micro3PreTheorems.micro3pre_conserved. Qed.
Print Assumptions micro3pre_conserved.

(* in every state where neither call can move any more: N is launched (and on no list), or parked on the FFQ of w while w is EMPTY,
   or parked on u while u is empty; no batch is left behind, nobody holds a lock, no released record was used, the record is present
   iff somebody waits or the word is empty, and no running call is blocked whose condition holds *)
Theorem micro3pre_no_lost_nascent : forall k oa ob,
  In oa (ops_of va) -> In ob (ops_of vb) ->
  forall sched s, is_sched sched -> run_with mstep (minit k oa ob) sched = Some s -> final_with mstep s ->
    nascent_final_ok s = true /\ settled s = true /\ no_lost_wakeup s = true.
Proof. exact Micro3PreTheorems.micro3pre_no_lost_nascent. Qed.
Print Assumptions micro3pre_no_lost_nascent.

Theorem micro3pre_runs_bounded : forall k oa ob,
  In oa (ops_of va) -> In ob (ops_of vb) ->
  forall sched s, is_sched sched -> run_with mstep (minit k oa ob) sched = Some s -> N.of_nat (length sched) <= BOUND.
Proof. exact Micro3PreTheorems.micro3pre_runs_bounded. Qed.
Print Assumptions micro3pre_runs_bounded.

(* ---------------- regressions ---------------- *)
(* seeded change C06-3 (C06-1 behaves the same): a fill that releases a blocked readFE leaves the record not removeable, returns
   early and drops the nascent task it had collected (witness Micro3PreTheorems.skip_schedule) *)
Theorem micro3pre_skip_variant_refuted :
  ~ ((forall sched s, is_sched sched -> run_with mstep_skip (minit IPre1 OFill (OReadFE DOwn)) sched = Some s -> inv_ok s = true) /\
     (forall sched s, is_sched sched -> run_with mstep_skip (minit IPre1 OFill (OReadFE DOwn)) sched = Some s ->
                      final_with mstep_skip s -> good_final s = true)).
Proof. exact Micro3PreTheorems.micro3pre_skip_variant_refuted. Qed.
Print Assumptions micro3pre_skip_variant_refuted.

Theorem micro3pre_skip_variant_witness :
  exists s, run_with mstep_skip (minit IPre1 OFill (OReadFE DOwn)) (sched_of skip_schedule) = Some s /\
            final_with mstep_skip s /\ good_final s = false /\ nascent_final_ok s = false /\
            n_launch (g_n s) = 0%nat /\ on_w s = 0%nat /\ t_batch (g_t0 s) = true /\
            res_of (g_t0 s) = Some (OK, None) /\ res_of (g_t1 s) = Some (OK, Some 5%Z) /\ full_now s = false.
Proof. exact Micro3PreTheorems.skip_witness. Qed.
Print Assumptions micro3pre_skip_variant_witness.

(* outside the class "a fill-like call and a blocking readFE" (24 of the 507 triples) the variant keeps all of the above *)
Theorem micro3pre_skip_variant_partial : forall k oa ob,
  In oa (ops_of va) -> In ob (ops_of vb) -> skip_class k oa ob = false ->
  (forall sched s, is_sched sched -> run_with mstep_skip (minit k oa ob) sched = Some s -> inv_ok s = true) /\
  (forall sched s, is_sched sched -> run_with mstep_skip (minit k oa ob) sched = Some s -> final_with mstep_skip s -> good_final s = true).
Proof. exact Micro3PreTheorems.micro3pre_skip_variant_partial. Qed.
Print Assumptions micro3pre_skip_variant_partial.

(* launch without the re-check: N starts although the word was emptied again between the collection and the launch *)
Theorem micro3pre_nocheck_variant_refuted :
  ~ ((forall sched s, is_sched sched -> run_with mstep_nocheck (minit IPre1 OFill OEmpty) sched = Some s -> inv_ok s = true) /\
     (forall sched s, is_sched sched -> run_with mstep_nocheck (minit IPre1 OFill OEmpty) sched = Some s ->
                      final_with mstep_nocheck s -> good_final s = true)).
Proof. exact Micro3PreTheorems.micro3pre_nocheck_variant_refuted. Qed.
Print Assumptions micro3pre_nocheck_variant_refuted.
