(* C03, extension B: micro-step (shared-access level) model of ALL syncvar operations, every interleaving of two calls.
   Model: Syncvar/MicroAll.v (src/syncvar.c access by access: optimistic loads, qthread_mwaitc with its timeout logic, publishing
   stores, table lock / lookup / insert / removal, record lock, enqueue, gotlock_fill / gotlock_empty, qthread_syncvar_remove).
   Domain (finite, swept exhaustively through checked reachable-set certificates): 5 initial states (full, empty, and full / empty
   with a third task already blocked in writeEF / readFE / readFF) x 11 x 11 calls, payload 5, arguments 11 / 22 / 33;
   INITIAL_TIMEOUT of the first qthread_mwaitc attempt = ITMO = 2 (ocaml/c03micro_driver --itmo N re-runs the search for other
   values at run time).
   [mstep] is the code as it is (since /repo 8cdc001 and e1e6722); [mstep_old] the access order before these two commits, about
   which the refutations are kept as regressions (both classes were reproduced on the real code before the commits). *)
From Coq Require Import List NArith Bool.
From QV Require Import Syncvar.Defs Syncvar.CellSpec Syncvar.MicroAll Syncvar.MicroAllProofs Syncvar.MicroAllTheorems.
Import ListNotations.
Local Open Scope N_scope.

(* the code as it is: for every pair of the 11 x 11 calls and every initial state, EVERY interleaving of the two calls' shared
   accesses ends with results of the three tasks, full/empty state, payload and waiter lists equal to those of the two atomic
   cell operations (CellSpec.spec_step) in one of the two orders; both calls returned or are blocked; nobody holds the word
   lock, the table lock or a record lock; no released record was touched; the state bits say what the table holds *)
Theorem sv_micro_atomic_pairs : forall k oa ob,
  In oa (ops_of va) -> In ob (ops_of vb) ->
  forall sched s, is_sched sched -> run_with (mstep ITMO) (minit k oa ob) sched = Some s -> final_with (mstep ITMO) s ->
                  good_final k oa ob s = true.
Proof. exact MicroAllTheorems.sv_micro_atomic_pairs. Qed.
Print Assumptions sv_micro_atomic_pairs.

(* ---------------- regressions about the access order before /repo 8cdc001 / e1e6722 ---------------- *)
(* the full statement did not hold: use after free of the waiter record in the wait path of qthread_syncvar_readFF against
   qthread_syncvar_remove (witness schedule MicroAllTheorems.uaf_schedule) *)
Theorem sv_micro_atomic_old_refuted :
  ~ (forall k oa ob, In oa (ops_of va) -> In ob (ops_of vb) ->
     forall sched s, is_sched sched -> run_with (mstep_old ITMO) (minit k oa ob) sched = Some s -> final_with (mstep_old ITMO) s ->
                     good_final k oa ob s = true).
Proof. exact MicroAllTheorems.sv_micro_atomic_old_refuted. Qed.
Print Assumptions sv_micro_atomic_old_refuted.

(* what that schedule does: the released record is locked and used, the reader ends up blocked on a record the table no longer
   holds, the word says "empty with waiters" *)
Theorem sv_micro_old_uaf_witness :
  exists s, run_with (mstep_old ITMO) (minit IEmptyFE (WriteF va) (ReadFF true)) (sched_of uaf_schedule) = Some s /\
            final_with (mstep_old ITMO) s /\ good_final IEmptyFE (WriteF va) (ReadFF true) s = false /\
            g_uaf s = true /\ t_blk (g_t1 s) = true /\ g_hash s = None /\ w_st (g_w s) = 3 /\
            res_of (g_t0 s) = Some (RC_SUCCESS, None) /\ res_of (g_t2 s) = Some (RC_SUCCESS, Some va).
Proof. exact MicroAllTheorems.old_uaf_witness. Qed.
Print Assumptions sv_micro_old_uaf_witness.

(* second class: a non-blocking call gave up with QTHREAD_OPFAIL because it met the lock bit, on a variable that is full all the time *)
Theorem sv_micro_old_nb_spurious_refuted :
  ~ (forall sched s, is_sched sched -> run_with (mstep_old ITMO) (minit IFull (ReadFF_nb true) (WriteF vb)) sched = Some s ->
                     final_with (mstep_old ITMO) s -> good_final IFull (ReadFF_nb true) (WriteF vb) s = true).
Proof. exact MicroAllTheorems.sv_micro_old_nb_spurious_refuted. Qed.
Print Assumptions sv_micro_old_nb_spurious_refuted.

(* outside the two classes the old order was atomic too *)
Theorem sv_micro_atomic_old_pairs_partial : forall k oa ob,
  In oa (ops_of va) -> In ob (ops_of vb) -> racy k oa ob = false ->
  forall sched s, is_sched sched -> run_with (mstep_old ITMO) (minit k oa ob) sched = Some s -> final_with (mstep_old ITMO) s ->
                  good_final k oa ob s = true.
Proof. exact MicroAllTheorems.sv_micro_atomic_old_pairs_partial. Qed.
Print Assumptions sv_micro_atomic_old_pairs_partial.

(* and outside the use-after-free class its only deviation was that: a non-blocking call may give up, changing nothing *)
Theorem sv_micro_atomic_old_weaknb_partial : forall k oa ob,
  In oa (ops_of va) -> In ob (ops_of vb) -> uaf_class k oa ob = false ->
  forall sched s, is_sched sched -> run_with (mstep_old ITMO) (minit k oa ob) sched = Some s -> final_with (mstep_old ITMO) s ->
                  good_final_weak k oa ob s = true.
Proof. exact MicroAllTheorems.sv_micro_atomic_old_weaknb_partial. Qed.
Print Assumptions sv_micro_atomic_old_weaknb_partial.

(* the guards name 10 + 90 of the 605 triples *)
Theorem sv_micro_racy_count :
  length (filter (fun x => x) (flat_map (fun k => flat_map (fun oa => map (fun ob => uaf_class k oa ob) (ops_of vb)) (ops_of va)) ikinds)) = 10%nat /\
  length (filter (fun x => x) (flat_map (fun k => flat_map (fun oa => map (fun ob => negb (uaf_class k oa ob) && nb_class k oa ob) (ops_of vb)) (ops_of va)) ikinds)) = 90%nat.
Proof. exact MicroAllTheorems.racy_count. Qed.
Print Assumptions sv_micro_racy_count.
