(* C10 extension S -- lifecycle entry points of the donecount sinc: property theorems (proofs in Sinc/ExtraProofs.v).
   Model: Sinc/Extra.v around the micro-step machine of Sinc/Model.v. *)
From Coq Require Import List ZArith Bool Arith.
From QV Require Import Sinc.Model Sinc.Proofs Sinc.Extra Sinc.ExtraProofs.
Import ListNotations.

(* qt_sinc_init on caller-provided storage and qt_sinc_create: for all parameters, programs, lifecycle scripts and schedules
   the two executions agree on every field except the storage tag *)
Theorem sinc_init_equals_create :
  forall (V : Type) (vop : V -> V -> V) (hd : bool) (iv : V) (ns : nat) (c : Z)
         (progs : list (list (op V))) (script : list cop) (sched : list nat),
    xexec V vop (xinit V Caller hd iv ns c progs script) sched =
    with_stor V Caller (xexec V vop (xinit V Heap hd iv ns c progs script) sched).
Proof. exact init_equals_create. Qed.
Print Assumptions sinc_init_equals_create.

(* qt_sinc_reset, quiescent form: with n <> 0, or n = 0 on a COMPLETE sinc (ready full), the whole later execution -- every
   schedule, every participant program, every lifecycle script -- from the reset sinc equals the one from a freshly
   initialised sinc: equal states after every schedule prefix, hence equal traces (a bisimulation, not only the first wait) *)
Theorem sinc_reset_equals_fresh :
  forall (V : Type) (vop : V -> V -> V) (s : state V) (n : Z) (progs : list (list (op V))) (script : list cop)
         (sched : list nat) (rf vf df sf : bool) (u : nat) (st : storage),
    (n <> 0%Z \/ ready s = true) ->
    xexec V vop (mkx V (reset V s n progs) (fst (cload (hasdata s) script)) (snd (cload (hasdata s) script)) rf vf df sf u st) sched =
    xexec V vop (mkx V (start V (hasdata s) (initv s) (nslots s) n progs) (fst (cload (hasdata s) script)) (snd (cload (hasdata s) script)) rf vf df sf u st) sched.
Proof. exact reset_equals_fresh. Qed.
Print Assumptions sinc_reset_equals_fresh.

(* qt_sinc_reset at ANY moment (participants mid-operation or blocked): the reset step of the lifecycle thread leaves exactly
   the shared state of a fresh sinc, the participants keeping their positions (valpart_fresh: the sinc has its value part, or
   never had one -- after qt_sinc_fini the freed result/slots are not touched by reset) *)
Theorem sinc_reset_mid_generation_fresh_shared_state :
  forall (V : Type) (x x' : xstate V) (n : Z), ctl_pc x = CReset n -> cstep V x = Some x' ->
    (n <> 0%Z \/ ready (base x) = true) -> valpart_fresh V (base x) ->
    base x' = upd_thr V (start V (hasdata (base x)) (initv (base x)) (nslots (base x)) n []) (thrs (base x)).
Proof. exact reset_step_fresh. Qed.
Print Assumptions sinc_reset_mid_generation_fresh_shared_state.

(* the excluded case: reset(0) of an incomplete sinc with a blocked waiter -- nothing can ever run again (ready stays empty),
   whereas a fresh sinc with count 0 is full *)
Theorem sinc_reset_zero_incomplete_refuted :
  let x := xexec nat Nat.add (xinit nat Heap false 0%nat 1 1 [[Wait false]] [XReset 0]) [0; 1]%nat in
  counter (base x) = 0%Z /\ ready (base x) = false /\ xenabled_list nat Nat.add x = [] /\
  (exists t, nth_error (thrs (base x)) 0 = Some t /\ t_pc t = PBlk false) /\
  ready (start nat false 0%nat 1 0 [[Wait false]]) = true.
Proof. exact reset_zero_incomplete_refuted_lemma. Qed.
Print Assumptions sinc_reset_zero_incomplete_refuted.

(* qt_sinc_fini (dst = false) / qt_sinc_destroy (dst = true) begun while every participant is idle, blocked in qt_sinc_wait
   or (fini only) about to wait, with no value-delivering wait pending on a complete sinc (fini_guard): for EVERY schedule no
   access ever touches freed memory, no participant ever copies from the result (every wait delivers nothing), once the
   lifecycle thread is done ready is full and nobody is blocked, and after the structure is freed everybody is idle *)
Theorem sinc_fini_releases :
  forall (V : Type) (vop : V -> V -> V) (dst : bool) (x : xstate V) (sched : list nat), fini_guard V dst x ->
    let x' := xexec V vop x sched in
    uaf x' = 0%nat /\
    (forall i t, nth_error (thrs (base x')) i = Some t -> t_pc t <> PCopy /\ Forall (fun g => g = None) (t_got t)) /\
    (ctl_pc x' = CIdle -> hasdata (base x') = false /\ ready (base x') = true /\
                            forall i t b, nth_error (thrs (base x')) i = Some t -> t_pc t <> PBlk b) /\
    (struct_freed x' = true -> forall i t, nth_error (thrs (base x')) i = Some t -> t_pc t = PIdle).
Proof. exact fini_releases. Qed.
Print Assumptions sinc_fini_releases.

(* outside the guard: a waiter already past its readFF when fini frees the result copies from freed memory *)
Theorem sinc_fini_copy_in_flight_refuted :
  let x := xexec nat Nat.add (xinit nat Heap true 7%nat 1 0 [[Wait true]] [XFini]) [0; 1; 0]%nat in
  uaf x = 1%nat /\ result_freed x = true /\ exists t, nth_error (thrs (base x)) 0 = Some t /\ t_got t = [Some 7%nat].
Proof. exact fini_copy_in_flight_refuted_lemma. Qed.
Print Assumptions sinc_fini_copy_in_flight_refuted.

(* qt_sinc_resize: the fetch-add step adds d mod 2^64, never changes ready, and goes on to the fill exactly when the new
   count is zero *)
Theorem sinc_resize_add_step :
  forall (V : Type) (x x' : xstate V) (d : Z), ctl_pc x = CRAdd d -> cstep V x = Some x' ->
    counter (base x') = wrap64 (counter (base x) + d) /\ ready (base x') = ready (base x) /\
    thrs (base x') = thrs (base x) /\ hasdata (base x') = hasdata (base x) /\
    (wrap64 (counter (base x) + d) = 0%Z -> ctl_pc x' = CRFill) /\
    (wrap64 (counter (base x) + d) <> 0%Z -> ctl_pc x' = fst (cload (hasdata (base x)) (ctl_script x))).
Proof. exact resize_add_step. Qed.
Print Assumptions sinc_resize_add_step.

Theorem sinc_resize_keeps_ready_full :
  forall (V : Type) (x x' : xstate V), (ctl_pc x = CRFill \/ exists d, ctl_pc x = CRAdd d) -> cstep V x = Some x' ->
    ready (base x) = true -> ready (base x') = true.
Proof. exact resize_never_empties_ready. Qed.
Print Assumptions sinc_resize_keeps_ready_full.

(* hence: after resize(d), 0 < d < 2^64, on a complete sinc the count is d, ready is still full and a wait arriving now
   gets past its readFF although d submissions are outstanding *)
Theorem sinc_resize_complete_wait_passes :
  forall (V : Type) (vop : V -> V -> V) (x x' : xstate V) (d : Z) (i : nat) (t : thr V) (b : bool) (s'' : state V),
    ctl_pc x = CRAdd d -> (0 < d < 18446744073709551616)%Z -> counter (base x) = 0%Z -> ready (base x) = true ->
    cstep V x = Some x' -> nth_error (thrs (base x')) i = Some t -> t_pc t = PRead b ->
    step V vop (base x') i = Some s'' ->
    counter (base x') = d /\ ready (base x') = true /\ ctl_pc x' <> CRFill /\
    nth_error (thrs s'') i = Some (passed V (hasdata (base x')) b t) /\ counter s'' = d.
Proof. exact resize_complete_wait_passes. Qed.
Print Assumptions sinc_resize_complete_wait_passes.

Theorem resize_leaves_ready_full_refuted :
  let x := xexec nat Nat.add (xinit nat Heap false 0%nat 1 0 [[Wait false]] [XResize 2]) [1; 0]%nat in
  counter (base x) = 2%Z /\ ready (base x) = true /\ decs (base x) = 0%nat /\ (c0 (base x) + exps (base x) = 2)%Z /\
  (exists t, nth_error (thrs (base x)) 0 = Some t /\ t_got t = [None] /\ t_pc t = PIdle) /\ ctl_pc x = CIdle.
Proof. exact resize_leaves_ready_full_refuted_lemma. Qed.
Print Assumptions resize_leaves_ready_full_refuted.

(* qt_sinc_tmpdata: the slot of (shepherd, worker) is in range, distinct workers get distinct slots, and it is the slot
   qt_sinc_submit of the same worker updates; NULL for a void sinc *)
Theorem tmpdata_slot_in_range :
  forall ns wps shep worker, (shep < ns)%nat -> (worker < wps)%nat -> (slot_of wps shep worker < ns * wps)%nat.
Proof. exact slot_in_range. Qed.
Print Assumptions tmpdata_slot_in_range.

Theorem tmpdata_slot_injective :
  forall wps s1 w1 s2 w2, (w1 < wps)%nat -> (w2 < wps)%nat -> slot_of wps s1 w1 = slot_of wps s2 w2 -> s1 = s2 /\ w1 = w2.
Proof. exact slot_injective. Qed.
Print Assumptions tmpdata_slot_injective.

Theorem tmpdata_equals_submit_slot :
  forall hd wps shep worker, tmpdata hd wps shep worker = if hd then Some (submit_slot wps shep worker) else None.
Proof. exact tmpdata_is_submit_slot. Qed.
Print Assumptions tmpdata_equals_submit_slot.
