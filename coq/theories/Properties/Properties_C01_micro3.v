(* C01 / C02, extension K: micro-step (shared-access level) model of the FEB calls with a THIRD task already blocked on the word, so
   that the wake-up bodies and the record removal race with a second running call.
   Model: Feb/Micro3.v (src/feb.c access by access, non LOCK_FREE_FEBS build, as it is since /repo eba51ae: stripe lock / lookup /
   insert / record lock / stripe unlock, test of m->full, the caller's own load / store, enqueue + switch, the loops of
   qthread_gotlock_fill_inner / qthread_gotlock_empty_inner per waiter (dequeue, memory effect, hand-over to the scheduler),
   `removeable`, qthread_FEB_remove with its second lookup and re-check under both locks, release of the record).
   Domain (finite, swept exhaustively through checked reachable-set certificates with a decreasing measure): 6 initial states (full;
   empty; full with task 2 blocked in writeEF(33); empty with task 2 blocked in readFE / readFF / writeFF(33)) x 13 x 13 calls,
   word 5 at the start, arguments 11 / 22.  [mstep_norecheck] is a regression variant (removal without the re-check). *)
From Coq Require Import List ZArith NArith Bool.
From QV Require Import Cell.Spec Feb.Model Feb.Proofs Feb.Micro3 Feb.Micro3Proofs Feb.Micro3Theorems.
Import ListNotations.
Local Open Scope N_scope.

(* the code as it is: for every initial state and every pair of the 13 x 13 calls, EVERY interleaving of the two calls' shared
   accesses ends with: the three tasks returned or blocked on a list of the table's record; nobody holds the stripe lock or a
   record lock; no released record was used; the record is in the table iff somebody still waits or the word is empty; results
   of the three tasks, word, full bit and the four waiter lists equal to those of the two calls executed as atomic steps
   (Feb/Model.v word_step: Cell/Spec.v + the release rule) in one of the two orders, the blocked task having been on its list first
   (readXX, which takes no lock: the value at some point of a Cell/Spec linearisation of the other call and the operation it wakes) *)
Theorem micro3_atomic_triples : forall k oa ob,
  In oa (ops_of va) -> In ob (ops_of vb) ->
  forall sched s, is_sched sched -> run_with mstep (minit k oa ob) sched = Some s -> final_with mstep s -> good_final k oa ob s = true.
Proof. exact Micro3Theorems.micro3_atomic_triples. Qed.
Print Assumptions micro3_atomic_triples.

(* C02 at this granularity: in every final state no task is blocked whose condition holds (a blocked writeEF on an empty word, a
   blocked readFE / readFF / writeFF on a full word) *)
Theorem micro3_no_lost_wakeup : forall k oa ob,
  In oa (ops_of va) -> In ob (ops_of vb) ->
  forall sched s, is_sched sched -> run_with mstep (minit k oa ob) sched = Some s -> final_with mstep s -> no_lost_wakeup s = true.
Proof. exact Micro3Theorems.micro3_no_lost_wakeup. Qed.
Print Assumptions micro3_no_lost_wakeup.

(* every interleaving terminates: no run, maximal or not, has more than BOUND = 1000 steps (every step decreases a measure) *)
Theorem micro3_runs_bounded : forall k oa ob,
  In oa (ops_of va) -> In ob (ops_of vb) ->
  forall sched s, is_sched sched -> run_with mstep (minit k oa ob) sched = Some s -> N.of_nat (length sched) <= BOUND.
Proof. exact Micro3Theorems.micro3_runs_bounded. Qed.
Print Assumptions micro3_runs_bounded.

(* what [good_final] says about locks, released records and the presence of the record, spelled out *)
Theorem micro3_good_final_structure : forall k oa ob s, good_final k oa ob s = true ->
  g_hlock s = None /\ Forall (fun r => k_lock r = None) (g_heap s) /\ g_uaf s = false /\
  (match hashed s with Some r => all_empty r && r_full r = false | None => True end) /\
  explained k oa ob s = true.
Proof. exact Micro3Theorems.good_final_unfold. Qed.
Print Assumptions micro3_good_final_structure.

(* regression variant: with qthread_FEB_remove removing the record WITHOUT re-checking lists and full bit under the two locks the
   statement fails (witness Micro3Theorems.norecheck_schedule: fill's removal against a readFE that emptied the word in between) *)
Theorem micro3_norecheck_refuted :
  ~ (forall sched s, is_sched sched -> run_with mstep_norecheck (minit IEmpty OFill (OReadFE DOwn)) sched = Some s ->
                     final_with mstep_norecheck s -> good_all IEmpty OFill (OReadFE DOwn) s = true).
Proof. exact Micro3Theorems.micro3_norecheck_refuted. Qed.
Print Assumptions micro3_norecheck_refuted.

Theorem micro3_norecheck_witness :
  exists s, run_with mstep_norecheck (minit IEmpty OFill (OReadFE DOwn)) (sched_of norecheck_schedule) = Some s /\
            final_with mstep_norecheck s /\ good_all IEmpty OFill (OReadFE DOwn) s = false /\
            res_of (g_t0 s) = Some (OK, None) /\ res_of (g_t1 s) = Some (OK, Some 5%Z) /\ g_hash s = None /\ full_now s = true.
Proof. exact Micro3Theorems.norecheck_witness. Qed.
Print Assumptions micro3_norecheck_witness.
