(* C15 extension H: qlfqueue WITH node reclamation (hazard pointers, scan, pool re-use) and the micro-step qdqueue machine.
   Only statements + `exact`; the proofs are in CQueues/LfqReclaimProofs.v, CQueues/LfqReclaimTail.v, CQueues/DqMicroProofs.v. *)
From Coq Require Import List NArith Bool Arith Permutation Sorted.
From QV Require Import CQueues.Lfq CQueues.LfqProofs CQueues.Hazard CQueues.LfqReclaim CQueues.LfqReclaimTail CQueues.LfqReclaimProofs.
From QV Require CQueues.Dq CQueues.DqMicro CQueues.DqMicroProofs CQueues.HazardExt CQueues.HazardProofs.
Import ListNotations.
Local Open Scope N_scope.

(* ---- the fresh-id machine (Lfq.v): q->tail never falls behind q->head *)
Theorem lfq_tail_not_behind_head : forall progs sched, let s := lrun (linit progs) sched in
  exists L i j, Inv s L /\ nth_error L i = Some (s_head s) /\ nth_error L j = Some (s_tail s) /\ (i <= j)%nat.
Proof. exact LfqReclaimTail.lfq_tail_not_behind_head. Qed.
Print Assumptions lfq_tail_not_behind_head.

(* ---- the reclaiming machine (LfqReclaim.v): every schedule, every number of threads, every freelist_max *)
Theorem lfqr_refines_lfq : forall fmax progs sched,
  exists asched,
    let c := rrun (rinit fmax progs) sched in
    let s := lrun (linit (aprogs progs)) asched in
    rg_enq c = g_enq s /\ rg_deq c = g_deq s /\ length (r_thr c) = length (s_thr s) /\
    forall t rt, nth_error (r_thr c) t = Some rt ->
      exists lt, nth_error (s_thr s) t = Some lt /\ lt_out lt = filter notemp_out (rt_out rt).
Proof. exact LfqReclaimProofs.lfqr_refines_lfq. Qed.
Print Assumptions lfqr_refines_lfq.

Theorem lfqr_no_use_after_free : forall fmax progs sched,
  let c := rrun (rinit fmax progs) sched in
  forall t th p, nth_error (r_thr c) t = Some th -> deref_next (rt_pc th) = Some p -> live c p /\ rt_hz0 th = pa p.
Proof. exact LfqReclaimProofs.lfqr_no_use_after_free. Qed.
Print Assumptions lfqr_no_use_after_free.

Theorem lfqr_no_aba : forall fmax progs sched,
  let c := rrun (rinit fmax progs) sched in
  forall t th w p, nth_error (r_thr c) t = Some th -> cas_expect (rt_pc th) = Some (w, p) ->
    live c p /\ rt_hz0 th = pa p /\ (pa (word_of c w) = pa p -> pl (word_of c w) = pl p).
Proof. exact LfqReclaimProofs.lfqr_no_aba. Qed.
Print Assumptions lfqr_no_aba.

Theorem lfqr_head_tail_live : forall fmax progs sched,
  let c := rrun (rinit fmax progs) sched in live c (r_head c) /\ live c (r_tail c).
Proof. exact LfqReclaimProofs.lfqr_head_tail_live. Qed.
Print Assumptions lfqr_head_tail_live.

Theorem lfqr_pool_sound : forall fmax progs sched,
  let c := rrun (rinit fmax progs) sched in
  NoDup (r_free c) /\ forall t th a, nth_error (r_thr c) t = Some th -> In a (eff_rl th) -> ~ In a (r_free c).
Proof. exact LfqReclaimProofs.lfqr_pool_sound. Qed.
Print Assumptions lfqr_pool_sound.

Theorem lfqr_value_read_live_when_head_unchanged : forall fmax progs sched,
  let c := rrun (rinit fmax progs) sched in
  forall t th hd nx, nth_error (r_thr c) t = Some th -> rt_pc th = RdLdVal hd nx -> pa (r_head c) = pa hd -> live c nx.
Proof. exact LfqReclaimProofs.lfqr_value_read_live_when_head_unchanged. Qed.
Print Assumptions lfqr_value_read_live_when_head_unchanged.

Theorem lfqr_conservation : forall fmax progs sched,
  let c := rrun (rinit fmax progs) sched in
  map snd (rg_deq c) = firstn (length (rg_deq c)) (map snd (rg_enq c)) /\
  (length (rg_deq c) <= length (rg_enq c))%nat.
Proof. exact LfqReclaimProofs.lfqr_conservation. Qed.
Print Assumptions lfqr_conservation.

Theorem lfqr_per_producer_fifo : forall fmax progs sched,
  let c := rrun (rinit fmax progs) sched in
  forall p, exists k,
    map snd (filter (fun x => Nat.eqb (fst x) p) (rg_enq c)) = firstn k (enq_vals (nth p progs [])).
Proof. exact LfqReclaimProofs.lfqr_per_producer_fifo. Qed.
Print Assumptions lfqr_per_producer_fifo.

Theorem lfqr_consumer_results : forall fmax progs sched,
  (forall ops v, In ops progs -> In (LEnq v) ops -> v <> 0) ->
  let c := rrun (rinit fmax progs) sched in
  forall t rt, nth_error (r_thr c) t = Some rt ->
    exists pending,
      deq_results (rt_out rt) ++ pending = map snd (filter (fun x => Nat.eqb (fst x) t) (rg_deq c)) /\
      (length pending <= 1)%nat.
Proof. exact LfqReclaimProofs.lfqr_consumer_results. Qed.
Print Assumptions lfqr_consumer_results.

(* what the code does not guarantee: loads from nodes that are in the pool's free list (results discarded / unvalidated) *)
Theorem lfqr_value_read_uaf_refuted :
  exists fmax progs sched t th hd nx,
    let c := rrun (rinit fmax progs) sched in
    nth_error (r_thr c) t = Some th /\ rt_pc th = RdLdVal hd nx /\ rt_hz1 th = pa nx /\ In (pa nx) (r_free c).
Proof. exact LfqReclaimProofs.lfqr_value_read_uaf_refuted. Qed.
Print Assumptions lfqr_value_read_uaf_refuted.

Theorem lfqr_empty_uaf_refuted :
  exists fmax progs sched t th hd tl g,
    let c := rrun (rinit fmax progs) sched in
    nth_error (r_thr c) t = Some th /\ rt_pc th = RmLdNext hd tl g /\ In (pa hd) (r_free c).
Proof. exact LfqReclaimProofs.lfqr_empty_uaf_refuted. Qed.
Print Assumptions lfqr_empty_uaf_refuted.

(* qlfqueue_empty with node re-use: the C15 clause holds (same statement as lfq_empty_sound), linearizability does not *)
Theorem lfqr_empty_sound : forall fmax progs sched,
  let c := rrun (rinit fmax progs) sched in
  forall t hd tl nx g c', rpc_of c t = RmChk hd tl nx g -> rstep c t = Some (c', Some (LInt 1)) ->
    (g <= length (rg_deq c))%nat.
Proof. exact LfqReclaimProofs.lfqr_empty_sound. Qed.
Print Assumptions lfqr_empty_sound.

Theorem lfqr_empty_never_empty_refuted :
  exists fmax progs before call,
    (exists th, nth_error (r_thr (rrun (rinit fmax progs) before)) 1 = Some th /\ rt_pc th = RIdle /\ rt_ops th = [LEmp]) /\
    (exists th, nth_error (r_thr (rrun (rinit fmax progs) (before ++ call))) 1 = Some th /\ rt_out th = [(LEmp, LInt 1)]) /\
    forall n, let c := rrun (rinit fmax progs) (before ++ firstn n call) in (length (rg_deq c) < length (rg_enq c))%nat.
Proof. exact LfqReclaimProofs.lfqr_empty_never_empty_refuted. Qed.
Print Assumptions lfqr_empty_never_empty_refuted.

(* ---- hazardous_scan and the hazard slots of NON-worker threads (hzptr_list path): they are never consulted *)
Theorem scan_x_ignores_external : forall slots me ext fl, HazardExt.scan_x slots me ext fl = scan slots me fl.
Proof. exact HazardExt.scan_x_ignores_external. Qed.
Print Assumptions scan_x_ignores_external.

Theorem scan_x_frees_externally_protected : forall slots me ext fl kept freed p,
  HazardExt.scan_x slots me ext fl = Some (kept, freed) -> In p (HazardProofs.upto0 fl) -> ~ In p (collect slots me) -> In p freed.
Proof. exact HazardExt.scan_x_frees_externally_protected. Qed.
Print Assumptions scan_x_frees_externally_protected.

(* ---- qdqueue micro-step machine (DqMicro.v): every schedule, every configuration, ARBITRARY initial hint fields *)
Section DqM.
Import CQueues.Dq CQueues.DqMicro CQueues.DqMicroProofs.

Theorem dqm_conservation : forall ns alls nbrs hn progs sched,
  progs_ok ns progs ->
  let s := dm_run (dm_init ns alls nbrs hn progs) sched in
  Permutation (d_deq s ++ concat (dm_qs s)) (d_enq s) /\
  (NoDup (prog_vals progs) -> NoDup (d_deq s)) /\
  (forall k x, In k (dm_tasks s) -> In (Some x) (k_out k) -> In x (d_deq s) /\ In x (d_enq s)).
Proof. exact DqMicroProofs.dqm_conservation. Qed.
Print Assumptions dqm_conservation.

Theorem dqm_null_means_all_empty_at_some_point : forall ns alls nbrs hn progs sched t s' i,
  progs_ok ns progs -> alls_cover ns alls ->
  let s := dm_run (dm_init ns alls nbrs hn progs) sched in
  dm_step s t = Some (s', Some (DPtr None)) ->
  (i < ns)%nat ->
  In i (k_seen (task_of s t)) /\ k_seen (task_of s' t) = k_seen (task_of s t) /\
  k_out (task_of s' t) = k_out (task_of s t) ++ [None].
Proof. exact DqMicroProofs.dqm_null_means_all_empty_at_some_point. Qed.
Print Assumptions dqm_null_means_all_empty_at_some_point.

Theorem dqm_null_trace : forall ns alls nbrs hn progs sched t s' i,
  progs_ok ns progs -> alls_cover ns alls ->
  let init := dm_init ns alls nbrs hn progs in
  dm_step (dm_run init sched) t = Some (s', Some (DPtr None)) -> (i < ns)%nat ->
  exists sched1 sched2, sched = sched1 ++ t :: sched2 /\ observes_empty t i (dm_run init sched1) /\
    forall n, In i (k_seen (task_of (dm_run init (sched1 ++ t :: firstn n sched2)) t)).
Proof. exact DqMicroProofs.dqm_null_trace. Qed.
Print Assumptions dqm_null_trace.

Theorem dqm_result_was_head : forall ns alls nbrs hn progs sched t s' x,
  let init := dm_init ns alls nbrs hn progs in
  dm_step (dm_run init sched) t = Some (s', Some (DPtr (Some x))) ->
  exists i sched1 sched2, sched = sched1 ++ t :: sched2 /\ takes_head t i x (dm_run init sched1) /\
    forall n, k_pc (task_of (dm_run init (sched1 ++ t :: firstn n sched2)) t) = PDeqStRet i x.
Proof. exact DqMicroProofs.dqm_result_was_head. Qed.
Print Assumptions dqm_result_was_head.

Theorem dqm_hints_advisory : forall ns alls nbrs progs (hn1 hn2 : hints) sched,
  progs_ok ns progs -> alls_cover ns alls ->
  dqm_safe ns alls nbrs progs hn1 sched /\ dqm_safe ns alls nbrs progs hn2 sched.
Proof. exact DqMicroProofs.dqm_hints_advisory. Qed.
Print Assumptions dqm_hints_advisory.

Theorem dqm_adheap_wellformed : forall ns alls nbrs progs sched h,
  let s := dm_run (dm_init ns alls nbrs (hints_create ns) progs) sched in
  exists l, is_chain (q_heap (getq s h)) (q_first (getq s h)) l /\
            StronglySorted lt l /\
            (forall m, In m l <-> e_inheap (hget (q_heap (getq s h)) m) = true) /\
            heap_chain (S (length (q_heap (getq s h)))) (q_heap (getq s h)) (q_first (getq s h)) = l.
Proof. exact DqMicroProofs.dqm_adheap_wellformed. Qed.
Print Assumptions dqm_adheap_wellformed.

Theorem dqm_push_scan_in_bounds : forall ns alls nbrs progs sched k,
  let s := dm_run (dm_init ns alls nbrs (hints_create ns) progs) sched in
  In k (dm_tasks s) -> forall n, k_pc k <> PCrash (S n).
Proof. exact DqMicroProofs.dqm_push_scan_in_bounds. Qed.
Print Assumptions dqm_push_scan_in_bounds.
Theorem dqm_gateway_mutex : forall ns alls nbrs hn progs sched,
  progs_ok ns progs -> nbrs_ok ns nbrs ->
  let s := dm_run (dm_init ns alls nbrs hn progs) sched in
  (forall h t, in_crit s t h -> q_lock (getq s h) = Some t) /\
  (forall h t, q_lock (getq s h) = Some t -> in_crit s t h \/ k_pc (task_of s t) = PCrash 1) /\
  (forall h t1 t2, in_crit s t1 h -> in_crit s t2 h -> t1 = t2) /\
  (forall t h1 h2, in_crit s t h1 -> in_crit s t h2 -> h1 = h2) /\
  (forall t h, in_crit s t h -> (h < ns)%nat).
Proof. exact DqMicroProofs.dqm_gateway_mutex. Qed.
Print Assumptions dqm_gateway_mutex.

Theorem dqm_crit_step_by_holder : forall ns alls nbrs hn progs sched t,
  progs_ok ns progs -> nbrs_ok ns nbrs ->
  let s := dm_run (dm_init ns alls nbrs hn progs) sched in
  (forall h i g c, k_pc (task_of s t) = PPushCrit h i g c -> q_lock (getq s h) = Some t) /\
  (k_pc (task_of s t) = PPopCrit -> q_lock (getq s (k_me (task_of s t))) = Some t).
Proof. exact DqMicroProofs.dqm_crit_step_by_holder. Qed.
Print Assumptions dqm_crit_step_by_holder.

Theorem dqm_gateway_mutex_create : forall ns alls nbrs progs sched h t,
  progs_ok ns progs -> nbrs_ok ns nbrs ->
  let s := dm_run (dm_init ns alls nbrs (hints_create ns) progs) sched in
  q_lock (getq s h) = Some t <-> in_crit s t h.
Proof. exact DqMicroProofs.dqm_gateway_mutex_create. Qed.
Print Assumptions dqm_gateway_mutex_create.

Theorem dqm_push_assert_holds : forall ns alls nbrs hn progs sched k,
  progs_ok ns progs -> alls_cover ns alls -> nbrs_ok ns nbrs -> hints_lc_ok ns hn ->
  In k (dm_tasks (dm_run (dm_init ns alls nbrs hn progs) sched)) -> k_pc k <> PCrash 0.
Proof. exact DqMicroProofs.dqm_push_assert_holds. Qed.
Print Assumptions dqm_push_assert_holds.

Theorem dqm_no_crash : forall ns alls nbrs progs sched k w,
  progs_ok ns progs -> alls_cover ns alls -> nbrs_ok ns nbrs ->
  In k (dm_tasks (dm_run (dm_init ns alls nbrs (hints_create ns) progs) sched)) -> k_pc k <> PCrash w.
Proof. exact DqMicroProofs.dqm_no_crash. Qed.
Print Assumptions dqm_no_crash.
End DqM.
