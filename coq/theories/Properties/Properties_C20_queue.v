(* C20 extension P -- the job queue of the blocking-call subsystem and its proxy pthreads (src/io.c) under EVERY schedule:
   the property theorems.  Machine: Io/QueueMicro.v (one shared access / pthread primitive per step: enqueue with
   spawn-or-signal test, proxy loop with lock, timed wait that may time out or wake spuriously at any moment, dequeue, call,
   hand-back, on-demand proxy creation, the shutdown function); extracted and run against the real code on every check.
   `init_gen false` (= init) is the code as it is now, `init_gen true` the proxy exit path before fix aa38ba9.
   The theorems hold for any number of workers, any job lists (distinct job records), io_worker_max >= 1, with or without
   the finalizing thread, and every schedule (sequence of (thread, choice); entries naming a blocked thread are skipped). *)
From Coq Require Import List ZArith Bool Permutation.
From QV Require Import Io.QueueMicro Io.QueueMicroProofs Io.QueueMicroInv Io.QueueMicroProgress Io.QueueMicroTop.
Import ListNotations.
Local Open Scope Z_scope.

(* at most one thread is inside the critical section of theQueue.lock, and it is the owner recorded in the lock word *)
Theorem ioq_lock_mutex : forall old jobs fin mx sched, NoDup (concat jobs) -> 1 <= mx ->
  forall t1 t2 th1 th2,
  nth_error (s_thr (run (init_gen old jobs fin mx) sched)) t1 = Some th1 ->
  nth_error (s_thr (run (init_gen old jobs fin mx) sched)) t2 = Some th2 ->
  holds th1 = true -> holds th2 = true -> t1 = t2 /\ s_lock (run (init_gen old jobs fin mx) sched) = Some t1.
Proof. exact lock_mutex_closed. Qed.
Print Assumptions ioq_lock_mutex.

(* every branch releases the lock: a thread whose pc is outside the critical section (it returned from a branch, it is
   blocked in the timed wait, it is asking for the lock, it has exited) does not own the lock *)
Theorem ioq_lock_released_on_every_path : forall old jobs fin mx sched, NoDup (concat jobs) -> 1 <= mx ->
  forall t th, nth_error (s_thr (run (init_gen old jobs fin mx) sched)) t = Some th -> holds th = false ->
  s_lock (run (init_gen old jobs fin mx) sched) <> Some t.
Proof. exact lock_released_closed. Qed.
Print Assumptions ioq_lock_released_on_every_path.

(* no reachable state in which a thread waits for a lock that its own pc still holds *)
Theorem ioq_no_self_deadlock : forall old jobs fin mx sched, NoDup (concat jobs) -> 1 <= mx ->
  forall t th, nth_error (s_thr (run (init_gen old jobs fin mx) sched)) t = Some th -> wants th = true ->
  s_lock (run (init_gen old jobs fin mx) sched) <> Some t.
Proof. exact no_self_deadlock_closed. Qed.
Print Assumptions ioq_no_self_deadlock.

(* head / tail / length are consistent at every step: the next-chain from head is a duplicate-free list l ending in NULL,
   tail is its last node, length its number of nodes, and the queue is empty iff head = NULL *)
Theorem ioq_queue_wf : forall old jobs fin mx sched, NoDup (concat jobs) -> 1 <= mx ->
  exists l, NoDup l /\
    path (q_head (s_q (run (init_gen old jobs fin mx) sched))) l (q_nxt (s_q (run (init_gen old jobs fin mx) sched))) /\
    q_tail (s_q (run (init_gen old jobs fin mx) sched)) = last_opt l /\
    q_len (s_q (run (init_gen old jobs fin mx) sched)) = Z.of_nat (length l) /\
    (q_head (s_q (run (init_gen old jobs fin mx) sched)) = None <-> l = []).
Proof. exact queue_wf_closed. Qed.
Print Assumptions ioq_queue_wf.

(* submitted = not yet queued + queued + taken by a proxy (before / after its call) + handed back, nothing twice *)
Theorem ioq_job_conservation : forall old jobs fin mx sched, NoDup (concat jobs) -> 1 <= mx ->
  exists l, QList (s_q (run (init_gen old jobs fin mx) sched)) l /\
    Permutation (concat jobs)
      (flat_map pend (s_thr (run (init_gen old jobs fin mx) sched)) ++
       flat_map precall (s_thr (run (init_gen old jobs fin mx) sched)) ++
       flat_map postcall (s_thr (run (init_gen old jobs fin mx) sched)) ++ l ++
       s_back (run (init_gen old jobs fin mx) sched)).
Proof. exact conservation_closed. Qed.
Print Assumptions ioq_job_conservation.

(* each task is handed back at most once, each call executed at most once, and a task is handed back only after its call
   was executed (the invariant holds in every state, hence at the moment of the hand-back) *)
Theorem ioq_resumes_once : forall old jobs fin mx sched, NoDup (concat jobs) -> 1 <= mx ->
  NoDup (s_back (run (init_gen old jobs fin mx) sched)) /\ NoDup (s_called (run (init_gen old jobs fin mx) sched)) /\
  (forall j, In j (s_back (run (init_gen old jobs fin mx) sched)) ->
             In j (s_called (run (init_gen old jobs fin mx) sched)) /\ In j (concat jobs)).
Proof. exact resumes_once_closed. Qed.
Print Assumptions ioq_resumes_once.

(* ... and exactly once when everything is at rest: no worker has jobs left, no proxy holds one, the queue is empty *)
Theorem ioq_all_resumed_at_rest : forall old jobs fin mx sched, NoDup (concat jobs) -> 1 <= mx ->
  (forall t th, nth_error (s_thr (run (init_gen old jobs fin mx) sched)) t = Some th ->
                pend th = [] /\ precall th = [] /\ postcall th = []) ->
  q_head (s_q (run (init_gen old jobs fin mx) sched)) = None ->
  Permutation (concat jobs) (s_back (run (init_gen old jobs fin mx) sched)).
Proof. exact all_resumed_at_rest_closed. Qed.
Print Assumptions ioq_all_resumed_at_rest.

(* io_worker_count counts exactly the proxies that have not yet done their own decrement (minus the enqueuer between
   pthread_create and its increment); on the current code nobody leaves uncounted (ghost s_bad = 0) *)
Theorem ioq_count_exact : forall old jobs fin mx sched, NoDup (concat jobs) -> 1 <= mx ->
  s_count (run (init_gen old jobs fin mx) sched) =
    zsum cnt_of (s_thr (run (init_gen old jobs fin mx) sched)) + Z.of_nat (s_bad (run (init_gen old jobs fin mx) sched)) /\
  (old = false -> s_bad (run (init_gen old jobs fin mx) sched) = O).
Proof. exact count_exact_closed. Qed.
Print Assumptions ioq_count_exact.

(* progress, part 1: while the subsystem is up, a queued job always has somebody who will take it -- a proxy that still
   counts exists, or an enqueuer is inside its critical section (about to create one).  There is no state "jobs queued, no
   proxy, nobody will create one": the lost wake-up between "timed out, about to exit" and "enqueue decided not to spawn"
   cannot happen because the decrement is done under the lock after re-checking the queue *)
Theorem ioq_progress : forall old jobs fin mx sched, NoDup (concat jobs) -> 1 <= mx ->
  s_pe (run (init_gen old jobs fin mx) sched) = false -> q_head (s_q (run (init_gen old jobs fin mx) sched)) <> None ->
  exists t th, nth_error (s_thr (run (init_gen old jobs fin mx) sched)) t = Some th /\ (live_proxy th = true \/ midenq th = true).
Proof. exact progress_taker_closed. Qed.
Print Assumptions ioq_progress.

(* progress, part 2 (the measure of the weak-fairness argument): every step of a proxy that is not leaving, in a state with
   a non-empty queue, either dequeues a job or strictly decreases its distance to the dequeue *)
Theorem ioq_progress_measure : forall st t c st' pc it, step st t c = Some st' -> nth_error (s_thr st) t = Some (TP pc it) ->
  s_pe st = false -> q_head (s_q st) <> None -> pc <> P_Decr -> pc <> P_UnlockExit -> pc <> P_Exit -> pc <> P_DecrX ->
  exists pc' it', nth_error (s_thr st') t = Some (TP pc' it') /\ (pc' = P_UnlockItem \/ (dist pc' < dist pc)%nat).
Proof. exact progress_measure. Qed.
Print Assumptions ioq_progress_measure.

(* shutdown on the code as it is now (after aa38ba9): while io_worker_count <> 0 the spin of
   qt_blocking_subsystem_internal_stopwork waits for a proxy that exists and still counts ... *)
Theorem ioq_shutdown_terminates : forall jobs fin mx sched, NoDup (concat jobs) -> 1 <= mx ->
  s_count (run (init jobs fin mx) sched) <> 0 ->
  (forall t j r, nth_error (s_thr (run (init jobs fin mx) sched)) t <> Some (TW W_Incr j r)) ->
  exists t th, nth_error (s_thr (run (init jobs fin mx) sched)) t = Some th /\ live_proxy th = true.
Proof. exact shutdown_waits_for_somebody. Qed.
Print Assumptions ioq_shutdown_terminates.

(* ... every step of such a proxy, once proxy_exit is set and the queue is empty and its timed wait times out, strictly
   decreases its distance to its own decrement and exit ... *)
Theorem ioq_shutdown_measure : forall st t st' pc it, step st t O = Some st' -> nth_error (s_thr st) t = Some (TP pc it) ->
  s_pe st = true -> s_old st = false -> q_head (s_q st) = None ->
  exists pc' it', nth_error (s_thr st') t = Some (TP pc' it') /\ (distX pc' < distX pc)%nat.
Proof. exact shutdown_measure. Qed.
Print Assumptions ioq_shutdown_measure.

(* ... and when the count is 0 no proxy that counts is left (the lock/unlock pair and the destruction of the mutex that
   follow are safe) *)
Theorem ioq_shutdown_zero_means_gone : forall jobs fin mx sched, NoDup (concat jobs) -> 1 <= mx ->
  s_count (run (init jobs fin mx) sched) = 0 ->
  (forall t j r, nth_error (s_thr (run (init jobs fin mx) sched)) t <> Some (TW W_Incr j r)) ->
  forall t th, nth_error (s_thr (run (init jobs fin mx) sched)) t = Some th -> live_proxy th = false.
Proof. exact shutdown_zero_means_gone. Qed.
Print Assumptions ioq_shutdown_zero_means_gone.

(* regression about the exit path BEFORE fix aa38ba9: one worker, one job, finalize called after the task was handed back;
   the proxy leaves through the loop test without decrementing, and under EVERY continuation the shutdown function keeps
   re-reading io_worker_count = 1 (all tasks resumed, worker done, proxy gone): qthread_finalize never returns *)
Theorem ioq_shutdown_terminates_refuted_before_aa38ba9 : forall more,
  let s := run (run (init_old [[O]] true 10) hang_sched) more in
  s_thr s = [TW W_Done O []; TF F_Read; TP P_Exit O] /\ s_count s = 1 /\ s_back s = [O].
Proof. exact shutdown_hang_old. Qed.
Print Assumptions ioq_shutdown_terminates_refuted_before_aa38ba9.
