(* C11 -- barrier: property theorems (statements in full; proofs in Barrier/Proofs.v).
   Model: Barrier/Model.v, one step = one shared access of qt_barrier_enter (src/barrier/feb.c).
   n = number of participants = max_blockers, E = episodes, sched = ANY list of thread ids. *)
From Coq Require Import List ZArith Bool Arith.
From QV Require Import Barrier.Model Barrier.Proofs.
Import ListNotations.

(* nobody gets past the out gate of its k-th enter (t_pas >= k), let alone returns from it (t_ep >= k),
   before every participant has done the +1 fetch-add of its k-th enter (t_arr >= k), hence has called it *)
Theorem barrier_safe : forall (n E : nat) (sched : list nat) (i j : nat) (ti tj : thr),
    let s := exec (Z.of_nat n) E (init n) sched in
    nth_error (thrs s) i = Some ti -> nth_error (thrs s) j = Some tj ->
    (t_ep ti <= t_pas ti /\ t_pas ti <= t_arr tj /\ t_arr tj <= calls tj)%nat.
Proof. exact barrier_safe_lemma. Qed.
Print Assumptions barrier_safe.

(* the two gates are never both full; blockers stays within 0..n (so the unsigned counter never wraps) *)
Theorem gates_exclusive : forall (n E : nat) (sched : list nat),
    let s := exec (Z.of_nat n) E (init n) sched in
    in_full s && out_full s = false /\ (0 <= blockers s <= Z.of_nat n)%Z.
Proof. exact gates_exclusive_lemma. Qed.
Print Assumptions gates_exclusive.

(* in every reachable state in which some participant has not finished its E episodes, somebody can move *)
Theorem barrier_no_deadlock : forall (n E : nat) (sched : list nat),
    let s := exec (Z.of_nat n) E (init n) sched in
    all_done E s = false -> exists i, enabled (Z.of_nat n) E s i = true.
Proof. exact barrier_no_deadlock_lemma. Qed.
Print Assumptions barrier_no_deadlock.

(* every step of every thread strictly decreases the measure ... *)
Theorem barrier_step_decreases : forall (n E : nat) (sched : list nat) (i : nat) (s' : state),
    step (Z.of_nat n) E (exec (Z.of_nat n) E (init n) sched) i = Some s' ->
    (meas E s' < meas E (exec (Z.of_nat n) E (init n) sched))%nat.
Proof. exact barrier_step_decreases_lemma. Qed.
Print Assumptions barrier_step_decreases.

(* ... so no schedule makes more than n*(10E+9) moves *)
Theorem barrier_terminates : forall (n E : nat) (sched : list nat),
    (moves n E (init n) sched + meas E (exec (Z.of_nat n) E (init n) sched) <= n * (E * 10 + 9))%nat.
Proof. exact barrier_terminates_lemma. Qed.
Print Assumptions barrier_terminates.

(* and every execution prefix extends to one in which all participants returned from all E episodes
   (with no_deadlock and step_decreases: every maximal execution ends there) *)
Theorem barrier_completes : forall (n E : nat) (sched : list nat),
    exists rest, all_done E (exec (Z.of_nat n) E (init n) (sched ++ rest)) = true.
Proof. exact barrier_completes_lemma. Qed.
Print Assumptions barrier_completes.
