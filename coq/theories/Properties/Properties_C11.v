From Coq Require Import List ZArith.
From QV Require Import Barrier.Model.
Theorem placeholder_c11 : True. Proof. exact I. Qed.
Print Assumptions placeholder_c11.
