(* C13 extension F -- the parallel partition pass of qutil_qsort / qutil_aligned_qsort / qt_qsort under EVERY interleaving
   of its partition threads: the property theorems.  Machine: Util/PartInterleave.v (one shared access per step; extracted
   and run against the real partition threads on every check). *)
From Coq Require Import List NArith Bool Permutation.
From QV Require Import Util.Sort Util.SortProofs Util.SortCorrect Util.Strided Util.StridedPass Util.SortFinal
                       Util.PartInterleave Util.PartInterleaveLocal Util.PartInterleaveArray Util.PartInterleaveWalls
                       Util.PartInterleaveFinal Util.PartInterleaveTop.
Import ListNotations.
Local Open Scope N_scope.

(* the index sets of two partition threads are disjoint: any chunk size, any thread count, any positions (hence any length) *)
Theorem part_slices_disjoint : forall (P : params) (nt : N), 0 < p_chunk P -> 0 < nt ->
  forall t t' k k', t < nt -> t' < nt -> t <> t' -> t * p_chunk P + idx P nt k <> t' * p_chunk P + idx P nt k'.
Proof. exact slices_disjoint. Qed.
Print Assumptions part_slices_disjoint.

(* ... and together they cover the sub-array *)
Theorem part_slices_cover : forall (P : params) (nt : N), 0 < p_chunk P -> 0 < nt ->
  forall j, exists t k, t < nt /\ j = t * p_chunk P + idx P nt k.
Proof. exact slices_cover. Qed.
Print Assumptions part_slices_cover.

(* in every state reachable under ANY schedule, the array index a thread is about to load or store is an element of its own
   slice and lies inside the sub-array the pass was started on *)
Theorem part_access_in_own_slice :
  forall (V : Type) (leb : V -> V -> bool) (dflt : V) (bound : N) (P : params) (lockf : bool) B LEN p a0 sched t c j,
  PassOK P bound B LEN ->
  nth_error (s_thr (run V leb dflt P lockf p (pass_targs P B LEN) (ginit V dflt (pass_targs P B LEN) a0) sched)) t = Some c ->
  access_of V (G P B LEN (p_nthreads P LEN) t) c = Some j ->
  (exists k, k <= ymax P LEN (p_nthreads P LEN) (N.of_nat t) /\
             j = B + N.of_nat t * p_chunk P + idx P (p_nthreads P LEN) k) /\ B <= j /\ j < B + LEN.
Proof. exact access_in_own_slice_closed. Qed.
Print Assumptions part_access_in_own_slice.

(* after ANY schedule under which every thread has returned, the array (key by key) and the two wall words equal those of
   the sequential-in-index-order model Sort.partitioner that SortCorrect.v reasons about; both flavours of the wall merge
   (lockf = false: the CAS loops of qutil.c; lockf = true: under qthread_lock as in qloop.c) *)
Theorem part_interleaving_independent :
  forall (V : Type) (leb : V -> V -> bool) (dflt : V) (bound : N) (P : params) (lockf : bool) B LEN p a0 sched afin l r,
  PassOK P bound B LEN ->
  partitioner V leb dflt bound P a0 B LEN p = Some (afin, l, r) ->
  AllDone V (run V leb dflt P lockf p (pass_targs P B LEN) (ginit V dflt (pass_targs P B LEN) a0) sched) ->
  SameArr V (s_a (run V leb dflt P lockf p (pass_targs P B LEN) (ginit V dflt (pass_targs P B LEN) a0) sched)) afin /\
  w_fl (s_w (run V leb dflt P lockf p (pass_targs P B LEN) (ginit V dflt (pass_targs P B LEN) a0) sched)) = l /\
  w_fr (s_w (run V leb dflt P lockf p (pass_targs P B LEN) (ginit V dflt (pass_targs P B LEN) a0) sched)) = r.
Proof. exact interleaving_independent_closed. Qed.
Print Assumptions part_interleaving_independent.

(* the parent's readFF loop: whenever the parent has returned, every partition thread has returned, and what it returns
   (array, retval) is the sequential model's result *)
Theorem part_parent_returns_sequential_result :
  forall (V : Type) (leb : V -> V -> bool) (dflt : V) (bound : N) (P : params) (lockf : bool) B LEN p a0 sched a2 l r,
  PassOK P bound B LEN ->
  partitioner_sched V leb dflt P lockf sched a0 B LEN p = Some (a2, l, r) ->
  AllDone V (run V leb dflt P lockf p (pass_targs P B LEN) (ginit V dflt (pass_targs P B LEN) a0) sched) /\
  exists afin, partitioner V leb dflt bound P a0 B LEN p = Some (afin, l, r) /\ SameArr V a2 afin.
Proof. exact pass_sched_eq_partitioner. Qed.
Print Assumptions part_parent_returns_sequential_result.

(* the postcondition the sort proof consumes holds under every interleaving *)
Theorem part_pass_post_every_schedule :
  forall (V : Type) (leb : V -> V -> bool) (dflt : V) (bound : N) (P : params) (lockf : bool) B LEN p a0 sched a2 l r,
  PassOK P bound B LEN ->
  partitioner_sched V leb dflt P lockf sched a0 B LEN p = Some (a2, l, r) ->
  SegRel V dflt a0 a2 B LEN /\ r < LEN /\
  (forall i, i < l -> i <= r -> LE V leb dflt a2 B p i) /\ (forall i, r < i -> i < LEN -> GT V leb dflt a2 B p i).
Proof. exact pass_post_every_schedule. Qed.
Print Assumptions part_pass_post_every_schedule.

(* the critical section of the qloop.c flavour is mutually exclusive in every reachable state (any thread arguments) *)
Theorem part_lock_mutex :
  forall (V : Type) (leb : V -> V -> bool) (dflt : V) (P : params) (lockf : bool) gs p a0 sched t u c c',
  nth_error (s_thr (run V leb dflt P lockf p gs (ginit V dflt gs a0) sched)) t = Some c ->
  nth_error (s_thr (run V leb dflt P lockf p gs (ginit V dflt gs a0) sched)) u = Some c' ->
  kcrit (t_pc c) = true -> kcrit (t_pc c') = true -> t = u.
Proof. exact lock_mutex_closed. Qed.
Print Assumptions part_lock_mutex.

(* the whole sorts: sorted permutation for every input, and every partition pass they start may be run by the machine under
   any schedule -- same walls, same array contents, same postcondition *)
Theorem qsort_sorted_permutation_every_schedule :
  forall (V : Type) (leb : V -> V -> bool) (dflt : V) (bound : N) bs (P : params) (lockf : bool) L wfuel,
  OrderOK V leb -> BaseSortOK V leb dflt bound bs -> ParamsWF P L ->
  (forall a len, 0 < len -> len <= L -> len <= bound ->
     exists a', qsort_inner V leb dflt bound bs P (S (N.to_nat len)) wfuel a 0 len = Some a' /\
                Permutation (to_list V dflt a bound) (to_list V dflt a' bound) /\
                SortedSeg V leb dflt a' 0 len /\ (forall k, len <= k -> aget V dflt a' k = aget V dflt a k)) /\
  (forall len l b a p sched a2 lw rw, 0 < len -> len <= L -> p_small P len = false -> p_thresh P len + 1 < l -> l <= len ->
     b + l <= bound ->
     partitioner_sched V leb dflt P lockf sched a b l p = Some (a2, lw, rw) ->
     exists a3, partitioner V leb dflt bound P a b l p = Some (a3, lw, rw) /\ SameArr V a2 a3 /\
                SegRel V dflt a a2 b l /\ rw < l /\
                (forall i, i < lw -> i <= rw -> LE V leb dflt a2 b p i) /\ (forall i, rw < i -> i < l -> GT V leb dflt a2 b p i)).
Proof. exact qsort_every_schedule. Qed.
Print Assumptions qsort_sorted_permutation_every_schedule.
