(* C14 — memory pools hand out disjoint, aligned, reusable blocks.  Obligations (statements in full; proofs in Mpool/). *)
From Coq Require Import List NArith Permutation.
From QV Require Import Mpool.Model Mpool.ProofsSize Mpool.Proofs Mpool.ProofsAddr Mpool.Examples Mpool.Micro Mpool.MicroProofs.
Import ListNotations.
Local Open Scope N_scope.

(* size arithmetic of qt_mpool_create_aligned, for ALL requested sizes, alignments, limits, page sizes *)
Theorem size_rounding : forall pagesize env_max max0 item_req align_req s,
  pagesize <> 0 ->
  create_sizes pagesize env_max max0 item_req align_req = Some s ->
  item_req <= s_item s /\ HDRSZ <= s_item s /\ s_item s mod s_align s = 0 /\
  (16 <= s_align s /\ align_req <= s_align s /\ (s_align s = 16 \/ s_align s = align_req)) /\
  2 <= s_ipa s /\ s_ipa s * s_item s <= s_alloc s /\ s_item s * 2 <= s_max s.
Proof. exact size_rounding_all. Qed.
Print Assumptions size_rounding.

Theorem create_never_out_of_fuel : forall pagesize env_max max0 item_req align_req,
  pagesize <> 0 -> pagesize < 2 ^ 64 ->
  create_sizes pagesize env_max max0 item_req align_req <> None.
Proof. exact create_sizes_total. Qed.
Print Assumptions create_never_out_of_fuel.

(* every history of (thread, alloc | free x) in which clients free only what they hold, once *)
Theorem cache_wf : forall s h p L, 2 <= s_ipa s ->
  run (pool_of_sizes s) [] h = Ok p L ->
  batches (N.to_nat (p_ipa p)) (p_reuse p) /\
  forall t, cache_ok (p_ipa p) (get_cache t (p_caches p)).
Proof. exact cache_wf_all. Qed.
Print Assumptions cache_wf.

Theorem never_stuck : forall s h, 2 <= s_ipa s -> run (pool_of_sizes s) [] h <> Stuck.
Proof. exact never_stuck_all. Qed.
Print Assumptions never_stuck.

(* free items (shared batches, cache lists, uncarved slab tails) and live items partition the slabs' items *)
Theorem live_partition : forall s h p L, 2 <= s_ipa s ->
  run (pool_of_sizes s) [] h = Ok p L ->
  Permutation (free_items p ++ L) (all_items (p_ipa p) (p_nslabs p)).
Proof. exact live_partition_all. Qed.
Print Assumptions live_partition.

Theorem alloc_fresh : forall s h p L t, 2 <= s_ipa s ->
  run (pool_of_sizes s) [] h = Ok p L ->
  exists p' x, alloc p t = (p', RItem x) /\ ~ In x L /\ NoDup (x :: L).
Proof. exact alloc_fresh_all. Qed.
Print Assumptions alloc_fresh.

(* the property at address level: for every creation request and every history, live blocks are pairwise
   disjoint ranges of the REQUESTED size, inside their slab, aligned, and the next alloc (by any thread)
   returns a block nobody holds.  Slab bases are what the aligned allocator returned (trusted disjoint/aligned). *)
Theorem live_disjoint : forall (base : N -> N) pagesize env_max max0 item_req align_req s h p L,
  pagesize <> 0 ->
  create_sizes pagesize env_max max0 item_req align_req = Some s ->
  (forall k, base k mod s_align s = 0) ->
  (forall k k', k <> k' -> base k + s_alloc s <= base k' \/ base k' + s_alloc s <= base k) ->
  run (pool_of_sizes s) [] h = Ok p L ->
  NoDup L /\
  (forall x, In x L ->
     addr base s x mod s_align s = 0 /\
     base (fst x) <= addr base s x /\ addr base s x + item_req <= base (fst x) + s_alloc s) /\
  (forall x y, In x L -> In y L -> x <> y ->
     addr base s x + item_req <= addr base s y \/ addr base s y + item_req <= addr base s x) /\
  (forall t, exists p' z, alloc p t = (p', RItem z) /\ ~ In z L).
Proof. exact live_disjoint_all. Qed.
Print Assumptions live_disjoint.

(* a freed block may be handed out again: it is the next block the freeing thread gets *)
Theorem freed_block_reusable : forall p t x p',
  free p t x = (p', RUnit) -> exists p'', alloc p' t = (p'', RItem x).
Proof. exact free_then_alloc. Qed.
Print Assumptions freed_block_reusable.

(* create / alloc / free / destroy on one pool leave every other pool's state untouched *)
Theorem pools_independent : forall pagesize env w o k,
  k <> pid_of o ->
  get_pool k (w_pools (fst (world_step pagesize env w o))) = get_pool k (w_pools w).
Proof. exact world_step_other. Qed.
Print Assumptions pools_independent.

(* ---- interleavings: micro-step machine of the shared part (Mpool/Micro.v), one shared access per step ---- *)

(* for every schedule and any number of threads: at EVERY point of the execution the pool equals the one reached by an
   op-atomic history (of alloc_x / free; alloc_x = Model.alloc plus "new slab although the shared list is non-empty",
   the behaviour added by the unlocked peek at mpool.c:345) made of the operations linearised so far, in the order of
   their lock-protected writes, each thread's operations in its program order *)
Theorem micro_refines_atomic : forall p0 thr sched m,
  mrun true (minit p0 thr) sched = Some m ->
  exists h L, runx p0 [] h = Some (m_pool m, L) /\ Permutation L (alive m) /\
    forall u, proj u h ++ t_prog (get_thr u (m_thr m)) = t_prog (get_thr u (m_thr (minit p0 thr))).
Proof. exact micro_refines_atomic_all. Qed.
Print Assumptions micro_refines_atomic.

Theorem lock_mutex : forall p0 thr sched m t u,
  mrun true (minit p0 thr) sched = Some m ->
  (in_r (t_pc (get_thr t (m_thr m))) = true -> in_r (t_pc (get_thr u (m_thr m))) = true -> t = u) /\
  (in_p (t_pc (get_thr t (m_thr m))) = true -> in_p (t_pc (get_thr u (m_thr m))) = true -> t = u).
Proof. exact lock_mutex_all. Qed.
Print Assumptions lock_mutex.

(* cache_wf, live_partition, alloc_fresh transfer to every interleaving *)
Theorem micro_invariants : forall s0 thr sched m,
  2 <= s_ipa s0 ->
  mrun true (minit (pool_of_sizes s0) thr) sched = Some m ->
  (batches (N.to_nat (p_ipa (m_pool m))) (p_reuse (m_pool m)) /\
   forall t, cache_ok (p_ipa (m_pool m)) (get_cache t (p_caches (m_pool m)))) /\
  Permutation (free_items (m_pool m) ++ alive m) (all_items (p_ipa (m_pool m)) (p_nslabs (m_pool m))) /\
  NoDup (alive m) /\
  forall t b, exists p' x, alloc_x b (m_pool m) t = (p', RItem x) /\ ~ In x (alive m).
Proof. exact micro_inv_all. Qed.
Print Assumptions micro_invariants.

(* the relaxed alloc is Model.alloc whenever the shared list is empty, and when not forced *)
Theorem alloc_x_is_alloc : forall b p t, p_reuse p = [] -> alloc_x b p t = alloc p t.
Proof. exact alloc_x_empty. Qed.
Print Assumptions alloc_x_is_alloc.

(* refuted variant: the same machine without lock/unlock around free's hand-over loses a batch:
   two threads read reuse_pool = NULL, both write; items (0,0),(0,1) are neither free nor held afterwards *)
Theorem unlocked_handover_refuted :
  exists m, mrun false (minit (pool_of_sizes s2m) progs_w) sched_w = Some m /\
    (forall u, t_pc (get_thr u (m_thr m)) = Idle /\ t_prog (get_thr u (m_thr m)) = []) /\
    alive m = [] /\ p_nslabs (m_pool m) = 4 /\
    items_of (p_reuse (m_pool m)) = [(2, 1); (2, 0)] /\
    ~ In (0, 0) (free_items (m_pool m) ++ alive m) /\ ~ In (0, 1) (free_items (m_pool m) ++ alive m) /\
    ~ Permutation (free_items (m_pool m) ++ alive m) (all_items (p_ipa (m_pool m)) (p_nslabs (m_pool m))).
Proof. exact unlocked_handover_refuted_all. Qed.
Print Assumptions unlocked_handover_refuted.
