From Coq Require Import List NArith.
From QV Require Import Mpool.Model.
Theorem placeholder : True. Proof. exact I. Qed.
Print Assumptions placeholder.
