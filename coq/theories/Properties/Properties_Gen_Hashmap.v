(* Regeneration tie for the hashmap behind FEB words and syncvars (src/hashmap.c, src/ds/dictionary/hash.c):
   Hashmap.Model.qt_hash64, encompassing_power_of_two and the num_entries / mask arithmetic of create_raw equal the
   definitions regenerated from the source by tools/ctrans.py on every run (Gen/Hash.v, Gen/Hashmap.v).  The float
   thresholds of qt_hash_internal_create are not part of this tie.  Theorems only; proofs in Gen/Tie_Hash.v, Gen/Tie_Hashmap.v. *)
From Coq Require Import ZArith NArith.
From QV Require Import Gen.CInt Gen.Hash Gen.Hashmap Gen.Tie_Hash Gen.Tie_Hashmap.
From QV Require Hashmap.Model.
Local Open Scope Z_scope.

Theorem gen_hashmap_hash64 : forall key : N, (key < T64)%N ->
  Gen.Hash.qt_hash64 (Z.of_N key) = Some (Z.of_N (Hashmap.Model.qt_hash64 key)).
Proof. exact tie_hashmap_hash64. Qed.
Print Assumptions gen_hashmap_hash64.

Theorem gen_hashmap_epot : forall k : N, Z.of_N k <= B63 ->
  Gen.Hashmap.encompassing_power_of_two (S (S (N.to_nat (N.size k)))) (Z.of_N k)
  = Some (Z.of_N (Hashmap.Model.encompassing_power_of_two k)).
Proof. exact tie_epot. Qed.
Print Assumptions gen_hashmap_epot.

Theorem gen_hashmap_create_sizes : forall (entries ps bs : N),
  Z.of_N entries < B40 -> (8 <= ps)%N -> Z.of_N ps < B40 -> (1 <= bs)%N -> Z.of_N bs < B64 ->
  let me := (2 * ps / 16)%N in
  let t := Hashmap.Model.create_raw bs me entries in
  qt_hash_create_sizes (S (S (N.to_nat (N.size (if (entries mod me =? 0)%N then entries else (entries + (me - entries mod me))%N)))))
                       (Z.of_N entries) (Z.of_N ps) (Z.of_N (bs - 1))
  = Some (Z.of_N (Hashmap.Model.nent t), Z.of_N (Hashmap.Model.mask t)).
Proof. exact tie_create_sizes. Qed.
Print Assumptions gen_hashmap_create_sizes.
