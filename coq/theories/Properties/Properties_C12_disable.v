(** C12 extension O — queue loops (qt_loop_queue_run / _run_there, every cursor type) while shepherds are disabled and
    re-enabled and workers are added: the completion protocol of src/qloop.c (qqloop_wrapper's disabled branch with its
    `break`, the safeexit test, qt_loop_queue_addworker, the caller's wait on donecount / activesheps) as the
    event machine Loops/CompletionQDisable.v, for EVERY schedule of worker steps, claims of any size, disable / enable
    events of any shepherd but 0, addworker calls, caller reads, and every placement of the workers on shepherds.
    [cf] carries the stop index, dc_brk = true (the code as it is) and the order of the caller's two reads. *)
From Coq Require Import List ZArith Bool.
From QV Require Import Loops.Model Loops.Proofs Loops.CompletionQDisable Loops.CompletionQDisableProofs.
Import ListNotations.
Local Open Scope Z_scope.

(** when the call has returned, every wrapper has returned (so no invocation is running), no addworker call is half
    done, and entered = returned = number of completed invocations.  [sched_ok]: if the compiler reads activesheps
    before donecount the schedule contains no qt_loop_queue_addworker (see asfirst_addworker_refuted below); with
    donecount read first (gcc -O0) every schedule is allowed *)
Theorem qdis_returns_after_all : forall (cf : dconf) (start : Z), dc_brk cf = true -> start <= dc_stop cf ->
  forall (nw ns : nat) (sched : list dev), sched_ok cf sched ->
  let st := drun cf (dinit start nw ns) sched in
  is_ret st = true ->
  (forall w wk, nth_error (ds_w st) w = Some wk -> w_pc wk = DGone) /\
  (forall k a, nth_error (ds_adds st) k = Some a -> a = AFin) /\
  ds_entered st = ds_returned st /\ ds_returned st = Z.of_nat (length (ds_exec st)).
Proof. exact returns_after_all. Qed.
Print Assumptions qdis_returns_after_all.

(** if at least one worker did not sign off, the completed invocations are non-empty ranges and every index of
    [start,stop) lies in exactly one of them, every other index in none *)
Theorem qdis_covered_exactly_once : forall (cf : dconf) (start : Z), dc_brk cf = true -> start <= dc_stop cf ->
  forall (nw ns : nat) (sched : list dev), sched_ok cf sched ->
  let st := drun cf (dinit start nw ns) sched in
  is_ret st = true ->
  (exists w wk, nth_error (ds_w st) w = Some wk /\ w_safe wk = true) ->
  Forall (fun r => fst r < snd r) (map snd (ds_exec st)) /\
  forall x, cover_count x (map snd (ds_exec st)) = if (start <=? x) && (x <? dc_stop cf) then 1%nat else 0%nat.
Proof. exact covered_exactly_once. Qed.
Print Assumptions qdis_covered_exactly_once.

(** qt_loop_queue_run: shepherd 0 cannot be disabled and worker 0 (forked to shepherd 0) tests qthread_shep_ok() only
    there, so the range is covered exactly once whichever other shepherds are disabled, whenever *)
Theorem qdis_run_covers : forall (cf : dconf) (start : Z), dc_brk cf = true -> start <= dc_stop cf ->
  forall (nw ns : nat) (sched : list dev), (1 <= nw)%nat -> (1 <= ns)%nat -> sched_ok cf sched -> w0_home sched ->
  let st := drun cf (dinit start nw ns) sched in
  is_ret st = true ->
  forall x, cover_count x (map snd (ds_exec st)) = if (start <=? x) && (x <? dc_stop cf) then 1%nat else 0%nat.
Proof. exact run_covers. Qed.
Print Assumptions qdis_run_covers.

(** in every reachable state (returned or not, whoever signed off) no index has been run twice and none outside the range *)
Theorem qdis_at_most_once : forall (cf : dconf) (start : Z), dc_brk cf = true -> start <= dc_stop cf ->
  forall (nw ns : nat) (sched : list dev), sched_ok cf sched ->
  let st := drun cf (dinit start nw ns) sched in
  Forall (fun r => fst r < snd r) (map snd (ds_exec st)) /\
  forall x, (cover_count x (map snd (ds_exec st)) <= (if ((start <=? x) && (x <? dc_stop cf))%Z then 1 else 0))%nat.
Proof. exact at_most_once. Qed.
Print Assumptions qdis_at_most_once.

(** the counters in every reachable state: activesheps = donecount + wrappers still in the loop + addworker calls in
    flight; donecount = wrappers that left with safeexit; sign-offs = wrappers that left without; entered = returned +
    wrappers inside func; and a wrapper about to call get_iters (which divides by activesheps) sees activesheps >= 1 *)
Theorem qdis_counts_consistent : forall (cf : dconf) (start : Z), dc_brk cf = true -> start <= dc_stop cf ->
  forall (nw ns : nat) (sched : list dev), sched_ok cf sched ->
  let st := drun cf (dinit start nw ns) sched in
  ds_as st = ds_dc st + cnt w_live (ds_w st) + cnt a_pend (ds_adds st) /\
  ds_dc st = cnt w_done_safe (ds_w st) /\
  ds_signoffs st = cnt w_signed_off (ds_w st) /\
  ds_entered st = ds_returned st + cnt w_in (ds_w st) /\
  (forall w wk, nth_error (ds_w st) w = Some wk -> w_pc wk = DGet -> 1 <= ds_as st).
Proof. exact counts_consistent. Qed.
Print Assumptions qdis_counts_consistent.

(** the correspondence's acceptor: an event sequence accepted without a refusal is a run of the machine *)
Theorem qdis_accepted_is_run : forall cf sched st k,
  snd (daccept cf st sched k) = None -> fst (daccept cf st sched k) = drun cf st sched.
Proof. exact daccept_drun. Qed.
Print Assumptions qdis_accepted_is_run.

(** regression (seeded change C12-3): the machine without the `break` — for either read order there is a schedule
    without addworker, every event enabled, worker 0 at home, after which the call has returned while worker 1 is
    inside the user function (entered 3, returned 2) *)
Theorem qdis_no_break_refuted : forall asfirst, exists sched,
  let st := drun (mkDC 10 false asfirst) (dinit 0 2 2) sched in
  snd (daccept (mkDC 10 false asfirst) (dinit 0 2 2) sched 0) = None /\ no_add sched /\ w0_home sched /\
  is_ret st = true /\ ds_entered st = 3 /\ ds_returned st = 2 /\
  exists lo hi sf, nth_error (ds_w st) 1 = Some (mkW (DIn lo hi) sf).
Proof. exact no_break_refuted. Qed.
Print Assumptions qdis_no_break_refuted.

(** the code as it is, activesheps read before donecount, qt_loop_queue_addworker between the two reads: the call
    returns while the added worker is inside the user function (why qdis_returns_after_all needs sched_ok) *)
Theorem qdis_asfirst_addworker_refuted : exists sched,
  let st := drun (mkDC 10 true true) (dinit 0 2 2) sched in
  snd (daccept (mkDC 10 true true) (dinit 0 2 2) sched 0) = None /\
  is_ret st = true /\ ds_entered st = 2 /\ ds_returned st = 1 /\
  exists lo hi sf, nth_error (ds_w st) 2 = Some (mkW (DIn lo hi) sf).
Proof. exact asfirst_addworker_refuted. Qed.
Print Assumptions qdis_asfirst_addworker_refuted.

(** the code as it is, one worker (qt_loop_queue_run_there) whose shepherd is disabled: it signs off, the call returns
    and index 5 of [0,10) was never run (why qdis_covered_exactly_once needs a worker that stayed) *)
Theorem qdis_all_signed_off_uncovered : forall asfirst, exists sched,
  let st := drun (mkDC 10 true asfirst) (dinit 0 1 2) sched in
  no_add sched /\ is_ret st = true /\ ds_as st = 0 /\ ds_dc st = 0 /\ ds_signoffs st = 1 /\
  cover_count 5 (map snd (ds_exec st)) = 0%nat.
Proof. exact all_signed_off_uncovered. Qed.
Print Assumptions qdis_all_signed_off_uncovered.
