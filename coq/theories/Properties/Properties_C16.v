From Coq Require Import List NArith.
From QV Require Import Dict.Model.
Theorem placeholder_c16 : True. Proof. exact I. Qed.
Print Assumptions placeholder_c16.
