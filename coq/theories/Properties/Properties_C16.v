(* C16: qt_dictionary (split-ordered list) is a map.  Sequential refinement for every operation sequence,
   every user hash function (heavily colliding ones included) and across every table doubling; the
   invariants; iteration completeness; the explicit preconditions with their refuted variants.
   Per-key linearizability under concurrent mutation is NOT proved (searched by the check, see manifest). *)
From Coq Require Import List NArith Bool Sorted.
From QV Require Import Dict.Model Dict.ProofsBits Dict.Proofs Dict.IterProofs Dict.Refine.
Import ListNotations.
Local Open Scope N_scope.

(* every operation sequence on non-NULL keys/values returns exactly what the map specification returns
   (get = latest put or NULL; put replaces and returns the new value; put_if_absent inserts only when absent
   and returns the value now associated; delete removes and returns the removed value or NULL) *)
Theorem dict_refines_map :
  forall (hash : N -> N) (keq : N -> N -> bool), (forall a b, keq a b = true <-> a = b) ->
  forall (cap : N) (os : list op), Forall op_ok os ->
  run_ops hash keq (create cap) os = spec_ops (fun _ => 0) os.
Proof. exact refines_create. Qed.
Print Assumptions dict_refines_map.

(* in every reachable state: the list is sorted on so_key, every node is a dummy (NULL key/value) or a regular node whose
   so_key is the bit-reversed masked hash of its key, one node per key, the table size is a power of two, bucket 0 is
   initialised, every initialised bucket has its dummy node in the list, count bounds the number of keys *)
Theorem dict_invariants :
  forall (hash : N -> N) (keq : N -> N -> bool), (forall a b, keq a b = true <-> a = b) ->
  forall (cap : N) (os : list op), Forall op_ok os ->
  let d := final_state hash keq (create cap) os in
  (StronglySorted (fun a b => e_so a <= e_so b) (d_list d) /\
   Forall (fun e => (e_key e = 0 /\ e_val e = 0) \/
                    (e_key e <> 0 /\ e_val e <> 0 /\ e_so e = so_regularkey (lkey_of hash (e_key e)))) (d_list d) /\
   NoDup (keys_of (d_list d))) /\
  (exists k, d_size d = 2 ^ k) /\
  In 0 (d_B d) /\
  (forall b, In b (d_B d) -> exists e, In e (d_list d) /\ e_so e = so_dummykey b /\ e_key e = 0) /\
  N.of_nat (length (keys_of (d_list d))) <= d_count d.
Proof. exact reachable_inv. Qed.
Print Assumptions dict_invariants.

(* the abstraction commutes: the state reached by the model represents the map reached by the specification *)
Theorem dict_abs_commutes :
  forall (hash : N -> N) (keq : N -> N -> bool), (forall a b, keq a b = true <-> a = b) ->
  forall (cap : N) (os : list op), Forall op_ok os ->
  forall k, k <> 0 -> abs (final_state hash keq (create cap) os) k = spec_final (fun _ => 0) os k.
Proof. exact reachable_abs. Qed.
Print Assumptions dict_abs_commutes.

(* bucket_before_keys: at every power-of-two table size the dummy of the bucket a (masked) hash falls into sorts
   strictly before the key's regular so_key, for every 63-bit hash value *)
Theorem bucket_before_keys :
  forall lk k : N, lk < 2 ^ 63 -> so_dummykey (lk mod 2 ^ k) < so_regularkey lk.
Proof. exact so_dummy_lt_regular. Qed.
Print Assumptions bucket_before_keys.

(* initialize_bucket: the parent bucket's dummy sorts strictly before the child's (GET_PARENT clears the top bit) *)
Theorem parent_before_child :
  forall b : N, b <> 0 -> b < 2 ^ 64 ->
  so_dummykey (get_parent b) < so_dummykey b /\ get_parent b < 2 ^ N.log2 b.
Proof. exact parent_before_child_l. Qed.
Print Assumptions parent_before_child.

(* the REVERSE_BYTE multiplication trick is 8-bit reversal, REVERSE is 64-bit reversal *)
Theorem reverse_is_bit_reversal :
  (forall b, b < 256 -> reverse_byte b < 256 /\ forall i, i < 8 -> N.testbit (reverse_byte b) i = N.testbit b (7 - i)) /\
  (forall x i, N.testbit (rev64 x) i = if i <? 64 then N.testbit x (63 - i) else false).
Proof. exact (conj reverse_byte_spec rev64_bit). Qed.
Print Assumptions reverse_is_bit_reversal.

(* a search that starts at a bucket's dummy never stops at that dummy: the code never CASes a bucket slot *)
Theorem bucket_slot_never_cas :
  forall (hash : N -> N) (keq : N -> N -> bool), (forall a b, keq a b = true <-> a = b) ->
  forall (d : dict) (b hk key : N),
  (exists e, In e (d_list d) /\ e_so e = so_dummykey b) -> so_dummykey b < hk ->
  (head_pos (so_dummykey b) (d_list d) < snd (find_from keq d b hk key))%nat.
Proof. exact find_from_not_head. Qed.
Print Assumptions bucket_slot_never_cas.

(* iteration with no writer, after any operation sequence: every key present in the specification's map is returned
   exactly once with its current value, and nothing else is returned *)
Theorem iter_complete :
  forall (hash : N -> N) (keq : N -> N -> bool), (forall a b, keq a b = true <-> a = b) ->
  forall (cap : N) (os : list op), Forall op_ok os ->
  let d := final_state hash keq (create cap) os in
  NoDup (map fst (fst (iterate d))) /\
  forall k v, k <> 0 -> (In (k, v) (fst (iterate d)) <-> (spec_final (fun _ => 0) os k = v /\ v <> 0)).
Proof. exact iter_reachable. Qed.
Print Assumptions iter_complete.

(* the iteration order is the list order of the regular nodes (what the correspondence run compares) *)
Theorem iter_is_list_order :
  forall (hash : N -> N) (d : dict), Inv hash d -> fst (iterate d) = map kv (filter is_reg (d_list d)).
Proof. exact iterate_complete. Qed.
Print Assumptions iter_is_list_order.

(* preconditions made explicit.  NULL key: put then get disagrees with the map *)
Theorem null_key_put_refuted :
  exists os, run_ops idh N.eqb (create 16) os <> spec_ops (fun _ => 0) os.
Proof. exact null_key_refuted. Qed.
Print Assumptions null_key_put_refuted.

(* NULL value (keys non-NULL): find uses the VALUE as its "found" flag, so put(k,NULL); put(k,v) leaves two nodes for k
   and the iterator returns k twice *)
Theorem null_value_put_refuted :
  exists os, Forall op_key_ok os /\
  ~ NoDup (map fst (fst (iterate (final_state idh N.eqb (create 16) os)))).
Proof. exact null_value_refuted. Qed.
Print Assumptions null_value_put_refuted.

(* ------------------------------------------------------------------------------------------------------------------
   The insert-only class {put_if_absent, get} under concurrency: micro-step machine Dict/Micro.v (one shared-memory
   access per step; qt_lf_list_find's walk and qt_lf_list_insert's CAS loop as in the code), any number of tasks,
   EVERY schedule.  [MicroProofs.Inv] is the invariant (global list facts + per-task facts about prev/cur/next/node);
   [micro_init] shows it holds initially; [Micro.run] executes a schedule (list of task ids).
   ------------------------------------------------------------------------------------------------------------------ *)
From QV Require Import Dict.Micro Dict.MicroProofs Dict.MicroTheorems.

Theorem micro_init :
  forall (sof : N -> N) (progs : list (list mop)),
  (forall p o, In p progs -> In o p -> op_start o = 0%nat /\ 0 < sof (op_key o) /\ op_key o <> 0) ->
  MicroProofs.Inv sof (minit [(0, 0, 0)] progs).
Proof. exact inv_init0. Qed.
Print Assumptions micro_init.

(* ... and for every well-formed initial state: a non-empty node list sorted by so_key, regular nodes carrying the so_key of
   their key, one node per key, every operation starting at a node whose so_key is below its key's (its bucket's dummy).
   The check evaluates this predicate on the real list dump of every replayed run. *)
Theorem micro_init_general :
  forall (sof : N -> N) (nodes : list (N * N * N)) (progs : list (list mop)),
  (nodes <> [] /\
   (forall i j, (i < j)%nat -> (j < length nodes)%nat -> nso nodes i <= nso nodes j) /\
   (forall i, (i < length nodes)%nat -> nkey nodes i <> 0 -> nso nodes i = sof (nkey nodes i)) /\
   (forall i j, (i < length nodes)%nat -> (j < length nodes)%nat -> nkey nodes i = nkey nodes j -> nkey nodes i <> 0 -> i = j) /\
   (forall p o, In p progs -> In o p ->
                (op_start o < length nodes)%nat /\ nso nodes (op_start o) < sof (op_key o) /\ op_key o <> 0)) ->
  MicroProofs.Inv sof (minit nodes progs).
Proof. exact inv_init. Qed.
Print Assumptions micro_init_general.

(* ins_inv: the list reachable from the head is always a NULL-terminated chain, duplicate-free, sorted by so_key, with at
   most one node per key; every node that was ever linked stays reachable (nothing is lost) *)
Theorem ins_inv :
  forall (sof : N -> N) (keq : N -> N -> bool), (forall a b, keq a b = true <-> a = b) ->
  forall (s0 : mstate) (sched : list nat), MicroProofs.Inv sof s0 ->
  let s := Micro.run sof keq s0 sched in
  let h := m_heap s in
  islist h (Some 0%nat) (mlist s) /\ NoDup (mlist s) /\
  StronglySorted (fun a b => so_of h a <= so_of h b) (mlist s) /\
  (forall x, In x (mlist s) -> key_of h x <> 0 -> so_of h x = sof (key_of h x)) /\
  (forall x y, In x (mlist s) -> In y (mlist s) -> key_of h x = key_of h y -> key_of h x <> 0 -> x = y) /\
  incl (mlist s0) (mlist s).
Proof. exact ins_inv_l. Qed.
Print Assumptions ins_inv.

(* pia_result: a completing put_if_absent(k,v) returns v exactly when its CAS linked its own node (k,v) right after p,
   otherwise the value of a node of key k that is in the list (ins_inv: from then on) *)
Theorem pia_result :
  forall (sof : N -> N) (keq : N -> N -> bool), (forall a b, keq a b = true <-> a = b) ->
  forall (s0 : mstate) (sched : list nat) (t : nat) (s' : mstate) (r k v : N) (st : nat) (rest : list mop) (th : thread),
  MicroProofs.Inv sof s0 ->
  let s := Micro.run sof keq s0 sched in
  mstep sof keq s t = Some s' -> completes s t s' r ->
  nth_error (m_thr s) t = Some th -> t_prog th = MPia k v st :: rest ->
  (r = v /\ exists n l1 p l2, mlist s = l1 ++ p :: l2 /\ mlist s' = l1 ++ p :: n :: l2 /\ ~ In n (mlist s) /\
                             key_of (m_heap s') n = k /\ val_of (m_heap s') n = v) \/
  (mlist s' = mlist s /\ exists c, In c (mlist s) /\ key_of (m_heap s) c = k /\ r = val_of (m_heap s) c).
Proof. exact pia_result_l. Qed.
Print Assumptions pia_result.

(* pia_unique: a put_if_absent links its node only if no node of the list carries the key; afterwards one does, for ever
   (ins_inv), so of any number of racing put_if_absent of one key at most one links *)
Theorem pia_unique :
  forall (sof : N -> N) (keq : N -> N -> bool), (forall a b, keq a b = true <-> a = b) ->
  forall (s0 : mstate) (sched : list nat) (t : nat) (s' : mstate) (r k v : N) (st : nat) (rest : list mop) (th : thread),
  MicroProofs.Inv sof s0 ->
  let s := Micro.run sof keq s0 sched in
  mstep sof keq s t = Some s' -> completes s t s' r ->
  nth_error (m_thr s) t = Some th -> t_prog th = MPia k v st :: rest ->
  mlist s' <> mlist s ->
  (forall x, In x (mlist s) -> key_of (m_heap s) x <> k) /\
  (exists n, In n (mlist s') /\ key_of (m_heap s') n = k /\ val_of (m_heap s') n = v /\ r = v).
Proof. exact pia_unique_l. Qed.
Print Assumptions pia_unique.

(* get_sound_partial: a completing get returns the value of a node of its key that is in the list, or NULL when at that
   step no node of the list carries the key, or NULL after reading a NULL next pointer from the last node it examined
   (every node up to it carries another key).  PARTIAL: for the last case "the key was absent at some moment during the
   call" (true when that NULL is read) needs a history variable and is not derived. *)
Theorem get_sound_partial :
  forall (sof : N -> N) (keq : N -> N -> bool), (forall a b, keq a b = true <-> a = b) ->
  forall (s0 : mstate) (sched : list nat) (t : nat) (s' : mstate) (r k : N) (st : nat) (rest : list mop) (th : thread),
  MicroProofs.Inv sof s0 ->
  let s := Micro.run sof keq s0 sched in
  mstep sof keq s t = Some s' -> completes s t s' r ->
  nth_error (m_thr s) t = Some th -> t_prog th = MGet k st :: rest ->
  mlist s' = mlist s /\
  ((exists c, In c (mlist s) /\ key_of (m_heap s) c = k /\ r = val_of (m_heap s) c) \/
   (r = 0 /\ forall x, In x (mlist s) -> key_of (m_heap s) x <> k) \/
   (r = 0 /\ exists p, t_pc th = PFindLoop None (Some p) None /\ In p (mlist s) /\
                       key_of (m_heap s) p <> k /\ forall x, In x (pre (mlist s) p) -> key_of (m_heap s) x <> k)).
Proof. exact get_sound_partial_l. Qed.
Print Assumptions get_sound_partial.

(* get_sound: a get(k) invoked in state s1 that completes with NULL after ANY schedule (same program position and result list
   as right after the invocation, i.e. it is that very get) was invoked when no node of the list carried key k.  In this
   class absence at any moment of the call is equivalent to absence at the invocation, so this is "NULL only if the key was
   absent at some point during the call".  Values of nodes of key k are assumed non-NULL (NULL value = absent, see
   null_value_put_refuted). *)
From QV Require Import Dict.MicroHist.
Theorem get_sound :
  forall (sof : N -> N) (keq : N -> N -> bool), (forall a b, keq a b = true <-> a = b) ->
  forall (s1 s1' : mstate) (sched : list nat) (t : nat) (s' : mstate) (k : N) (st : nat) (rest : list mop) (th1 th2 : thread),
  MicroProofs.Inv sof s1 ->
  nth_error (m_thr s1) t = Some th1 -> t_pc th1 = PIdle -> t_prog th1 = MGet k st :: rest ->
  mstep sof keq s1 t = Some s1' ->
  let s2 := Micro.run sof keq s1' sched in
  nth_error (m_thr s2) t = Some th2 -> t_res th2 = t_res th1 -> t_prog th2 = MGet k st :: rest ->
  mstep sof keq s2 t = Some s' -> completes s2 t s' 0 ->
  (forall c, In c (mlist s2) -> key_of (m_heap s2) c = k -> val_of (m_heap s2) c <> 0) ->
  forall x, In x (mlist s1) -> key_of (m_heap s1) x <> k.
Proof. exact get_sound_l. Qed.
Print Assumptions get_sound.
