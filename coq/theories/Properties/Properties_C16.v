(* C16: qt_dictionary (split-ordered list) is a map.  Sequential refinement for every operation sequence,
   every user hash function (heavily colliding ones included) and across every table doubling; the
   invariants; iteration completeness; the explicit preconditions with their refuted variants.
   Per-key linearizability under concurrent mutation is NOT proved (searched by the check, see manifest). *)
From Coq Require Import List NArith Bool Sorted.
From QV Require Import Dict.Model Dict.ProofsBits Dict.Proofs Dict.IterProofs Dict.Refine.
Import ListNotations.
Local Open Scope N_scope.

(* every operation sequence on non-NULL keys/values returns exactly what the map specification returns
   (get = latest put or NULL; put replaces and returns the new value; put_if_absent inserts only when absent
   and returns the value now associated; delete removes and returns the removed value or NULL) *)
Theorem dict_refines_map :
  forall (hash : N -> N) (keq : N -> N -> bool), (forall a b, keq a b = true <-> a = b) ->
  forall (cap : N) (os : list op), Forall op_ok os ->
  run_ops hash keq (create cap) os = spec_ops (fun _ => 0) os.
Proof. exact refines_create. Qed.
Print Assumptions dict_refines_map.

(* in every reachable state: the list is sorted on so_key, every node is a dummy (NULL key/value) or a regular node whose
   so_key is the bit-reversed masked hash of its key, one node per key, the table size is a power of two, bucket 0 is
   initialised, every initialised bucket has its dummy node in the list, count bounds the number of keys *)
Theorem dict_invariants :
  forall (hash : N -> N) (keq : N -> N -> bool), (forall a b, keq a b = true <-> a = b) ->
  forall (cap : N) (os : list op), Forall op_ok os ->
  let d := final_state hash keq (create cap) os in
  (StronglySorted (fun a b => e_so a <= e_so b) (d_list d) /\
   Forall (fun e => (e_key e = 0 /\ e_val e = 0) \/
                    (e_key e <> 0 /\ e_val e <> 0 /\ e_so e = so_regularkey (lkey_of hash (e_key e)))) (d_list d) /\
   NoDup (keys_of (d_list d))) /\
  (exists k, d_size d = 2 ^ k) /\
  In 0 (d_B d) /\
  (forall b, In b (d_B d) -> exists e, In e (d_list d) /\ e_so e = so_dummykey b /\ e_key e = 0) /\
  N.of_nat (length (keys_of (d_list d))) <= d_count d.
Proof. exact reachable_inv. Qed.
Print Assumptions dict_invariants.

(* the abstraction commutes: the state reached by the model represents the map reached by the specification *)
Theorem dict_abs_commutes :
  forall (hash : N -> N) (keq : N -> N -> bool), (forall a b, keq a b = true <-> a = b) ->
  forall (cap : N) (os : list op), Forall op_ok os ->
  forall k, k <> 0 -> abs (final_state hash keq (create cap) os) k = spec_final (fun _ => 0) os k.
Proof. exact reachable_abs. Qed.
Print Assumptions dict_abs_commutes.

(* bucket_before_keys: at every power-of-two table size the dummy of the bucket a (masked) hash falls into sorts
   strictly before the key's regular so_key, for every 63-bit hash value *)
Theorem bucket_before_keys :
  forall lk k : N, lk < 2 ^ 63 -> so_dummykey (lk mod 2 ^ k) < so_regularkey lk.
Proof. exact so_dummy_lt_regular. Qed.
Print Assumptions bucket_before_keys.

(* initialize_bucket: the parent bucket's dummy sorts strictly before the child's (GET_PARENT clears the top bit) *)
Theorem parent_before_child :
  forall b : N, b <> 0 -> b < 2 ^ 64 ->
  so_dummykey (get_parent b) < so_dummykey b /\ get_parent b < 2 ^ N.log2 b.
Proof. exact parent_before_child_l. Qed.
Print Assumptions parent_before_child.

(* the REVERSE_BYTE multiplication trick is 8-bit reversal, REVERSE is 64-bit reversal *)
Theorem reverse_is_bit_reversal :
  (forall b, b < 256 -> reverse_byte b < 256 /\ forall i, i < 8 -> N.testbit (reverse_byte b) i = N.testbit b (7 - i)) /\
  (forall x i, N.testbit (rev64 x) i = if i <? 64 then N.testbit x (63 - i) else false).
Proof. exact (conj reverse_byte_spec rev64_bit). Qed.
Print Assumptions reverse_is_bit_reversal.

(* a search that starts at a bucket's dummy never stops at that dummy: the code never CASes a bucket slot *)
Theorem bucket_slot_never_cas :
  forall (hash : N -> N) (keq : N -> N -> bool), (forall a b, keq a b = true <-> a = b) ->
  forall (d : dict) (b hk key : N),
  (exists e, In e (d_list d) /\ e_so e = so_dummykey b) -> so_dummykey b < hk ->
  (head_pos (so_dummykey b) (d_list d) < snd (find_from keq d b hk key))%nat.
Proof. exact find_from_not_head. Qed.
Print Assumptions bucket_slot_never_cas.

(* iteration with no writer, after any operation sequence: every key present in the specification's map is returned
   exactly once with its current value, and nothing else is returned *)
Theorem iter_complete :
  forall (hash : N -> N) (keq : N -> N -> bool), (forall a b, keq a b = true <-> a = b) ->
  forall (cap : N) (os : list op), Forall op_ok os ->
  let d := final_state hash keq (create cap) os in
  NoDup (map fst (fst (iterate d))) /\
  forall k v, k <> 0 -> (In (k, v) (fst (iterate d)) <-> (spec_final (fun _ => 0) os k = v /\ v <> 0)).
Proof. exact iter_reachable. Qed.
Print Assumptions iter_complete.

(* the iteration order is the list order of the regular nodes (what the correspondence run compares) *)
Theorem iter_is_list_order :
  forall (hash : N -> N) (d : dict), Inv hash d -> fst (iterate d) = map kv (filter is_reg (d_list d)).
Proof. exact iterate_complete. Qed.
Print Assumptions iter_is_list_order.

(* preconditions made explicit.  NULL key: put then get disagrees with the map *)
Theorem null_key_put_refuted :
  exists os, run_ops idh N.eqb (create 16) os <> spec_ops (fun _ => 0) os.
Proof. exact null_key_refuted. Qed.
Print Assumptions null_key_put_refuted.

(* NULL value (keys non-NULL): find uses the VALUE as its "found" flag, so put(k,NULL); put(k,v) leaves two nodes for k
   and the iterator returns k twice *)
Theorem null_value_put_refuted :
  exists os, Forall op_key_ok os /\
  ~ NoDup (map fst (fst (iterate (final_state idh N.eqb (create 16) os)))).
Proof. exact null_value_refuted. Qed.
Print Assumptions null_value_put_refuted.
