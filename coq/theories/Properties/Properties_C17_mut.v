(* C17, extension L -- the mutating / remaining public entry points of qarray: qarray_set_shepof, qarray_dist_like,
   qarray_destroy's bookkeeping, the creation-time chunk_distribution_tracker, qarray_iter_loop_nb, qarray_elem_migrate.
   Property theorems only; model in Qarray/ModelMut.v (tied to /repo by ./check C17: lib/verif/props/_c17_mut.py),
   proofs in Qarray/ProofsMut*.v.  "Defined behaviour" = the model returns Some: the code does not touch memory
   outside the array / the tracker (set_shepof with i = count on a segment boundary, or shep >= nsheps, does). *)
From Coq Require Import List NArith ZArith.
From QV Require Import Qarray.Model Qarray.ModelMut Qarray.Proofs Qarray.ProofsMut Qarray.ProofsMutLike
     Qarray.ProofsMutTracker Qarray.ProofsMutNb.
Import ListNotations.
Local Open Scope N_scope.

(* After EVERY sequence of qarray_set_shepof(a, i, shep) calls on any array: qarray_shepof of an index is the shepherd
   of the LAST call that addressed its segment (DIST: i in the same segment, i <= count; ALL_SAME: any i <= count;
   FIXED_*: never), otherwise what it was before; other segments are unchanged (owner_after / set_spec). *)
Theorem c17m_shepof_follows_updates :
  forall nsheps ops t x t' x',
    (d_kind (a_desc x) = DIST -> length (a_own x) = N.to_nat (nsegs (a_desc x))) ->
    arun nsheps (t, x) (sets ops) = Some (t', x') ->
    forall j,
      shepof nsheps (asg_of (a_own x')) (a_desc x') j =
      owner_after (d_kind (a_desc x)) (d_segsize (a_desc x)) (d_count (a_desc x)) ops (j / d_segsize (a_desc x))
                  (shepof nsheps (asg_of (a_own x)) (a_desc x) j).
Proof. exact shepof_follows_updates. Qed.
Print Assumptions c17m_shepof_follows_updates.

Example c17m_follows_nonvacuous :
  let nsheps := 3 in
  let '(t, x) := create_arr nsheps 4096 [0; 0; 0]%Z 3000 8 dDIST_STRIPES false 1 0 (fun _ => 0) in
  match arun nsheps (t, x) (sets [(0, 2); (3000, 0); (600, 1); (0, 1)]) with
  | Some (t', x') => owners nsheps x = [0; 1; 2; 0; 1; 2] /\ owners nsheps x' = [1; 1; 2; 0; 1; 0] /\ t' = [2; 3; 1]%Z
  | None => False
  end.
Proof. vm_compute. repeat split. Qed.

(* EVERY sequence of set_shepof / dist_like calls leaves count, unit size, segment geometry, kind and the
   FIXED_FIELDS parameters alone, hence every element offset and the segment count. *)
Theorem c17m_layout_unchanged :
  forall nsheps ops tx tx',
    arun nsheps tx ops = Some tx' ->
    same_layout (a_desc (snd tx)) (a_desc (snd tx')) /\
    (forall i, elem_off (a_desc (snd tx)) i = elem_off (a_desc (snd tx')) i) /\
    nsegs (a_desc (snd tx)) = nsegs (a_desc (snd tx')) /\
    shep_slot (a_desc (snd tx)) = shep_slot (a_desc (snd tx')).
Proof.
  intros nsheps ops tx tx' H. pose proof (arun_layout nsheps ops tx tx' H) as L.
  exact (conj L (conj (fun i => same_layout_elem _ _ i L) (conj (same_layout_nsegs _ _ L) (same_layout_slot _ _ L)))).
Qed.
Print Assumptions c17m_layout_unchanged.

(* qarray_dist_like(ref, mod): when the call goes through (equal count and unit size; ref ALL_SAME with mod ALL_SAME or
   DIST; ref DIST with mod DIST of the same segment geometry) every index of mod gets ref's owner; in every other
   combination (FIXED_* on either side, unequal sizes, DIST onto ALL_SAME) nothing at all changes. *)
Theorem c17m_dist_like_copies_owners :
  forall nsheps t r m t' m',
    0 < d_segsize (a_desc m) ->
    (d_kind (a_desc m) = DIST -> length (a_own m) = N.to_nat (nsegs (a_desc m))) ->
    dist_like_arr nsheps t r m = Some (t', m') ->
    (like_accepts r m = true ->
     forall j, j < d_count (a_desc m) ->
               shepof nsheps (asg_of (a_own m')) (a_desc m') j = shepof nsheps (asg_of (a_own r)) (a_desc r) j) /\
    (like_accepts r m = false -> t' = t /\ m' = m).
Proof. exact dist_like_copies. Qed.
Print Assumptions c17m_dist_like_copies_owners.

Example c17m_like_nonvacuous :
  let nsheps := 3 in
  let '(t1, r) := create_arr nsheps 4096 [0; 0; 0]%Z 3000 8 dDIST_STRIPES false 1 0 (fun _ => 0) in
  let '(t2, m) := create_arr nsheps 4096 t1 3000 8 dDIST_LEAST false 1 0 (fun _ => 0) in
  let '(t3, m0) := match set_shepof_arr nsheps t2 m 0 2 with Some p => p | None => (t2, m) end in
  like_accepts r m0 = true /\ owners nsheps m0 <> owners nsheps r /\
  match dist_like_arr nsheps t3 r m0 with Some (_, m') => owners nsheps m' = owners nsheps r | None => False end.
Proof. vm_compute. repeat split; discriminate. Qed.

(* THE iteration property after updates: for every array qarray_create_configured can produce (any count, unit size,
   tight flag, seg_pages, page size, all eleven distributions, any shepherd count, ANY valid owner table -- which covers
   the random and least-loaded assignments), every sequence of set_shepof / dist_like calls inside the defined
   behaviour and every non-empty range: qarray_iter and the loop striders visit each index exactly once, on its
   CURRENT owner (the updated table), and nothing else. *)
Theorem c17m_iter_exact_after_updates :
  forall count obj d tight segpages pagesize nsheps oshep t x ops t' x' start stop,
    same_layout (create count obj d tight segpages pagesize nsheps oshep) (a_desc x) ->
    0 < nsheps -> 0 < d_segsize (a_desc x) -> arr_ok nsheps x ->
    arun nsheps (t, x) ops = Some (t', x') -> start < stop ->
    iter_exact nsheps (asg_of (a_own x')) (a_desc x') start stop (iter nsheps (asg_of (a_own x')) (a_desc x') start stop) /\
    iter_exact nsheps (asg_of (a_own x')) (a_desc x') start stop (iter_loop nsheps (asg_of (a_own x')) (a_desc x') start stop).
Proof. exact iter_exact_after_updates. Qed.
Print Assumptions c17m_iter_exact_after_updates.

(* the updates keep the owner table valid (one shepherd < nsheps per segment), so qarray_shepof stays valid *)
Theorem c17m_owner_table_stays_valid :
  forall nsheps ops tx tx', arr_ok nsheps (snd tx) -> arun nsheps tx ops = Some tx' -> arr_ok nsheps (snd tx').
Proof. exact arun_ok. Qed.
Print Assumptions c17m_owner_table_stays_valid.

(* chunk_distribution_tracker, EXACT: after any sequence of create / set_shepof / dist_like / destroy on any number of
   live arrays (all eleven distributions; DIST_LEAST and ALL_LEAST read the tracker while it changes),
   tracker[s] = number of live segments currently owned by s + the surplus of the ALL_* creations (run_leak). *)
Theorem c17m_tracker_exact :
  forall nsheps pagesize ops w,
    run nsheps pagesize (world0 nsheps) ops = Some w ->
    length (w_tr w) = N.to_nat nsheps /\
    forall s, s < nsheps ->
      (tget (w_tr w) s = owned nsheps (w_arrs w) s + run_leak nsheps pagesize (world0 nsheps) ops (fun _ => 0%Z) s)%Z.
Proof. exact tracker_exact. Qed.
Print Assumptions c17m_tracker_exact.

(* the intended conservation law -- tracker[s] = live segments owned by s, for every shepherd, after every sequence --
   holds when no ALL_SAME / ALL_LOCAL / ALL_RAND / ALL_LEAST array is created ... *)
Theorem c17m_tracker_conservation :
  forall nsheps pagesize ops w,
    no_all ops = true ->
    run nsheps pagesize (world0 nsheps) ops = Some w ->
    forall s, s < nsheps -> tget (w_tr w) s = owned nsheps (w_arrs w) s.
Proof. exact tracker_conservation. Qed.
Print Assumptions c17m_tracker_conservation.

(* ... and is false without the guard: an ALL_LOCAL array is counted twice at creation and once at destroy *)
Theorem c17m_tracker_conservation_refuted :
  exists nsheps pagesize ops w,
    run nsheps pagesize (world0 nsheps) ops = Some w /\ w_arrs w = [] /\ tget (w_tr w) 0 <> 0%Z.
Proof. exact tracker_conservation_refuted. Qed.
Print Assumptions c17m_tracker_conservation_refuted.

Example c17m_tracker_nonvacuous :
  let ops := [OCreate 0 3000 8 dDIST_LEAST false 1 0 []; OCreate 1 3000 8 dDIST_RAND false 1 0 [1; 0; 0; 1; 2; 1];
              OSet 1 0 2; OLike 0 1; OCreate 2 5000 16 dFIXED_FIELDS false 2 0 []; ODestroy 0] in
  no_all ops = true /\
  match run 3 4096 (world0 3) ops with Some w => w_tr w = [6; 5; 5]%Z /\ length (w_arrs w) = 2%nat | None => False end.
Proof. vm_compute. repeat split. Qed.

(* qarray_iter_loop_nb, operation level, EVERY interleaving of the wrapper task and the striders: the caller's return
   word is filled at most once; it is full only after every strider has finished every invocation; until then it has
   never been filled. *)
Theorem c17m_iter_loop_nb_completion :
  forall plan sched,
    let st := nb_run (nb_init plan) sched in
    (nb_fills st <= 1)%nat /\
    (nb_full st = true -> nb_fills st = 1%nat /\ nb_all_returned st = true) /\
    (nb_full st = false -> nb_fills st = 0%nat).
Proof. exact iter_loop_nb_completion. Qed.
Print Assumptions c17m_iter_loop_nb_completion.

(* ... and as long as the word is not full some thread can take a step (no deadlock) *)
Theorem c17m_iter_loop_nb_no_deadlock :
  forall plan sched,
    let st := nb_run (nb_init plan) sched in
    nb_full st = false -> exists tid st', nb_step st tid = Some st'.
Proof. exact iter_loop_nb_no_deadlock. Qed.
Print Assumptions c17m_iter_loop_nb_no_deadlock.

(* qarray_elem_migrate as it is in the code (inverted qassert_ret): NULL and no migration for EVERY valid index, so it
   never returns the element / moves the caller to the owner as the header says (full statement refuted universally) *)
Theorem c17m_elem_migrate_refuted :
  forall nsheps x i, i < d_count (a_desc x) ->
    elem_migrate_code nsheps x i = EM_null /\ elem_migrate_code nsheps x i <> elem_migrate_spec nsheps x i.
Proof. intros nsheps x i H. exact (conj (elem_migrate_code_null nsheps x i H) (elem_migrate_refuted nsheps x i H)). Qed.
Print Assumptions c17m_elem_migrate_refuted.
