(* C03 under real concurrency, mode M4: theorems about the acceptor that judges the logged free-running syncvar traces.
   Statements only; proofs in Syncvar/HistoryProofs.v, HistoryComplete.v, HistoryIncr.v, non-vacuity examples in
   Syncvar/HistoryExamples.v.  A history h is the list of calls on one syncvar: cell operation (sop; the _nb variants are the
   same operation with h_nb = true), ticket before the call (h_inv), ticket after its return (h_ret, None = never returned),
   what the caller observed (h_out: ODone result | OFail = QTHREAD_OPFAIL | OOver = QTHREAD_OVERFLOW).  The cell is the
   (full?, 60-bit value) cell of Syncvar/CellSpec.v; a run state (hstate) is the cell plus the return ticket of an incrF on the
   empty cell whose effect on the full bit the next call decides (incrF fills an empty variable exactly when a reader was
   waiting: the call placed right after it is a blocking read invoked before the incrF returned). *)
From Coq Require Import List NArith Bool Permutation Sorted.
Import ListNotations.
From QV Require Import Syncvar.Defs Syncvar.CellSpec Syncvar.History Syncvar.HistoryProofs Syncvar.HistoryComplete
  Syncvar.HistoryIncr Syncvar.HistoryDecl Syncvar.HistoryExamples.
Local Open Scope N_scope.

(* soundness of the acceptor: an accepted history has a linearisation - a total order l of the completed calls that extends
   the real-time order (StronglySorted rt_compat), in which every call takes effect atomically, enabled where it stands and
   with the result its caller saw (hrun), ending in the audited final cell - and no call left pending is enabled there *)
Theorem svhist_accepts_sound : forall (fuel : N) (c0 : cell) (h : list hop) (cfin : cell),
  accepts fuel c0 h cfin = true ->
  exists l, Permutation l (completed h) /\ StronglySorted rt_compat l /\ (exists j, hrun (mkH c0 None) l (mkH cfin j)) /\
            (forall p, In p (pending h) -> enabled cfin (h_op p) = false).
Proof. exact accepts_sound_explicit. Qed.
Print Assumptions svhist_accepts_sound.

(* the certificate checker alone (the search is untrusted: every witness it returns goes through check_lin) *)
Theorem svhist_certificate_sound : forall (c0 : cell) (h : list hop) (cfin : cell) (w : list N),
  check_lin c0 h cfin w = true -> explained c0 h cfin.
Proof. exact check_lin_sound. Qed.
Print Assumptions svhist_certificate_sound.

(* completeness of the exhaustive search: the verdict Reject (the one that is reported as a violation) is given only when
   NO linearisation exists *)
Theorem svhist_reject_complete : forall (fuel : N) (c0 : cell) (h : list hop) (cfin : cell),
  decide fuel c0 h cfin = Reject -> ~ explained c0 h cfin.
Proof. exact reject_complete. Qed.
Print Assumptions svhist_reject_complete.

(* in an accepted history no call that never returned is enabled in the final state ... *)
Theorem svhist_quiescent_no_enabled_blocked : forall (fuel : N) (c0 : cell) (h : list hop) (cfin : cell),
  accepts fuel c0 h cfin = true -> forall p, In p h -> h_ret p = None -> enabled cfin (h_op p) = false.
Proof. exact pending_disabled. Qed.
Print Assumptions svhist_quiescent_no_enabled_blocked.

(* ... equivalently a task still blocked at quiescence whose condition holds (a lost wake-up) is never accepted *)
Theorem svhist_lost_wakeup_rejected : forall (fuel : N) (c0 : cell) (h : list hop) (cfin : cell) (p : hop),
  In p h -> h_ret p = None -> enabled cfin (h_op p) = true -> accepts fuel c0 h cfin = false.
Proof. exact lost_wakeup_rejected. Qed.
Print Assumptions svhist_lost_wakeup_rejected.

(* a non-blocking call that reported QTHREAD_OPFAIL stands where its blocking twin would have had to wait (this is what the
   histories of the defect repaired by /repo e1e6722 violate: Syncvar/HistoryExamples.v nb_spurious_fail_rejected) *)
Theorem svhist_failed_nb_was_disabled : forall (s : hstate) (l : list hop) (s' : hstate),
  hrun s l s' ->
  forall l1 x l2, l = l1 ++ x :: l2 -> h_out x = OFail ->
  exists sx, hrun s l1 sx /\ enabled (hs_cell sx) (h_op x) = false /\ h_nb x = true.
Proof. exact hrun_failed_disabled. Qed.
Print Assumptions svhist_failed_nb_was_disabled.

(* a call that reported QTHREAD_OVERFLOW carried a value >= 2^60 and the cell after it is the cell before it *)
Theorem svhist_overflow_only_for_big_values : forall (s : hstate) (l : list hop) (s' : hstate),
  hrun s l s' ->
  forall l1 x l2, l = l1 ++ x :: l2 -> h_out x = OOver ->
  sv_rejected (h_op x) = true /\ exists sx, hrun s l1 sx /\ hrun (mkH (hs_cell sx) None) l2 s'.
Proof. exact hrun_over_no_change. Qed.
Print Assumptions svhist_overflow_only_for_big_values.

(* the order extends real time: a call that returned before another was invoked never stands after it *)
Theorem svhist_real_time_respected : forall (l : list hop),
  StronglySorted rt_compat l ->
  forall l1 x l2 y l3, l = l1 ++ x :: l2 ++ y :: l3 -> ~ rt_before y x.
Proof. exact sorted_order. Qed.
Print Assumptions svhist_real_time_respected.

(* syncvar-specific 1: a variable whose value is changed by incrF only (no completed writeF / writeEF of a value that fits;
   reads, fill, empty, status, failed and rejected calls are all allowed).  In every accepted history the audited final
   payload is init + the sum of the increments modulo 2^60; the values the incrF calls returned are the partial sums along
   a linearisation that extends real time; and when no increment is 0 and the total does not reach 2^60 the returned values
   are pairwise distinct *)
Theorem svhist_incrF_total : forall (fuel : N) (c0 : cell) (h : list hop) (cfin : cell),
  accepts fuel c0 h cfin = true -> c_val c0 < two60 ->
  (forall x, In x h -> writes_value x = false) ->
  c_val cfin = wrap60 (c_val c0 + sum_inc (completed h)) /\
  (exists l, Permutation l (completed h) /\ StronglySorted rt_compat l /\ partial_sums_ok (c_val c0) l) /\
  ((forall x, In x h -> is_incr_done x = true -> 0 < inc_of x) -> c_val c0 + sum_inc (completed h) < two60 ->
   NoDup (incr_rets (completed h))).
Proof. exact incrF_total. Qed.
Print Assumptions svhist_incrF_total.

(* syncvar-specific 2: a write that was rejected with QTHREAD_OVERFLOW can be deleted from any explained history: what
   explains the history with it explains the history without it ... *)
Theorem svhist_overflow_no_effect : forall (c0 : cell) (h1 : list hop) (x : hop) (h2 : list hop) (cfin : cell),
  h_out x = OOver -> explained c0 (h1 ++ x :: h2) cfin -> explained c0 (h1 ++ h2) cfin.
Proof. exact overflow_no_effect. Qed.
Print Assumptions svhist_overflow_no_effect.

(* ... so the acceptor, having accepted the history with the rejected write, can never reject the one without it *)
Theorem svhist_overflow_no_effect_accepts : forall (fuel fuel' : N) (c0 : cell) (h1 : list hop) (x : hop) (h2 : list hop) (cfin : cell),
  h_out x = OOver -> accepts fuel c0 (h1 ++ x :: h2) cfin = true -> decide fuel' c0 (h1 ++ h2) cfin <> Reject.
Proof. exact overflow_no_effect_accepts. Qed.
Print Assumptions svhist_overflow_no_effect_accepts.

(* the specification read declaratively: the run relation hrun with its "undecided incrF" state accepts exactly the
   linearisations of dlin (Syncvar/HistoryDecl.v), which is written over the bare cell: every call takes effect atomically
   (atomic; incrF keeps the full bit), EXCEPT that an incrF on an empty cell may fill it when the call placed right after it
   is a completed blocking read invoked before the incrF returned (a reader that was waiting: rule dlin_incr_fill) *)
Theorem svhist_lazy_is_declarative : forall (c : cell) (l : list hop) (c' : cell),
  (exists j', hrun (mkH c None) l (mkH c' j')) <-> dlin c l c'.
Proof. exact lazy_is_declarative. Qed.
Print Assumptions svhist_lazy_is_declarative.
