(* C01, micro-step layer (two tasks, one word): investigation results.  NOT part of the obligations of ./check C01
   (kept in a separate file until the finding is listed); compiled by the full build. *)
From Coq Require Import List ZArith NArith Bool.
Import ListNotations.
From QV Require Import Cell.Spec Feb.Model Feb.Proofs Feb.Micro Feb.MicroProofs.

(* full statement: every maximal interleaving of the micro-steps of two calls on one word ends with results, full bit and
   value that the two atomic cell operations produce in one of the two orders, and nobody is stuck on a lock *)
Theorem micro_atomic_refuted : exists pe v oa ob, ~ micro_atomic pe v oa ob.
Proof. exact MicroProofs.micro_atomic_refuted. Qed.
Print Assumptions micro_atomic_refuted.

(* the three classes of witnesses (schedules as lists of task ids; final outcome = (result of A, result of B, full, value)) *)
Theorem micro_writeF_readFE_refuted :
  exists s, run_with mstep (minit false 5 (OWriteF (Some 11%Z)) (OReadFE DOwn)) (sched_of [0;0;0;1;1;1;1;1;1;0;1;1]%nat) = Some s /\
            final_with mstep s /\ good_final false 5 (OWriteF (Some 11%Z)) (OReadFE DOwn) s = false /\
            outcome_of s = (Some (OK, None), Some (OK, Some 5%Z), false, 11%Z).
Proof. exact writeF_readFE_bad. Qed.
Print Assumptions micro_writeF_readFE_refuted.

Theorem micro_readFF_purge_refuted :
  exists s, run_with mstep (minit false 5 (OReadFF DOwn) (OPurge (Some 22%Z))) (sched_of [0;0;0;1;1;1;1;0]%nat) = Some s /\
            final_with mstep s /\ good_final false 5 (OReadFF DOwn) (OPurge (Some 22%Z)) s = false /\
            outcome_of s = (Some (OK, Some 22%Z), Some (OK, None), false, 22%Z).
Proof. exact readFF_purge_bad. Qed.
Print Assumptions micro_readFF_purge_refuted.

Theorem micro_purge_writeEF_refuted :
  exists s, run_with mstep (minit false 5 (OPurge (Some 11%Z)) (OWriteEF (Some 22%Z))) (sched_of [0;0;0;1;1;1;1;1;1;0;1;1;1;1;1]%nat) = Some s /\
            final_with mstep s /\ good_final false 5 (OPurge (Some 11%Z)) (OWriteEF (Some 22%Z)) s = false /\
            outcome_of s = (Some (OK, None), Some (OK, None), true, 11%Z).
Proof. exact purge_writeEF_bad. Qed.
Print Assumptions micro_purge_writeEF_refuted.

(* positive part for the code as it is: all 13 x 13 pairs of calls, from both initial word states, outside the racy class
   (a record-absent fast path of writeF / writeFF / readFF / readFF_nb, or purge_to's late store, against a call that
   creates or fills the record); exhaustive over the finite set of pairs x initial states x interleavings *)
Theorem micro_atomic_pairs_partial : forall pe oa ob,
  In oa (ops_of 11) -> In ob (ops_of 22) -> (pe = true \/ racy oa ob = false) -> micro_atomic pe 5 oa ob.
Proof. exact MicroProofs.micro_atomic_pairs_partial. Qed.
Print Assumptions micro_atomic_pairs_partial.

(* with the proposed repair (fast-path accesses moved into the stripe critical section) every pair is atomic *)
Theorem micro_atomic_fixed_pairs : forall pe oa ob,
  In oa (ops_of 11) -> In ob (ops_of 22) -> micro_atomic_fixed pe 5 oa ob.
Proof. exact MicroProofs.micro_atomic_fixed_pairs. Qed.
Print Assumptions micro_atomic_fixed_pairs.
