From Coq Require Import List ZArith Bool.
From QV Require Import Kernel.Ret Kernel.RetProofs Kernel.RetForest.
Import ListNotations.
Local Open Scope Z_scope.

Theorem int60_of_every_result : forall v, int64_to_int60 (to_u64 v) = v mod M60.
Proof. exact int60_of_result. Qed.
Print Assumptions int60_of_every_result.

Theorem int60_signed_roundtrip : forall v, - 576460752303423488 <= v < 576460752303423488 ->
  int60_to_int64 (int64_to_int60 (to_u64 v)) = v.
Proof. exact int60_roundtrip. Qed.
Print Assumptions int60_signed_roundtrip.

Theorem ret_empty_until_done : forall k tr s0, (k = KAligned \/ k = KSyncvar) ->
  r_phase s0 = PNew \/ inv_empty s0 ->
  forallb (fun e => negb (is_other_fill e)) tr = true ->
  inv_empty (rrun k s0 tr).
Proof. exact RetProofs.ret_empty_until_done. Qed.
Print Assumptions ret_empty_until_done.

Theorem ret_filled_once : forall k tr l0,
  let s := rrun k (mkrs l0 PNew []) tr in
  (length (r_fills s) <= 1)%nat /\
  (r_phase s = PFilled -> exists v, In (OReturn v) tr /\ r_fills s = [delivered k v]) /\
  (r_phase s <> PFilled -> r_fills s = []).
Proof. exact RetProofs.ret_filled_once. Qed.
Print Assumptions ret_filled_once.

Theorem ret_read_after_fill : forall k s v s', (k = KAligned \/ k = KSyncvar) -> r_phase s = PTeamDone v ->
  rstep k s OFill = Some s' ->
  observe k s' [QReadFF; QStatus; QReadFE; QStatus; QStep OFill; QStep OSpawn; QStatus] = [delivered k v; 1; delivered k v; 0; 0].
Proof. exact fill_then_read. Qed.
Print Assumptions ret_read_after_fill.

Theorem ret_value_is_result : forall k v, delivered k v = delivered_spec k v.
Proof. exact delivered_is_spec. Qed.
Print Assumptions ret_value_is_result.

(* one team level (members + direct subteams): the lemma the whole-tree theorem rests on *)
Theorem team_ret_after_members_one_level : forall tr w,
  let s := trun (team_init w) tr in
  t_lph s = LDone -> t_live s = 0 /\ t_sublive s = 0.
Proof. exact RetProofs.team_ret_after_members. Qed.
Print Assumptions team_ret_after_members_one_level.

(* every reachable forest: each team's subteams counter equals the number of its direct subteams not yet done *)
Theorem team_forest_invariant : forall tr w, finv (frun (forest_init w) tr).
Proof. exact finv_reachable. Qed.
Print Assumptions team_forest_invariant.

(* the whole tree: for every order of member spawns / finishes, subteam creations at any depth, leader steps and exits,
   once team a's leader has left qt_internal_teamfinish (only then is a's return value delivered) team a has no unfinished
   member and every transitive subteam is done and has no unfinished member *)
Theorem team_ret_after_members : forall tr w a ea,
  let l := frun (forest_init w) tr in
  nth_error l a = Some ea -> t_lph (f_t ea) = LDone ->
  t_live (f_t ea) = 0 /\
  forall d ed, anc l a d -> nth_error l d = Some ed -> t_lph (f_t ed) = LDone /\ t_live (f_t ed) = 0.
Proof. exact team_ret_after_members_tree. Qed.
Print Assumptions team_ret_after_members.

Theorem team_exit_not_refused : forall tr w i x t',
  let l := frun (forest_init w) tr in
  nth_error l i = Some x -> tstep (f_t x) TLeaderExit = Some t' -> exists l', fstep l (FExit i) = Some l'.
Proof. exact exit_not_refused. Qed.
Print Assumptions team_exit_not_refused.

Theorem team_leader_waits : forall tr w,
  let s := trun (team_init w) tr in
  (0 < t_live s -> tstep s TLeaderWait1 = None) /\ (0 < t_sublive s -> tstep s TLeaderWait2 = None).
Proof. exact team_waits_block. Qed.
Print Assumptions team_leader_waits.
