(* C15: concurrent queues conserve their elements and per-producer order.  Statements only; proofs in CQueues/*Proofs.v *)
From Coq Require Import List NArith ZArith Bool Permutation Sorted.
Import ListNotations.
From QV Require Import CQueues.Swsr CQueues.Lfq CQueues.Hazard CQueues.Dq.
From QV Require CQueues.SwsrProofs CQueues.LfqProofs CQueues.HazardProofs CQueues.DqProofs.
Local Open Scope N_scope.

(* ------------------------------------------------------------------ qswsrqueue: every interleaving of P and C, every size *)
Definition wf_progs (pp cp : list op) : Prop := forallb prod_op pp = true /\ forallb cons_op cp = true.

Theorem swsr_fifo : forall size g pp cp sched, 1 <= size -> wf_progs pp cp ->
  exists rest, enq_seq (run (init size g pp cp) sched) = deq_seq (run (init size g pp cp) sched) ++ rest.
Proof. exact SwsrProofs.swsr_fifo. Qed.
Print Assumptions swsr_fifo.

Theorem swsr_capacity : forall size g pp cp sched, 1 <= size -> wf_progs pp cp ->
  let s := run (init size g pp cp) sched in
  (length (enq_seq s) <= length (deq_seq s) + N.to_nat size - 1)%nat.
Proof. exact SwsrProofs.swsr_capacity. Qed.
Print Assumptions swsr_capacity.

Theorem swsr_deq_null_sound : forall size g pp cp sched, 1 <= size -> wf_progs pp cp ->
  let s := run (init size g pp cp) sched in
  forall cur s', t_pc (s_c s) = DqLdTail cur -> step s C = Some (s', KEnd (RPtr 0)) -> deq_seq s = enq_seq s.
Proof. exact SwsrProofs.swsr_deq_null_sound. Qed.
Print Assumptions swsr_deq_null_sound.

Theorem swsr_empty_sound : forall size g pp cp sched, 1 <= size -> wf_progs pp cp ->
  let s := run (init size g pp cp) sched in
  forall t h gh s', t_pc (thr s t) = EmLdTail h gh -> step s t = Some (s', KEnd (RInt 1)) ->
  (gh <= length (deq_seq s))%nat.
Proof. exact SwsrProofs.swsr_empty_sound. Qed.
Print Assumptions swsr_empty_sound.

Theorem swsr_deqb_real : forall size g pp cp sched, 1 <= size -> wf_progs pp cp ->
  let s := run (init size g pp cp) sched in
  forall nxt item, t_pc (s_c s) = DbStHead nxt item ->
  (length (deq_seq s) < length (enq_seq s))%nat /\ nth (length (deq_seq s)) (enq_seq s) 0 = item.
Proof. exact SwsrProofs.swsr_deqb_real. Qed.
Print Assumptions swsr_deqb_real.

Theorem swsr_deq_real : forall size g pp cp sched, 1 <= size -> wf_progs pp cp ->
  let s := run (init size g pp cp) sched in
  forall cur item, t_pc (s_c s) = DqStHead cur item ->
  (length (deq_seq s) < length (enq_seq s))%nat /\ nth (length (deq_seq s)) (enq_seq s) 0 = item.
Proof. exact SwsrProofs.swsr_deq_real. Qed.
Print Assumptions swsr_deq_real.

Theorem swsr_enqb_free_slot : forall size g pp cp sched, 1 <= size -> wf_progs pp cp ->
  let s := run (init size g pp cp) sched in
  forall v nxt, t_pc (s_p s) = EbStTail v nxt ->
  (length (enq_seq s) + 1 <= length (deq_seq s) + N.to_nat size - 1)%nat.
Proof. exact SwsrProofs.swsr_enqb_free_slot. Qed.
Print Assumptions swsr_enqb_free_slot.

Theorem swsr_enq_free_slot : forall size g pp cp sched, 1 <= size -> wf_progs pp cp ->
  let s := run (init size g pp cp) sched in
  forall v nxt, t_pc (s_p s) = EnStTail v nxt ->
  (length (enq_seq s) + 1 <= length (deq_seq s) + N.to_nat size - 1)%nat.
Proof. exact SwsrProofs.swsr_enq_free_slot. Qed.
Print Assumptions swsr_enq_free_slot.

Theorem swsr_deq_nonnull : forall size g pp cp sched, 1 <= size -> wf_progs pp cp ->
  let s := run (init size g pp cp) sched in Forall (fun v => v <> 0) (deq_seq s).
Proof. exact SwsrProofs.swsr_deq_nonnull. Qed.
Print Assumptions swsr_deq_nonnull.

Theorem create_size_spec : forall cw ps e sz, 0 < ps -> ps <= cw -> create_size cw ps e = Some sz ->
  e <= sz /\ 1 <= sz /\ sz mod cw = 0 /\ cw / ps <= sz /\ cw <= sz /\ sz <= UINT32_MAX.
Proof. exact SwsrProofs.create_size_spec. Qed.
Print Assumptions create_size_spec.

(* ------------------------------------------------------------------ qlfqueue: every interleaving, any number of threads
   (micro-step model; linearizability is not claimed: the clauses of the property follow from the invariant) *)
Theorem lfq_conservation_partial : forall progs sched,
  let s := lrun (linit progs) sched in
  map snd (g_deq s) = firstn (length (g_deq s)) (map snd (g_enq s)) /\ (length (g_deq s) <= length (g_enq s))%nat.
Proof. exact LfqProofs.lfq_conservation_partial. Qed.
Print Assumptions lfq_conservation_partial.

Theorem lfq_deq_null_sound : forall progs sched,
  let s := lrun (linit progs) sched in
  forall t hd tl, pc_of s t = QdLdNext hd tl -> n_next (hget (s_heap s) hd) = 0 -> length (g_deq s) = length (g_enq s).
Proof. exact LfqProofs.lfq_deq_null_sound. Qed.
Print Assumptions lfq_deq_null_sound.

Theorem lfq_empty_sound : forall progs sched,
  let s := lrun (linit progs) sched in
  forall t hd tl nx g s', pc_of s t = QmChk hd tl nx g -> lstep s t = Some (s', Some (LInt 1)) ->
  (g <= length (g_deq s))%nat.
Proof. exact LfqProofs.lfq_empty_sound. Qed.
Print Assumptions lfq_empty_sound.

Theorem lfq_per_producer_fifo : forall progs sched,
  let s := lrun (linit progs) sched in
  forall p, exists k,
    map snd (filter (fun x => Nat.eqb (fst x) p) (g_enq s)) = firstn k (LfqProofs.enq_vals (nth p progs [])).
Proof. exact LfqProofs.lfq_per_producer_fifo. Qed.
Print Assumptions lfq_per_producer_fifo.

Theorem lfq_consumer_results : forall progs sched,
  (forall ops v, In ops progs -> In (LEnq v) ops -> v <> 0) ->
  let s := lrun (linit progs) sched in
  forall c th, nth_error (s_thr s) c = Some th ->
    exists pending,
      LfqProofs.deq_results (lt_out th) ++ pending = map snd (filter (fun x => Nat.eqb (fst x) c) (g_deq s)) /\
      (length pending <= 1)%nat.
Proof. exact LfqProofs.lfq_consumer_results. Qed.
Print Assumptions lfq_consumer_results.

Theorem lfq_completed_le_linked : forall progs sched,
  let s := lrun (linit progs) sched in (completed_enq s <= length (g_enq s))%nat.
Proof. exact LfqProofs.completed_le_linked. Qed.
Print Assumptions lfq_completed_le_linked.

(* ------------------------------------------------------------------ hazard pointers: the scan never frees a protected pointer *)
Theorem scan_keeps_protected : forall slots me fl p w kept freed,
  w <> me -> (w < length slots)%nat -> In p (nth w slots []) ->
  scan slots me fl = Some (kept, freed) -> ~ In p freed.
Proof. exact HazardProofs.scan_keeps_protected. Qed.
Print Assumptions scan_keeps_protected.

Theorem scan_total : forall slots me fl, scan slots me fl <> None.
Proof. exact HazardProofs.scan_total. Qed.
Print Assumptions scan_total.

Theorem scan_frees_unprotected : forall slots me fl kept freed p,
  scan slots me fl = Some (kept, freed) -> In p kept -> In p (collect slots me).
Proof. exact HazardProofs.scan_frees_unprotected. Qed.
Print Assumptions scan_frees_unprotected.

Theorem void_cmp_spec : forall a b, (void_cmp a b ?= 0)%Z = (a ?= b).
Proof. exact HazardProofs.void_cmp_spec. Qed.
Print Assumptions void_cmp_spec.

Theorem bsearch_total : forall l x len, binary_search l x len <> None.
Proof. exact HazardProofs.bsearch_total. Qed.
Print Assumptions bsearch_total.

Theorem bsearch_finds : forall l x len i,
  (forall j k, j <= k -> k < len -> at_ l j <= at_ l k) -> i < len -> at_ l i = x -> binary_search l x len = Some true.
Proof. exact HazardProofs.bsearch_finds. Qed.
Print Assumptions bsearch_finds.

Theorem bsearch_sound : forall l x len, binary_search l x len = Some true -> exists i, i < len /\ at_ l i = x.
Proof. exact HazardProofs.bsearch_sound. Qed.
Print Assumptions bsearch_sound.

Theorem isort_sorted : forall l, Sorted.StronglySorted N.le (isort l).
Proof. exact HazardProofs.isort_sorted. Qed.
Print Assumptions isort_sorted.

(* ------------------------------------------------------------------ qdqueue over atomic FIFO sub-queues *)
Theorem dq_conservation : forall n alls progs sched,
  (forall p, In p progs -> forall there x, In (DEnq there x) p -> (there < n)%nat) ->
  let s := drun (dinit n alls progs) sched in Permutation (d_enq s) (d_deq s ++ concat (d_qs s)).
Proof. exact DqProofs.dq_conservation. Qed.
Print Assumptions dq_conservation.

Theorem dq_deq_results : forall n alls progs sched,
  let s := drun (dinit n alls progs) sched in Permutation (DqProofs.results s) (d_deq s).
Proof. exact DqProofs.dq_deq_results. Qed.
Print Assumptions dq_deq_results.

Theorem dq_results_nodup : forall n alls progs sched,
  let s := drun (dinit n alls progs) sched in NoDup (d_enq s) -> NoDup (DqProofs.results s).
Proof. exact DqProofs.dq_results_nodup. Qed.
Print Assumptions dq_results_nodup.

Theorem dq_null_means_all_empty : forall n alls progs sched t k,
  alls_ok n alls = true ->
  (forall p, In p progs -> forall me pre lcs, In (DDeq me pre lcs) p -> (me < n)%nat) ->
  let s := drun (dinit n alls progs) sched in
  nth_error (d_tasks s) t = Some k -> k_run k = true -> k_todo k = [] ->
  forall i, (i < n)%nat -> In i (k_seen k).
Proof. exact DqProofs.dq_null_means_all_empty. Qed.
Print Assumptions dq_null_means_all_empty.

Theorem dq_seen_was_empty : forall s t s' k k',
  dstep s t = Some s' -> nth_error (d_tasks s) t = Some k -> nth_error (d_tasks s') t = Some k' ->
  k_seen k' = k_seen k \/ k_seen k' = [] \/ exists i, k_seen k' = i :: k_seen k /\ qpop (d_qs s) i = None.
Proof. exact DqProofs.seen_was_empty. Qed.
Print Assumptions dq_seen_was_empty.

Theorem dq_quiescent_not_null : forall n s t k me pre lcs ops i,
  alls_ok n (d_alls s) = true -> (me < n)%nat -> (i < n)%nat ->
  nth_error (d_tasks s) t = Some k -> k_run k = false -> k_ops k = DDeq me pre lcs :: ops ->
  qpop (d_qs s) i <> None ->
  exists m x k', nth_error (d_tasks (drun s (repeat t m))) t = Some k' /\
    k_run k' = false /\ k_ops k' = ops /\ k_out k' = k_out k ++ [Some x].
Proof. exact DqProofs.dq_quiescent_not_null. Qed.
Print Assumptions dq_quiescent_not_null.

(* the acceptor used by the sequential scripted qdqueue mode is sound for the model: a dequeue that runs alone returns a
   result that seq_deq_ok accepts on the sub-queues as they were before it *)
Theorem dq_seq_accept_sound : forall n s t k me pre lcs ops m k',
  alls_ok n (d_alls s) = true -> (me < n)%nat -> length (d_qs s) = n ->
  nth_error (d_tasks s) t = Some k -> k_run k = false -> k_ops k = DDeq me pre lcs :: ops ->
  nth_error (d_tasks (drun s (repeat t m))) t = Some k' -> k_run k' = false -> k_ops k' = ops ->
  exists r, k_out k' = k_out k ++ [r] /\ seq_deq_ok (d_qs s) me r = true.
Proof. exact DqProofs.dq_seq_accept_sound. Qed.
Print Assumptions dq_seq_accept_sound.
