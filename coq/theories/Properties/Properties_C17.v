From Coq Require Import List NArith.
From QV Require Import Qarray.Model.
Theorem placeholder : True. Proof. exact I. Qed.
Print Assumptions placeholder.
