(* C17 — qarray: element addressing, ownership and iteration.  Property theorems only;
   the proofs are in Qarray/Proofs.v, the model in Qarray/Model.v (tied to /repo by ./check C17). *)
From Coq Require Import List NArith.
From QV Require Import Qarray.Model Qarray.Proofs Qarray.ProofsHash Qarray.ProofsDist Qarray.ProofsFields Qarray.ProofsAll.
Local Open Scope N_scope.

(* For every count, object size, distribution, tight flag, seg_pages, page size and shepherd count that the
   code accepts (segment_size > 0 is the code's own assertion), the created layout is well formed ... *)
Theorem c17_create_layout_wf :
  forall count obj d tight segpages pagesize nsheps oshep,
    0 < obj -> 0 < pagesize ->
    0 < d_segsize (create count obj d tight segpages pagesize nsheps oshep) ->
    layout_wf (create count obj d tight segpages pagesize nsheps oshep).
Proof. exact create_layout_wf. Qed.
Print Assumptions c17_create_layout_wf.

(* ... the unit size is at least the object size, and a multiple of 8 unless tight ... *)
Theorem c17_unit_size :
  forall obj tight, obj <= unit_size_of obj tight /\ (unit_size_of obj false) mod 8 = 0.
Proof. intros; split; [apply unit_size_ge | apply unit_size_padded]. Qed.
Print Assumptions c17_unit_size.

(* ... qarray_elem yields addresses at least unit_size apart (hence distinct) ... *)
Theorem c17_elem_distinct_apart :
  forall a i j, layout_wf a -> i < j -> elem_off a i + d_unit a <= elem_off a j.
Proof. exact elem_off_mono. Qed.
Print Assumptions c17_elem_distinct_apart.

(* ... and inside the allocation of segment_count * segment_bytes bytes. *)
Theorem c17_elem_in_bounds :
  forall a i, layout_wf a -> i < d_count a ->
    elem_off a i + d_unit a <= seg_count (d_count a) (d_segsize a) * d_segbytes a.
Proof. exact elem_in_allocation. Qed.
Print Assumptions c17_elem_in_bounds.

(* qarray_shepof maps every index to a valid shepherd, for all nine creation-time distributions
   (random / least-loaded assignments enter as the arbitrary functions oshep, asg) ... *)
Theorem c17_shepof_valid :
  forall count obj d tight segpages pagesize nsheps oshep asg i,
    0 < nsheps -> oshep < nsheps -> (forall s, asg s < nsheps) ->
    let a := create count obj d tight segpages pagesize nsheps oshep in
    0 < d_segsize a -> i < count -> shepof nsheps asg a i < nsheps.
Proof. exact shepof_valid. Qed.
Print Assumptions c17_shepof_valid.

(* ... consistently with the segment layout: constant on a segment. *)
Theorem c17_shepof_per_segment :
  forall nsheps asg a i j, i / d_segsize a = j / d_segsize a -> shepof nsheps asg a i = shepof nsheps asg a j.
Proof. exact shepof_same_segment. Qed.
Print Assumptions c17_shepof_per_segment.

(* Iteration visits every index of [start,stop) exactly once, on its owner: ALL_SAME arrays, every sub-range. *)
Theorem c17_iter_exact_all_same :
  forall nsheps asg a start stop,
    d_kind a = ALL_SAME -> 0 < d_segsize a -> start < stop ->
    iter_exact nsheps asg a start stop (iter nsheps asg a start stop) /\
    iter_exact nsheps asg a start stop (iter_loop nsheps asg a start stop).
Proof. exact iter_exact_allsame. Qed.
Print Assumptions c17_iter_exact_all_same.

(* FIXED_HASH arrays (the default of qarray_create), any number of shepherds, any segment size: EVERY non-empty
   range [start, stop) -- aligned to segment boundaries or not -- is visited exactly once, each index on the
   shepherd that owns it, by qarray_iter and by the loop striders. *)
Theorem c17_iter_exact_fixed_hash :
  forall nsheps asg a start stop,
    d_kind a = FIXED_HASH -> 0 < nsheps -> 0 < d_segsize a -> start < stop ->
    iter_exact nsheps asg a start stop (iter nsheps asg a start stop) /\
    iter_exact nsheps asg a start stop (iter_loop nsheps asg a start stop).
Proof. intros nsheps asg a start stop K Hn Hss. exact (iter_exact_hash nsheps asg a K Hn Hss start stop). Qed.
Print Assumptions c17_iter_exact_fixed_hash.

(* the hypotheses are satisfiable by a real multi-shepherd descriptor and an unaligned range *)
Example c17_hash_nonvacuous :
  let a := create 5000 8 dFIXED_HASH false 1 4096 3 0 in
  d_kind a = FIXED_HASH /\ 0 < d_segsize a /\ (100 mod d_segsize a <> 0) /\ 100 < 4000 <= d_count a.
Proof. vm_compute. repeat split; discriminate. Qed.

(* DIST arrays (DIST, DIST_RAND, DIST_STRIPES, DIST_FIELDS, DIST_LEAST: any assignment asg of segments to valid
   shepherds), every non-empty range. *)
Theorem c17_iter_exact_dist :
  forall nsheps asg a start stop,
    d_kind a = DIST -> 0 < nsheps -> 0 < d_segsize a -> (forall q, asg q < nsheps) -> start < stop ->
    iter_exact nsheps asg a start stop (iter nsheps asg a start stop) /\
    iter_exact nsheps asg a start stop (iter_loop nsheps asg a start stop).
Proof. intros nsheps asg a start stop K Hn Hss Hasg. exact (iter_exact_dist nsheps asg a K Hn Hss Hasg start stop). Qed.
Print Assumptions c17_iter_exact_dist.

(* FIXED_FIELDS arrays (contiguous runs of segments per shepherd, the first `extras` shepherds own one more),
   every non-empty range. *)
Theorem c17_iter_exact_fixed_fields :
  forall nsheps asg a start stop,
    d_kind a = FIXED_FIELDS -> 0 < d_segsize a -> 0 < d_sps a -> start < stop ->
    iter_exact nsheps asg a start stop (iter nsheps asg a start stop) /\
    iter_exact nsheps asg a start stop (iter_loop nsheps asg a start stop).
Proof. intros nsheps asg a start stop K Hss Hsps. exact (iter_exact_fields nsheps asg a K Hss Hsps start stop). Qed.
Print Assumptions c17_iter_exact_fixed_fields.

(* THE property: for every array qarray_create_configured can produce (any count, unit size, tight flag, seg_pages,
   page size, all eleven creation-time distributions, any number of shepherds) and every non-empty range
   [start, stop): qarray_iter and the loop striders (qarray_iter_loop, _constloop) invoke the function on every index
   of the range exactly once, each on the shepherd that owns the element, and on nothing else. *)
Theorem c17_iter_exact_every_array :
  forall count obj d tight segpages pagesize nsheps oshep asg start stop,
    let a := create count obj d tight segpages pagesize nsheps oshep in
    0 < nsheps -> 0 < d_segsize a -> (forall q, asg q < nsheps) -> start < stop ->
    iter_exact nsheps asg a start stop (iter nsheps asg a start stop) /\
    iter_exact nsheps asg a start stop (iter_loop nsheps asg a start stop).
Proof. exact iter_exact_created. Qed.
Print Assumptions c17_iter_exact_every_array.

(* non-vacuity for FIXED_FIELDS / DIST with unaligned ranges on several shepherds *)
Example c17_fields_dist_nonvacuous :
  let a := create 50000 8 dFIXED_FIELDS false 1 4096 3 0 in
  let b := create 50000 3 dDIST_STRIPES true 1 4096 3 0 in
  d_kind a = FIXED_FIELDS /\ 0 < d_segsize a /\ 0 < d_sps a /\ d_kind b = DIST /\ 0 < d_segsize b /\
  (777 mod d_segsize a <> 0) /\ (777 mod d_segsize b <> 0).
Proof. vm_compute. repeat split; discriminate. Qed.

(* DIST arrays: the shepherd id stored in each segment lies behind the last element, 4-byte aligned, inside the
   segment -- for every size combination the code accepts (unit sizes below 4 included). *)
Theorem c17_dist_slot_fits :
  forall count obj d tight segpages pagesize nsheps oshep,
    is_dist d = true ->
    let a := create count obj d tight segpages pagesize nsheps oshep in
    0 < d_segsize a -> slot_fits a = true /\ (shep_slot a) mod 4 = 0.
Proof. exact dist_slot_fits. Qed.
Print Assumptions c17_dist_slot_fits.
