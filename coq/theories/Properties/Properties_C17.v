(* C17 — qarray: element addressing, ownership and iteration.  Property theorems only;
   the proofs are in Qarray/Proofs.v, the model in Qarray/Model.v (tied to /repo by ./check C17). *)
From Coq Require Import List NArith.
From QV Require Import Qarray.Model Qarray.Proofs Qarray.ProofsHash Qarray.ProofsDist.
Local Open Scope N_scope.

(* For every count, object size, distribution, tight flag, seg_pages, page size and shepherd count that the
   code accepts (segment_size > 0 is the code's own assertion), the created layout is well formed ... *)
Theorem c17_create_layout_wf :
  forall count obj d tight segpages pagesize nsheps oshep,
    0 < obj -> 0 < pagesize ->
    0 < d_segsize (create count obj d tight segpages pagesize nsheps oshep) ->
    layout_wf (create count obj d tight segpages pagesize nsheps oshep).
Proof. exact create_layout_wf. Qed.
Print Assumptions c17_create_layout_wf.

(* ... the unit size is at least the object size, and a multiple of 8 unless tight ... *)
Theorem c17_unit_size :
  forall obj tight, obj <= unit_size_of obj tight /\ (unit_size_of obj false) mod 8 = 0.
Proof. intros; split; [apply unit_size_ge | apply unit_size_padded]. Qed.
Print Assumptions c17_unit_size.

(* ... qarray_elem yields addresses at least unit_size apart (hence distinct) ... *)
Theorem c17_elem_distinct_apart :
  forall a i j, layout_wf a -> i < j -> elem_off a i + d_unit a <= elem_off a j.
Proof. exact elem_off_mono. Qed.
Print Assumptions c17_elem_distinct_apart.

(* ... and inside the allocation of segment_count * segment_bytes bytes. *)
Theorem c17_elem_in_bounds :
  forall a i, layout_wf a -> i < d_count a ->
    elem_off a i + d_unit a <= seg_count (d_count a) (d_segsize a) * d_segbytes a.
Proof. exact elem_in_allocation. Qed.
Print Assumptions c17_elem_in_bounds.

(* qarray_shepof maps every index to a valid shepherd, for all nine creation-time distributions
   (random / least-loaded assignments enter as the arbitrary functions oshep, asg) ... *)
Theorem c17_shepof_valid :
  forall count obj d tight segpages pagesize nsheps oshep asg i,
    0 < nsheps -> oshep < nsheps -> (forall s, asg s < nsheps) ->
    let a := create count obj d tight segpages pagesize nsheps oshep in
    0 < d_segsize a -> i < count -> shepof nsheps asg a i < nsheps.
Proof. exact shepof_valid. Qed.
Print Assumptions c17_shepof_valid.

(* ... consistently with the segment layout: constant on a segment. *)
Theorem c17_shepof_per_segment :
  forall nsheps asg a i j, i / d_segsize a = j / d_segsize a -> shepof nsheps asg a i = shepof nsheps asg a j.
Proof. exact shepof_same_segment. Qed.
Print Assumptions c17_shepof_per_segment.

(* Iteration visits every index of [start,stop) exactly once, on its owner: ALL_SAME arrays, every sub-range. *)
Theorem c17_iter_exact_all_same :
  forall nsheps asg a start stop,
    d_kind a = ALL_SAME -> 0 < d_segsize a -> start < stop ->
    iter_exact nsheps asg a start stop (iter nsheps asg a start stop) /\
    iter_exact nsheps asg a start stop (iter_loop nsheps asg a start stop).
Proof. exact iter_exact_allsame. Qed.
Print Assumptions c17_iter_exact_all_same.

(* FIXED_HASH arrays (the default of qarray_create), any number of shepherds, any segment size: every range that
   starts on a segment boundary is visited exactly once, each index on the shepherd that owns it, by qarray_iter
   and by the loop striders.  The guard `start mod segment_size = 0` excludes exactly the known finding below. *)
Theorem c17_iter_exact_fixed_hash_aligned :
  forall nsheps asg a start stop,
    d_kind a = FIXED_HASH -> 0 < nsheps -> 0 < d_segsize a ->
    start mod d_segsize a = 0 -> start < stop ->
    iter_exact nsheps asg a start stop (iter nsheps asg a start stop) /\
    iter_exact nsheps asg a start stop (iter_loop nsheps asg a start stop).
Proof. intros nsheps asg a start stop K Hn Hss. exact (iter_exact_hash_aligned nsheps asg a K Hn Hss start stop). Qed.
Print Assumptions c17_iter_exact_fixed_hash_aligned.

(* the hypotheses are satisfiable by a real multi-shepherd descriptor *)
Example c17_hash_nonvacuous :
  let a := create 5000 8 dFIXED_HASH false 1 4096 3 0 in
  d_kind a = FIXED_HASH /\ 0 < d_segsize a /\ (512 mod d_segsize a = 0) /\ 512 < 4000 <= d_count a.
Proof. vm_compute. repeat split; discriminate. Qed.

(* DIST arrays (DIST, DIST_RAND, DIST_STRIPES, DIST_FIELDS, DIST_LEAST: any assignment asg of segments to valid
   shepherds): same statement, same guard. *)
Theorem c17_iter_exact_dist_aligned :
  forall nsheps asg a start stop,
    d_kind a = DIST -> 0 < nsheps -> 0 < d_segsize a -> (forall q, asg q < nsheps) ->
    start mod d_segsize a = 0 -> start < stop ->
    iter_exact nsheps asg a start stop (iter nsheps asg a start stop) /\
    iter_exact nsheps asg a start stop (iter_loop nsheps asg a start stop).
Proof. intros nsheps asg a start stop K Hn Hss Hasg. exact (iter_exact_dist_aligned nsheps asg a K Hn Hss Hasg start stop). Qed.
Print Assumptions c17_iter_exact_dist_aligned.

(* The full statement (iter_exact for every kind and every sub-range) is FALSE of the faithful model, i.e. of
   the unchanged code: witnesses (replayed on the real code by ./check C17; known_findings.json). *)
Theorem c17_strider_midsegment_refuted :
  exists a start stop,
    d_kind a = FIXED_HASH /\ start < stop <= d_count a /\ start mod d_segsize a <> 0 /\
    iter_exact_b 2 (fun _ => 0) a start stop (iter_loop 2 (fun _ => 0) a start stop) 512 = false.
Proof. exact strider_midsegment_refuted. Qed.
Print Assumptions c17_strider_midsegment_refuted.

Theorem c17_fields_loopstrider_refuted :
  exists a start stop,
    d_kind a = FIXED_FIELDS /\ start < stop <= d_count a /\
    covers (loop_strider 1 (fun _ => 0) a 0 start stop) (stop - 1) = 0%nat.
Proof. exact fields_loopstrider_refuted. Qed.
Print Assumptions c17_fields_loopstrider_refuted.

Theorem c17_fields_midregion_refuted :
  exists a start stop,
    d_kind a = FIXED_FIELDS /\ start < stop <= d_count a /\
    iter_exact_b 2 (fun _ => 0) a start stop (iter 2 (fun _ => 0) a start stop) 2049 = false.
Proof. exact fields_midregion_refuted. Qed.
Print Assumptions c17_fields_midregion_refuted.

(* DIST: the shepherd-id slot does not fit behind the elements for every size combination. *)
Theorem c17_shep_slot_refuted :
  exists count obj segpages pagesize,
    let a := create count obj dDIST true segpages pagesize 2 0 in
    0 < d_segsize a /\ slot_fits a = false.
Proof. exact shep_slot_refuted. Qed.
Print Assumptions c17_shep_slot_refuted.
