(* C03, extension R: the two halves of the syncvar proof are linked.  Syncvar/Model.v is the concrete op-atomic model of
   syncvar.c (tied to the code by replay, mode M2; Syncvar/Proofs.v step_refines: each call is one spec_step of the abstract
   cell of CellSpec.v); Syncvar/History.v is the history-level definition (linearisation respecting real time, quiescence,
   the lazily decided incrF) whose extracted acceptor judges the free-running traces of the real code (mode M4).  The
   theorems below say that every run of the concrete model IS such a history: sv_hist_of_run s0 script v
   (Syncvar/ModelHistoryDefs.v) gives each call on variable v an invocation ticket when it is issued and a return ticket
   when the model's `Ret` event for it is emitted, and leaves it pending when the run ends with the task blocked.
   Statements only; proofs in Syncvar/ModelHistory.v, examples in Syncvar/ModelHistoryExamples.v. *)
From Coq Require Import List NArith Bool Permutation Sorted.
Import ListNotations.
From QV Require Import Syncvar.Defs Syncvar.CellSpec Syncvar.Model Syncvar.Proofs Syncvar.History Syncvar.HistoryProofs
  Syncvar.HistoryComplete Syncvar.HistoryDecl Syncvar.ModelHistoryDefs Syncvar.ModelHistory Syncvar.ModelHistoryCert
  Syncvar.ModelHistoryExamples.
Local Open Scope N_scope.

(* every script (any tasks, any variables, steps of busy tasks and on missing variables included) from well-shaped
   variables: the history of a variable that starts without waiters is explained, from its initial cell to the cell the
   model ends in *)
Theorem sv_model_runs_are_explained : forall (s0 : state) (script : list (N * N * op)) (v0 : N) (x0 : svar),
  state_ok s0 -> lookup s0 v0 = Some x0 -> rec x0 = None ->
  explained (cell_of_var x0) (sv_hist_of_run s0 script v0) (cell_at (state_after s0 script) v0).
Proof. exact sv_model_runs_are_explained. Qed.
Print Assumptions sv_model_runs_are_explained.

(* hence the acceptor of the M4 tier never rejects a run of the M2 model, whatever its fuel *)
Theorem sv_model_runs_are_accepted : forall (fuel : N) (s0 : state) (script : list (N * N * op)) (v0 : N) (x0 : svar),
  state_ok s0 -> lookup s0 v0 = Some x0 -> rec x0 = None ->
  decide fuel (cell_of_var x0) (sv_hist_of_run s0 script v0) (cell_at (state_after s0 script) v0) <> Reject.
Proof. exact sv_model_runs_are_accepted. Qed.
Print Assumptions sv_model_runs_are_accepted.

(* in the declarative reading (svhist_lazy_is_declarative): a real-time respecting order of the completed calls that is a
   run of dlin - every call atomic, an incrF on an empty variable fills it exactly when the next call is a reader that was
   waiting - ending in the model's final cell, and no call of a task still blocked is enabled there *)
Theorem sv_model_runs_declarative : forall (s0 : state) (script : list (N * N * op)) (v0 : N) (x0 : svar),
  state_ok s0 -> lookup s0 v0 = Some x0 -> rec x0 = None ->
  exists l, Permutation l (completed (sv_hist_of_run s0 script v0)) /\ StronglySorted rt_compat l /\
            dlin (cell_of_var x0) l (cell_at (state_after s0 script) v0) /\
            (forall p, In p (sv_hist_of_run s0 script v0) -> h_ret p = None ->
                       enabled (cell_at (state_after s0 script) v0) (h_op p) = false).
Proof. exact sv_model_runs_declarative. Qed.
Print Assumptions sv_model_runs_declarative.

(* the variables the scripts start from: the four initialisers give well-shaped variables *)
Theorem sv_initialisers_wellshaped : forall (kind v : N),
  shape (mkV (match kind with 0 => SYNCVAR_INITIALIZER | 1 => SYNCVAR_EMPTY_INITIALIZER | 2 => SYNCVAR_INITIALIZE_TO v
                         | _ => SYNCVAR_EMPTY_INITIALIZE_TO v end) None).
Proof. exact init_word_shape. Qed.
Print Assumptions sv_initialisers_wellshaped.

Theorem sv_explained_order_irrelevant : forall (c0 : cell) (h h' : list hop) (cfin : cell),
  Permutation h h' -> explained c0 h cfin -> explained c0 h' cfin.
Proof. exact explained_perm. Qed.
Print Assumptions sv_explained_order_irrelevant.

(* the certificate checker is complete (not only sound): an explained history whose completed calls have distinct ids has a
   certificate that check_lin accepts; with svhist_certificate_sound: explained <-> some certificate checks *)
Theorem sv_explained_has_certificate : forall (c0 : cell) (h : list hop) (cfin : cell),
  NoDup (map h_id (completed h)) -> explained c0 h cfin -> exists w, check_lin c0 h cfin w = true.
Proof. exact explained_has_certificate. Qed.
Print Assumptions sv_explained_has_certificate.

(* ... and every run of the model has one (ids = invocation tickets, all distinct) *)
Theorem sv_model_runs_have_certificate : forall (s0 : state) (script : list (N * N * op)) (v0 : N) (x0 : svar),
  state_ok s0 -> lookup s0 v0 = Some x0 -> rec x0 = None ->
  exists w, check_lin (cell_of_var x0) (sv_hist_of_run s0 script v0) (cell_at (state_after s0 script) v0) w = true.
Proof. exact sv_model_runs_have_certificate. Qed.
Print Assumptions sv_model_runs_have_certificate.
